-- Root of the `SoxrModel` library.
import SoxrModel.Basic
import SoxrModel.Cr.Model
import SoxrModel.Cr.Driver
