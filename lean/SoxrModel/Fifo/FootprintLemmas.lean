import SoxrModel.Fifo.Footprint
/-! Lemmas about the buffer-footprint model (core Lean only). -/
namespace Soxr.Footprint

theorem ilenOf_le (iForO : Nat) (k : Call) : ilenOf iForO k ≤ k.ilen0 := by
  unfold ilenOf
  split
  · split
    · exact Nat.min_le_right _ _
    · exact Nat.le_refl _
  · exact Nat.zero_le _

theorem ptr_slot (u ch p : Nat) (h : u < ch) : u * p + p ≤ ch * p := by
  have := Nat.mul_le_mul_right p (Nat.succ_le_of_lt h)
  rw [Nat.succ_mul] at this
  exact this

theorem inputAcc_inBounds (c : Cfg) (s : Src) (len ilen olen : Nat) (h : len ≤ srcLen ilen s) :
    ∀ a ∈ inputAcc c s len, a.inBounds (objSize c ilen olen) := by
  intro a ha
  unfold inputAcc at ha
  by_cases hs : c.iSplit = true
  · rw [if_pos hs] at ha
    simp only [List.mem_flatMap, List.mem_range, List.mem_cons, List.not_mem_nil, or_false] at ha
    obtain ⟨u, hu, ha | ha⟩ := ha
    · subst ha
      right
      simp only [objSize, hs, if_true]
      exact ptr_slot u c.ch c.ptrSize hu
    · subst ha
      right
      simp only [objSize, hs, hu, and_self, if_true, Nat.zero_add]
      exact Nat.mul_le_mul_right _ h
  · rw [if_neg hs] at ha
    simp only [List.mem_cons, List.not_mem_nil, or_false] at ha
    subst ha
    right
    simp only [objSize, hs, Nat.zero_add]
    exact Nat.mul_le_mul_right _ (Nat.mul_le_mul_right _ h)

theorem outputDone_le (c : Cfg) (olen : Nat) (hch : 0 < c.ch) :
    ∀ (its : List Iter) (w : Nat), w ≤ olen → Deliv c olen w its → w + outputDone c its ≤ olen := by
  intro its
  induction its with
  | nil => intro w hw _; simpa [outputDone] using hw
  | cons it rest ih =>
    intro w hw h
    obtain ⟨d, sup⟩ := it
    obtain ⟨_, hd, hrest⟩ := h
    have h1 : d (c.ch - 1) ≤ olen - w := hd _ (by omega)
    have := ih (w + d (c.ch - 1)) (by omega) hrest
    simp only [outputDone]
    omega

theorem mul3_add (w d a b : Nat) : w * a * b + d * a * b = (w + d) * a * b := by
  rw [Nat.add_mul, Nat.add_mul]

/-- one `soxr_output_no_callback` under E2 and the excluding hypotheses. -/
theorem outNoCb_inBounds (v : Variant) (c : Cfg) (ilen olen w : Nat) (d : Nat → Nat) (hch : 0 < c.ch)
    (hw : w ≤ olen) (hd : ∀ u, u < c.ch → d u ≤ olen - w)
    (hF2 : c.oSplit = false → v.ptrReadAlways = true → w * c.ch * c.osz + c.ch * c.ptrSize ≤ olen * c.ch * c.osz)
    (hF15 : c.oSplit = true → v.pullAdvancesArray = true → w = 0) :
    ∀ a ∈ outNoCb v c w d, a.inBounds (objSize c ilen olen) := by
  intro a ha
  unfold outNoCb at ha
  simp only [List.mem_append] at ha
  rcases ha with ha | ha
  · -- the pointer-array reads
    by_cases hs : c.oSplit = true
    · simp only [hs, Bool.true_or, if_true, Bool.true_and, List.mem_map, List.mem_range] at ha
      obtain ⟨u, hu, rfl⟩ := ha
      right
      simp only [objSize, hs, if_true]
      by_cases hp : v.pullAdvancesArray = true
      · have := hF15 hs hp
        subst this
        simp only [hp, Bool.not_true, Nat.zero_mul]
        simpa using ptr_slot u c.ch c.ptrSize hu
      · simp only [hp, Bool.not_false, if_true, Nat.zero_add]
        exact ptr_slot u c.ch c.ptrSize hu
    · have hs' : c.oSplit = false := by simpa using hs
      by_cases hp : v.ptrReadAlways = true
      · simp only [hs', hp, Bool.false_or, if_true, Bool.false_and, List.mem_map, List.mem_range] at ha
        obtain ⟨u, hu, rfl⟩ := ha
        right
        simp only [objSize, hs', Bool.false_eq_true, if_false]
        have h1 := hF2 hs' hp
        have h2 := ptr_slot u c.ch c.ptrSize hu
        omega
      · simp [hs', hp] at ha
  · -- the sample writes
    by_cases hs : c.oSplit = true
    · simp only [hs, if_true, List.mem_map, List.mem_range] at ha
      obtain ⟨u, hu, rfl⟩ := ha
      have hdu := hd u hu
      by_cases hp : v.pullAdvancesArray = true
      · have := hF15 hs hp
        subst this
        right
        have hz : (0 : Nat) % c.ptrSize = 0 := Nat.zero_mod _
        simp only [splitTarget, hp, if_true, Nat.zero_mul, hz, Nat.zero_div, Nat.zero_add, hu, and_self, objSize, hs]
        exact Nat.mul_le_mul_right _ (by omega)
      · right
        simp only [splitTarget, hp, Bool.false_eq_true, if_false, objSize, hs, hu, and_self, if_true]
        rw [← Nat.add_mul]
        exact Nat.mul_le_mul_right _ (by omega)
    · have hs' : c.oSplit = false := by simpa using hs
      simp only [hs', Bool.false_eq_true, if_false, List.mem_cons, List.not_mem_nil, or_false] at ha
      subst ha
      right
      simp only [objSize, hs', Bool.false_eq_true, if_false]
      rw [mul3_add]
      have hdu := hd (c.ch - 1) (by omega)
      exact Nat.mul_le_mul_right _ (Nat.mul_le_mul_right _ (by omega))

theorem outputAcc_inBounds (v : Variant) (c : Cfg) (ilen olen : Nat) (hch : 0 < c.ch) :
    ∀ (its : List Iter) (w : Nat), Deliv c olen w its → Excl v c olen w its →
      ∀ a ∈ outputAcc v c w its, a.inBounds (objSize c ilen olen) := by
  intro its
  induction its with
  | nil => intro w _ _ a ha; simp [outputAcc] at ha
  | cons it rest ih =>
    intro w hdl hex a ha
    obtain ⟨d, sup⟩ := it
    obtain ⟨hw, hd, hdl'⟩ := hdl
    obtain ⟨hF2, hF15, hex'⟩ := hex
    simp only [outputAcc, List.mem_append] at ha
    rcases ha with (ha | ha) | ha
    · exact outNoCb_inBounds v c ilen olen w d hch hw hd hF2 hF15 a ha
    · split at ha
      · simp at ha
      · exact inputAcc_inBounds c (.fn sup) sup ilen olen (Nat.le_refl _) a ha
    · exact ih _ hdl' hex' a ha

/-- `Excl` is vacuous for the repaired code. -/
theorem excl_repaired (c : Cfg) (olen : Nat) : ∀ (its : List Iter) (w : Nat), Excl Variant.repaired c olen w its := by
  intro its
  induction its with
  | nil => intro w; trivial
  | cons it rest ih =>
    intro w
    obtain ⟨d, sup⟩ := it
    exact ⟨fun _ h => by simp [Variant.repaired] at h, fun _ h => by simp [Variant.repaired] at h, ih _⟩

theorem processGeneric_inBounds (v : Variant) (c : Cfg) (k : Call) (iForO : Nat) (err : Bool) (its : List Iter)
    (hch : 0 < c.ch) (hdl : Deliv c k.olen 0 its) (hex : Excl v c k.olen 0 its) :
    (processGeneric v c k iForO err its).inBounds c k.ilen0 k.olen := by
  intro a ha
  simp only [processGeneric, List.mem_append] at ha
  rcases ha with ha | ha
  · split at ha
    · exact inputAcc_inBounds c .call _ k.ilen0 k.olen (ilenOf_le iForO k) a ha
    · simp at ha
  · exact outputAcc_inBounds v c k.ilen0 k.olen hch its 0 hdl hex a ha

theorem processSplit_inBounds (c : Cfg) (k : Call) (iForO : Nat) (d : Nat → Nat)
    (hi : c.iSplit = true) (ho : c.oSplit = true) (hd : ∀ u, u < c.ch → d u ≤ k.olen) :
    (processSplit c k iForO d).inBounds c k.ilen0 k.olen := by
  intro a ha
  simp only [processSplit, List.mem_flatMap, List.mem_range, List.mem_append] at ha
  obtain ⟨u, hu, ha | ha⟩ := ha
  · split at ha
    · simp only [List.mem_cons, List.not_mem_nil, or_false] at ha
      rcases ha with rfl | rfl
      · right
        simp only [objSize, hi, if_true]
        exact ptr_slot u c.ch c.ptrSize hu
      · right
        simp only [objSize, hi, hu, and_self, if_true, srcLen, Nat.zero_add]
        exact Nat.mul_le_mul_right _ (ilenOf_le iForO k)
    · simp at ha
  · simp only [List.mem_cons, List.not_mem_nil, or_false] at ha
    rcases ha with rfl | rfl
    · right
      simp only [objSize, ho, if_true]
      exact ptr_slot u c.ch c.ptrSize hu
    · right
      simp only [objSize, ho, hu, and_self, if_true, Nat.zero_add]
      exact Nat.mul_le_mul_right _ (hd u hu)

end Soxr.Footprint
