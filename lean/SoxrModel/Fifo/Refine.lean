import SoxrModel.Fifo.Lemmas
/-!
# The abstract queue and the forward simulation of the byte-level FIFO, one call at a time

The abstract object is the byte queue `q : List β` (an item is `item_size` consecutive bytes; `n` items are
`n * item_size` bytes).  `QStep` is the specification of each `fifo.h` call on it; `step_sim` says the byte-level
model follows it from every state satisfying the invariant, keeps the invariant, and only ever hands out
(offset, length) pairs inside the current block.
-/
namespace Soxr.Fifo

variable {β : Type}

/-- One call on the abstract queue (`sz = item_size`).  `reserve` is the only non-deterministic call: the reserved
    bytes are whatever the block held (the caller is about to overwrite them). -/
inductive QStep (sz : Nat) : List β → Op β → List β → Prop
  | reserve (q : List β) (n : Nat) (tail : List β) : tail.length = n * sz → QStep sz q (.reserve n) (q ++ tail)
  | write (q : List β) (n : Nat) (bytes : List β) : n * sz ≤ bytes.length →
      QStep sz q (.write n bytes) (q ++ bytes.take (n * sz))
  | readOk (q : List β) (n : Nat) : n * sz ≤ q.length → QStep sz q (.read n) (q.drop (n * sz))
  | readFail (q : List β) (n : Nat) : q.length < n * sz → QStep sz q (.read n) q
  | trimTo (q : List β) (n : Nat) : n * sz ≤ q.length → QStep sz q (.trimTo n) (q.take (n * sz))
  | trimBy (q : List β) (n : Nat) : n * sz ≤ q.length → QStep sz q (.trimBy n) (q.take (q.length - n * sz))
  | clear (q : List β) : QStep sz q .clear []

/-- a call sequence on the abstract queue. -/
inductive QRun (sz : Nat) : List β → List (Op β) → List β → Prop
  | nil (q : List β) : QRun sz q [] q
  | cons {q q' q'' : List β} {op : Op β} {ops : List (Op β)} :
      QStep sz q op q' → QRun sz q' ops q'' → QRun sz q (op :: ops) q''

/-- the caller's obligations for one call, as a function of the current queue length in bytes:
    `fifo_write` needs a source of at least `n` items; the trims may not remove more than is there. -/
def Op.valid (sz len : Nat) : Op β → Prop
  | .write n bytes => n * sz ≤ bytes.length
  | .trimTo n => n * sz ≤ len
  | .trimBy n => n * sz ≤ len
  | _ => True

/-- queue length (bytes) after a call. -/
def Op.lenAfter (sz len : Nat) : Op β → Nat
  | .reserve n => len + n * sz
  | .write n _ => len + n * sz
  | .read n => if n * sz ≤ len then len - n * sz else len
  | .trimTo n => n * sz
  | .trimBy n => len - n * sz
  | .clear => 0

/-- every call of the sequence meets its obligation (reads may ask for anything). -/
def ValidOps (sz : Nat) : Nat → List (Op β) → Prop
  | _, [] => True
  | len, op :: ops => op.valid sz len ∧ ValidOps sz (op.lenAfter sz len) ops

/-- A returned pointer is good for its length inside the block of the state it was returned in; a pointer from
    `reserve`/`write` is the tail of the queue, one from `read` is the stretch just consumed. -/
def PtrOK (f' : Fifo β) (op : Op β) : Ret → Prop
  | .ptr off len =>
    off + len ≤ f'.allocation ∧ f'.data.length = f'.allocation ∧
    (match op with
     | .read _ => off + len = f'.bgn
     | _ => f'.bgn ≤ off ∧ off + len = f'.end_)
  | _ => True

/-- what one call guarantees. -/
structure StepSpec (fifoMin : Nat) (junk : Nat → β) (f : Fifo β) (op : Op β) (f' : Fifo β) (r : Ret) : Prop where
  eq : step fifoMin junk f op = some (f', r)
  wf : WF f'
  item : f'.itemSize = f.itemSize
  queue : QStep f.itemSize (contents f) op (contents f')
  len : (contents f').length = op.lenAfter f.itemSize (contents f).length
  ptr : PtrOK f' op r

theorem bytesAt_length {f : Fifo β} (h : WF f) {off n : Nat} (hb : off + n ≤ f.allocation) :
    (bytesAt f off n).length = n := by
  have := h.len
  simp only [bytesAt, List.length_take, List.length_drop]; omega

theorem step_sim (fifoMin : Nat) (junk : Nat → β) (f : Fifo β) (op : Op β) (hwf : WF f)
    (hv : op.valid f.itemSize (contents f).length) : ∃ f' r, StepSpec fifoMin junk f op f' r := by
  have hlen := contents_length hwf
  have hbe := hwf.be
  cases op with
  | reserve n =>
    obtain ⟨⟨f', off⟩, hr⟩ := reserve_total fifoMin junk hwf n
    have s := reserve_spec fifoMin junk hwf hr
    have hea := s.wf.ea; have hoe := s.off_end
    have hbl : (bytesAt f' off (n * f.itemSize)).length = n * f.itemSize := bytesAt_length s.wf (by omega)
    refine ⟨f', Ret.ptr off (n * f.itemSize), ?_, s.wf, s.item, ?_, ?_, ?_⟩
    · simp [step, hr]
    · rw [s.queue]; exact QStep.reserve _ _ _ hbl
    · rw [s.queue, List.length_append, hbl]; rfl
    · exact ⟨by omega, s.wf.len, s.off_ge, hoe⟩
  | write n bytes =>
    obtain ⟨⟨f1, off⟩, hr⟩ := reserve_total fifoMin junk hwf n
    have s := reserve_spec fifoMin junk hwf hr
    have hea := s.wf.ea; have hoe := s.off_end; have hog := s.off_ge
    have hv' : n * f.itemSize ≤ bytes.length := hv
    have htl : (bytes.take (n * f.itemSize)).length = n * f.itemSize := by
      rw [List.length_take]; omega
    have hbl : (bytesAt f1 off (n * f.itemSize)).length = n * f.itemSize := bytesAt_length s.wf (by omega)
    have hq1 : (contents f1).length = f1.end_ - f1.bgn := contents_length s.wf
    have hcf : (contents f).length = off - f1.bgn := by
      have := congrArg List.length s.queue
      rw [List.length_append, hbl, hq1] at this
      omega
    have hst : contents (store f1 off (bytes.take (n * f.itemSize))) = contents f ++ bytes.take (n * f.itemSize) := by
      rw [store_tail_contents s.wf hog (by rw [htl]; exact hoe)]
      congr 1
      rw [s.queue, ← hcf, List.take_left']
      rfl
    have hwf' : WF (store f1 off (bytes.take (n * f.itemSize))) := store_wf s.wf (by rw [htl]; omega)
    refine ⟨store f1 off (bytes.take (n * f.itemSize)), Ret.ptr off (n * f.itemSize), ?_, hwf', s.item, ?_, ?_, ?_⟩
    · simp [step, write, hr]
    · rw [hst]; exact QStep.write _ _ _ hv'
    · rw [hst, List.length_append, htl]; rfl
    · exact ⟨by show off + n * f.itemSize ≤ f1.allocation; omega, hwf'.len, hog, hoe⟩
  | read n =>
    by_cases h : n * f.itemSize ≤ f.end_ - f.bgn
    · have hw := read_ok_wf hwf h
      refine ⟨{ f with bgn := f.bgn + n * f.itemSize }, Ret.ptr f.bgn (n * f.itemSize), ?_, hw, rfl, ?_, ?_, ?_⟩
      · simp [step, read_ok h]
      · rw [read_ok_contents]; exact QStep.readOk _ _ (by omega)
      · rw [read_ok_contents, List.length_drop]
        simp only [Op.lenAfter]
        rw [if_pos (by omega)]
      · have := hwf.ea
        exact ⟨by show f.bgn + n * f.itemSize ≤ f.allocation; omega, hwf.len, rfl⟩
    · have h' : f.end_ - f.bgn < n * f.itemSize := Nat.lt_of_not_le h
      refine ⟨f, Ret.null, ?_, hwf, rfl, QStep.readFail _ _ (by omega), ?_, trivial⟩
      · simp [step, read_fail h']
      · simp only [Op.lenAfter]
        rw [if_neg (by omega)]
  | trimTo n =>
    have hv' : n * f.itemSize ≤ (contents f).length := hv
    have hn : n * f.itemSize ≤ f.end_ - f.bgn := by omega
    have hw : WF (trimTo f n) := trimTo_wf hwf (by have := hwf.ea; have := hwf.be; omega)
    refine ⟨trimTo f n, Ret.unit, rfl, hw, rfl, ?_, ?_, trivial⟩
    · rw [trimTo_contents hn]; exact QStep.trimTo _ _ hv'
    · rw [trimTo_contents hn, List.length_take]
      simp only [Op.lenAfter]; omega
  | trimBy n =>
    have hv' : n * f.itemSize ≤ (contents f).length := hv
    have hn : n * f.itemSize ≤ f.end_ - f.bgn := by omega
    refine ⟨trimBy f n, Ret.unit, rfl, trimBy_wf hwf hn, rfl, ?_, ?_, trivial⟩
    · rw [trimBy_contents hwf hn]; exact QStep.trimBy _ _ hv'
    · rw [trimBy_contents hwf hn, List.length_take]
      simp only [Op.lenAfter]; omega
  | clear =>
    refine ⟨clear f, Ret.unit, rfl, clear_wf hwf, rfl, ?_, ?_, trivial⟩
    · rw [clear_contents]; exact QStep.clear _
    · rw [clear_contents]; rfl

/-- The whole run: final state, abstract run, and the pointer condition for every call of the trace. -/
theorem run_sim (fifoMin : Nat) (junk : Nat → β) :
    ∀ (ops : List (Op β)) (f : Fifo β), WF f → ValidOps f.itemSize (contents f).length ops →
      ∃ f' tr, run fifoMin junk f ops = some (f', tr) ∧ WF f' ∧ f'.itemSize = f.itemSize ∧
        QRun f.itemSize (contents f) ops (contents f') ∧
        tr.length = ops.length ∧
        (∀ i (hi : i < tr.length) (hj : i < ops.length), WF (tr[i]).1 ∧ PtrOK (tr[i]).1 ops[i] (tr[i]).2) := by
  intro ops
  induction ops with
  | nil =>
    intro f hwf _
    exact ⟨f, [], rfl, hwf, rfl, QRun.nil _, rfl, fun i hi => absurd hi (Nat.not_lt_zero _)⟩
  | cons op ops ih =>
    intro f hwf hv
    obtain ⟨hv1, hv2⟩ := hv
    obtain ⟨f1, r, s⟩ := step_sim fifoMin junk f op hwf hv1
    have hv2' : ValidOps f1.itemSize (contents f1).length ops := by rw [s.item, s.len]; exact hv2
    obtain ⟨f', tr, hrun, hwf', hitem, hq, hlen, hall⟩ := ih f1 s.wf hv2'
    refine ⟨f', (f1, r) :: tr, ?_, hwf', by rw [hitem, s.item], ?_, by simp [hlen], ?_⟩
    · simp [run, s.eq, hrun]
    · rw [s.item] at hq; exact QRun.cons s.queue hq
    · intro i hi hj
      cases i with
      | zero => exact ⟨s.wf, s.ptr⟩
      | succ k =>
        simp only [List.length_cons, Nat.add_lt_add_iff_right] at hi hj
        simpa using hall k hi hj

end Soxr.Fifo

namespace Soxr.Fifo

variable {β : Type}

/-- The kernels' pattern `p = fifo_reserve(f, n); …write i ≤ n items at p…; fifo_trim_by(f, n - i)`:
    the queue grows by exactly the first `n - k` items at `p`. -/
theorem reserve_trim (fifoMin : Nat) (junk : Nat → β) (f : Fifo β) (n k : Nat) (hwf : WF f) (hk : k ≤ n) :
    ∃ f1 off, reserve fifoMin junk f n = some (f1, off) ∧ WF (trimBy f1 k) ∧
      off + n * f.itemSize ≤ f1.allocation ∧
      (bytesAt f1 off ((n - k) * f.itemSize)).length = (n - k) * f.itemSize ∧
      contents (trimBy f1 k) = contents f ++ bytesAt f1 off ((n - k) * f.itemSize) := by
  obtain ⟨⟨f1, off⟩, hr⟩ := reserve_total fifoMin junk hwf n
  have s := reserve_spec fifoMin junk hwf hr
  have hea := s.wf.ea; have hoe := s.off_end; have hog := s.off_ge
  have hks : k * f.itemSize ≤ n * f.itemSize := Nat.mul_le_mul_right _ hk
  have hsub : (n - k) * f.itemSize = n * f.itemSize - k * f.itemSize := Nat.sub_mul _ _ _
  have hn : k * f1.itemSize ≤ f1.end_ - f1.bgn := by rw [s.item]; omega
  have hbl : (bytesAt f1 off (n * f.itemSize)).length = n * f.itemSize := bytesAt_length s.wf (by omega)
  have hq1 : (contents f1).length = f1.end_ - f1.bgn := contents_length s.wf
  have hcf : (contents f).length = off - f1.bgn := by
    have := congrArg List.length s.queue
    rw [List.length_append, hbl, hq1] at this
    omega
  refine ⟨f1, off, hr, trimBy_wf s.wf hn, by omega, bytesAt_length s.wf (by omega), ?_⟩
  rw [trimBy_contents s.wf hn, hq1, s.item, s.queue]
  have e : f1.end_ - f1.bgn - k * f.itemSize = (contents f).length + (n - k) * f.itemSize := by omega
  rw [e, List.take_append]
  simp only [Nat.add_sub_cancel_left, List.take_of_length_le (Nat.le_add_right _ _)]
  congr 1
  simp only [bytesAt, List.take_take]
  congr 1
  omega

end Soxr.Fifo
