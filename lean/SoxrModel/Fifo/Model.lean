import SoxrModel.Fifo.Generated
/-!
# Byte-level model of `fifo.h`, as written

`fifo_t` is a growable byte block with a read offset `begin` and a write offset `end`:

```
typedef struct { char * data; size_t allocation, item_size, begin, end; } fifo_t;
```

The model keeps the block itself (`data : List β`, one entry per byte; `β` is an arbitrary byte type so that nothing
proved here depends on what a byte is), the three offsets in **bytes** and `item_size`.  Every function below is a
line-by-line transcription of the C function of the same name, including what the code does in states the rest of the
library never produces (`fifo_read` of more than is there returns NULL and changes nothing; `fifo_trim_to` may move
`end` anywhere).  Pointers handed out by the C functions (`data + end`, `data + begin`) are modelled by their
**offset into the current block**; `fifo_ptr_in_bounds` (Properties/C07) is the statement that offset + length never
exceeds `allocation`.

What is *not* modelled (recorded as assumptions by the check): failure of `malloc`/`realloc` (property C20);
`size_t` wrap-around (`n0 * item_size` and `end - n` are computed in `Nat`; the theorems carry the hypotheses under
which C's unsigned arithmetic agrees: `n ≤ end` for `trim_by`); a negative `FIFO_SIZE_T` argument.

`fifoMin` is a parameter of every function (the micro-correspondence also runs the real header compiled with other
`-DFIFO_MIN=` values, which `fifo.h` explicitly supports); `Generated.fifoMin` is the value of the working tree.
Memory the allocator returns uninitialised is `junk i` for the byte at block index `i` — an arbitrary function, so
the theorems hold whatever the allocator leaves there.
-/
namespace Soxr.Fifo

structure Fifo (β : Type) where
  data : List β            -- the block `data[0 .. allocation)`
  allocation : Nat         -- bytes allocated
  itemSize : Nat           -- bytes per item
  bgn : Nat                -- `begin`: offset of the first byte to read
  end_ : Nat               -- `end`: 1 + offset of the last byte to read
  deriving Repr

variable {β : Type}

/-- `n` uninitialised bytes at block indices `start, start+1, …`. -/
def junkBlock (junk : Nat → β) (start n : Nat) : List β := (List.range' start n).map junk

/-- `fifo_create`: `item_size`, `allocation = FIFO_MIN`, `fifo_clear`, `data = malloc(allocation)`. -/
def create (fifoMin : Nat) (junk : Nat → β) (itemSize : Nat) : Fifo β :=
  { data := junkBlock junk 0 fifoMin, allocation := fifoMin, itemSize := itemSize, bgn := 0, end_ := 0 }

/-- `fifo_clear`: `f->end = f->begin = 0`. -/
def clear (f : Fifo β) : Fifo β := { f with bgn := 0, end_ := 0 }

/-- `memmove(data, data + b, e - b)` on the block `d`. -/
def memmoveDown (d : List β) (b e : Nat) : List β := (d.drop b).take (e - b) ++ d.drop (e - b)

/-- The `while (1)` of `fifo_reserve`, with `n` already in bytes.  One unit of fuel per iteration:
    * `end + n <= allocation`  → `p = data + end; end += n; return p`  (result: new state and the offset of `p`);
    * `begin > FIFO_MIN`       → compaction: `memmove(data, data + begin, end - begin); end -= begin; begin = 0; continue`;
    * otherwise                → growth by exactly `n`: `data = realloc(data, allocation + n); allocation += n` (loop again).
    `none` = the loop did not return within the fuel (`reserveLoop_total`: three iterations always suffice when
    `end ≤ allocation`). -/
def reserveLoop (fifoMin : Nat) (junk : Nat → β) (n : Nat) : Nat → Fifo β → Option (Fifo β × Nat)
  | 0, _ => none
  | fuel + 1, f =>
    if f.end_ + n ≤ f.allocation then
      some ({ f with end_ := f.end_ + n }, f.end_)
    else if f.bgn > fifoMin then
      reserveLoop fifoMin junk n fuel
        { f with data := memmoveDown f.data f.bgn f.end_, end_ := f.end_ - f.bgn, bgn := 0 }
    else
      reserveLoop fifoMin junk n fuel
        { f with data := f.data ++ junkBlock junk f.allocation n, allocation := f.allocation + n }

/-- iterations of the reserve loop the model allows (compaction, growth, fit). -/
def reserveFuel : Nat := 3

/-- `fifo_reserve(f, n0)`: `n = n0 * item_size; if (begin == end) fifo_clear(f);` then the loop.
    Result: new state and the offset (into the *new* block) of the `n` reserved bytes. -/
def reserve (fifoMin : Nat) (junk : Nat → β) (f : Fifo β) (n0 : Nat) : Option (Fifo β × Nat) :=
  let n := n0 * f.itemSize
  let f := if f.bgn = f.end_ then clear f else f
  reserveLoop fifoMin junk n reserveFuel f

/-- the caller (or `memcpy` inside `fifo_write`) storing `bytes` at block offset `off`. -/
def store (f : Fifo β) (off : Nat) (bytes : List β) : Fifo β :=
  { f with data := f.data.take off ++ bytes ++ f.data.drop (off + bytes.length) }

/-- `fifo_write(f, n0, data)`: `s = fifo_reserve(f, n0); if (data) memcpy(s, data, n0 * item_size); return s`.
    `src = none` is `data == NULL`. -/
def write (fifoMin : Nat) (junk : Nat → β) (f : Fifo β) (n0 : Nat) (src : Option (List β)) : Option (Fifo β × Nat) :=
  match reserve fifoMin junk f n0 with
  | none => none
  | some (f', off) =>
    match src with
    | none => some (f', off)
    | some bytes => some (store f' off (bytes.take (n0 * f.itemSize)), off)

/-- `fifo_trim_to`: `f->end = f->begin + n0 * item_size`. -/
def trimTo (f : Fifo β) (n0 : Nat) : Fifo β := { f with end_ := f.bgn + n0 * f.itemSize }

/-- `fifo_trim_by`: `f->end -= n0 * item_size` (C wraps below zero; `Nat` truncates — the theorems assume `n ≤ end`). -/
def trimBy (f : Fifo β) (n0 : Nat) : Fifo β := { f with end_ := f.end_ - n0 * f.itemSize }

/-- `fifo_occupancy`: `(end - begin) / item_size`. -/
def occupancy (f : Fifo β) : Nat := (f.end_ - f.bgn) / f.itemSize

/-- `fifo_read(f, n0, data)`: `ret = data + begin; n = n0 * item_size; if (n > end - begin) return NULL;
    [memcpy(data, ret, n);] begin += n; return ret`.  Result: new state and the offset of `ret` (`none` = NULL). -/
def read (f : Fifo β) (n0 : Nat) : Fifo β × Option Nat :=
  let n := n0 * f.itemSize
  if n > f.end_ - f.bgn then (f, none) else ({ f with bgn := f.bgn + n }, some f.bgn)

/-- the `n` bytes at block offset `off` (what `memcpy(data, ret, n)` copies out; what a kernel sees through `ret`). -/
def bytesAt (f : Fifo β) (off n : Nat) : List β := (f.data.drop off).take n

/-- the bytes between `begin` and `end`: the queue the FIFO represents. -/
def contents (f : Fifo β) : List β := bytesAt f f.bgn (f.end_ - f.bgn)

/-! ## Operation sequences -/

inductive Op (β : Type)
  | reserve (n : Nat)                       -- `fifo_reserve(f, n)`; the reserved bytes keep whatever was in the block
  | write (n : Nat) (bytes : List β)        -- `fifo_write(f, n, bytes)` = reserve and fill
  | read (n : Nat)                          -- `fifo_read(f, n, NULL)`
  | trimTo (n : Nat)
  | trimBy (n : Nat)
  | clear
  deriving Repr

/-- what a call returns: nothing, a pointer (as block offset) together with the byte length it is good for, or NULL. -/
inductive Ret
  | unit
  | ptr (off len : Nat)
  | null
  deriving Repr, DecidableEq

/-- one call on the byte-level FIFO (`none` only if the reserve loop ran out of fuel). -/
def step (fifoMin : Nat) (junk : Nat → β) (f : Fifo β) : Op β → Option (Fifo β × Ret)
  | .reserve n => (reserve fifoMin junk f n).map fun r => (r.1, Ret.ptr r.2 (n * f.itemSize))
  | .write n bytes => (write fifoMin junk f n (some bytes)).map fun r => (r.1, Ret.ptr r.2 (n * f.itemSize))
  | .read n =>
    match read f n with
    | (f', some off) => some (f', Ret.ptr off (n * f.itemSize))
    | (f', none) => some (f', Ret.null)
  | .trimTo n => some (trimTo f n, Ret.unit)
  | .trimBy n => some (trimBy f n, Ret.unit)
  | .clear => some (clear f, Ret.unit)

/-- a call sequence; returns the final state and, per call, the state right after it and what it returned. -/
def run (fifoMin : Nat) (junk : Nat → β) : Fifo β → List (Op β) → Option (Fifo β × List (Fifo β × Ret))
  | f, [] => some (f, [])
  | f, op :: ops =>
    match step fifoMin junk f op with
    | none => none
    | some (f', r) =>
      match run fifoMin junk f' ops with
      | none => none
      | some (g, tr) => some (g, (f', r) :: tr)

end Soxr.Fifo
