import SoxrModel.Cr.Model
/-!
# Kernel-level bounds on the count model of the constant-rate engine (`Cr/Model.lean`)

Indices are in items relative to the FIFO's read pointer (`fifo_read_ptr`), so "inside the FIFO" is `index < occ`.

* half-band decimator (`half-fir.h`): `input = read_ptr + pre`, output `i` reads `input[2i - 2n .. 2i + 2n - 1]`
  (the scalar kernel reads `input[2i ± (2j+1)]`, `j < n`, and `input[2i]`; the SSE kernel loads the aligned-out
  groups `input[2i - 2j - 8 .. 2i - 2j - 1]` and `input[2i + 2j .. 2i + 2j + 7]`, which is where `-2n` comes from).
  With `pre = 2n`, `pre_post = 4n` that is `read_ptr[2i .. 2i + 4n - 1]`; when `num_in` is odd the last output
  borrows one frame of the post-context.
* clocked samplers (`poly-fir0.h`, `poly-fir.h`, cubic): output `k` sits at clock `clk + k·step < num_in·den` and
  reads at most `pre_post + 1` items from `⌊·/den⌋`; after the loop `fifo_read(⌊clk'/den⌋)` must succeed, otherwise
  C returns NULL, consumes nothing and still reduces the clock (a silent time slip).
* dft stage (`cr.c:dft_stage_fn`): a block is taken only when `at + L·occ ≥ dft_length`.
-/
namespace Soxr.Cr

/-- half-band: every window of the invocation lies inside the FIFO (odd `num_in` included). -/
theorem half_reads_in_fifo (c : StageCfg) (s : StageSt) (n : Nat) (hpp : c.prePost = 4 * n) :
    ∀ i, i < (halfFn c s).2 → 2 * i + 4 * n ≤ s.occ := by
  intro i hi
  simp only [halfFn, numIn] at hi
  have h1 : min (s.occ - c.prePost) s.isz ≤ s.occ - c.prePost := Nat.min_le_left _ _
  omega

/-- half-band: the `fifo_read(2·num_out)` after the loop succeeds (`n ≥ 1`). -/
theorem half_read_succeeds (c : StageCfg) (s : StageSt) (n : Nat) (hpp : c.prePost = 4 * n) (hn : 0 < n) :
    2 * (halfFn c s).2 ≤ s.occ := by
  simp only [halfFn, numIn]
  have h1 : min (s.occ - c.prePost) s.isz ≤ s.occ - c.prePost := Nat.min_le_left _ _
  omega

/-- hence the model's occupancy really drops by `2·num_out` (no NULL return). -/
theorem half_occ (c : StageCfg) (s : StageSt) (n : Nat) (hpp : c.prePost = 4 * n) (hn : 0 < n) :
    (halfFn c s).1.occ = s.occ - 2 * (halfFn c s).2 := by
  have h := half_read_succeeds c s n hpp hn
  simp only [halfFn] at h ⊢
  exact fifoRead_of_le h

theorem ceilDiv_mul_lt (a b : Nat) (hb : 0 < b) (ha : 0 < a) : ceilDiv a b * b < a + b := by
  unfold ceilDiv
  have := Nat.div_mul_le_self (a + b - 1) b
  omega

theorem lt_ceilDiv_mul (a b k : Nat) (hb : 0 < b) (hk : k < ceilDiv a b) : k * b < a := by
  unfold ceilDiv at hk
  have h1 : (k + 1) * b ≤ a + b - 1 := (Nat.le_div_iff_mul_le hb).mp hk
  rw [Nat.add_mul] at h1
  omega

/-- the loop `for (i = 0; pos < limit; ++i, pos += step)` stops less than one step beyond the limit. -/
theorem loopCount_end (pos step limit : Nat) (hs : 0 < step) (h : pos < limit) :
    pos + loopCount pos step limit * step < limit + step := by
  unfold loopCount
  rw [if_pos h]
  have := ceilDiv_mul_lt (limit - pos) step hs (by omega)
  omega

/-- … and every iteration runs with the clock below the limit. -/
theorem loopCount_body (pos step limit k : Nat) (hs : 0 < step) (hk : k < loopCount pos step limit) :
    pos + k * step < limit := by
  unfold loopCount at hk
  split at hk
  · have := lt_ceilDiv_mul (limit - pos) step k hs hk
    omega
  · omega

/-- frames produced and the advanced clock of one clocked invocation. -/
def clockedCount (c : StageCfg) (s : StageSt) : Nat := loopCount s.clk c.step (numIn c s * c.den)
def clockedClk (c : StageCfg) (s : StageSt) : Nat := s.clk + clockedCount c s * c.step

/-- clocked sampler: the window of every output (`pre_post + 1` items from `⌊clock/den⌋`) lies inside the FIFO. -/
theorem clocked_reads_in_fifo (c : StageCfg) (s : StageSt) (hden : 0 < c.den) (hstep : 0 < c.step) :
    ∀ k, k < clockedCount c s → (s.clk + k * c.step) / c.den + (c.prePost + 1) ≤ s.occ := by
  intro k hk
  have hb := loopCount_body s.clk c.step (numIn c s * c.den) k hstep hk
  have hq : (s.clk + k * c.step) / c.den < numIn c s := (Nat.div_lt_iff_lt_mul hden).mpr hb
  have h1 : numIn c s ≤ s.occ - c.prePost := Nat.min_le_left _ _
  generalize (s.clk + k * c.step) / c.den = q at hq ⊢
  omega

/-- clocked sampler: given the advance clause `step ≤ (pre_post + 1)·den` (and a reduced clock on entry), the
    `fifo_read(⌊clk'/den⌋)` after the loop succeeds. -/
theorem clocked_read_succeeds (c : StageCfg) (s : StageSt) (hden : 0 < c.den) (hstep : 0 < c.step)
    (hadv : c.step ≤ (c.prePost + 1) * c.den) (hclk : s.clk < c.den) :
    clockedClk c s / c.den ≤ s.occ := by
  unfold clockedClk clockedCount
  have h1 : numIn c s ≤ s.occ - c.prePost := Nat.min_le_left _ _
  by_cases hlt : s.clk < numIn c s * c.den
  · have he := loopCount_end s.clk c.step (numIn c s * c.den) hstep hlt
    have h2 : s.clk + loopCount s.clk c.step (numIn c s * c.den) * c.step < (numIn c s + (c.prePost + 1)) * c.den := by
      rw [Nat.add_mul]; omega
    have h3 := (Nat.div_lt_iff_lt_mul hden).mpr h2
    have hpos : 0 < numIn c s := by
      rcases Nat.eq_zero_or_pos (numIn c s) with h0 | h0
      · rw [h0, Nat.zero_mul] at hlt; omega
      · exact h0
    omega
  · have : loopCount s.clk c.step (numIn c s * c.den) = 0 := by unfold loopCount; rw [if_neg hlt]
    rw [this, Nat.zero_mul, Nat.add_zero, Nat.div_eq_of_lt hclk]
    exact Nat.zero_le _

/-- so the model's stage state after the invocation is the successful branch of `fifoRead`, and the clock stays reduced. -/
theorem clocked_state (c : StageCfg) (s : StageSt) (hden : 0 < c.den) (hstep : 0 < c.step)
    (hadv : c.step ≤ (c.prePost + 1) * c.den) (hclk : s.clk < c.den) :
    (clockedFn c s).1.occ = s.occ - (if c.poly0 && numIn c s == 0 then 0 else clockedClk c s / c.den) ∧
    (clockedFn c s).1.clk < c.den := by
  have h := clocked_read_succeeds c s hden hstep hadv hclk
  unfold clockedFn
  by_cases hp : (c.poly0 && numIn c s == 0) = true
  · simp only [hp, if_true]
    exact ⟨by omega, hclk⟩
  · simp only [hp, Bool.false_eq_true, if_false]
    exact ⟨fifoRead_of_le h, Nat.mod_lt _ hden⟩

/-- capacity with the *exact* ratio: the loop produces at most `1 + ⌊num_in·den/step⌋` frames
    (what `1 + (int)(num_in * out_in_ratio)` reserves when `out_in_ratio` is exact). -/
theorem clocked_count_le_exact (c : StageCfg) (s : StageSt) (hstep : 0 < c.step) :
    clockedCount c s ≤ 1 + numIn c s * c.den / c.step := by
  unfold clockedCount loopCount
  split
  · unfold ceilDiv
    have h1 : (numIn c s * c.den - s.clk + c.step - 1) / c.step ≤ (numIn c s * c.den + c.step) / c.step :=
      Nat.div_le_div_right (by omega)
    rw [Nat.add_div_right _ hstep] at h1
    omega
  · exact Nat.zero_le _

/-- dft stage, time-domain path: the `⌈(dft_length − at)/L⌉` items spread into the block are there. -/
theorem dft_reads_in_fifo (c : StageCfg) (s : StageSt) (hL : 0 < c.L) (hgo : s.clk + c.L * s.occ ≥ c.dftLen) :
    ceilDiv (c.dftLen - s.clk) c.L ≤ s.occ := by
  unfold ceilDiv
  have h : c.dftLen - s.clk + c.L - 1 < (s.occ + 1) * c.L := by
    rw [Nat.add_mul, Nat.mul_comm s.occ c.L]; omega
  have := (Nat.div_lt_iff_lt_mul hL).mpr h
  omega

/-- dft stage, F-domain path (`L` a power of two): `memcpy` of `dft_length / L` items; needs `at = 0` (latency clause
    of `PlanWF` for linear phase; false for the non-linear-phase plans of F1). -/
theorem dft_fdomain_reads_in_fifo (c : StageCfg) (s : StageSt) (hL : 0 < c.L) (hgo : s.clk + c.L * s.occ ≥ c.dftLen)
    (hat : s.clk = 0) : c.dftLen / c.L ≤ s.occ := by
  have h : c.dftLen ≤ s.occ * c.L := by rw [Nat.mul_comm]; omega
  calc c.dftLen / c.L ≤ s.occ * c.L / c.L := Nat.div_le_div_right h
    _ = s.occ := Nat.mul_div_cancel _ hL

/-- dft stage: the `fifo_read(quot)` of a block succeeds (`quot = ⌈(block_len − at)/L⌉`, `block_len ≤ dft_length`). -/
theorem dft_read_succeeds (c : StageCfg) (s : StageSt) (hL : 0 < c.L) (hgo : s.clk + c.L * s.occ ≥ c.dftLen) :
    (c.dftLen - (c.numTaps - 1) + c.L - 1 - s.clk) / c.L ≤ s.occ := by
  have h : c.dftLen - (c.numTaps - 1) + c.L - 1 - s.clk < (s.occ + 1) * c.L := by
    rw [Nat.add_mul, Nat.mul_comm s.occ c.L]; omega
  have := (Nat.div_lt_iff_lt_mul hL).mpr h
  omega

/-- E2 for the constant-rate engine: `_soxr_output` never reports more than was asked
    (`n = min(min(-samples_out, n0) or n0, occupancy)`). -/
theorem engine_output_le (e : Eng) (n0 : Nat) : (e.output n0).2.toNat ≤ n0 := by
  simp only [Eng.output, Eng.target]
  split <;> omega

/-- … and never more than the output FIFO holds, so its `fifo_read` succeeds. -/
theorem engine_output_le_occ (e : Eng) (n0 : Nat) : (e.output n0).2.toNat ≤ e.outOcc := by
  simp only [Eng.output]
  omega

end Soxr.Cr
