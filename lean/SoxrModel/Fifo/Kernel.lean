import SoxrModel.Cr.Model
/-!
# Kernel-level bounds on the count model of the constant-rate engine (`Cr/Model.lean`)

Indices are in items relative to the FIFO's read pointer (`fifo_read_ptr`), so "inside the FIFO" is `index < occ`.

* half-band decimator (`half-fir.h`): `input = read_ptr + pre`, output `i` reads `input[2i - 2n .. 2i + 2n - 1]`
  (the scalar kernel reads `input[2i ± (2j+1)]`, `j < n`, and `input[2i]`; the SSE kernel loads the aligned-out
  groups `input[2i - 2j - 8 .. 2i - 2j - 1]` and `input[2i + 2j .. 2i + 2j + 7]`, which is where `-2n` comes from).
  With `pre = 2n`, `pre_post = 4n` that is `read_ptr[2i .. 2i + 4n - 1]`; when `num_in` is odd the last output
  borrows one frame of the post-context.
* clocked samplers (`poly-fir0.h`, `poly-fir.h`, cubic): output `k` sits at clock `clk + k·step < num_in·den` and
  reads at most `pre_post + 1` items from `⌊·/den⌋`; after the loop `fifo_read(⌊clk'/den⌋)` must succeed, otherwise
  C returns NULL, consumes nothing and still reduces the clock (a silent time slip).
* dft stage (`cr.c:dft_stage_fn`): a block is taken only when `at + L·occ ≥ dft_length`.
-/
namespace Soxr.Cr

/-- half-band: every window of the invocation lies inside the FIFO (odd `num_in` included). -/
theorem half_reads_in_fifo (c : StageCfg) (s : StageSt) (n : Nat) (hpp : c.prePost = 4 * n) :
    ∀ i, i < (halfFn c s).2 → 2 * i + 4 * n ≤ s.occ := by
  intro i hi
  simp only [halfFn, numIn] at hi
  have h1 : min (s.occ - c.prePost) s.isz ≤ s.occ - c.prePost := Nat.min_le_left _ _
  omega

/-- half-band: the `fifo_read(2·num_out)` after the loop succeeds (`n ≥ 1`). -/
theorem half_read_succeeds (c : StageCfg) (s : StageSt) (n : Nat) (hpp : c.prePost = 4 * n) (hn : 0 < n) :
    2 * (halfFn c s).2 ≤ s.occ := by
  simp only [halfFn, numIn]
  have h1 : min (s.occ - c.prePost) s.isz ≤ s.occ - c.prePost := Nat.min_le_left _ _
  omega

/-- hence the model's occupancy really drops by `2·num_out` (no NULL return). -/
theorem half_occ (c : StageCfg) (s : StageSt) (n : Nat) (hpp : c.prePost = 4 * n) (hn : 0 < n) :
    (halfFn c s).1.occ = s.occ - 2 * (halfFn c s).2 := by
  have h := half_read_succeeds c s n hpp hn
  simp only [halfFn] at h ⊢
  exact fifoRead_of_le h

theorem ceilDiv_mul_lt (a b : Nat) (hb : 0 < b) (ha : 0 < a) : ceilDiv a b * b < a + b := by
  unfold ceilDiv
  have := Nat.div_mul_le_self (a + b - 1) b
  omega

theorem lt_ceilDiv_mul (a b k : Nat) (hb : 0 < b) (hk : k < ceilDiv a b) : k * b < a := by
  unfold ceilDiv at hk
  have h1 : (k + 1) * b ≤ a + b - 1 := (Nat.le_div_iff_mul_le hb).mp hk
  rw [Nat.add_mul] at h1
  omega

/-- the loop `for (i = 0; pos < limit; ++i, pos += step)` stops less than one step beyond the limit. -/
theorem loopCount_end (pos step limit : Nat) (hs : 0 < step) (h : pos < limit) :
    pos + loopCount pos step limit * step < limit + step := by
  unfold loopCount
  rw [if_pos h]
  have := ceilDiv_mul_lt (limit - pos) step hs (by omega)
  omega

/-- … and every iteration runs with the clock below the limit. -/
theorem loopCount_body (pos step limit k : Nat) (hs : 0 < step) (hk : k < loopCount pos step limit) :
    pos + k * step < limit := by
  unfold loopCount at hk
  split at hk
  · have := lt_ceilDiv_mul (limit - pos) step k hs hk
    omega
  · omega

/-- frames produced and the advanced clock of one clocked invocation. -/
def clockedCount (c : StageCfg) (s : StageSt) : Nat := loopCount s.clk c.step (numIn c s * c.den)
def clockedClk (c : StageCfg) (s : StageSt) : Nat := s.clk + clockedCount c s * c.step

/-- clocked sampler: the window of every output (`pre_post + 1` items from `⌊clock/den⌋`) lies inside the FIFO. -/
theorem clocked_reads_in_fifo (c : StageCfg) (s : StageSt) (hden : 0 < c.den) (hstep : 0 < c.step) :
    ∀ k, k < clockedCount c s → (s.clk + k * c.step) / c.den + (c.prePost + 1) ≤ s.occ := by
  intro k hk
  have hb := loopCount_body s.clk c.step (numIn c s * c.den) k hstep hk
  have hq : (s.clk + k * c.step) / c.den < numIn c s := (Nat.div_lt_iff_lt_mul hden).mpr hb
  have h1 : numIn c s ≤ s.occ - c.prePost := Nat.min_le_left _ _
  generalize (s.clk + k * c.step) / c.den = q at hq ⊢
  omega

/-- clocked sampler: given the advance clause `step ≤ (pre_post + 1)·den` (and a reduced clock on entry), the
    `fifo_read(⌊clk'/den⌋)` after the loop succeeds. -/
theorem clocked_read_succeeds (c : StageCfg) (s : StageSt) (hden : 0 < c.den) (hstep : 0 < c.step)
    (hadv : c.step ≤ (c.prePost + 1) * c.den) (hclk : s.clk < c.den) :
    clockedClk c s / c.den ≤ s.occ := by
  unfold clockedClk clockedCount
  have h1 : numIn c s ≤ s.occ - c.prePost := Nat.min_le_left _ _
  by_cases hlt : s.clk < numIn c s * c.den
  · have he := loopCount_end s.clk c.step (numIn c s * c.den) hstep hlt
    have h2 : s.clk + loopCount s.clk c.step (numIn c s * c.den) * c.step < (numIn c s + (c.prePost + 1)) * c.den := by
      rw [Nat.add_mul]; omega
    have h3 := (Nat.div_lt_iff_lt_mul hden).mpr h2
    have hpos : 0 < numIn c s := by
      rcases Nat.eq_zero_or_pos (numIn c s) with h0 | h0
      · rw [h0, Nat.zero_mul] at hlt; omega
      · exact h0
    omega
  · have : loopCount s.clk c.step (numIn c s * c.den) = 0 := by unfold loopCount; rw [if_neg hlt]
    rw [this, Nat.zero_mul, Nat.add_zero, Nat.div_eq_of_lt hclk]
    exact Nat.zero_le _

/-- so the model's stage state after the invocation is the successful branch of `fifoRead`, and the clock stays reduced. -/
theorem clocked_state (c : StageCfg) (s : StageSt) (hden : 0 < c.den) (hstep : 0 < c.step)
    (hadv : c.step ≤ (c.prePost + 1) * c.den) (hclk : s.clk < c.den) :
    (clockedFn c s).1.occ = s.occ - (if c.poly0 && numIn c s == 0 then 0 else clockedClk c s / c.den) ∧
    (clockedFn c s).1.clk < c.den := by
  have h := clocked_read_succeeds c s hden hstep hadv hclk
  unfold clockedFn
  by_cases hp : (c.poly0 && numIn c s == 0) = true
  · simp only [hp, if_true]
    exact ⟨by omega, hclk⟩
  · simp only [hp, Bool.false_eq_true, if_false]
    exact ⟨fifoRead_of_le h, Nat.mod_lt _ hden⟩

/-- capacity with the *exact* ratio: the loop produces at most `1 + ⌊num_in·den/step⌋` frames
    (what `1 + (int)(num_in * out_in_ratio)` reserves when `out_in_ratio` is exact). -/
theorem clocked_count_le_exact (c : StageCfg) (s : StageSt) (hstep : 0 < c.step) :
    clockedCount c s ≤ 1 + numIn c s * c.den / c.step := by
  unfold clockedCount loopCount
  split
  · unfold ceilDiv
    have h1 : (numIn c s * c.den - s.clk + c.step - 1) / c.step ≤ (numIn c s * c.den + c.step) / c.step :=
      Nat.div_le_div_right (by omega)
    rw [Nat.add_div_right _ hstep] at h1
    omega
  · exact Nat.zero_le _

/-- dft stage, time-domain path: the `⌈(dft_length − at)/L⌉` items spread into the block are there. -/
theorem dft_reads_in_fifo (c : StageCfg) (s : StageSt) (hL : 0 < c.L) (hgo : s.clk + c.L * s.occ ≥ c.dftLen) :
    ceilDiv (c.dftLen - s.clk) c.L ≤ s.occ := by
  unfold ceilDiv
  have h : c.dftLen - s.clk + c.L - 1 < (s.occ + 1) * c.L := by
    rw [Nat.add_mul, Nat.mul_comm s.occ c.L]; omega
  have := (Nat.div_lt_iff_lt_mul hL).mpr h
  omega

/-- dft stage, F-domain path (`L` a power of two): `memcpy` of `dft_length / L` items; needs `at = 0` (latency clause
    of `PlanWF` for linear phase; false for the non-linear-phase plans of F1). -/
theorem dft_fdomain_reads_in_fifo (c : StageCfg) (s : StageSt) (hL : 0 < c.L) (hgo : s.clk + c.L * s.occ ≥ c.dftLen)
    (hat : s.clk = 0) : c.dftLen / c.L ≤ s.occ := by
  have h : c.dftLen ≤ s.occ * c.L := by rw [Nat.mul_comm]; omega
  calc c.dftLen / c.L ≤ s.occ * c.L / c.L := Nat.div_le_div_right h
    _ = s.occ := Nat.mul_div_cancel _ hL

/-- dft stage: the `fifo_read(quot)` of a block succeeds (`quot = ⌈(block_len − at)/L⌉`, `block_len ≤ dft_length`). -/
theorem dft_read_succeeds (c : StageCfg) (s : StageSt) (hL : 0 < c.L) (hgo : s.clk + c.L * s.occ ≥ c.dftLen) :
    (c.dftLen - (c.numTaps - 1) + c.L - 1 - s.clk) / c.L ≤ s.occ := by
  have h : c.dftLen - (c.numTaps - 1) + c.L - 1 - s.clk < (s.occ + 1) * c.L := by
    rw [Nat.add_mul, Nat.mul_comm s.occ c.L]; omega
  have := (Nat.div_lt_iff_lt_mul hL).mpr h
  omega

/-! ### the state invariant `clk < den` over every reachable pipeline state -/

/-- the clauses of `PlanWF` the clocked-kernel theorems use, with the state invariant `clk < den`. -/
def ClkOK (x : Stage) : Prop :=
  x.cfg.kind = Kind.clocked →
    0 < x.cfg.den ∧ 0 < x.cfg.step ∧ x.cfg.step ≤ (x.cfg.prePost + 1) * x.cfg.den ∧ x.st.clk < x.cfg.den

theorem ClkOK_addOcc {x : Stage} (h : ClkOK x) (n : Nat) : ClkOK (x.addOcc n) := h

theorem ClkOK_run {x : Stage} (h : ClkOK x) : ClkOK x.run.1 := by
  intro hk
  have hk' : x.cfg.kind = Kind.clocked := hk
  obtain ⟨h1, h2, h3, h4⟩ := h hk'
  refine ⟨h1, h2, h3, ?_⟩
  show (stageFn x.cfg x.st).1.clk < x.cfg.den
  unfold stageFn
  rw [hk']
  exact (clocked_state x.cfg x.st h1 h2 h3 h4).2

theorem sp_ClkOK (fl : Bool) : ∀ (fuel : Nat) (stages : List Stage) (d : Bool) (stages' : List Stage) (prod : Nat) (d' : Bool),
    (∀ x ∈ stages, ClkOK x) → sp fl fuel stages d = some (stages', prod, d') → ∀ x ∈ stages', ClkOK x := by
  intro fuel
  induction fuel with
  | zero => intro stages d stages' prod d' _ h; simp [sp] at h
  | succ k ih =>
    intro stages d stages' prod d' hall h
    cases stages with
    | nil => simp [sp] at h
    | cons x below =>
      have hx : ClkOK x := hall x (by simp)
      have hb : ∀ y ∈ below, ClkOK y := fun y hy => hall y (by simp [hy])
      unfold sp at h
      split at h
      · cases below with
        | nil =>
          simp only at h
          split at h
          · exact ih _ _ _ _ _ (by intro y hy; simp at hy; subst hy; exact ClkOK_addOcc hx _) h
          · exact ih _ _ _ _ _ (by intro y hy; simp at hy; subst hy; exact hx) h
        | cons y rest =>
          simp only at h
          split at h
          · simp at h
          · next below' prod1 d1 hsp =>
            have hb' := ih _ _ _ _ _ hb hsp
            refine ih _ _ _ _ _ ?_ h
            intro z hz
            simp only [List.mem_cons] at hz
            rcases hz with rfl | hz
            · exact ClkOK_addOcc hx _
            · exact hb' z hz
      · simp only [Option.some.injEq, Prod.mk.injEq] at h
        obtain ⟨rfl, _, _⟩ := h
        intro z hz
        simp only [List.mem_cons] at hz
        rcases hz with rfl | hz
        · exact ClkOK_run hx
        · exact hb z hz

theorem procLoop_ClkOK (fuel : Nat) : ∀ (k : Nat) (e : Eng) (n : Int) (d : Bool) (e' : Eng),
    (∀ x ∈ e.stages, ClkOK x) → procLoop fuel k e n d = some e' → ∀ x ∈ e'.stages, ClkOK x := by
  intro k
  induction k with
  | zero => intro e n d e' _ h; simp [procLoop] at h
  | succ j ih =>
    intro e n d e' hall h
    unfold procLoop at h
    split at h
    · split at h
      · exact ih _ _ _ _ hall h
      · split at h
        · simp at h
        · next st' prod d1 hsp =>
          refine ih _ _ _ _ ?_ h
          exact sp_ClkOK e.fl fuel _ _ _ _ _ hall hsp
    · simp only [Option.some.injEq] at h
      subst h
      exact hall

theorem addFirst_ClkOK : ∀ (l : List Stage) (n : Nat), (∀ x ∈ l, ClkOK x) → ∀ x ∈ addFirst l n, ClkOK x := by
  intro l
  induction l with
  | nil => intro n _ x hx; simp [addFirst] at hx
  | cons a t ih =>
    intro n hall x hx
    cases t with
    | nil =>
      simp only [addFirst, List.mem_cons, List.not_mem_nil, or_false] at hx
      subst hx
      exact ClkOK_addOcc (hall a (by simp)) n
    | cons b r =>
      simp only [addFirst, List.mem_cons] at hx
      rcases hx with rfl | hx
      · exact hall _ (by simp)
      · exact ih n (fun y hy => hall y (by simp [hy])) x (by simpa using hx)

/-- the engine-level invariant and its preservation by the four entry points the API layer uses. -/
def EngOK (e : Eng) : Prop := ∀ x ∈ e.stages, ClkOK x

theorem EngOK_input {e : Eng} (h : EngOK e) (n : Nat) : EngOK (e.input n) := by
  unfold Eng.input
  split
  · exact h
  · split
    · exact h
    · exact addFirst_ClkOK _ _ h

theorem EngOK_process {e e' : Eng} (h : EngOK e) (fuel olen : Nat) (hp : e.process fuel olen = some e') : EngOK e' :=
  procLoop_ClkOK fuel _ _ _ _ _ h hp

theorem EngOK_output {e : Eng} (h : EngOK e) (n0 : Nat) : EngOK (e.output n0).1 := h

theorem EngOK_flush {e : Eng} (h : EngOK e) (owed : Nat → Nat) : EngOK (e.flush owed) := by
  unfold Eng.flush
  split <;> exact h

/-- the calls the API layer makes on one channel's engine. -/
inductive EngOp
  | input (n : Nat)
  | process (olen : Nat)
  | output (n0 : Nat)
  | flush
  deriving Repr

def Eng.apply (owed : Nat → Nat) (fuel : Nat) (e : Eng) : EngOp → Option Eng
  | .input n => some (e.input n)
  | .process olen => e.process fuel olen
  | .output n0 => some (e.output n0).1
  | .flush => some (e.flush owed)

def Eng.runOps (owed : Nat → Nat) (fuel : Nat) : Eng → List EngOp → Option Eng
  | e, [] => some e
  | e, op :: ops => match e.apply owed fuel op with
    | none => none
    | some e' => Eng.runOps owed fuel e' ops

theorem EngOK_runOps (owed : Nat → Nat) (fuel : Nat) : ∀ (ops : List EngOp) (e e' : Eng),
    EngOK e → Eng.runOps owed fuel e ops = some e' → EngOK e' := by
  intro ops
  induction ops with
  | nil => intro e e' h hr; simp only [Eng.runOps, Option.some.injEq] at hr; subst hr; exact h
  | cons op ops ih =>
    intro e e' h hr
    unfold Eng.runOps at hr
    split at hr
    · simp at hr
    · next e1 he1 =>
      refine ih e1 e' ?_ hr
      cases op with
      | input n => simp only [Eng.apply, Option.some.injEq] at he1; subst he1; exact EngOK_input h n
      | process olen => exact EngOK_process h fuel olen he1
      | output n0 => simp only [Eng.apply, Option.some.injEq] at he1; subst he1; exact EngOK_output h n0
      | flush => simp only [Eng.apply, Option.some.injEq] at he1; subst he1; exact EngOK_flush h owed

/-- E2 for the constant-rate engine: `_soxr_output` never reports more than was asked
    (`n = min(min(-samples_out, n0) or n0, occupancy)`). -/
theorem engine_output_le (e : Eng) (n0 : Nat) : (e.output n0).2.toNat ≤ n0 := by
  simp only [Eng.output, Eng.target]
  split <;> omega

/-- … and never more than the output FIFO holds, so its `fifo_read` succeeds. -/
theorem engine_output_le_occ (e : Eng) (n0 : Nat) : (e.output n0).2.toNat ≤ e.outOcc := by
  simp only [Eng.output]
  omega

end Soxr.Cr
