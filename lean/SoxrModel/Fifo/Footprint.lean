import SoxrModel.Fifo.Generated
/-!
# Buffer footprints of `soxr_process` / `soxr_input` / `soxr_output` / `soxr_output_no_callback` (soxr.c)

The model lists every access the API layer makes to memory **the caller owns** during one call, as
`(object, byte offset, byte length, read/write)`:

* interleaved input: one block of `ilen·ch` samples (`inBuf`); split input: an array of `ch` pointers (`inPtrs`)
  and one block of `ilen` samples per channel (`inCh c`); the same for the output side;
* a block handed over by the input function in pull mode is the object `inBuf (.fn n)` / `inCh (.fn n) c`, where `n` is
  the number of frames the function said it supplied;
* `wild` is an address that was not derived from a pointer the caller supplied.

The engine below the API layer is abstract: per channel it delivers some number of frames `d u`; law E2 of the
engine interface (`d u ≤ requested`, for the constant-rate engine proved on the count model: `engine_output_le`)
is a hypothesis of the theorems.  The pull loop of `soxr_output` is over-approximated by *any* list of iterations.

The model follows the code **as written**.  The tree as first pinned had two defects here; both were repaired in
`/repo` (commits e1592d4 and 4b04ca8) and the model follows the repaired code.  The old expressions are kept as a
`Variant` so that the historical witnesses stay checkable and so that the theorems say exactly what the repairs bought:

* `ptrReadAlways` (F2, repaired by e1592d4): soxr.c:683/689 evaluated `((soxr_bufs_t)out)[u]` as an argument of
  `soxr_output_1ch` whatever the layout, i.e. an 8-byte read at `out + 8u` also when `out` is an interleaved sample
  buffer.  Now: `separated ? ((soxr_bufs_t)out)[u] : out`.
* `pullAdvancesArray` (F15, repaired by 4b04ca8): soxr.c:716 `out = (char *)out + osize * odone` was applied also when
  `out` is the caller's pointer array, so after an iteration that delivered something the next one read its channel
  pointers from `array + osize·odone`.  Now: at the top of each iteration after the first delivery the channel
  pointers are re-read from the caller's array (`out0[u]`, never advanced) and advanced by `size·odone0` each.

`Variant.current` is the one-line switch: it must name the variant of the code in `/repo`.  The check replays the
witness calls of `Properties/C07` on the real code with exactly-sized buffers on every run: a sanitizer report there
while `current = repaired` is a violation (regression), silence while `current = original` would be one too.
-/
namespace Soxr.Footprint

/-- where an input block comes from: the `in` argument of `soxr_process`, or the input function (which said it
    supplied `frames` frames). -/
inductive Src
  | call
  | fn (frames : Nat)
  deriving DecidableEq, Repr

inductive Obj
  | inBuf (s : Src)
  | inPtrs (s : Src)
  | inCh (s : Src) (c : Nat)
  | outBuf
  | outPtrs
  | outCh (c : Nat)
  | wild
  deriving DecidableEq, Repr

structure Access where
  obj : Obj
  off : Nat
  len : Nat
  write : Bool
  deriving DecidableEq, Repr

structure Cfg where
  ch : Nat            -- `num_channels`
  isz : Nat           -- `soxr_datatype_size(itype)`
  osz : Nat           -- `soxr_datatype_size(otype)`
  iSplit : Bool       -- `itype & SOXR_SPLIT`
  oSplit : Bool       -- `otype & SOXR_SPLIT`
  ptrSize : Nat := Soxr.Fifo.Generated.ptrSize
  deriving Repr

structure Variant where
  ptrReadAlways : Bool
  pullAdvancesArray : Bool
  deriving DecidableEq, Repr

/-- the tree as first pinned (F2 and F15 present) — historical. -/
def Variant.original : Variant := ⟨true, true⟩
/-- the code with both repairs (`separated ? ((soxr_bufs_t)out)[u] : out`; per-channel advance). -/
def Variant.repaired : Variant := ⟨false, false⟩
/-- **The switch.**  Which variant `/repo` currently is (`.repaired` since e1592d4 + 4b04ca8; `.original` before;
    a mixed `⟨false, true⟩` if only one repair is present).  Nothing else needs editing. -/
def Variant.current : Variant := Variant.repaired

/-- frames in an input block. -/
def srcLen (ilen : Nat) : Src → Nat
  | .call => ilen
  | .fn n => n

/-- size in bytes of each caller-owned object for a call with buffer lengths `ilen`, `olen` (frames per channel). -/
def objSize (c : Cfg) (ilen olen : Nat) : Obj → Nat
  | .inBuf s => if c.iSplit then 0 else srcLen ilen s * c.ch * c.isz
  | .inPtrs _ => if c.iSplit then c.ch * c.ptrSize else 0
  | .inCh s u => if c.iSplit ∧ u < c.ch then srcLen ilen s * c.isz else 0
  | .outBuf => if c.oSplit then 0 else olen * c.ch * c.osz
  | .outPtrs => if c.oSplit then c.ch * c.ptrSize else 0
  | .outCh u => if c.oSplit ∧ u < c.ch then olen * c.osz else 0
  | .wild => 0

/-- an access is inside its object (an access of length 0 touches nothing). -/
def Access.inBounds (size : Obj → Nat) (a : Access) : Prop := a.len = 0 ∨ a.off + a.len ≤ size a.obj

instance (size : Obj → Nat) (a : Access) : Decidable (a.inBounds size) := by
  unfold Access.inBounds; exact inferInstance

/-- `soxr_input(p, in, len)` with `len != 0` and no error pending: split → per channel the pointer `in[i]` and
    `len` samples through it (`soxr_input_1ch`); interleaved → `len·ch` samples (`deinterleave`). -/
def inputAcc (c : Cfg) (s : Src) (len : Nat) : List Access :=
  if c.iSplit then
    (List.range c.ch).flatMap fun u =>
      [⟨.inPtrs s, u * c.ptrSize, c.ptrSize, false⟩, ⟨.inCh s u, 0, len * c.isz, false⟩]
  else [⟨.inBuf s, 0, len * c.ch * c.isz, false⟩]

/-- where channel `u`'s samples go in an iteration of the pull loop that starts after `written` frames, split output:
    repaired code: the caller's channel block, `written` frames in; original code: through whatever lies at
    `array + adv + 8u` — another channel's pointer if that is still inside the array and aligned, garbage otherwise. -/
def splitTarget (v : Variant) (c : Cfg) (written u : Nat) : Obj × Nat :=
  let adv := written * c.ch * c.osz
  if v.pullAdvancesArray then
    if adv % c.ptrSize = 0 ∧ adv / c.ptrSize + u < c.ch then (.outCh (adv / c.ptrSize + u), 0) else (.wild, 0)
  else (.outCh u, written * c.osz)

/-- `soxr_output_no_callback(p, out + adv, len)` in an iteration that starts after `written` frames have been
    delivered by this `soxr_output` call (`adv = osize · written` bytes); channel `u` delivers `d u` frames. -/
def outNoCb (v : Variant) (c : Cfg) (written : Nat) (d : Nat → Nat) : List Access :=
  let adv := written * c.ch * c.osz
  let arr : Obj := if c.oSplit then .outPtrs else .outBuf
  let arrAdv := if c.oSplit && !v.pullAdvancesArray then 0 else adv
  let ptrReads : List Access :=
    if c.oSplit || v.ptrReadAlways then
      (List.range c.ch).map fun u => ⟨arr, arrAdv + u * c.ptrSize, c.ptrSize, false⟩
    else []
  let writes : List Access :=
    if c.oSplit then
      (List.range c.ch).map fun u => ⟨(splitTarget v c written u).1, (splitTarget v c written u).2, d u * c.osz, true⟩
    else [⟨.outBuf, adv, d (c.ch - 1) * c.ch * c.osz, true⟩]
  ptrReads ++ writes

/-- one iteration of the `do … while` of `soxr_output`: per-channel delivery, and the number of frames the input
    function supplied afterwards (0: not called, end of input or failure — `soxr_input` then touches nothing). -/
abbrev Iter := (Nat → Nat) × Nat

/-- `soxr_output`: any number of iterations. -/
def outputAcc (v : Variant) (c : Cfg) : Nat → List Iter → List Access
  | _, [] => []
  | written, (d, sup) :: rest =>
    outNoCb v c written d ++ (if sup = 0 then [] else inputAcc c (.fn sup) sup) ++
      outputAcc v c (written + d (c.ch - 1)) rest

/-- frames `soxr_output` reports: the sum of what the reporting channel delivered per iteration. -/
def outputDone (c : Cfg) : List Iter → Nat
  | [] => 0
  | (d, _) :: rest => d (c.ch - 1) + outputDone c rest

/-- arguments of one `soxr_process` call: `in != NULL`, the `~ilen` convention, `idone != NULL`. -/
structure Call where
  hasIn : Bool
  flushReq : Bool
  useIdone : Bool
  ilen0 : Nat
  olen : Nat
  deriving Repr

/-- `ilen` after the clamp `soxr_i_for_o` (`iForO = (size_t)ceil(olen · io_ratio)`, any number). -/
def ilenOf (iForO : Nat) (k : Call) : Nat :=
  if k.hasIn then (if k.useIdone then min iForO k.ilen0 else k.ilen0) else 0

structure Result where
  idone : Nat
  odone : Nat
  acc : List Access

/-- generic path of `soxr_process` (`idone = ilen ? soxr_input(p, in, ilen) : 0; odone = soxr_output(p, out, olen)`).
    `err`: `p->error` already set (then `soxr_input` and `soxr_output` return 0 at once: `its = []`). -/
def processGeneric (v : Variant) (c : Cfg) (k : Call) (iForO : Nat) (err : Bool) (its : List Iter) : Result :=
  let ilen := ilenOf iForO k
  let live := ilen ≠ 0 ∧ err = false
  { idone := if live then ilen else 0
    odone := outputDone c its
    acc := (if live then inputAcc c .call ilen else []) ++ outputAcc v c 0 its }

/-- both-split path of `soxr_process`: per channel `soxr_input_1ch(in[u], ilen)` (if `in`) then
    `soxr_output_1ch(out[u], olen, true)`. -/
def processSplit (c : Cfg) (k : Call) (iForO : Nat) (d : Nat → Nat) : Result :=
  let ilen := ilenOf iForO k
  { idone := ilen
    odone := d (c.ch - 1)
    acc := (List.range c.ch).flatMap fun u =>
      (if k.hasIn then
        [(⟨.inPtrs .call, u * c.ptrSize, c.ptrSize, false⟩ : Access), ⟨.inCh .call u, 0, ilen * c.isz, false⟩]
       else []) ++
      [⟨.outPtrs, u * c.ptrSize, c.ptrSize, false⟩, ⟨.outCh u, 0, d u * c.osz, true⟩] }

/-- `soxr_process`: which path. -/
def process (v : Variant) (c : Cfg) (k : Call) (iForO : Nat) (err : Bool) (its : List Iter) : Result :=
  if c.iSplit && c.oSplit then
    processSplit c k iForO (match its with | [] => fun _ => 0 | it :: _ => it.1)
  else processGeneric v c k iForO err its

/-- law E2 along the iterations: each channel delivers at most what is still wanted. -/
def Deliv (c : Cfg) (olen : Nat) : Nat → List Iter → Prop
  | _, [] => True
  | w, (d, _) :: rest => w ≤ olen ∧ (∀ u, u < c.ch → d u ≤ olen - w) ∧ Deliv c olen (w + d (c.ch - 1)) rest

/-- The hypothesis that excludes the two defects of the original code (vacuous for `Variant.repaired`):
    F2 — interleaved output: every iteration starts with at least `ch` pointers' worth of bytes left in the buffer;
    F15 — split output: no iteration starts after something has been delivered. -/
def Excl (v : Variant) (c : Cfg) (olen : Nat) : Nat → List Iter → Prop
  | _, [] => True
  | w, (d, _) :: rest =>
    (c.oSplit = false → v.ptrReadAlways = true → w * c.ch * c.osz + c.ch * c.ptrSize ≤ olen * c.ch * c.osz) ∧
    (c.oSplit = true → v.pullAdvancesArray = true → w = 0) ∧
    Excl v c olen (w + d (c.ch - 1)) rest

/-- all accesses of a result lie inside the caller's objects. -/
def Result.inBounds (c : Cfg) (ilen olen : Nat) (r : Result) : Prop :=
  ∀ a ∈ r.acc, a.inBounds (objSize c ilen olen)

/-- the first access outside its object, if any (what a sanitizer would report first, up to evaluation order). -/
def firstBad (c : Cfg) (ilen olen : Nat) (acc : List Access) : Option Access :=
  acc.find? fun a => !decide (a.inBounds (objSize c ilen olen))

end Soxr.Footprint
