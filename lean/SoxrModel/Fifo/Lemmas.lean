import SoxrModel.Fifo.Model
/-!
# Lemmas about the byte-level FIFO: the invariant, the abstract queue and the simulation, op by op

Core Lean only (`omega`, `simp` with core `List` lemmas).  The property theorems are in `Properties/C07.lean`.
-/
namespace Soxr.Fifo

variable {β : Type}

/-- The representation invariant of `fifo_t`: the block has `allocation` bytes and `begin ≤ end ≤ allocation`. -/
structure WF (f : Fifo β) : Prop where
  len : f.data.length = f.allocation
  be : f.bgn ≤ f.end_
  ea : f.end_ ≤ f.allocation

theorem junkBlock_length (junk : Nat → β) (s n : Nat) : (junkBlock junk s n).length = n := by
  simp [junkBlock]

theorem create_wf (fifoMin : Nat) (junk : Nat → β) (sz : Nat) : WF (create fifoMin junk sz) :=
  ⟨by simp [create, junkBlock_length], Nat.le_refl _, Nat.zero_le _⟩

theorem create_contents (fifoMin : Nat) (junk : Nat → β) (sz : Nat) : contents (create fifoMin junk sz) = [] := by
  simp [contents, bytesAt, create]

theorem contents_length {f : Fifo β} (h : WF f) : (contents f).length = f.end_ - f.bgn := by
  have h1 := h.len; have h2 := h.be; have h3 := h.ea
  simp only [contents, bytesAt, List.length_take, List.length_drop]
  omega

theorem clear_wf {f : Fifo β} (h : WF f) : WF (clear f) :=
  ⟨h.len, Nat.le_refl _, Nat.zero_le _⟩

theorem clear_contents (f : Fifo β) : contents (clear f) = [] := by
  simp [contents, bytesAt, clear]

theorem contents_of_empty {f : Fifo β} (h : f.bgn = f.end_) : contents f = [] := by
  simp [contents, bytesAt, h]

/-! ### the three branches of the reserve loop -/

/-- compaction (`memmove` to the front) keeps the invariant … -/
theorem compact_wf {f : Fifo β} (h : WF f) :
    WF { f with data := memmoveDown f.data f.bgn f.end_, end_ := f.end_ - f.bgn, bgn := 0 } := by
  have h1 := h.len; have h2 := h.be; have h3 := h.ea
  refine ⟨?_, Nat.zero_le _, ?_⟩
  · simp only [memmoveDown, List.length_append, List.length_take, List.length_drop]
    omega
  · show f.end_ - f.bgn ≤ f.allocation
    omega

/-- … and the queue. -/
theorem compact_contents {f : Fifo β} (h : WF f) :
    contents { f with data := memmoveDown f.data f.bgn f.end_, end_ := f.end_ - f.bgn, bgn := 0 } = contents f := by
  have h1 := h.len; have h2 := h.be; have h3 := h.ea
  simp only [contents, bytesAt, memmoveDown, List.drop_zero, Nat.sub_zero]
  rw [List.take_append_of_le_length (by simp only [List.length_take, List.length_drop]; omega)]
  rw [List.take_take, Nat.min_self]

/-- growth (`realloc` to `allocation + n`: old bytes kept, `n` new uninitialised bytes) keeps the invariant … -/
theorem grow_wf {f : Fifo β} (h : WF f) (junk : Nat → β) (n : Nat) :
    WF { f with data := f.data ++ junkBlock junk f.allocation n, allocation := f.allocation + n } := by
  have h1 := h.len; have h2 := h.be; have h3 := h.ea
  refine ⟨?_, h2, ?_⟩
  · simp only [List.length_append, junkBlock_length]; omega
  · show f.end_ ≤ f.allocation + n
    omega

/-- … and the queue. -/
theorem grow_contents {f : Fifo β} (h : WF f) (junk : Nat → β) (n : Nat) :
    contents { f with data := f.data ++ junkBlock junk f.allocation n, allocation := f.allocation + n } = contents f := by
  have h1 := h.len; have h2 := h.be; have h3 := h.ea
  simp only [contents, bytesAt]
  rw [List.drop_append_of_le_length (by omega)]
  rw [List.take_append_of_le_length (by simp only [List.length_drop]; omega)]

/-- the fitting branch: `end += n` appends the `n` bytes that were lying at `data + end`. -/
theorem fit_contents {f : Fifo β} (h : WF f) (n : Nat) :
    contents { f with end_ := f.end_ + n } = contents f ++ bytesAt f f.end_ n := by
  have h2 := h.be
  simp only [contents, bytesAt]
  have e : f.end_ + n - f.bgn = (f.end_ - f.bgn) + n := by omega
  rw [e, List.take_add, List.drop_drop]
  congr 3
  omega

/-- What `reserveLoop` guarantees whenever it returns, from any state satisfying the invariant. -/
structure ReserveSpec (f : Fifo β) (n : Nat) (f' : Fifo β) (off : Nat) : Prop where
  wf : WF f'
  item : f'.itemSize = f.itemSize
  off_ge : f'.bgn ≤ off
  off_end : off + n = f'.end_
  queue : contents f' = contents f ++ bytesAt f' off n
  alloc_mono : f.allocation ≤ f'.allocation

theorem reserveLoop_spec (fifoMin : Nat) (junk : Nat → β) (n : Nat) :
    ∀ (fuel : Nat) (f f' : Fifo β) (off : Nat), WF f →
      reserveLoop fifoMin junk n fuel f = some (f', off) → ReserveSpec f n f' off := by
  intro fuel
  induction fuel with
  | zero => intro f f' off _ h; simp [reserveLoop] at h
  | succ k ih =>
    intro f f' off hwf h
    unfold reserveLoop at h
    split at h
    · next hfit =>
      simp only [Option.some.injEq, Prod.mk.injEq] at h
      obtain ⟨rfl, rfl⟩ := h
      refine ⟨⟨hwf.len, ?_, hfit⟩, rfl, hwf.be, rfl, ?_, Nat.le_refl _⟩
      · show f.bgn ≤ f.end_ + n
        have := hwf.be; omega
      · exact fit_contents hwf n
    · split at h
      · have r := ih _ f' off (compact_wf hwf) h
        exact ⟨r.wf, r.item, r.off_ge, r.off_end, by rw [r.queue, compact_contents hwf], r.alloc_mono⟩
      · have r := ih _ f' off (grow_wf hwf junk n) h
        refine ⟨r.wf, r.item, r.off_ge, r.off_end, by rw [r.queue, grow_contents hwf], ?_⟩
        have := r.alloc_mono
        show f.allocation ≤ f'.allocation
        simp only at this
        omega

/-- Termination of the C loop: from a state with `end ≤ allocation` it returns within three iterations
    (at most one compaction, at most one growth, then the request fits). -/
theorem reserveLoop_total (fifoMin : Nat) (junk : Nat → β) (n : Nat) (f : Fifo β) (h : WF f) (k : Nat) :
    ∃ r, reserveLoop fifoMin junk n (k + 3) f = some r := by
  have h1 := h.len; have h2 := h.be; have h3 := h.ea
  unfold reserveLoop
  split
  · exact ⟨_, rfl⟩
  · split
    · -- compacted; now begin = 0 ≤ FIFO_MIN
      unfold reserveLoop
      split
      · exact ⟨_, rfl⟩
      · rw [if_neg (by simp)]
        unfold reserveLoop
        rw [if_pos (by simp only; omega)]
        exact ⟨_, rfl⟩
    · unfold reserveLoop
      rw [if_pos (by simp only; omega)]
      exact ⟨_, rfl⟩

/-- more fuel never changes the answer. -/
theorem reserveLoop_fuel_mono (fifoMin : Nat) (junk : Nat → β) (n : Nat) :
    ∀ (fuel : Nat) (f : Fifo β) (r : Fifo β × Nat),
      reserveLoop fifoMin junk n fuel f = some r → reserveLoop fifoMin junk n (fuel + 1) f = some r := by
  intro fuel
  induction fuel with
  | zero => intro f r h; simp [reserveLoop] at h
  | succ k ih =>
    intro f r h
    unfold reserveLoop at h ⊢
    split
    · next hfit => rw [if_pos hfit] at h; exact h
    · next hfit =>
      rw [if_neg hfit] at h
      split
      · next hc => rw [if_pos hc] at h; exact ih _ _ h
      · next hc => rw [if_neg hc] at h; exact ih _ _ h

/-! ### the API functions -/

theorem reserve_pre_wf {f : Fifo β} (h : WF f) : WF (if f.bgn = f.end_ then clear f else f) := by
  split
  · exact clear_wf h
  · exact h

theorem reserve_pre_contents (f : Fifo β) : contents (if f.bgn = f.end_ then clear f else f) = contents f := by
  split
  · next h => rw [clear_contents, contents_of_empty h]
  · rfl

theorem reserve_spec (fifoMin : Nat) (junk : Nat → β) {f f' : Fifo β} {n0 off : Nat} (h : WF f)
    (hr : reserve fifoMin junk f n0 = some (f', off)) : ReserveSpec f (n0 * f.itemSize) f' off := by
  unfold reserve at hr
  have r := reserveLoop_spec fifoMin junk _ _ _ f' off (reserve_pre_wf h) hr
  refine ⟨r.wf, ?_, r.off_ge, r.off_end, ?_, ?_⟩
  · rw [r.item]; split <;> rfl
  · rw [r.queue, reserve_pre_contents]
  · have := r.alloc_mono
    have e : (if f.bgn = f.end_ then clear f else f).allocation = f.allocation := by split <;> rfl
    omega

theorem reserve_total (fifoMin : Nat) (junk : Nat → β) {f : Fifo β} (h : WF f) (n0 : Nat) :
    ∃ r, reserve fifoMin junk f n0 = some r := by
  unfold reserve
  exact reserveLoop_total fifoMin junk _ _ (reserve_pre_wf h) 0

theorem store_wf {f : Fifo β} (h : WF f) {off : Nat} {bytes : List β} (hb : off + bytes.length ≤ f.allocation) :
    WF (store f off bytes) := by
  have h1 := h.len
  refine ⟨?_, h.be, h.ea⟩
  simp only [store, List.length_append, List.length_take, List.length_drop]
  omega

/-- storing exactly over the last `bytes.length` bytes of the queue replaces that tail. -/
theorem store_tail_contents {f : Fifo β} (h : WF f) {off : Nat} {bytes : List β} (h0 : f.bgn ≤ off)
    (h1 : off + bytes.length = f.end_) : contents (store f off bytes) = (contents f).take (off - f.bgn) ++ bytes := by
  have hl := h.len; have h3 := h.ea
  simp only [contents, bytesAt, store]
  have e1 : f.end_ - f.bgn = (off - f.bgn) + bytes.length := by omega
  rw [e1, List.take_take, Nat.min_eq_left (Nat.le_add_right _ _)]
  rw [List.append_assoc, List.drop_append_of_le_length (by simp only [List.length_take]; omega)]
  rw [List.take_add]
  congr 1
  · rw [List.take_append_of_le_length (by simp only [List.length_drop, List.length_take]; omega)]
    rw [List.drop_take, List.take_take, Nat.min_self]
  · rw [List.drop_append_of_le_length (by simp only [List.length_drop, List.length_take]; omega)]
    have e2 : (List.drop f.bgn (List.take off f.data)).length = off - f.bgn := by
      simp only [List.length_drop, List.length_take]; omega
    rw [List.drop_of_length_le (by omega), List.nil_append]
    rw [List.take_append_of_le_length (Nat.le_refl _), List.take_length]

theorem store_bytesAt {f : Fifo β} (h : WF f) {off : Nat} {bytes : List β} (hb : off + bytes.length ≤ f.allocation) :
    bytesAt (store f off bytes) off bytes.length = bytes := by
  have hl := h.len
  simp only [bytesAt, store, List.append_assoc]
  rw [List.drop_append_of_le_length (by simp only [List.length_take]; omega)]
  have e2 : (List.take off f.data).length = off := by simp only [List.length_take]; omega
  rw [List.drop_of_length_le (by omega), List.nil_append]
  rw [List.take_append_of_le_length (Nat.le_refl _), List.take_length]

theorem trimTo_wf {f : Fifo β} (h : WF f) {n0 : Nat} (hn : f.bgn + n0 * f.itemSize ≤ f.allocation) : WF (trimTo f n0) :=
  ⟨h.len, Nat.le_add_right _ _, hn⟩

theorem trimTo_contents {f : Fifo β} {n0 : Nat} (hn : n0 * f.itemSize ≤ f.end_ - f.bgn) :
    contents (trimTo f n0) = (contents f).take (n0 * f.itemSize) := by
  simp only [contents, bytesAt, trimTo, Nat.add_sub_cancel_left, List.take_take, Nat.min_eq_left hn]

theorem trimBy_wf {f : Fifo β} (h : WF f) {n0 : Nat} (hn : n0 * f.itemSize ≤ f.end_ - f.bgn) : WF (trimBy f n0) := by
  have h2 := h.be; have h3 := h.ea
  refine ⟨h.len, ?_, ?_⟩
  · show f.bgn ≤ f.end_ - n0 * f.itemSize
    omega
  · show f.end_ - n0 * f.itemSize ≤ f.allocation
    omega

theorem trimBy_contents {f : Fifo β} (h : WF f) {n0 : Nat} (hn : n0 * f.itemSize ≤ f.end_ - f.bgn) :
    contents (trimBy f n0) = (contents f).take ((contents f).length - n0 * f.itemSize) := by
  rw [contents_length h]
  simp only [contents, bytesAt, trimBy, List.take_take]
  congr 1
  omega

theorem read_fail {f : Fifo β} {n0 : Nat} (h : f.end_ - f.bgn < n0 * f.itemSize) : read f n0 = (f, none) := by
  simp [read, h]

theorem read_ok {f : Fifo β} {n0 : Nat} (h : n0 * f.itemSize ≤ f.end_ - f.bgn) :
    read f n0 = ({ f with bgn := f.bgn + n0 * f.itemSize }, some f.bgn) := by
  simp [read, Nat.not_lt.mpr h]

theorem read_ok_wf {f : Fifo β} (hwf : WF f) {n0 : Nat} (h : n0 * f.itemSize ≤ f.end_ - f.bgn) :
    WF { f with bgn := f.bgn + n0 * f.itemSize } := by
  have h2 := hwf.be
  refine ⟨hwf.len, ?_, hwf.ea⟩
  show f.bgn + n0 * f.itemSize ≤ f.end_
  omega

theorem read_ok_contents (f : Fifo β) (n0 : Nat) :
    contents { f with bgn := f.bgn + n0 * f.itemSize } = (contents f).drop (n0 * f.itemSize) := by
  simp only [contents, bytesAt]
  rw [List.drop_take, List.drop_drop]
  congr 1
  omega

/-- the bytes a successful read hands out are the front of the queue. -/
theorem read_ok_bytes {f : Fifo β} {n0 : Nat} (h : n0 * f.itemSize ≤ f.end_ - f.bgn) :
    bytesAt f f.bgn (n0 * f.itemSize) = (contents f).take (n0 * f.itemSize) := by
  simp only [contents, bytesAt, List.take_take, Nat.min_eq_left h]

end Soxr.Fifo
