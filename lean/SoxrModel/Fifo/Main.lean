import SoxrModel.Fifo.Model
import SoxrModel.Fifo.Footprint
/-!
# `soxr_fifo`: line-protocol driver of the byte-level FIFO model and of the buffer-footprint model

One op per line on stdin, one canonical line on stdout.  `harness/fifo/micro.c` executes the same ops on the real
`fifo.h` and prints the same lines; `checks/c07.py` diffs them.

FIFO ops (the block is `List UInt8`, uninitialised memory is 0 — never observed: both sides only ever look at bytes
that were written):
```
create <item_size> <fifo_min>     fifo_create, with FIFO_MIN as the real header was compiled (`gen` prints the tree's value)
reserve <n>                       fifo_reserve(n); the caller then fills the n items with the next bytes of the test stream
write <n>                         fifo_write(n, next bytes of the test stream)
read <n>                          fifo_read(n, NULL); prints the FNV-1a hash of the bytes at the returned pointer
trim_to <n> | trim_by <n> | clear | dump
```
answer: `b=<begin> e=<end> a=<allocation> r=<offset|null|-> occ=<fifo_occupancy> h=<hash|->`.

Footprint ops:
```
variant                           which variant of soxr.c the model follows (Variant.current)
fp <ch> <isz> <osz> <iSplit> <oSplit> <hasIn> <flushReq> <useIdone> <ilen0> <olen> <iForO> <d:sup>…
```
answer: `fp idone=<n> odone=<n> bad=<none | obj,off,len,r|w,size>` — the first access outside the caller's objects
that `Variant.current` makes for that call (each iteration: every channel delivers `d`, the input function then
supplies `sup`).
-/
namespace Soxr.Fifo.Main
open Soxr.Fifo

/-- byte `k` of the test stream. -/
def streamByte (k : Nat) : UInt8 := UInt8.ofNat ((k * 167 + 13) % 251)

def streamBytes (start n : Nat) : List UInt8 := (List.range' start n).map streamByte

def fnv (bytes : List UInt8) : UInt64 :=
  bytes.foldl (fun h b => (h ^^^ b.toUInt64) * 0x100000001B3) 0xCBF29CE484222325

structure DSt where
  f : Fifo UInt8 := { data := [], allocation := 0, itemSize := 1, bgn := 0, end_ := 0 }
  fifoMin : Nat := Generated.fifoMin
  w : Nat := 0          -- bytes of the test stream used so far

def junk : Nat → UInt8 := fun _ => 0

def line (f : Fifo UInt8) (r : String) (h : String) : String :=
  s!"b={f.bgn} e={f.end_} a={f.allocation} r={r} occ={occupancy f} h={h}"

def nat (s : String) : Nat := s.toNat?.getD 0

def objName : Footprint.Obj → String
  | .inBuf _ => "inBuf"
  | .inPtrs _ => "inPtrs"
  | .inCh _ c => s!"inCh{c}"
  | .outBuf => "outBuf"
  | .outPtrs => "outPtrs"
  | .outCh c => s!"outCh{c}"
  | .wild => "wild"

def parseIter (t : String) : Footprint.Iter :=
  match t.splitOn ":" with
  | [d, s] => (fun _ => nat d, nat s)
  | _ => (fun _ => 0, 0)

def step (d : DSt) (ln : String) : DSt × Option String :=
  let toks := (ln.trimAscii.toString.splitOn " ").filter (· ≠ "")
  match toks with
  | ["gen"] => (d, some s!"gen fifoMin={Generated.fifoMin} ptrSize={Generated.ptrSize}")
  | ["create", sz, fm] =>
    let f := create (nat fm) junk (nat sz)
    ({ d with f := f, fifoMin := nat fm, w := 0 }, some (line f "-" "-"))
  | ["reserve", n] =>
    match reserve d.fifoMin junk d.f (nat n) with
    | none => (d, some "loop")
    | some (f1, off) =>
      let len := nat n * d.f.itemSize
      let f2 := store f1 off (streamBytes d.w len)
      ({ d with f := f2, w := d.w + len }, some (line f2 (toString off) "-"))
  | ["write", n] =>
    let len := nat n * d.f.itemSize
    match write d.fifoMin junk d.f (nat n) (some (streamBytes d.w len)) with
    | none => (d, some "loop")
    | some (f2, off) => ({ d with f := f2, w := d.w + len }, some (line f2 (toString off) "-"))
  | ["read", n] =>
    match read d.f (nat n) with
    | (f1, some off) => ({ d with f := f1 }, some (line f1 (toString off) (toString (fnv (bytesAt f1 off (nat n * d.f.itemSize))))))
    | (f1, none) => ({ d with f := f1 }, some (line f1 "null" "-"))
  | ["trim_to", n] => let f1 := trimTo d.f (nat n); ({ d with f := f1 }, some (line f1 "-" "-"))
  | ["trim_by", n] => let f1 := trimBy d.f (nat n); ({ d with f := f1 }, some (line f1 "-" "-"))
  | ["clear"] => let f1 := clear d.f; ({ d with f := f1 }, some (line f1 "-" "-"))
  | ["dump"] => (d, some (line d.f "-" (toString (fnv (contents d.f)))))
  | ["variant"] =>
    let v := Footprint.Variant.current
    (d, some s!"variant ptrReadAlways={if v.ptrReadAlways then 1 else 0} pullAdvancesArray={if v.pullAdvancesArray then 1 else 0}")
  | "fp" :: ch :: isz :: osz :: iS :: oS :: hasIn :: fr :: ui :: ilen0 :: olen :: iForO :: its =>
    let c : Footprint.Cfg := { ch := nat ch, isz := nat isz, osz := nat osz, iSplit := iS == "1", oSplit := oS == "1" }
    let k : Footprint.Call := { hasIn := hasIn == "1", flushReq := fr == "1", useIdone := ui == "1", ilen0 := nat ilen0, olen := nat olen }
    let r := Footprint.process Footprint.Variant.current c k (nat iForO) false (its.map parseIter)
    let bad := match Footprint.firstBad c k.ilen0 k.olen r.acc with
      | none => "none"
      | some a => s!"{objName a.obj},{a.off},{a.len},{if a.write then "w" else "r"},{Footprint.objSize c k.ilen0 k.olen a.obj}"
    (d, some s!"fp idone={r.idone} odone={r.odone} bad={bad}")
  | [] => (d, none)
  | _ => (d, some "bad-op")

partial def loop (h : IO.FS.Stream) (out : IO.FS.Stream) (d : DSt) : IO Unit := do
  let ln ← h.getLine
  if ln.isEmpty then return ()
  let (d', o) := step d ln
  match o with
  | some s => out.putStrLn s
  | none => pure ()
  loop h out d'

end Soxr.Fifo.Main

def main : IO Unit := do
  Soxr.Fifo.Main.loop (← IO.getStdin) (← IO.getStdout) {}
