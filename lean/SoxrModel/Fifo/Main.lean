/-! Line-protocol driver of the Fifo model (stub). -/
def main : IO Unit := pure ()
