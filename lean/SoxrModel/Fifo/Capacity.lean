import SoxrModel.Fifo.Kernel
import SoxrModel.Cr.StageLemmas
import Mathlib.Algebra.Order.Floor.Ring
import Mathlib.Data.Rat.Floor
import Mathlib.Tactic.Linarith
import Mathlib.Tactic.FieldSimp
import Mathlib.Tactic.Ring
import Mathlib.Tactic.Positivity
/-!
# The capacity clause under rounded `double` arithmetic

`poly-fir.h:125` and `cr-core.c:53` reserve `max_num_out = 1 + (int)(num_in * out_in_ratio)` output frames, where
`out_in_ratio = MULT32 * L / (double)step.whole` was computed once by the planner, and then run the clock loop, which
yields `loopCount at step (num_in·den)` frames.  With exact arithmetic the loop yields at most `1 + ⌊num_in·den/step⌋`
(`capacity_exact_ratio`).  Here the same is proved for ROUNDED arithmetic: whatever value `p` the product
`num_in * out_in_ratio` takes, as long as it is not below the exact quotient by more than a relative `2⁻⁵¹` (three
binary64 roundings — conversion of `step.whole`, division, multiplication — cost at most `3·2⁻⁵³`), the loop's count
fits, provided `num_in·den ≤ 2⁵¹` (`num_in ≤ 8192 = input_size`, `den = 2³²`: `2⁴⁵`).

The reason: a non-integer quotient `N/step` lies at least `1/step` above the integer below it, and the rounding error
`(N/step)·2⁻⁵¹ ≤ 1/step` cannot carry the product below that integer; for an integer quotient the `1 +` pays.
The hi-prec clock (`den = 2⁹⁶`, 96-bit step) is covered too: the planner divides by the top 64 bits of the step, which
can only make the estimate larger (`capacity_rounded_hiprec`).
-/
namespace Soxr.Fifo

open Soxr Soxr.Cr

theorem ceilDiv_pred_mul_le (N step : ℕ) (hs : 0 < step) (hN : 1 ≤ N) : (ceilDiv N step - 1) * step ≤ N - 1 := by
  unfold ceilDiv
  have e : N + step - 1 = (N - 1) + step := by omega
  rw [e, Nat.add_div_right _ hs, Nat.add_sub_cancel]
  exact Nat.div_mul_le_self _ _

/-- **Arithmetic core.**  `⌈N/step⌉ ≤ 1 + ⌊p⌋` for every `p` that is at least `(N/step)·(1 − 2⁻⁵¹)`, when `N ≤ 2⁵¹`. -/
theorem ceilDiv_le_rounded (N step : ℕ) (hs : 0 < step) (hN : N ≤ 2 ^ 51) (p : ℚ)
    (hp : (N : ℚ) / step * (1 - 1 / 2 ^ 51) ≤ p) : ceilDiv N step ≤ 1 + ⌊p⌋.toNat := by
  rcases Nat.eq_zero_or_pos N with h0 | hpos
  · subst h0
    have : ceilDiv 0 step = 0 := by unfold ceilDiv; exact Nat.div_eq_of_lt (by omega)
    rw [this]; exact Nat.zero_le _
  have hsq : (0 : ℚ) < step := by exact_mod_cast hs
  have hc := ceilDiv_pred_mul_le N step hs hpos
  -- (c - 1) ≤ (N - 1)/step ≤ N/step - (N/step)/2^51 ≤ p
  have h1 : ((ceilDiv N step - 1 : ℕ) : ℚ) * step ≤ (N : ℚ) - 1 := by
    have : (((ceilDiv N step - 1) * step : ℕ) : ℚ) ≤ ((N - 1 : ℕ) : ℚ) := by exact_mod_cast hc
    rw [Nat.cast_mul, Nat.cast_sub hpos] at this
    simpa using this
  have hNq : (N : ℚ) ≤ 2 ^ 51 := by exact_mod_cast hN
  have h2 : ((ceilDiv N step - 1 : ℕ) : ℚ) ≤ ((N : ℚ) - 1) / step := by
    rw [le_div_iff₀ hsq]; exact h1
  have h3 : ((N : ℚ) - 1) / step ≤ (N : ℚ) / step * (1 - 1 / 2 ^ 51) := by
    rw [div_mul_eq_mul_div, div_le_div_iff_of_pos_right hsq]
    have : (N : ℚ) * (1 / 2 ^ 51) ≤ 1 := by
      rw [mul_one_div, div_le_one (by positivity)]; exact hNq
    linarith
  have h4 : ((ceilDiv N step - 1 : ℕ) : ℚ) ≤ p := le_trans h2 (le_trans h3 hp)
  have h5 : ((ceilDiv N step - 1 : ℕ) : ℤ) ≤ ⌊p⌋ := by
    rw [Int.le_floor]; exact_mod_cast h4
  have h6 : ceilDiv N step - 1 ≤ ⌊p⌋.toNat := by
    have := Int.toNat_le_toNat h5
    simpa using this
  omega

/-- the clock loop never yields more than `⌈limit/step⌉` frames -/
theorem loopCount_le_ceilDiv (pos step limit : ℕ) : loopCount pos step limit ≤ ceilDiv limit step := by
  unfold loopCount
  split
  · exact ceilDiv_mono (by omega)
  · exact Nat.zero_le _

/-- **Capacity, standard clock / cubic stage** (`den = 2³²`): the count of one invocation fits in
    `1 + (int)(num_in * out_in_ratio)` whatever the three roundings did. -/
theorem capacity_rounded (c : StageCfg) (s : StageSt) (hs : 0 < c.step) (hN : numIn c s * c.den ≤ 2 ^ 51) (p : ℚ)
    (hp : ((numIn c s * c.den : ℕ) : ℚ) / c.step * (1 - 1 / 2 ^ 51) ≤ p) :
    clockedCount c s ≤ 1 + ⌊p⌋.toNat :=
  le_trans (loopCount_le_ceilDiv _ _ _) (ceilDiv_le_rounded _ _ hs hN p hp)

theorem ceilDiv_le_iff (a b c : ℕ) (hb : 0 < b) : ceilDiv a b ≤ c ↔ a ≤ c * b := by
  unfold ceilDiv
  rw [← Nat.lt_succ_iff, Nat.div_lt_iff_lt_mul hb, Nat.succ_mul]
  omega

theorem ceilDiv_scale_le (N S k : ℕ) (hS' : 0 < S / k) (hk : 0 < k) : ceilDiv (N * k) S ≤ ceilDiv N (S / k) := by
  have hle : (S / k) * k ≤ S := Nat.div_mul_le_self S k
  have hS : 0 < S := Nat.lt_of_lt_of_le (Nat.mul_pos hS' hk) hle
  rw [ceilDiv_le_iff _ _ _ hS]
  have h := (ceilDiv_le_iff N (S / k) _ hS').mp (Nat.le_refl _)
  calc N * k ≤ ceilDiv N (S / k) * (S / k) * k := Nat.mul_le_mul_right k h
    _ = ceilDiv N (S / k) * ((S / k) * k) := Nat.mul_assoc _ _ _
    _ ≤ ceilDiv N (S / k) * S := Nat.mul_le_mul_left _ hle

/-- **Capacity, hi-prec clock** (`den = 2³²·2⁶⁴`, the step has 64 more fraction bits): the planner's `out_in_ratio` divides
    by the top 64 bits `step / 2⁶⁴` of the step only — an estimate that is never below the exact ratio — so the same bound
    holds with the 64-bit quantities in the hypothesis. -/
theorem capacity_rounded_hiprec (c : StageCfg) (s : StageSt) (den64 : ℕ) (hden : c.den = den64 * 2 ^ 64)
    (hs : 0 < c.step / 2 ^ 64) (hN : numIn c s * den64 ≤ 2 ^ 51) (p : ℚ)
    (hp : ((numIn c s * den64 : ℕ) : ℚ) / ((c.step / 2 ^ 64 : ℕ) : ℚ) * (1 - 1 / 2 ^ 51) ≤ p) :
    clockedCount c s ≤ 1 + ⌊p⌋.toNat := by
  have h1 : clockedCount c s ≤ ceilDiv (numIn c s * c.den) c.step := loopCount_le_ceilDiv _ _ _
  have h2 : ceilDiv (numIn c s * c.den) c.step ≤ ceilDiv (numIn c s * den64) (c.step / 2 ^ 64) := by
    rw [hden, ← Nat.mul_assoc]
    exact ceilDiv_scale_le _ _ _ hs (Nat.two_pow_pos 64)
  exact le_trans h1 (le_trans h2 (ceilDiv_le_rounded _ _ hs hN p hp))

/-! ## the three roundings of `num_in * (MULT32 * L / (double)step.whole)` -/

/-- what the hypotheses of the capacity theorems ask of the product `p` -/
def RoundedProduct (N step : ℕ) (p : ℚ) : Prop := (N : ℚ) / step * (1 - 1 / 2 ^ 51) ≤ p

/-- **Standard model of floating-point arithmetic** (each binary64 operation returns the exact result times `1 + e`,
    `|e| ≤ u = 2⁻⁵³`; only the unfavourable directions are needed): `w'` = `(double)step.whole`, `q` = the planner's
    `out_in_ratio = D / w'` (`D = MULT32·L`, exact), `p` = the kernel's `num_in * out_in_ratio`.  Then `p` is a
    `RoundedProduct`. -/
theorem three_roundings (n D w : ℕ) (hw : 0 < w) (w' q p : ℚ) (hw' : 0 < w')
    (h1 : w' ≤ (w : ℚ) * (1 + 1 / 2 ^ 53)) (h2 : (D : ℚ) / w' * (1 - 1 / 2 ^ 53) ≤ q) (h3 : (n : ℚ) * q * (1 - 1 / 2 ^ 53) ≤ p) :
    RoundedProduct (n * D) w p := by
  unfold RoundedProduct
  have hwq : (0 : ℚ) < w := by exact_mod_cast hw
  have hD : (0 : ℚ) ≤ D := by exact_mod_cast Nat.zero_le D
  have hn : (0 : ℚ) ≤ n := by exact_mod_cast Nat.zero_le n
  set u : ℚ := 1 / 2 ^ 53 with hu
  have hu0 : 0 < u := by positivity
  have hu1 : u < 1 := by rw [hu]; norm_num
  have e51 : (1 : ℚ) / 2 ^ 51 = 4 * u := by rw [hu]; norm_num
  -- D / w' ≥ D / (w (1+u))
  have hden : (0 : ℚ) < (w : ℚ) * (1 + u) := by positivity
  have a1 : (D : ℚ) / ((w : ℚ) * (1 + u)) ≤ (D : ℚ) / w' := div_le_div_of_nonneg_left hD hw' h1
  have a2 : (D : ℚ) / ((w : ℚ) * (1 + u)) * (1 - u) ≤ q :=
    le_trans (mul_le_mul_of_nonneg_right a1 (by linarith)) h2
  have a3 : (n : ℚ) * ((D : ℚ) / ((w : ℚ) * (1 + u)) * (1 - u)) * (1 - u) ≤ p :=
    le_trans (mul_le_mul_of_nonneg_right (mul_le_mul_of_nonneg_left a2 hn) (by linarith)) h3
  refine le_trans ?_ a3
  rw [e51]
  push_cast
  -- n D / w (1 - 4u) ≤ n D (1-u)^2 / (w (1+u))
  have key : (1 - 4 * u) * (1 + u) ≤ (1 - u) * (1 - u) := by nlinarith [hu0]
  have hND : (0 : ℚ) ≤ (n : ℚ) * D / w := by positivity
  have : (n : ℚ) * D / w * (1 - 4 * u) = (n : ℚ) * D / w * ((1 - 4 * u) * (1 + u)) / (1 + u) := by
    field_simp
  rw [this]
  have : (n : ℚ) * ((D : ℚ) / ((w : ℚ) * (1 + u)) * (1 - u)) * (1 - u) = (n : ℚ) * D / w * ((1 - u) * (1 - u)) / (1 + u) := by
    field_simp
  rw [this]
  apply div_le_div_of_nonneg_right _ (by linarith : (0 : ℚ) ≤ 1 + u)
  exact mul_le_mul_of_nonneg_left key hND

end Soxr.Fifo
