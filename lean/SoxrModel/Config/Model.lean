import SoxrModel.Config.Generated
/-!
# Decision logic of the API layer (`soxr.c`) and of `_soxr_init`'s validation block (`cr.c`)

Core Lean only (the driver `Config/Main.lean` imports this file).

* `Dbl`: IEEE-754 binary64 values as exact dyadics `±m·2^e`, with `inf`/`nan` as separate constructors; comparisons
  are exact and follow IEEE (`nan` compares false); `add/sub/mul/div` are the exact rational operation followed by
  round-to-nearest-even (`roundPos`), i.e. what SSE2 arithmetic computes.
* `qualitySpec`, `runtimeNum`, `runtimeFlag`, `atoi`: the constructors and the `SOXR_*` overrides of `soxr_create`.
* `engineValidate`: the seven tests at the top of `_soxr_init`, in the order the C code makes them.
* `validate`: `soxr_create`'s verdict — error precedence, backwards-compatibility rescaling, engine selection,
  `soxr_set_io_ratio`'s tests, the engine's validation.
* `selectEngine`: `SOXR_VR` ⇒ vr32; `precision <= 20 && !DOUBLE_PRECISION` ⇒ cr32/cr32s; else cr64/cr64s; SIMD variant
  by `SOXR_USE_SIMD`, then `SOXR_USE_SIMD32/64`, then CPU detection.
* `Api`, `step`: the error state machine of a live `soxr_t` (sticky `p->error`, `fatal_error`, `soxr_clear`,
  `soxr_set_error` as written).

What happens *after* a configuration has been accepted (stage planning, filter design: floating point) is not in this
model; "accepted ⇒ working" is `accepted → PipeWF plan`, evaluated on the plans the real planner exports (checks/c09.py).
-/
namespace Soxr.Config

/-! ## binary64 -/

/-- a binary64 value: `fin neg m e` is `(-1)^neg · m · 2^e` -/
inductive Dbl where
  | fin (neg : Bool) (m : Nat) (e : Int)
  | inf (neg : Bool)
  | nan
  deriving DecidableEq, Repr, Inhabited

namespace Dbl

/-- decode an IEEE-754 binary64 bit pattern -/
def ofBits (u : Nat) : Dbl :=
  let s : Bool := (u / 2 ^ 63) % 2 == 1
  let ex : Nat := (u / 2 ^ 52) % 2048
  let fr : Nat := u % 2 ^ 52
  if ex == 2047 then (if fr == 0 then .inf s else .nan)
  else if ex == 0 then .fin s fr (-1074)
  else .fin s (fr + 2 ^ 52) ((ex : Int) - 1075)

/-- `±m·2^(e-e0)` as an integer, for `e0 ≤ e` -/
def scaled (neg : Bool) (m : Nat) (e e0 : Int) : Int :=
  let v : Int := ((m * 2 ^ (e - e0).toNat : Nat) : Int)
  if neg then -v else v

/-- IEEE `<` -/
def lt : Dbl → Dbl → Bool
  | .nan, _ => false
  | _, .nan => false
  | .inf a, .inf b => a && !b
  | .inf a, .fin _ _ _ => a
  | .fin _ _ _, .inf b => !b
  | .fin s m e, .fin t n f => let e0 := min e f; decide (scaled s m e e0 < scaled t n f e0)

/-- IEEE `<=` -/
def le : Dbl → Dbl → Bool
  | .nan, _ => false
  | _, .nan => false
  | .inf a, .inf b => a || !b
  | .inf a, .fin _ _ _ => a
  | .fin _ _ _, .inf b => !b
  | .fin s m e, .fin t n f => let e0 := min e f; decide (scaled s m e e0 ≤ scaled t n f e0)

/-- IEEE `==` (`+0 == -0`, `nan` equals nothing) -/
def eq : Dbl → Dbl → Bool
  | .nan, _ => false
  | _, .nan => false
  | .inf a, .inf b => a == b
  | .inf _, .fin _ _ _ => false
  | .fin _ _ _, .inf _ => false
  | .fin s m e, .fin t n f => let e0 := min e f; decide (scaled s m e e0 = scaled t n f e0)

def gt (a b : Dbl) : Bool := lt b a
def ge (a b : Dbl) : Bool := le b a
def ne (a b : Dbl) : Bool := !eq a b

def isNaN : Dbl → Bool
  | .nan => true
  | _ => false

def isFinite : Dbl → Bool
  | .fin _ _ _ => true
  | _ => false

/-- the positive rational `n/d` (`n, d > 0`) rounded to the nearest binary64, ties to even: mantissa and exponent in the
    canonical form `ofBits` produces (`2^52 ≤ m < 2^53`, or `e = -1074` and `m < 2^52`); overflow is `e ≥ 972` -/
def roundCore (n d : Nat) : Nat × Int :=
  -- 2^(k-1) < n/d < 2^(k+1)
  let k : Int := (Nat.log2 n : Int) - (Nat.log2 d : Int)
  let e0 : Int := k - 52
  let q0 := if 0 ≤ e0 then n / (d * 2 ^ e0.toNat) else (n * 2 ^ (-e0).toNat) / d
  let e1 : Int := if q0 < 2 ^ 52 then e0 - 1 else e0
  let e : Int := max e1 (-1074)
  let n2 := if 0 ≤ e then n else n * 2 ^ (-e).toNat
  let d2 := if 0 ≤ e then d * 2 ^ e.toNat else d
  let q := n2 / d2
  let r := n2 % d2
  let q' := if d2 < 2 * r ∨ (2 * r = d2 ∧ q % 2 = 1) then q + 1 else q
  let m := if q' = 2 ^ 53 then 2 ^ 52 else q'
  let ee := if q' = 2 ^ 53 then e + 1 else e
  (m, ee)

/-- `±n/d` rounded to binary64 (round to nearest even, overflow to infinity) -/
def roundPos (neg : Bool) (n d : Nat) : Dbl :=
  let me := roundCore n d
  if 2 ^ 52 ≤ me.1 ∧ 972 ≤ me.2 then .inf neg else .fin neg me.1 me.2

def neg : Dbl → Dbl
  | .fin s m e => .fin (!s) m e
  | .inf s => .inf (!s)
  | .nan => .nan

def abs : Dbl → Dbl
  | .fin _ m e => .fin false m e
  | .inf _ => .inf false
  | .nan => .nan

/-- IEEE addition, round to nearest even -/
def add : Dbl → Dbl → Dbl
  | .nan, _ => .nan
  | _, .nan => .nan
  | .inf a, .inf b => if a == b then .inf a else .nan
  | .inf a, .fin _ _ _ => .inf a
  | .fin _ _ _, .inf b => .inf b
  | .fin s m e, .fin t n f =>
    let e0 := min e f
    let x := scaled s m e e0 + scaled t n f e0
    if x = 0 then .fin (s && t) 0 (-1074)
    else if 0 ≤ e0 then roundPos (decide (x < 0)) (x.natAbs * 2 ^ e0.toNat) 1
    else roundPos (decide (x < 0)) x.natAbs (2 ^ (-e0).toNat)

def sub (a b : Dbl) : Dbl := add a (neg b)

/-- IEEE multiplication -/
def mul : Dbl → Dbl → Dbl
  | .nan, _ => .nan
  | _, .nan => .nan
  | .inf a, .inf b => .inf (a != b)
  | .inf a, .fin t n _ => if n = 0 then .nan else .inf (a != t)
  | .fin s m _, .inf b => if m = 0 then .nan else .inf (s != b)
  | .fin s m e, .fin t n f =>
    if m * n = 0 then .fin (s != t) 0 (-1074)
    else if 0 ≤ e + f then roundPos (s != t) (m * n * 2 ^ (e + f).toNat) 1
    else roundPos (s != t) (m * n) (2 ^ (-(e + f)).toNat)

/-- IEEE division -/
def div : Dbl → Dbl → Dbl
  | .nan, _ => .nan
  | _, .nan => .nan
  | .inf _, .inf _ => .nan
  | .inf a, .fin t _ _ => .inf (a != t)
  | .fin s _ _, .inf b => .fin (s != b) 0 (-1074)
  | .fin s m e, .fin t n f =>
    if n = 0 then (if m = 0 then .nan else .inf (s != t))
    else if m = 0 then .fin (s != t) 0 (-1074)
    else if f ≤ e then roundPos (s != t) (m * 2 ^ (e - f).toNat) n
    else roundPos (s != t) m (n * 2 ^ (f - e).toNat)

/-- canonical form of a finite value (what `ofBits` would produce for the same number) -/
def normalize : Dbl → Dbl
  | .fin s m e =>
    if m = 0 then .fin s 0 (-1074)
    else if 0 ≤ e then roundPos s (m * 2 ^ e.toNat) 1 else roundPos s m (2 ^ (-e).toNat)
  | d => d

/-- bit pattern of a value (canonical quiet NaN for `nan`) -/
def toBits (d : Dbl) : Nat :=
  match normalize d with
  | .nan => 0x7ff8000000000000
  | .inf s => (if s then 2 ^ 63 else 0) + 0x7ff0000000000000
  | .fin s m e =>
    (if s then 2 ^ 63 else 0) + (if m < 2 ^ 52 then m else ((e + 1075).toNat) * 2 ^ 52 + (m - 2 ^ 52))

def zero : Dbl := .fin false 0 (-1074)
def ofNat (n : Nat) : Dbl := .fin false n 0

end Dbl

open Dbl

/-! ## C library: `atoi` -/

def isSpaceC (c : Char) : Bool := c == ' ' || c == '\t' || c == '\n' || c == '\x0b' || c == '\x0c' || c == '\r'

def digitsVal : List Char → Nat → Nat
  | c :: cs, acc => if c.isDigit then digitsVal cs (acc * 10 + (c.toNat - 48)) else acc
  | [], acc => acc

/-- `atoi(s)` as glibc computes it: `(int) strtol(s, NULL, 10)` — leading white space, optional sign, decimal digits,
    clamped to `long`, truncated to 32 bits -/
def atoi (s : String) : Int :=
  let cs := s.toList.dropWhile isSpaceC
  let (sgn, ds) : Bool × List Char := match cs with
    | '-' :: r => (true, r)
    | '+' :: r => (false, r)
    | r => (false, r)
  let v := digitsVal ds 0
  let l : Int := if sgn then -(min v (2 ^ 63) : Nat) else (min v (2 ^ 63 - 1) : Nat)
  let w := l % (2 ^ 32 : Int)            -- 0 ≤ w < 2^32
  if w < 2 ^ 31 then w else w - 2 ^ 32

/-! ## specs -/

structure QSpec where
  precision : Dbl
  phase : Dbl
  pb : Dbl          -- passband_end
  sb : Dbl          -- stopband_begin
  e : Bool          -- q_spec.e != NULL
  flags : Nat
  deriving DecidableEq, Repr, Inhabited

structure IoSpec where
  itype : Nat
  otype : Nat
  flags : Nat
  e : Bool := false   -- io_spec.e != NULL (set by `soxr_io_spec` for invalid datatypes)
  deriving DecidableEq, Repr, Inhabited

structure RtSpec where
  minDft : Nat
  largeDft : Nat
  coefKb : Nat
  threads : Nat
  flags : Nat
  deriving DecidableEq, Repr, Inhabited

/-- the `SOXR_*` environment variables `soxr_create` reads (`none` = unset) -/
structure Env where
  simd : Option String := none
  simd32 : Option String := none
  simd64 : Option String := none
  minDft : Option String := none
  largeDft : Option String := none
  coefs : Option String := none
  threads : Option String := none
  interp : Option String := none
  strictBuf : Option String := none
  noSmallInt : Option String := none
  deriving DecidableEq, Repr, Inhabited

/-- what CPU detection answers (`cpu_has_simd32()`, `cpu_has_simd64()`) -/
structure Cpu where
  simd32 : Bool
  simd64 : Bool
  deriving DecidableEq, Repr, Inhabited

structure Config where
  irate : Dbl
  orate : Dbl
  channels : Nat
  q : Option QSpec      -- `none`: NULL pointer
  io : Option IoSpec
  rt : Option RtSpec
  env : Env
  cpu : Cpu
  deriving Repr, Inhabited

/-- `soxr_quality_spec(recipe, flags)` from the generated table -/
def qualitySpec (recipe flags : Nat) : QSpec :=
  match Gen.recipeTable.find? (fun r => r.1 == recipe % 128) with
  | some (_, e, pr, ph, pb, sb, f0, f1) =>
    { precision := ofBits pr, phase := ofBits ph, pb := ofBits pb, sb := ofBits sb, e := e,
      flags := ((flags % 2 ^ 64) &&& f1) ||| f0 }
  | none => default

/-- `soxr_runtime_spec(num_threads)` -/
def runtimeDefault (threads : Nat) : RtSpec :=
  { minDft := Gen.runtimeDefault7.1, largeDft := Gen.runtimeDefault7.2.1, coefKb := Gen.runtimeDefault7.2.2.1,
    threads := threads, flags := Gen.runtimeDefault7.2.2.2.2 }

/-- `runtime_num(env_name, min, max, &field)` -/
def runtimeNum (env : Option String) (min max : Int) (field : Nat) : Nat :=
  match env with
  | none => field
  | some e => let i := atoi e; if min ≤ i ∧ i ≤ max then i.toNat else field

/-- `runtime_flag(env_name, n_bits, n_shift, &flags)` -/
def runtimeFlag (env : Option String) (nBits shift : Nat) (flags : Nat) : Nat :=
  match env with
  | none => flags
  | some e =>
    let i := atoi e
    let mask : Nat := 2 ^ nBits - 1
    if 0 ≤ i ∧ i ≤ (mask : Int) then (flags ^^^ (flags &&& (mask <<< shift))) ||| (i.toNat <<< shift) else flags

def numRange (i : Nat) : Int × Int :=
  match Gen.envNums[i]? with
  | some (_, _, lo, hi) => (lo, hi)
  | none => (1, 0)

def flagField (i : Nat) : Nat × Nat :=
  match Gen.envFlags[i]? with
  | some (_, b, s) => (b, s)
  | none => (0, 0)

/-- the seven overrides, in the order `soxr_create` applies them -/
def applyEnv (env : Env) (r : RtSpec) : RtSpec :=
  let f1 := runtimeFlag env.interp (flagField 0).1 (flagField 0).2 r.flags
  let f2 := runtimeFlag env.strictBuf (flagField 1).1 (flagField 1).2 f1
  let f3 := runtimeFlag env.noSmallInt (flagField 2).1 (flagField 2).2 f2
  { minDft := runtimeNum env.minDft (numRange 0).1 (numRange 0).2 r.minDft,
    largeDft := runtimeNum env.largeDft (numRange 1).1 (numRange 1).2 r.largeDft,
    coefKb := runtimeNum env.coefs (numRange 2).1 (numRange 2).2 r.coefKb,
    threads := runtimeNum env.threads (numRange 3).1 (numRange 3).2 r.threads,
    flags := f3 }

/-! ## errors -/

inductive ErrorKind where
  | invalidQuality | invalidDatatype | ratioOutOfRange
  | imaging | transitionBandwidth | transitionBand | precision | factorNotPositive | factorTooLarge | phase
  | mustSetChannels | invalidChannels | channelsFixed | varyingRatio
  | nullOutput | inputFailure | injected
  deriving DecidableEq, Repr, Inhabited

def ErrorKind.msg : ErrorKind → String
  | .invalidQuality => "invalid quality type"
  | .invalidDatatype => "invalid io datatype(s)"
  | .ratioOutOfRange => "I/O ratio out-of-range"
  | .imaging => "imaging greater than rolloff"
  | .transitionBandwidth => "transition bandwidth not in [0.2,50] % of nyquist"
  | .transitionBand => "transition band not within [50,150] % of nyquist"
  | .precision => "precision not in [15,33] bits"
  | .factorNotPositive => "resampling factor not positive"
  | .factorTooLarge => "resampling factor too large"
  | .phase => "phase response not in [0=min-phase,100=max-phase] %"
  | .mustSetChannels => "must set # channels before O/I ratio"
  | .invalidChannels => "invalid # of channels"
  | .channelsFixed => "# of channels can't be changed"
  | .varyingRatio => "varying O/I ratio is not supported with this quality level"
  | .nullOutput => "null output buffer pointer"
  | .inputFailure => "input function reported failure"
  | .injected => "injected error"

/-! ## constants of the validation code -/

def one : Dbl := ofBits Gen.lit_1
def two : Dbl := ofBits Gen.lit_2
def hundred : Dbl := ofBits Gen.lit_100
def minusOne : Dbl := ofBits Gen.lit_m1
def half : Dbl := ofBits Gen.lit_0p5
/-- `tolerance = 1 + 1e-5` -/
def tolerance : Dbl := add one (ofBits Gen.lit_1em5)
def tbwLo : Dbl := div (ofBits Gen.lit_0p002) tolerance      -- .002 / tolerance
def tbwHi : Dbl := mul half tolerance                         -- .5 * tolerance
def pbLo : Dbl := div half tolerance                          -- .5 / tolerance
def sbHi : Dbl := mul (ofBits Gen.lit_1p5) tolerance          -- 1.5 * tolerance
def c15 : Dbl := ofBits Gen.lit_15
def c33 : Dbl := ofBits Gen.lit_33
def c20 : Dbl := ofBits Gen.lit_20
def c100 : Dbl := ofBits Gen.lit_100
/-- `_soxr_init`: factors must be `< 2^31 - 1`; `vr_create`: `< 2^30` -/
def cFactorMax : Dbl := ofBits Gen.lit_factor_max
def cVrFactorMax : Dbl := ofBits Gen.lit_vr_factor_max
def c1em15 : Dbl := ofBits Gen.lit_1em15

/-! ## `_soxr_init`: the validation block -/

/-- `tbw0 = Fs0 - Fp0` -/
def tbw0 (q : QSpec) : Dbl := sub q.sb q.pb

def imagingTest (r : Dbl) (q : QSpec) : Bool :=
  lt r one && gt (sub q.sb one) (sub one (div q.pb tolerance))
/-- the range tests are written `!(lo <= x && x <= hi)`: a NaN fails them -/
def tbwTest (q : QSpec) : Bool := !(le tbwLo (tbw0 q) && le (tbw0 q) tbwHi)
def bandTest (q : QSpec) : Bool := !(le pbLo q.pb && le q.sb sbHi)
def precisionTest (q : QSpec) : Bool := ne q.precision zero && !(le c15 q.precision && le q.precision c33)
def notPositiveTest (r : Dbl) : Bool := !gt r zero
def tooLargeTest (r : Dbl) : Bool := !lt r cFactorMax
def phaseTest (q : QSpec) : Bool := !(le zero q.phase && le q.phase c100)

/-- the error returns at the top of `_soxr_init`, in the order the code tests them -/
def engineValidate (r : Dbl) (q : QSpec) : Option ErrorKind :=
  if imagingTest r q then some .imaging
  else if tbwTest q then some .transitionBandwidth
  else if bandTest q then some .transitionBand
  else if precisionTest q then some .precision
  else if notPositiveTest r then some .factorNotPositive
  else if tooLargeTest r then some .factorTooLarge
  else if phaseTest q then some .phase
  else none

/-! ## engine selection -/

inductive Engine where
  | cr32 | cr32s | cr64 | cr64s | vr32
  deriving DecidableEq, Repr, Inhabited

def Engine.index : Engine → Nat
  | .cr32 => 0 | .cr32s => 1 | .cr64 => 2 | .cr64s => 3 | .vr32 => 4

/-- what `soxr_engine()` returns: the `id()` entry of the selected control block (generated name table) -/
def Engine.name (e : Engine) : String := Gen.engineNames.getD e.index "?"

def Engine.isDouble : Engine → Bool
  | .cr64 => true | .cr64s => true | _ => false

/-- which conversion kernels `soxr_create` installs: `_soxr_deinterleave_f/_soxr_interleave_f` (float engines) or
    `_soxr_deinterleave/_soxr_interleave` (double engines) -/
def Engine.floatKernels (e : Engine) : Bool := !e.isDouble

def Engine.isSimd : Engine → Bool
  | .cr32s => true | .cr64s => true | _ => false

/-- `should_use_simd32/64()`: `SOXR_USE_SIMD`, else `SOXR_USE_SIMD32/64`, else CPU detection -/
def useSimd (all specific : Option String) (cpu : Bool) : Bool :=
  match all with
  | some e => atoi e != 0
  | none => match specific with
    | some e => atoi e != 0
    | none => cpu

def hasFlag (flags bit : Nat) : Bool := flags &&& bit != 0

/-- the control block `soxr_create` picks -/
def selectEngine (q : QSpec) (env : Env) (cpu : Cpu) : Engine :=
  if hasFlag q.flags Gen.flagVR then .vr32
  else if le q.precision c20 && !hasFlag q.flags Gen.flagDoublePrecision then
    (if useSimd env.simd env.simd32 cpu.simd32 then .cr32s else .cr32)
  else (if useSimd env.simd env.simd64 cpu.simd64 then .cr64s else .cr64)

/-! ## `soxr_create` -/

/-- `io_ratio` as `soxr_create` computes it from the two rates: a negative rate gives −1 (each rate, not only the
    quotient, must be positive); so does a quotient of two non-zero rates that underflows to 0 (F43: 0 means "rates not
    given yet" and would leave an object without engines behind a successful create) -/
def ioRatioOf (ir orr : Dbl) : Dbl :=
  if lt ir zero || lt orr zero then minusOne
  else if ne orr zero then (if ne ir zero then (if ne (div ir orr) zero then div ir orr else minusOne) else minusOne)
  else (if ne ir zero then minusOne else zero)

/-- backwards compatibility with the original API: band edges given in percent -/
def rescale (q : QSpec) : QSpec :=
  { q with pb := if gt q.pb two then div q.pb hundred else q.pb,
           sb := if gt q.sb two then sub two (div q.sb hundred) else q.sb }

/-- what the engine's `create` entry answers -/
def engineCreate (eng : Engine) (r : Dbl) (q : QSpec) : Option ErrorKind :=
  if eng = .vr32 then (if !lt r cVrFactorMax then some .factorTooLarge else none)   -- vr_create: octave count uses int shifts
  else engineValidate r q

structure Accepted where
  engine : Engine
  ready : Bool          -- resamplers were built (channels and ratio given)
  q : QSpec             -- quality spec as stored (after rescaling)
  rt : RtSpec           -- runtime spec as stored (after the SOXR_* overrides)
  ioRatio : Dbl
  deriving DecidableEq, Repr, Inhabited

def effectiveQ (c : Config) : QSpec :=
  match c.q with
  | some q => rescale q
  | none => qualitySpec 4 0

def effectiveRt (c : Config) : RtSpec := applyEnv c.env (c.rt.getD (runtimeDefault 1))

def qErr (c : Config) : Bool := match c.q with | some q => q.e | none => false
/-- `io_spec->e` (set by `soxr_io_spec` for invalid codes) or a datatype code `>= 8` -/
def ioErr (c : Config) : Bool := match c.io with | some io => io.e || decide (8 ≤ io.itype ||| io.otype) | none => false

/-- `soxr_create`: `error _` = NULL and that error string; `ok _` = a live resampler -/
def validate (c : Config) : Except ErrorKind Accepted :=
  if qErr c then .error .invalidQuality
  else if ioErr c then .error .invalidDatatype
  else
    let q := effectiveQ c
    let eng := selectEngine q c.env c.cpu
    let r := ioRatioOf c.irate c.orate
    if c.channels ≠ 0 ∧ ne r zero = true then
      if !gt r zero then .error .ratioOutOfRange
      else match engineCreate eng r q with
        | some e => .error e
        | none => .ok { engine := eng, ready := true, q := q, rt := effectiveRt c, ioRatio := r }
    else .ok { engine := eng, ready := false, q := q, rt := effectiveRt c, ioRatio := r }

/-! ## the error state machine of a live `soxr_t` -/

structure Api where
  error : Option ErrorKind
  channels : Nat
  ioRatio : Dbl
  built : Bool          -- `channel_ptrs` / `resamplers` exist
  wiped : Bool          -- `fatal_error` has zeroed the whole struct, control block included
  q : QSpec
  itype : Nat
  otype : Nat
  engine : Engine
  deriving DecidableEq, Repr, Inhabited

def zeroQ : QSpec := { precision := zero, phase := zero, pb := zero, sb := zero, e := false, flags := 0 }

/-- the state `soxr_create` returns for an accepted configuration -/
def Api.ofAccepted (c : Config) (a : Accepted) : Api :=
  { error := none, channels := c.channels, ioRatio := a.ioRatio, built := a.ready, wiped := false, q := a.q,
    itype := (c.io.map (·.itype)).getD 0, otype := (c.io.map (·.otype)).getD 0, engine := a.engine }

/-- `fatal_error(p, e)`: `soxr_delete0` zeroes everything, then the error is stored -/
def Api.fatal (s : Api) (e : ErrorKind) : Api :=
  { error := some e, channels := 0, ioRatio := zero, built := false, wiped := true, q := zeroQ, itype := 0, otype := 0,
    engine := s.engine }

def Api.bothSplit (s : Api) : Bool := s.itype &&& s.otype &&& Gen.splitBit != 0

/-- what the registered input function did during one `soxr_output` call (observed by the harness) -/
inductive FnObs where
  | quiet       -- none registered, or not called, or it supplied data / signalled end of input
  | failed      -- it was called and reported failure
  deriving DecidableEq, Repr, Inhabited

inductive Op where
  | setIoRatio (r : Dbl)
  | setChannels (n : Nat)
  | setError (e : Option ErrorKind)
  | process (inNull outNull : Bool) (olen : Nat) (fn : FnObs)
  | output (outNull : Bool) (olen : Nat) (fn : FnObs)
  | delay
  | clear
  | error
  | engine
  deriving DecidableEq, Repr, Inhabited

/-- how many frames a call delivered, as far as this model knows -/
inductive Frames where
  | zero        -- exactly none
  | any         -- whatever the engine has (not decided here)
  deriving DecidableEq, Repr, Inhabited

inductive Ret where
  | status (e : Option ErrorKind)                      -- a `soxr_error_t`
  | frames (n : Frames) (e : Option ErrorKind)         -- `soxr_process`: odone and the returned error
  | count (n : Frames)                                 -- `soxr_output` / `soxr_delay`
  | name (s : String)                                  -- `soxr_engine`
  | nullCall                                           -- a call through the zeroed control block (crash)
  | misuse                                             -- API misuse that dereferences NULL: processing before channels
                                                       -- and ratio were set; NULL array of split output buffers
  deriving DecidableEq, Repr, Inhabited

def setIoRatio (s : Api) (r : Dbl) : Api × Ret :=
  match s.error with
  | some e => (s, .status (some e))
  | none =>
    if s.channels = 0 then (s, .status (some .mustSetChannels))
    else if !gt r zero then (s, .status (some .ratioOutOfRange))
    else if !s.built then
      if s.wiped then (s, .nullCall)
      else match engineCreate s.engine r s.q with
        | some e => (s.fatal e, .status (some e))
        | none => ({ s with ioRatio := r, built := true }, .status none)
    else if s.engine = .vr32 then (s, .status none)
    else if lt (abs (sub s.ioRatio r)) c1em15 then (s, .status none)
    else (s, .status (some .varyingRatio))

def setChannels (s : Api) (n : Nat) : Api × Ret :=
  if n = s.channels then (s, .status s.error)
  else if n = 0 then (s, .status (some .invalidChannels))
  else if s.built then (s, .status (some .channelsFixed))
  else setIoRatio { s with channels := n } s.ioRatio

/-- `soxr_set_error` as written: `if (!p->error && p->error != error) return p->error; p->error = error; return 0;` -/
def setError (s : Api) (e : Option ErrorKind) : Api × Ret :=
  if s.error = none ∧ e ≠ none then (s, .status none)
  else ({ s with error := e }, .status none)

def output (s : Api) (outNull : Bool) (olen : Nat) (fn : FnObs) : Api × Ret :=
  match s.error with
  | some _ => (s, .count .zero)
  | none =>
    if !s.built then (s, .misuse)
    else if outNull && decide (0 < olen) then ({ s with error := some .nullOutput }, .count .zero)
    else if outNull && s.otype &&& Gen.splitBit != 0 then (s, .misuse)   -- NULL array of split buffers is indexed
    else match fn with
      | .failed => ({ s with error := some .inputFailure }, .count .any)
      | .quiet => (s, .count .any)

/-- `soxr_process`: `odone` and the returned `p->error`.  `fn`: what a registered input function did when the embedded
    `soxr_output` called it. -/
def process (s : Api) (inNull outNull : Bool) (olen : Nat) (fn : FnObs) : Api × Ret :=
  if outNull && inNull then (s, .frames .zero s.error)
  else match s.error with
    | some e => (s, .frames .zero (some e))          -- sticky on every path: nothing consumed, nothing delivered
    | none =>
      if s.bothSplit then
        -- the split-in/split-out path drives the engine directly (and never calls the input function)
        if !s.built || outNull then (s, .misuse)
        else (s, .frames .any none)
      else match output s outNull olen fn with
        | (s', .count n) => (s', .frames n s'.error)
        | (s', r) => (s', r)

def delay (s : Api) : Api × Ret :=
  if s.error.isSome || !s.built then (s, .count .zero) else (s, .count .any)

/-- `soxr_clear`: everything but the configuration is reset; recipes with RESET_ON_CLEAR get their ratio back — stored as
    `soxr_create` stores it, and the engine re-created only when the channel count and the ratio are known -/
def clear (s : Api) : Api × Ret :=
  -- torn down by a fatal error (control block zeroed): nothing is left to restart from, the error stays
  if s.error.isSome && s.wiped then (s, .status s.error) else
  let s' := { s with error := none, built := false, ioRatio := zero }
  if hasFlag s.q.flags Gen.flagResetOnClear then
    let s'' := { s' with ioRatio := s.ioRatio }
    if s.channels ≠ 0 ∧ ne s.ioRatio zero = true then setIoRatio s'' s.ioRatio else (s'', .status none)
  else (s', .status none)

def step (s : Api) : Op → Api × Ret
  | .setIoRatio r => setIoRatio s r
  | .setChannels n => setChannels s n
  | .setError e => setError s e
  | .process i o n fn => process s i o n fn
  | .output o n fn => output s o n fn
  | .delay => delay s
  | .clear => clear s
  | .error => (s, .status s.error)
  | .engine => if s.wiped then (s, .name Gen.engineNameWiped) else (s, .name s.engine.name)

/-- run a call sequence, collecting what every call returned -/
def run (s : Api) : List Op → Api × List Ret
  | [] => (s, [])
  | op :: ops => let (s1, r) := step s op; let (s2, rs) := run s1 ops; (s2, r :: rs)

end Soxr.Config
