import SoxrModel.Config.Model
/-!
# Lemmas about the Config model: order facts of `Dbl`, the validation block, the error state machine
-/
namespace Soxr.Config
namespace Dbl

/-- on non-NaN values `<` and `<=` are complementary (IEEE total order of the extended reals) -/
theorem le_of_lt_false (a b : Dbl) (ha : a.isNaN = false) (hb : b.isNaN = false) (h : lt b a = false) : le a b = true := by
  cases a <;> cases b <;> simp_all [lt, le, isNaN]
  case fin.fin s m e t n f =>
    rw [Int.min_comm f e] at h
    omega
  all_goals (first | omega | (cases ‹Bool› <;> cases ‹Bool› <;> simp_all))

theorem lt_false_of_le (a b : Dbl) (h : le a b = true) : lt b a = false := by
  cases a <;> cases b <;> simp_all [lt, le]
  case fin.fin s m e t n f =>
    rw [Int.min_comm f e]
    omega
  all_goals (first | omega | (cases ‹Bool› <;> cases ‹Bool› <;> simp_all))

theorem not_nan_of_le_left (a b : Dbl) (h : le a b = true) : a.isNaN = false := by
  cases a <;> simp_all [le, isNaN]

theorem not_nan_of_le_right (a b : Dbl) (h : le a b = true) : b.isNaN = false := by
  cases a <;> cases b <;> simp_all [le, isNaN]

theorem not_nan_of_lt_left (a b : Dbl) (h : lt a b = true) : a.isNaN = false := by
  cases a <;> simp_all [lt, isNaN]

theorem not_nan_of_lt_right (a b : Dbl) (h : lt a b = true) : b.isNaN = false := by
  cases a <;> cases b <;> simp_all [lt, isNaN]

theorem le_of_lt (a b : Dbl) (h : lt a b = true) : le a b = true := by
  cases a <;> cases b <;> simp_all [lt, le]
  case fin.fin s m e t n f => omega
  all_goals (first | omega | (cases ‹Bool› <;> cases ‹Bool› <;> simp_all))

/-- the result of rounding carries the sign it was given -/
theorem roundPos_sign (neg : Bool) (n d : Nat) : (∃ m e, roundPos neg n d = .fin neg m e) ∨ roundPos neg n d = .inf neg := by
  unfold roundPos
  simp only []
  split
  · exact Or.inr rfl
  · exact Or.inl ⟨_, _, rfl⟩

/-- nothing of negative sign is `> 0` -/
theorem gt_zero_false_of_neg (x : Dbl) (h : (∃ m e, x = .fin true m e) ∨ x = .inf true) : gt x zero = false := by
  rcases h with ⟨m, e, rfl⟩ | rfl
  · have h0 : scaled false 0 (-1074) (min (-1074) e) = 0 := by simp [scaled]
    have h1 : scaled true m e (min (-1074) e) ≤ 0 := by
      have := Int.natCast_nonneg (m * 2 ^ (e - min (-1074) e).toNat)
      simp only [scaled, if_true]
      omega
    simp only [gt, zero, lt, h0]
    simp
    omega
  · simp [gt, zero, lt]

/-- the quotient of two finite values of opposite sign is never `> 0` -/
theorem div_opposite_sign (s t : Bool) (m n : Nat) (e f : Int) (h : s ≠ t) : gt (div (.fin s m e) (.fin t n f)) zero = false := by
  have hst : (s != t) = true := by cases s <;> cases t <;> simp_all
  unfold div
  simp only [hst]
  split
  · split
    · simp [gt, lt, zero]
    · exact gt_zero_false_of_neg _ (Or.inr rfl)
  · split
    · exact gt_zero_false_of_neg _ (Or.inl ⟨_, _, rfl⟩)
    · split
      · rcases roundPos_sign true (m * 2 ^ (e - f).toNat) n with h | h
        · exact gt_zero_false_of_neg _ (Or.inl h)
        · exact gt_zero_false_of_neg _ (Or.inr h)
      · rcases roundPos_sign true m (n * 2 ^ (f - e).toNat) with h | h
        · exact gt_zero_false_of_neg _ (Or.inl h)
        · exact gt_zero_false_of_neg _ (Or.inr h)

/-- whatever is `> 0` is `!= 0` -/
theorem ne_zero_of_gt_zero (x : Dbl) (h : gt x zero = true) : ne x zero = true := by
  cases x with
  | nan => simp [gt, lt, zero] at h
  | inf s => simp [ne, eq, zero]
  | fin s m e =>
    simp only [gt, lt, zero] at h
    simp only [ne, eq, zero]
    rw [Int.min_comm e (-1074)]
    have h0 : scaled false 0 (-1074) (min (-1074) e) = 0 := by simp [scaled]
    rw [h0] at h ⊢
    simp at h ⊢
    omega

theorem div_nan_left (x : Dbl) : div .nan x = .nan := by cases x <;> rfl
theorem div_nan_right (x : Dbl) : div x .nan = .nan := by cases x <;> rfl

end Dbl

open Dbl

/-- `soxr_create` returned a resampler whose channels were built -/
def isReady : Except ErrorKind Accepted → Bool
  | .ok a => a.ready
  | .error _ => false

theorem isReady_iff (x : Except ErrorKind Accepted) : isReady x = true ↔ ∃ a, x = .ok a ∧ a.ready = true := by
  cases x with
  | error e => simp [isReady]
  | ok a => simp [isReady]

/-! ## the validation block -/

/-- which test fires is decided by the first one that holds, in the order of the C code -/
theorem engineValidate_none_iff (r : Dbl) (q : QSpec) :
    engineValidate r q = none ↔
      (imagingTest r q = false ∧ tbwTest q = false ∧ bandTest q = false ∧ precisionTest q = false ∧
       notPositiveTest r = false ∧ tooLargeTest r = false ∧ phaseTest q = false) := by
  unfold engineValidate
  cases imagingTest r q <;> cases tbwTest q <;> cases bandTest q <;> cases precisionTest q <;>
    cases notPositiveTest r <;> cases tooLargeTest r <;> cases phaseTest q <;> simp

theorem engineValidate_precedence (r : Dbl) (q : QSpec) :
    (engineValidate r q = some .imaging ↔ imagingTest r q = true) ∧
    (engineValidate r q = some .transitionBandwidth ↔ imagingTest r q = false ∧ tbwTest q = true) ∧
    (engineValidate r q = some .transitionBand ↔ imagingTest r q = false ∧ tbwTest q = false ∧ bandTest q = true) ∧
    (engineValidate r q = some .precision ↔
      imagingTest r q = false ∧ tbwTest q = false ∧ bandTest q = false ∧ precisionTest q = true) ∧
    (engineValidate r q = some .factorNotPositive ↔
      imagingTest r q = false ∧ tbwTest q = false ∧ bandTest q = false ∧ precisionTest q = false ∧ notPositiveTest r = true) ∧
    (engineValidate r q = some .factorTooLarge ↔
      imagingTest r q = false ∧ tbwTest q = false ∧ bandTest q = false ∧ precisionTest q = false ∧ notPositiveTest r = false ∧
      tooLargeTest r = true) ∧
    (engineValidate r q = some .phase ↔
      imagingTest r q = false ∧ tbwTest q = false ∧ bandTest q = false ∧ precisionTest q = false ∧ notPositiveTest r = false ∧
      tooLargeTest r = false ∧ phaseTest q = true) := by
  unfold engineValidate
  cases imagingTest r q <;> cases tbwTest q <;> cases bandTest q <;> cases precisionTest q <;>
    cases notPositiveTest r <;> cases tooLargeTest r <;> cases phaseTest q <;> simp

/-- a two-sided range test `!(lo <= x && x <= hi)` that does not fire means `lo <= x <= hi` -/
theorem range_of_test_false (lo hi x : Dbl) (h : (!(le lo x && le x hi)) = false) : le lo x = true ∧ le x hi = true := by
  cases h1 : le lo x <;> cases h2 : le x hi <;> simp_all

theorem test_false_of_range (lo hi x : Dbl) (h1 : le lo x = true) (h2 : le x hi = true) : (!(le lo x && le x hi)) = false := by
  simp [h1, h2]

/-- the expression the range tests had before the NaN repair (`lo > x || x > hi`): it lets every NaN through -/
def preRepairRangeTest (lo hi x : Dbl) : Bool := gt lo x || gt x hi

/-! ## the error state machine -/

/-- ops that neither clear nor overwrite the recorded error -/
def Op.quiet : Op → Bool
  | .clear => false
  | .setError _ => false
  | _ => true

/-- what a call answers while the error `e` is recorded -/
def stickyRet (e : ErrorKind) : Op → Ret → Prop
  | .process _ _ _ _, r => r = .frames .zero (some e)
  | .output _ _ _, r => r = .count .zero
  | .delay, r => r = .count .zero
  | .setIoRatio _, r => r = .status (some e)
  | .error, r => r = .status (some e)
  | _, _ => True

theorem setIoRatio_error (s : Api) (r : Dbl) (e : ErrorKind) (h : s.error = some e) : setIoRatio s r = (s, .status (some e)) := by
  unfold setIoRatio; rw [h]

/-- one quiet call on a resampler that holds an error: the error stays and the call answers the error / delivers nothing -/
theorem step_sticky (s : Api) (e : ErrorKind) (op : Op) (h : s.error = some e) (hq : op.quiet = true) :
    (step s op).1.error = some e ∧ stickyRet e op (step s op).2 := by
  cases op with
  | setIoRatio r => simp [step, setIoRatio_error s r e h, h, stickyRet]
  | setChannels n =>
    simp only [step, setChannels, stickyRet, and_true]
    split
    · exact h
    · split
      · exact h
      · split
        · exact h
        · rw [setIoRatio_error _ _ e (by exact h)]
          exact h
  | setError x => simp [Op.quiet] at hq
  | process i o n fn =>
    simp only [step, process, stickyRet, h]
    cases (o && i) <;> simp [h]
  | output o n fn => simp [step, output, h, stickyRet]
  | delay => simp [step, delay, h, stickyRet]
  | clear => simp [Op.quiet] at hq
  | error => simp [step, h, stickyRet]
  | engine =>
    simp only [step, stickyRet, and_true]
    split <;> exact h

/-- the answers of a call sequence, paired with the calls: `R op answer` for every call -/
inductive Answers (R : Op → Ret → Prop) : List Op → List Ret → Prop
  | nil : Answers R [] []
  | cons {a b as bs} : R a b → Answers R as bs → Answers R (a :: as) (b :: bs)


theorem run_sticky (ops : List Op) : ∀ (s : Api) (e : ErrorKind), s.error = some e →
    (∀ op ∈ ops, op.quiet = true) →
    (run s ops).1.error = some e ∧ Answers (stickyRet e) ops (run s ops).2 := by
  induction ops with
  | nil => intro s e h _; exact ⟨h, Answers.nil⟩
  | cons op ops ih =>
    intro s e h hq
    obtain ⟨h1, h3⟩ := step_sticky s e op h (hq op (List.mem_cons_self ..))
    obtain ⟨g1, g2⟩ := ih (step s op).1 e h1 (fun o ho => hq o (List.mem_cons_of_mem _ ho))
    simp only [run]
    exact ⟨g1, Answers.cons h3 g2⟩

theorem setIoRatio_engine (s : Api) (r : Dbl) : (setIoRatio s r).1.engine = s.engine := by
  simp only [setIoRatio]
  repeat' split
  all_goals first | rfl | simp [Api.fatal]

theorem output_engine (s : Api) (o : Bool) (n : Nat) (fn : FnObs) : (output s o n fn).1.engine = s.engine := by
  simp only [output]
  repeat' split
  all_goals rfl

theorem process_engine (s : Api) (i o : Bool) (n : Nat) (fn : FnObs) : (process s i o n fn).1.engine = s.engine := by
  have h := output_engine s o n fn
  simp only [process]
  split
  · rfl
  · split
    · rfl
    · split
      · split <;> rfl
      · generalize output s o n fn = x at h
        obtain ⟨s', r⟩ := x
        cases r <;> exact h

/-- the engine of a live resampler never changes -/
theorem step_engine (s : Api) (op : Op) : (step s op).1.engine = s.engine := by
  cases op with
  | setIoRatio r => exact setIoRatio_engine s r
  | setChannels n =>
    simp only [step, setChannels]
    repeat' split
    all_goals first | rfl | (rw [setIoRatio_engine])
  | setError x => simp only [step, setError]; split <;> rfl
  | process i o n fn => exact process_engine s i o n fn
  | output o n fn => exact output_engine s o n fn
  | delay => simp only [step, delay]; split <;> rfl
  | clear =>
    simp only [step, clear]
    split
    · rfl
    · split
      · split
        · rw [setIoRatio_engine]
        · rfl
      · rfl
  | error => rfl
  | engine => simp only [step]; split <;> rfl

theorem run_engine (ops : List Op) : ∀ s : Api, (run s ops).1.engine = s.engine := by
  induction ops with
  | nil => intro s; rfl
  | cons op ops ih => intro s; simp only [run]; rw [ih, step_engine]

end Soxr.Config
