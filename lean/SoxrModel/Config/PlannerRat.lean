import SoxrModel.Config.PlannerLemmas
import Mathlib.Tactic.Ring
import Mathlib.Tactic.Linarith
import Mathlib.Tactic.FieldSimp
import Mathlib.Tactic.Positivity
/-!
# The planner's rate decomposition in exact rationals

`toRat` gives a finite `Dbl` its value; the factor-carrying operations of the model (`scale2`, `ofInt`) are exact, so the
product of the stage rates can be followed through one pass of the stage-determination loop as an identity in ℚ.
(Not imported by the driver.)
-/
namespace Soxr.Config
open Dbl

/-- the value of a finite binary64 (0 for the others) -/
def toRat : Dbl → ℚ
  | .fin s m e => (if s then -1 else 1) * (m : ℚ) * (2 : ℚ) ^ e
  | _ => 0

def isFin (x : Dbl) : Prop := x.isFinite = true

theorem toRat_scale2 (x : Dbl) (k : Int) : toRat (scale2 x k) = toRat x * (2 : ℚ) ^ k := by
  cases x with
  | fin s m e => simp only [scale2, toRat]; rw [zpow_add₀ (by norm_num)]; ring
  | inf s => simp [scale2, toRat]
  | nan => simp [scale2, toRat]

theorem isFin_scale2 (x : Dbl) (k : Int) (h : isFin x) : isFin (scale2 x k) := by
  cases x <;> simp_all [scale2, isFin, isFinite]

theorem toRat_ofInt (i : Int) : toRat (ofInt i) = i := by
  unfold ofInt toRat
  have hc : ((i.natAbs : ℕ) : ℚ) = ((|i| : ℤ) : ℚ) := Nat.cast_natAbs i
  by_cases h : i < 0
  · simp only [h, decide_true, if_true, zpow_zero, mul_one]
    rw [hc, abs_of_neg h]; push_cast; ring
  · simp only [h, decide_false, Bool.false_eq_true, if_false, zpow_zero, mul_one, one_mul]
    rw [hc, abs_of_nonneg (not_lt.1 h)]

/-- the halving loop keeps `arbM * 2^shr` -/
theorem halve_rat (f : Nat) : ∀ (i : Int) (a : Dbl) (s : Nat) (ok : Bool), isFin a →
    isFin (halve f i a s ok).1 ∧ toRat (halve f i a s ok).1 * (2 : ℚ) ^ (halve f i a s ok).2.1 = toRat a * (2 : ℚ) ^ s := by
  induction f with
  | zero => intro i a s ok h; exact ⟨h, rfl⟩
  | succ f ih =>
    intro i a s ok h
    simp only [halve]
    split
    · exact ⟨h, rfl⟩
    · obtain ⟨h1, h2⟩ := ih (i / 2) (scale2 a (-1)) (s + 1) (ok && Dbl.eq (mul a half) (scale2 a (-1))) (isFin_scale2 a _ h)
      refine ⟨h1, ?_⟩
      rw [h2, toRat_scale2, pow_succ]
      have : (2 : ℚ) ^ (-1 : ℤ) = 1 / 2 := by norm_num
      rw [this]; ring

theorem preFactors_fin (u m : Bool) (a1 : Dbl) (h : isFin a1) : isFin (preFactors u m a1).2.2.2.2 := by
  have f1 := isFin_scale2 a1 (-1) h
  have f2 := isFin_scale2 a1 1 h
  have f3 := isFin_scale2 (scale2 a1 (-1)) 1 f1
  unfold preFactors
  simp only []
  generalize (gt a1 c1p5 && lt a1 two) = b1
  generalize gt a1 one = b2
  cases u <;> cases m <;> cases b1 <;> cases b2 <;> simp [b2n] <;>
    (try (generalize lt _ two = b3; cases b3 <;> simp)) <;> assumption

/-- `arbM /= postM, arbM *= preL`: the value is multiplied by `preL / postM` exactly -/
theorem preFactors_rat (u m : Bool) (a1 : Dbl) :
    toRat (preFactors u m a1).2.2.2.2 * ((preFactors u m a1).2.1 : ℚ) = toRat a1 * ((preFactors u m a1).2.2.1 : ℚ) := by
  have z1 : (2 : ℚ) ^ (-1 : ℤ) = 1 / 2 := by norm_num
  have z2 : (2 : ℚ) ^ (1 : ℤ) = 2 := by norm_num
  unfold preFactors
  simp only []
  generalize (gt a1 c1p5 && lt a1 two) = b1
  generalize gt a1 one = b2
  cases u <;> cases m <;> cases b1 <;> cases b2 <;> simp [b2n] <;>
    (try (generalize lt _ two = b3; cases b3 <;> simp)) <;>
    (first | (simp only [toRat_scale2, z1, z2]; ring) | simp only [toRat_scale2, z1, z2] | ring)

/-- the resampling factor a planner state stands for: the product of the rates (input per output) of its stages —
    `shr` halvings, the pre stage `max(preM,1)/preL`, the arbitrary-ratio stage `arbM/arbL`, the post stage `postM/postL` -/
def ratioOf (st : PSt) : ℚ :=
  (2 : ℚ) ^ st.shr * ((max st.preM 1 : ℕ) : ℚ) / st.preL * (toRat st.arbM / st.arbL) * st.postM / st.postL

theorem ratioOf_retryMode (s : PSt) : ratioOf (retryMode s) = ratioOf s := by
  obtain ⟨r1, r2, r3, r4, r5, r6, r7, _⟩ := retryMode_fields s
  unfold ratioOf; rw [r1, r2, r3, r4, r5, r6, r7]

theorem snap_none (a3 : Dbl) (arbL0 shr maxL : Nat) (h : (snap a3 arbL0 shr maxL).1 = none) :
    (snap a3 arbL0 shr maxL).2.1 = a3 ∧ (snap a3 arbL0 shr maxL).2.2.1 = arbL0 ∧ (snap a3 arbL0 shr maxL).2.2.2.1 = shr := by
  unfold snap at h ⊢
  simp only [] at h ⊢
  split
  · exact ⟨rfl, rfl, rfl⟩
  · next i t hf =>
    rw [hf] at h
    dsimp only at h
    by_cases ht : t = (i : Int)
    · rw [if_pos ht] at h; cases h
    · rw [if_neg ht] at h; cases h

/-- what the snap does when the search finds `(i, try)` -/
theorem snap_some (a3 : Dbl) (arbL0 shr maxL i : Nat) (t : Int) (h : (snap a3 arbL0 shr maxL).1 = some (i, t)) :
    (t = (i : Int) → (snap a3 arbL0 shr maxL).2.2.1 = arbL0 ∧
      toRat (snap a3 arbL0 shr maxL).2.1 * (2 : ℚ) ^ (snap a3 arbL0 shr maxL).2.2.2.1 = toRat (ceilD a3) * (2 : ℚ) ^ shr) ∧
    (t ≠ (i : Int) → (snap a3 arbL0 shr maxL).2.2.1 = i ∧ (snap a3 arbL0 shr maxL).2.2.2.1 = shr ∧
      toRat (snap a3 arbL0 shr maxL).2.1 = (i : ℚ) * (a3.truncInt : ℚ) + (t : ℚ)) ∧
    1 ≤ i ∧ i ≤ maxL := by
  have z1 : (2 : ℚ) ^ (-1 : ℤ) = 1 / 2 := by norm_num
  unfold snap at h ⊢
  simp only [] at h ⊢
  split
  · next hn => rw [hn] at h; cases h
  · next j u hf =>
    have hju : (j, u) = (i, t) := by
      rw [hf] at h
      dsimp only at h
      by_cases ht : u = (j : Int)
      · rw [if_pos ht] at h; exact Option.some.inj h
      · rw [if_neg ht] at h; exact Option.some.inj h
    injection hju with hj hu
    subst hj; subst hu
    have hr : 1 ≤ j ∧ j ≤ maxL := by
      split at hf
      · cases hf
      · obtain ⟨h1, h2, _, _⟩ := search_range _ _ _ _ _ _ hf
        exact ⟨h1, by omega⟩
    refine ⟨?_, ?_, hr.1, hr.2⟩
    · intro ht
      rw [if_pos ht]
      dsimp only
      refine ⟨rfl, ?_⟩
      cases hx : gt (ceilD a3) (ofBits Gen.lit_3)
      · simp [b2n]
      · simp only [b2n, if_true, beq_self_eq_true, toRat_scale2, z1, pow_succ]; ring
    · intro ht
      rw [if_neg ht]
      dsimp only
      refine ⟨rfl, rfl, ?_⟩
      rw [toRat_ofInt]; push_cast; ring

/-- the fields of `core` in terms of its three steps -/
theorem core_fields (k : Knobs) (st : PSt) :
    let hv := halve 64 (mul half st.arbM).truncInt st.arbM 0 st.faithful
    let pf := preFactors (lt st.arbM one) (st.mode != 0) hv.1
    let sn := snap pf.2.2.2.2 st.arbL hv.2.1 (maxLOf k st.mode)
    (core k st).a3 = pf.2.2.2.2 ∧ (core k st).found = sn.1 ∧ (core k st).a4 = sn.2.1 ∧ (core k st).arbL = sn.2.2.1 ∧
    (core k st).shr4 = sn.2.2.2.1 ∧ (core k st).preM = pf.1 ∧ (core k st).postM = pf.2.1 ∧ (core k st).preL = pf.2.2.1 ∧
    (core k st).shr = hv.2.1 := ⟨rfl, rfl, rfl, rfl, rfl, rfl, rfl, rfl, rfl⟩

/-- the value entering the snap: `arbM * preL / (2^shr * postM)` of the pass's starting value, exactly -/
theorem core_a3 (k : Knobs) (st : PSt) (hfin : isFin st.arbM) :
    toRat (core k st).a3 * (core k st).postM * (2 : ℚ) ^ (core k st).shr = toRat st.arbM * (core k st).preL := by
  obtain ⟨e1, _, _, _, _, _, e7, e8, e9⟩ := core_fields k st
  obtain ⟨_, hh⟩ := halve_rat 64 (mul half st.arbM).truncInt st.arbM 0 st.faithful hfin
  have hp := preFactors_rat (lt st.arbM one) (st.mode != 0) (halve 64 (mul half st.arbM).truncInt st.arbM 0 st.faithful).1
  rw [e1, e7, e8, e9]
  simp only [pow_zero, mul_one] at hh
  rw [hp, ← hh]; ring

/-- **A pass that does not snap keeps the factor exactly**: if the search finds no denominator (irrational ratio, or `frac == 0`)
    the product of the stage rates after the pass is the value the pass started from (over the
    post stage already split off). -/
theorem base_unsnapped (k : Knobs) (st : PSt) (hfin : isFin st.arbM) (hfresh : st.arbL = 1)
    (hnone : (core k st).found = none) :
    ratioOf (baseOf st (core k st)) = toRat st.arbM / st.postL := by
  obtain ⟨_, e2, e3, e4, e5, _, _, _, _⟩ := core_fields k st
  obtain ⟨c1, c2, c3, _⟩ := core_bounds k st
  have ha3 := core_a3 k st hfin
  rw [e2] at hnone
  obtain ⟨s1, s2, s3⟩ := snap_none _ _ _ _ hnone
  unfold ratioOf baseOf
  simp only []
  have hM : max (core k st).preM 1 = 1 := by omega
  have hpL : ((core k st).preL : ℚ) ≠ 0 := by rcases c3 with c3 | c3 <;> rw [c3] <;> norm_num
  have hpM : ((core k st).postM : ℚ) ≠ 0 := by rcases c2 with c2 | c2 <;> rw [c2] <;> norm_num
  rw [hM, e3, e4, e5, s1, s2, s3, hfresh]
  have e1 := (core_fields k st).1
  rw [← e1]
  have : toRat (core k st).a3 = toRat st.arbM * (core k st).preL / ((core k st).postM * (2 : ℚ) ^ (core k st).shr) := by
    field_simp; linarith [ha3]
  rw [this]
  have h2 : ((2 : ℚ) ^ (core k st).shr) ≠ 0 := by positivity
  rw [(core_fields k st).2.2.2.2.2.2.2.2]
  field_simp

/-- the value the snap replaces `arbM` by: `ceil(arbM)` when the fraction rounds up to a whole, else `(int)arbM + try / i` -/
def snappedValue (a3 : Dbl) (i : Nat) (t : Int) : ℚ :=
  if t = (i : Int) then toRat (ceilD a3) else (a3.truncInt : ℚ) + (t : ℚ) / i

/-- **A pass that snaps changes the factor by exactly the snap**: if the search finds `(i, try)` the
    product of the stage rates after the pass is the starting value times `snapped / arbM`, where `arbM` is the value that
    entered the snap; `planner_search_spec` says how close the planner's own test requires the two to be. -/
theorem base_snapped (k : Knobs) (st : PSt) (hfin : isFin st.arbM) (hfresh : st.arbL = 1) (i : Nat) (t : Int)
    (hsome : (core k st).found = some (i, t)) :
    ratioOf (baseOf st (core k st)) * toRat (core k st).a3 = toRat st.arbM / st.postL * snappedValue (core k st).a3 i t := by
  have e3 : (core k st).a4 = (snap (core k st).a3 st.arbL (core k st).shr (maxLOf k st.mode)).2.1 := rfl
  have e4 : (core k st).arbL = (snap (core k st).a3 st.arbL (core k st).shr (maxLOf k st.mode)).2.2.1 := rfl
  have e5 : (core k st).shr4 = (snap (core k st).a3 st.arbL (core k st).shr (maxLOf k st.mode)).2.2.2.1 := rfl
  have hs : (snap (core k st).a3 st.arbL (core k st).shr (maxLOf k st.mode)).1 = some (i, t) := hsome
  obtain ⟨c1, c2, c3, _⟩ := core_bounds k st
  have ha3 := core_a3 k st hfin
  obtain ⟨s1, s2, hi1, _⟩ := snap_some _ _ _ _ _ _ hs
  rw [← e3, ← e4, ← e5] at s1 s2
  unfold ratioOf baseOf snappedValue
  simp only []
  have hM : max (core k st).preM 1 = 1 := by omega
  have hpL : ((core k st).preL : ℚ) ≠ 0 := by rcases c3 with c3 | c3 <;> rw [c3] <;> norm_num
  have hi : (i : ℚ) ≠ 0 := by
    have : (1 : ℚ) ≤ i := by exact_mod_cast hi1
    linarith
  have hA : toRat st.arbM = toRat (core k st).a3 * (core k st).postM * (2 : ℚ) ^ (core k st).shr / (core k st).preL := by
    field_simp; linarith [ha3]
  rw [hM, hA]
  by_cases ht : t = (i : Int)
  · obtain ⟨a, b⟩ := s1 ht
    rw [if_pos ht, a, hfresh]
    have e : (2 : ℚ) ^ (core k st).shr4 * ((1 : ℕ) : ℚ) / ((core k st).preL : ℚ) * (toRat (core k st).a4 / ((1 : ℕ) : ℚ)) *
        ((core k st).postM : ℚ) / (st.postL : ℚ) * toRat (core k st).a3 =
        (toRat (core k st).a4 * (2 : ℚ) ^ (core k st).shr4) * (((core k st).postM : ℚ) * toRat (core k st).a3 /
          (((core k st).preL : ℚ) * (st.postL : ℚ))) := by push_cast; ring
    rw [e, b]; ring
  · obtain ⟨a, b, c⟩ := s2 ht
    rw [if_neg ht, a, b, c]
    have e : ((i : ℚ) * ((core k st).a3.truncInt : ℚ) + (t : ℚ)) / (i : ℚ) = ((core k st).a3.truncInt : ℚ) + (t : ℚ) / (i : ℚ) := by
      field_simp
    rw [e]; push_cast; ring

/-- `L = preL * arbL, M = (int)(arbM * postM)`, both halved while both are even: the quotient is unchanged -/
theorem reduceLM_exact (preL arbL postM : Nat) (a4 : Dbl) :
    ((reduceLM preL arbL postM a4).1 : ℚ) * ((if postM == 2 then scale2 a4 1 else a4).truncNat : ℚ) =
    ((reduceLM preL arbL postM a4).2 : ℚ) * ((preL * arbL : ℕ) : ℚ) := by
  unfold reduceLM
  simp only []
  generalize (if postM == 2 then scale2 a4 1 else a4).truncNat = M0
  by_cases hc : (preL * arbL) % 2 = 1 ∨ M0 % 2 = 1
  · rw [if_pos hc]; ring
  · rw [if_neg hc]
    have h1 : (preL * arbL) % 2 = 0 := by omega
    have h2 : M0 % 2 = 0 := by omega
    obtain ⟨a, ha⟩ := Nat.dvd_of_mod_eq_zero h1
    obtain ⟨b, hb⟩ := Nat.dvd_of_mod_eq_zero h2
    rw [ha, hb]
    simp only [Nat.mul_div_cancel_left _ (by decide : 0 < 2)]
    push_cast; ring

/-- **The shortcuts keep the factor**: the mode retry changes no rate; the small-integer shortcut (one dft stage `L/M`
    instead of pre, arbitrary-ratio and post stage) keeps the product when `arbM * postM` is the whole number `M0` the code
    truncates it to (`hwhole`; the driver checks `(int)(arbM * postM)` against it on every plan) and `M >= 1`. -/
theorem toRat_one : toRat one = 1 := by
  have : one = Dbl.fin false (2 ^ 52) (-52) := by decide +kernel
  rw [this]; simp only [toRat]; norm_num

theorem iter_ratio (k : Knobs) (st : PSt) (harbL : 1 ≤ st.arbL) (hp : ¬ takesPost k st (core k st) = true)
    (hsm : takesSmallInt k (core k st) = true →
      1 ≤ (core k st).M ∧
      (((if (core k st).postM == 2 then scale2 (core k st).a4 1 else (core k st).a4).truncNat : ℕ) : ℚ) =
        toRat (core k st).a4 * (core k st).postM) :
    ratioOf (iter k st) = ratioOf (baseOf st (core k st)) := by
  unfold iter
  rw [ratioOf_retryMode]
  by_cases hsi : takesSmallInt k (core k st) = true
  · obtain ⟨hM1, hw⟩ := hsm hsi
    obtain ⟨b1, b2, b3, b4, b5, _, b7, b8, _⟩ := branch_small k st _ hp hsi
    obtain ⟨c1, c2, c3, c4, _⟩ := core_bounds k st
    have hex := reduceLM_exact (core k st).preL (core k st).arbL (core k st).postM (core k st).a4
    have eL : (core k st).L = (reduceLM (core k st).preL (core k st).arbL (core k st).postM (core k st).a4).1 := rfl
    have eM : (core k st).M = (reduceLM (core k st).preL (core k st).arbL (core k st).postM (core k st).a4).2 := rfl
    rw [← eL, ← eM, hw] at hex
    have hpre : 1 ≤ (core k st).preL := by rcases c3 with c3 | c3 <;> omega
    have harb : 1 ≤ (core k st).arbL := by rcases c4 with c4 | c4 <;> omega
    have hL : 1 ≤ (core k st).L := by rw [eL]; exact reduceLM_pos _ _ _ _ hpre harb
    have hLq : ((core k st).L : ℚ) ≠ 0 := by
      have : (1 : ℚ) ≤ (core k st).L := by exact_mod_cast hL
      linarith
    have hpq : ((core k st).preL : ℚ) ≠ 0 := by
      have : (1 : ℚ) ≤ (core k st).preL := by exact_mod_cast hpre
      linarith
    have haq : ((core k st).arbL : ℚ) ≠ 0 := by
      have : (1 : ℚ) ≤ (core k st).arbL := by exact_mod_cast harb
      linarith
    unfold ratioOf
    rw [b1, b2, b3, b4, b5, b7, b8, toRat_one]
    simp only [baseOf]
    have hm1 : max (core k st).M 1 = (core k st).M := by omega
    have hm2 : max (core k st).preM 1 = 1 := by omega
    rw [hm1, hm2]
    have key : ((core k st).M : ℚ) / (core k st).L = toRat (core k st).a4 * (core k st).postM / ((core k st).preL * (core k st).arbL) := by
      rw [div_eq_div_iff hLq (mul_ne_zero hpq haq)]
      push_cast at hex
      linarith [hex]
    have e : (2 : ℚ) ^ (core k st).shr4 * ((core k st).M : ℚ) / ((core k st).L : ℚ) * (1 / ((1 : ℕ) : ℚ)) * ((1 : ℕ) : ℚ) / (st.postL : ℚ) =
        (2 : ℚ) ^ (core k st).shr4 * (((core k st).M : ℚ) / (core k st).L) / (st.postL : ℚ) := by push_cast; ring
    rw [e, key]; push_cast; ring
  · rw [branch_base k st _ hp hsi]

end Soxr.Config
