import SoxrModel.Config.Model
/-!
# The rate decomposition of the stage planner (`_soxr_init`, cr.c)

`planRates io_ratio knobs` mirrors, statement by statement, the block of `_soxr_init` from `double arbM = io_ratio`
through the stage-determination loop (`if (bits!=0) while (!n++) { … }`): the split of the resampling factor into
`shr` half-band stages, a pre stage `preL/preM`, an arbitrary-ratio stage `arbL/arbM`, and a post stage `postL/postM`,
with the `rational` flag, the `epsilon` snap, the search for a small denominator up to `maxL`, the small-integer
shortcut (`iOpt`, SOXR_NOSMALLINTOPT), the large-up-sampling post stage and the `mode` retry.  Core Lean only.

Arithmetic: binary64 as exact dyadics (`Dbl`, Config/Model.lean).  Every quantity that only feeds a *decision*
(`epsilon`, `d`, the snap test, `preL*arbL/arbM`) is computed with the correctly rounded IEEE operations.  The operations
that *carry* the factor (`arbM *= .5`, `arbM /= postM`, `arbM *= preL`, `frac = arbM - (int)arbM`, the conversions of
small integers) are exact in IEEE arithmetic for every value that can occur (scaling by a power of two, Sterbenz);
the model performs them as exact dyadic operations and records in `faithful` whether each of them agreed with the
rounded IEEE operation — evaluated by the driver on every plan of the sweep, and the resulting `arbM` is compared bit
for bit with the real planner's (checks/c09.py, stage `planner`).

What this model does NOT contain: the filter design.  The two adjustments the arbitrary-ratio stage makes afterwards
depend on filter lengths from `lsx_design_lpf` (fallback from an exact coefficient table to an interpolated one when
the table would exceed `coef_size_kbytes`; doubling `arbL`, `arbM` when the prototype has an odd number of taps): they
are the explicit oracle parameters of `finishArb`.
-/
namespace Soxr.Config
namespace Dbl

/-- magnitude of the integer part -/
def truncNat : Dbl → Nat
  | .fin _ m e => if 0 ≤ e then m * 2 ^ e.toNat else m / 2 ^ (-e).toNat
  | _ => 0

/-- C `(int)x` as cvttsd2si computes it: toward zero; out of range (and NaN) give INT_MIN -/
def truncInt (x : Dbl) : Int :=
  match x with
  | .fin s _ _ =>
    let v : Int := x.truncNat
    let r := if s then -v else v
    if r < -(2 ^ 31) ∨ 2 ^ 31 ≤ r then -(2 ^ 31) else r
  | _ => -(2 ^ 31)

/-- C `(int64_t)x` -/
def truncInt64 (x : Dbl) : Int :=
  match x with
  | .fin s _ _ =>
    let v : Int := x.truncNat
    let r := if s then -v else v
    if r < -(2 ^ 63) ∨ 2 ^ 63 ≤ r then -(2 ^ 63) else r
  | _ => -(2 ^ 63)

/-- conversion of an integer (exact below 2^53) -/
def ofInt (i : Int) : Dbl := .fin (decide (i < 0)) i.natAbs 0

/-- `x` is a whole number -/
def isWhole : Dbl → Bool
  | .fin _ m e => if 0 ≤ e then true else m % 2 ^ (-e).toNat == 0
  | _ => false

/-- `floor(x)` / `ceil(x)` for finite `x` -/
def floorD (x : Dbl) : Dbl :=
  match x with
  | .fin s _ _ => if s && !x.isWhole then .fin true (x.truncNat + 1) 0 else .fin s x.truncNat 0
  | y => y

def ceilD (x : Dbl) : Dbl :=
  match x with
  | .fin s _ _ => if !s && !x.isWhole then .fin false (x.truncNat + 1) 0 else .fin s x.truncNat 0
  | y => y

/-- exact multiplication by `2^k` -/
def scale2 (x : Dbl) (k : Int) : Dbl :=
  match x with
  | .fin s m e => .fin s m (e + k)
  | y => y

/-- the fractional part `x - (int)x` of a non-negative finite value, exactly -/
def fracPart : Dbl → Dbl
  | .fin s m e => if 0 ≤ e then .fin s 0 (-1074) else .fin s (m % 2 ^ (-e).toNat) e
  | y => y

/-- `floor(x * 2^k)` for `x >= 0` -/
def floorScaled (x : Dbl) (k : Nat) : Nat := (scale2 x k).truncNat

end Dbl

open Dbl

/-! ## what the planner is told -/

/-- everything the stage-determination loop reads besides the ratio -/
structure Knobs where
  bitsZero : Bool          -- precision == 0 (SOXR_QQ): the loop is skipped
  mode0 : Nat              -- `mode` before the loop (`modeOf`)
  interpolator : Int       -- `(runtime flags & 3) - 1`
  iOpt : Bool              -- `!(runtime flags & SOXR_NOSMALLINTOPT)`
  kb : Nat                 -- coef_size_kbytes
  sizeofReal : Nat         -- 4 (float engines) or 8
  deriving DecidableEq, Repr, Inhabited

/-- `mode` as `_soxr_init` initialises it -/
def modeOf (q : QSpec) (r : Dbl) : Nat :=
  let bits1 := if lt q.precision c33 then q.precision else c33            -- min(bits, 33)
  let promote := hasFlag q.flags Gen.flagPromoteToLQ
  let lqBits := if promote then le q.precision (ofNat 16) else eq q.precision (ofNat 16)
  let lqFp0 := if promote then le q.pb (ofBits Gen.lit_lq_bw0) else eq q.pb (ofBits Gen.lit_lq_bw0)
  if lqBits && (q.flags % 4 == Gen.rolloffMedium) then
    (if gt r one || ne q.phase (ofBits Gen.lit_50) || !lqFp0 || ne q.sb one then 1 else 0)
  else (((ceilD bits1).truncInt - 6) / 4).toNat

def knobsOf (q : QSpec) (rt : RtSpec) (eng : Engine) (r : Dbl) : Knobs :=
  { bitsZero := eq q.precision zero, mode0 := modeOf q r, interpolator := ((rt.flags % 4 : Nat) : Int) - 1,
    iOpt := !hasFlag rt.flags Gen.flagNoSmallIntOpt, kb := rt.coefKb, sizeofReal := if eng.isDouble then 8 else 4 }

/-- `maxL`: the largest denominator tried for the arbitrary-ratio stage -/
def maxLOf (k : Knobs) (mode : Nat) : Nat :=
  if 0 < k.interpolator then 1
  else if mode ≠ 0 then 2048
  else (ceilD (div (mul (ofNat k.kb) (ofBits Gen.lit_1000)) (ofNat (Gen.u100l * k.sizeofReal)))).truncInt.toNat

/-! ## the loop -/

structure PSt where
  arbM : Dbl
  shr : Nat := 0
  preL : Nat := 1
  preM : Nat := 1
  arbL : Nat := 1
  postL : Nat := 1
  postM : Nat := 1
  rational : Bool := false
  upsample : Bool := false
  mode : Nat
  again : Bool := true       -- `n == 0`: the `while (!n++)` loop runs once more
  faithful : Bool := true    -- every exact dyadic operation so far agreed with the rounded IEEE operation
  deriving DecidableEq, Repr, Inhabited

def c1p5 : Dbl := ofBits Gen.lit_1p5
def mult32 : Dbl := ofBits Gen.lit_mult32

/-- `for (i = (int)(.5 * arbM), shr = 0; i >>= 1; arbM *= .5, ++shr);` — `f` bounds the number of rounds (`i < 2^f`) -/
def halve : Nat → Int → Dbl → Nat → Bool → Dbl × Nat × Bool
  | 0, _, a, s, ok => (a, s, ok)
  | f + 1, i, a, s, ok =>
    let i' := i / 2
    if i' = 0 then (a, s, ok)
    else halve f i' (scale2 a (-1)) (s + 1) (ok && eq (mul a half) (scale2 a (-1)))

/-- the search `for (i = 1; i <= maxL && !rational; ++i)`: the first `i` whose multiple of `frac` is within `epsilon`
    (relative) of an integer `try`, with that integer -/
def search (frac eps : Dbl) : Nat → Nat → Option (Nat × Int)
  | 0, _ => none
  | f + 1, i =>
    let d := mul frac (ofNat i)
    let t := (add d half).truncInt
    if le (abs (sub (div (ofInt t) d) one)) eps then some (i, t) else search frac eps f (i + 1)

/-- `postL` of a large up-sampling: `for (postL = 4, i = (int)(d / 16); (i >>= 1) && postL < 256; postL <<= 1);` -/
def postLLoop : Nat → Int → Nat → Nat
  | 0, _, p => p
  | f + 1, i, p => let i' := i / 2; if i' ≠ 0 ∧ p < 256 then postLLoop f i' (p * 2) else p

def b2n (b : Bool) : Nat := if b then 1 else 0

/-- what one pass computes before it decides how to go on -/
structure Core where
  a3 : Dbl                 -- arbM after halving, `/= postM`, `*= preL`
  frac : Dbl
  eps : Dbl
  found : Option (Nat × Int)
  a4 : Dbl                 -- arbM after the snap
  shr : Nat                -- number of halvings
  shr4 : Nat               -- … plus the one of the snap to 4
  preL : Nat
  preM : Nat
  arbL : Nat
  postM : Nat
  rational : Bool
  upsample : Bool
  L : Nat
  M : Nat
  d : Dbl
  ok : Bool
  deriving Repr, Inhabited

/-- `preM = upsample || (arbM > 1.5 && arbM < 2); postM = 1 + (arbM > 1 && preM), arbM /= postM;
    preL = 1 + (!preM && arbM < 2) + (upsample && mode), arbM *= preL;` — returns preM, postM, preL, arbM before and after `*= preL` -/
def preFactors (upsample modeNZ : Bool) (a1 : Dbl) : Nat × Nat × Nat × Dbl × Dbl :=
  let preM := b2n (upsample || (gt a1 c1p5 && lt a1 two))
  let postM := 1 + b2n (gt a1 one && preM == 1)
  let a2 := if postM == 2 then scale2 a1 (-1) else a1
  let preL := 1 + b2n (preM == 0 && lt a2 two) + b2n (upsample && modeNZ)
  let a3 := if preL == 2 then scale2 a2 1 else if preL == 1 then a2 else mul a2 (ofNat preL)
  (preM, postM, preL, a2, a3)

/-- `epsilon`: the relative error of rounding `frac` to 32 fractional bits -/
def epsOf (frac : Dbl) : Dbl :=
  if eq frac zero then zero else abs (sub (div (floorD (add (mul frac mult32) half)) (mul frac mult32)) one)

/-- the snap: `(arbM, arbL, shr, rational)` after the search -/
def snap (a3 : Dbl) (arbL0 shr maxL : Nat) : Option (Nat × Int) × Dbl × Nat × Nat × Bool :=
  let frac := fracPart a3
  let fz := eq frac zero
  let found := if fz then none else search frac (epsOf frac) maxL 1
  match found with
  | none => (found, a3, arbL0, shr, fz)
  | some (i, t) =>
    if t = (i : Int) then
      -- arbM = ceil(arbM), shr += x = arbM > 3, arbM /= 1 + x;
      let c := ceilD a3
      let x := b2n (gt c (ofBits Gen.lit_3))
      (found, (if x == 1 then scale2 c (-1) else c), arbL0, shr + x, true)
    else (found, ofInt ((i : Int) * a3.truncInt + t), i, shr, true)

/-- `L = preL * arbL, M = (int)(arbM * postM), x = (L|M)&1, L >>= !x, M >>= !x;` (the product by `postM` taken exactly) -/
def reduceLM (preL arbL postM : Nat) (a4 : Dbl) : Nat × Nat :=
  let L0 : Nat := preL * arbL
  let M0 : Nat := (if postM == 2 then scale2 a4 1 else a4).truncNat
  if L0 % 2 = 1 ∨ M0 % 2 = 1 then (L0, M0) else (L0 / 2, M0 / 2)

/-- the first half of the body of `while (!n++)`: halving, pre/post factors, the snap -/
def core (k : Knobs) (st : PSt) : Core :=
  let upsample := lt st.arbM one
  let hv := halve 64 (mul half st.arbM).truncInt st.arbM 0 st.faithful
  let pf := preFactors upsample (st.mode != 0) hv.1
  let preM := pf.1
  let postM := pf.2.1
  let preL := pf.2.2.1
  let a2 := pf.2.2.2.1
  let a3 := pf.2.2.2.2
  let sn := snap a3 st.arbL hv.2.1 (maxLOf k st.mode)
  let a4 := sn.2.1
  let arbL := sn.2.2.1
  let lm := reduceLM preL arbL postM a4
  -- every exact dyadic operation agrees with the rounded IEEE one
  let ok := hv.2.2 && eq (div hv.1 (ofNat postM)) a2 && eq (mul a2 (ofNat preL)) a3 &&
    eq (sub a3 (ofInt a3.truncInt)) (fracPart a3) &&
    decide ((mul a4 (ofNat postM)).truncInt = ((if postM == 2 then scale2 a4 1 else a4).truncNat : Int))
  { a3 := a3, frac := fracPart a3, eps := epsOf (fracPart a3), found := sn.1, a4 := a4, shr := hv.2.1, shr4 := sn.2.2.2.1,
    preL := preL, preM := preM, arbL := arbL, postM := postM, rational := sn.2.2.2.2, upsample := upsample,
    L := lm.1, M := lm.2, d := div (ofNat (preL * arbL)) a4, ok := ok }

def nIOpt (k : Knobs) : Nat := if k.iOpt then 1 else 0

/-- the state after the pass if neither shortcut applies -/
def baseOf (st : PSt) (c : Core) : PSt :=
  { st with arbM := c.a4, shr := c.shr4, preL := c.preL, preM := c.preM, arbL := c.arbL, postM := c.postM,
            rational := c.rational, upsample := c.upsample, again := false, faithful := c.ok }

def takesPost (k : Knobs) (st : PSt) (c : Core) : Bool :=
  k.iOpt && st.postL == 1 && gt c.d (ofBits Gen.lit_4) && ne c.d (ofBits Gen.lit_5)

def takesSmallInt (k : Knobs) (c : Core) : Bool :=
  c.rational && (decide (max c.L c.M < 3 + 2 * nIOpt k) || decide (c.L * c.M < 6 * nIOpt k))

/-- large up-sampling: a power-of-two post stage is split off and the rest is planned again;
    small integers: one dft stage does it all; else the state stands -/
def branch (k : Knobs) (st : PSt) (c : Core) : PSt :=
  if takesPost k st c then
    -- for (postL = 4, …); arbM = arbM * postL / arbL / preL, arbL = 1, n = 0;
    let postL := postLLoop 32 (div c.d (ofBits Gen.lit_16)).truncInt 4
    { baseOf st c with postL := postL, arbM := div (div (mul c.a4 (ofNat postL)) (ofNat c.arbL)) (ofNat c.preL), arbL := 1, again := true }
  else if takesSmallInt k c then
    { baseOf st c with preL := c.L, preM := c.M, arbM := one, arbL := 1, postM := 1 }
  else baseOf st c

/-- `if (!mode && (!rational || !n)) ++mode, n = 0;` -/
def retryMode (st1 : PSt) : PSt :=
  if st1.mode == 0 && (!st1.rational || st1.again) then { st1 with mode := st1.mode + 1, again := true } else st1

/-- one pass of the body of `while (!n++)` -/
def iter (k : Knobs) (st : PSt) : PSt := retryMode (branch k st (core k st))

/-- `while (!n++)`: the measure `[postL == 1] + [mode == 0]` drops with every repetition, so three passes suffice (`planLoop_stable`) -/
def planLoop (k : Knobs) : Nat → PSt → PSt
  | 0, st => st
  | f + 1, st => let st' := iter k st; if st'.again then planLoop k f st' else st'

/-! ## the result -/

structure RatePlan where
  shr : Nat
  preL : Nat
  preM : Nat
  arbL : Nat
  arbM : Dbl
  postL : Nat
  postM : Nat
  rational : Bool
  upsample : Bool
  mode : Nat
  cubic : Bool             -- the arbitrary-ratio stage is the `quick' cubic one
  finished : Bool          -- the loop ended by itself (not by running out of passes)
  faithful : Bool
  deriving DecidableEq, Repr, Inhabited

def RatePlan.havePre (p : RatePlan) : Bool := p.preM * p.preL != 1
def RatePlan.haveArb (p : RatePlan) : Bool := !(eq (mul p.arbM (ofNat p.arbL)) one)
def RatePlan.havePost (p : RatePlan) : Bool := p.postM * p.postL != 1
def RatePlan.numStages (p : RatePlan) : Nat := p.shr + b2n p.havePre + b2n (p.haveArb || p.cubic) + b2n p.havePost

/-- the state in which the stage-determination loop leaves its variables (`bits == 0`: the loop is skipped) -/
def planState (r : Dbl) (k : Knobs) : PSt :=
  if k.bitsZero then { arbM := r, mode := k.mode0, again := false } else planLoop k 4 { arbM := r, mode := k.mode0 }

def toPlan (st : PSt) : RatePlan :=
  { shr := st.shr, preL := st.preL, preM := st.preM, arbL := st.arbL, arbM := st.arbM, postL := st.postL, postM := st.postM,
    rational := st.rational, upsample := st.upsample, mode := st.mode, cubic := false, finished := !st.again,
    faithful := st.faithful }

/-- the rate decomposition `_soxr_init` arrives at.  `gainNot1`: `multiplier != 1` (a pass-through plan with a gain
    becomes a cubic stage) -/
def planRates (r : Dbl) (k : Knobs) (gainNot1 : Bool) : RatePlan :=
  let p := toPlan (planState r k)
  if p.numStages == 0 && gainNot1 then { p with arbL := 0, cubic := true }
  else { p with cubic := k.bitsZero && p.haveArb }

/-- decided in integers: the product of the stage rates `2^shr * max(preM,1)/preL * arbM/arbL * postM/postL` of the plan is
    within `2^-32 * max(1, io)` of the requested factor `io` (`exact = true`: equal to it) -/
def RatePlan.productNear (p : RatePlan) (io : Dbl) (exact : Bool) : Bool :=
  match p.arbM, io with
  | .fin false m e, .fin false mi ei =>
    let N : Int := (max p.preM 1 * m * p.postM : Nat)
    let D : Int := (p.preL * p.arbL * p.postL : Nat)
    let E : Int := (p.shr : Int) + e
    let e0 : Int := min (min E ei) (min (ei - 32) (-32))
    let lhs : Int := (N * 2 ^ (E - e0).toNat - D * mi * 2 ^ (ei - e0).toNat).natAbs
    let rhs : Int := D * max (2 ^ (-32 - e0).toNat) (mi * 2 ^ (ei - 32 - e0).toNat)
    if exact then lhs == 0 else decide (lhs ≤ rhs)
  | _, _ => false

/-! ## the arbitrary-ratio stage's own adjustments (filter-length dependent: oracle parameters) -/

/-- `interpIndex`: index of the kernel finally chosen (0 = exact coefficient table, >= 1 interpolated);
    `oddCoefs`: the prototype filter has an odd number of taps per phase -/
def finishArb (p : RatePlan) (interpIndex : Nat) (oddCoefs : Bool) : RatePlan :=
  if p.cubic || !p.haveArb then p
  else
    let p1 := if interpIndex ≠ 0 then { p with arbM := div p.arbM (ofNat p.arbL), arbL := 1, rational := false } else p
    if oddCoefs && p1.rational && p1.arbL % 2 == 1 then { p1 with arbL := p1.arbL * 2, arbM := scale2 p1.arbM 1 } else p1

/-- the clock step of the arbitrary-ratio stage as the engine stores it: `(den, step)` -/
def arbStep (p : RatePlan) (hiPrecFlag : Bool) : Nat × Nat :=
  if p.cubic then (2 ^ 32, (add (mul p.arbM mult32) half).truncInt64.toNat)
  else if p.rational then (p.arbL, p.arbM.truncInt64.toNat)            -- poly-fir0: step.integer, L phases
  else if hiPrecFlag then (2 ^ 96, floorScaled p.arbM 96)
  else (2 ^ 32, (add (mul p.arbM mult32) half).truncInt64.toNat)

/-- canonical list of the stages, input side first -/
def stageLine (p : RatePlan) (hiPrecFlag : Bool) : String :=
  let halves := String.join (List.replicate p.shr "half ")
  let pre := if p.havePre then s!"dft:{p.preL}/{max p.preM 1} " else ""
  let arb :=
    if p.cubic then s!"cubic:{(arbStep p hiPrecFlag).2} "
    else if p.haveArb then
      (if p.rational then s!"exact:{p.arbL}:{(arbStep p hiPrecFlag).2} "
       else s!"interp:{(arbStep p hiPrecFlag).1}:{(arbStep p hiPrecFlag).2} ")
    else ""
  let post := if p.havePost then s!"dft:{p.postL}/{p.postM} " else ""
  halves ++ pre ++ arb ++ post

end Soxr.Config
