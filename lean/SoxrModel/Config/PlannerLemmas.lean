import SoxrModel.Config.Planner
/-!
# Lemmas about the planner's rate decomposition: termination of the loops, structural bounds
-/
namespace Soxr.Config
open Dbl

/-! ## the `while (!n++)` loop ends after at most three passes -/

theorem b2n_le (b : Bool) : b2n b ≤ 1 := by cases b <;> simp [b2n]

/-- what can still make the loop repeat: splitting off a post stage (once: only while `postL == 1`) and bumping `mode`
    from 0 (once) -/
def measure (st : PSt) : Nat := b2n (st.postL == 1) + b2n (st.mode == 0)

theorem postLLoop_ge (f : Nat) (i : Int) (p : Nat) : p ≤ postLLoop f i p := by
  induction f generalizing i p with
  | zero => exact Nat.le_refl _
  | succ f ih =>
    simp only [postLLoop]
    split
    · exact Nat.le_trans (by omega) (ih _ _)
    · exact Nat.le_refl _

theorem branch_mode (k : Knobs) (st : PSt) (c : Core) : (branch k st c).mode = st.mode := by
  unfold branch
  by_cases h1 : takesPost k st c = true <;> by_cases h2 : takesSmallInt k c = true <;> simp [h1, h2, baseOf]

theorem branch_again (k : Knobs) (st : PSt) (c : Core) (h : (branch k st c).again = true) :
    st.postL = 1 ∧ 4 ≤ (branch k st c).postL := by
  unfold branch at h ⊢
  by_cases h1 : takesPost k st c = true
  · simp only [h1, if_true] at h ⊢
    refine ⟨?_, postLLoop_ge _ _ _⟩
    simp only [takesPost, Bool.and_eq_true, beq_iff_eq] at h1
    exact h1.1.1.2
  · by_cases h2 : takesSmallInt k c = true <;> simp [h1, h2, baseOf] at h

theorem branch_not_again (k : Knobs) (st : PSt) (c : Core) (h : (branch k st c).again = false) :
    (branch k st c).postL = st.postL := by
  unfold branch at h ⊢
  by_cases h1 : takesPost k st c = true
  · simp [h1] at h
  · by_cases h2 : takesSmallInt k c = true <;> simp [h1, h2, baseOf]

theorem retryMode_postL (s : PSt) : (retryMode s).postL = s.postL := by
  unfold retryMode; split <;> rfl

/-- a pass that asks for another one has used up one of the two reasons -/
theorem iter_measure (k : Knobs) (st : PSt) (h : (iter k st).again = true) : measure (iter k st) < measure st := by
  unfold iter at h ⊢
  have hm := branch_mode k st (core k st)
  generalize hb : branch k st (core k st) = s1 at h hm ⊢
  cases ha : s1.again
  · -- the branch did not ask: the mode retry did, so mode was 0 and is 1 now; postL unchanged
    have hp : s1.postL = st.postL := by rw [← hb]; exact branch_not_again k st _ (by rw [hb]; exact ha)
    unfold retryMode at h ⊢
    split at h
    · next hc =>
      simp only [Bool.and_eq_true, beq_iff_eq] at hc
      simp only [measure, hc, hp]
      have : st.mode = 0 := by rw [← hm]; exact hc.1
      simp [this, b2n]
    · rw [ha] at h; cases h
  · -- the branch split off a post stage: postL was 1 and is >= 4 now
    obtain ⟨h1, h4⟩ := branch_again k st (core k st) (by rw [hb]; exact ha)
    rw [hb] at h4
    have hp : (retryMode s1).postL = s1.postL := retryMode_postL s1
    have hmode : b2n ((retryMode s1).mode == 0) ≤ b2n (st.mode == 0) := by
      unfold retryMode
      split
      · simp [b2n]
      · rw [hm]; exact Nat.le_refl _
    have hq : (s1.postL == 1) = false := by
      cases hq : (s1.postL == 1)
      · rfl
      · simp only [beq_iff_eq] at hq; omega
    have e1 : measure (retryMode s1) = b2n ((retryMode s1).mode == 0) := by
      simp only [measure, hp, hq, b2n]; simp
    have e2 : measure st = 1 + b2n (st.mode == 0) := by
      simp only [measure, h1, b2n]; simp
    rw [e1, e2]; omega

theorem measure_le (st : PSt) : measure st ≤ 2 := by
  have h1 := b2n_le (st.postL == 1)
  have h2 := b2n_le (st.mode == 0)
  unfold measure; omega

/-- **Three passes always suffice**, from any state: with fuel 3 the loop has ended by itself, and more fuel changes nothing. -/
theorem planLoop_three (k : Knobs) (st : PSt) :
    (planLoop k 3 st).again = false ∧ ∀ g, planLoop k (3 + g) st = planLoop k 3 st := by
  have m0 := measure_le st
  have step : ∀ s : PSt, (iter k s).again = true → measure (iter k s) < measure s := iter_measure k
  -- unfold three passes
  cases h1 : (iter k st).again
  · refine ⟨by simp [planLoop, h1], ?_⟩
    intro g
    have : 3 + g = (2 + g) + 1 := by omega
    rw [this]; simp [planLoop, h1]
  · have l1 := step st h1
    cases h2 : (iter k (iter k st)).again
    · refine ⟨by simp [planLoop, h1, h2], ?_⟩
      intro g
      have : 3 + g = ((1 + g) + 1) + 1 := by omega
      rw [this]; simp [planLoop, h1, h2]
    · have l2 := step _ h2
      cases h3 : (iter k (iter k (iter k st))).again
      · refine ⟨by simp [planLoop, h1, h2, h3], ?_⟩
        intro g
        have : 3 + g = ((g + 1) + 1) + 1 := by omega
        rw [this]; simp [planLoop, h1, h2, h3]
      · have l3 := step _ h3
        omega

/-! ## the halving loop -/

/-- more fuel than bits changes nothing: `i >>= 1` reaches 0 within `f` rounds when `0 <= i < 2^f` -/
theorem halve_fuel (f : Nat) : ∀ (g : Nat) (i : Int) (a : Dbl) (s : Nat) (ok : Bool), 0 ≤ i → i < 2 ^ f →
    halve (f + g) i a s ok = halve f i a s ok := by
  induction f with
  | zero =>
    intro g i a s ok h0 h1
    have : i = 0 := by omega
    subst this
    cases g with
    | zero => rfl
    | succ g => simp [halve]
  | succ f ih =>
    intro g i a s ok h0 h1
    have e : f + 1 + g = (f + g) + 1 := by omega
    rw [e]
    simp only [halve]
    split
    · rfl
    · exact ih g (i / 2) _ _ _ (by omega) (by omega)

/-- the number of halvings is at most the fuel -/
theorem halve_shr_le (f : Nat) : ∀ (i : Int) (a : Dbl) (s : Nat) (ok : Bool), (halve f i a s ok).2.1 ≤ s + f := by
  induction f with
  | zero => intro i a s ok; simp [halve]
  | succ f ih =>
    intro i a s ok
    simp only [halve]
    split
    · simp
    · exact Nat.le_trans (ih _ _ _ _) (by omega)

/-- `(int)x` lies in the range of `int` -/
theorem truncInt_range (x : Dbl) : -(2 ^ 31) ≤ x.truncInt ∧ x.truncInt < 2 ^ 31 := by
  unfold truncInt
  cases x with
  | fin s m e => simp only []; split <;> omega
  | inf s => simp
  | nan => simp

/-! ## the search for a denominator -/

theorem search_range (frac eps : Dbl) (f : Nat) : ∀ (i0 : Nat) (i : Nat) (t : Int), search frac eps f i0 = some (i, t) →
    i0 ≤ i ∧ i < i0 + f ∧ t = (add (mul frac (ofNat i)) half).truncInt ∧
    le (abs (sub (div (ofInt t) (mul frac (ofNat i))) one)) eps = true := by
  induction f with
  | zero => intro i0 i t h; simp [search] at h
  | succ f ih =>
    intro i0 i t h
    simp only [search] at h
    split at h
    · next hc =>
      injection h with h; injection h with h1 h2
      subst h1; subst h2
      exact ⟨Nat.le_refl _, by omega, rfl, hc⟩
    · obtain ⟨a, b, c, d⟩ := ih (i0 + 1) i t h
      exact ⟨by omega, by omega, c, d⟩

/-! ## structural bounds of one pass -/

theorem preFactors_bounds (u m : Bool) (a1 : Dbl) :
    (preFactors u m a1).1 ≤ 1 ∧ ((preFactors u m a1).2.1 = 1 ∨ (preFactors u m a1).2.1 = 2) ∧
    ((preFactors u m a1).2.2.1 = 1 ∨ (preFactors u m a1).2.2.1 = 2) ∧
    ((preFactors u m a1).2.1 = 2 → (preFactors u m a1).1 = 1) := by
  unfold preFactors
  simp only []
  generalize (gt a1 c1p5 && lt a1 two) = b1
  generalize gt a1 one = b2
  cases u <;> cases m <;> cases b1 <;> cases b2 <;> simp [b2n] <;>
    (generalize lt _ two = b3; cases b3 <;> simp)

theorem snap_bounds (a3 : Dbl) (arbL0 shr maxL : Nat) :
    ((snap a3 arbL0 shr maxL).2.2.1 = arbL0 ∨ (1 ≤ (snap a3 arbL0 shr maxL).2.2.1 ∧ (snap a3 arbL0 shr maxL).2.2.1 ≤ maxL)) ∧
    shr ≤ (snap a3 arbL0 shr maxL).2.2.2.1 ∧ (snap a3 arbL0 shr maxL).2.2.2.1 ≤ shr + 1 := by
  unfold snap
  simp only []
  split
  · dsimp only
    exact ⟨Or.inl rfl, Nat.le_refl _, by omega⟩
  · next i t hf =>
    split
    · dsimp only
      refine ⟨Or.inl rfl, by omega, ?_⟩
      have := b2n_le (gt (ceilD a3) (ofBits Gen.lit_3))
      omega
    · dsimp only
      refine ⟨Or.inr ?_, Nat.le_refl _, by omega⟩
      split at hf
      · cases hf
      · obtain ⟨h1, h2, _, _⟩ := search_range _ _ _ _ _ _ hf
        omega

/-- **Bounds of one pass**: `preM <= 1`, `postM`, `preL` are 1 or 2, the denominator of the arbitrary-ratio stage is the
    old one or at most `maxL`, at most 64 halvings plus one. -/
theorem core_bounds (k : Knobs) (st : PSt) :
    (core k st).preM ≤ 1 ∧ ((core k st).postM = 1 ∨ (core k st).postM = 2) ∧ ((core k st).preL = 1 ∨ (core k st).preL = 2) ∧
    ((core k st).arbL = st.arbL ∨ (1 ≤ (core k st).arbL ∧ (core k st).arbL ≤ maxLOf k st.mode)) ∧
    (core k st).shr ≤ 64 ∧ (core k st).shr ≤ (core k st).shr4 ∧ (core k st).shr4 ≤ (core k st).shr + 1 := by
  have hs := halve_shr_le 64 (mul half st.arbM).truncInt st.arbM 0 st.faithful
  obtain ⟨p1, p2, p3, _⟩ := preFactors_bounds (lt st.arbM one) (st.mode != 0) (halve 64 (mul half st.arbM).truncInt st.arbM 0 st.faithful).1
  obtain ⟨s1, s2, s3⟩ := snap_bounds (preFactors (lt st.arbM one) (st.mode != 0) (halve 64 (mul half st.arbM).truncInt st.arbM 0 st.faithful).1).2.2.2.2
    st.arbL (halve 64 (mul half st.arbM).truncInt st.arbM 0 st.faithful).2.1 (maxLOf k st.mode)
  exact ⟨p1, p2, p3, s1, by show (halve 64 _ _ _ _).2.1 ≤ 64; omega, s2, s3⟩

theorem reduceLM_pos (preL arbL postM : Nat) (a4 : Dbl) (h1 : 1 ≤ preL) (h2 : 1 ≤ arbL) : 1 ≤ (reduceLM preL arbL postM a4).1 := by
  unfold reduceLM
  simp only []
  have : 1 ≤ preL * arbL := Nat.mul_pos h1 h2
  by_cases hc : (preL * arbL % 2 = 1 ∨ (if (postM == 2) = true then scale2 a4 1 else a4).truncNat % 2 = 1)
  · rw [if_pos hc]; exact this
  · rw [if_neg hc]; show 1 ≤ preL * arbL / 2; omega

theorem snap_irrational (a3 : Dbl) (arbL0 shr maxL : Nat) (h : (snap a3 arbL0 shr maxL).2.2.2.2 = false) :
    (snap a3 arbL0 shr maxL).2.2.1 = arbL0 := by
  unfold snap at h ⊢
  simp only [] at h ⊢
  split
  · rfl
  · next i t hf =>
    rw [hf] at h
    dsimp only at h
    by_cases ht : t = (i : Int)
    · rw [if_pos ht] at h; cases h
    · rw [if_neg ht] at h; cases h

/-- `postL` of a split-off post stage is a power of two between 4 and 256 -/
theorem postLLoop_pow2 (f : Nat) : ∀ (i : Int) (a : Nat), a ≤ 8 → ∃ b, a ≤ b ∧ b ≤ 8 ∧ postLLoop f i (2 ^ a) = 2 ^ b := by
  induction f with
  | zero => intro i a ha; exact ⟨a, Nat.le_refl _, ha, rfl⟩
  | succ f ih =>
    intro i a ha
    simp only [postLLoop]
    split
    · next hc =>
      have ha7 : a ≤ 7 := by
        have h256 : (2 : Nat) ^ a < 2 ^ 8 := hc.2
        exact Nat.le_of_lt_succ ((Nat.pow_lt_pow_iff_right (by decide)).1 h256)
      obtain ⟨b, h1, h2, h3⟩ := ih (i / 2) (a + 1) (by omega)
      refine ⟨b, by omega, h2, ?_⟩
      rw [← h3, Nat.pow_succ]
    · exact ⟨a, Nat.le_refl _, ha, rfl⟩

/-- the largest denominator any pass may choose -/
def lMax (k : Knobs) : Nat := max 2048 (maxLOf k 0)

theorem maxLOf_le (k : Knobs) (m : Nat) : maxLOf k m ≤ lMax k := by
  unfold lMax
  by_cases h1 : 0 < k.interpolator
  · simp only [maxLOf, h1, if_true]; omega
  · by_cases h2 : m ≠ 0
    · simp only [maxLOf, h1, h2, if_false, if_true, ne_eq, not_false_eq_true]; omega
    · have : m = 0 := by omega
      subst this
      omega

/-- what holds of the planner's state after any number of passes -/
structure PInv (k : Knobs) (st : PSt) : Prop where
  preL : 1 ≤ st.preL
  arbL1 : 1 ≤ st.arbL
  arbL : st.arbL ≤ lMax k
  fresh : st.again = true → st.arbL = 1
  postM : st.postM = 1 ∨ st.postM = 2
  postL : ∃ b, b ≤ 8 ∧ st.postL = 2 ^ b ∧ b ≠ 1
  shr : st.shr ≤ 65

theorem retryMode_fields (s : PSt) : (retryMode s).preL = s.preL ∧ (retryMode s).arbL = s.arbL ∧ (retryMode s).postM = s.postM ∧
    (retryMode s).postL = s.postL ∧ (retryMode s).shr = s.shr ∧ (retryMode s).arbM = s.arbM ∧ (retryMode s).preM = s.preM ∧
    (retryMode s).rational = s.rational := by
  unfold retryMode; split <;> exact ⟨rfl, rfl, rfl, rfl, rfl, rfl, rfl, rfl⟩

theorem branch_post (k : Knobs) (st : PSt) (c : Core) (hp : takesPost k st c = true) :
    (branch k st c).preL = c.preL ∧ (branch k st c).arbL = 1 ∧ (branch k st c).postM = c.postM ∧
    (branch k st c).postL = postLLoop 32 (div c.d (ofBits Gen.lit_16)).truncInt 4 ∧ (branch k st c).shr = c.shr4 ∧
    (branch k st c).again = true := by
  unfold branch; simp [hp, baseOf]

theorem branch_small (k : Knobs) (st : PSt) (c : Core) (hp : ¬ takesPost k st c = true) (hsi : takesSmallInt k c = true) :
    (branch k st c).preL = c.L ∧ (branch k st c).arbL = 1 ∧ (branch k st c).postM = 1 ∧ (branch k st c).postL = st.postL ∧
    (branch k st c).shr = c.shr4 ∧ (branch k st c).again = false ∧ (branch k st c).preM = c.M ∧ (branch k st c).arbM = one ∧
    (branch k st c).rational = c.rational := by
  unfold branch; simp [hp, hsi, baseOf]

theorem branch_base (k : Knobs) (st : PSt) (c : Core) (hp : ¬ takesPost k st c = true) (hsi : ¬ takesSmallInt k c = true) :
    branch k st c = baseOf st c := by
  unfold branch; simp [hp, hsi]

theorem iter_inv (k : Knobs) (st : PSt) (h : PInv k st) (hs : st.again = true) : PInv k (iter k st) := by
  have h1 := h.fresh hs
  obtain ⟨c1, c2, c3, c4, c5, c6, c7⟩ := core_bounds k st
  have carbL1 : 1 ≤ (core k st).arbL := by rcases c4 with c4 | c4 <;> omega
  have carbL : (core k st).arbL ≤ lMax k := by
    rcases c4 with c4 | c4
    · rw [c4, h1]; unfold lMax; omega
    · exact Nat.le_trans c4.2 (maxLOf_le k _)
  have cpreL : 1 ≤ (core k st).preL := by rcases c3 with c3 | c3 <;> omega
  have hl1 : 1 ≤ lMax k := by unfold lMax; omega
  obtain ⟨r1, r2, r3, r4, r5, _, _, r8⟩ := retryMode_fields (branch k st (core k st))
  unfold iter
  by_cases hp : takesPost k st (core k st) = true
  · -- a post stage is split off
    obtain ⟨b1, b2, b3, b4, b5, b6⟩ := branch_post k st _ hp
    obtain ⟨b, hb1, hb2, hb3⟩ := postLLoop_pow2 32 (div (core k st).d (ofBits Gen.lit_16)).truncInt 2 (by decide)
    refine ⟨?_, ?_, ?_, ?_, ?_, ?_, ?_⟩
    · rw [r1, b1]; exact cpreL
    · rw [r2, b2]; exact Nat.le_refl _
    · rw [r2, b2]; exact hl1
    · intro _; rw [r2, b2]
    · rw [r3, b3]; exact c2
    · rw [r4, b4]; exact ⟨b, hb2, hb3, by omega⟩
    · rw [r5, b5]; omega
  · by_cases hsi : takesSmallInt k (core k st) = true
    · obtain ⟨b1, b2, b3, b4, b5, b6, _, _, _⟩ := branch_small k st _ hp hsi
      have hL : 1 ≤ (core k st).L := reduceLM_pos _ _ _ _ cpreL carbL1
      refine ⟨?_, ?_, ?_, ?_, ?_, ?_, ?_⟩
      · rw [r1, b1]; exact hL
      · rw [r2, b2]; exact Nat.le_refl _
      · rw [r2, b2]; exact hl1
      · intro _; rw [r2, b2]
      · rw [r3, b3]; exact Or.inl rfl
      · rw [r4, b4]; exact h.postL
      · rw [r5, b5]; omega
    · have hb := branch_base k st _ hp hsi
      refine ⟨?_, ?_, ?_, ?_, ?_, ?_, ?_⟩
      · rw [r1, hb]; exact cpreL
      · rw [r2, hb]; exact carbL1
      · rw [r2, hb]; exact carbL
      · intro hag
        rw [r2, hb]
        -- the mode retry fired on a pass that found no rational: the denominator is still the fresh one
        unfold retryMode at hag
        rw [hb] at hag
        split at hag
        · next hc =>
          simp only [baseOf, Bool.and_eq_true, Bool.or_eq_true, Bool.not_eq_true'] at hc
          rcases hc.2 with hc2 | hc2
          · show (core k st).arbL = 1
            rw [← h1]
            exact snap_irrational _ _ _ _ hc2
          · simp at hc2
        · simp [baseOf] at hag
      · rw [r3, hb]; exact c2
      · rw [r4, hb]; exact h.postL
      · rw [r5, hb]; show (core k st).shr4 ≤ 65; omega

theorem planLoop_inv (k : Knobs) (f : Nat) : ∀ st, PInv k st → st.again = true → PInv k (planLoop k f st) := by
  induction f with
  | zero => intro st h _; exact h
  | succ f ih =>
    intro st h hs
    simp only [planLoop]
    have := iter_inv k st h hs
    split
    · next ha => exact ih _ this ha
    · exact this

/-- the plan's fields are those of the final loop state (the denominator is zeroed for the gain-only cubic stage) -/
theorem planRates_fields (r : Dbl) (k : Knobs) (g : Bool) :
    (planRates r k g).shr = (planState r k).shr ∧ (planRates r k g).preL = (planState r k).preL ∧
    (planRates r k g).preM = (planState r k).preM ∧ (planRates r k g).arbM = (planState r k).arbM ∧
    (planRates r k g).postL = (planState r k).postL ∧ (planRates r k g).postM = (planState r k).postM ∧
    (planRates r k g).rational = (planState r k).rational ∧ (planRates r k g).finished = !(planState r k).again ∧
    ((planRates r k g).arbL = (planState r k).arbL ∨ (planRates r k g).arbL = 0) := by
  unfold planRates
  simp only []
  split
  · exact ⟨rfl, rfl, rfl, rfl, rfl, rfl, rfl, rfl, Or.inr rfl⟩
  · exact ⟨rfl, rfl, rfl, rfl, rfl, rfl, rfl, rfl, Or.inl rfl⟩

theorem planState_inv (r : Dbl) (k : Knobs) : PInv k (planState r k) := by
  have hl1 : 1 ≤ lMax k := by unfold lMax; omega
  have init : ∀ (ag : Bool), PInv k { arbM := r, mode := k.mode0, again := ag } :=
    fun ag => ⟨Nat.le_refl _, Nat.le_refl _, hl1, fun _ => rfl, Or.inl rfl, ⟨0, by omega, rfl, by omega⟩, by show 0 ≤ 65; omega⟩
  unfold planState
  split
  · exact init false
  · exact planLoop_inv k 4 _ (init true) rfl

theorem planState_finished (r : Dbl) (k : Knobs) : (planState r k).again = false := by
  unfold planState
  split
  · rfl
  · have h := planLoop_three k { arbM := r, mode := k.mode0 }
    have e : planLoop k 4 { arbM := r, mode := k.mode0 } = planLoop k 3 { arbM := r, mode := k.mode0 } := h.2 1
    rw [e]; exact h.1

end Soxr.Config
