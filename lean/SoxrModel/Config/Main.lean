import SoxrModel.Config.Planner
/-!
Line-protocol driver of the Config model (`soxr_config < ops`): one op per line in, one canonical line out.
`harness/config/probe.c` executes the same ops on the real library and prints the same lines.

  qspec <recipe> <flags>        -> Q e= prec= phase= pb= sb= flags=          (binary64 fields as bit patterns)
  rtspec <threads>              -> RT min= large= kb= threads= flags=
  iospec <itype> <otype>        -> IO e= itype= otype=
  atoi x<hex>                   -> A <int>
  create k=v ...                -> C err <message> | C ok engine= ready= prec= phase= pb= sb= qflags= min= large= kb= threads= rtflags= ratio=
  setratio <bits> | setch <n> | seterr <k|-> | process <inNull> <outNull> <olen> <fn> | output <outNull> <olen> <fn>
  | delay | clear | error | engine                                           (on the resampler of the last create)
-/
namespace Soxr.Config.Driver
open Soxr.Config Soxr.Config.Dbl

def kvs (toks : List String) : List (String × String) :=
  toks.filterMap fun t => match t.splitOn "=" with
    | [k, v] => some (k, v)
    | _ => none

def getNat (m : List (String × String)) (k : String) (d : Nat) : Nat := ((m.lookup k).bind (·.toNat?)).getD d

def hexVal (c : Char) : Nat :=
  if c.isDigit then c.toNat - 48 else if 'a' ≤ c ∧ c ≤ 'f' then c.toNat - 87 else 0

def unhex : List Char → List Char
  | a :: b :: r => Char.ofNat (hexVal a * 16 + hexVal b) :: unhex r
  | _ => []

/-- `x<hex bytes>` -> the string; absent -> none -/
def envVal (m : List (String × String)) (k : String) : Option String :=
  (m.lookup k).map fun v => String.ofList (unhex (v.toList.drop 1))

def b2s (b : Bool) : String := if b then "1" else "0"

def allKinds : List ErrorKind :=
  [.invalidQuality, .invalidDatatype, .ratioOutOfRange, .imaging, .transitionBandwidth, .transitionBand, .precision,
   .factorNotPositive, .factorTooLarge, .phase, .mustSetChannels, .invalidChannels, .channelsFixed, .varyingRatio,
   .nullOutput, .inputFailure, .injected]

def errStr : Option ErrorKind → String
  | none => "-"
  | some e => e.msg

def parseConfig (m : List (String × String)) : Config :=
  let q0 := qualitySpec (getNat m "recipe" 4) (getNat m "rflags" 0)
  let q : QSpec :=
    { precision := match m.lookup "prec" with | some v => ofBits (v.toNat?.getD 0) | none => q0.precision,
      phase := match m.lookup "phase" with | some v => ofBits (v.toNat?.getD 0) | none => q0.phase,
      pb := match m.lookup "pb" with | some v => ofBits (v.toNat?.getD 0) | none => q0.pb,
      sb := match m.lookup "sb" with | some v => ofBits (v.toNat?.getD 0) | none => q0.sb,
      e := match m.lookup "qe" with | some v => v == "1" | none => q0.e,
      flags := match m.lookup "qflags" with | some v => v.toNat?.getD 0 | none => q0.flags }
  let it := getNat m "itype" 0
  let ot := getNat m "otype" 0
  let io : IoSpec :=
    if getNat m "viaio" 0 == 1 then
      (if 8 ≤ it ||| ot then { itype := 0, otype := 0, flags := getNat m "ioflags" 0, e := true }
       else { itype := it, otype := ot, flags := getNat m "ioflags" 0, e := false })
    else { itype := it, otype := ot, flags := getNat m "ioflags" 0, e := getNat m "ioe" 0 == 1 }
  let rd := runtimeDefault (getNat m "threads" 1)
  let rt : RtSpec :=
    { minDft := getNat m "min" rd.minDft, largeDft := getNat m "large" rd.largeDft, coefKb := getNat m "kb" rd.coefKb,
      threads := rd.threads, flags := getNat m "rtflags" rd.flags }
  let env : Env :=
    { simd := envVal m "E.SOXR_USE_SIMD", simd32 := envVal m "E.SOXR_USE_SIMD32", simd64 := envVal m "E.SOXR_USE_SIMD64",
      minDft := envVal m "E.SOXR_MIN_DFT_SIZE", largeDft := envVal m "E.SOXR_LARGE_DFT_SIZE",
      coefs := envVal m "E.SOXR_COEFS_SIZE", threads := envVal m "E.SOXR_NUM_THREADS",
      interp := envVal m "E.SOXR_COEF_INTERP", strictBuf := envVal m "E.SOXR_STRICT_BUF",
      noSmallInt := envVal m "E.SOXR_NOSMALLINTOPT" }
  { irate := ofBits (getNat m "ir" 0), orate := ofBits (getNat m "or" 0), channels := getNat m "ch" 1,
    q := if getNat m "q" 1 == 1 then some q else none,
    io := if getNat m "io" 1 == 1 then some io else none,
    rt := if getNat m "rt" 1 == 1 then some rt else none,
    env := env, cpu := { simd32 := getNat m "cpu32" 1 == 1, simd64 := getNat m "cpu64" 1 == 1 } }

def acceptedLine (a : Accepted) : String :=
  s!"C ok engine={a.engine.name} conv={if a.engine.floatKernels then "f" else "d"} ready={b2s a.ready} prec={toBits a.q.precision} phase={toBits a.q.phase} " ++
  s!"pb={toBits a.q.pb} sb={toBits a.q.sb} qflags={a.q.flags} min={a.rt.minDft} large={a.rt.largeDft} " ++
  s!"kb={a.rt.coefKb} threads={a.rt.threads} rtflags={a.rt.flags} ratio={toBits a.ioRatio}"

def frStr : Frames → String
  | .zero => "1"
  | .any => "*"

def retLine : Ret → String
  | .status e => "S " ++ errStr e
  | .frames n e => s!"P z={frStr n} err=" ++ errStr e
  | .count n => s!"K z={frStr n}"
  | .name s => "N " ++ s
  | .nullCall => "X nullcall"
  | .misuse => "X misuse"

def parseFn (s : String) : FnObs := if s == "failed" then .failed else .quiet

def parseOp (toks : List String) : Option Op :=
  match toks with
  | ["setratio", b] => some (.setIoRatio (ofBits (b.toNat?.getD 0)))
  | ["setch", n] => some (.setChannels (n.toNat?.getD 0))
  | ["seterr", k] => some (.setError (if k == "-" then none else allKinds[k.toNat?.getD 0]?))
  | ["process", i, o, n, f] => some (.process (i == "1") (o == "1") (n.toNat?.getD 0) (parseFn f))
  | ["output", o, n, f] => some (.output (o == "1") (n.toNat?.getD 0) (parseFn f))
  | ["delay"] => some .delay
  | ["clear"] => some .clear
  | ["error"] => some .error
  | ["engine"] => some .engine
  | _ => none

def step (st : Option Api) (line : String) : Option Api × Option String :=
  let toks := (line.trimAscii.toString.splitOn " ").filter (· ≠ "")
  match toks with
  | [] => (st, none)
  | ["qspec", r, f] =>
    let q := qualitySpec (r.toNat?.getD 0) (f.toNat?.getD 0)
    (st, some s!"Q e={b2s q.e} prec={toBits q.precision} phase={toBits q.phase} pb={toBits q.pb} sb={toBits q.sb} flags={q.flags}")
  | ["rtspec", n] =>
    let r := runtimeDefault (n.toNat?.getD 0)
    (st, some s!"RT min={r.minDft} large={r.largeDft} kb={r.coefKb} threads={r.threads} flags={r.flags}")
  | ["iospec", i, o] =>
    let it := i.toNat?.getD 0
    let ot := o.toNat?.getD 0
    let bad := match Gen.ioSpecTable.find? (fun x => x.1 == it && x.2.1 == ot) with
      | some (_, _, b) => b
      | none => decide (8 ≤ it ||| ot)
    (st, some (if bad then "IO e=1 itype=0 otype=0" else s!"IO e=0 itype={it} otype={ot}"))
  | ["atoi", v] => (st, some s!"A {atoi (String.ofList (unhex (v.toList.drop 1)))}")
  | "planner" :: rest =>
    -- the rate decomposition of the stage planner for an accepted configuration; gain / interp / odd: oracle parameters
    let m := kvs rest
    let c := parseConfig m
    match validate c with
    | .error e => (st, some ("PL err " ++ e.msg))
    | .ok a =>
      if !a.ready || a.engine == .vr32 then (st, some "PL none")
      else
        let k := knobsOf a.q a.rt a.engine a.ioRatio
        let p0 := planRates a.ioRatio k (getNat m "gain" 0 == 1)
        let p := finishArb p0 (getNat m "interp" 0) (getNat m "odd" 0 == 1)
        let hi := hasFlag a.q.flags Gen.flagHiPrecClock
        (st, some (s!"PL {stageLine p hi}| n={p0.numStages} shr={p0.shr} preL={p0.preL} preM={p0.preM} arbL={p0.arbL} arbM={toBits p0.arbM} " ++
          s!"postL={p0.postL} postM={p0.postM} rational={b2s p0.rational} upsample={b2s p0.upsample} mode={p0.mode} " ++
          s!"maxL={maxLOf k p0.mode} finished={b2s p0.finished} faithful={b2s p0.faithful} " ++
          s!"prod32={b2s (p0.cubic || p0.productNear a.ioRatio false)} prodexact={b2s (p0.productNear a.ioRatio true)}"))
  | "create" :: rest =>
    let c := parseConfig (kvs rest)
    match validate c with
    | .error e => (none, some ("C err " ++ e.msg))
    | .ok a => (some (Api.ofAccepted c a), some (acceptedLine a))
  | _ =>
    match st with
    | none => (st, some "X no-resampler")
    | some s =>
      match parseOp toks with
      | none => (st, some "bad-op")
      | some op => let (s', r) := Soxr.Config.step s op; (some s', some (retLine r))

partial def loop (h : IO.FS.Stream) (out : IO.FS.Stream) (st : Option Api) : IO Unit := do
  let line ← h.getLine
  if line.isEmpty then return ()
  let (st', o) := step st line
  match o with
  | some s => out.putStrLn s
  | none => pure ()
  loop h out st'

end Soxr.Config.Driver

def main : IO Unit := do
  Soxr.Config.Driver.loop (← IO.getStdin) (← IO.getStdout) none
