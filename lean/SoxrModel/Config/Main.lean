/-! Line-protocol driver of the Config model (stub). -/
def main : IO Unit := pure ()
