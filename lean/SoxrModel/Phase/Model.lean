import SoxrModel.Basic
/-!
# Model of the integer / index logic that the `phase_response` setting goes through

`phase_response` reaches the constant-rate engine in two places only:

* `filter.c:lsx_fir_to_phase` (called by `cr.c:dft_stage_init` when `phase_response != 50`): a cepstral transform
  (floating point, FFTs — **opaque** here: the array `work`, the peak position `peak` and the two rounded window
  lengths `begin0`, `end0` are parameters) followed by a *selection step* that is pure integer logic: which window
  `[begin, begin+len)` of `work` becomes the filter, in which direction it is read, and where the peak ends up
  (`post_len`).  `selWindow`, `srcIndex`, `postLen`, `firToPhase` are that step, statement by statement.
* `cr.c:dft_stage_init`: the filter-length rounding `k` (the only place where `phase_response == 50` is tested),
  `post_peak`, and the latency bookkeeping `preload = post_peak / L`, `at = post_peak % L`, `block_len`,
  `input_size`.  `dftStageInit` is that function with its floating-point sub-results (`nRaw`: Kaiser length
  estimate; `dftLen`: `set_dft_length`'s answer, which the function then pads to `32·L` for power-of-two `L`) as parameters.

`makeLpf` is the index structure of `filter.c:lsx_make_lpf` (which tap each loop iteration writes).

Core Lean only (the line-protocol driver `Phase/Main.lean` imports this file).
-/
namespace Soxr.Phase

/-! ## `lsx_fir_to_phase`: phase folding and the selection step -/

/-- A phase setting as the fraction `n / d` percent (`d > 0`, `0 ≤ n ≤ 100·d`).  `phase1 = (phase > 50 ? 100 - phase : phase) / 50`:
    `fold` is the numerator of `phase1 · 50`. -/
def fold (d n : Nat) : Nat := if n > 50 * d then 100 * d - n else n

/-- `phase > 50` -/
def gt50 (d n : Nat) : Bool := decide (n > 50 * d)

/-- which of the three branches `if (phase1==0) … else if (phase1 == 1) … else …` is taken -/
inductive Cls | min | lin | mid
  deriving DecidableEq, Repr, Inhabited

def cls (d n : Nat) : Cls := if fold d n = 0 then .min else if fold d n = 50 * d then .lin else .mid

/-- what the floating-point part of `lsx_fir_to_phase` hands to the selection step -/
structure SelIn where
  len : Nat          -- `*len` on entry
  workLen : Nat      -- `work_len` (a power of two ≥ 32·len/2)
  peak : Nat         -- `peak` after the search and the walk-back loop
  begin0 : Nat       -- `(int)((.997 - (2 - phase1) * .22) * *len + .5)`   (used by the `.mid` branch only)
  end0 : Nat         -- `(int)((.997 + (0 - phase1) * .22) * *len + .5)`
  deriving Repr, Inhabited, DecidableEq

/-- `x & ~3` for `x ≥ 0` -/
def mask3 (x : Nat) : Nat := x / 4 * 4

/-- `begin` and the new `*len`:
```
if (phase1==0) begin = 0;
else if (phase1 == 1) begin = peak - *len / 2;
else { begin = peak - (begin0 & ~3); end = peak + 1 + ((end0 + 3) & ~3); *len = end - begin; }
``` -/
def selWindow (c : Cls) (i : SelIn) : Int × Nat :=
  match c with
  | .min => (0, i.len)
  | .lin => ((i.peak : Int) - (i.len / 2 : Nat), i.len)
  | .mid =>
    let b : Int := (i.peak : Int) - mask3 i.begin0
    let e : Int := (i.peak : Int) + 1 + mask3 (i.end0 + 3)
    (b, (e - b).toNat)

/-- index of `work` that output tap `i` is read from:
    `(begin + (phase > 50 ? *len - 1 - i : i) + work_len) & (work_len - 1)` (two's complement, `work_len` a power of two:
    the Euclidean remainder). -/
def srcIndex (g : Bool) (bgn : Int) (len workLen i : Nat) : Nat :=
  ((bgn + (if g then ((len : Int) - 1 - i) else (i : Int)) + workLen) % (workLen : Int)).toNat

/-- `*post_len = phase > 50 ? peak - begin : begin + *len - (peak + 1)` -/
def postLen (g : Bool) (bgn : Int) (len peak : Nat) : Int :=
  if g then (peak : Int) - bgn else bgn + len - ((peak : Int) + 1)

structure SelOut (α : Type) where
  taps : List α
  postLen : Int

/-- the selection step on an arbitrary array `work` -/
def firToPhase {α : Type} (work : Nat → α) (g : Bool) (c : Cls) (i : SelIn) : SelOut α :=
  let w := selWindow c i
  { taps := (List.range w.2).map fun k => work (srcIndex g w.1 w.2 i.workLen k)
    postLen := postLen g w.1 w.2 i.peak }

/-- The floating-point part: a function of the incoming filter and of the *folded* phase only
    (`phase1` is the only way `phase` enters the cepstral computation, the peak search and `begin0/end0`). -/
structure Cep (α : Type) where
  sel : Nat → SelIn        -- folded phase numerator ↦ integers handed to the selection step
  work : Nat → Nat → α     -- folded phase numerator ↦ `work`

/-- `lsx_fir_to_phase(&h, &len, &post_len, phase = n/d)` over an opaque cepstral part -/
def firToPhaseAt {α : Type} (cep : Cep α) (d n : Nat) : SelOut α :=
  firToPhase (cep.work (fold d n)) (gt50 d n) (cls d n) (cep.sel (fold d n))

/-! ## `lsx_make_lpf`: which tap each iteration writes -/

/-- one iteration `i` of `for (i = 0; i <= m / 2; ++i) { h[i] = f(i); if (m - i != i) h[m - i] = h[i]; }` -/
def lpfStep {α : Type} (f : Nat → α) (m : Nat) (h : Nat → Option α) (i : Nat) : Nat → Option α :=
  let h1 : Nat → Option α := fun j => if j = i then some (f i) else h j
  if m - i ≠ i then fun j => if j = m - i then h1 i else h1 j else h1

/-- `lsx_make_lpf(num_taps, …)`: the array after the loop (`none` = never written); `f i` is the value the loop body
    computes for index `i` (sinc × Kaiser window, floating point, opaque). -/
def makeLpf {α : Type} (f : Nat → α) (numTaps : Nat) : Nat → Option α :=
  let m := numTaps - 1
  (List.range (m / 2 + 1)).foldl (lpfStep f m) (fun _ => none)

/-! ## `lsx_design_lpf` (length rounding) and `dft_stage_init` -/

/-- `lsx_is_power_of_2(x)`: `!(x < 2 || (x & (x - 1)))` — stated with `log2` so that it can be reasoned about;
    `Generated.lean` ties it to the C macro. -/
def isPow2L (x : Nat) : Bool := decide (2 ≤ x) && (2 ^ x.log2 == x)

/-- `lsx_design_lpf(…, &num_taps = 0, k < 0, …)`: `modulo = -k`, `num_taps = (n + modulo - 2) / modulo * modulo + 1`
    (`n ≥ 1` is the Kaiser estimate `(int)ceil(att/tr_bw + 1)`). -/
def roundTaps (n modulo : Nat) : Nat := (n + modulo - 2) / modulo * modulo + 1

/-- `int k = phase_response == 50 && lsx_is_power_of_2(L) && Fn == L? L << 1 : 4;` -/
def designK (lin : Bool) (L : Nat) (fnEqL : Bool) : Nat := if lin && isPow2L L && fnEqL then 2 * L else 4

structure DftIn where
  lin : Bool := true      -- `phase_response == 50`
  L : Nat := 1
  M : Nat := 1
  fnEqL : Bool := true    -- `Fn == L`
  fsLe1 : Bool := true    -- `Fs <= 1`
  nRaw : Nat := 1         -- Kaiser length estimate (floating point; opaque)
  tpLen : Nat := 1        -- result of `lsx_fir_to_phase` on the rounded length: new `num_taps` (before the tap padding) …
  tpPost : Nat := 0       -- … and `post_peak`   (ignored when `lin`)
  dftLen : Nat := 1       -- what `set_dft_length(num_taps, min, large)` answers for the final (padded) `num_taps` (floating-point `log`; opaque), BEFORE the padding loop
  deriving Repr, Inhabited, DecidableEq

/-- `while (dft_length < 32 * L) dft_length <<= 1;` (fuelled; `32·L` iterations are more than the loop can take from any
    `dft_length ≥ 1`, see `padDft_ge`) -/
def padDft (L : Nat) : Nat → Nat → Nat
  | 0, D => D
  | fuel + 1, D => if D < 32 * L then padDft L fuel (2 * D) else D

/-- `dft_length` after `if (lsx_is_power_of_2(L)) while (dft_length < 32 * L) dft_length <<= 1;`: a power-of-two up-sampling
    stage keeps at least 32 points per forward transform (`dft_length / L`) -/
def finalDftLen (L D : Nat) : Nat := if isPow2L L then padDft L (32 * L) D else D

structure DftOut where
  k : Nat
  nDesign : Nat           -- `num_taps` as designed (before `lsx_fir_to_phase`)
  padTaps : Nat           -- trailing zeros appended after `lsx_fir_to_phase` (0 for linear phase)
  numTaps : Nat
  postPeak : Nat
  dftLen : Nat
  L : Nat
  preload : Nat
  clk : Nat               -- `at.integer`
  step : Int              -- `step.integer`
  blockLen : Nat
  isz : Nat               -- `input_size`
  deriving Repr, Inhabited, DecidableEq

/-- trailing zeros `dft_stage_init` appends to the transformed (non-linear phase) filter of a power-of-two up-sampling
    stage so that `L ∣ num_taps - 1` (repair of F1):
    `if (lsx_is_power_of_2(L) && (num_taps - 1) % L) pad = L - (num_taps - 1) % L;` -/
def tapPad (L numTaps : Nat) : Nat := if isPow2L L && (numTaps - 1) % L != 0 then L - (numTaps - 1) % L else 0

/-- `dft_stage_init`, the first time a filter instance is set up (`!f->dft_length`).  `padFilter = true` is the code as it
    is; `false` leaves out the tap-padding step — the arithmetic before the repair of F1, kept for the historical witness. -/
def dftStageInitWith (padFilter : Bool) (i : DftIn) : DftOut :=
  let k := designK i.lin i.L i.fnEqL
  let n0 := roundTaps i.nRaw k
  let pad := if i.lin || !padFilter then 0 else tapPad i.L i.tpLen      -- `num_taps += pad, f->post_peak += pad`
  let n := if i.lin then n0 else i.tpLen + pad
  let pp := if i.lin then n0 / 2 else i.tpPost + pad
  let fdm := (i.M == 2 || i.M == 4) && i.fsLe1        -- `abs(3-M) == 1 && Fs <= 1`
  let clk := pp % i.L
  let D := finalDftLen i.L i.dftLen
  { k := k, nDesign := n0, padTaps := pad, numTaps := n, postPeak := pp, dftLen := D, L := i.L,
    preload := pp / i.L, clk := clk,
    step := if fdm then -((i.M / 2 : Nat) : Int) else (i.M : Int),
    blockLen := D - (n - 1),
    isz := (D - clk + i.L - 1) / i.L }

/-- `dft_stage_init` as it is in the working tree -/
def dftStageInit (i : DftIn) : DftOut := dftStageInitWith true i

/-- the arithmetic of `dft_stage_init` before the repair of F1 (no tap padding): historical -/
def dftStageInitPreF1 (i : DftIn) : DftOut := dftStageInitWith false i

/-- The clause of the frequency-domain up-sampling path of `dft_stage_fn` (`lsx_is_power_of_2(L)`): it transforms
    `dft_length / L` input frames per block, reads `⌈(block_len - at)/L⌉` and ignores `at`; that is a correct
    overlap-save step only if every block starts on the input grid. -/
def FDomainOK (o : DftOut) : Prop := isPow2L o.L = true → o.L ∣ o.blockLen

instance (o : DftOut) : Decidable (FDomainOK o) := by unfold FDomainOK; exact inferInstance

/-- the same clause on the integers of an exported plan -/
def fdomainOK (L dftLen numTaps : Nat) : Bool := !isPow2L L || (dftLen - (numTaps - 1)) % L == 0

/-- `dft_stage_init` for a non-linear phase `n/d` with the transform's result taken from the selection-step model
    (`base` supplies `L`, `M`, `Fn`, the length estimate and `set_dft_length`'s answer for the transformed length). -/
def dftInOf {α : Type} (base : DftIn) (cep : Cep α) (d n : Nat) : DftIn :=
  { base with lin := false, tpLen := (firToPhaseAt cep d n).taps.length, tpPost := (firToPhaseAt cep d n).postLen.toNat }

end Soxr.Phase
