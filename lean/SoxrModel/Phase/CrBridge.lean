import SoxrModel.Cr.Time
import SoxrModel.Phase.Bridge
/-!
# The stage `dft_stage_init` leaves satisfies what the constant-rate theorems assume of a dft stage

`never_early` (Properties/C03), `delay_gt_neg_one_every_run` (C15), `dft_inv` (Cr/EarlyNat.lean) and the schedule theorems
take, for every dft stage, the dft clause of `StageWF` (Cr/Wf.lean) and `DftShapeOK` (Cr/Time.lean); `tstage_b_exact` /
`dft_b` take `LatOK`.  The compiled driver evaluates them on every exported plan (`cr.wf`, `cr.time`).  Here they are
*derived* from the model of `dft_stage_init` (Phase/Model.lean): `lstageOf` maps the model's output to the
`StageCfg × StageSt × LatInfo` exactly as `harness/cr/trace.c` exports a dft stage (`kind=dft`, `L`, `dftLen`, `numTaps`,
`M = step.integer` — negative for the frequency-domain decimator —, `clk = at.integer`, `remM = 0` (the stage array is
`calloc`ed and `dft_stage_init` does not touch it), `preload → occ`, `isz = input_size`, `postPeak`).

What is proved (`stage_init_wf_shape`), for every phase response, every `L` (power-of-two `L ≥ 8` included, after the
repair of F1), both rate-change modes (`step = M` and the F-domain decimator `step = −M/2`):
all seven conjuncts of the dft clause of `StageWF`, all three of `DftShapeOK`, the latency split
`post_peak = L·preload + at`, and for linear phase `LatOK` (so `(tstage x).b = 0`: the stage is time-aligned).

What stays a hypothesis, and why — each is a fact about something the model does not compute:
* `hN : num_taps ≤ set_dft_length(num_taps)` and `hD : set_dft_length answers a power of two` — `set_dft_length` is
  `1 << range_limit((int)(log2 n + 2.77), …)`: floating-point `log` (opaque parameter `DftIn.dftLen`);
* `hB : L ≤ block_len ∧ M ≤ block_len` — the sizes of `L`, `M` relative to the block (the planner's `L ≤ 256`, `M ≤ 5`
  against `dft_length ≥ 2^log2_min_dft_size`); for power-of-two `L` it *follows* from the one numeric fact
  `3·num_taps ≤ 2·set_dft_length(num_taps)` (`pow2_sizes`: then `10·L < block_len`), thanks to the padding loop;
* `hT : the transform returns a length ≡ 1 (mod 4)` (non-linear phase only) — proved for the selection-step model of
  `lsx_fir_to_phase` (`at_transformed_length_mod4`, `nonlinear_design_mod4`); a hypothesis here because `DftIn.tpLen` is
  the transform's answer as a plain number;
* `hlin : linear phase with a power-of-two L is called with Fn == L or L ∣ 4` — the two call sites of `_soxr_init`
  (pre-stage `L ≤ 4`, post-stage `Fn = max(postL, postM) = postL`); planner logic upstream of `dft_stage_init`.
No clause of `StageWF` / `DftShapeOK` is left as a whole.
-/
namespace Soxr.Phase
open Soxr.Cr

/-! ## the C macro `lsx_is_power_of_2` (bitwise, `Basic.isPow2`) and the model's `isPow2L` -/

theorem isPow2_spec : ∀ x : Nat, isPow2 x = true → ∃ a, 1 ≤ a ∧ x = 2 ^ a := by
  intro x
  induction x using Nat.strongRecOn with
  | _ x ih =>
    intro h
    unfold isPow2 at h
    simp only [Bool.and_eq_true, decide_eq_true_eq, beq_iff_eq] at h
    obtain ⟨h2, hz⟩ := h
    have hdiv : x / 2 &&& (x - 1) / 2 = 0 := by
      have := @Nat.and_div_two x (x - 1)
      rw [hz] at this; exact this.symm
    rcases Nat.mod_two_eq_zero_or_one x with he | ho
    · -- x = 2y
      have e1 : (x - 1) / 2 = x / 2 - 1 := by omega
      rw [e1] at hdiv
      by_cases hy : x / 2 = 1
      · exact ⟨1, Nat.le_refl _, by omega⟩
      · have hy2 : 2 ≤ x / 2 := by omega
        have hp : isPow2 (x / 2) = true := by
          unfold isPow2
          simp only [Bool.and_eq_true, decide_eq_true_eq, beq_iff_eq]
          exact ⟨hy2, hdiv⟩
        obtain ⟨a, ha1, ha⟩ := ih (x / 2) (by omega) hp
        exact ⟨a + 1, by omega, by rw [Nat.pow_succ, ← ha]; omega⟩
    · -- x odd: the two halves coincide, so the conjunction is x / 2 ≠ 0
      have e1 : (x - 1) / 2 = x / 2 := by omega
      rw [e1, Nat.and_self] at hdiv
      omega

theorem isPow2L_of_isPow2 (x : Nat) (h : isPow2 x = true) : isPow2L x = true := by
  obtain ⟨a, ha1, ha⟩ := isPow2_spec x h
  rw [ha]; exact isPow2L_pow a ha1

/-! ## the exported stage -/

/-- the dft stage as `harness/cr/trace.c` exports it (`cr.stage` line), from the model of `dft_stage_init` -/
def lstageOf (o : DftOut) : LStage :=
  { cfg := (toStage o).cfg, s0 := (toStage o).st, lat := { postPeak := o.postPeak } }

theorem finalDftLen_ge_self (L D : Nat) : D ≤ finalDftLen L D := by
  unfold finalDftLen
  split
  · obtain ⟨j, hj⟩ := padDft_form L (32 * L) D
    rw [hj]; exact Nat.le_mul_of_pos_right D (Nat.pow_pos (by omega))
  · exact Nat.le_refl _

/-- `num_taps - 1` is a multiple of 4 for every phase (`k` is a multiple of 4; the transform keeps `≡ 1 (mod 4)`; the
    trailing zeros only appear for `L ≥ 8`, where they make it a multiple of `L`) -/
theorem numTaps_mod4 (i : DftIn) (hT : i.lin = false → i.tpLen % 4 = 1)
    (hlin : i.lin = true → isPow2L i.L = true → i.fnEqL = true → 2 ≤ i.L) : 4 ∣ (dftStageInit i).numTaps - 1 := by
  cases hl : i.lin
  · rw [(dft_nonlin i hl).1]
    have ht := hT hl
    unfold tapPad
    split
    · rename_i hc
      simp only [Bool.and_eq_true, bne_iff_ne, ne_eq] at hc
      obtain ⟨hp, hne⟩ := hc
      obtain ⟨a, ha1, ha⟩ := isPow2L_spec i.L hp
      -- L ∤ tpLen - 1 although 4 ∣ tpLen - 1: L is at least 8, a multiple of 4
      have ha3 : 2 ≤ a := by
        rcases Nat.lt_or_ge a 2 with hlt | hge
        · have : a = 1 := by omega
          subst this
          rw [ha] at hne; omega
        · exact hge
      have h4L : 4 ∣ i.L := by
        rw [ha]; exact Nat.pow_dvd_pow 2 ha3
      have hd := tapPad_dvd i.L i.tpLen hp (by omega)
      have hpadeq : tapPad i.L i.tpLen = i.L - (i.tpLen - 1) % i.L := by
        unfold tapPad; rw [if_pos (by simp [hp, hne])]
      rw [hpadeq] at hd
      exact Nat.dvd_trans h4L hd
    · exact ⟨i.tpLen / 4, by omega⟩
  · rw [(dft_lin_numTaps i hl).1]
    have hm := roundTaps_mod i.nRaw (designK true i.L i.fnEqL)
    have hk : 4 ∣ designK true i.L i.fnEqL := by
      unfold designK
      split
      · rename_i hc
        simp only [Bool.and_eq_true] at hc
        have := hlin hl hc.1.2 hc.2
        obtain ⟨a, ha1, ha⟩ := isPow2L_spec i.L hc.1.2
        exact ⟨i.L / 2, by
          have : i.L % 2 = 0 := by
            rw [ha]; cases a with
            | zero => omega
            | succ n => rw [Nat.pow_succ]; omega
          omega⟩
      · exact ⟨1, rfl⟩
    exact Nat.dvd_trans hk (Nat.dvd_of_mod_eq_zero hm)

/-- **`StageWF`'s dft clause and `DftShapeOK` for the stage `dft_stage_init` leaves** — every phase response, every `L`,
    both rate-change modes.  The hypotheses are the facts about the opaque floating-point / planner parts listed in the
    header; no clause is left as a whole. -/
theorem stage_init_wf_shape (i : DftIn) (hL : 0 < i.L) (hM : 0 < i.M)
    (hT : i.lin = false → i.tpLen % 4 = 1)
    (b : Nat) (hD : i.dftLen = 2 ^ b) (hN : (dftStageInit i).numTaps ≤ i.dftLen)
    (hB : i.L ≤ (dftStageInit i).blockLen ∧ i.M ≤ (dftStageInit i).blockLen)
    (hlin : i.lin = true → isPow2L i.L = true → i.fnEqL = true ∨ i.L ∣ 4) :
    StageWF (lstageOf (dftStageInit i)).cfg (lstageOf (dftStageInit i)).s0 ∧
    DftShapeOK (lstageOf (dftStageInit i)).cfg (lstageOf (dftStageInit i)).s0 := by
  have hnt1 : 1 ≤ (dftStageInit i).numTaps := by
    cases hl : i.lin
    · rw [(dft_nonlin i hl).1]; have := hT hl; omega
    · rw [(dft_lin_numTaps i hl).1]; exact roundTaps_pos _ _
  have hND : (dftStageInit i).numTaps ≤ (dftStageInit i).dftLen := by
    rw [dft_dftLen]; exact Nat.le_trans hN (finalDftLen_ge_self _ _)
  -- `dftOutOK`: `step = M` with `M ≤ block_len`, or the F-domain decimator (`step < 0`)
  have hstep : (dftStageInit i).step = (i.M : Int) ∨ ((dftStageInit i).step = -((i.M / 2 : Nat) : Int) ∧ (i.M = 2 ∨ i.M = 4)) := by
    have e : (dftStageInit i).step = if ((i.M == 2 || i.M == 4) && i.fsLe1) = true then -((i.M / 2 : Nat) : Int) else (i.M : Int) := rfl
    by_cases hc : ((i.M == 2 || i.M == 4) && i.fsLe1) = true
    · rw [if_pos hc] at e
      simp only [Bool.and_eq_true, Bool.or_eq_true, beq_iff_eq] at hc
      exact Or.inr ⟨e, hc.1⟩
    · rw [if_neg hc] at e
      exact Or.inl e
  have hout : dftOutOK (toStage (dftStageInit i)).cfg 0 := by
    unfold dftOutOK
    show (if 0 < (dftStageInit i).step then
        ((dftStageInit i).step = 1 ∨ ((dftStageInit i).step.toNat ≤ (dftStageInit i).dftLen - ((dftStageInit i).numTaps - 1) ∧
          0 < (dftStageInit i).step.toNat)) else True)
    rcases hstep with hs | ⟨hs, hm⟩
    · rw [hs, if_pos (by omega)]
      right
      have : ((i.M : Int)).toNat = i.M := by omega
      rw [this]
      exact ⟨by have := hB.2; rw [dft_blockLen] at this; exact this, hM⟩
    · rw [hs, if_neg (by omega)]; trivial
  refine ⟨toStage_wf i hL hnt1 hND hB.1 hout, ?_, ?_, ?_⟩
  · rfl
  · -- power-of-two L (as the C macro tests it), or L = 1
    intro hp
    show i.L ∣ (dftStageInit i).dftLen - ((dftStageInit i).numTaps - 1)
    rw [← dft_blockLen]
    simp only [Bool.or_eq_true, beq_iff_eq] at hp
    rcases hp with hp | h1
    · have hpl := isPow2L_of_isPow2 i.L hp
      exact (dft_block_aligned i hpl b hD (fun hl => hlin hl hpl) (fun hl => by have := hT hl; omega)).2.1
    · rw [show i.L = 1 from h1]; exact Nat.one_dvd _
  · -- F-domain decimator: `2^m ∣ block_len`, `m = M / 2`, `M ∈ {2, 4}`
    intro hle
    change (dftStageInit i).step ≤ 0 at hle
    show 2 ^ (-(dftStageInit i).step).toNat ∣ (dftStageInit i).dftLen - ((dftStageInit i).numTaps - 1)
    rcases hstep with hs | ⟨hs, hm⟩
    · rw [hs] at hle; omega
    · rw [hs]
      have h4 : 4 ∣ (dftStageInit i).numTaps - 1 := numTaps_mod4 i hT (fun hl hp hf => by
        obtain ⟨a, ha1, ha⟩ := isPow2L_spec i.L hp
        rw [ha]; calc 2 = 2 ^ 1 := rfl
          _ ≤ 2 ^ a := Nat.pow_le_pow_right (by omega) ha1)
      have hpw : (2 : Nat) ^ (- -((i.M / 2 : Nat) : Int)).toNat = i.M := by
        have : (- -((i.M / 2 : Nat) : Int)).toNat = i.M / 2 := by omega
        rw [this]
        rcases hm with hm | hm <;> rw [hm]
      rw [hpw]
      -- M ∣ dft_length (both powers of two, M ≤ block_len ≤ dft_length) and M ∣ 4 ∣ num_taps - 1
      obtain ⟨c, hc⟩ := finalDftLen_pow2 i.L b
      rw [← hD] at hc
      have hMD : i.M ∣ (dftStageInit i).dftLen := by
        rw [dft_dftLen, hc]
        have hle2 : i.M ≤ 2 ^ c := by
          rw [← hc, ← dft_dftLen]
          have := hB.2; rw [dft_blockLen] at this; omega
        rcases hm with hm | hm
        · rw [hm] at hle2 ⊢; exact pow2_dvd_of_le 1 c hle2
        · rw [hm] at hle2 ⊢; exact pow2_dvd_of_le 2 c hle2
      have hM4 : i.M ∣ (dftStageInit i).numTaps - 1 := by
        rcases hm with hm | hm
        · rw [hm]; exact Nat.dvd_trans ⟨2, rfl⟩ h4
        · rw [hm]; exact h4
      exact Nat.dvd_sub hMD hM4

/-- for a power-of-two `L` the size hypotheses follow from one numeric fact about `set_dft_length`
    (`3·n ≤ 2·set_dft_length(n)`; the C expression gives at least `2^0.77·n`): the padding loop makes the block ten times `L` -/
theorem pow2_sizes (i : DftIn) (hp : isPow2L i.L = true) (hS : 3 * (dftStageInit i).numTaps ≤ 2 * i.dftLen) (hD1 : 1 ≤ i.dftLen) :
    (dftStageInit i).numTaps ≤ i.dftLen ∧ 10 * i.L < (dftStageInit i).blockLen := by
  have hge := finalDftLen_ge i.L i.dftLen hp hD1
  have hself := finalDftLen_ge_self i.L i.dftLen
  refine ⟨by omega, ?_⟩
  rw [dft_blockLen, dft_dftLen]
  omega

/-! ## time alignment -/

/-- **Latency split, every phase**: the exported integers satisfy `post_peak = L·preload + at`, `at < L`
    (the part of `LatOK` that does not need a centred filter). -/
theorem lstage_latency (i : DftIn) (hL : 0 < i.L) :
    let x := lstageOf (dftStageInit i)
    x.s0.occ = x.lat.postPeak / x.cfg.L ∧ x.s0.clk = x.lat.postPeak % x.cfg.L ∧
    x.lat.postPeak = x.cfg.L * x.s0.occ + x.s0.clk ∧ x.s0.clk < x.cfg.L := by
  intro x
  exact ⟨rfl, rfl, (dft_latency i hL).1, (dft_latency i hL).2⟩

/-- **Linear phase gives `LatOK`** (what `dft_b` / `tstage_b_exact` take as a hypothesis): the filter is centred on a tap,
    and `preload`, `at` split the peak position.  Hence `(tstage x).b = 0`. -/
theorem lstage_latOK_linear (i : DftIn) (hL : 0 < i.L) (hl : i.lin = true) (e : Bool) :
    LatOK e (lstageOf (dftStageInit i)) := by
  unfold LatOK
  show (dftStageInit i).numTaps = 2 * (dftStageInit i).postPeak + 1 ∧ 0 < i.L ∧
    (dftStageInit i).preload = (dftStageInit i).postPeak / i.L ∧ (dftStageInit i).clk = (dftStageInit i).postPeak % i.L
  refine ⟨?_, hL, rfl, rfl⟩
  obtain ⟨h1, h2⟩ := dft_lin_numTaps i hl
  rw [h1, h2]
  unfold designK
  split
  · rw [roundTaps_form]
    have : (i.nRaw + 2 * i.L - 2) / (2 * i.L) * (2 * i.L) = 2 * ((i.nRaw + 2 * i.L - 2) / (2 * i.L) * i.L) := by
      rw [Nat.mul_left_comm]
    rw [this]; omega
  · rw [roundTaps_form]; omega

/-- **`EarlyOK` for a linear-phase power-of-two stage** (the hypothesis of `never_early`): the peak lies at least `L - 1`
    taps in as soon as the Kaiser estimate asks for two taps. -/
theorem lstage_peak_ge_L (i : DftIn) (hl : i.lin = true) (hp : isPow2L i.L = true) (hf : i.fnEqL = true) (hn : 2 ≤ i.nRaw) :
    i.L ≤ (dftStageInit i).postPeak + 1 := by
  obtain ⟨h1, h2⟩ := dft_lin_numTaps i hl
  have hk : designK true i.L i.fnEqL = 2 * i.L := by simp [designK, hp, hf]
  rw [hk] at h2
  obtain ⟨a, ha1, ha⟩ := isPow2L_spec i.L hp
  have hLpos : 0 < i.L := by rw [ha]; exact Nat.pow_pos (by omega)
  rw [h2, roundTaps_form]
  have hq : 1 ≤ (i.nRaw + 2 * i.L - 2) / (2 * i.L) := by
    apply (Nat.le_div_iff_mul_le (by omega)).mpr; omega
  have : 2 * i.L ≤ (i.nRaw + 2 * i.L - 2) / (2 * i.L) * (2 * i.L) := by
    calc 2 * i.L = 1 * (2 * i.L) := by omega
      _ ≤ _ := Nat.mul_le_mul_right _ hq
  omega

end Soxr.Phase
