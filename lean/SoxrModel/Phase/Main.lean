import SoxrModel.Phase.Model
/-!
# `soxr_phase`: line-protocol driver of the phase model

One op per line on stdin (`key=value` tokens), one canonical line on stdout.  `harness/phase/sel.c` runs the same cases
through the real `lsx_fir_to_phase` / `dft_stage_init` and prints the same lines; `checks/c14.py` diffs them.

```
sel d= n= len= wl= peak= b0= e0=          selection step of lsx_fir_to_phase for phase n/d percent
    -> sel g= cls= len= post= first= last= sum=
dft lin= L= M= fnEqL= fsLe1= nRaw= tpLen= tpPost= dftLen=      (tpLen, tpPost: what lsx_fir_to_phase returned, before the trailing zeros; dftLen: what set_dft_length answered, before the padding loop)
    -> dft nDesign= pad= dftLen= numTaps= postPeak= preload= clk= step= blockLen= isz= fdok=
plan lin= L= dftLen= numTaps= postPeak= preload= clk= blockLen= isz=      an exported dft stage against the clauses
    -> plan fdok= latency= centred= shape= pad=
pow2 x=                                   lsx_is_power_of_2
    -> pow2 <0|1>
```
There is no `lean_exe` for this file in `lakefile.toml` yet; the check runs it with `lake env lean --run` (interpreted) and
uses the compiled `soxr_phase` when one exists.
-/
namespace Soxr.Phase.Main
open Soxr.Phase

def kv (toks : List String) (key : String) : Int :=
  match toks.find? (fun t => t.startsWith (key ++ "=")) with
  | some t => ((t.drop (key.length + 1)).toInt?).getD 0
  | none => 0

def kvn (toks : List String) (key : String) : Nat := (kv toks key).toNat

def b2n (b : Bool) : Nat := if b then 1 else 0

def clsName : Cls → String
  | .min => "min" | .lin => "lin" | .mid => "mid"

/-- checksum of the source indices, as `harness/phase/sel.c` computes it -/
def checksum (idx : List Nat) : Nat := idx.foldl (fun s x => (s * 31 + x) % 4294967291) 7

def doSel (t : List String) : String :=
  let d := kvn t "d"; let n := kvn t "n"
  let i : SelIn := { len := kvn t "len", workLen := kvn t "wl", peak := kvn t "peak", begin0 := kvn t "b0", end0 := kvn t "e0" }
  let g := gt50 d n
  let c := cls d n
  let w := selWindow c i
  let idx := (List.range w.2).map (srcIndex g w.1 w.2 i.workLen)
  s!"sel g={b2n g} cls={clsName c} len={w.2} post={postLen g w.1 w.2 i.peak} first={idx.head?.getD 0} last={idx.getLast?.getD 0} sum={checksum idx}"

def doDft (t : List String) : String :=
  let i : DftIn := { lin := kvn t "lin" == 1, L := kvn t "L", M := kvn t "M", fnEqL := kvn t "fnEqL" == 1, fsLe1 := kvn t "fsLe1" == 1,
                     nRaw := kvn t "nRaw", tpLen := kvn t "tpLen", tpPost := kvn t "tpPost", dftLen := kvn t "dftLen" }
  let o := dftStageInit i
  s!"dft nDesign={o.nDesign} pad={o.padTaps} dftLen={o.dftLen} numTaps={o.numTaps} postPeak={o.postPeak} preload={o.preload} clk={o.clk} step={o.step} blockLen={o.blockLen} isz={o.isz} fdok={b2n (decide (FDomainOK o))}"

def doPlan (t : List String) : String :=
  let L := kvn t "L"; let D := kvn t "dftLen"; let nt := kvn t "numTaps"; let pp := kvn t "postPeak"
  let pre := kvn t "preload"; let clk := kvn t "clk"; let bl := kvn t "blockLen"; let isz := kvn t "isz"
  let lin := kvn t "lin" == 1
  let fd := fdomainOK L D nt
  let lat := pp == L * pre + clk && decide (clk < L)
  let cen := !lin || (nt == 2 * pp + 1 && (!isPow2L L || clk == 0))
  let shape := bl == D - (nt - 1) && isz == (D - clk + L - 1) / L && decide (1 ≤ nt) && decide (nt ≤ D)
  let pad := !isPow2L L || decide (32 * L ≤ D)          -- the padding loop of dft_stage_init
  s!"plan fdok={b2n fd} latency={b2n lat} centred={b2n cen} shape={b2n shape} pad={b2n pad}"

def answer (line : String) : String :=
  let t := (line.trimAscii.toString.splitOn " ").filter (· ≠ "")
  match t with
  | "sel" :: r => doSel r
  | "dft" :: r => doDft r
  | "plan" :: r => doPlan r
  | "pow2" :: r => s!"pow2 {b2n (isPow2L (kvn r "x"))}"
  | [] => ""
  | _ => "?"

partial def loop (h : IO.FS.Stream) (out : IO.FS.Stream) : IO Unit := do
  let line ← h.getLine
  if line.isEmpty then return
  let a := answer line
  if a ≠ "" then out.putStrLn a
  loop h out

end Soxr.Phase.Main

def main : IO Unit := do
  let stdin ← IO.getStdin
  let stdout ← IO.getStdout
  Soxr.Phase.Main.loop stdin stdout
  stdout.flush
