import SoxrModel.Phase.Model
/-!
# Lemmas about the phase model (`Phase/Model.lean`): folding, mirror law of the selection step, linear-phase centring,
  `lsx_make_lpf` index structure, length rounding and the block-alignment clause of `dft_stage_init`.
-/
namespace Soxr.Phase

/-! ## folding -/

theorem fold_mirror (d n : Nat) (h : n ≤ 100 * d) : fold d (100 * d - n) = fold d n := by
  unfold fold; split <;> split <;> omega

theorem gt50_mirror (d n : Nat) (h : n ≤ 100 * d) (hne : n ≠ 50 * d) : gt50 d (100 * d - n) = !gt50 d n := by
  unfold gt50
  by_cases h1 : n > 50 * d
  · have : ¬ (100 * d - n > 50 * d) := by omega
    simp [h1, this]
  · have : 100 * d - n > 50 * d := by omega
    simp [h1, this]

theorem cls_mirror (d n : Nat) (h : n ≤ 100 * d) : cls d (100 * d - n) = cls d n := by
  unfold cls; rw [fold_mirror d n h]

theorem fold_eq_half_iff (d n : Nat) (h : n ≤ 100 * d) : fold d n = 50 * d ↔ n = 50 * d := by
  unfold fold; split <;> omega

theorem cls_lin_iff (d n : Nat) (hd : 0 < d) (h : n ≤ 100 * d) : cls d n = .lin ↔ n = 50 * d := by
  have hf := fold_eq_half_iff d n h
  unfold cls
  by_cases h0 : fold d n = 0
  · have hne : ¬ n = 50 * d := by
      intro e; have := hf.mpr e; omega
    rw [if_pos h0]
    exact ⟨fun e => (by cases e), fun e => absurd e hne⟩
  · rw [if_neg h0]
    by_cases h1 : fold d n = 50 * d
    · rw [if_pos h1]; exact ⟨fun _ => hf.mp h1, fun _ => rfl⟩
    · rw [if_neg h1]
      exact ⟨fun e => (by cases e), fun e => absurd (hf.mpr e) h1⟩

/-! ## the selection step -/

theorem srcIndex_mirror (b : Int) (len wl i : Nat) (hi : i < len) :
    srcIndex true b len wl i = srcIndex false b len wl (len - 1 - i) := by
  unfold srcIndex
  have : ((len - 1 - i : Nat) : Int) = (len : Int) - 1 - i := by omega
  simp only [if_true, this]
  rfl

theorem srcIndex_lt (g : Bool) (b : Int) (len wl i : Nat) (hw : 0 < wl) : srcIndex g b len wl i < wl := by
  unfold srcIndex
  have h1 : (0 : Int) < wl := by omega
  have := Int.emod_lt_of_pos (b + (if g then ((len : Int) - 1 - i) else (i : Int)) + wl) h1
  have := Int.emod_nonneg (b + (if g then ((len : Int) - 1 - i) else (i : Int)) + wl) (by omega : (wl : Int) ≠ 0)
  omega

theorem postLen_mirror (b : Int) (len peak : Nat) :
    postLen true b len peak + postLen false b len peak = (len : Int) - 1 := by
  unfold postLen; simp only [if_true]; simp; omega

@[simp] theorem firToPhase_length {α : Type} (work : Nat → α) (g : Bool) (c : Cls) (i : SelIn) :
    (firToPhase work g c i).taps.length = (selWindow c i).2 := by
  simp [firToPhase]

theorem firToPhase_getElem {α : Type} (work : Nat → α) (g : Bool) (c : Cls) (i : SelIn) (k : Nat)
    (hk : k < (firToPhase work g c i).taps.length) :
    (firToPhase work g c i).taps[k] = work (srcIndex g (selWindow c i).1 (selWindow c i).2 i.workLen k) := by
  simp [firToPhase]

/-- the output for `phase > 50` is the output for `phase ≤ 50` (same window of the same array) read backwards -/
theorem firToPhase_reverse {α : Type} (work : Nat → α) (c : Cls) (i : SelIn) :
    (firToPhase work true c i).taps = (firToPhase work false c i).taps.reverse := by
  apply List.ext_getElem
  · simp
  · intro k h1 h2
    rw [List.getElem_reverse, firToPhase_getElem, firToPhase_getElem]
    have hk : k < (selWindow c i).2 := by simpa using h1
    rw [srcIndex_mirror _ _ _ _ hk]
    simp

theorem firToPhase_postLen {α : Type} (work : Nat → α) (c : Cls) (i : SelIn) :
    (firToPhase work true c i).postLen = ((selWindow c i).2 : Int) - 1 - (firToPhase work false c i).postLen := by
  have := postLen_mirror (selWindow c i).1 (selWindow c i).2 i.peak
  simp only [firToPhase]; omega

/-- linear branch: the peak is put in the middle -/
theorem postLen_lin (i : SelIn) (hl : 1 ≤ i.len) :
    postLen false (selWindow .lin i).1 (selWindow .lin i).2 i.peak = ((i.len - 1) / 2 : Nat) := by
  unfold postLen selWindow; simp only []; simp; omega

/-- minimum-phase branch: the window starts at the origin and the length is kept -/
theorem selWindow_min (i : SelIn) : selWindow .min i = (0, i.len) := rfl

theorem mask3_mod (x : Nat) : mask3 x % 4 = 0 := by unfold mask3; omega

/-- every branch keeps `len ≡ 1 (mod 4)` (the design length is `≡ 1 (mod 4)` for non-linear phase, `k = 4`) -/
theorem selWindow_len_mod4 (c : Cls) (i : SelIn) (h : i.len % 4 = 1) : (selWindow c i).2 % 4 = 1 := by
  cases c with
  | min => exact h
  | lin => exact h
  | mid =>
    unfold selWindow mask3; simp only []
    omega

/-- intermediate branch: the new length in closed form -/
theorem selWindow_mid_len (i : SelIn) : (selWindow .mid i).2 = 1 + mask3 i.begin0 + mask3 (i.end0 + 3) := by
  unfold selWindow; simp only []; omega

/-- intermediate branch, `phase ≤ 50`: `post_len = (end0 + 3) & ~3` whatever the peak -/
theorem postLen_mid (i : SelIn) :
    postLen false (selWindow .mid i).1 (selWindow .mid i).2 i.peak = mask3 (i.end0 + 3) := by
  unfold postLen selWindow; simp only []; simp; omega

/-- linear branch with a window that is symmetric about the peak and an odd length: the taps are symmetric -/
theorem firToPhase_lin_symmetric {α : Type} (work : Nat → α) (i : SelIn) (hodd : i.len % 2 = 1)
    (hsym : ∀ t : Nat, t ≤ i.len / 2 →
      work ((((i.peak : Int) + t + i.workLen) % (i.workLen : Int)).toNat) =
      work ((((i.peak : Int) - t + i.workLen) % (i.workLen : Int)).toNat))
    (k : Nat) (hk : k < i.len) :
    ∀ (h1 : k < (firToPhase work false .lin i).taps.length) (h2 : i.len - 1 - k < (firToPhase work false .lin i).taps.length),
    (firToPhase work false .lin i).taps[k] = (firToPhase work false .lin i).taps[i.len - 1 - k] := by
  intro h1 h2
  rw [firToPhase_getElem, firToPhase_getElem]
  unfold srcIndex selWindow
  simp only [Bool.false_eq_true, if_false]
  by_cases hc : k ≤ i.len / 2
  · have e1 : (i.peak : Int) - ((i.len / 2 : Nat) : Int) + (k : Int) + i.workLen = (i.peak : Int) - ((i.len / 2 - k : Nat) : Int) + i.workLen := by omega
    have e2 : (i.peak : Int) - ((i.len / 2 : Nat) : Int) + ((i.len - 1 - k : Nat) : Int) + i.workLen = (i.peak : Int) + ((i.len / 2 - k : Nat) : Int) + i.workLen := by omega
    rw [e1, e2]
    exact (hsym (i.len / 2 - k) (by omega)).symm
  · have e1 : (i.peak : Int) - ((i.len / 2 : Nat) : Int) + (k : Int) + i.workLen = (i.peak : Int) + ((k - i.len / 2 : Nat) : Int) + i.workLen := by omega
    have e2 : (i.peak : Int) - ((i.len / 2 : Nat) : Int) + ((i.len - 1 - k : Nat) : Int) + i.workLen = (i.peak : Int) - ((k - i.len / 2 : Nat) : Int) + i.workLen := by omega
    rw [e1, e2]
    exact hsym (k - i.len / 2) (by omega)

/-! ## `lsx_fir_to_phase` at a phase `n/d` (proofs kept here, under this file's own simp set) -/

theorem at_mirror_length {α : Type} (cep : Cep α) (d n : Nat) (h : n ≤ 100 * d) :
    (firToPhaseAt cep d (100 * d - n)).taps.length = (firToPhaseAt cep d n).taps.length := by
  unfold firToPhaseAt
  rw [fold_mirror d n h, cls_mirror d n h]
  simp

theorem at_linear_centred {α : Type} (cep : Cep α) (d : Nat) (hd : 0 < d) (hl : 1 ≤ (cep.sel (50 * d)).len) :
    (firToPhaseAt cep d (50 * d)).taps.length = (cep.sel (50 * d)).len ∧
    (firToPhaseAt cep d (50 * d)).postLen = (((cep.sel (50 * d)).len - 1) / 2 : Nat) := by
  have hc : cls d (50 * d) = .lin := (cls_lin_iff d (50 * d) hd (by omega)).mpr rfl
  have hf : fold d (50 * d) = 50 * d := by unfold fold; simp
  have hg : gt50 d (50 * d) = false := by unfold gt50; simp
  unfold firToPhaseAt
  rw [hc, hf, hg]
  refine ⟨by simp [selWindow], ?_⟩
  exact postLen_lin _ hl

theorem at_extreme_phase_window {α : Type} (cep : Cep α) (d : Nat) (hd : 0 < d) :
    (firToPhaseAt cep d 0).taps.length = (cep.sel 0).len ∧
    (firToPhaseAt cep d (100 * d)).taps.length = (cep.sel 0).len ∧
    (firToPhaseAt cep d 0).postLen = ((cep.sel 0).len : Int) - 1 - (cep.sel 0).peak ∧
    (firToPhaseAt cep d (100 * d)).postLen = (cep.sel 0).peak := by
  have f0 : fold d 0 = 0 := by unfold fold; simp
  have f1 : fold d (100 * d) = 0 := by unfold fold; split <;> omega
  have c0 : cls d 0 = .min := by unfold cls; simp [f0]
  have c1 : cls d (100 * d) = .min := by unfold cls; simp [f1]
  have g0 : gt50 d 0 = false := by unfold gt50; simp
  have g1 : gt50 d (100 * d) = true := by unfold gt50; simp; omega
  unfold firToPhaseAt
  rw [f0, f1, c0, c1, g0, g1]
  refine ⟨by simp [selWindow], by simp [selWindow], ?_, ?_⟩
  · simp [firToPhase, postLen, selWindow]; omega
  · simp [firToPhase, postLen, selWindow]

theorem at_transformed_length_mod4 {α : Type} (cep : Cep α) (d n : Nat) (h : (cep.sel (fold d n)).len % 4 = 1) :
    (firToPhaseAt cep d n).taps.length % 4 = 1 := by
  unfold firToPhaseAt; simp; exact selWindow_len_mod4 _ _ h

/-! ## `lsx_make_lpf` -/

/-- state of the array after iterations `0 … k-1`: exactly the taps `j < k` and `j > m - k` are written,
    tap `j` with the value computed for `min j (m - j)` -/
def LpfInv {α : Type} (f : Nat → α) (m k : Nat) (h : Nat → Option α) : Prop :=
  ∀ j, h j = if j < k ∨ (m - k < j ∧ j ≤ m) then some (f (min j (m - j))) else none

theorem lpfStep_inv {α : Type} (f : Nat → α) (m k : Nat) (h : Nat → Option α) (hk : k ≤ m / 2)
    (hi : LpfInv f m k h) : LpfInv f m (k + 1) (lpfStep f m h k) := by
  intro j
  have hj := hi j
  unfold lpfStep
  by_cases hne : m - k ≠ k
  · simp only [hne, ne_eq, not_false_eq_true, if_true]
    by_cases j1 : j = m - k
    · subst j1
      have : min (m - k) (m - (m - k)) = k := by omega
      simp [this]
      omega
    · by_cases j2 : j = k
      · subst j2
        have : min j (m - j) = j := by omega
        simp [j1, this]
      · simp only [j1, j2, if_false]
        rw [hj]
        by_cases c : j < k ∨ (m - k < j ∧ j ≤ m)
        · have c' : j < k + 1 ∨ (m - (k + 1) < j ∧ j ≤ m) := by omega
          simp [c, c']
        · have c' : ¬ (j < k + 1 ∨ (m - (k + 1) < j ∧ j ≤ m)) := by omega
          simp [c, c']
  · have hne' : m - k = k := by omega
    simp only [hne', ne_eq, not_true_eq_false, if_false]
    by_cases j2 : j = k
    · subst j2
      have : min j (m - j) = j := by omega
      simp [this]
    · simp only [j2, if_false]
      rw [hj]
      by_cases c : j < k ∨ (m - k < j ∧ j ≤ m)
      · have c' : j < k + 1 ∨ (m - (k + 1) < j ∧ j ≤ m) := by omega
        simp [c, c']
      · have c' : ¬ (j < k + 1 ∨ (m - (k + 1) < j ∧ j ≤ m)) := by omega
        simp [c, c']

theorem lpf_fold_inv {α : Type} (f : Nat → α) (m : Nat) :
    ∀ k, k ≤ m / 2 + 1 → LpfInv f m k ((List.range k).foldl (lpfStep f m) (fun _ => none)) := by
  intro k
  induction k with
  | zero =>
    intro _ j
    simp
  | succ k ih =>
    intro hk
    rw [List.range_succ, List.foldl_append]
    simp only [List.foldl_cons, List.foldl_nil]
    exact lpfStep_inv f m k _ (by omega) (ih (by omega))

/-- every tap of `lsx_make_lpf` is written, tap `j` with the value of index `min j (m - j)` -/
theorem makeLpf_spec {α : Type} (f : Nat → α) (n j : Nat) (hn : 1 ≤ n) (hj : j < n) :
    makeLpf f n j = some (f (min j (n - 1 - j))) := by
  unfold makeLpf
  have h := lpf_fold_inv f (n - 1) ((n - 1) / 2 + 1) (Nat.le_refl _) j
  rw [h]
  have c : j < (n - 1) / 2 + 1 ∨ (n - 1 - ((n - 1) / 2 + 1) < j ∧ j ≤ n - 1) := by omega
  simp [c]

/-! ## length rounding and `dft_stage_init` -/

theorem isPow2L_spec (x : Nat) (h : isPow2L x = true) : ∃ a, 1 ≤ a ∧ x = 2 ^ a := by
  unfold isPow2L at h
  simp only [Bool.and_eq_true, decide_eq_true_eq, beq_iff_eq] at h
  refine ⟨x.log2, ?_, h.2.symm⟩
  have h2 := h.2
  by_cases c : x.log2 = 0
  · rw [c] at h2; omega
  · omega

theorem isPow2L_pow (a : Nat) (h : 1 ≤ a) : isPow2L (2 ^ a) = true := by
  unfold isPow2L
  have h1 : 2 ≤ 2 ^ a := by
    calc 2 = 2 ^ 1 := rfl
      _ ≤ 2 ^ a := Nat.pow_le_pow_right (by omega) h
  simp [h1]

theorem pow2_dvd_of_le (a b : Nat) (h : 2 ^ a ≤ 2 ^ b) : 2 ^ a ∣ 2 ^ b := by
  have : a ≤ b := (Nat.pow_le_pow_iff_right (by omega : 1 < 2)).mp h
  exact Nat.pow_dvd_pow 2 this

theorem roundTaps_form (n k : Nat) : roundTaps n k = (n + k - 2) / k * k + 1 := rfl

/-- the designed length is `≡ 1 (mod k)` -/
theorem roundTaps_mod (n k : Nat) : (roundTaps n k - 1) % k = 0 := by
  unfold roundTaps
  simp [Nat.mul_mod_left]

/-- … and not shorter than the estimate -/
theorem roundTaps_ge (n k : Nat) (_hn : 1 ≤ n) (hk : 0 < k) : n ≤ roundTaps n k := by
  unfold roundTaps
  have h := Nat.div_add_mod (n + k - 2) k
  have h2 := Nat.mod_lt (n + k - 2) hk
  have : k * ((n + k - 2) / k) = (n + k - 2) / k * k := Nat.mul_comm _ _
  omega

theorem roundTaps_pos (n k : Nat) : 1 ≤ roundTaps n k := by unfold roundTaps; omega

/-! ### `dft_stage_init` -/

@[simp] theorem dft_L (i : DftIn) : (dftStageInit i).L = i.L := rfl
theorem dft_dftLen (i : DftIn) : (dftStageInit i).dftLen = finalDftLen i.L i.dftLen := rfl
theorem dft_blockLen (i : DftIn) : (dftStageInit i).blockLen = (dftStageInit i).dftLen - ((dftStageInit i).numTaps - 1) := rfl
theorem dft_preload (i : DftIn) : (dftStageInit i).preload = (dftStageInit i).postPeak / i.L := rfl
theorem dft_clk (i : DftIn) : (dftStageInit i).clk = (dftStageInit i).postPeak % i.L := rfl
theorem dft_isz (i : DftIn) : (dftStageInit i).isz = ((dftStageInit i).dftLen - (dftStageInit i).clk + i.L - 1) / i.L := rfl

/-! ### the padding loop `while (dft_length < 32 * L) dft_length <<= 1` -/

/-- the loop only doubles -/
theorem padDft_form (L : Nat) : ∀ fuel D, ∃ j, padDft L fuel D = D * 2 ^ j := by
  intro fuel
  induction fuel with
  | zero => intro D; exact ⟨0, by simp [padDft]⟩
  | succ f ih =>
    intro D
    unfold padDft
    split
    · obtain ⟨j, hj⟩ := ih (2 * D)
      exact ⟨j + 1, by rw [hj, Nat.pow_succ]; rw [Nat.mul_comm 2 D, Nat.mul_assoc, Nat.mul_comm 2 (2 ^ j)]⟩
    · exact ⟨0, by simp⟩

/-- nothing happens when the length is already `≥ 32·L` -/
theorem padDft_id (L fuel D : Nat) (h : 32 * L ≤ D) : padDft L fuel D = D := by
  cases fuel with
  | zero => rfl
  | succ f => unfold padDft; rw [if_neg (by omega)]

/-- with enough fuel the loop ends at `≥ 32·L` (every doubling of a length `≥ 1` gains at least 1) -/
theorem padDft_ge (L : Nat) : ∀ fuel D, 1 ≤ D → 32 * L ≤ fuel + D → 32 * L ≤ padDft L fuel D := by
  intro fuel
  induction fuel with
  | zero => intro D _ h; simpa [padDft] using h
  | succ f ih =>
    intro D hD h
    unfold padDft
    split
    · exact ih (2 * D) (by omega) (by omega)
    · omega

theorem finalDftLen_ge (L D : Nat) (hp : isPow2L L = true) (hD : 1 ≤ D) : 32 * L ≤ finalDftLen L D := by
  unfold finalDftLen; rw [if_pos hp]; exact padDft_ge L (32 * L) D hD (by omega)

/-- a power of two stays a power of two -/
theorem finalDftLen_pow2 (L b : Nat) : ∃ c, finalDftLen L (2 ^ b) = 2 ^ c := by
  unfold finalDftLen
  split
  · obtain ⟨j, hj⟩ := padDft_form L (32 * L) (2 ^ b)
    exact ⟨b + j, by rw [hj, Nat.pow_add]⟩
  · exact ⟨b, rfl⟩

theorem finalDftLen_id (L D : Nat) (h : 32 * L ≤ D) : finalDftLen L D = D := by
  unfold finalDftLen; split
  · exact padDft_id L _ D h
  · rfl

/-- latency bookkeeping, every phase: `post_peak = L·preload + at`, `at < L` -/
theorem dft_latency (i : DftIn) (hL : 0 < i.L) :
    (dftStageInit i).postPeak = i.L * (dftStageInit i).preload + (dftStageInit i).clk ∧ (dftStageInit i).clk < i.L := by
  rw [dft_preload, dft_clk]
  exact ⟨(Nat.div_add_mod _ _).symm, Nat.mod_lt _ hL⟩

theorem dft_lin_numTaps (i : DftIn) (hl : i.lin = true) :
    (dftStageInit i).numTaps = roundTaps i.nRaw (designK true i.L i.fnEqL) ∧
    (dftStageInit i).postPeak = roundTaps i.nRaw (designK true i.L i.fnEqL) / 2 := by
  simp [dftStageInit, dftStageInitWith, hl]

theorem dft_nonlin (i : DftIn) (hl : i.lin = false) :
    (dftStageInit i).numTaps = i.tpLen + tapPad i.L i.tpLen ∧ (dftStageInit i).postPeak = i.tpPost + tapPad i.L i.tpLen ∧
    (dftStageInit i).padTaps = tapPad i.L i.tpLen ∧ (dftStageInit i).k = 4 ∧
    (dftStageInit i).nDesign = roundTaps i.nRaw 4 := by
  simp [dftStageInit, dftStageInitWith, hl, designK]

/-- before the repair: the transformed length and peak position are used as they come -/
theorem dftPre_nonlin (i : DftIn) (hl : i.lin = false) :
    (dftStageInitPreF1 i).numTaps = i.tpLen ∧ (dftStageInitPreF1 i).postPeak = i.tpPost := by
  simp [dftStageInitPreF1, dftStageInitWith, hl]

/-- the tap padding makes `L ∣ num_taps - 1` -/
theorem tapPad_dvd (L n : Nat) (hp : isPow2L L = true) (hn : 1 ≤ n) : L ∣ (n + tapPad L n) - 1 := by
  unfold tapPad
  rw [hp, Bool.true_and]
  by_cases h : (n - 1) % L = 0
  · simp [h]
    exact Nat.dvd_of_mod_eq_zero h
  · have hb : ((n - 1) % L != 0) = true := by simp [h]
    rw [if_pos hb]
    have hL : 0 < L := by
      rcases Nat.eq_zero_or_pos L with h0 | h0
      · subst h0; simp [isPow2L] at hp
      · exact h0
    have hlt := Nat.mod_lt (n - 1) hL
    have hdm := Nat.div_add_mod (n - 1) L
    refine ⟨(n - 1) / L + 1, ?_⟩
    rw [Nat.mul_add, Nat.mul_one]
    omega

/-- … adds less than `L` taps, and nothing when `L` already divides -/
theorem tapPad_lt (L n : Nat) (hL : 0 < L) : tapPad L n < L := by
  unfold tapPad
  split
  · rename_i h
    simp only [Bool.and_eq_true, bne_iff_ne, ne_eq] at h
    have := Nat.mod_lt (n - 1) hL
    omega
  · exact hL

theorem tapPad_zero_of_dvd (L n : Nat) (h : (n - 1) % L = 0) : tapPad L n = 0 := by
  unfold tapPad; simp [h]

/-- linear phase, power-of-two `L`, `Fn == L`: the length is `2·L·q + 1` -/
theorem dft_lin_form (i : DftIn) (hl : i.lin = true) (hp : isPow2L i.L = true) (hf : i.fnEqL = true) :
    ∃ q, (dftStageInit i).numTaps = 2 * i.L * q + 1 ∧ (dftStageInit i).postPeak = i.L * q := by
  obtain ⟨h1, h2⟩ := dft_lin_numTaps i hl
  have hk : designK true i.L i.fnEqL = 2 * i.L := by simp [designK, hp, hf]
  rw [hk] at h1 h2
  refine ⟨(i.nRaw + 2 * i.L - 2) / (2 * i.L), ?_, ?_⟩
  · rw [h1, roundTaps_form, Nat.mul_comm]
  · rw [h2, roundTaps_form]
    have : (i.nRaw + 2 * i.L - 2) / (2 * i.L) * (2 * i.L) = 2 * (i.L * ((i.nRaw + 2 * i.L - 2) / (2 * i.L))) := by
      rw [Nat.mul_comm, Nat.mul_assoc]
    rw [this]; omega

/-- the block-alignment clause for every phase response (stated in `Properties/C14.lean` as `block_aligned_all_phases`) -/
theorem dft_block_aligned (i : DftIn) (hp : isPow2L i.L = true) (b : Nat) (hD : i.dftLen = 2 ^ b)
    (hlin : i.lin = true → i.fnEqL = true ∨ i.L ∣ 4) (hnl : i.lin = false → 1 ≤ i.tpLen) :
    FDomainOK (dftStageInit i) ∧ i.L ∣ (dftStageInit i).blockLen ∧ i.L ∣ (dftStageInit i).numTaps - 1 ∧
    32 * i.L ≤ (dftStageInit i).dftLen := by
  obtain ⟨a, _, ha⟩ := isPow2L_spec i.L hp
  have hge : 32 * i.L ≤ finalDftLen i.L i.dftLen :=
    finalDftLen_ge i.L i.dftLen hp (by rw [hD]; exact Nat.pow_pos (by omega))
  obtain ⟨c, hc⟩ := finalDftLen_pow2 i.L b
  rw [← hD] at hc
  have hdvdD : i.L ∣ finalDftLen i.L i.dftLen := by
    rw [hc]
    have : i.L ≤ 2 ^ c := by rw [← hc]; omega
    rw [ha] at this ⊢
    exact pow2_dvd_of_le a c this
  have htaps : i.L ∣ (dftStageInit i).numTaps - 1 := by
    cases hl : i.lin
    · rw [(dft_nonlin i hl).1]; exact tapPad_dvd i.L i.tpLen hp (hnl hl)
    · rw [(dft_lin_numTaps i hl).1]
      have hk : i.L ∣ designK true i.L i.fnEqL := by
        unfold designK
        rcases hlin hl with hf | h4
        · rw [if_pos (by simp [hp, hf])]; exact Nat.dvd_mul_left _ _
        · split
          · exact ⟨2, by omega⟩
          · exact h4
      have hm := roundTaps_mod i.nRaw (designK true i.L i.fnEqL)
      exact Nat.dvd_trans hk (Nat.dvd_of_mod_eq_zero hm)
  have hbl : i.L ∣ (dftStageInit i).blockLen := by
    rw [dft_blockLen, dft_dftLen]; exact Nat.dvd_sub hdvdD htaps
  exact ⟨fun _ => by rw [dft_L]; exact hbl, hbl, htaps, by rw [dft_dftLen]; exact hge⟩

end Soxr.Phase
