import SoxrModel.Cr.Wf
import SoxrModel.Phase.Lemmas
/-!
# From `dft_stage_init` (Phase model) to a stage of the count model (`Cr/Model.lean`)

`toStage` is what `_soxr_init` does with the stage after `dft_stage_init`: the FIFO is pre-loaded with `preload` zeros,
`at.integer`, `input_size`, `remM = 0`.  The count model never looks at `post_peak` itself: the phase setting reaches
it only through the initial occupancy `preload`, the initial clock `at` and `num_taps`.
-/
namespace Soxr.Phase
open Soxr.Cr

def toStage (o : DftOut) : Stage :=
  { cfg := { kind := .dft, L := o.L, dftLen := o.dftLen, numTaps := o.numTaps, M := o.step },
    st := { occ := o.preload, clk := o.clk, remM := 0, isz := o.isz } }

/-- the stage `dft_stage_init` leaves satisfies the count model's `StageWF` whatever `post_peak` the phase transform
    produced: the latency fields (`at < L`, `input_size`) hold by construction, the rest are the shape conditions. -/
theorem toStage_wf (i : DftIn) (hL : 0 < i.L) (h1 : 1 ≤ (dftStageInit i).numTaps)
    (h2 : (dftStageInit i).numTaps ≤ (dftStageInit i).dftLen) (h3 : i.L ≤ (dftStageInit i).blockLen)
    (h4 : dftOutOK (toStage (dftStageInit i)).cfg 0) : (toStage (dftStageInit i)).WF := by
  unfold Stage.WF StageWF
  show 0 < i.L ∧ 1 ≤ (dftStageInit i).numTaps ∧ (dftStageInit i).numTaps ≤ (dftStageInit i).dftLen ∧ (dftStageInit i).clk < i.L ∧
    i.L ≤ (dftStageInit i).dftLen - ((dftStageInit i).numTaps - 1) ∧
    (dftStageInit i).isz = ((dftStageInit i).dftLen - (dftStageInit i).clk + i.L - 1) / i.L ∧ _
  exact ⟨hL, h1, h2, (dft_latency i hL).2, h3, dft_isz i, h4⟩

/-- frames the frequency-domain path reads per block (`divd.quot`, `at` never changes on that path) -/
def fdQuot (L blockLen clk : Nat) : Nat := (blockLen + L - 1 - clk) / L

/-- a block yields `block_len` frames for `quot` frames read: the stage's rate is exactly `L` iff `L ∣ block_len` -/
theorem fd_rate_exact_iff (L bl clk : Nat) (hL : 0 < L) (hc : clk < L) : L * fdQuot L bl clk = bl ↔ L ∣ bl := by
  constructor
  · intro h; exact ⟨_, h.symm⟩
  · rintro ⟨t, rfl⟩
    unfold fdQuot
    have : L * t + L - 1 - clk = (L - 1 - clk) + L * t := by omega
    rw [this, Nat.add_mul_div_left _ _ hL, Nat.div_eq_of_lt (by omega), Nat.zero_add]

end Soxr.Phase
