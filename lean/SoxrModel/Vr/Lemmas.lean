import SoxrModel.Vr.Model
/-!
# Lemmas about the variable-rate skeleton (`Vr/Model.lean`)

* what each interpolator loop does to `step`, `step_step` and the clock;
* frame lemmas: which fields of `rate_t` each sub-function of `vr_process` can touch;
* the chunk (one iteration of the `while` loop of `vr_process`) as a transformer of the slew fields;
* generic induction principles for the `while` loop and for call sequences.
-/
namespace Soxr.Vr
variable {ρ : Type}

/-! ### Interpolator loops -/

theorem firU_spec (n : Nat) (s : Stream) :
    (firU s n).1.step = s.step + ((firU s n).2 : Int) * s.ss ∧ (firU s n).1.ss = s.ss ∧
    (firU s n).1.mult = s.mult ∧ (firU s n).1.sn = s.sn ∧ (firU s n).1.isD = s.isD ∧ (firU s n).1.len = s.len ∧
    (firU s n).2 ≤ n := by
  induction n generalizing s with
  | zero => simp [firU]
  | succ n ih =>
    unfold firU
    split
    · have h := ih { s with clk := s.clk + s.step, step := s.step + s.ss }
      simp only at h ⊢
      obtain ⟨h1, h2, h3, h4, h5, h6, h7⟩ := h
      refine ⟨?_, h2, h3, h4, h5, h6, by omega⟩
      rw [h1]; push_cast; rw [Int.add_mul]; omega
    · simp

theorem fadeUIter_spec (n : Nat) (s : Stream) :
    (fadeUIter s n).1.step = s.step + ((fadeUIter s n).2 : Int) * s.ss ∧ (fadeUIter s n).1.ss = s.ss ∧
    (fadeUIter s n).1.mult = s.mult ∧ (fadeUIter s n).1.sn = s.sn ∧ (fadeUIter s n).1.isD = s.isD ∧
    (fadeUIter s n).1.len = s.len ∧ (fadeUIter s n).2 ≤ n := by
  induction n generalizing s with
  | zero => simp [fadeUIter]
  | succ n ih =>
    unfold fadeUIter
    split
    · have h := ih { s with clk := s.clk + s.step, step := s.step + s.ss }
      simp only at h ⊢
      obtain ⟨h1, h2, h3, h4, h5, h6, h7⟩ := h
      refine ⟨?_, h2, h3, h4, h5, h6, by omega⟩
      rw [h1]; push_cast; rw [Int.add_mul]; omega
    · simp

theorem firDPairs_spec (n : Nat) (s : Stream) :
    (firDPairs s n).1.step = s.step + ((firDPairs s n).2 : Int) * s.ss ∧ (firDPairs s n).1.ss = s.ss ∧
    (firDPairs s n).1.mult = s.mult ∧ (firDPairs s n).1.sn = s.sn ∧ (firDPairs s n).1.isD = s.isD ∧
    (firDPairs s n).1.len = s.len ∧ (firDPairs s n).2 ≤ n := by
  induction n generalizing s with
  | zero => simp [firDPairs]
  | succ n ih =>
    unfold firDPairs
    split
    · dsimp only
      split
      · have h := ih { s with clk := s.clk + s.step + s.step, step := s.step + s.ss }
        simp only at h ⊢
        obtain ⟨h1, h2, h3, h4, h5, h6, h7⟩ := h
        refine ⟨?_, h2, h3, h4, h5, h6, by omega⟩
        rw [h1]; push_cast; rw [Int.add_mul]; omega
      · simp
    · simp

/-- `poly_fir_d`: an even count `2k`, `k` pairs, `step` advanced `k` times. -/
theorem firD_spec (s : Stream) (olen : Nat) :
    ∃ k : Nat, (firD s olen).2 = 2 * k ∧ k ≤ (olen + 1) / 2 ∧
      (firD s olen).1.step = s.step + (k : Int) * s.ss ∧ (firD s olen).1.ss = s.ss ∧
      (firD s olen).1.mult = s.mult ∧ (firD s olen).1.sn = s.sn ∧ (firD s olen).1.isD = s.isD ∧
      (firD s olen).1.len = s.len := by
  obtain ⟨h1, h2, h3, h4, h5, h6, h7⟩ := firDPairs_spec ((olen + 1) / 2) s
  exact ⟨(firDPairs s ((olen + 1) / 2)).2, rfl, h7, h1, h2, h3, h4, h5, h6⟩

/-- `poly_fir_fade_u`: an even count `2k`, `step` advanced `k` times. -/
theorem fadeU_spec (s : Stream) (olen : Nat) :
    ∃ k : Nat, (fadeU s olen).2 = 2 * k ∧ k ≤ (olen + 1) / 2 ∧
      (fadeU s olen).1.step = s.step + (k : Int) * s.ss ∧ (fadeU s olen).1.ss = s.ss ∧
      (fadeU s olen).1.mult = s.mult ∧ (fadeU s olen).1.sn = s.sn ∧ (fadeU s olen).1.isD = s.isD ∧
      (fadeU s olen).1.len = s.len := by
  obtain ⟨h1, h2, h3, h4, h5, h6, h7⟩ := fadeUIter_spec ((olen + 1) / 2) s
  exact ⟨(fadeUIter s ((olen + 1) / 2)).2, rfl, h7, h1, h2, h3, h4, h5, h6⟩

/-! ### Frame lemmas: the FIFO bookkeeping never touches the clock / slew fields -/

/-- the fields of `rate_t` that the FIFO bookkeeping (`do_input_stage`, `fifo_read`) never writes -/
structure Ctl (ρ : Type) where
  slew : Int
  newR : Option ρ
  defR : Option ρ
  fade : Int
  fl : Int
  ns : Nat
  ns0 : Nat
  inc : Bool
  oocc : Int
  cur : Stream
  fo : Stream

def St.ctl (s : St ρ) : Ctl ρ :=
  { slew := s.slew, newR := s.newR, defR := s.defR, fade := s.fade, fl := s.fl, ns := s.ns, ns0 := s.ns0, inc := s.inc,
    oocc := s.oocc, cur := s.cur, fo := s.fo }

theorem setStg_ctl (s : St ρ) (i : Int) (x : Stage) : (s.setStg i x).ctl = s.ctl := rfl

theorem doInput_ctl (s : St ρ) (sn sign m : Int) : (doInput s sn sign m).1.ctl = s.ctl := by
  unfold doInput
  dsimp only
  split <;> rfl

theorem inputStages_ctl (js : List Int) (s : St ρ) (mn : Int) : (inputStages s mn js).ctl = s.ctl := by
  induction js generalizing s with
  | nil => rfl
  | cons j js ih =>
    unfold inputStages
    split
    · exact ih s
    · dsimp only
      generalize (if j < 0 then (-1 : Int) else 1) = sg
      split
      · rw [ih, doInput_ctl]
      · rw [doInput_ctl]

theorem readStages_ctl (n : Nat) (s : St ρ) (i idone : Int) : (readStages s i idone n).ctl = s.ctl := by
  induction n generalizing s i idone with
  | zero => rfl
  | succ n ih => unfold readStages; dsimp only; rw [ih, setStg_ctl]

theorem switchFifoA_ctl (s : St ρ) (dif : Int) : (switchFifoA s dif).ctl = s.ctl := by
  unfold switchFifoA
  split
  · dsimp only; rw [doInput_ctl, setStg_ctl]
  · rfl

theorem switchFifoB_ctl (s : St ρ) (dif : Int) : (switchFifoB s dif).ctl = s.ctl := by
  unfold switchFifoB
  split
  · dsimp only; rw [doInput_ctl, setStg_ctl]
  · rfl

/-! ### One chunk of `vr_process` -/

/-- the two cross-faded streams: the first count is even (`2·k1`, `k1` output frames), the current stream's `step`
    advances `kc` times, and `kc = k1` when the C `assert(odone == odone2)` holds. -/
theorem fadeStreams_spec (c f : Stream) (n : Nat) :
    ∃ k1 kc kf : Nat, (fadeStreams c f n).2.2.1 = 2 * k1 ∧ k1 ≤ (n + 1) / 2 ∧
      (fadeStreams c f n).1.step = c.step + (kc : Int) * c.ss ∧ (fadeStreams c f n).1.ss = c.ss ∧
      (fadeStreams c f n).1.mult = c.mult ∧ (fadeStreams c f n).1.sn = c.sn ∧ (fadeStreams c f n).1.isD = c.isD ∧
      (fadeStreams c f n).2.1.step = f.step + (kf : Int) * f.ss ∧ (fadeStreams c f n).2.1.ss = f.ss ∧
      (fadeStreams c f n).2.1.mult = f.mult ∧ (fadeStreams c f n).2.1.sn = f.sn ∧ (fadeStreams c f n).2.1.isD = f.isD ∧
      ((fadeStreams c f n).2.2.1 = (fadeStreams c f n).2.2.2 → kc = k1) := by
  unfold fadeStreams
  split
  · obtain ⟨k, e, hk, h1, h2, h3, h4, h5, _⟩ := firD_spec c n
    obtain ⟨k', _, _, g1, g2, g3, g4, g5, _⟩ := firD_spec f (firD c n).2
    exact ⟨k, k, k', e, hk, h1, h2, h3, h4, h5, g1, g2, g3, g4, g5, fun _ => rfl⟩
  · split
    · obtain ⟨k, e, hk, h1, h2, h3, h4, h5, _⟩ := firD_spec c n
      obtain ⟨k', _, _, g1, g2, g3, g4, g5, _⟩ := fadeU_spec f (firD c n).2
      exact ⟨k, k, k', e, hk, h1, h2, h3, h4, h5, g1, g2, g3, g4, g5, fun _ => rfl⟩
    · obtain ⟨k, e, hk, h1, h2, h3, h4, h5, _⟩ := firD_spec f n
      obtain ⟨k', e', _, g1, g2, g3, g4, g5, _⟩ := fadeU_spec c (firD f n).2
      refine ⟨k, k', k, e, hk, g1, g2, g3, g4, g5, h1, h2, h3, h4, h5, fun h => ?_⟩
      dsimp only at h
      omega

/-- what the interpolation part of a chunk does to the clock / slew fields. -/
theorem kernels_spec (s : St ρ) (olen mn mx : Int) :
    (kernels s olen mn mx).st.slew = s.slew ∧ (kernels s olen mn mx).st.newR = s.newR ∧
    (kernels s olen mn mx).st.defR = s.defR ∧ (kernels s olen mn mx).st.cur.ss = s.cur.ss ∧
    (kernels s olen mn mx).st.cur.mult = s.cur.mult ∧ (kernels s olen mn mx).st.cur.sn = s.cur.sn ∧
    (kernels s olen mn mx).st.cur.isD = s.cur.isD ∧ (kernels s olen mn mx).st.fo.ss = s.fo.ss ∧
    (kernels s olen mn mx).st.ns = s.ns ∧
    (∃ kc : Nat, (kernels s olen mn mx).st.cur.step = s.cur.step + (kc : Int) * s.cur.ss ∧
        ((kernels s olen mn mx).mis = false → kc = (kernels s olen mn mx).od)) ∧
    ((kernels s olen mn mx).od : Int) ≤ max olen 0 := by
  unfold kernels
  split
  · obtain ⟨k1, kc, kf, e, hk, h1, h2, h3, h4, h5, g1, g2, g3, g4, g5, hm⟩ :=
      fadeStreams_spec s.cur s.fo (2 * min olen (s.fade / 2)).toNat
    dsimp only
    refine ⟨rfl, rfl, rfl, h2, h3, h4, h5, g2, rfl, ⟨kc, h1, fun hmis => ?_⟩, ?_⟩
    · rw [e]
      have : kc = k1 := hm (by simpa using hmis)
      omega
    · rw [e]; omega
  · split
    · obtain ⟨k, e, hk, h1, h2, h3, h4, h5, _⟩ := firD_spec s.cur (2 * olen).toNat
      dsimp only
      refine ⟨rfl, rfl, rfl, h2, h3, h4, h5, rfl, rfl, ⟨k, h1, fun _ => ?_⟩, ?_⟩
      · rw [e]; omega
      · rw [e]; omega
    · obtain ⟨h1, h2, h3, h4, h5, _, h7⟩ := firU_spec olen.toNat s.cur
      dsimp only
      exact ⟨rfl, rfl, rfl, h2, h3, h4, h5, rfl, rfl, ⟨_, h1, fun _ => rfl⟩, by omega⟩

/-! ### The snap, the stage switch, and one whole chunk -/

theorem chunkStart_slewing (cfg : Cfg ρ) (s : St ρ) (rem : Nat) (h : s.slew ≠ 0) :
    chunkStart cfg s rem = (s, min (min (rem : Int) (chunkMax : Int)) s.slew) := by
  simp [chunkStart, h]

theorem chunkStart_pending (cfg : Cfg ρ) (s : St ρ) (rem : Nat) (r : ρ) (h : s.slew = 0) (hr : s.newR = some r) :
    chunkStart cfg s rem =
      ({ s with cur := { setStep cfg s.cur r with ss := 0 }, fo := { setStep cfg s.fo r with ss := 0 }, newR := none },
       min (rem : Int) (chunkMax : Int)) := by
  simp [chunkStart, h, hr]

theorem chunkStart_idle (cfg : Cfg ρ) (s : St ρ) (rem : Nat) (h : s.slew = 0) (hr : s.newR = none) :
    chunkStart cfg s rem = (s, min (rem : Int) (chunkMax : Int)) := by
  simp [chunkStart, h, hr]

theorem enter_ctl (s : St ρ) (occ0 : Int) : (enter s occ0).ctl = { s.ctl with cur := enterStream s.cur occ0 } := rfl

/-- the shift `vr_process` applies to `step` and `step_step` at a stage switch -/
def switchShift (s : St ρ) (dif : Int) : Int := -dif + (b2i s.cur.isD - b2i (decide (s.cur.sn + dif ≥ 0)))

/-- `switchStage`, field by field (lines 482–508). -/
theorem switchStage_spec (s : St ρ) (dif occ0 : Int) :
    (switchStage s dif occ0).slew = s.slew ∧ (switchStage s dif occ0).newR = s.newR ∧
    (switchStage s dif occ0).defR = s.defR ∧ (switchStage s dif occ0).ns = s.ns ∧
    (switchStage s dif occ0).fl = s.fl ∧
    (switchStage s dif occ0).fo = s.cur ∧ (switchStage s dif occ0).fade = fadeLen ∧
    (switchStage s dif occ0).inc = decide (dif > 0) ∧
    (switchStage s dif occ0).cur.sn = s.cur.sn + dif ∧
    (switchStage s dif occ0).cur.isD = decide (s.cur.sn + dif ≥ 0) ∧
    (switchStage s dif occ0).cur.mult =
      (if s.cur.sn + dif ≥ 0 then stageMult (s.cur.sn + dif) / 2 else stageMult (s.cur.sn + dif)) ∧
    (switchStage s dif occ0).cur.clk = lshift s.cur.clk (-dif) ∧
    (switchStage s dif occ0).cur.step = lshift s.cur.step (switchShift s dif) ∧
    (switchStage s dif occ0).cur.ss = lshift s.cur.ss (switchShift s dif) := by
  unfold switchStage
  dsimp only
  generalize hs2 : (if dif > 0 then ({ s with inc := decide (dif > 0), fo := s.cur, cur := { s.cur with sn := s.cur.sn + dif } } : St ρ)
      else { s with inc := decide (dif > 0), fo := s.cur, cur := { s.cur with sn := s.cur.sn + dif }, sw := s.cur.sn + dif }) = s2
  have h2 : s2.ctl = { s.ctl with inc := decide (dif > 0), fo := s.cur, cur := { s.cur with sn := s.cur.sn + dif } } := by
    subst hs2; split <;> rfl
  have h4 : (switchFifoB (switchFifoA s2 dif) dif).ctl = s2.ctl := by rw [switchFifoB_ctl, switchFifoA_ctl]
  generalize switchFifoB (switchFifoA s2 dif) dif = s4 at h4
  have h5 := enter_ctl s4 occ0
  have e4 : ∀ {α : Type} (f : Ctl ρ → α), f s4.ctl =
      f { s.ctl with inc := decide (dif > 0), fo := s.cur, cur := { s.cur with sn := s.cur.sn + dif } } := by
    intro α f; rw [h4, h2]
  have c4 : s4.cur = { s.cur with sn := s.cur.sn + dif } := e4 Ctl.cur
  generalize enter s4 occ0 = s5 at h5
  have e5 : ∀ {α : Type} (f : Ctl ρ → α), f s5.ctl = f { s4.ctl with cur := enterStream s4.cur occ0 } := by
    intro α f; rw [h5]
  have c5 : s5.cur = enterStream s4.cur occ0 := e5 Ctl.cur
  have f5 : s5.fo = s.cur := (e5 Ctl.fo).trans (e4 Ctl.fo)
  unfold rescale switchShift
  dsimp only
  rw [c5, c4, f5]
  unfold enterStream
  dsimp only
  refine ⟨?_, ?_, ?_, ?_, ?_, rfl, rfl, ?_, rfl, rfl, by simp, rfl, rfl, rfl⟩
  · exact (e5 Ctl.slew).trans (e4 Ctl.slew)
  · exact (e5 Ctl.newR).trans (e4 Ctl.newR)
  · exact (e5 Ctl.defR).trans (e4 Ctl.defR)
  · exact (e5 Ctl.ns).trans (e4 Ctl.ns)
  · exact (e5 Ctl.fl).trans (e4 Ctl.fl)
  · exact (e5 Ctl.inc).trans (e4 Ctl.inc)

/-- the state a chunk interpolates from: after the snap and after the stage switch, if any -/
def chunkBase (cfg : Cfg ρ) (occ0 : Int) (olen0 : Nat) (l : LoopSt ρ) : St ρ :=
  let a := chunkStart cfg l.st (olen0 - l.od0)
  if doesSwitch a.1 then switchStage a.1 (stageDif a.1) occ0 else a.1

/-- one chunk, as a transformer of the clock / slew fields.  `b` is the state after the snap and the stage switch;
    the chunk delivers `od` frames, `step` advances `kc` times (`kc = od` unless the C assertion
    `odone == odone2` fails in this chunk), `slew_len` falls by `od`. -/
theorem chunk_spec (cfg : Cfg ρ) (occ0 : Int) (olen0 : Nat) (l : LoopSt ρ) :
    let a := chunkStart cfg l.st (olen0 - l.od0)
    let b := chunkBase cfg occ0 olen0 l
    let r := (chunk cfg occ0 olen0 l).1
    r.nsw = l.nsw + (if doesSwitch a.1 then 1 else 0) ∧ l.nmis ≤ r.nmis ∧ l.od0 ≤ r.od0 ∧
    r.st.newR = b.newR ∧ r.st.defR = b.defR ∧ r.st.cur.ss = b.cur.ss ∧ r.st.cur.mult = b.cur.mult ∧ r.st.ns = b.ns ∧
    r.st.cur.sn = b.cur.sn ∧ r.st.cur.isD = b.cur.isD ∧
    (∃ kc : Nat, r.st.cur.step = b.cur.step + (kc : Int) * b.cur.ss ∧ (r.nmis = l.nmis → kc = r.od0 - l.od0)) ∧
    r.st.slew = (if b.slew ≠ 0 then b.slew - ((r.od0 - l.od0 : Nat) : Int) else b.slew) ∧
    ((r.od0 - l.od0 : Nat) : Int) ≤ max a.2 0 := by
  intro a b r
  have hk := kernels_spec b a.2 (chunkMn l (stageDif a.1))
    (chunkMx l (stageDif a.1) (decide (a.1.cur.sn + stageDif a.1 < a.1.ns)))
  generalize hK : kernels b a.2 (chunkMn l (stageDif a.1))
    (chunkMx l (stageDif a.1) (decide (a.1.cur.sn + stageDif a.1 < a.1.ns))) = K at hk
  have hr : r = chunkFinish l (doesSwitch a.1) K := by
    show (chunk cfg occ0 olen0 l).1 = _
    unfold chunk
    dsimp only
    rw [← hK]
    rfl
  unfold chunkFinish at hr
  obtain ⟨h1, h2, h3, h4, h5, h6, h7, h8, h9, ⟨kc, h10, h11⟩, h12⟩ := hk
  have hod : r.od0 - l.od0 = K.od := by rw [hr]; simp
  rw [hod]
  refine ⟨by rw [hr], by rw [hr]; simp, by rw [hr]; simp, ?_, ?_, ?_, ?_, ?_, ?_, ?_, ⟨kc, ?_, ?_⟩, ?_, h12⟩
  · rw [hr]; dsimp only; split <;> simp [h2]
  · rw [hr]; dsimp only; split <;> simp [h3]
  · rw [hr]; dsimp only; split <;> simp [h4]
  · rw [hr]; dsimp only; split <;> simp [h5]
  · rw [hr]; dsimp only; split <;> simp [h9]
  · rw [hr]; dsimp only; split <;> simp [h6]
  · rw [hr]; dsimp only; split <;> simp [h7]
  · rw [hr]; dsimp only; split <;> simp [h10]
  · intro hm
    apply h11
    rw [hr] at hm
    dsimp only at hm
    cases hK' : K.mis with
    | false => rfl
    | true => rw [hK'] at hm; simp at hm
  · rw [hr]; dsimp only; rw [h1]; split <;> simp_all

/-- induction over the `while` loop of `vr_process` -/
theorem loop_induct (cfg : Cfg ρ) (occ0 : Int) (olen0 : Nat) (P : LoopSt ρ → Prop)
    (hstep : ∀ l, P l → l.od0 < olen0 → P (chunk cfg occ0 olen0 l).1) :
    ∀ (f : Nat) (l : LoopSt ρ), P l → P (loop cfg occ0 olen0 f l) := by
  intro f
  induction f with
  | zero => intro l h; exact h
  | succ f ih =>
    intro l h
    unfold loop
    split
    · dsimp only
      split
      · exact ih _ (hstep l h ‹_›)
      · exact hstep l h ‹_›
    · exact h

end Soxr.Vr
