import SoxrModel.Vr.Model
/-!
# Lemmas about the variable-rate skeleton (`Vr/Model.lean`)

* what each interpolator loop does to `step`, `step_step` and the clock;
* frame lemmas: which fields of `rate_t` each sub-function of `vr_process` can touch;
* the chunk (one iteration of the `while` loop of `vr_process`) as a transformer of the slew fields;
* generic induction principles for the `while` loop and for call sequences.
-/
namespace Soxr.Vr
set_option linter.unusedSimpArgs false
variable {ρ : Type}

/-! ### Interpolator loops -/

theorem firU_spec (n : Nat) (s : Stream) :
    (firU s n).1.step = s.step + ((firU s n).2 : Int) * s.ss ∧ (firU s n).1.ss = s.ss ∧
    (firU s n).1.mult = s.mult ∧ (firU s n).1.sn = s.sn ∧ (firU s n).1.isD = s.isD ∧ (firU s n).1.len = s.len ∧
    (firU s n).2 ≤ n := by
  induction n generalizing s with
  | zero => simp [firU]
  | succ n ih =>
    unfold firU
    split
    · have h := ih { s with clk := s.clk + s.step, step := s.step + s.ss }
      simp only at h ⊢
      obtain ⟨h1, h2, h3, h4, h5, h6, h7⟩ := h
      refine ⟨?_, h2, h3, h4, h5, h6, by omega⟩
      rw [h1]; push_cast; rw [Int.add_mul]; omega
    · simp

theorem fadeUIter_spec (n : Nat) (s : Stream) :
    (fadeUIter s n).1.step = s.step + ((fadeUIter s n).2 : Int) * s.ss ∧ (fadeUIter s n).1.ss = s.ss ∧
    (fadeUIter s n).1.mult = s.mult ∧ (fadeUIter s n).1.sn = s.sn ∧ (fadeUIter s n).1.isD = s.isD ∧
    (fadeUIter s n).1.len = s.len ∧ (fadeUIter s n).2 ≤ n := by
  induction n generalizing s with
  | zero => simp [fadeUIter]
  | succ n ih =>
    unfold fadeUIter
    split
    · have h := ih { s with clk := s.clk + s.step, step := s.step + s.ss }
      simp only at h ⊢
      obtain ⟨h1, h2, h3, h4, h5, h6, h7⟩ := h
      refine ⟨?_, h2, h3, h4, h5, h6, by omega⟩
      rw [h1]; push_cast; rw [Int.add_mul]; omega
    · simp

theorem firDPairs_spec (n : Nat) (s : Stream) :
    (firDPairs s n).1.step = s.step + ((firDPairs s n).2 : Int) * s.ss ∧ (firDPairs s n).1.ss = s.ss ∧
    (firDPairs s n).1.mult = s.mult ∧ (firDPairs s n).1.sn = s.sn ∧ (firDPairs s n).1.isD = s.isD ∧
    (firDPairs s n).1.len = s.len ∧ (firDPairs s n).2 ≤ n := by
  induction n generalizing s with
  | zero => simp [firDPairs]
  | succ n ih =>
    unfold firDPairs
    split
    · dsimp only
      split
      · have h := ih { s with clk := s.clk + s.step + s.step, step := s.step + s.ss }
        simp only at h ⊢
        obtain ⟨h1, h2, h3, h4, h5, h6, h7⟩ := h
        refine ⟨?_, h2, h3, h4, h5, h6, by omega⟩
        rw [h1]; push_cast; rw [Int.add_mul]; omega
      · simp
    · simp

/-- `poly_fir_d`: an even count `2k`, `k` pairs, `step` advanced `k` times. -/
theorem firD_spec (s : Stream) (olen : Nat) :
    ∃ k : Nat, (firD s olen).2 = 2 * k ∧ k ≤ (olen + 1) / 2 ∧
      (firD s olen).1.step = s.step + (k : Int) * s.ss ∧ (firD s olen).1.ss = s.ss ∧
      (firD s olen).1.mult = s.mult ∧ (firD s olen).1.sn = s.sn ∧ (firD s olen).1.isD = s.isD ∧
      (firD s olen).1.len = s.len := by
  obtain ⟨h1, h2, h3, h4, h5, h6, h7⟩ := firDPairs_spec ((olen + 1) / 2) s
  exact ⟨(firDPairs s ((olen + 1) / 2)).2, rfl, h7, h1, h2, h3, h4, h5, h6⟩

/-- `poly_fir_fade_u`: an even count `2k`, `step` advanced `k` times. -/
theorem fadeU_spec (s : Stream) (olen : Nat) :
    ∃ k : Nat, (fadeU s olen).2 = 2 * k ∧ k ≤ (olen + 1) / 2 ∧
      (fadeU s olen).1.step = s.step + (k : Int) * s.ss ∧ (fadeU s olen).1.ss = s.ss ∧
      (fadeU s olen).1.mult = s.mult ∧ (fadeU s olen).1.sn = s.sn ∧ (fadeU s olen).1.isD = s.isD ∧
      (fadeU s olen).1.len = s.len := by
  obtain ⟨h1, h2, h3, h4, h5, h6, h7⟩ := fadeUIter_spec ((olen + 1) / 2) s
  exact ⟨(fadeUIter s ((olen + 1) / 2)).2, rfl, h7, h1, h2, h3, h4, h5, h6⟩

/-! ### Frame lemmas: the FIFO bookkeeping never touches the clock / slew fields -/

/-- the fields of `rate_t` that the FIFO bookkeeping (`do_input_stage`, `fifo_read`) never writes -/
structure Ctl (ρ : Type) where
  slew : Int
  newR : Option ρ
  defR : Option ρ
  fade : Int
  fl : Int
  ns : Nat
  ns0 : Nat
  inc : Bool
  oocc : Int
  cur : Stream
  fo : Stream

def St.ctl (s : St ρ) : Ctl ρ :=
  { slew := s.slew, newR := s.newR, defR := s.defR, fade := s.fade, fl := s.fl, ns := s.ns, ns0 := s.ns0, inc := s.inc,
    oocc := s.oocc, cur := s.cur, fo := s.fo }

theorem setStg_ctl (s : St ρ) (i : Int) (x : Stage) : (s.setStg i x).ctl = s.ctl := rfl

theorem doInput_ctl (s : St ρ) (sn sign m : Int) : (doInput s sn sign m).1.ctl = s.ctl := by
  unfold doInput
  dsimp only
  split <;> rfl

theorem inputStages_ctl (js : List Int) (s : St ρ) (mn : Int) : (inputStages s mn js).ctl = s.ctl := by
  induction js generalizing s with
  | nil => rfl
  | cons j js ih =>
    unfold inputStages
    split
    · exact ih s
    · dsimp only
      generalize (if j < 0 then (-1 : Int) else 1) = sg
      split
      · rw [ih, doInput_ctl]
      · rw [doInput_ctl]

theorem readStages_ctl (n : Nat) (s : St ρ) (i idone : Int) : (readStages s i idone n).ctl = s.ctl := by
  induction n generalizing s i idone with
  | zero => rfl
  | succ n ih => unfold readStages; dsimp only; rw [ih, setStg_ctl]

theorem switchFifoA_ctl (s : St ρ) (dif : Int) : (switchFifoA s dif).ctl = s.ctl := by
  unfold switchFifoA
  split
  · dsimp only; rw [doInput_ctl, setStg_ctl]
  · rfl

theorem switchFifoB_ctl (s : St ρ) (dif : Int) : (switchFifoB s dif).ctl = s.ctl := by
  unfold switchFifoB
  split
  · dsimp only; rw [doInput_ctl, setStg_ctl]
  · rfl

/-! ### One chunk of `vr_process` -/

/-- the two cross-faded streams: the first count is even (`2·k1`, `k1` output frames), the current stream's `step`
    advances `kc` times, and `kc = k1` when the C `assert(odone == odone2)` holds. -/
theorem fadeStreams_spec (c f : Stream) (n : Nat) :
    ∃ k1 kc kf : Nat, (fadeStreams c f n).2.2.1 = 2 * k1 ∧ k1 ≤ (n + 1) / 2 ∧
      (fadeStreams c f n).1.step = c.step + (kc : Int) * c.ss ∧ (fadeStreams c f n).1.ss = c.ss ∧
      (fadeStreams c f n).1.mult = c.mult ∧ (fadeStreams c f n).1.sn = c.sn ∧ (fadeStreams c f n).1.isD = c.isD ∧
      (fadeStreams c f n).2.1.step = f.step + (kf : Int) * f.ss ∧ (fadeStreams c f n).2.1.ss = f.ss ∧
      (fadeStreams c f n).2.1.mult = f.mult ∧ (fadeStreams c f n).2.1.sn = f.sn ∧ (fadeStreams c f n).2.1.isD = f.isD ∧
      ((fadeStreams c f n).2.2.1 = (fadeStreams c f n).2.2.2 → kc = k1) := by
  unfold fadeStreams
  split
  · obtain ⟨k, e, hk, h1, h2, h3, h4, h5, _⟩ := firD_spec c n
    obtain ⟨k', _, _, g1, g2, g3, g4, g5, _⟩ := firD_spec f (firD c n).2
    exact ⟨k, k, k', e, hk, h1, h2, h3, h4, h5, g1, g2, g3, g4, g5, fun _ => rfl⟩
  · split
    · obtain ⟨k, e, hk, h1, h2, h3, h4, h5, _⟩ := firD_spec c n
      obtain ⟨k', _, _, g1, g2, g3, g4, g5, _⟩ := fadeU_spec f (firD c n).2
      exact ⟨k, k, k', e, hk, h1, h2, h3, h4, h5, g1, g2, g3, g4, g5, fun _ => rfl⟩
    · obtain ⟨k, e, hk, h1, h2, h3, h4, h5, _⟩ := firD_spec f n
      obtain ⟨k', e', _, g1, g2, g3, g4, g5, _⟩ := fadeU_spec c (firD f n).2
      refine ⟨k, k', k, e, hk, g1, g2, g3, g4, g5, h1, h2, h3, h4, h5, fun h => ?_⟩
      dsimp only at h
      omega

/-- what the interpolation part of a chunk does to the clock / slew fields. -/
theorem kernels_spec (s : St ρ) (olen mn mx : Int) :
    (kernels s olen mn mx).st.slew = s.slew ∧ (kernels s olen mn mx).st.newR = s.newR ∧
    (kernels s olen mn mx).st.defR = s.defR ∧ (kernels s olen mn mx).st.cur.ss = s.cur.ss ∧
    (kernels s olen mn mx).st.cur.mult = s.cur.mult ∧ (kernels s olen mn mx).st.cur.sn = s.cur.sn ∧
    (kernels s olen mn mx).st.cur.isD = s.cur.isD ∧ (kernels s olen mn mx).st.fo.ss = s.fo.ss ∧
    (kernels s olen mn mx).st.ns = s.ns ∧
    (∃ kc : Nat, (kernels s olen mn mx).st.cur.step = s.cur.step + (kc : Int) * s.cur.ss ∧
        ((kernels s olen mn mx).mis = false → kc = (kernels s olen mn mx).od)) ∧
    ((kernels s olen mn mx).od : Int) ≤ max olen 0 := by
  unfold kernels
  split
  · obtain ⟨k1, kc, kf, e, hk, h1, h2, h3, h4, h5, g1, g2, g3, g4, g5, hm⟩ :=
      fadeStreams_spec s.cur s.fo (2 * min olen (s.fade / 2)).toNat
    dsimp only
    refine ⟨rfl, rfl, rfl, h2, h3, h4, h5, g2, rfl, ⟨kc, h1, fun hmis => ?_⟩, ?_⟩
    · rw [e]
      have : kc = k1 := hm (by simpa using hmis)
      omega
    · rw [e]; omega
  · split
    · obtain ⟨k, e, hk, h1, h2, h3, h4, h5, _⟩ := firD_spec s.cur (2 * olen).toNat
      dsimp only
      refine ⟨rfl, rfl, rfl, h2, h3, h4, h5, rfl, rfl, ⟨k, h1, fun _ => ?_⟩, ?_⟩
      · rw [e]; omega
      · rw [e]; omega
    · obtain ⟨h1, h2, h3, h4, h5, _, h7⟩ := firU_spec olen.toNat s.cur
      dsimp only
      exact ⟨rfl, rfl, rfl, h2, h3, h4, h5, rfl, rfl, ⟨_, h1, fun _ => rfl⟩, by omega⟩

/-! ### The snap, the stage switch, and one whole chunk -/

theorem chunkStart_slewing (cfg : Cfg ρ) (s : St ρ) (rem : Nat) (h : s.slew ≠ 0) :
    chunkStart cfg s rem = (s, min (min (rem : Int) (chunkMax : Int)) s.slew) := by
  simp [chunkStart, h]

theorem chunkStart_pending (cfg : Cfg ρ) (s : St ρ) (rem : Nat) (r : ρ) (h : s.slew = 0) (hr : s.newR = some r) :
    chunkStart cfg s rem =
      ({ s with cur := { setStep cfg s.cur r with ss := 0 }, fo := { setStep cfg s.fo r with ss := 0 }, newR := none },
       min (rem : Int) (chunkMax : Int)) := by
  simp [chunkStart, h, hr]

theorem chunkStart_idle (cfg : Cfg ρ) (s : St ρ) (rem : Nat) (h : s.slew = 0) (hr : s.newR = none) :
    chunkStart cfg s rem = (s, min (rem : Int) (chunkMax : Int)) := by
  simp [chunkStart, h, hr]

theorem enter_ctl (s : St ρ) (occ0 : Int) : (enter s occ0).ctl = { s.ctl with cur := enterStream s.cur occ0 } := rfl

/-- the shift `vr_process` applies to `step` and `step_step` at a stage switch -/
def switchShift (s : St ρ) (dif : Int) : Int := -dif + (b2i s.cur.isD - b2i (decide (s.cur.sn + dif ≥ 0)))

/-- `switchStage`, field by field (lines 482–508). -/
theorem switchStage_spec (s : St ρ) (dif occ0 : Int) :
    (switchStage s dif occ0).slew = s.slew ∧ (switchStage s dif occ0).newR = s.newR ∧
    (switchStage s dif occ0).defR = s.defR ∧ (switchStage s dif occ0).ns = s.ns ∧
    (switchStage s dif occ0).fl = s.fl ∧
    (switchStage s dif occ0).fo = s.cur ∧ (switchStage s dif occ0).fade = fadeLen ∧
    (switchStage s dif occ0).inc = decide (dif > 0) ∧
    (switchStage s dif occ0).cur.sn = s.cur.sn + dif ∧
    (switchStage s dif occ0).cur.isD = decide (s.cur.sn + dif ≥ 0) ∧
    (switchStage s dif occ0).cur.mult =
      (if s.cur.sn + dif ≥ 0 then stageMult (s.cur.sn + dif) / 2 else stageMult (s.cur.sn + dif)) ∧
    (switchStage s dif occ0).cur.clk = lshift s.cur.clk (-dif) ∧
    (switchStage s dif occ0).cur.step = lshift s.cur.step (switchShift s dif) ∧
    (switchStage s dif occ0).cur.ss = lshift s.cur.ss (switchShift s dif) := by
  unfold switchStage switchPrep
  dsimp only
  generalize hs2 : (if dif > 0 then ({ s with inc := decide (dif > 0), fo := s.cur, cur := { s.cur with sn := s.cur.sn + dif } } : St ρ)
      else { s with inc := decide (dif > 0), fo := s.cur, cur := { s.cur with sn := s.cur.sn + dif }, sw := s.cur.sn + dif }) = s2
  have h2 : s2.ctl = { s.ctl with inc := decide (dif > 0), fo := s.cur, cur := { s.cur with sn := s.cur.sn + dif } } := by
    subst hs2; split <;> rfl
  have h4 : (switchFifoB (switchFifoA s2 dif) dif).ctl = s2.ctl := by rw [switchFifoB_ctl, switchFifoA_ctl]
  generalize switchFifoB (switchFifoA s2 dif) dif = s4 at h4
  have h5 := enter_ctl s4 occ0
  have e4 : ∀ {α : Type} (f : Ctl ρ → α), f s4.ctl =
      f { s.ctl with inc := decide (dif > 0), fo := s.cur, cur := { s.cur with sn := s.cur.sn + dif } } := by
    intro α f; rw [h4, h2]
  have c4 : s4.cur = { s.cur with sn := s.cur.sn + dif } := e4 Ctl.cur
  generalize enter s4 occ0 = s5 at h5
  have e5 : ∀ {α : Type} (f : Ctl ρ → α), f s5.ctl = f { s4.ctl with cur := enterStream s4.cur occ0 } := by
    intro α f; rw [h5]
  have c5 : s5.cur = enterStream s4.cur occ0 := e5 Ctl.cur
  have f5 : s5.fo = s.cur := (e5 Ctl.fo).trans (e4 Ctl.fo)
  unfold rescale switchShift
  dsimp only
  rw [c5, c4, f5]
  unfold enterStream
  dsimp only
  refine ⟨?_, ?_, ?_, ?_, ?_, rfl, rfl, ?_, rfl, rfl, by simp, rfl, rfl, rfl⟩
  · exact (e5 Ctl.slew).trans (e4 Ctl.slew)
  · exact (e5 Ctl.newR).trans (e4 Ctl.newR)
  · exact (e5 Ctl.defR).trans (e4 Ctl.defR)
  · exact (e5 Ctl.ns).trans (e4 Ctl.ns)
  · exact (e5 Ctl.fl).trans (e4 Ctl.fl)
  · exact (e5 Ctl.inc).trans (e4 Ctl.inc)

/-- the state a chunk interpolates from: after the snap and after the stage switch, if any -/
def chunkBase (cfg : Cfg ρ) (olen0 : Nat) (l : LoopSt ρ) : St ρ :=
  let a := chunkStart cfg l.st (olen0 - l.od0)
  if doesSwitch a.1 then switchStage a.1 (stageDif a.1) (switchOcc a.1 (stageDif a.1) l.occ) else a.1

/-- one chunk, as a transformer of the clock / slew fields.  `b` is the state after the snap and the stage switch;
    the chunk delivers `od` frames, `step` advances `kc` times (`kc = od` unless the C assertion
    `odone == odone2` fails in this chunk), `slew_len` falls by `od`. -/
theorem chunk_spec (cfg : Cfg ρ) (olen0 : Nat) (l : LoopSt ρ) :
    let a := chunkStart cfg l.st (olen0 - l.od0)
    let b := chunkBase cfg olen0 l
    let r := (chunk cfg olen0 l).1
    r.nsw = l.nsw + (if doesSwitch a.1 then 1 else 0) ∧ l.nmis ≤ r.nmis ∧ l.od0 ≤ r.od0 ∧
    r.st.newR = b.newR ∧ r.st.defR = b.defR ∧ r.st.cur.ss = b.cur.ss ∧ r.st.cur.mult = b.cur.mult ∧ r.st.ns = b.ns ∧
    r.st.cur.sn = b.cur.sn ∧ r.st.cur.isD = b.cur.isD ∧
    (∃ kc : Nat, r.st.cur.step = b.cur.step + (kc : Int) * b.cur.ss ∧ (r.nmis = l.nmis → kc = r.od0 - l.od0)) ∧
    r.st.slew = (if b.slew ≠ 0 then b.slew - ((r.od0 - l.od0 : Nat) : Int) else b.slew) ∧
    ((r.od0 - l.od0 : Nat) : Int) ≤ max a.2 0 := by
  intro a b r
  have hk := kernels_spec b a.2 (chunkMn l (stageDif a.1))
    (chunkMx l (stageDif a.1) (decide (a.1.cur.sn + stageDif a.1 < a.1.ns)))
  generalize hK : kernels b a.2 (chunkMn l (stageDif a.1))
    (chunkMx l (stageDif a.1) (decide (a.1.cur.sn + stageDif a.1 < a.1.ns))) = K at hk
  have hr : r = { chunkFinish l (doesSwitch a.1) (doesSwitch a.1 && negLeftShift a.1 (stageDif a.1)) K with
      occ := if doesSwitch a.1 then switchOcc a.1 (stageDif a.1) l.occ else l.occ } := by
    show (chunk cfg olen0 l).1 = _
    unfold chunk
    dsimp only
    rw [← hK]
    rfl
  unfold chunkFinish at hr
  obtain ⟨h1, h2, h3, h4, h5, h6, h7, h8, h9, ⟨kc, h10, h11⟩, h12⟩ := hk
  have hod : r.od0 - l.od0 = K.od := by rw [hr]; simp
  rw [hod]
  refine ⟨by rw [hr], by rw [hr]; simp, by rw [hr]; simp, ?_, ?_, ?_, ?_, ?_, ?_, ?_, ⟨kc, ?_, ?_⟩, ?_, h12⟩
  · rw [hr]; dsimp only; split <;> simp [h2]
  · rw [hr]; dsimp only; split <;> simp [h3]
  · rw [hr]; dsimp only; split <;> simp [h4]
  · rw [hr]; dsimp only; split <;> simp [h5]
  · rw [hr]; dsimp only; split <;> simp [h9]
  · rw [hr]; dsimp only; split <;> simp [h6]
  · rw [hr]; dsimp only; split <;> simp [h7]
  · rw [hr]; dsimp only; split <;> simp [h10]
  · intro hm
    apply h11
    rw [hr] at hm
    dsimp only at hm
    cases hK' : K.mis with
    | false => rfl
    | true => rw [hK'] at hm; simp at hm
  · rw [hr]; dsimp only; rw [h1]; split <;> simp_all

/-- induction over the `while` loop of `vr_process` -/
theorem loop_induct (cfg : Cfg ρ) (olen0 : Nat) (P : LoopSt ρ → Prop)
    (hstep : ∀ l, P l → l.od0 < olen0 → P (chunk cfg olen0 l).1) :
    ∀ (f : Nat) (l : LoopSt ρ), P l → P (loop cfg olen0 f l) := by
  intro f
  induction f with
  | zero => intro l h; exact h
  | succ f ih =>
    intro l h
    unfold loop
    split
    · dsimp only
      split
      · exact ih _ (hstep l h ‹_›)
      · exact hstep l h ‹_›
    · exact h

/-! ### `vr_process` and call sequences as transformers of the clock / slew fields -/

/-- the fields the slew theorems are about -/
structure V (ρ : Type) where
  slew : Int
  newR : Option ρ
  defR : Option ρ
  step : Int
  ss : Int
  mult : Nat
  sn : Int
  isD : Bool
  ns : Nat

def St.v (s : St ρ) : V ρ :=
  { slew := s.slew, newR := s.newR, defR := s.defR, step := s.cur.step, ss := s.cur.ss, mult := s.cur.mult,
    sn := s.cur.sn, isD := s.cur.isD, ns := s.ns }

def Ctl.v (c : Ctl ρ) : V ρ :=
  { slew := c.slew, newR := c.newR, defR := c.defR, step := c.cur.step, ss := c.cur.ss, mult := c.cur.mult,
    sn := c.cur.sn, isD := c.cur.isD, ns := c.ns }

theorem v_of_ctl (s : St ρ) : s.v = s.ctl.v := rfl

theorem setLens_v (s : St ρ) (occ0 : Int) : (setLens s occ0).v = s.v := by
  unfold setLens; dsimp only; split <;> rfl

theorem preLoop_v (cfg : Cfg ρ) (s : St ρ) (olen0 : Nat) :
    (preLoop cfg s olen0).1.st.v = (applyDefault cfg s).v ∧ (preLoop cfg s olen0).1.od0 = 0 ∧
    (preLoop cfg s olen0).1.nsw = 0 ∧ (preLoop cfg s olen0).1.nmis = 0 := by
  unfold preLoop
  dsimp only
  refine ⟨?_, rfl, rfl, rfl⟩
  rw [setLens_v]
  generalize hX : inputStages _ _ _ = X
  have hc' : X.v = (applyDefault cfg s).v := by
    rw [← hX, v_of_ctl, inputStages_ctl]; rfl
  have h : (if X.fl > 0 then { X with fl := -1 } else X).v = X.v := by split <;> rfl
  rw [h, hc']

theorem post_v (s : St ρ) (mn mx : Int) : (post s mn mx).v = s.v := by
  unfold post
  dsimp only
  rw [v_of_ctl, readStages_ctl]
  rfl

theorem input_v (s : St ρ) (n : Nat) : (input s n).v = s.v := rfl

theorem flush_v (s : St ρ) : (flush s).v = s.v := by
  unfold flush; split <;> rfl

theorem output_v (s : St ρ) (n : Nat) : (output s n).1.v = s.v := rfl

/-- induction over `vr_process`: a property of (clock / slew fields, frames so far, ghost counters) that holds after
    line 430 and is preserved by every chunk holds at the end. -/
theorem process_induct (cfg : Cfg ρ) (s : St ρ) (olen0 : Nat) (P : V ρ → Nat → Nat → Nat → Prop)
    (h0 : P (applyDefault cfg s).v 0 0 0)
    (hstep : ∀ (l : LoopSt ρ), P l.st.v l.od0 l.nsw l.nmis → l.od0 < olen0 →
      P (chunk cfg olen0 l).1.st.v (chunk cfg olen0 l).1.od0 (chunk cfg olen0 l).1.nsw
        (chunk cfg olen0 l).1.nmis) :
    P (process cfg s olen0).st.v (process cfg s olen0).od (process cfg s olen0).nsw (process cfg s olen0).nmis := by
  unfold process
  dsimp only
  obtain ⟨p1, p2, p3, p4⟩ := preLoop_v cfg s olen0
  have hl := loop_induct cfg olen0 (fun l => P l.st.v l.od0 l.nsw l.nmis)
    (fun l hl hlt => hstep l hl hlt) (olen0 + 1) (preLoop cfg s olen0).1 (by rw [p1, p2, p3, p4]; exact h0)
  have e : ∀ (t : St ρ) (k : Int), ({ t with oocc := k } : St ρ).v = t.v := fun _ _ => rfl
  rw [e, post_v]
  exact hl

/-! ### Shifts -/

theorem two_pow_pos (n : Nat) : (0 : Int) < 2 ^ n := Int.pow_pos (by decide)

theorem lshift_zero (k : Int) : lshift 0 k = 0 := by
  unfold lshift; split <;> simp

theorem lshift_nonneg (x k : Int) (h : 0 ≤ x) : 0 ≤ lshift x k := by
  unfold lshift
  split
  · exact Int.mul_nonneg h (Int.le_of_lt (two_pow_pos _))
  · exact (Int.ediv_nonneg_iff_of_pos (two_pow_pos _)).mpr h

theorem lshift_nonpos (x k : Int) (h : x ≤ 0) : lshift x k ≤ 0 := by
  unfold lshift
  split
  · exact Int.mul_nonpos_of_nonpos_of_nonneg h (Int.le_of_lt (two_pow_pos _))
  · exact Int.ediv_nonpos_of_nonpos_of_neg h (two_pow_pos _)

/-! ### Requests -/

theorem applyDefault_none (cfg : Cfg ρ) (s : St ρ) (h : s.defR = none) : applyDefault cfg s = s := by
  unfold applyDefault; rw [h]

/-- `vr_set_io_ratio(r, 0)`, field by field. -/
theorem setIoRatio_zero_spec (cfg : Cfg ρ) (s : St ρ) (r : ρ) :
    (setIoRatio cfg s r 0).defR = none ∧
    (setIoRatio cfg s r 0).cur.step = cfg.num.stepOf r (setIoRatio cfg s r 0).cur.mult ∧
    (setIoRatio cfg s r 0).ns = s.ns ∧
    (s.defR = none → (setIoRatio cfg s r 0).cur.mult = s.cur.mult ∧ (setIoRatio cfg s r 0).cur.sn = s.cur.sn ∧
        (setIoRatio cfg s r 0).cur.isD = s.cur.isD ∧ (setIoRatio cfg s r 0).cur.clk = s.cur.clk) ∧
    ((setIoRatio cfg s r 0).slew = 0 ∧ (setIoRatio cfg s r 0).newR = none ∧
        (setIoRatio cfg s r 0).cur.ss = 0 ∧ (setIoRatio cfg s r 0).fo.ss = 0) := by
  unfold setIoRatio
  cases hd : s.defR <;> by_cases hfade : s.fade = 0 <;>
    simp [hd, hfade, setStep, enter, enterStream]

/-- `vr_set_io_ratio(r, L)` with `L > 0`, field by field. -/
theorem setIoRatio_slew_spec (cfg : Cfg ρ) (s : St ρ) (r : ρ) (L : Nat) (hL : L ≠ 0) :
    (setIoRatio cfg s r L).defR = s.defR ∧ (setIoRatio cfg s r L).cur.step = s.cur.step ∧
    (setIoRatio cfg s r L).cur.mult = s.cur.mult ∧ (setIoRatio cfg s r L).ns = s.ns ∧
    (setIoRatio cfg s r L).cur.sn = s.cur.sn ∧ (setIoRatio cfg s r L).cur.isD = s.cur.isD ∧
    (setIoRatio cfg s r L).cur.clk = s.cur.clk ∧
    (setIoRatio cfg s r L).cur.ss = slewInc (cfg.num.stepOf r s.cur.mult) s.cur.step L ∧
    (slewInc (cfg.num.stepOf r s.cur.mult) s.cur.step L = 0 →
        (setIoRatio cfg s r L).slew = 0 ∧ (setIoRatio cfg s r L).newR = none) ∧
    (slewInc (cfg.num.stepOf r s.cur.mult) s.cur.step L ≠ 0 →
        (setIoRatio cfg s r L).slew = L ∧ (setIoRatio cfg s r L).newR = some r) := by
  unfold setIoRatio
  by_cases h0 : slewInc (cfg.num.stepOf r s.cur.mult) s.cur.step L = 0 <;> by_cases hfade : s.fade = 0 <;>
    simp [hL, h0, hfade, setSS]

/-! ### The slew as an invariant -/

/-- a slew request as the engine stored it: `step` when it was made, the increment, the length, the target -/
structure Req (ρ : Type) where
  step0 : Int
  ss0 : Int
  L : Nat
  r : ρ
  mult : Nat

/-- Where the engine is `j` output frames after the request `g` (as long as no stage switch intervened):
    * `j < L`: still slewing — `step = step₀ + j·step_step`, `slew_len = L − j`;
    * `j = L`, before the next chunk starts: the last increment has been applied, the snap is pending;
    * from the first chunk after that on: `step` is exactly the target, `step_step = 0`. -/
def SlewingV (cfg : Cfg ρ) (g : Req ρ) (v : V ρ) (j : Nat) : Prop :=
  v.defR = none ∧ v.mult = g.mult ∧
  ((j < g.L ∧ v.slew = (g.L : Int) - j ∧ v.newR = some g.r ∧ v.step = g.step0 + (j : Int) * g.ss0 ∧ v.ss = g.ss0) ∨
   (j = g.L ∧ v.slew = 0 ∧ v.newR = some g.r ∧ v.step = g.step0 + (g.L : Int) * g.ss0 ∧ v.ss = g.ss0) ∨
   (g.L ≤ j ∧ v.slew = 0 ∧ v.newR = none ∧ v.step = cfg.num.stepOf g.r g.mult ∧ v.ss = 0))

theorem chunkBase_noswitch (cfg : Cfg ρ) (olen0 : Nat) (l : LoopSt ρ)
    (h : doesSwitch (chunkStart cfg l.st (olen0 - l.od0)).1 = false) :
    chunkBase cfg olen0 l = (chunkStart cfg l.st (olen0 - l.od0)).1 := by
  unfold chunkBase; simp [h]

/-- one chunk without a stage switch and with both cross-faded streams in step keeps the slew invariant and moves
    it on by the frames delivered. -/
theorem SlewingV_chunk (cfg : Cfg ρ) (g : Req ρ) (olen0 : Nat) (l : LoopSt ρ) (j : Nat)
    (h : SlewingV cfg g l.st.v j)
    (hs : (chunk cfg olen0 l).1.nsw = l.nsw) (hm : (chunk cfg olen0 l).1.nmis = l.nmis) :
    SlewingV cfg g (chunk cfg olen0 l).1.st.v (j + ((chunk cfg olen0 l).1.od0 - l.od0)) := by
  have hc := chunk_spec cfg olen0 l
  dsimp only at hc
  obtain ⟨c1, _, c3, c4, c5, c6, c7, _, _, _, ⟨kc, c11, c12⟩, c13, c14⟩ := hc
  have hns : doesSwitch (chunkStart cfg l.st (olen0 - l.od0)).1 = false := by
    cases hd : doesSwitch (chunkStart cfg l.st (olen0 - l.od0)).1 with
    | false => rfl
    | true => rw [hd] at c1; simp at c1; omega
  rw [chunkBase_noswitch cfg olen0 l hns] at c4 c5 c6 c7 c11 c13
  have hkc := c12 hm
  generalize (chunk cfg olen0 l).1 = R at *
  generalize hod : R.od0 - l.od0 = od at *
  subst hkc
  obtain ⟨hd, hmul, hcase⟩ := h
  simp only [St.v] at hd hmul hcase
  unfold SlewingV
  simp only [St.v]
  rcases hcase with ⟨hj, h1, h2, h3, h4⟩ | ⟨hj, h1, h2, h3, h4⟩ | ⟨hj, h1, h2, h3, h4⟩
  · -- slewing
    have hne : l.st.slew ≠ 0 := by omega
    rw [chunkStart_slewing cfg l.st _ hne] at c4 c5 c6 c7 c11 c13 c14
    dsimp only at c4 c5 c6 c7 c11 c13 c14
    have hle : (kc : Int) ≤ l.st.slew := by omega
    refine ⟨by rw [c5, hd], by rw [c7, hmul], ?_⟩
    rw [if_pos hne] at c13
    by_cases hlt : j + kc < g.L
    · left
      refine ⟨hlt, by omega, by rw [c4, h2], ?_, by rw [c6, h4]⟩
      rw [c11, h3, h4]; push_cast; rw [Int.add_mul]; omega
    · right; left
      have : j + kc = g.L := by omega
      refine ⟨this, by omega, by rw [c4, h2], ?_, by rw [c6, h4]⟩
      rw [c11, h3, h4, ← this]; push_cast; rw [Int.add_mul]; omega
  · -- snap pending
    rw [chunkStart_pending cfg l.st _ g.r h1 h2] at c4 c5 c6 c7 c11 c13
    dsimp only [setStep] at c4 c5 c6 c7 c11 c13
    refine ⟨by rw [c5, hd], by rw [c7, hmul], ?_⟩
    right; right
    refine ⟨by omega, ?_, c4, ?_, c6⟩
    · rw [c13, h1]; simp
    · rw [c11, hmul]; simp
  · -- snapped
    rw [chunkStart_idle cfg l.st _ h1 h2] at c4 c5 c6 c7 c11 c13
    refine ⟨by rw [c5, hd], by rw [c7, hmul], ?_⟩
    right; right
    refine ⟨by omega, ?_, by rw [c4, h2], ?_, by rw [c6, h4]⟩
    · rw [c13, h1]; simp
    · rw [c11, h3, h4]; simp

theorem SlewingV_process (cfg : Cfg ρ) (g : Req ρ) (s : St ρ) (olen0 j : Nat) (h : SlewingV cfg g s.v j)
    (hs : (process cfg s olen0).nsw = 0) (hm : (process cfg s olen0).nmis = 0) :
    SlewingV cfg g (process cfg s olen0).st.v (j + (process cfg s olen0).od) := by
  have := process_induct cfg s olen0
    (fun v od nsw nmis => nsw = 0 → nmis = 0 → SlewingV cfg g v (j + od))
    (by
      intro _ _
      rw [applyDefault_none cfg s h.1]
      exact h)
    (by
      intro l hl hlt hs' hm'
      have hc := chunk_spec cfg olen0 l
      dsimp only at hc
      obtain ⟨c1, c2, c3, _⟩ := hc
      have hl0 : l.nsw = 0 := by omega
      have hm0 : l.nmis = 0 := by omega
      have := SlewingV_chunk cfg g olen0 l (j + l.od0) (hl hl0 hm0) (by omega) (by omega)
      have e : j + l.od0 + ((chunk cfg olen0 l).1.od0 - l.od0) = j + (chunk cfg olen0 l).1.od0 := by omega
      rw [e] at this
      exact this)
  exact this hs hm

/-- the ghost counters of a call sequence only grow -/
theorem stepOp_counters (cfg : Cfg ρ) (r : Run ρ) (o : Op ρ) :
    r.nsw ≤ (stepOp cfg r o).nsw ∧ r.nmis ≤ (stepOp cfg r o).nmis ∧ r.out ≤ (stepOp cfg r o).out := by
  cases o <;> simp [stepOp]

theorem run_counters (cfg : Cfg ρ) (ops : List (Op ρ)) (r : Run ρ) :
    r.nsw ≤ (run cfg r ops).nsw ∧ r.nmis ≤ (run cfg r ops).nmis ∧ r.out ≤ (run cfg r ops).out := by
  induction ops generalizing r with
  | nil => simp [run]
  | cons o ops ih =>
    have h1 := stepOp_counters cfg r o
    have h2 := ih (stepOp cfg r o)
    simp only [run, List.foldl_cons] at h2 ⊢
    omega

theorem SlewingV_stepOp (cfg : Cfg ρ) (g : Req ρ) (r : Run ρ) (o : Op ρ) (j : Nat) (ho : o.isRatio = false)
    (h : SlewingV cfg g r.st.v (j + r.out))
    (hs : (stepOp cfg r o).nsw = r.nsw) (hm : (stepOp cfg r o).nmis = r.nmis) :
    SlewingV cfg g (stepOp cfg r o).st.v (j + (stepOp cfg r o).out) := by
  cases o with
  | ratio x sl => simp [Op.isRatio] at ho
  | proc ilen olen =>
    simp only [stepOp] at hs hm ⊢
    rw [output_v]
    have := SlewingV_process cfg g (input r.st ilen) olen (j + r.out) (by rw [input_v]; exact h) (by omega) (by omega)
    rw [Nat.add_assoc] at this
    exact this
  | flush olen =>
    simp only [stepOp] at hs hm ⊢
    rw [output_v]
    have := SlewingV_process cfg g (flush r.st) olen (j + r.out) (by rw [flush_v]; exact h) (by omega) (by omega)
    rw [Nat.add_assoc] at this
    exact this

theorem SlewingV_run (cfg : Cfg ρ) (g : Req ρ) (ops : List (Op ρ)) (r : Run ρ) (j : Nat)
    (ho : ∀ o ∈ ops, o.isRatio = false) (h : SlewingV cfg g r.st.v (j + r.out))
    (hs : (run cfg r ops).nsw = r.nsw) (hm : (run cfg r ops).nmis = r.nmis) :
    SlewingV cfg g (run cfg r ops).st.v (j + (run cfg r ops).out) := by
  induction ops generalizing r with
  | nil => exact h
  | cons o ops ih =>
    have h1 := stepOp_counters cfg r o
    have h2 := run_counters cfg ops (stepOp cfg r o)
    simp only [run, List.foldl_cons] at hs hm h2 ⊢
    have := ih (stepOp cfg r o) (fun o' ho' => ho o' (List.mem_cons_of_mem _ ho'))
      (SlewingV_stepOp cfg g r o j (ho o (List.mem_cons_self ..)) h (by omega) (by omega))
    simp only [run] at this
    exact this (by omega) (by omega)

/-! ### No slew in progress: nothing moves -/

/-- no ratio request is outstanding: the initial ratio has been set, no slew is running, no snap is pending -/
def QuiescentV (v : V ρ) : Prop := v.defR = none ∧ v.slew = 0 ∧ v.newR = none ∧ v.ss = 0

theorem QuiescentV_chunk (cfg : Cfg ρ) (olen0 : Nat) (l : LoopSt ρ) (h : QuiescentV l.st.v) :
    QuiescentV (chunk cfg olen0 l).1.st.v ∧
    ((chunk cfg olen0 l).1.nsw = l.nsw →
      (chunk cfg olen0 l).1.st.v.step = l.st.v.step ∧ (chunk cfg olen0 l).1.st.v.mult = l.st.v.mult ∧
      (chunk cfg olen0 l).1.st.v.sn = l.st.v.sn) := by
  have hc := chunk_spec cfg olen0 l
  dsimp only at hc
  obtain ⟨c1, _, c3, c4, c5, c6, c7, _, c9, _, ⟨kc, c11, _⟩, c13, _⟩ := hc
  obtain ⟨hd, h1, h2, h4⟩ := h
  simp only [St.v] at hd h1 h2 h4 ⊢
  have ha := chunkStart_idle cfg l.st (olen0 - l.od0) h1 h2
  have hb : (chunkBase cfg olen0 l).slew = 0 ∧ (chunkBase cfg olen0 l).newR = none ∧
      (chunkBase cfg olen0 l).defR = none ∧ (chunkBase cfg olen0 l).cur.ss = 0 := by
    unfold chunkBase
    dsimp only
    rw [ha]
    dsimp only
    split
    · obtain ⟨s1, s2, s3, _, _, _, _, _, _, _, _, _, _, s14⟩ := switchStage_spec l.st (stageDif l.st) _
      exact ⟨by rw [s1, h1], by rw [s2, h2], by rw [s3, hd], by rw [s14, h4, lshift_zero]⟩
    · exact ⟨h1, h2, hd, h4⟩
  obtain ⟨b1, b2, b3, b4⟩ := hb
  refine ⟨⟨by rw [c5, b3], by rw [c13, b1]; simp, by rw [c4, b2], by rw [c6, b4]⟩, fun hs => ?_⟩
  have hns : doesSwitch (chunkStart cfg l.st (olen0 - l.od0)).1 = false := by
    cases hd' : doesSwitch (chunkStart cfg l.st (olen0 - l.od0)).1 with
    | false => rfl
    | true => rw [hd'] at c1; simp at c1; omega
  rw [chunkBase_noswitch cfg olen0 l hns, ha] at c7 c9 c11
  dsimp only at c7 c9 c11
  rw [h4] at c11
  exact ⟨by rw [c11]; simp, c7, c9⟩

theorem QuiescentV_process (cfg : Cfg ρ) (s : St ρ) (olen0 : Nat) (h : QuiescentV s.v) :
    QuiescentV (process cfg s olen0).st.v ∧
    ((process cfg s olen0).nsw = 0 →
      (process cfg s olen0).st.v.step = s.v.step ∧ (process cfg s olen0).st.v.mult = s.v.mult ∧
      (process cfg s olen0).st.v.sn = s.v.sn) := by
  exact process_induct cfg s olen0
    (fun v _ nsw _ => QuiescentV v ∧ (nsw = 0 → v.step = s.v.step ∧ v.mult = s.v.mult ∧ v.sn = s.v.sn))
    (by rw [applyDefault_none cfg s h.1]; exact ⟨h, fun _ => ⟨rfl, rfl, rfl⟩⟩)
    (by
      intro l hl _
      have hc := chunk_spec cfg olen0 l
      dsimp only at hc
      obtain ⟨c1, _⟩ := hc
      obtain ⟨q, hstep⟩ := QuiescentV_chunk cfg olen0 l hl.1
      refine ⟨q, fun h0 => ?_⟩
      obtain ⟨e1, e2, e3⟩ := hstep (by omega)
      obtain ⟨f1, f2, f3⟩ := hl.2 (by omega)
      exact ⟨e1.trans f1, e2.trans f2, e3.trans f3⟩)

theorem QuiescentV_stepOp (cfg : Cfg ρ) (r : Run ρ) (o : Op ρ) (ho : o.isRatio = false) (h : QuiescentV r.st.v) :
    QuiescentV (stepOp cfg r o).st.v ∧
    ((stepOp cfg r o).nsw = r.nsw →
      (stepOp cfg r o).st.v.step = r.st.v.step ∧ (stepOp cfg r o).st.v.mult = r.st.v.mult ∧
      (stepOp cfg r o).st.v.sn = r.st.v.sn) := by
  cases o with
  | ratio x sl => simp [Op.isRatio] at ho
  | proc ilen olen =>
    simp only [stepOp]
    rw [output_v]
    have := QuiescentV_process cfg (input r.st ilen) olen (by rw [input_v]; exact h)
    rw [input_v] at this
    exact ⟨this.1, fun hs => this.2 (by omega)⟩
  | flush olen =>
    simp only [stepOp]
    rw [output_v]
    have := QuiescentV_process cfg (flush r.st) olen (by rw [flush_v]; exact h)
    rw [flush_v] at this
    exact ⟨this.1, fun hs => this.2 (by omega)⟩

theorem QuiescentV_run (cfg : Cfg ρ) (ops : List (Op ρ)) (r : Run ρ) (ho : ∀ o ∈ ops, o.isRatio = false)
    (h : QuiescentV r.st.v) :
    QuiescentV (run cfg r ops).st.v ∧
    ((run cfg r ops).nsw = r.nsw →
      (run cfg r ops).st.v.step = r.st.v.step ∧ (run cfg r ops).st.v.mult = r.st.v.mult ∧
      (run cfg r ops).st.v.sn = r.st.v.sn) := by
  induction ops generalizing r with
  | nil => exact ⟨h, fun _ => ⟨rfl, rfl, rfl⟩⟩
  | cons o ops ih =>
    have h1 := stepOp_counters cfg r o
    have h2 := run_counters cfg ops (stepOp cfg r o)
    obtain ⟨q1, s1⟩ := QuiescentV_stepOp cfg r o (ho o (List.mem_cons_self ..)) h
    obtain ⟨q2, s2⟩ := ih (stepOp cfg r o) (fun o' ho' => ho o' (List.mem_cons_of_mem _ ho')) q1
    simp only [run, List.foldl_cons] at h2 q2 s2 ⊢
    refine ⟨q2, fun hs => ?_⟩
    obtain ⟨e1, e2, e3⟩ := s2 (by omega)
    obtain ⟨f1, f2, f3⟩ := s1 (by omega)
    exact ⟨e1.trans f1, e2.trans f2, e3.trans f3⟩

/-! ### The sign of `step_step` never changes without a new request (stage switches included) -/

theorem chunkStart_ss (cfg : Cfg ρ) (s : St ρ) (rem : Nat) :
    (chunkStart cfg s rem).1.cur.ss = s.cur.ss ∨ (chunkStart cfg s rem).1.cur.ss = 0 := by
  unfold chunkStart
  dsimp only
  split
  · left; rfl
  · split
    · right; rfl
    · left; rfl

theorem chunk_ss_sign (cfg : Cfg ρ) (olen0 : Nat) (l : LoopSt ρ) :
    (0 ≤ l.st.cur.ss → 0 ≤ (chunk cfg olen0 l).1.st.cur.ss) ∧
    (l.st.cur.ss ≤ 0 → (chunk cfg olen0 l).1.st.cur.ss ≤ 0) := by
  have hc := chunk_spec cfg olen0 l
  dsimp only at hc
  obtain ⟨_, _, _, _, _, c6, _⟩ := hc
  rw [c6]
  unfold chunkBase
  dsimp only
  have ha := chunkStart_ss cfg l.st (olen0 - l.od0)
  split
  · obtain ⟨_, _, _, _, _, _, _, _, _, _, _, _, _, s14⟩ :=
      switchStage_spec (chunkStart cfg l.st (olen0 - l.od0)).1 (stageDif (chunkStart cfg l.st (olen0 - l.od0)).1) _
    rw [s14]
    rcases ha with ha | ha <;> rw [ha]
    · exact ⟨fun h => lshift_nonneg _ _ h, fun h => lshift_nonpos _ _ h⟩
    · rw [lshift_zero]; exact ⟨fun _ => Int.le_refl _, fun _ => Int.le_refl _⟩
  · rcases ha with ha | ha <;> rw [ha]
    · exact ⟨id, id⟩
    · exact ⟨fun _ => Int.le_refl _, fun _ => Int.le_refl _⟩

theorem applyDefault_ss (cfg : Cfg ρ) (s : St ρ) :
    (applyDefault cfg s).cur.ss = s.cur.ss ∨ (applyDefault cfg s).cur.ss = 0 := by
  unfold applyDefault
  split
  · obtain ⟨_, _, _, _, h5⟩ := setIoRatio_zero_spec cfg s ‹_›
    right; exact h5.2.2.1
  · left; rfl

theorem process_ss_sign (cfg : Cfg ρ) (s : St ρ) (olen0 : Nat) :
    (0 ≤ s.cur.ss → 0 ≤ (process cfg s olen0).st.cur.ss) ∧ (s.cur.ss ≤ 0 → (process cfg s olen0).st.cur.ss ≤ 0) := by
  have := process_induct cfg s olen0
    (fun v _ _ _ => (0 ≤ s.cur.ss → 0 ≤ v.ss) ∧ (s.cur.ss ≤ 0 → v.ss ≤ 0))
    (by
      simp only [St.v]
      rcases applyDefault_ss cfg s with h | h <;> rw [h]
      · exact ⟨id, id⟩
      · exact ⟨fun _ => Int.le_refl _, fun _ => Int.le_refl _⟩)
    (by
      intro l hl _
      have := chunk_ss_sign cfg olen0 l
      simp only [St.v] at hl ⊢
      exact ⟨fun h => this.1 (hl.1 h), fun h => this.2 (hl.2 h)⟩)
  exact this

theorem stepOp_ss_sign (cfg : Cfg ρ) (r : Run ρ) (o : Op ρ) (ho : o.isRatio = false) :
    (0 ≤ r.st.cur.ss → 0 ≤ (stepOp cfg r o).st.cur.ss) ∧ (r.st.cur.ss ≤ 0 → (stepOp cfg r o).st.cur.ss ≤ 0) := by
  cases o with
  | ratio x sl => simp [Op.isRatio] at ho
  | proc ilen olen => exact process_ss_sign cfg (input r.st ilen) olen
  | flush olen =>
    have h := process_ss_sign cfg (flush r.st) olen
    have e : (flush r.st).cur.ss = r.st.cur.ss := congrArg V.ss (flush_v r.st)
    rw [e] at h
    exact h

theorem run_ss_sign (cfg : Cfg ρ) (ops : List (Op ρ)) (r : Run ρ) (ho : ∀ o ∈ ops, o.isRatio = false) :
    (0 ≤ r.st.cur.ss → 0 ≤ (run cfg r ops).st.cur.ss) ∧ (r.st.cur.ss ≤ 0 → (run cfg r ops).st.cur.ss ≤ 0) := by
  induction ops generalizing r with
  | nil => exact ⟨id, id⟩
  | cons o ops ih =>
    have h1 := stepOp_ss_sign cfg r o (ho o (List.mem_cons_self ..))
    have h2 := ih (stepOp cfg r o) (fun o' ho' => ho o' (List.mem_cons_of_mem _ ho'))
    simp only [run, List.foldl_cons] at h2 ⊢
    exact ⟨fun h => h2.1 (h1.1 h), fun h => h2.2 (h1.2 h)⟩

end Soxr.Vr
