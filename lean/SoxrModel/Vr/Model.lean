import SoxrModel.Basic
import SoxrModel.Vr.Generated
/-!
# Control skeleton of the variable-rate engine (`vr32.c`) and the decision logic of `soxr_set_io_ratio` (`soxr.c`)

Control in `vr32.c` is data-independent: the 32.32 clock `at`, the increment `step`, the slew increment `step_step`,
`slew_len`, which octave stage feeds the interpolator, both kinds of fade, every FIFO occupancy and the number of
frames delivered depend on lengths and ratios only, never on sample values.  This file is that integer skeleton, *as
written*, with the sample kernels left out.  (History: until the `fix:` commits for F13 and F14 the immediate branch of
`vr_set_io_ratio` left `slew_len`, `step_step`, `new_io_ratio` alone, and `lshift` shifted negative values left; the
pre-repair `vr_set_io_ratio` survives only as `C16.Historical.setIoRatioPre` in `Properties/C16.lean`.)  It is executed
(driver `soxr_vr`; the harness compares every field of `rate_t` after every call) and reasoned about
(`Vr/Lemmas.lean`, `Properties/C16.lean`).

Floating point.  The code evaluates three `double` expressions that feed integers:
`(int64_t)(io_ratio * step_mult + .5)`, `(int)floor(log(io_ratio) / M_LN2)` and the halving loop of `vr_create`.
They are the fields of `Num ρ` (`ρ` = whatever represents a `double`): parameters of every theorem, IEEE binary64 in
the driver, and `Num.exact` (exact dyadic arithmetic on the bit pattern) for concrete witnesses.

C identifiers: `at` is `clk` here (`at` is a Lean keyword), `step_step` is `ss`, `stage_num` is `sn`.
-/
namespace Soxr.Vr

/-- `HALF_FIR_LEN_2` -/
abbrev H2 : Nat := Gen.halfFirLen2
/-- `POLY_FIR_LEN_D` -/
abbrev PD : Nat := Gen.polyFirLenD
/-- `AL(fade_coefs) - 1` -/
abbrev fadeLen : Nat := Gen.fadeLen
/-- `1 << FADE_LEN_BITS`: length of the cross-fade between the fast and the full half-band filter of a stage -/
abbrev xfadeLen : Nat := 2 ^ Gen.fadeLenBits
/-- largest number of output frames decided at once (`AL(buf) >> 1`) -/
abbrev chunkMax : Nat := Gen.chunk

def two32 : Int := 4294967296

/-- `INT(x)`: the signed high word of a 32.32 value. -/
def INT (a : Int) : Int := a / two32
/-- `FRAC(x)`: the unsigned low word. -/
def FRAC (a : Int) : Int := a % two32

/-- `shiftr(x,by)`: `by < 0 ? x << -by : x >> by` (arithmetic shift: floor). -/
def shiftr (x by_ : Int) : Int := if by_ < 0 then x * 2 ^ (-by_).toNat else x / 2 ^ by_.toNat
/-- `shiftl(x,by)` = `shiftr(x,-by)`. -/
def shiftl (x by_ : Int) : Int := shiftr x (-by_)
/-- `lshift(x,by)`: `by > 0 ? (int64_t)((uint64_t)x << by) : x >> -by` — the left shift is done on the unsigned
    representation (repair of F14), which is multiplication by `2^by` as long as the result fits 64 bits
    (`Vr/Arith.lean`: `lshiftC_eq_lshift`); the model multiplies. -/
def lshift (x by_ : Int) : Int := if by_ > 0 then x * 2 ^ by_.toNat else x / 2 ^ (-by_).toNat

/-- `stream_t` without the data pointer. -/
structure Stream where
  clk : Int := 0      -- `at.all`
  step : Int := 0     -- `step.all`
  ss : Int := 0       -- `step_step.all`
  len : Int := 0
  sn : Int := 0       -- `stage_num`
  isD : Bool := false
  mult : Nat := 0     -- `step_mult` (an integer power of two; 0 while never set)
  deriving Repr, Inhabited, DecidableEq

/-- `stage_t`: occupancy of the FIFO instead of the FIFO.  (`step_mult` is written once by `vr_init` and never again:
    it is the function `stageMult` of the stage number.) -/
structure Stage where
  occ : Int := 0
  pre : Nat := 0      -- `preload`
  fast : Bool := true -- `is_fast`
  xf : Int := 0       -- `x_fade_len`
  deriving Repr, Inhabited, DecidableEq

/-- `rate_t`.  `newR`/`defR`: `none` is the C value 0 ("not set"). -/
structure St (ρ : Type) where
  ns0 : Nat := 0
  ns : Nat := 1
  fl : Int := 0            -- `flushing`
  fade : Int := 0          -- `fade_len`
  slew : Int := 0          -- `slew_len`
  xfade : Int := 0
  inc : Bool := false      -- `stage_inc`
  sw : Int := 0            -- `switch_stage_num`
  newR : Option ρ := none  -- `new_io_ratio`
  defR : Option ρ := none  -- `default_io_ratio`
  oocc : Int := 0          -- occupancy of `output_fifo`
  stages : Array Stage := #[]   -- index `i + 1` holds stage `i`, `-1 ≤ i < ns`
  cur : Stream := {}
  fo : Stream := {}        -- `fadeout`
  deriving Repr, Inhabited

/-- The floating-point expressions of `vr32.c` that feed integers. -/
structure Num (ρ : Type) where
  /-- `(int64_t)(io_ratio * step_mult + .5)` -/
  stepOf : ρ → Nat → Int
  /-- `(int)floor(log(io_ratio) / M_LN2)` -/
  octave : ρ → Int
  /-- `for (n = 0; x > 1; x *= .5, ++n);` of `vr_create` -/
  numStages : ρ → Nat

structure Cfg (ρ : Type) where
  num : Num ρ

variable {ρ : Type}

def St.stg (s : St ρ) (i : Int) : Stage := s.stages[(i + 1).toNat]!
def St.setStg (s : St ρ) (i : Int) (x : Stage) : St ρ := { s with stages := s.stages.set! (i + 1).toNat x }

/-- `2 * MULT32 / shiftl(2, i)` -/
def stageMult (i : Int) : Nat := (2 * Gen.mult32) / (shiftl 2 i).toNat
def stagePreload (i : Int) : Nat := if i < 0 then 0 else if i = 0 then 2 * H2 else 3 * H2 / 2

/-- `vr_create` + `vr_init`. -/
def init (cfg : Cfg ρ) (mx : ρ) : St ρ :=
  let ns0 := cfg.num.numStages mx
  let ns := max ns0 1
  { ns0 := ns0, ns := ns, defR := some mx,
    stages := (Array.range (ns + 1)).map fun (k : Nat) =>
      let i : Int := (k : Int) - 1
      { occ := stagePreload i, pre := stagePreload i, fast := true, xf := 0 } }

/-- `if (p->num_stages0) half_phase(&p->halfer, …)`: is the output of the up-sampling stream (`poly_fir_u`, stage −1) run
    through the all-pass that matches the phase of the half-band IIR of the down-sampling path?  Exactly on engines that
    can down-sample at all (declared maximum `> 1`).  (The filter itself is a sample kernel and not modelled; which
    engines run it is probed on the real code by the generator: `Gen.halfPhaseProbe`.) -/
def St.halfPhase (s : St ρ) : Bool := decide (s.ns0 ≠ 0)

/-- `enter_new_stage` on the stream (the `input` pointer is not modelled). -/
def enterStream (c : Stream) (occ0 : Int) : Stream :=
  let d := decide (c.sn ≥ 0)
  let m := stageMult c.sn
  { c with len := shiftr occ0 c.sn, isD := d, mult := if d then m / 2 else m }

/-- `enter_new_stage` -/
def enter (s : St ρ) (occ0 : Int) : St ρ := { s with cur := enterStream s.cur occ0 }

/-- `set_step` -/
def setStep (cfg : Cfg ρ) (p : Stream) (r : ρ) : Stream := { p with step := cfg.num.stepOf r p.mult }

/-- the value `set_step_step` stores: `(target - step ± slew/2) / slew`, C division (towards zero). -/
def slewInc (target step : Int) (slew : Nat) : Int :=
  let dif := target - step
  let dif := if dif < 0 then dif - (slew / 2 : Nat) else dif + (slew / 2 : Nat)
  Int.tdiv dif slew

/-- `set_step_step`; the C function returns `step_step != 0`. -/
def setSS (cfg : Cfg ρ) (p : Stream) (r : ρ) (slew : Nat) : Stream :=
  { p with ss := slewInc (cfg.num.stepOf r p.mult) p.step slew }

/-- `vr_set_io_ratio` (`slew < 2^31`: the C code casts to `int`).  The immediate branch first cancels whatever slew is
    in progress (`slew_len = 0, new_io_ratio = 0`, both `step_step`s `= 0`). -/
def setIoRatio (cfg : Cfg ρ) (s : St ρ) (r : ρ) (slew : Nat) : St ρ :=
  if slew ≠ 0 then
    let c := setSS cfg s.cur r slew
    if c.ss = 0 then
      { s with cur := c, slew := 0, newR := none, fo := { s.fo with ss := 0 } }
    else
      let s1 := { s with cur := c, slew := slew, newR := some r }
      if s.fade ≠ 0 then { s1 with fo := setSS cfg s.fo r slew } else s1
  else
    let first := s.defR.isSome
    let s := { s with slew := 0, newR := none, cur := { s.cur with ss := 0 }, fo := { s.fo with ss := 0 } }
    let s1 :=
      if first then
        let oct := cfg.num.octave r
        let sn : Int := if oct < 0 then -1 else min oct ((s.ns0 : Int) - 1)
        enter { s with cur := { s.cur with sn := sn } } 0
      else if s.fade ≠ 0 then { s with fo := setStep cfg s.fo r }
      else s
    let c := setStep cfg s1.cur r
    let c := if first then { c with clk := INT c.clk * two32 + FRAC c.step / 2 } else c
    { s1 with cur := c, defR := none }

/-- `len` of `do_input_stage`: what the neighbour's FIFO allows minus what is already there. -/
def doInputLen (s : St ρ) (sn sign : Int) : Int :=
  let st := s.stg sn
  let s1 := s.stg (sn - sign)
  shiftr (s1.occ - 2 * H2) sign - (st.occ - st.pre)

/-- the fast/full half-band cross-fade of one stage inside `do_input_stage` (lines 397–417):
    new `(x_fade_len, is_fast, switch_stage_num, xfade)`. -/
def xfadeStep (st : Stage) (inc : Bool) (sw xfade sn ln : Int) : Int × Bool × Int × Int :=
  if sn < 0 then (st.xf, st.fast, sw, xfade) else
  let trig : Bool := decide (st.xf = 0 ∧ sn = sw)
  let sw1 := if trig then 0 else sw
  let start : Bool := trig && (st.fast != inc)
  let xf1 : Int := if start then xfadeLen else st.xf
  let fast1 := if start then inc else st.fast
  let xfade1 := if start then xfade + 1 else xfade
  if xf1 ≠ 0 then
    let xf2 := xf1 - min ln xf1
    (xf2, fast1, sw1, if xf2 = 0 then xfade1 - 1 else xfade1)
  else (xf1, fast1, sw1, xfade1)

/-- `do_input_stage`: how much the half-band (or doubling) stage `sn` produces from its neighbour, and the bookkeeping
    of the fast/full cross-fade.  Returns `false` (state untouched) when there is nothing to do.
    `_minSn` only selects which filter computes the samples (`stage_num < min_stage_num`): no effect on control. -/
def doInput (s : St ρ) (sn sign _minSn : Int) : St ρ × Bool :=
  let ln := doInputLen s sn sign
  if ln ≤ 0 then (s, false) else
  let st := s.stg sn
  let x := xfadeStep st s.inc s.sw s.xfade sn ln
  let occ' := st.occ + ln + (if s.fl > 0 then (st.pre : Int) else 0)
  ({ s with sw := x.2.2.1, xfade := x.2.2.2,
            stages := s.stages.set! (sn + 1).toNat { st with occ := occ', xf := x.1, fast := x.2.1 } }, true)

/-! ### Interpolator loops (clock arithmetic only) -/

/-- `poly_fir_u`: one output per iteration. -/
def firU (s : Stream) : Nat → Stream × Nat
  | 0 => (s, 0)
  | n + 1 =>
    if INT s.clk < s.len then
      let r := firU { s with clk := s.clk + s.step, step := s.step + s.ss } n
      (r.1, r.2 + 1)
    else (s, 0)

/-- iterations of `poly_fir_fade_u` (`i += 2`), each advancing the clock once. -/
def fadeUIter (s : Stream) : Nat → Stream × Nat
  | 0 => (s, 0)
  | n + 1 =>
    if INT s.clk < s.len then
      let r := fadeUIter { s with clk := s.clk + s.step, step := s.step + s.ss } n
      (r.1, r.2 + 1)
    else (s, 0)

/-- `poly_fir_fade_u(s, …, olen)`: returns `i` (2 per iteration). -/
def fadeU (s : Stream) (olen : Nat) : Stream × Nat :=
  let r := fadeUIter s ((olen + 1) / 2)
  (r.1, 2 * r.2)

/-- pairs of `poly_fir_d` / `poly_fir_fade_d`: two clock advances and one `step += step_step` per pair; the pair is
    abandoned (clock restored) when its second sample has no input. -/
def firDPairs (s : Stream) : Nat → Stream × Nat
  | 0 => (s, 0)
  | n + 1 =>
    if INT s.clk < s.len then
      let a1 := s.clk + s.step
      if INT a1 < s.len then
        let r := firDPairs { s with clk := a1 + s.step, step := s.step + s.ss } n
        (r.1, r.2 + 1)
      else (s, 0)
    else (s, 0)

/-- `poly_fir_d(s, …, olen)` and `poly_fir_fade_d`: returns `i` (2 per pair). -/
def firD (s : Stream) (olen : Nat) : Stream × Nat :=
  let r := firDPairs s ((olen + 1) / 2)
  (r.1, 2 * r.2)

/-! ### `vr_process` -/

/-- lines 459–467: length of the next chunk, and the *snap* — once the slew is over, `step` is set to the target. -/
def chunkStart (cfg : Cfg ρ) (s : St ρ) (rem : Nat) : St ρ × Int :=
  let olen : Int := min (rem : Int) (chunkMax : Int)
  if s.slew ≠ 0 then (s, min olen s.slew)
  else match s.newR with
    | some r =>
      ({ s with cur := { setStep cfg s.cur r with ss := 0 }, fo := { setStep cfg s.fo r with ss := 0 }, newR := none }, olen)
    | none => (s, olen)

/-- lines 468–476: does `step` ask for the next octave stage up (+1) or down (-1)? -/
def stageDif (s : St ρ) : Int :=
  if s.fl = 0 ∧ s.fade = 0 ∧ s.xfade = 0 then
    if s.cur.isD then
      if INT s.cur.step ≠ 0 ∧ FRAC s.cur.step ≠ 0 then 1
      else if INT s.cur.step = 0 ∧ FRAC s.cur.step < 2147483648 then -1
      else 0
    else if INT s.cur.step > 1 ∧ FRAC s.cur.step ≠ 0 then 1
    else 0
  else 0

def b2i (b : Bool) : Int := if b then 1 else 0

/-- lines 487–494: a stage that was not running is restarted (FIFO cleared, preloaded, full filter) and fed. -/
def switchFifoA (s : St ρ) (dif : Int) : St ρ :=
  if (s.cur.sn < 0 ∧ dif < 0) ∨ (s.cur.sn > 0 ∧ dif > 0) then
    let st := s.stg s.cur.sn
    (doInput (s.setStg s.cur.sn { st with occ := st.pre, fast := false }) s.cur.sn dif s.cur.sn).1
  else s

/-- lines 495–500: going down to a half-band stage that is still running: trim it to the read position and refill. -/
def switchFifoB (s : St ρ) (dif : Int) : St ρ :=
  if s.cur.sn > 0 ∧ dif < 0 then
    let st := s.stg s.cur.sn
    (doInput (s.setStg s.cur.sn { st with occ := 2 * H2 + INT s.cur.clk + (PD / 2 : Nat) }) s.cur.sn 1 s.cur.sn).1
  else s

/-- lines 502–508: the clock, the increment and the slew increment of the new current stream are rescaled by one
    power of two; the fade of the two streams starts. -/
def rescale (s : St ρ) (dif : Int) : St ρ :=
  let sh : Int := -dif + (b2i s.fo.isD - b2i s.cur.isD)
  { s with cur := { s.cur with clk := lshift s.cur.clk (-dif), step := lshift s.cur.step sh, ss := lshift s.cur.ss sh },
           fade := fadeLen }

/-- lines 482–500: a stage switch up to (not including) `enter_new_stage`: the streams are re-labelled and the FIFO
    of the stage switched to is restarted / trimmed and refilled. -/
def switchPrep (s : St ρ) (dif : Int) : St ρ :=
  let sn' := s.cur.sn + dif
  let s1 := { s with inc := decide (dif > 0), fo := s.cur, cur := { s.cur with sn := sn' } }
  let s2 := if dif > 0 then s1 else { s1 with sw := sn' }
  switchFifoB (switchFifoA s2 dif) dif

/-- lines 482–508: switch the interpolator to the neighbouring stage and start the cross-fade of the two streams
    (`occ0`: the value of `occupancy0` that `enter_new_stage` is called with, `switchOcc`). -/
def switchStage (s : St ρ) (dif occ0 : Int) : St ρ :=
  rescale (enter (switchPrep s dif) occ0) dif

/-- `occupancy0` after a stage switch.  At an up-switch to a half-band stage (`stage_inc && stage_num > 0`):
    `occupancy0 = min(occupancy0, shiftl(max(0, fifo_occupancy − 2·HALF_FIR_LEN_2 − POLY_FIR_LEN_D/2), stage_num))` — no more than the
    restarted stage can supply to the interpolator (repair of F36) — `& ~((1 << stage_num) − 1)` — in whole samples of that stage
    (repair of F35).  Otherwise unchanged. -/
def switchOcc (s : St ρ) (dif occ0 : Int) : Int :=
  let p := switchPrep s dif
  if dif > 0 ∧ p.cur.sn > 0 then
    let avail := (p.stg p.cur.sn).occ - 2 * H2 - (PD / 2 : Nat)
    min occ0 (shiftl (max 0 avail) p.cur.sn) / 2 ^ p.cur.sn.toNat * 2 ^ p.cur.sn.toNat
  else occ0

/-- result of the interpolation part of one chunk -/
structure KRes (ρ : Type) where
  st : St ρ
  olen : Int      -- the chunk length after `min(olen, fade_len >> 1)`
  od : Nat        -- output frames produced
  mn : Int
  mx : Int
  mis : Bool      -- `odone != odone2` (the C `assert`)

/-- the two cross-faded streams of lines 522–532 (the 2x-rate stream first, its count fed to the other):
    `(current', fadeout', odone, odone2)`. -/
def fadeStreams (c f : Stream) (olen2 : Nat) : Stream × Stream × Nat × Nat :=
  if c.isD && f.isD then
    let a := firD c olen2; let b := firD f a.2; (a.1, b.1, a.2, b.2)
  else if c.isD then
    let a := firD c olen2; let b := fadeU f a.2; (a.1, b.1, a.2, b.2)
  else
    let a := firD f olen2; let b := fadeU c a.2; (b.1, a.1, a.2, b.2)

/-- lines 513–552 -/
def kernels (s : St ρ) (olen mn mx : Int) : KRes ρ :=
  if s.fade ≠ 0 then
    let olen := min olen (s.fade / 2)
    let x := fadeStreams s.cur s.fo (2 * olen).toNat
    let fade := s.fade - x.2.2.1
    let done : Bool := decide (fade = 0)
    { st := { s with cur := x.1, fo := x.2.1, fade := fade, sw := if done && s.inc then mn else s.sw },
      olen := olen, od := x.2.2.1 / 2,
      mn := if done && s.inc then mn + 1 else mn,
      mx := if done && !s.inc then mx - 1 else mx,
      mis := x.2.2.1 != x.2.2.2 }
  else if s.cur.isD then
    let a := firD s.cur (2 * olen).toNat
    { st := { s with cur := a.1 }, olen := olen, od := a.2 / 2, mn := mn, mx := mx, mis := false }
  else
    let a := firU s.cur olen.toNat
    { st := { s with cur := a.1 }, olen := olen, od := a.2, mn := mn, mx := mx, mis := false }

/-- the locals `vr_process` carries round its `while` loop, plus two ghost counters -/
structure LoopSt (ρ : Type) where
  st : St ρ
  mn : Int        -- `min_stage_num`
  mx : Int        -- `max_stage_num`
  od0 : Nat := 0  -- `odone0`
  occ : Int := 0  -- `occupancy0`: input frames both streams may use, in whole samples of the coarsest stage in use
  nsw : Nat := 0  -- ghost: stage switches taken
  nmis : Nat := 0 -- ghost: chunks in which the two cross-faded streams produced different amounts
  nneg : Nat := 0 -- ghost: chunks that ended with a negative `step` or clock (the read position runs backwards)
  nshl : Nat := 0 -- ghost: stage switches that left-shift a negative value (F14: undefined behaviour in C before the repair)

/-- does this chunk switch stages?  (`stage_dif` and `n < p->num_stages`) -/
def doesSwitch (s : St ρ) : Bool := decide (stageDif s ≠ 0 ∧ s.cur.sn + stageDif s < s.ns)

/-- `min_stage_num` after the switch decision -/
def chunkMn (l : LoopSt ρ) (dif : Int) : Int := if dif = -1 then l.mn - 1 else l.mn

/-- `max_stage_num` after the switch decision (`++max_stage_num`, and `--max_stage_num` when there is no such stage) -/
def chunkMx (l : LoopSt ρ) (dif : Int) (fits : Bool) : Int :=
  let mx1 := if dif = 1 then l.mx + 1 else l.mx
  if dif ≠ 0 ∧ fits = false then mx1 - 1 else mx1

/-- a stream whose `step` or clock has gone negative reads backwards, eventually before its FIFO.  (Before the repair
    of F13 a stale `step_step` applied to a much smaller `step` drove `step` negative; what is left is the fade-out
    clock falling a sample behind when the two cross-faded streams get out of step, `nmis`.) -/
def backwards (s : St ρ) : Bool :=
  decide (s.cur.step < 0 ∨ s.cur.clk < 0 ∨ (s.fade ≠ 0 ∧ (s.fo.step < 0 ∨ s.fo.clk < 0)))

/-- would the stage switch `dif` from state `s` apply `x << by` to a negative `x` (lines 504–507)? -/
def negLeftShift (s : St ρ) (dif : Int) : Bool :=
  let sh : Int := -dif + (b2i s.cur.isD - b2i (decide (s.cur.sn + dif ≥ 0)))
  decide ((-dif > 0 ∧ s.cur.clk < 0) ∨ (sh > 0 ∧ (s.cur.step < 0 ∨ s.cur.ss < 0)))

/-- lines 553–555 and the loop-carried locals after a chunk -/
def chunkFinish (l : LoopSt ρ) (sw shl : Bool) (k : KRes ρ) : LoopSt ρ :=
  { st := if k.st.slew ≠ 0 then { k.st with slew := k.st.slew - k.od } else k.st,
    mn := k.mn, mx := k.mx, od0 := l.od0 + k.od,
    nsw := l.nsw + (if sw then 1 else 0), nmis := l.nmis + (if k.mis then 1 else 0),
    nneg := l.nneg + (if backwards k.st then 1 else 0), nshl := l.nshl + (if shl then 1 else 0) }

/-- one iteration of `while (odone0 < olen0)`; the flag says whether the loop goes on (`odone == olen`). -/
def chunk (cfg : Cfg ρ) (olen0 : Nat) (l : LoopSt ρ) : LoopSt ρ × Bool :=
  let a := chunkStart cfg l.st (olen0 - l.od0)
  let dif := stageDif a.1
  let sw := doesSwitch a.1
  let s := if sw then switchStage a.1 dif (switchOcc a.1 dif l.occ) else a.1
  let k := kernels s a.2 (chunkMn l dif) (chunkMx l dif (decide (a.1.cur.sn + dif < a.1.ns)))
  ({ chunkFinish l sw (sw && negLeftShift a.1 dif) k with occ := if sw then switchOcc a.1 dif l.occ else l.occ },
   decide ((k.od : Int) = k.olen))

/-- the `while` loop; every continuing chunk delivers at least one frame, so `olen0 + 1` units of fuel suffice. -/
def loop (cfg : Cfg ρ) (olen0 : Nat) : Nat → LoopSt ρ → LoopSt ρ
  | 0, l => l
  | f + 1, l =>
    if l.od0 < olen0 then
      let r := chunk cfg olen0 l
      if r.2 then loop cfg olen0 f r.1 else r.1
    else l

/-- `fifo_read(f, n, NULL)` on an occupancy: nothing happens unless `0 ≤ n ≤ occupancy`. -/
def readOcc (occ n : Int) : Int := if 0 ≤ n ∧ n ≤ occ then occ - n else occ

/-- `for (i = from; i >= to; --i, idone <<= 1) fifo_read(&p->stages[i].fifo, idone, NULL);` -/
def readStages (s : St ρ) (i idone : Int) : Nat → St ρ
  | 0 => s
  | n + 1 =>
    let st := s.stg i
    readStages (s.setStg i { st with occ := readOcc st.occ idone }) (i - 1) (idone * 2) n

/-- lines 558–566: hand the consumed input back to the FIFOs and rebase both clocks. -/
def post (s : St ρ) (mn mx : Int) : St ρ :=
  let frm := max 0 mx
  let to := min 0 mn
  let c := s.cur
  let idone := shiftr (INT c.clk) (frm - c.sn)
  let c := { c with clk := c.clk - shiftl idone (frm - c.sn) * two32 }
  let f := if s.fade ≠ 0 then { s.fo with clk := s.fo.clk - shiftl idone (frm - s.fo.sn) * two32 } else s.fo
  readStages { s with cur := c, fo := f } frm idone (frm - to + 1).toNat

def intRange (a b : Int) : List Int := (List.range (b - a + 1).toNat).map fun (k : Nat) => a + (k : Int)

/-- `for (j = min(min_stage_num, 0); j <= max_stage_num; ++j) if (j && !do_input_stage(…)) break;` -/
def inputStages (s : St ρ) (mn : Int) : List Int → St ρ
  | [] => s
  | j :: js =>
    if j = 0 then inputStages s mn js
    else
      let r := doInput s j (if j < 0 then -1 else 1) mn
      if r.2 then inputStages r.1 mn js else r.1

/-- result of `vr_process` -/
structure PRes (ρ : Type) where
  st : St ρ
  od : Nat      -- frames produced (return value)
  nsw : Nat
  nmis : Nat
  nneg : Nat
  nshl : Nat

/-- line 430: the first `vr_process` sets the ratio given at creation, if none has been set since. -/
def applyDefault (cfg : Cfg ρ) (s : St ρ) : St ρ :=
  match s.defR with
  | some r => setIoRatio cfg s r 0
  | none => s

/-- lines 447–453: how much input both streams may use (`len`), in samples of their stages. -/
def setLens (s : St ρ) (occ0 : Int) : St ρ :=
  let s := { s with cur := { s.cur with len := shiftr occ0 s.cur.sn } }
  if s.fade ≠ 0 then { s with fo := { s.fo with len := shiftr occ0 s.fo.sn } } else s

/-- lines 430–453: everything `vr_process` does before its `while` loop. -/
def preLoop (cfg : Cfg ρ) (s : St ρ) (olen0 : Nat) : LoopSt ρ × Int :=
  let s := applyDefault cfg s
  let s := { s with oocc := s.oocc + olen0 }
  let mn := if s.fade ≠ 0 then min s.cur.sn s.fo.sn else s.cur.sn
  let mx := if s.fade ≠ 0 then max s.cur.sn s.fo.sn else s.cur.sn
  let s := inputStages s mn (intRange (min mn 0) mx)
  let s := if s.fl > 0 then { s with fl := -1 } else s
  let occ0 := shiftl (max 0 ((s.stg mx).occ - 4 * H2)) mx
  ({ st := setLens s occ0, mn := mn, mx := mx, occ := occ0 }, occ0)

/-- `vr_process` -/
def process (cfg : Cfg ρ) (s : St ρ) (olen0 : Nat) : PRes ρ :=
  let p := preLoop cfg s olen0
  let l := loop cfg olen0 (olen0 + 1) p.1
  let s := post l.st l.mn l.mx
  { st := { s with oocc := s.oocc - ((olen0 : Int) - l.od0) }, od := l.od0, nsw := l.nsw, nmis := l.nmis, nneg := l.nneg,
    nshl := l.nshl }

/-- `vr_input` -/
def input (s : St ρ) (n : Nat) : St ρ :=
  let st := s.stg 0
  s.setStg 0 { st with occ := st.occ + n }

/-- `vr_flush` -/
def flush (s : St ρ) : St ρ :=
  if s.fl = 0 then
    let st := s.stg 0
    { s.setStg 0 { st with occ := st.occ + st.pre } with fl := s.fl + 1 }
  else s

/-- `vr_output`: returns the new state and the number of frames delivered. -/
def output (s : St ρ) (n : Nat) : St ρ × Nat :=
  let k := min (n : Int) s.oocc
  ({ s with oocc := s.oocc - k }, k.toNat)

/-! ### Call sequences (what `soxr_process` does to one VR channel) -/

inductive Op (ρ : Type) where
  | ratio (r : ρ) (slew : Nat)     -- `soxr_set_io_ratio` reaching the engine
  | proc (ilen olen : Nat)         -- `soxr_process(in, …)`: `ilen` frames taken, `olen` requested
  | flush (olen : Nat)             -- `soxr_process(NULL, …)`
  deriving Repr

def Op.isRatio : Op ρ → Bool
  | .ratio _ _ => true
  | _ => false

/-- accumulated result of a call sequence -/
structure Run (ρ : Type) where
  st : St ρ
  out : Nat := 0     -- frames produced by `vr_process` over the sequence
  nsw : Nat := 0
  nmis : Nat := 0
  nneg : Nat := 0
  nshl : Nat := 0

def stepOp (cfg : Cfg ρ) (r : Run ρ) : Op ρ → Run ρ
  | .ratio x slew => { r with st := setIoRatio cfg r.st x slew }
  | .proc ilen olen =>
    let p := process cfg (input r.st ilen) olen
    { st := (output p.st olen).1, out := r.out + p.od, nsw := r.nsw + p.nsw, nmis := r.nmis + p.nmis,
      nneg := r.nneg + p.nneg, nshl := r.nshl + p.nshl }
  | .flush olen =>
    let p := process cfg (flush r.st) olen
    { st := (output p.st olen).1, out := r.out + p.od, nsw := r.nsw + p.nsw, nmis := r.nmis + p.nmis,
      nneg := r.nneg + p.nneg, nshl := r.nshl + p.nshl }

def run (cfg : Cfg ρ) (r : Run ρ) (ops : List (Op ρ)) : Run ρ := ops.foldl (stepOp cfg) r

/-! ### Exact evaluation of the floating-point expressions on IEEE-754 binary64 bit patterns

For a finite positive `double` `r = m · 2^e` and `step_mult` a power of two, `r * step_mult` is exact and, below 2^52,
`r * step_mult + .5` either is exact or is rounded inside `[2^k, 2^k + 1/2]`, so the C conversion yields exactly
`⌊r · step_mult + 1/2⌋`.  (The driver checks this against IEEE arithmetic at every evaluation.) -/

/-- mantissa and exponent of a finite binary64: value = `m · 2^e`. -/
def decode (bits : Nat) : Nat × Int :=
  let ex : Nat := (bits / 2 ^ 52) % 2048
  let fr : Nat := bits % 2 ^ 52
  if ex = 0 then (fr, -1074) else (fr + 2 ^ 52, (ex : Int) - 1075)

/-- `⌊m · 2^e · mult + 1/2⌋` -/
def exactStepOf (bits mult : Nat) : Int :=
  let (m, e) := decode bits
  if e ≥ 0 then (m * 2 ^ e.toNat * mult : Nat)
  else ((2 * m * mult + 2 ^ (-e).toNat) / 2 ^ ((-e).toNat + 1) : Nat)

/-- `⌊log₂ r⌋` for a normal positive binary64 -/
def exactOctave (bits : Nat) : Int :=
  let ex : Nat := (bits / 2 ^ 52) % 2048
  (ex : Int) - 1023

/-- the halving loop of `vr_create` (exact in binary64): the least `n` with `r ≤ 2^n` -/
def exactNumStages (bits : Nat) : Nat :=
  let o := exactOctave bits
  if o < 0 then 0 else if bits % 2 ^ 52 = 0 then o.toNat else o.toNat + 1

def Num.exact : Num Nat := { stepOf := exactStepOf, octave := exactOctave, numStages := exactNumStages }

/-! ### `soxr_set_io_ratio` (soxr.c): the decision logic -/

/-- what `soxr_set_io_ratio` looks at in `struct soxr` -/
structure ApiSt (ρ : Type) where
  sticky : Bool      -- `p->error != 0`
  nch : Nat          -- `p->num_channels`
  inited : Bool      -- `p->channel_ptrs != 0`
  isVR : Bool        -- `p->control_block[8] != 0`: the engine has a `set_io_ratio` entry
  ioRatio : ρ
  deriving Repr, DecidableEq

inductive SetRes where
  | ok | invalidPtr | sticky | noChannels | outOfRange | notSupported
  deriving Repr, DecidableEq

def SetRes.code : SetRes → Nat
  | .ok => 0 | .invalidPtr => 1 | .sticky => 2 | .noChannels => 3 | .outOfRange => 4 | .notSupported => 5

/-- the error strings of soxr.c (`sticky` returns whatever `p->error` holds) -/
def SetRes.msg : SetRes → String
  | .ok => ""
  | .invalidPtr => "invalid soxr_t pointer"
  | .sticky => "(p->error)"
  | .noChannels => "must set # channels before O/I ratio"
  | .outOfRange => "I/O ratio out-of-range"
  | .notSupported => "varying O/I ratio is not supported with this quality level"

/-- the two floating-point tests of `soxr_set_io_ratio` -/
structure ApiNum (ρ : Type) where
  /-- `io_ratio <= 0` -/
  le0 : ρ → Bool
  /-- `fabs(p->io_ratio - io_ratio) < 1e-15` -/
  close : ρ → ρ → Bool

/-- outcome: the return value, the struct afterwards, how many engine objects had `set_io_ratio(r, slew)` called,
    and whether `initialise` was entered (then the return value is `initialise`'s; `ok` stands for that). -/
structure SetOut (ρ : Type) where
  res : SetRes
  st : Option (ApiSt ρ)
  engineCalls : Nat := 0
  initialised : Bool := false

def apiSetIoRatio (n : ApiNum ρ) (p : Option (ApiSt ρ)) (r : ρ) : SetOut ρ :=
  match p with
  | none => { res := .invalidPtr, st := none }
  | some a =>
    if a.sticky then { res := .sticky, st := some a }
    else if a.nch = 0 then { res := .noChannels, st := some a }
    else if n.le0 r then { res := .outOfRange, st := some a }
    else if !a.inited then { res := .ok, st := some { a with ioRatio := r, inited := true }, initialised := true }
    else if a.isVR then { res := .ok, st := some a, engineCalls := a.nch }
    else if n.close a.ioRatio r then { res := .ok, st := some a }
    else { res := .notSupported, st := some a }

end Soxr.Vr
