import SoxrModel.Vr.Model
/-!
# Arithmetic of the slew increment and of the constant-step clock (`Vr/Model.lean`)
-/
namespace Soxr.Vr

/-! ### `set_step_step`: the increment is the rounded quotient -/

/-- For `dif = target − step` and `L = slew_len > 0`: `L · step_step` misses `dif` by at most `L/2`. -/
theorem slewInc_bound (target step : Int) (L : Nat) (hL : 0 < L) :
    2 * ((L : Int) * slewInc target step L - (target - step)) ≤ L ∧
    2 * ((target - step) - (L : Int) * slewInc target step L) ≤ L := by
  unfold slewInc
  dsimp only
  have hLi : (0 : Int) < (L : Int) := by omega
  by_cases h : target - step < 0
  · rw [if_pos h]
    -- tdiv of a negative numerator: −((−d)/L)
    have hd : 0 ≤ -(target - step - ((L / 2 : Nat) : Int)) := by omega
    have e : Int.tdiv (target - step - ((L / 2 : Nat) : Int)) L = -((-(target - step - ((L / 2 : Nat) : Int))) / (L : Int)) := by
      have := Int.neg_tdiv (-(target - step - ((L / 2 : Nat) : Int))) (L : Int)
      rw [Int.neg_neg] at this
      rw [this, Int.tdiv_eq_ediv_of_nonneg hd]
    rw [e]
    have h1 := Int.mul_ediv_add_emod (-(target - step - ((L / 2 : Nat) : Int))) (L : Int)
    have h2 := Int.emod_nonneg (-(target - step - ((L / 2 : Nat) : Int))) (Int.ne_of_gt hLi)
    have h3 := Int.emod_lt_of_pos (-(target - step - ((L / 2 : Nat) : Int))) hLi
    generalize (-(target - step - ((L / 2 : Nat) : Int))) / (L : Int) = q at *
    generalize (-(target - step - ((L / 2 : Nat) : Int))) % (L : Int) = r at *
    rw [Int.mul_neg]
    have : ((L / 2 : Nat) : Int) = (L : Int) / 2 := by omega
    omega
  · rw [if_neg h]
    have hd : 0 ≤ target - step + ((L / 2 : Nat) : Int) := by omega
    rw [Int.tdiv_eq_ediv_of_nonneg hd]
    have h1 := Int.mul_ediv_add_emod (target - step + ((L / 2 : Nat) : Int)) (L : Int)
    have h2 := Int.emod_nonneg (target - step + ((L / 2 : Nat) : Int)) (Int.ne_of_gt hLi)
    have h3 := Int.emod_lt_of_pos (target - step + ((L / 2 : Nat) : Int)) hLi
    generalize (target - step + ((L / 2 : Nat) : Int)) / (L : Int) = q at *
    generalize (target - step + ((L / 2 : Nat) : Int)) % (L : Int) = r at *
    have : ((L / 2 : Nat) : Int) = (L : Int) / 2 := by omega
    omega

/-- the increment has the sign of `target − step` (or is 0) -/
theorem slewInc_sign (target step : Int) (L : Nat) (hL : 0 < L) :
    (step ≤ target → 0 ≤ slewInc target step L) ∧ (target ≤ step → slewInc target step L ≤ 0) := by
  unfold slewInc
  dsimp only
  have hLi : (0 : Int) < (L : Int) := by omega
  constructor
  · intro h
    by_cases h' : target - step < 0
    · omega
    · rw [if_neg h']
      have hd : 0 ≤ target - step + ((L / 2 : Nat) : Int) := by omega
      rw [Int.tdiv_eq_ediv_of_nonneg hd]
      exact (Int.ediv_nonneg_iff_of_pos hLi).mpr hd
  · intro h
    by_cases h' : target - step < 0
    · rw [if_pos h']
      have hd : 0 ≤ -(target - step - ((L / 2 : Nat) : Int)) := by omega
      have := Int.neg_tdiv (-(target - step - ((L / 2 : Nat) : Int))) (L : Int)
      rw [Int.neg_neg] at this
      rw [this, Int.tdiv_eq_ediv_of_nonneg hd]
      have := (Int.ediv_nonneg_iff_of_pos hLi).mpr hd
      omega
    · have e : target - step = 0 := by omega
      rw [if_neg h', e]
      have hd : 0 ≤ (0 : Int) + ((L / 2 : Nat) : Int) := by omega
      rw [Int.tdiv_eq_ediv_of_nonneg hd]
      have : ((0 : Int) + ((L / 2 : Nat) : Int)) / (L : Int) = 0 := by
        apply Int.ediv_eq_zero_of_lt hd
        omega
      omega

/-! ### The clock at a constant step -/

theorem INT_lt_iff (a len : Int) : INT a < len ↔ a < len * two32 := by
  unfold INT two32
  exact Int.ediv_lt_iff_lt_mul (by decide)

/-- `poly_fir_u` at a constant `step` (`step_step = 0`): the clock after `k` outputs is `at + k·step`; every output
    had its input (`at + i·step < len`), and if fewer than the requested `n` were produced the clock has run out of
    input. -/
theorem firU_const (n : Nat) (s : Stream) (h0 : s.ss = 0) :
    (firU s n).1.clk = s.clk + ((firU s n).2 : Int) * s.step ∧
    ((firU s n).2 < n → s.len * two32 ≤ s.clk + ((firU s n).2 : Int) * s.step) ∧
    (∀ i : Nat, i < (firU s n).2 → s.clk + (i : Int) * s.step < s.len * two32) := by
  induction n generalizing s with
  | zero => simp [firU]
  | succ n ih =>
    unfold firU
    split
    · rename_i hlt
      obtain ⟨S, hS⟩ : ∃ S, S = ({ s with clk := s.clk + s.step, step := s.step + s.ss } : Stream) := ⟨_, rfl⟩
      have c1 : S.clk = s.clk + s.step := by rw [hS]
      have c2 : S.step = s.step := by rw [hS]; simp [h0]
      have c3 : S.len = s.len := by rw [hS]
      have c4 : S.ss = 0 := by rw [hS]; exact h0
      rw [← hS]
      have h := ih S c4
      rw [c1, c2, c3] at h
      simp only at h ⊢
      obtain ⟨h1, h2, h3⟩ := h
      refine ⟨?_, ?_, ?_⟩
      · rw [h1]; push_cast; rw [Int.add_mul]; omega
      · intro hk
        have := h2 (by omega)
        push_cast; rw [Int.add_mul]; omega
      · intro i hi
        cases i with
        | zero => simpa using (INT_lt_iff _ _).mp hlt
        | succ i =>
          have := h3 i (by omega)
          push_cast; rw [Int.add_mul]; omega
    · rename_i hge
      refine ⟨by simp, fun _ => ?_, fun i hi => by simp at hi⟩
      have : ¬ (s.clk < s.len * two32) := fun h => hge ((INT_lt_iff s.clk s.len).mpr h)
      simp
      omega

/-- pairs of `poly_fir_d` at a constant `step`: after `k` pairs the clock is `at + 2k·step`; both samples of every
    pair had their input, and if fewer pairs than requested were produced, the next pair has not. -/
theorem firDPairs_const (n : Nat) (s : Stream) (h0 : s.ss = 0) (hs : 0 ≤ s.step) :
    (firDPairs s n).1.clk = s.clk + ((firDPairs s n).2 : Int) * (2 * s.step) ∧
    ((firDPairs s n).2 < n → s.len * two32 ≤ s.clk + ((firDPairs s n).2 : Int) * (2 * s.step) + s.step) ∧
    (∀ i : Nat, i < (firDPairs s n).2 → s.clk + (i : Int) * (2 * s.step) + s.step < s.len * two32) := by
  induction n generalizing s with
  | zero => simp [firDPairs]
  | succ n ih =>
    unfold firDPairs
    split
    · rename_i hlt
      dsimp only
      split
      · rename_i hlt2
        obtain ⟨S, hS⟩ : ∃ S, S = ({ s with clk := s.clk + s.step + s.step, step := s.step + s.ss } : Stream) := ⟨_, rfl⟩
        have c1 : S.clk = s.clk + s.step + s.step := by rw [hS]
        have c2 : S.step = s.step := by rw [hS]; simp [h0]
        have c3 : S.len = s.len := by rw [hS]
        have c4 : S.ss = 0 := by rw [hS]; exact h0
        rw [← hS]
        have h := ih S c4 (by rw [c2]; exact hs)
        rw [c1, c2, c3] at h
        simp only at h ⊢
        obtain ⟨h1, h2, h3⟩ := h
        refine ⟨?_, ?_, ?_⟩
        · rw [h1]; push_cast; rw [Int.add_mul]; omega
        · intro hk
          have := h2 (by omega)
          push_cast; rw [Int.add_mul]; omega
        · intro i hi
          cases i with
          | zero => simpa using (INT_lt_iff _ _).mp hlt2
          | succ i =>
            have := h3 i (by omega)
            push_cast; rw [Int.add_mul]; omega
      · rename_i hge
        refine ⟨by simp, fun _ => ?_, fun i hi => by simp at hi⟩
        have : ¬ (s.clk + s.step < s.len * two32) := fun h => hge ((INT_lt_iff (s.clk + s.step) s.len).mpr h)
        simp
        omega
    · rename_i hge
      refine ⟨by simp, fun _ => ?_, fun i hi => by simp at hi⟩
      have : ¬ (s.clk < s.len * two32) := fun h => hge ((INT_lt_iff s.clk s.len).mpr h)
      simp
      omega

/-! ### Input time: one unit for every stage

A stage-`sn` sample lasts `2^sn` input frames (`sn = −1`: half a frame), so a clock value `at` of stage `sn` is the
position `at · 2^(sn+1)` in units of `2⁻³³` input frames, whatever the stage.  A down-sampling stream (`is_d`) advances
twice per output frame. -/

/-- units of `2⁻³³` input frames per clock unit (`2⁻³²` sample) of stage `sn ≥ −1` -/
def posScale (sn : Int) : Int := 2 ^ (sn + 1).toNat
/-- read position in input time -/
def posIn (c : Stream) : Int := c.clk * posScale c.sn
/-- units of `2⁻³³` input frames per output frame for one unit of `step` -/
def rateScale (c : Stream) : Int := posScale c.sn * (if c.isD then 2 else 1)
/-- the instantaneous ratio: input time per output frame, in units of `2⁻³³` input frames (`≈ io_ratio · 2³³`) -/
def rateIn (c : Stream) : Int := c.step * rateScale c
/-- the slew: change of `rateIn` per output frame -/
def slewIn (c : Stream) : Int := c.ss * rateScale c

theorem posScale_pos (sn : Int) : 0 < posScale sn := Int.pow_pos (by decide)

theorem posScale_succ (sn : Int) (h : -1 ≤ sn) : posScale (sn + 1) = 2 * posScale sn := by
  unfold posScale
  obtain ⟨n, hn⟩ := Int.eq_ofNat_of_zero_le (show 0 ≤ sn + 1 by omega)
  rw [hn, show ((n : Int) + 1) = ((n + 1 : Nat) : Int) by omega, Int.toNat_natCast, Int.toNat_natCast, Int.pow_succ]
  omega

theorem lshift_one (x : Int) : lshift x 1 = x * 2 := by simp [lshift]
theorem lshift_two (x : Int) : lshift x 2 = x * 4 := by simp [lshift]
theorem lshift_neg_one (x : Int) : lshift x (-1) = x / 2 := by simp [lshift]
theorem lshift_neg_two (x : Int) : lshift x (-2) = x / 4 := by simp [lshift]

/-- `x·P − (x/2)·(2P)` is `0` or `P`: halving a clock value loses less than one unit of the coarser clock. -/
theorem half_floor_scaled (x P : Int) (hP : 0 < P) : 0 ≤ x * P - x / 2 * (2 * P) ∧ x * P - x / 2 * (2 * P) < 2 * P := by
  have h1 : x = 2 * (x / 2) + x % 2 := by omega
  have h2 : x % 2 = 0 ∨ x % 2 = 1 := by omega
  have e : x * P - x / 2 * (2 * P) = (x % 2) * P := by
    have : x * P = (2 * (x / 2) + x % 2) * P := by rw [← h1]
    rw [this, Int.add_mul, Int.mul_assoc, Int.mul_comm 2 (x / 2 * P), Int.mul_assoc (x / 2) P 2, Int.mul_comm P 2]
    omega
  rw [e]
  rcases h2 with h | h <;> rw [h] <;> omega

theorem quarter_floor (x : Int) : 0 ≤ x - x / 4 * 4 ∧ x - x / 4 * 4 < 4 := by omega

/-! ### The repaired left shift (F14)

Since the `fix:` commit for F14 the macro is `(x) = (by) > 0 ? (int64_t)((uint64_t)(x) << (by)) : (x) >> -(by)`: the left
shift is done on the unsigned representation (defined for every value) and converted back (modulo `2⁶⁴`: gcc, clang
and MSVC).  The model's `lshift` multiplies unbounded integers; the two agree — for negative values too — whenever the
product fits `int64_t`.  (Before the repair `x << by` with `x < 0` was undefined behaviour.) -/

/-- `(uint64_t)x`: the two's-complement representation of an `int64_t` -/
def toU64 (x : Int) : Int := x % 2 ^ 64
/-- `(int64_t)u` for a `uint64_t` (modulo `2⁶⁴`) -/
def toI64 (u : Int) : Int := if u % 2 ^ 64 < 2 ^ 63 then u % 2 ^ 64 else u % 2 ^ 64 - 2 ^ 64
/-- `(int64_t)((uint64_t)x << k)`: the `uint64_t` shift drops the bits above `2⁶⁴` -/
def shlC (x : Int) (k : Nat) : Int := toI64 (toU64 x * 2 ^ k % 2 ^ 64)
/-- the repaired macro `lshift(x, by)` of vr32.c (`>>` of a negative `int64_t` is the arithmetic shift: floor) -/
def lshiftC (x by_ : Int) : Int := if by_ > 0 then shlC x by_.toNat else x / 2 ^ (-by_).toNat

theorem toI64_of_range (y : Int) (hlo : -2 ^ 63 ≤ y) (hhi : y < 2 ^ 63) : toI64 (y % 2 ^ 64) = y := by
  unfold toI64
  rw [Int.emod_emod_of_dvd y (Int.dvd_refl _)]
  split <;> omega

/-- the shift on the unsigned representation is multiplication by `2^k`, whatever the sign of `x`, as long as the
    product is an `int64_t` -/
theorem shlC_eq_mul (x : Int) (k : Nat) (hlo : -2 ^ 63 ≤ x * 2 ^ k) (hhi : x * 2 ^ k < 2 ^ 63) : shlC x k = x * 2 ^ k := by
  unfold shlC toU64
  rw [Int.mul_emod, Int.emod_emod, ← Int.mul_emod]
  exact toI64_of_range _ hlo hhi

/-- **F14, repaired.**  The macro of the repaired code computes what the model's `lshift` computes, for every `x`
    (negative ones in particular: `step_step` of a downward slew) and every shift amount, provided the result of a
    left shift fits 64 bits (it does: `at`, `step`, `step_step` are below `2⁴⁷` in magnitude and the shift is 1 or 2). -/
theorem lshiftC_eq_lshift (x by_ : Int) (h : by_ > 0 → -2 ^ 63 ≤ x * 2 ^ by_.toNat ∧ x * 2 ^ by_.toNat < 2 ^ 63) :
    lshiftC x by_ = lshift x by_ := by
  unfold lshiftC lshift
  split
  · rename_i hb
    exact shlC_eq_mul x _ (h hb).1 (h hb).2
  · rfl

/-- the values of the UBSan reports on the pinned tree (`left shift of negative value -1073742`), and a large one -/
example : lshiftC (-1073742) 1 = -2147484 ∧ lshiftC (-2720146) 2 = -10880584 ∧ lshiftC (-1073742) (-1) = -536871 ∧
    lshiftC (-(2 ^ 46)) 2 = -(2 ^ 48) := by decide
/-- … which is what the machine types do: `Int64 → UInt64`, `<<<`, back -/
example : ((Int64.ofInt (-1073742)).toUInt64 <<< 1).toInt64.toInt = lshiftC (-1073742) 1 ∧
    ((Int64.ofInt (-2720146)).toUInt64 <<< 2).toInt64.toInt = lshiftC (-2720146) 2 := by decide

end Soxr.Vr
