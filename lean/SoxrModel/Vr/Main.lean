/-! Line-protocol driver of the Vr model (stub). -/
def main : IO Unit := pure ()
