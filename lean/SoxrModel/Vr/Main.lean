import SoxrModel.Vr.Model
/-! Line-protocol driver of the variable-rate skeleton (`soxr_vr < ops`).  One op per line in, one canonical line out;
    the check diffs these lines with what `harness/vr/trace.c` printed from the real code (integers only; the two
    `double` fields travel as IEEE bit patterns).

    `gshl=` / `gsw=` in the answer to `vr.proc` / `vr.flush` are ghost outputs of the model (stage switches that shift a
    negative value left: where UBSan fired before the repair of F14; stage switches taken), and `mis=` counts the chunks
    in which the two cross-faded streams delivered different amounts (where the C assertion `odone == odone2` fails,
    F35) — the check strips them before the diff.

    Ops: `vr.create <bits>` · `vr.ratio <bits> <slew>` · `vr.proc <ilen> <olen>` · `vr.flush <olen>` ·
         `api.set valid= sticky= nch= inited= vr= cur= r= slew=`

    The floating-point expressions of vr32.c / soxr.c are evaluated here in IEEE binary64 (`Float`); at every ratio the
    result is also compared with the exact dyadic evaluation `Num.exact` that the Lean witnesses use — a difference is
    printed (`ORACLE-MISMATCH`) and so fails the correspondence. -/
namespace Soxr.Vr.Driver
open Soxr.Vr

def half : Float := Float.ofBits 0x3FE0000000000000
def ln2 : Float := Float.ofBits 0x3FE62E42FEFA39EF      -- M_LN2
def eps15 : Float := Float.ofBits 0x3CD203AF9EE75616    -- 1e-15

partial def halvings (x : Float) (n : Nat) : Nat := if x > 1.0 ∧ n < 5000 then halvings (x * half) (n + 1) else n

/-- IEEE evaluation of the three expressions; a `double` is its bit pattern. -/
def fNum : Num UInt64 :=
  { stepOf := fun b m => ((Float.ofBits b) * (Float.ofNat m) + half).toInt64.toInt,
    octave := fun b => (Float.floor (Float.log (Float.ofBits b) / ln2)).toInt64.toInt,
    numStages := fun b => halvings (Float.ofBits b) 0 }

def fApi : ApiNum UInt64 :=
  { le0 := fun b => Float.ofBits b <= 0.0,
    close := fun a b => Float.abs (Float.ofBits a - Float.ofBits b) < eps15 }

def cfg : Cfg UInt64 := { num := fNum }

/-- does IEEE arithmetic agree with the exact dyadic evaluation for this ratio, for every `step_mult` there is? -/
def oracleAgrees (b : UInt64) : Bool :=
  (List.range 35).all fun k => fNum.stepOf b (2 ^ k) == exactStepOf b.toNat (2 ^ k)

def kvs (toks : List String) : List (String × String) :=
  toks.filterMap fun t => match t.splitOn "=" with
    | [k, v] => some (k, v)
    | _ => none
def getNat (m : List (String × String)) (k : String) : Nat := ((m.lookup k).getD "").toNat?.getD 0

def b2n (b : Bool) : Nat := if b then 1 else 0
def optBits : Option UInt64 → Nat
  | some b => b.toNat
  | none => 0

def streamStr (s : Stream) : String := s!"{s.clk}/{s.step}/{s.ss}/{s.len}/{s.sn}/{b2n s.isD}"

def stateLine (s : St UInt64) : String :=
  let occ := String.join (s.stages.toList.map fun st => s!"{st.occ}/{b2n st.fast}/{st.xf},")
  s!"S ns0={s.ns0} ns={s.ns} fl={s.fl} fade={s.fade} slew={s.slew} xfade={s.xfade} inc={b2n s.inc} sw={s.sw} " ++
  s!"newr={optBits s.newR} defr={optBits s.defR} oocc={s.oocc} occ={occ} cur={streamStr s.cur} fo={streamStr s.fo}"

structure DSt where
  st : St UInt64 := {}

def procLine (p : PRes UInt64) (olen : Nat) : DSt × String :=
  let o := output p.st olen
  ({ st := o.1 }, s!"R od={o.2} mis={p.nmis} neg={p.nneg} gshl={p.nshl} gsw={p.nsw} " ++ stateLine o.1)

def step (d : DSt) (line : String) : DSt × Option String :=
  let toks := (line.trimAscii.toString.splitOn " ").filter (· ≠ "")
  match toks with
  | ["vr.create", b] =>
    let bits := (b.toNat?.getD 0).toUInt64
    let s := init cfg bits
    ({ st := s }, some ("C vr=1 " ++ stateLine s ++ (if oracleAgrees bits then "" else " ORACLE-MISMATCH")))
  | ["vr.ratio", b, slew] =>
    let bits := (b.toNat?.getD 0).toUInt64
    let s := setIoRatio cfg d.st bits (slew.toNat?.getD 0)
    ({ st := s }, some (stateLine s ++ (if oracleAgrees bits then "" else " ORACLE-MISMATCH")))
  | ["vr.proc", ilen, olen] =>
    let ol := olen.toNat?.getD 0
    let (d', s) := procLine (process cfg (input d.st (ilen.toNat?.getD 0)) ol) ol
    (d', some s)
  | ["vr.flush", olen] =>
    let ol := olen.toNat?.getD 0
    let (d', s) := procLine (process cfg (flush d.st) ol) ol
    (d', some s)
  | "api.set" :: rest =>
    let m := kvs rest
    let cur := (getNat m "cur").toUInt64
    let r := (getNat m "r").toUInt64
    let p : Option (ApiSt UInt64) :=
      if getNat m "valid" == 0 then none
      else some { sticky := getNat m "sticky" != 0, nch := getNat m "nch", inited := getNat m "inited" != 0,
                  isVR := getNat m "vr" != 0, ioRatio := cur }
    let o := apiSetIoRatio fApi p r
    let cur' := match o.st with
      | some a => a.ioRatio.toNat
      | none => 0
    (d, some s!"A res={o.res.code} cur={cur'}")
  | [] => (d, none)
  | _ => (d, some "bad-op")

partial def loop (h : IO.FS.Stream) (out : IO.FS.Stream) (d : DSt) : IO Unit := do
  let line ← h.getLine
  if line.isEmpty then return ()
  let (d', o) := step d line
  match o with
  | some s => out.putStrLn s
  | none => pure ()
  loop h out d'

end Soxr.Vr.Driver

def main : IO Unit := do
  Soxr.Vr.Driver.loop (← IO.getStdin) (← IO.getStdout) {}
