import SoxrModel.Vr.Engine
import Mathlib.Tactic.IntervalCases
import Mathlib.Tactic.NormNum
/-!
# The stage the first request chooses suits its increment — for the exact evaluation `Num.exact`

`frames_full_engine` assumes `InRange`: the increment `(int64)(io_ratio * step_mult + .5)` lies in the octave of the stage
chosen by `(int)floor(log(io_ratio) / M_LN2)`.  That is a fact about the floating-point evaluation.  For `Num.exact`
(exact dyadic arithmetic on the bit patterns, which the driver compares with IEEE arithmetic at every ratio) it is
proved here for every normal ratio `2⁻⁶ ≤ r ≤ max`, `max < 2³¹`.
-/
namespace Soxr.Vr

/-- `exactStepOf` on mantissa and exponent -/
def stepME (m : Nat) (e : Int) (mult : Nat) : Int :=
  if e ≥ 0 then (m * 2 ^ e.toNat * mult : Nat) else ((2 * m * mult + 2 ^ (-e).toNat) / 2 ^ ((-e).toNat + 1) : Nat)

theorem exactStepOf_eq (bits mult : Nat) : exactStepOf bits mult = stepME (decode bits).1 (decode bits).2 mult := by
  unfold exactStepOf stepME
  rfl

/-- a normal double: mantissa in `[2⁵², 2⁵³)`, exponent `octave − 52` -/
theorem decode_normal (bits : Nat) (h : 1 ≤ (bits / 2 ^ 52) % 2048) :
    (decode bits).1 = bits % 2 ^ 52 + 2 ^ 52 ∧ (decode bits).2 = exactOctave bits - 52 := by
  unfold decode exactOctave
  simp only
  rw [if_neg (by omega)]
  exact ⟨rfl, by omega⟩

/-- the rounded quotient for a negative exponent `−a` -/
def stepNeg (m a mult : Nat) : Nat := (2 * m * mult + 2 ^ a) / 2 ^ (a + 1)

theorem stepME_neg (m a mult : Nat) (ha : 0 < a) : stepME m (-(a : Int)) mult = (stepNeg m a mult : Nat) := by
  unfold stepME stepNeg
  rw [if_neg (by omega)]
  simp

theorem stageMult_half (o : Nat) (ho : o ≤ 30) : stageMult (o : Int) / 2 = 2 ^ (31 - o) := by
  interval_cases o <;> decide

theorem stageMult_neg_one : stageMult (-1) = 8589934592 := by decide

/-- down-sampling stage `o`, ratio in `[2^o, 2^(o+1))`: the increment is `m / 2²¹` rounded, in `[2³¹, 2³²]` -/
theorem stepNeg_stage (o : Nat) (ho : o ≤ 30) (m : Nat) (h1 : 2 ^ 52 ≤ m) (h2 : m < 2 ^ 53) :
    2147483648 ≤ stepNeg m (52 - o) (2 ^ (31 - o)) ∧ stepNeg m (52 - o) (2 ^ (31 - o)) ≤ 4294967296 := by
  unfold stepNeg
  interval_cases o <;> norm_num <;> omega

/-- the ratio exactly `2^(o+1)` rendered on stage `o` (the top stage of an engine whose maximum is that power of two) -/
theorem stepNeg_top (o : Nat) (ho : o ≤ 30) : stepNeg (2 ^ 52) (52 - (o + 1)) (2 ^ (31 - o)) = 4294967296 := by
  unfold stepNeg
  interval_cases o <;> norm_num

/-- up-sampling stage, ratio in `[2^-a', 2^(1-a'))` with `1 ≤ a' ≤ 6`: the increment is in `(0, 2³³]` -/
theorem stepNeg_up (a' : Nat) (h1 : 1 ≤ a') (h6 : a' ≤ 6) (m : Nat) (hm1 : 2 ^ 52 ≤ m) (hm2 : m < 2 ^ 53) :
    0 < stepNeg m (52 + a') 8589934592 ∧ stepNeg m (52 + a') 8589934592 ≤ 8589934592 := by
  unfold stepNeg
  interval_cases a' <;> norm_num <;> omega

/-- ratio exactly 1.0 on the up-sampling stage (declared maximum 1) -/
theorem stepNeg_one : stepNeg (2 ^ 52) 52 8589934592 = 8589934592 := by
  unfold stepNeg; norm_num

/-- what the first `vr_set_io_ratio(r, 0)` stores -/
theorem first_ratio_fields {ρ : Type} (cfg : Cfg ρ) (s : St ρ) (r x : ρ) (hd : s.defR = some x) :
    (setIoRatio cfg s r 0).cur.sn = (if cfg.num.octave r < 0 then -1 else min (cfg.num.octave r) ((s.ns0 : Int) - 1)) ∧
    (setIoRatio cfg s r 0).cur.isD = decide ((setIoRatio cfg s r 0).cur.sn ≥ 0) ∧
    (setIoRatio cfg s r 0).cur.mult =
      (if (setIoRatio cfg s r 0).cur.sn ≥ 0 then stageMult (setIoRatio cfg s r 0).cur.sn / 2 else stageMult (setIoRatio cfg s r 0).cur.sn) ∧
    (setIoRatio cfg s r 0).cur.step = cfg.num.stepOf r (setIoRatio cfg s r 0).cur.mult := by
  refine ⟨?_, ?_, ?_, (setIoRatio_zero_spec cfg s r).2.1⟩ <;>
  · unfold setIoRatio
    simp only [hd, Option.isSome_some, if_true, ne_eq, not_true_eq_false, if_false, enter, enterStream, setStep]
    try simp

theorem first_ratio_exact (mx r : Nat) :
    let s0 := setIoRatio ({ num := Num.exact } : Cfg Nat) (init { num := Num.exact } mx) r 0
    s0.cur.sn = (if exactOctave r < 0 then -1 else min (exactOctave r) ((exactNumStages mx : Int) - 1)) ∧
    s0.cur.isD = decide (s0.cur.sn ≥ 0) ∧
    s0.cur.step = exactStepOf r (if s0.cur.sn ≥ 0 then stageMult s0.cur.sn / 2 else stageMult s0.cur.sn) := by
  intro s0
  obtain ⟨a, b, c, d⟩ := first_ratio_fields ({ num := Num.exact } : Cfg Nat) (init { num := Num.exact } mx) r mx rfl
  refine ⟨a, b, ?_⟩
  show (setIoRatio _ _ r 0).cur.step = _
  rw [d, c]
  rfl

/-- **The stage chosen by the octave suits the increment** (exact evaluation): for every normal double `r` with
    `2⁻⁶ ≤ r ≤ max` and `max < 2³¹` the first request starts on a stage in whose octave the stored increment lies — the
    hypothesis `InRange` of `frames_full_engine` holds.  (Positive doubles are ordered as their bit patterns.) -/
theorem inRange_exact (mx r : Nat) (hmx : mx < 2 ^ 63) (hle : r ≤ mx) (hnorm : 1 ≤ (r / 2 ^ 52) % 2048)
    (hlo : -6 ≤ exactOctave r) (hhi : exactOctave mx ≤ 30) :
    InRange (setIoRatio ({ num := Num.exact } : Cfg Nat) (init { num := Num.exact } mx) r 0).cur := by
  obtain ⟨h1, h2, h3⟩ := first_ratio_exact mx r
  generalize setIoRatio ({ num := Num.exact } : Cfg Nat) (init { num := Num.exact } mx) r 0 = s0 at *
  obtain ⟨d1, d2⟩ := decode_normal r hnorm
  rw [exactStepOf_eq, d1, d2] at h3
  -- the exponent fields
  have hr63 : r < 2 ^ 63 := by omega
  have her : (r / 2 ^ 52) % 2048 = r / 2 ^ 52 := by omega
  have hem : (mx / 2 ^ 52) % 2048 = mx / 2 ^ 52 := by omega
  have hoct : exactOctave r = ((r / 2 ^ 52 : Nat) : Int) - 1023 := by unfold exactOctave; simp only; rw [her]
  have hoctm : exactOctave mx = ((mx / 2 ^ 52 : Nat) : Int) - 1023 := by unfold exactOctave; simp only; rw [hem]
  have hm1 : 2 ^ 52 ≤ r % 2 ^ 52 + 2 ^ 52 := by omega
  have hm2 : r % 2 ^ 52 + 2 ^ 52 < 2 ^ 53 := by omega
  have hexp : r / 2 ^ 52 ≤ mx / 2 ^ 52 := Nat.div_le_div_right hle
  unfold InRange
  by_cases hneg : exactOctave r < 0
  · -- up-sampling stage
    rw [if_pos hneg] at h1
    have hsn : ¬ (s0.cur.sn ≥ 0) := by omega
    rw [if_neg hsn, h1, stageMult_neg_one] at h3
    obtain ⟨a', ha'⟩ : ∃ a' : Nat, exactOctave r = -(a' : Int) := ⟨(-exactOctave r).toNat, by omega⟩
    have he : exactOctave r - 52 = -((52 + a' : Nat) : Int) := by omega
    rw [he, stepME_neg _ _ _ (by omega)] at h3
    obtain ⟨u1, u2⟩ := stepNeg_up a' (by omega) (by omega) _ hm1 hm2
    rw [h2, decide_eq_false hsn]
    simp only [Bool.false_eq_true, if_false]
    rw [h3]
    omega
  · obtain ⟨k, hk⟩ : ∃ k : Nat, exactOctave r = (k : Int) := ⟨(exactOctave r).toNat, by omega⟩
    rw [if_neg hneg, hk] at h1
    have he : exactOctave r - 52 = -((52 - k : Nat) : Int) := by omega
    have hk30 : k ≤ 30 := by omega
    by_cases hfit : k + 1 ≤ exactNumStages mx
    · -- its own octave's stage
      have hsn : s0.cur.sn = (k : Int) := by omega
      have hge : s0.cur.sn ≥ 0 := by omega
      rw [if_pos hge, hsn, stageMult_half k hk30, he, stepME_neg _ _ _ (by omega)] at h3
      obtain ⟨u1, u2⟩ := stepNeg_stage k hk30 _ hm1 hm2
      rw [h2, decide_eq_true hge]
      simp only [if_true]
      rw [h3]
      omega
    · -- clamped to the top stage: only for r = max = 2^k
      have hns : exactNumStages mx = k ∧ mx % 2 ^ 52 = 0 ∧ mx / 2 ^ 52 = r / 2 ^ 52 := by
        unfold exactNumStages at hfit ⊢
        simp only at hfit ⊢
        split at hfit
        · omega
        · split at hfit
          · rename_i h0 hz
            rw [if_neg h0, if_pos hz]
            omega
          · omega
      obtain ⟨n1, n2, n3⟩ := hns
      have hfr : r % 2 ^ 52 = 0 := by
        have := Nat.div_add_mod r (2 ^ 52)
        have := Nat.div_add_mod mx (2 ^ 52)
        omega
      rw [hfr, Nat.zero_add] at h3
      rw [n1] at h1
      by_cases hk0 : k = 0
      · subst hk0
        have hsn : s0.cur.sn = -1 := by omega
        have hnge : ¬ (s0.cur.sn ≥ 0) := by omega
        rw [if_neg hnge, hsn, stageMult_neg_one, he, stepME_neg _ _ _ (by omega), stepNeg_one] at h3
        rw [h2, decide_eq_false hnge]
        simp only [Bool.false_eq_true, if_false]
        rw [h3]
        omega
      · obtain ⟨j, hj⟩ : ∃ j : Nat, k = j + 1 := ⟨k - 1, by omega⟩
        subst hj
        have hsn : s0.cur.sn = (j : Int) := by omega
        have hge : s0.cur.sn ≥ 0 := by omega
        rw [if_pos hge, hsn, stageMult_half j (by omega), he, stepME_neg _ _ _ (by omega), stepNeg_top j (by omega)] at h3
        rw [h2, decide_eq_true hge]
        simp only [if_true]
        rw [h3]
        omega

end Soxr.Vr
