import SoxrModel.Vr.Arith
import Mathlib.Tactic.Linarith
/-!
# Output count of the constant-step clock against `N / ratio`

Pure arithmetic (the clock facts come from `firU_const` / `firDPairs_const`): if the `k`-th output was the last one
with input — `A + (k−1)·S < N·2³² ≤ A + k·S`, `0 ≤ A < S` — then `k` is within one frame of `N·2³²/S`; and if `S` is
the rounded `r·2³²` for `r = p/q` and `k` stays below the clock's resolution (`(k+1)/r ≤ 2³²`), within two frames of
`N/r`.
-/
namespace Soxr.Vr

theorem count_vs_effective_ratio (k N S A : Int) (hA0 : 0 ≤ A) (hA : A < S)
    (hlast : 0 < k → A + (k - 1) * S < N * 4294967296) (hstop : N * 4294967296 ≤ A + k * S) :
    (0 < k → (k - 1) * S < N * 4294967296) ∧ N * 4294967296 < (k + 1) * S := by
  constructor
  · intro hk
    have := hlast hk
    nlinarith
  · nlinarith

theorem count_within_two (k N S A p q : Int) (_hS : 0 < S) (hA0 : 0 ≤ A) (hA : A < S) (hk : 0 ≤ k) (hN : 0 ≤ N)
    (hp : 0 < p) (hq : 0 < q)
    (hlast : 0 < k → A + (k - 1) * S < N * 4294967296) (hstop : N * 4294967296 ≤ A + k * S)
    (hr1 : S * q - p * 4294967296 ≤ q) (hr2 : p * 4294967296 - S * q ≤ q)
    (hres : (k + 1) * q ≤ p * 4294967296) :
    k * p - N * q < 2 * p ∧ N * q - k * p < 2 * p := by
  constructor
  · by_cases h : k = 0
    · subst h; nlinarith
    · have h1 : A + (k - 1) * S < N * 4294967296 := hlast (by omega)
      have hk1 : 0 ≤ k - 1 := by omega
      -- (k-1)·S·q < N·2³²·q
      have e1 : (k - 1) * S * q < N * 4294967296 * q := by nlinarith
      -- (k-1)·(p·2³² − q) ≤ (k-1)·S·q
      have e2 : (k - 1) * (p * 4294967296 - q) ≤ (k - 1) * (S * q) := by
        apply mul_le_mul_of_nonneg_left _ hk1; linarith
      nlinarith
  · have e1 : N * 4294967296 * q < (k + 1) * S * q := by nlinarith
    have hk1 : 0 ≤ k + 1 := by omega
    have e2 : (k + 1) * (S * q) ≤ (k + 1) * (p * 4294967296 + q) := by
      apply mul_le_mul_of_nonneg_left _ hk1; linarith
    nlinarith

end Soxr.Vr
