import SoxrModel.Vr.Lemmas
import SoxrModel.Vr.Arith
/-!
# Alignment of the two cross-faded streams (the C assertion `odone == odone2`)

After a **down**-switch both streams are down-sampling streams (`poly_fir_fade_d`), and the new current stream is the
old one *exactly* doubled: clock, increment and slew increment are shifted left by one, and so is `len` provided
`occupancy0` is a multiple of the coarser stage's sample (`2^sn` input frames).  Two exactly doubled streams take the
same decisions in `poly_fir_fade_d` — same number of pairs, same abandoned pair — and stay exactly doubled; so the
assertion holds in every chunk of such a fade.  The hypothesis on `occupancy0` is what F35 violated (an up-switch earlier in
the same `vr_process` call made a coarser stage the coarsest *after* `occupancy0` had been computed); since the repair
(`switchOcc`) it is an invariant of the loop: `chunk_OccInv`, `loop_OccInv`, `chunk_down_switch_aligned`.
-/
namespace Soxr.Vr
variable {ρ : Type}

/-- `c` is `f` in the units of the next finer stage: everything doubled -/
def Doubled (c f : Stream) : Prop :=
  c.clk = 2 * f.clk ∧ c.step = 2 * f.step ∧ c.ss = 2 * f.ss ∧ c.len = 2 * f.len

theorem INT_lt_doubled (a len : Int) : INT (2 * a) < 2 * len ↔ INT a < len := by
  rw [INT_lt_iff, INT_lt_iff]
  unfold two32
  omega

/-- doubled streams produce the same number of pairs and stay doubled -/
theorem firDPairs_doubled (n : Nat) (c f : Stream) (h : Doubled c f) :
    (firDPairs c n).2 = (firDPairs f n).2 ∧ Doubled (firDPairs c n).1 (firDPairs f n).1 := by
  induction n generalizing c f with
  | zero => exact ⟨rfl, h⟩
  | succ n ih =>
    obtain ⟨h1, h2, h3, h4⟩ := h
    have e1 : INT c.clk < c.len ↔ INT f.clk < f.len := by rw [h1, h4]; exact INT_lt_doubled _ _
    have e2 : INT (c.clk + c.step) < c.len ↔ INT (f.clk + f.step) < f.len := by
      rw [h1, h2, h4, show 2 * f.clk + 2 * f.step = 2 * (f.clk + f.step) by omega]; exact INT_lt_doubled _ _
    unfold firDPairs
    by_cases a1 : INT f.clk < f.len
    · have a1' := e1.mpr a1
      rw [if_pos a1, if_pos a1']
      dsimp only
      by_cases a2 : INT (f.clk + f.step) < f.len
      · have a2' := e2.mpr a2
        rw [if_pos a2, if_pos a2']
        have := ih { c with clk := c.clk + c.step + c.step, step := c.step + c.ss }
          { f with clk := f.clk + f.step + f.step, step := f.step + f.ss }
          ⟨by show c.clk + c.step + c.step = 2 * (f.clk + f.step + f.step); omega,
           by show c.step + c.ss = 2 * (f.step + f.ss); omega, h3, h4⟩
        exact ⟨by rw [this.1], this.2⟩
      · have a2' : ¬ INT (c.clk + c.step) < c.len := fun x => a2 (e2.mp x)
        rw [if_neg a2, if_neg a2']
        exact ⟨rfl, h1, h2, h3, h4⟩
    · have a1' : ¬ INT c.clk < c.len := fun x => a1 (e1.mp x)
      rw [if_neg a1, if_neg a1']
      exact ⟨rfl, h1, h2, h3, h4⟩

/-- asking for exactly the number of pairs a stream delivered gives the same result -/
theorem firDPairs_prefix (n : Nat) (s : Stream) : firDPairs s (firDPairs s n).2 = firDPairs s n := by
  induction n generalizing s with
  | zero => rfl
  | succ n ih =>
    by_cases a1 : INT s.clk < s.len
    · by_cases a2 : INT (s.clk + s.step) < s.len
      · have e : firDPairs s (n + 1) =
            ((firDPairs { s with clk := s.clk + s.step + s.step, step := s.step + s.ss } n).1,
             (firDPairs { s with clk := s.clk + s.step + s.step, step := s.step + s.ss } n).2 + 1) := by
          conv => lhs; unfold firDPairs
          rw [if_pos a1]; dsimp only; rw [if_pos a2]
        rw [e]
        dsimp only
        conv => lhs; unfold firDPairs
        rw [if_pos a1]; dsimp only; rw [if_pos a2, ih]
      · have e : firDPairs s (n + 1) = (s, 0) := by
          conv => lhs; unfold firDPairs
          rw [if_pos a1]; dsimp only; rw [if_neg a2]
        rw [e]; rfl
    · have e : firDPairs s (n + 1) = (s, 0) := by
        conv => lhs; unfold firDPairs
        rw [if_neg a1]
      rw [e]; rfl

/-- **Alignment of a down-switch fade, one chunk.**  Two down-sampling streams of which the current one is the
    fade-out one exactly doubled deliver the same number of samples (`odone == odone2`), and remain exactly doubled. -/
theorem fadeStreams_doubled (c f : Stream) (n : Nat) (hc : c.isD = true) (hf : f.isD = true) (h : Doubled c f) :
    (fadeStreams c f n).2.2.1 = (fadeStreams c f n).2.2.2 ∧ Doubled (fadeStreams c f n).1 (fadeStreams c f n).2.1 := by
  unfold fadeStreams
  rw [hc, hf]
  simp only [Bool.and_self, if_true]
  unfold firD
  dsimp only
  have hN : (2 * (firDPairs c ((n + 1) / 2)).2 + 1) / 2 = (firDPairs c ((n + 1) / 2)).2 := by omega
  rw [hN]
  obtain ⟨d1, d2⟩ := firDPairs_doubled (firDPairs c ((n + 1) / 2)).2 c f h
  rw [firDPairs_prefix] at d1 d2
  exact ⟨by rw [← d1], d2⟩

/-- the same, at the level of one chunk's interpolation: no mismatch is counted, the pair stays doubled -/
theorem kernels_doubled (s : St ρ) (olen mn mx : Int) (hfade : s.fade ≠ 0) (hc : s.cur.isD = true) (hf : s.fo.isD = true)
    (h : Doubled s.cur s.fo) :
    (kernels s olen mn mx).mis = false ∧ Doubled (kernels s olen mn mx).st.cur (kernels s olen mn mx).st.fo := by
  unfold kernels
  rw [if_pos hfade]
  dsimp only
  obtain ⟨a, b⟩ := fadeStreams_doubled s.cur s.fo (2 * min olen (s.fade / 2)).toNat hc hf h
  exact ⟨by simp [a], b⟩

/-- `switchStage` sets the new current stream's `len` from `occupancy0` -/
theorem switchStage_len (s : St ρ) (dif occ0 : Int) :
    (switchStage s dif occ0).cur.len = shiftr occ0 (s.cur.sn + dif) := by
  unfold switchStage switchPrep
  dsimp only
  generalize hs2 : (if dif > 0 then ({ s with inc := decide (dif > 0), fo := s.cur, cur := { s.cur with sn := s.cur.sn + dif } } : St ρ)
      else { s with inc := decide (dif > 0), fo := s.cur, cur := { s.cur with sn := s.cur.sn + dif }, sw := s.cur.sn + dif }) = s2
  have h2 : s2.ctl = { s.ctl with inc := decide (dif > 0), fo := s.cur, cur := { s.cur with sn := s.cur.sn + dif } } := by
    subst hs2; split <;> rfl
  have h4 : (switchFifoB (switchFifoA s2 dif) dif).ctl = s2.ctl := by rw [switchFifoB_ctl, switchFifoA_ctl]
  generalize switchFifoB (switchFifoA s2 dif) dif = s4 at h4
  have c4 : s4.cur = { s.cur with sn := s.cur.sn + dif } := by
    have : s4.ctl.cur = ({ s.cur with sn := s.cur.sn + dif } : Stream) := by rw [h4, h2]
    exact this
  unfold rescale enter
  dsimp only
  rw [c4]
  rfl

/-- **A down-switch starts an exactly doubled pair** — provided the stream switched away from had its `len` from the
    same `occupancy0` and `occupancy0` is a whole number of its samples (`2^sn ∣ occupancy0`; true when `occupancy0` was
    computed from a stage at least as coarse, false in the F35 witness). -/
theorem switch_down_doubled (s : St ρ) (occ0 : Int) (hsn : 1 ≤ s.cur.sn) (hd : s.cur.isD = true)
    (hlen : s.cur.len = shiftr occ0 s.cur.sn) (hdiv : occ0 % 2 ^ s.cur.sn.toNat = 0) :
    Doubled (switchStage s (-1) occ0).cur (switchStage s (-1) occ0).fo ∧
    (switchStage s (-1) occ0).cur.isD = true ∧ (switchStage s (-1) occ0).fo.isD = true ∧
    (switchStage s (-1) occ0).fade ≠ 0 := by
  obtain ⟨_, _, _, _, _, h6, h7, _, _, h10, _, h12, h13, h14⟩ := switchStage_spec s (-1) occ0
  have hl := switchStage_len s (-1) occ0
  have hsh : switchShift s (-1) = 1 := by
    unfold switchShift
    rw [hd]
    have : decide (s.cur.sn + -1 ≥ 0) = true := by simp; omega
    rw [this]; decide
  rw [hsh] at h13 h14
  rw [lshift_one] at h13 h14
  have h12' : (switchStage s (-1) occ0).cur.clk = s.cur.clk * 2 := by rw [h12]; exact lshift_one _
  refine ⟨⟨by rw [h12', h6]; omega, by rw [h13, h6]; omega, by rw [h14, h6]; omega, ?_⟩, ?_, by rw [h6]; exact hd, ?_⟩
  · rw [hl, h6, hlen]
    obtain ⟨k, hk⟩ := Int.eq_ofNat_of_zero_le (show 0 ≤ s.cur.sn + -1 by omega)
    have e1 : s.cur.sn = ((k + 1 : Nat) : Int) := by omega
    unfold shiftr
    rw [if_neg (by omega), if_neg (by omega), hk, e1, Int.toNat_natCast, Int.toNat_natCast]
    rw [e1, Int.toNat_natCast] at hdiv
    rw [Int.pow_succ] at hdiv ⊢
    have hp : (0 : Int) < 2 ^ k := Int.pow_pos (by decide)
    generalize (2 : Int) ^ k = P at *
    -- occ0 = (P*2)*q  ⇒  occ0 / P = 2 * (occ0 / (P*2))
    have hq := Int.mul_ediv_add_emod occ0 (P * 2)
    rw [hdiv, Int.add_zero] at hq
    generalize occ0 / (P * 2) = q at *
    rw [← hq, show P * 2 * q = (2 * q) * P by rw [Int.mul_comm P 2, Int.mul_assoc, Int.mul_comm P q, ← Int.mul_assoc]]
    rw [Int.mul_ediv_cancel _ (Int.ne_of_gt hp)]
  · rw [h10]; simp; omega
  · rw [h7]; decide

/-! ### `occupancy0` stays a whole number of samples of the current stage (the repair of F35 as a loop invariant) -/

/-- what the loop of `vr_process` maintains: `occupancy0` is a whole number of samples of the current stage, and the
    current stream's `len` is `occupancy0` in those samples -/
def OccInv (l : LoopSt ρ) : Prop :=
  (0 ≤ l.st.cur.sn → l.occ % 2 ^ l.st.cur.sn.toNat = 0) ∧ l.st.cur.len = shiftr l.occ l.st.cur.sn

theorem stageDif_cases (s : St ρ) : stageDif s = 0 ∨ stageDif s = 1 ∨ (stageDif s = -1 ∧ s.cur.isD = true) := by
  unfold stageDif
  split
  · split
    · rename_i hd
      split
      · right; left; rfl
      · split
        · right; right; exact ⟨rfl, hd⟩
        · left; rfl
    · split
      · right; left; rfl
      · left; rfl
  · left; rfl

theorem fadeStreams_len (c f : Stream) (n : Nat) : (fadeStreams c f n).1.len = c.len := by
  unfold fadeStreams
  split
  · exact (firD_spec c n).choose_spec.2.2.2.2.2.2.2
  · split
    · exact (firD_spec c n).choose_spec.2.2.2.2.2.2.2
    · exact (fadeU_spec c (firD f n).2).choose_spec.2.2.2.2.2.2.2

theorem kernels_len (s : St ρ) (olen mn mx : Int) : (kernels s olen mn mx).st.cur.len = s.cur.len := by
  unfold kernels
  split
  · exact fadeStreams_len _ _ _
  · split
    · exact (firD_spec s.cur (2 * olen).toNat).choose_spec.2.2.2.2.2.2.2
    · exact (firU_spec olen.toNat s.cur).2.2.2.2.2.1

theorem chunkStart_cur (cfg : Cfg ρ) (s : St ρ) (rem : Nat) :
    (chunkStart cfg s rem).1.cur.sn = s.cur.sn ∧ (chunkStart cfg s rem).1.cur.len = s.cur.len := by
  unfold chunkStart
  dsimp only
  split
  · exact ⟨rfl, rfl⟩
  · split <;> exact ⟨rfl, rfl⟩

theorem switchPrep_ctl (s : St ρ) (dif : Int) :
    (switchPrep s dif).ctl = { s.ctl with inc := decide (dif > 0), fo := s.cur, cur := { s.cur with sn := s.cur.sn + dif } } := by
  unfold switchPrep
  dsimp only
  rw [switchFifoB_ctl, switchFifoA_ctl]
  split <;> rfl

theorem switchPrep_sn (s : St ρ) (dif : Int) : (switchPrep s dif).cur.sn = s.cur.sn + dif := by
  have := congrArg (fun c : Ctl ρ => c.cur.sn) (switchPrep_ctl s dif)
  exact this

/-- after an up-switch `occupancy0` is a whole number of samples of the new stage -/
theorem switchOcc_up (s : St ρ) (occ0 : Int) (h : 0 ≤ s.cur.sn + 1) : switchOcc s 1 occ0 % 2 ^ (s.cur.sn + 1).toNat = 0 := by
  unfold switchOcc
  dsimp only
  rw [switchPrep_sn]
  split
  · exact Int.mul_emod_left _ _
  · rename_i hn
    have : s.cur.sn + 1 = 0 := by omega
    rw [this]
    simp

/-- a down-switch leaves `occupancy0` alone -/
theorem switchOcc_down (s : St ρ) (occ0 : Int) : switchOcc s (-1) occ0 = occ0 := by
  unfold switchOcc
  dsimp only
  rw [if_neg (by omega)]

/-- `occupancy0` never grows at a switch -/
theorem switchOcc_le (s : St ρ) (dif occ0 : Int) : switchOcc s dif occ0 ≤ occ0 := by
  unfold switchOcc
  dsimp only
  split
  · have hp : (0 : Int) < 2 ^ (switchPrep s dif).cur.sn.toNat := Int.pow_pos (by decide)
    generalize hX : shiftl _ (switchPrep s dif).cur.sn = X
    have h1 := Int.ediv_mul_le (min occ0 X) (Int.ne_of_gt hp)
    have h2 : min occ0 X ≤ occ0 := Int.min_le_left _ _
    omega
  · exact Int.le_refl _

theorem shiftl_natCast (x : Int) (k : Nat) (h : 1 ≤ k) : shiftl x (k : Int) = x * 2 ^ k := by
  unfold shiftl shiftr
  rw [if_pos (by omega), Int.neg_neg, Int.toNat_natCast]

theorem shiftr_natCast (x : Int) (k : Nat) : shiftr x (k : Int) = x / 2 ^ k := by
  unfold shiftr
  rw [if_neg (by omega), Int.toNat_natCast]

/-- **The restarted stage is not read beyond what it holds (F36 repaired).**  After an up-switch to a half-band stage the
    new current stream's `len` — the samples it may consume in this call — is at most the occupancy of that stage's FIFO
    minus `2·HALF_FIR_LEN_2 + POLY_FIR_LEN_D/2` (the offset of `stage_read_p` plus the look-ahead of the interpolator): the
    interpolator's highest read index `2·HALF_FIR_LEN_2 + (len − 1) + POLY_FIR_LEN_D/2` is inside the FIFO. -/
theorem switch_up_len_within_stage (s : St ρ) (occ0 : Int) (hsn : 0 ≤ s.cur.sn) :
    (switchStage s 1 (switchOcc s 1 occ0)).cur.len ≤
      max 0 (((switchPrep s 1).stg (s.cur.sn + 1)).occ - 2 * (H2 : Int) - ((PD / 2 : Nat) : Int)) := by
  rw [switchStage_len]
  unfold switchOcc
  dsimp only
  rw [switchPrep_sn, if_pos ⟨by decide, by omega⟩]
  obtain ⟨k, hk⟩ := Int.eq_ofNat_of_zero_le (show 0 ≤ s.cur.sn + 1 by omega)
  have hk1 : 1 ≤ k := by omega
  generalize max 0 (((switchPrep s 1).stg (s.cur.sn + 1)).occ - 2 * (H2 : Int) - ((PD / 2 : Nat) : Int)) = A
  rw [hk, shiftl_natCast _ _ hk1, shiftr_natCast, Int.toNat_natCast]
  have hp : (0 : Int) < 2 ^ k := Int.pow_pos (by decide)
  generalize (2 : Int) ^ k = P at *
  rw [Int.mul_ediv_cancel _ (Int.ne_of_gt hp)]
  have h2 : min occ0 (A * P) ≤ A * P := Int.min_le_right _ _
  exact Int.ediv_le_of_le_mul hp h2

theorem pow_dvd_of_succ (x : Int) (k : Nat) (h : x % 2 ^ (k + 1) = 0) : x % 2 ^ k = 0 := by
  have hd : (2 : Int) ^ (k + 1) ∣ x := Int.dvd_of_emod_eq_zero h
  have h2 : (2 : Int) ^ k ∣ 2 ^ (k + 1) := ⟨2, by rw [Int.pow_succ]⟩
  exact Int.emod_eq_zero_of_dvd (Int.dvd_trans h2 hd)

/-- **Every chunk preserves the alignment of `occupancy0`** — whatever it does: snap, up-switch (re-aligned), down-switch
    (a whole number of coarser samples is a whole number of finer ones), fade, plain interpolation. -/
theorem chunk_OccInv (cfg : Cfg ρ) (olen0 : Nat) (l : LoopSt ρ) (h : OccInv l) : OccInv (chunk cfg olen0 l).1 := by
  obtain ⟨h1, h2⟩ := h
  obtain ⟨a1, a2⟩ := chunkStart_cur cfg l.st (olen0 - l.od0)
  unfold OccInv chunk
  dsimp only
  generalize hA : chunkStart cfg l.st (olen0 - l.od0) = A at a1 a2
  have hfin : ∀ (sw shl : Bool) (K : KRes ρ), (chunkFinish l sw shl K).st.cur = K.st.cur := by
    intro sw shl K; unfold chunkFinish; dsimp only; split <;> rfl
  rw [hfin, kernels_len]
  have hsn : ∀ (S : St ρ) (o m1 m2 : Int), (kernels S o m1 m2).st.cur.sn = S.cur.sn := fun S o m1 m2 =>
    (kernels_spec S o m1 m2).2.2.2.2.2.1
  rw [hsn]
  by_cases hsw : doesSwitch A.1 = true
  · rw [if_pos hsw, if_pos hsw]
    obtain ⟨_, _, _, _, _, _, _, _, s9, _⟩ := switchStage_spec A.1 (stageDif A.1) (switchOcc A.1 (stageDif A.1) l.occ)
    rw [s9, switchStage_len]
    refine ⟨fun hpos => ?_, rfl⟩
    rcases stageDif_cases A.1 with hd | hd | ⟨hd, _⟩
    · unfold doesSwitch at hsw; rw [hd] at hsw; simp at hsw
    · rw [hd] at hpos ⊢
      exact switchOcc_up _ _ hpos
    · rw [hd] at hpos ⊢
      rw [switchOcc_down]
      have hge : 0 ≤ l.st.cur.sn := by rw [← a1]; omega
      have := h1 hge
      rw [← a1] at this
      obtain ⟨k, hk⟩ := Int.eq_ofNat_of_zero_le hpos
      have e : A.1.cur.sn = ((k + 1 : Nat) : Int) := by omega
      rw [e, Int.toNat_natCast] at this
      rw [hk, Int.toNat_natCast]
      exact pow_dvd_of_succ _ _ this
  · have hsw' : doesSwitch A.1 = false := by
      cases hx : doesSwitch A.1 with
      | false => rfl
      | true => exact absurd hx hsw
    rw [hsw']
    simp only [Bool.false_eq_true, if_false]
    rw [a1, a2]
    exact ⟨h1, h2⟩

/-- … so it holds after the whole `while` loop if it held before it -/
theorem loop_OccInv (cfg : Cfg ρ) (olen0 : Nat) (f : Nat) (l : LoopSt ρ) (h : OccInv l) : OccInv (loop cfg olen0 f l) :=
  loop_induct cfg olen0 OccInv (fun l hl _ => chunk_OccInv cfg olen0 l hl) f l h

theorem shiftl_dvd (x mx sn : Int) (h0 : 0 ≤ sn) (h : sn ≤ mx) : shiftl x mx % 2 ^ sn.toNat = 0 := by
  unfold shiftl shiftr
  by_cases hm : mx = 0
  · have : sn = 0 := by omega
    rw [this]; simp
  · rw [if_pos (by omega)]
    obtain ⟨k, hk⟩ := Int.eq_ofNat_of_zero_le h0
    obtain ⟨d, hd⟩ := Int.eq_ofNat_of_zero_le (show 0 ≤ mx - sn by omega)
    have e : (- -mx).toNat = k + d := by omega
    rw [e, hk, Int.toNat_natCast, Int.pow_add, ← Int.mul_assoc, Int.mul_comm (x * 2 ^ k), Int.mul_comm x,
      Int.mul_comm (2 ^ d), Int.mul_assoc]
    exact Int.mul_emod_right _ _

theorem setLens_cur (s : St ρ) (occ0 : Int) :
    (setLens s occ0).cur.sn = s.cur.sn ∧ (setLens s occ0).cur.len = shiftr occ0 s.cur.sn := by
  unfold setLens; dsimp only; split <;> exact ⟨rfl, rfl⟩

/-- **`vr_process` enters its loop with `occupancy0` aligned** — from any state: it is computed from the coarsest stage in
    use, which is at least as coarse as the current one. -/
theorem preLoop_OccInv (cfg : Cfg ρ) (s : St ρ) (olen0 : Nat) : OccInv (preLoop cfg s olen0).1 := by
  unfold preLoop OccInv
  dsimp only
  generalize hX : inputStages _ _ _ = X
  have hc : X.cur = (applyDefault cfg s).cur ∧ X.fade = (applyDefault cfg s).fade ∧ X.fo = (applyDefault cfg s).fo := by
    have : X.ctl = ({ applyDefault cfg s with oocc := (applyDefault cfg s).oocc + olen0 } : St ρ).ctl := by
      rw [← hX, inputStages_ctl]
    exact ⟨congrArg Ctl.cur this, congrArg Ctl.fade this, congrArg Ctl.fo this⟩
  generalize hY : (if X.fl > 0 then ({ X with fl := -1 } : St ρ) else X) = Y
  have hy : Y.cur = X.cur := by rw [← hY]; split <;> rfl
  obtain ⟨e1, e2⟩ := setLens_cur Y (shiftl (max 0 ((Y.stg (if (applyDefault cfg s).fade ≠ 0 then max (applyDefault cfg s).cur.sn (applyDefault cfg s).fo.sn
      else (applyDefault cfg s).cur.sn)).occ - 4 * (H2 : Int))) (if (applyDefault cfg s).fade ≠ 0 then max (applyDefault cfg s).cur.sn (applyDefault cfg s).fo.sn
      else (applyDefault cfg s).cur.sn))
  refine ⟨fun hpos => ?_, by rw [e1]; exact e2⟩
  rw [e1] at hpos ⊢
  apply shiftl_dvd _ _ _ hpos
  rw [hy, hc.1]
  split <;> omega

/-- **A down-switch anywhere in the loop starts an aligned fade.**  In any chunk of any `vr_process` call whose loop state
    satisfies the invariant, a switch from a down-sampling stage `sn ≥ 1` to the next finer one makes the two streams
    exact doubles, the chunk counts no mismatch (`odone == odone2`), and they are exact doubles after it. -/
theorem chunk_down_switch_aligned (cfg : Cfg ρ) (olen0 : Nat) (l : LoopSt ρ) (h : OccInv l)
    (hsw : doesSwitch (chunkStart cfg l.st (olen0 - l.od0)).1 = true)
    (hdif : stageDif (chunkStart cfg l.st (olen0 - l.od0)).1 = -1) (hsn : 1 ≤ l.st.cur.sn) :
    (chunk cfg olen0 l).1.nmis = l.nmis ∧ Doubled (chunk cfg olen0 l).1.st.cur (chunk cfg olen0 l).1.st.fo := by
  obtain ⟨h1, h2⟩ := h
  obtain ⟨a1, a2⟩ := chunkStart_cur cfg l.st (olen0 - l.od0)
  have hisd : (chunkStart cfg l.st (olen0 - l.od0)).1.cur.isD = true := by
    rcases stageDif_cases (chunkStart cfg l.st (olen0 - l.od0)).1 with hd | hd | ⟨_, hd⟩
    · omega
    · omega
    · exact hd
  unfold chunk
  dsimp only
  generalize hA : chunkStart cfg l.st (olen0 - l.od0) = A at a1 a2 hsw hdif hisd
  simp only [hsw, hdif, if_true, switchOcc_down]
  have hdiv : l.occ % 2 ^ A.1.cur.sn.toNat = 0 := by rw [a1]; exact h1 (by omega)
  obtain ⟨d1, d2, d3, d4⟩ := switch_down_doubled A.1 l.occ (by omega) hisd (by rw [a1, a2]; exact h2) hdiv
  obtain ⟨k1, k2⟩ := kernels_doubled (switchStage A.1 (-1) l.occ) A.2 (chunkMn l (-1))
    (chunkMx l (-1) (decide (A.1.cur.sn + -1 < A.1.ns))) d4 d2 d3 d1
  have hfin : ∀ (sw shl : Bool) (K : KRes ρ), (chunkFinish l sw shl K).st.cur = K.st.cur ∧
      (chunkFinish l sw shl K).st.fo = K.st.fo ∧ (chunkFinish l sw shl K).nmis = l.nmis + (if K.mis then 1 else 0) := by
    intro sw shl K; unfold chunkFinish; dsimp only; split <;> exact ⟨rfl, rfl, rfl⟩
  obtain ⟨f1, f2, f3⟩ := hfin true (true && negLeftShift A.1 (-1)) (kernels (switchStage A.1 (-1) l.occ) A.2 (chunkMn l (-1))
    (chunkMx l (-1) (decide (A.1.cur.sn + -1 < A.1.ns))))
  refine ⟨f3.trans (by rw [k1]; simp), ?_⟩
  have e1 := f1; have e2 := f2
  exact (show Doubled (chunkFinish l true (true && negLeftShift A.1 (-1)) _).st.cur
    (chunkFinish l true (true && negLeftShift A.1 (-1)) _).st.fo by rw [e1, e2]; exact k2)

/-! ### The fade from stage 0 down to the up-sampling stage (`poly_fir_fade_d` on the fade-out, `poly_fir_fade_u` on the current stream)

The new current stream (stage −1, one clock step per output frame) is the old one exactly: clock doubled, increment and
slew increment quadrupled, `len` doubled.  The fade-out stream runs first (it is the 2x-rate one); every pair it
delivers had its first sample inside the input, which is exactly the condition of the current stream's iteration. -/

/-- `c` (up-sampling stream on stage −1) is `f` (down-sampling stream on stage 0) in half samples, per whole frame -/
def Quad (c f : Stream) : Prop :=
  c.clk = 2 * f.clk ∧ c.step = 4 * f.step ∧ c.ss = 4 * f.ss ∧ c.len = 2 * f.len

theorem fadeUIter_quad (n : Nat) : ∀ (c f : Stream), Quad c f →
    (fadeUIter c (firDPairs f n).2).2 = (firDPairs f n).2 ∧ Quad (fadeUIter c (firDPairs f n).2).1 (firDPairs f n).1 := by
  induction n with
  | zero => intro c f h; exact ⟨rfl, h⟩
  | succ n ih =>
    intro c f h
    obtain ⟨h1, h2, h3, h4⟩ := h
    by_cases a1 : INT f.clk < f.len
    · by_cases a2 : INT (f.clk + f.step) < f.len
      · have e : firDPairs f (n + 1) =
            ((firDPairs { f with clk := f.clk + f.step + f.step, step := f.step + f.ss } n).1,
             (firDPairs { f with clk := f.clk + f.step + f.step, step := f.step + f.ss } n).2 + 1) := by
          conv => lhs; unfold firDPairs
          rw [if_pos a1]; dsimp only; rw [if_pos a2]
        rw [e]
        dsimp only
        have c1 : INT c.clk < c.len := by rw [h1, h4]; exact (INT_lt_doubled _ _).mpr a1
        have ec : ∀ q, fadeUIter c (q + 1) =
            ((fadeUIter { c with clk := c.clk + c.step, step := c.step + c.ss } q).1,
             (fadeUIter { c with clk := c.clk + c.step, step := c.step + c.ss } q).2 + 1) := by
          intro q
          conv => lhs; unfold fadeUIter
          rw [if_pos c1]
        rw [ec]
        dsimp only
        have := ih { c with clk := c.clk + c.step, step := c.step + c.ss }
          { f with clk := f.clk + f.step + f.step, step := f.step + f.ss }
          ⟨by show c.clk + c.step = 2 * (f.clk + f.step + f.step); omega,
           by show c.step + c.ss = 4 * (f.step + f.ss); omega, h3, h4⟩
        exact ⟨by rw [this.1], this.2⟩
      · have e : firDPairs f (n + 1) = (f, 0) := by
          conv => lhs; unfold firDPairs
          rw [if_pos a1]; dsimp only; rw [if_neg a2]
        rw [e]
        exact ⟨rfl, h1, h2, h3, h4⟩
    · have e : firDPairs f (n + 1) = (f, 0) := by
        conv => lhs; unfold firDPairs
        rw [if_neg a1]
      rw [e]
      exact ⟨rfl, h1, h2, h3, h4⟩

/-- **Alignment of the fade from stage 0 to the up-sampling stage, one chunk** — slews included: everything is exact. -/
theorem fadeStreams_quad (c f : Stream) (n : Nat) (hc : c.isD = false) (hf : f.isD = true) (h : Quad c f) :
    (fadeStreams c f n).2.2.1 = (fadeStreams c f n).2.2.2 ∧ Quad (fadeStreams c f n).1 (fadeStreams c f n).2.1 := by
  unfold fadeStreams
  rw [hc, hf]
  simp only [Bool.false_and, Bool.false_eq_true, if_false]
  unfold firD fadeU
  dsimp only
  have hN : (2 * (firDPairs f ((n + 1) / 2)).2 + 1) / 2 = (firDPairs f ((n + 1) / 2)).2 := by omega
  rw [hN]
  obtain ⟨d1, d2⟩ := fadeUIter_quad ((n + 1) / 2) c f h
  exact ⟨by rw [d1], d2⟩

theorem kernels_quad (s : St ρ) (olen mn mx : Int) (hfade : s.fade ≠ 0) (hc : s.cur.isD = false) (hf : s.fo.isD = true)
    (h : Quad s.cur s.fo) :
    (kernels s olen mn mx).mis = false ∧ Quad (kernels s olen mn mx).st.cur (kernels s olen mn mx).st.fo := by
  unfold kernels
  rw [if_pos hfade]
  dsimp only
  obtain ⟨a, b⟩ := fadeStreams_quad s.cur s.fo (2 * min olen (s.fade / 2)).toNat hc hf h
  exact ⟨by simp [a], b⟩

/-- the switch from stage 0 to the up-sampling stage starts such a pair, whatever `occupancy0` is -/
theorem switch_to_upsampling_quad (s : St ρ) (occ0 : Int) (hsn : s.cur.sn = 0) (hd : s.cur.isD = true)
    (hlen : s.cur.len = shiftr occ0 s.cur.sn) :
    Quad (switchStage s (-1) occ0).cur (switchStage s (-1) occ0).fo ∧
    (switchStage s (-1) occ0).cur.isD = false ∧ (switchStage s (-1) occ0).fo.isD = true ∧
    (switchStage s (-1) occ0).fade ≠ 0 := by
  obtain ⟨_, _, _, _, _, h6, h7, _, _, h10, _, h12, h13, h14⟩ := switchStage_spec s (-1) occ0
  have hl := switchStage_len s (-1) occ0
  have hsh : switchShift s (-1) = 2 := by
    unfold switchShift
    rw [hd, hsn]; decide
  rw [hsh, lshift_two] at h13 h14
  have h12' : (switchStage s (-1) occ0).cur.clk = s.cur.clk * 2 := by rw [h12]; exact lshift_one _
  refine ⟨⟨by rw [h12', h6]; omega, by rw [h13, h6]; omega, by rw [h14, h6]; omega, ?_⟩, ?_, by rw [h6]; exact hd, ?_⟩
  · rw [hl, h6, hlen, hsn]
    simp [shiftr]
    omega
  · rw [h10, hsn]; decide
  · rw [h7]; decide

/-- **Every switch from stage 0 to the up-sampling stage, anywhere in the loop, starts an aligned fade**, and every
    chunk of it is aligned (`kernels_quad`). -/
theorem chunk_switch_to_upsampling_aligned (cfg : Cfg ρ) (olen0 : Nat) (l : LoopSt ρ) (h : OccInv l)
    (hsw : doesSwitch (chunkStart cfg l.st (olen0 - l.od0)).1 = true)
    (hdif : stageDif (chunkStart cfg l.st (olen0 - l.od0)).1 = -1) (hsn : l.st.cur.sn = 0) :
    (chunk cfg olen0 l).1.nmis = l.nmis ∧ Quad (chunk cfg olen0 l).1.st.cur (chunk cfg olen0 l).1.st.fo := by
  obtain ⟨h1, h2⟩ := h
  obtain ⟨a1, a2⟩ := chunkStart_cur cfg l.st (olen0 - l.od0)
  have hisd : (chunkStart cfg l.st (olen0 - l.od0)).1.cur.isD = true := by
    rcases stageDif_cases (chunkStart cfg l.st (olen0 - l.od0)).1 with hd | hd | ⟨_, hd⟩
    · omega
    · omega
    · exact hd
  unfold chunk
  dsimp only
  generalize hA : chunkStart cfg l.st (olen0 - l.od0) = A at a1 a2 hsw hdif hisd
  simp only [hsw, hdif, if_true, switchOcc_down]
  obtain ⟨d1, d2, d3, d4⟩ := switch_to_upsampling_quad A.1 l.occ (by rw [a1]; exact hsn) hisd (by rw [a1, a2]; exact h2)
  obtain ⟨k1, k2⟩ := kernels_quad (switchStage A.1 (-1) l.occ) A.2 (chunkMn l (-1))
    (chunkMx l (-1) (decide (A.1.cur.sn + -1 < A.1.ns))) d4 d2 d3 d1
  have hfin : ∀ (sw shl : Bool) (K : KRes ρ), (chunkFinish l sw shl K).st.cur = K.st.cur ∧
      (chunkFinish l sw shl K).st.fo = K.st.fo ∧ (chunkFinish l sw shl K).nmis = l.nmis + (if K.mis then 1 else 0) := by
    intro sw shl K; unfold chunkFinish; dsimp only; split <;> exact ⟨rfl, rfl, rfl⟩
  obtain ⟨f1, f2, f3⟩ := hfin true (true && negLeftShift A.1 (-1)) (kernels (switchStage A.1 (-1) l.occ) A.2 (chunkMn l (-1))
    (chunkMx l (-1) (decide (A.1.cur.sn + -1 < A.1.ns))))
  refine ⟨f3.trans (by rw [k1]; simp), ?_⟩
  have e1 := f1; have e2 := f2
  exact (show Quad (chunkFinish l true (true && negLeftShift A.1 (-1)) _).st.cur
    (chunkFinish l true (true && negLeftShift A.1 (-1)) _).st.fo by rw [e1, e2]; exact k2)

/-! ### The fade from the up-sampling stage up to stage 0, at a constant ratio

The new current stream (stage 0, `poly_fir_fade_d`, run first) is the old one floored: clock `>> 1`, increment `>> 2`.
The fade-out stream (stage −1, `poly_fir_fade_u`) needs ONE sample per output frame, at the position of the pair's
first sample; the current stream has also placed the pair's second sample, half a frame later, inside the input.
That half frame (`2·step ≥ 2³²` units) dwarfs the drift between the two clocks (at most 3 units per pair), so the
fade-out stream always has its sample: aligned, for every chunk of the fade, as long as `step_step = 0`. -/

/-- `f` (up-sampling stream, stage −1) is at most `d` units ahead of `c` (down-sampling stream, stage 0) in half samples,
    its increment at most 3 units above four times `c`'s; no slew -/
def NearU (c f : Stream) (d : Int) : Prop :=
  0 ≤ f.clk - 2 * c.clk ∧ f.clk - 2 * c.clk ≤ d ∧ 0 ≤ f.step - 4 * c.step ∧ f.step - 4 * c.step ≤ 3 ∧
  c.ss = 0 ∧ f.ss = 0 ∧ f.len = 2 * c.len ∧ 0 ≤ c.step

theorem nearU_add_zero (c f : Stream) (d : Int) (h : NearU c f d) : NearU c f (d + 3 * ((0 : Nat) : Int)) := by
  simpa using h

theorem fadeUIter_near (n : Nat) : ∀ (c f : Stream) (d : Int), NearU c f d → d + 3 * (n : Int) ≤ 2 * c.step →
    (fadeUIter f (firDPairs c n).2).2 = (firDPairs c n).2 ∧
    NearU (firDPairs c n).1 (fadeUIter f (firDPairs c n).2).1 (d + 3 * ((firDPairs c n).2 : Int)) := by
  induction n with
  | zero => intro c f d h _; exact ⟨rfl, nearU_add_zero c f d h⟩
  | succ n ih =>
    intro c f d h hd
    have h0 := nearU_add_zero c f d h
    obtain ⟨h1, h2, h3, h4, h5, h6, h7, h8⟩ := h
    by_cases a1 : INT c.clk < c.len
    · by_cases a2 : INT (c.clk + c.step) < c.len
      · have e : firDPairs c (n + 1) =
            ((firDPairs { c with clk := c.clk + c.step + c.step, step := c.step + c.ss } n).1,
             (firDPairs { c with clk := c.clk + c.step + c.step, step := c.step + c.ss } n).2 + 1) := by
          conv => lhs; unfold firDPairs
          rw [if_pos a1]; dsimp only; rw [if_pos a2]
        rw [e]
        dsimp only
        have f1 : INT f.clk < f.len := by
          rw [INT_lt_iff] at a2 ⊢
          rw [h7]
          unfold two32 at *
          push_cast at hd
          omega
        have ec : ∀ q, fadeUIter f (q + 1) =
            ((fadeUIter { f with clk := f.clk + f.step, step := f.step + f.ss } q).1,
             (fadeUIter { f with clk := f.clk + f.step, step := f.step + f.ss } q).2 + 1) := by
          intro q
          conv => lhs; unfold fadeUIter
          rw [if_pos f1]
        rw [ec]
        dsimp only
        have := ih { c with clk := c.clk + c.step + c.step, step := c.step + c.ss }
          { f with clk := f.clk + f.step, step := f.step + f.ss } (d + 3)
          ⟨by show 0 ≤ f.clk + f.step - 2 * (c.clk + c.step + c.step); omega,
           by show f.clk + f.step - 2 * (c.clk + c.step + c.step) ≤ d + 3; omega,
           by show 0 ≤ f.step + f.ss - 4 * (c.step + c.ss); omega,
           by show f.step + f.ss - 4 * (c.step + c.ss) ≤ 3; omega, h5, h6, h7,
           by show 0 ≤ c.step + c.ss; omega⟩
          (by show d + 3 + 3 * (n : Int) ≤ 2 * (c.step + c.ss); push_cast at hd; omega)
        refine ⟨by rw [this.1], ?_⟩
        have e3 : d + 3 * (((firDPairs { c with clk := c.clk + c.step + c.step, step := c.step + c.ss } n).2 + 1 : Nat) : Int) =
            d + 3 + 3 * ((firDPairs { c with clk := c.clk + c.step + c.step, step := c.step + c.ss } n).2 : Int) := by
          push_cast; omega
        rw [e3]
        exact this.2
      · have e : firDPairs c (n + 1) = (c, 0) := by
          conv => lhs; unfold firDPairs
          rw [if_pos a1]; dsimp only; rw [if_neg a2]
        rw [e]
        exact ⟨rfl, h0⟩
    · have e : firDPairs c (n + 1) = (c, 0) := by
        conv => lhs; unfold firDPairs
        rw [if_neg a1]
      rw [e]
      exact ⟨rfl, h0⟩

/-- one chunk of such a fade -/
theorem fadeStreams_near (c f : Stream) (n : Nat) (d : Int) (hc : c.isD = true) (hf : f.isD = false) (h : NearU c f d)
    (hd : d + 3 * (((n + 1) / 2 : Nat) : Int) ≤ 2 * c.step) :
    (fadeStreams c f n).2.2.1 = (fadeStreams c f n).2.2.2 ∧
    NearU (fadeStreams c f n).1 (fadeStreams c f n).2.1 (d + 3 * (((fadeStreams c f n).2.2.1 / 2 : Nat) : Int)) := by
  unfold fadeStreams
  rw [hc, hf]
  simp only [Bool.and_false, Bool.false_eq_true, if_false, if_true]
  unfold firD fadeU
  dsimp only
  have hN : (2 * (firDPairs c ((n + 1) / 2)).2 + 1) / 2 = (firDPairs c ((n + 1) / 2)).2 := by omega
  have hM : 2 * (firDPairs c ((n + 1) / 2)).2 / 2 = (firDPairs c ((n + 1) / 2)).2 := by omega
  rw [hN, hM]
  obtain ⟨d1, d2⟩ := fadeUIter_near ((n + 1) / 2) c f d h hd
  exact ⟨by rw [d1], d2⟩

/-- the switch from the up-sampling stage up to stage 0 at a constant ratio starts such a pair, one unit apart at most,
    with the new increment above `2³¹` -/
theorem switch_from_upsampling_near (s : St ρ) (occ0 : Int) (hsn : s.cur.sn = -1) (hd : s.cur.isD = false)
    (hss : s.cur.ss = 0) (hstep : 8589934592 ≤ s.cur.step) (hlen : s.cur.len = shiftr occ0 s.cur.sn) :
    NearU (switchStage s 1 (switchOcc s 1 occ0)).cur (switchStage s 1 (switchOcc s 1 occ0)).fo 1 ∧
    (switchStage s 1 (switchOcc s 1 occ0)).cur.isD = true ∧ (switchStage s 1 (switchOcc s 1 occ0)).fo.isD = false ∧
    (switchStage s 1 (switchOcc s 1 occ0)).fade ≠ 0 ∧ 2147483648 ≤ (switchStage s 1 (switchOcc s 1 occ0)).cur.step := by
  obtain ⟨_, _, _, _, _, h6, h7, _, _, h10, _, h12, h13, h14⟩ := switchStage_spec s 1 (switchOcc s 1 occ0)
  have hl := switchStage_len s 1 (switchOcc s 1 occ0)
  have hocc : switchOcc s 1 occ0 = occ0 := by
    unfold switchOcc
    dsimp only
    rw [switchPrep_sn, hsn, if_neg (by decide)]
  have hsh : switchShift s 1 = -2 := by
    unfold switchShift
    rw [hd, hsn]; decide
  rw [hsh, lshift_neg_two] at h13 h14
  rw [lshift_neg_one] at h12
  refine ⟨⟨?_, ?_, ?_, ?_, by rw [h14, hss]; decide, by rw [h6]; exact hss, ?_, ?_⟩, by rw [h10, hsn]; decide, by rw [h6]; exact hd,
    by rw [h7]; decide, by rw [h13]; omega⟩
  · rw [h12, h6]; omega
  · rw [h12, h6]; omega
  · rw [h13, h6]; omega
  · rw [h13, h6]; omega
  · rw [hl, h6, hlen, hsn, hocc]
    simp [shiftr]
    omega
  · rw [h13]; omega

/-- … and the chunk of the switch, and by `fadeStreams_near` every later chunk of the fade while `step_step = 0`, is aligned -/
theorem kernels_near (s : St ρ) (olen mn mx : Int) (d : Int) (hfade : s.fade ≠ 0) (hc : s.cur.isD = true) (hf : s.fo.isD = false)
    (h : NearU s.cur s.fo d) (hd : d + 3 * max 0 (min olen (s.fade / 2)) ≤ 2 * s.cur.step) :
    (kernels s olen mn mx).mis = false ∧
    NearU (kernels s olen mn mx).st.cur (kernels s olen mn mx).st.fo (d + 3 * ((kernels s olen mn mx).od : Int)) := by
  unfold kernels
  rw [if_pos hfade]
  dsimp only
  obtain ⟨a, b⟩ := fadeStreams_near s.cur s.fo (2 * min olen (s.fade / 2)).toNat d hc hf h
    (by
      have : ((((2 * min olen (s.fade / 2)).toNat + 1) / 2 : Nat) : Int) = max 0 (min olen (s.fade / 2)) := by omega
      rw [this]; exact hd)
  exact ⟨by simp [a], b⟩

end Soxr.Vr
