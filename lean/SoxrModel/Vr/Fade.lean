import SoxrModel.Vr.Lemmas
import SoxrModel.Vr.Arith
/-!
# Alignment of the two cross-faded streams (the C assertion `odone == odone2`)

After a **down**-switch both streams are down-sampling streams (`poly_fir_fade_d`), and the new current stream is the
old one *exactly* doubled: clock, increment and slew increment are shifted left by one, and so is `len` provided
`occupancy0` is a multiple of the coarser stage's sample (`2^sn` input frames).  Two exactly doubled streams take the
same decisions in `poly_fir_fade_d` — same number of pairs, same abandoned pair — and stay exactly doubled; so the
assertion holds in every chunk of such a fade.  The hypothesis on `occupancy0` is what F35 violates (an up-switch earlier in
the same `vr_process` call made a coarser stage the coarsest *after* `occupancy0` had been computed).
-/
namespace Soxr.Vr
variable {ρ : Type}

/-- `c` is `f` in the units of the next finer stage: everything doubled -/
def Doubled (c f : Stream) : Prop :=
  c.clk = 2 * f.clk ∧ c.step = 2 * f.step ∧ c.ss = 2 * f.ss ∧ c.len = 2 * f.len

theorem INT_lt_doubled (a len : Int) : INT (2 * a) < 2 * len ↔ INT a < len := by
  rw [INT_lt_iff, INT_lt_iff]
  unfold two32
  omega

/-- doubled streams produce the same number of pairs and stay doubled -/
theorem firDPairs_doubled (n : Nat) (c f : Stream) (h : Doubled c f) :
    (firDPairs c n).2 = (firDPairs f n).2 ∧ Doubled (firDPairs c n).1 (firDPairs f n).1 := by
  induction n generalizing c f with
  | zero => exact ⟨rfl, h⟩
  | succ n ih =>
    obtain ⟨h1, h2, h3, h4⟩ := h
    have e1 : INT c.clk < c.len ↔ INT f.clk < f.len := by rw [h1, h4]; exact INT_lt_doubled _ _
    have e2 : INT (c.clk + c.step) < c.len ↔ INT (f.clk + f.step) < f.len := by
      rw [h1, h2, h4, show 2 * f.clk + 2 * f.step = 2 * (f.clk + f.step) by omega]; exact INT_lt_doubled _ _
    unfold firDPairs
    by_cases a1 : INT f.clk < f.len
    · have a1' := e1.mpr a1
      rw [if_pos a1, if_pos a1']
      dsimp only
      by_cases a2 : INT (f.clk + f.step) < f.len
      · have a2' := e2.mpr a2
        rw [if_pos a2, if_pos a2']
        have := ih { c with clk := c.clk + c.step + c.step, step := c.step + c.ss }
          { f with clk := f.clk + f.step + f.step, step := f.step + f.ss }
          ⟨by show c.clk + c.step + c.step = 2 * (f.clk + f.step + f.step); omega,
           by show c.step + c.ss = 2 * (f.step + f.ss); omega, h3, h4⟩
        exact ⟨by rw [this.1], this.2⟩
      · have a2' : ¬ INT (c.clk + c.step) < c.len := fun x => a2 (e2.mp x)
        rw [if_neg a2, if_neg a2']
        exact ⟨rfl, h1, h2, h3, h4⟩
    · have a1' : ¬ INT c.clk < c.len := fun x => a1 (e1.mp x)
      rw [if_neg a1, if_neg a1']
      exact ⟨rfl, h1, h2, h3, h4⟩

/-- asking for exactly the number of pairs a stream delivered gives the same result -/
theorem firDPairs_prefix (n : Nat) (s : Stream) : firDPairs s (firDPairs s n).2 = firDPairs s n := by
  induction n generalizing s with
  | zero => rfl
  | succ n ih =>
    by_cases a1 : INT s.clk < s.len
    · by_cases a2 : INT (s.clk + s.step) < s.len
      · have e : firDPairs s (n + 1) =
            ((firDPairs { s with clk := s.clk + s.step + s.step, step := s.step + s.ss } n).1,
             (firDPairs { s with clk := s.clk + s.step + s.step, step := s.step + s.ss } n).2 + 1) := by
          conv => lhs; unfold firDPairs
          rw [if_pos a1]; dsimp only; rw [if_pos a2]
        rw [e]
        dsimp only
        conv => lhs; unfold firDPairs
        rw [if_pos a1]; dsimp only; rw [if_pos a2, ih]
      · have e : firDPairs s (n + 1) = (s, 0) := by
          conv => lhs; unfold firDPairs
          rw [if_pos a1]; dsimp only; rw [if_neg a2]
        rw [e]; rfl
    · have e : firDPairs s (n + 1) = (s, 0) := by
        conv => lhs; unfold firDPairs
        rw [if_neg a1]
      rw [e]; rfl

/-- **Alignment of a down-switch fade, one chunk.**  Two down-sampling streams of which the current one is the
    fade-out one exactly doubled deliver the same number of samples (`odone == odone2`), and remain exactly doubled. -/
theorem fadeStreams_doubled (c f : Stream) (n : Nat) (hc : c.isD = true) (hf : f.isD = true) (h : Doubled c f) :
    (fadeStreams c f n).2.2.1 = (fadeStreams c f n).2.2.2 ∧ Doubled (fadeStreams c f n).1 (fadeStreams c f n).2.1 := by
  unfold fadeStreams
  rw [hc, hf]
  simp only [Bool.and_self, if_true]
  unfold firD
  dsimp only
  have hN : (2 * (firDPairs c ((n + 1) / 2)).2 + 1) / 2 = (firDPairs c ((n + 1) / 2)).2 := by omega
  rw [hN]
  obtain ⟨d1, d2⟩ := firDPairs_doubled (firDPairs c ((n + 1) / 2)).2 c f h
  rw [firDPairs_prefix] at d1 d2
  exact ⟨by rw [← d1], d2⟩

/-- the same, at the level of one chunk's interpolation: no mismatch is counted, the pair stays doubled -/
theorem kernels_doubled (s : St ρ) (olen mn mx : Int) (hfade : s.fade ≠ 0) (hc : s.cur.isD = true) (hf : s.fo.isD = true)
    (h : Doubled s.cur s.fo) :
    (kernels s olen mn mx).mis = false ∧ Doubled (kernels s olen mn mx).st.cur (kernels s olen mn mx).st.fo := by
  unfold kernels
  rw [if_pos hfade]
  dsimp only
  obtain ⟨a, b⟩ := fadeStreams_doubled s.cur s.fo (2 * min olen (s.fade / 2)).toNat hc hf h
  exact ⟨by simp [a], b⟩

/-- `switchStage` sets the new current stream's `len` from `occupancy0` -/
theorem switchStage_len (s : St ρ) (dif occ0 : Int) :
    (switchStage s dif occ0).cur.len = shiftr occ0 (s.cur.sn + dif) := by
  unfold switchStage
  dsimp only
  generalize hs2 : (if dif > 0 then ({ s with inc := decide (dif > 0), fo := s.cur, cur := { s.cur with sn := s.cur.sn + dif } } : St ρ)
      else { s with inc := decide (dif > 0), fo := s.cur, cur := { s.cur with sn := s.cur.sn + dif }, sw := s.cur.sn + dif }) = s2
  have h2 : s2.ctl = { s.ctl with inc := decide (dif > 0), fo := s.cur, cur := { s.cur with sn := s.cur.sn + dif } } := by
    subst hs2; split <;> rfl
  have h4 : (switchFifoB (switchFifoA s2 dif) dif).ctl = s2.ctl := by rw [switchFifoB_ctl, switchFifoA_ctl]
  generalize switchFifoB (switchFifoA s2 dif) dif = s4 at h4
  have c4 : s4.cur = { s.cur with sn := s.cur.sn + dif } := by
    have : s4.ctl.cur = ({ s.cur with sn := s.cur.sn + dif } : Stream) := by rw [h4, h2]
    exact this
  unfold rescale enter
  dsimp only
  rw [c4]
  rfl

/-- **A down-switch starts an exactly doubled pair** — provided the stream switched away from had its `len` from the
    same `occupancy0` and `occupancy0` is a whole number of its samples (`2^sn ∣ occupancy0`; true when `occupancy0` was
    computed from a stage at least as coarse, false in the F35 witness). -/
theorem switch_down_doubled (s : St ρ) (occ0 : Int) (hsn : 1 ≤ s.cur.sn) (hd : s.cur.isD = true)
    (hlen : s.cur.len = shiftr occ0 s.cur.sn) (hdiv : occ0 % 2 ^ s.cur.sn.toNat = 0) :
    Doubled (switchStage s (-1) occ0).cur (switchStage s (-1) occ0).fo ∧
    (switchStage s (-1) occ0).cur.isD = true ∧ (switchStage s (-1) occ0).fo.isD = true ∧
    (switchStage s (-1) occ0).fade ≠ 0 := by
  obtain ⟨_, _, _, _, _, h6, h7, _, _, h10, _, h12, h13, h14⟩ := switchStage_spec s (-1) occ0
  have hl := switchStage_len s (-1) occ0
  have hsh : switchShift s (-1) = 1 := by
    unfold switchShift
    rw [hd]
    have : decide (s.cur.sn + -1 ≥ 0) = true := by simp; omega
    rw [this]; decide
  rw [hsh] at h13 h14
  rw [lshift_one] at h13 h14
  have h12' : (switchStage s (-1) occ0).cur.clk = s.cur.clk * 2 := by rw [h12]; exact lshift_one _
  refine ⟨⟨by rw [h12', h6]; omega, by rw [h13, h6]; omega, by rw [h14, h6]; omega, ?_⟩, ?_, by rw [h6]; exact hd, ?_⟩
  · rw [hl, h6, hlen]
    obtain ⟨k, hk⟩ := Int.eq_ofNat_of_zero_le (show 0 ≤ s.cur.sn + -1 by omega)
    have e1 : s.cur.sn = ((k + 1 : Nat) : Int) := by omega
    unfold shiftr
    rw [if_neg (by omega), if_neg (by omega), hk, e1, Int.toNat_natCast, Int.toNat_natCast]
    rw [e1, Int.toNat_natCast] at hdiv
    rw [Int.pow_succ] at hdiv ⊢
    have hp : (0 : Int) < 2 ^ k := Int.pow_pos (by decide)
    generalize (2 : Int) ^ k = P at *
    -- occ0 = (P*2)*q  ⇒  occ0 / P = 2 * (occ0 / (P*2))
    have hq := Int.mul_ediv_add_emod occ0 (P * 2)
    rw [hdiv, Int.add_zero] at hq
    generalize occ0 / (P * 2) = q at *
    rw [← hq, show P * 2 * q = (2 * q) * P by rw [Int.mul_comm P 2, Int.mul_assoc, Int.mul_comm P q, ← Int.mul_assoc]]
    rw [Int.mul_ediv_cancel _ (Int.ne_of_gt hp)]
  · rw [h10]; simp; omega
  · rw [h7]; decide

end Soxr.Vr
