import SoxrModel.Vr.Lemmas
import SoxrModel.Vr.Arith
import SoxrModel.Vr.Fade
/-!
# The whole engine at a constant ratio: how many frames come out of `N` frames of input

`Vr/Frames.lean` counts the outputs of the interpolator *clock* given its `len`.  This file supplies the rest of the
engine for a state in which nothing is outstanding and the current stage suits the ratio (so that no stage switch is
ever taken): `vr_input`, the half-band chain of `do_input_stage` with its preloads, `occupancy0`, the chunked `while`
loop, the hand-back of consumed input (`fifo_read` on every stage, clock rebased), `vr_flush`.

* one `vr_process` call runs the interpolator exactly as ONE call of `poly_fir_d` / `poly_fir_u` with `olen0` would
  (`loop_steadyD`, `loop_steadyU`): chunking is invisible at a constant ratio;
* the occupancy of stage `j` of the chain is a fixed function of the input so far (`fed`, after the flush `fedF`) minus
  what the interpolator consumed, scaled to that stage (`Chain`); after the flush stage `k` has been fed
  `480 + ⌊N / 2^k⌋` samples, so the interpolator's absolute limit is `⌊N / 2^k⌋` samples of its stage;
* hence the absolute clock (`consumed · 2³² + at`) satisfies the hypotheses of `count_vs_effective_ratio` with the whole
  input `N`, for every blocking of input and output requests (`Eng`, `eng_stepOp`).
-/
namespace Soxr.Vr
set_option linter.unusedSimpArgs false
variable {ρ : Type}

/-! ### Stage array access -/

theorem stg_setStg_same (s : St ρ) (i : Int) (x : Stage) (h : (i + 1).toNat < s.stages.size) :
    (s.setStg i x).stg i = x := by
  simp [St.stg, St.setStg, Array.set!, h]

theorem stg_setStg_ne (s : St ρ) (i j : Int) (x : Stage) (hi : -1 ≤ i) (hj : -1 ≤ j) (h : i ≠ j) :
    (s.setStg i x).stg j = s.stg j := by
  have hne : (i + 1).toNat ≠ (j + 1).toNat := by omega
  simp [St.stg, St.setStg, Array.set!, Array.getElem!_eq_getD, Array.getD_eq_getD_getElem?,
    Array.getElem?_setIfInBounds_ne hne]

theorem size_setStg (s : St ρ) (i : Int) (x : Stage) : (s.setStg i x).stages.size = s.stages.size := by
  simp [St.setStg, Array.set!]

/-! ### A stream that suits its stage never asks for a stage switch -/

/-- `step` lies in the octave of the stream's stage (closed at the top: the top stage keeps ratios up to the declared
    maximum; the up-sampling stream keeps everything up to ratio 1) -/
def InRange (c : Stream) : Prop :=
  if c.isD then 2147483648 ≤ c.step ∧ c.step ≤ 4294967296 else 0 < c.step ∧ c.step ≤ 8589934592

instance (c : Stream) : Decidable (InRange c) := by unfold InRange; infer_instance

theorem stageDif_inRange (s : St ρ) (h : InRange s.cur) : stageDif s = 0 := by
  unfold stageDif
  unfold InRange at h
  split
  · cases hd : s.cur.isD with
    | true =>
      rw [hd] at h
      simp only [if_true] at h ⊢
      unfold INT FRAC two32
      rw [if_neg (by omega), if_neg (by omega)]
    | false =>
      rw [hd] at h
      simp only [Bool.false_eq_true, if_false] at h ⊢
      unfold INT FRAC two32
      rw [if_neg (by omega)]
  · rfl

/-- nothing outstanding, no cross-fade, and the stream suits its stage -/
def Steady (s : St ρ) : Prop :=
  s.slew = 0 ∧ s.newR = none ∧ s.fade = 0 ∧ s.cur.ss = 0 ∧ InRange s.cur

theorem doesSwitch_steady (s : St ρ) (h : Steady s) : doesSwitch s = false := by
  unfold doesSwitch
  rw [stageDif_inRange s h.2.2.2.2]
  simp

/-! ### Composition of the interpolator loops -/

theorem firDPairs_add (m n : Nat) (s : Stream) (h : (firDPairs s m).2 = m) :
    firDPairs s (m + n) = ((firDPairs (firDPairs s m).1 n).1, m + (firDPairs (firDPairs s m).1 n).2) := by
  induction m generalizing s with
  | zero => simp [firDPairs]
  | succ m ih =>
    have hu : firDPairs s (m + 1) = (if INT s.clk < s.len then
        (if INT (s.clk + s.step) < s.len then
          ((firDPairs { s with clk := s.clk + s.step + s.step, step := s.step + s.ss } m).1,
           (firDPairs { s with clk := s.clk + s.step + s.step, step := s.step + s.ss } m).2 + 1)
         else (s, 0)) else (s, 0)) := by
      conv => lhs; unfold firDPairs
    by_cases a1 : INT s.clk < s.len
    · by_cases a2 : INT (s.clk + s.step) < s.len
      · rw [hu, if_pos a1, if_pos a2] at h
        dsimp only at h
        have h' : (firDPairs { s with clk := s.clk + s.step + s.step, step := s.step + s.ss } m).2 = m := by omega
        have := ih _ h'
        rw [show m + 1 + n = (m + n) + 1 by omega]
        conv => lhs; unfold firDPairs
        rw [if_pos a1]; dsimp only; rw [if_pos a2, this, hu, if_pos a1, if_pos a2]
        dsimp only
        refine Prod.ext rfl ?_
        dsimp only
        omega
      · rw [hu, if_pos a1, if_neg a2] at h
        simp at h
    · rw [hu, if_neg a1] at h
      simp at h

theorem firDPairs_stuck (m n : Nat) (s : Stream) (h : (firDPairs s m).2 < m) (hmn : m ≤ n) :
    firDPairs s n = firDPairs s m := by
  induction m generalizing s n with
  | zero => omega
  | succ m ih =>
    obtain ⟨n', rfl⟩ : ∃ n', n = n' + 1 := ⟨n - 1, by omega⟩
    by_cases a1 : INT s.clk < s.len
    · by_cases a2 : INT (s.clk + s.step) < s.len
      · have e : ∀ q, firDPairs s (q + 1) =
            ((firDPairs { s with clk := s.clk + s.step + s.step, step := s.step + s.ss } q).1,
             (firDPairs { s with clk := s.clk + s.step + s.step, step := s.step + s.ss } q).2 + 1) := by
          intro q
          conv => lhs; unfold firDPairs
          rw [if_pos a1]; dsimp only; rw [if_pos a2]
        rw [e] at h
        dsimp only at h
        rw [e, e, ih n' { s with clk := s.clk + s.step + s.step, step := s.step + s.ss } (by omega) (by omega)]
      · have e : ∀ q, firDPairs s (q + 1) = (s, 0) := by
          intro q
          conv => lhs; unfold firDPairs
          rw [if_pos a1]; dsimp only; rw [if_neg a2]
        rw [e, e]
    · have e : ∀ q, firDPairs s (q + 1) = (s, 0) := by
        intro q
        conv => lhs; unfold firDPairs
        rw [if_neg a1]
      rw [e, e]

theorem firU_add (m n : Nat) (s : Stream) (h : (firU s m).2 = m) :
    firU s (m + n) = ((firU (firU s m).1 n).1, m + (firU (firU s m).1 n).2) := by
  induction m generalizing s with
  | zero => simp [firU]
  | succ m ih =>
    by_cases a1 : INT s.clk < s.len
    · have e : ∀ q, firU s (q + 1) =
          ((firU { s with clk := s.clk + s.step, step := s.step + s.ss } q).1,
           (firU { s with clk := s.clk + s.step, step := s.step + s.ss } q).2 + 1) := by
        intro q
        conv => lhs; unfold firU
        rw [if_pos a1]
      rw [e] at h
      dsimp only at h
      have h' : (firU { s with clk := s.clk + s.step, step := s.step + s.ss } m).2 = m := by omega
      rw [show m + 1 + n = (m + n) + 1 by omega, e, ih _ h', e]
      refine Prod.ext rfl ?_
      dsimp only
      omega
    · have e : firU s (m + 1) = (s, 0) := by
        conv => lhs; unfold firU
        rw [if_neg a1]
      rw [e] at h
      simp at h

theorem firU_stuck (m n : Nat) (s : Stream) (h : (firU s m).2 < m) (hmn : m ≤ n) : firU s n = firU s m := by
  induction m generalizing s n with
  | zero => omega
  | succ m ih =>
    obtain ⟨n', rfl⟩ : ∃ n', n = n' + 1 := ⟨n - 1, by omega⟩
    by_cases a1 : INT s.clk < s.len
    · have e : ∀ q, firU s (q + 1) =
          ((firU { s with clk := s.clk + s.step, step := s.step + s.ss } q).1,
           (firU { s with clk := s.clk + s.step, step := s.step + s.ss } q).2 + 1) := by
        intro q
        conv => lhs; unfold firU
        rw [if_pos a1]
      rw [e] at h
      dsimp only at h
      rw [e, e, ih n' { s with clk := s.clk + s.step, step := s.step + s.ss } (by omega) (by omega)]
    · have e : ∀ q, firU s (q + 1) = (s, 0) := by
        intro q
        conv => lhs; unfold firU
        rw [if_neg a1]
      rw [e, e]

/-! ### One chunk, and the whole `while` loop, of a steady engine -/

theorem chunkMax_pos : 0 < chunkMax := by decide

/-- a chunk of a steady down-sampling stream: `poly_fir_d` for `min(remaining, 64)` frames, nothing else changes -/
theorem chunk_steadyD (cfg : Cfg ρ) (olen0 : Nat) (l : LoopSt ρ) (h : Steady l.st) (hd : l.st.cur.isD = true) :
    (chunk cfg olen0 l).1.st = { l.st with cur := (firDPairs l.st.cur (min (olen0 - l.od0) chunkMax)).1 } ∧
    (chunk cfg olen0 l).1.od0 = l.od0 + (firDPairs l.st.cur (min (olen0 - l.od0) chunkMax)).2 ∧
    (chunk cfg olen0 l).1.mn = l.mn ∧ (chunk cfg olen0 l).1.mx = l.mx ∧ (chunk cfg olen0 l).1.occ = l.occ ∧
    (chunk cfg olen0 l).1.nsw = l.nsw ∧ (chunk cfg olen0 l).1.nmis = l.nmis ∧
    (chunk cfg olen0 l).2 = decide ((firDPairs l.st.cur (min (olen0 - l.od0) chunkMax)).2 = min (olen0 - l.od0) chunkMax) := by
  obtain ⟨h1, h2, h3, h4, h5⟩ := h
  have hsw := doesSwitch_steady l.st ⟨h1, h2, h3, h4, h5⟩
  have hdif := stageDif_inRange l.st h5
  have hm : min (((olen0 - l.od0 : Nat) : Int)) (chunkMax : Int) = ((min (olen0 - l.od0) chunkMax : Nat) : Int) := by omega
  unfold chunk
  rw [chunkStart_idle cfg l.st _ h1 h2]
  simp only [hsw, hdif, Bool.false_eq_true, if_false, Bool.false_and]
  unfold kernels
  rw [if_neg (by rw [h3]; decide), if_pos hd]
  simp only [hm]
  unfold firD chunkFinish chunkMn chunkMx
  have hn : ((2 * ((min (olen0 - l.od0) chunkMax : Nat) : Int)).toNat + 1) / 2 = min (olen0 - l.od0) chunkMax := by omega
  simp only [hn, h1]
  generalize firDPairs l.st.cur (min (olen0 - l.od0) chunkMax) = X
  have hx : 2 * X.2 / 2 = X.2 := by omega
  simp [hx, h1]
  omega

/-- … of a steady up-sampling stream: `poly_fir_u` -/
theorem chunk_steadyU (cfg : Cfg ρ) (olen0 : Nat) (l : LoopSt ρ) (h : Steady l.st) (hd : l.st.cur.isD = false) :
    (chunk cfg olen0 l).1.st = { l.st with cur := (firU l.st.cur (min (olen0 - l.od0) chunkMax)).1 } ∧
    (chunk cfg olen0 l).1.od0 = l.od0 + (firU l.st.cur (min (olen0 - l.od0) chunkMax)).2 ∧
    (chunk cfg olen0 l).1.mn = l.mn ∧ (chunk cfg olen0 l).1.mx = l.mx ∧ (chunk cfg olen0 l).1.occ = l.occ ∧
    (chunk cfg olen0 l).1.nsw = l.nsw ∧ (chunk cfg olen0 l).1.nmis = l.nmis ∧
    (chunk cfg olen0 l).2 = decide ((firU l.st.cur (min (olen0 - l.od0) chunkMax)).2 = min (olen0 - l.od0) chunkMax) := by
  obtain ⟨h1, h2, h3, h4, h5⟩ := h
  have hsw := doesSwitch_steady l.st ⟨h1, h2, h3, h4, h5⟩
  have hdif := stageDif_inRange l.st h5
  have hm : min (((olen0 - l.od0 : Nat) : Int)) (chunkMax : Int) = ((min (olen0 - l.od0) chunkMax : Nat) : Int) := by omega
  unfold chunk
  rw [chunkStart_idle cfg l.st _ h1 h2]
  simp only [hsw, hdif, Bool.false_eq_true, if_false, Bool.false_and]
  unfold kernels
  rw [if_neg (by rw [h3]; decide), if_neg (by rw [hd]; decide)]
  simp only [hm, Int.toNat_natCast]
  unfold chunkFinish chunkMn chunkMx
  generalize firU l.st.cur (min (olen0 - l.od0) chunkMax) = X
  simp [h1]
  omega

theorem steady_firDPairs (s : St ρ) (n : Nat) (h : Steady s) : Steady { s with cur := (firDPairs s.cur n).1 } ∧
    (firDPairs s.cur n).1.isD = s.cur.isD := by
  obtain ⟨h1, h2, h3, h4, h5⟩ := h
  obtain ⟨e1, e2, _, _, e5, _, _⟩ := firDPairs_spec n s.cur
  refine ⟨⟨h1, h2, h3, by show (firDPairs s.cur n).1.ss = 0; rw [e2, h4], ?_⟩, e5⟩
  show InRange (firDPairs s.cur n).1
  unfold InRange at h5 ⊢
  rw [e5, e1, h4]
  simpa using h5

theorem steady_firU (s : St ρ) (n : Nat) (h : Steady s) : Steady { s with cur := (firU s.cur n).1 } ∧
    (firU s.cur n).1.isD = s.cur.isD := by
  obtain ⟨h1, h2, h3, h4, h5⟩ := h
  obtain ⟨e1, e2, _, _, e5, _, _⟩ := firU_spec n s.cur
  refine ⟨⟨h1, h2, h3, by show (firU s.cur n).1.ss = 0; rw [e2, h4], ?_⟩, e5⟩
  show InRange (firU s.cur n).1
  unfold InRange at h5 ⊢
  rw [e5, e1, h4]
  simpa using h5

/-- **Chunking is invisible at a constant ratio (down-sampling stream).**  The `while` loop of one `vr_process` call —
    chunks of at most 64 frames, stopping at the first chunk that runs out of input — leaves the engine exactly where ONE
    `poly_fir_d` over all the frames still wanted would: same clock, same count; nothing else moves. -/
theorem loop_steadyD (cfg : Cfg ρ) (olen0 : Nat) : ∀ (f : Nat) (l : LoopSt ρ), Steady l.st → l.st.cur.isD = true →
    olen0 - l.od0 < f →
    (loop cfg olen0 f l).st = { l.st with cur := (firDPairs l.st.cur (olen0 - l.od0)).1 } ∧
    (loop cfg olen0 f l).od0 = l.od0 + (firDPairs l.st.cur (olen0 - l.od0)).2 ∧
    (loop cfg olen0 f l).mn = l.mn ∧ (loop cfg olen0 f l).mx = l.mx ∧ (loop cfg olen0 f l).occ = l.occ ∧
    (loop cfg olen0 f l).nsw = l.nsw ∧ (loop cfg olen0 f l).nmis = l.nmis := by
  intro f
  induction f with
  | zero => intro l _ _ hf; omega
  | succ f ih =>
    intro l hs hd hf
    unfold loop
    by_cases hlt : l.od0 < olen0
    · rw [if_pos hlt]
      dsimp only
      obtain ⟨c1, c2, c3, c4, c5, c6, c7, c8⟩ := chunk_steadyD cfg olen0 l hs hd
      have hmpos : 0 < min (olen0 - l.od0) chunkMax := by have := chunkMax_pos; omega
      generalize hm : min (olen0 - l.od0) chunkMax = m at *
      by_cases hfull : (firDPairs l.st.cur m).2 = m
      · rw [c8, decide_eq_true hfull, if_pos rfl]
        obtain ⟨st', hd'⟩ := steady_firDPairs l.st m hs
        have hs2 : Steady (chunk cfg olen0 l).1.st := by rw [c1]; exact st'
        have hd2 : (chunk cfg olen0 l).1.st.cur.isD = true := by rw [c1]; show (firDPairs l.st.cur m).1.isD = true; rw [hd', hd]
        obtain ⟨i1, i2, i3, i4, i5, i6, i7⟩ := ih (chunk cfg olen0 l).1 hs2 hd2 (by rw [c2, hfull]; omega)
        have hsplit : olen0 - l.od0 = m + (olen0 - (chunk cfg olen0 l).1.od0) := by rw [c2, hfull]; omega
        have hadd := firDPairs_add m (olen0 - (chunk cfg olen0 l).1.od0) l.st.cur hfull
        rw [hsplit, hadd]
        have hcur : (chunk cfg olen0 l).1.st.cur = (firDPairs l.st.cur m).1 := by rw [c1]
        refine ⟨?_, ?_, by rw [i3, c3], by rw [i4, c4], by rw [i5, c5], by rw [i6, c6], by rw [i7, c7]⟩
        · rw [i1, c1]
        · rw [i2, c2, hcur, hfull]; dsimp only; omega
      · rw [c8, decide_eq_false hfull, if_neg (by simp)]
        have hlt2 : (firDPairs l.st.cur m).2 < m := by
          have := (firDPairs_spec m l.st.cur).2.2.2.2.2.2; omega
        have hst := firDPairs_stuck m (olen0 - l.od0) l.st.cur hlt2 (by omega)
        rw [hst]
        exact ⟨c1, c2, c3, c4, c5, c6, c7⟩
    · rw [if_neg hlt]
      have : olen0 - l.od0 = 0 := by omega
      rw [this]
      exact ⟨rfl, rfl, rfl, rfl, rfl, rfl, rfl⟩

/-- … and the up-sampling stream: one `poly_fir_u`. -/
theorem loop_steadyU (cfg : Cfg ρ) (olen0 : Nat) : ∀ (f : Nat) (l : LoopSt ρ), Steady l.st → l.st.cur.isD = false →
    olen0 - l.od0 < f →
    (loop cfg olen0 f l).st = { l.st with cur := (firU l.st.cur (olen0 - l.od0)).1 } ∧
    (loop cfg olen0 f l).od0 = l.od0 + (firU l.st.cur (olen0 - l.od0)).2 ∧
    (loop cfg olen0 f l).mn = l.mn ∧ (loop cfg olen0 f l).mx = l.mx ∧ (loop cfg olen0 f l).occ = l.occ ∧
    (loop cfg olen0 f l).nsw = l.nsw ∧ (loop cfg olen0 f l).nmis = l.nmis := by
  intro f
  induction f with
  | zero => intro l _ _ hf; omega
  | succ f ih =>
    intro l hs hd hf
    unfold loop
    by_cases hlt : l.od0 < olen0
    · rw [if_pos hlt]
      dsimp only
      obtain ⟨c1, c2, c3, c4, c5, c6, c7, c8⟩ := chunk_steadyU cfg olen0 l hs hd
      have hmpos : 0 < min (olen0 - l.od0) chunkMax := by have := chunkMax_pos; omega
      generalize hm : min (olen0 - l.od0) chunkMax = m at *
      by_cases hfull : (firU l.st.cur m).2 = m
      · rw [c8, decide_eq_true hfull, if_pos rfl]
        obtain ⟨st', hd'⟩ := steady_firU l.st m hs
        have hs2 : Steady (chunk cfg olen0 l).1.st := by rw [c1]; exact st'
        have hd2 : (chunk cfg olen0 l).1.st.cur.isD = false := by rw [c1]; show (firU l.st.cur m).1.isD = false; rw [hd', hd]
        obtain ⟨i1, i2, i3, i4, i5, i6, i7⟩ := ih (chunk cfg olen0 l).1 hs2 hd2 (by rw [c2, hfull]; omega)
        have hsplit : olen0 - l.od0 = m + (olen0 - (chunk cfg olen0 l).1.od0) := by rw [c2, hfull]; omega
        have hadd := firU_add m (olen0 - (chunk cfg olen0 l).1.od0) l.st.cur hfull
        rw [hsplit, hadd]
        have hcur : (chunk cfg olen0 l).1.st.cur = (firU l.st.cur m).1 := by rw [c1]
        refine ⟨?_, ?_, by rw [i3, c3], by rw [i4, c4], by rw [i5, c5], by rw [i6, c6], by rw [i7, c7]⟩
        · rw [i1, c1]
        · rw [i2, c2, hcur, hfull]; dsimp only; omega
      · rw [c8, decide_eq_false hfull, if_neg (by simp)]
        have hlt2 : (firU l.st.cur m).2 < m := by
          have := (firU_spec m l.st.cur).2.2.2.2.2.2; omega
        have hst := firU_stuck m (olen0 - l.od0) l.st.cur hlt2 (by omega)
        rw [hst]
        exact ⟨c1, c2, c3, c4, c5, c6, c7⟩
    · rw [if_neg hlt]
      have : olen0 - l.od0 = 0 := by omega
      rw [this]
      exact ⟨rfl, rfl, rfl, rfl, rfl, rfl, rfl⟩

/-! ### `do_input_stage` on the occupancies -/

theorem stg_stages_set (s : St ρ) (t : St ρ) (i j : Int) (x : Stage) (ht : t.stages = s.stages.set! (i + 1).toNat x)
    (hi : -1 ≤ i) (hj : -1 ≤ j) (hsz : (i + 1).toNat < s.stages.size) :
    t.stg j = if j = i then x else s.stg j := by
  by_cases h : j = i
  · subst h
    simp [St.stg, ht, Array.set!, hsz]
  · have hne : (i + 1).toNat ≠ (j + 1).toNat := by omega
    simp [St.stg, ht, h, Array.set!, Array.getElem!_eq_getD, Array.getD_eq_getD_getElem?,
      Array.getElem?_setIfInBounds_ne hne]

/-- `do_input_stage(sn, sign)`: if the neighbour's FIFO allows `ln > 0` new samples, stage `sn` grows by `ln` (plus its
    preload of zeros in the call that follows `vr_flush`); no other stage changes; nothing but FIFO bookkeeping changes. -/
theorem doInput_stg (s : St ρ) (sn sign mn : Int) (hsn : -1 ≤ sn) (hsz : (sn + 1).toNat < s.stages.size) :
    (doInput s sn sign mn).1.ctl = s.ctl ∧ (doInput s sn sign mn).1.stages.size = s.stages.size ∧
    (doInput s sn sign mn).2 = decide (0 < doInputLen s sn sign) ∧
    (∀ j : Int, -1 ≤ j → j ≠ sn → (doInput s sn sign mn).1.stg j = s.stg j) ∧
    ((doInput s sn sign mn).1.stg sn).pre = (s.stg sn).pre ∧
    ((doInput s sn sign mn).1.stg sn).occ =
      (if 0 < doInputLen s sn sign then (s.stg sn).occ + doInputLen s sn sign + (if s.fl > 0 then ((s.stg sn).pre : Int) else 0)
       else (s.stg sn).occ) := by
  refine ⟨doInput_ctl s sn sign mn, ?_⟩
  unfold doInput
  dsimp only
  by_cases hl : doInputLen s sn sign ≤ 0
  · rw [if_pos hl]
    have : ¬ 0 < doInputLen s sn sign := by omega
    simp [this]
  · rw [if_neg hl]
    have hpos : 0 < doInputLen s sn sign := by omega
    generalize hT : ({ s with sw := _, xfade := _, stages := _ } : St ρ) = T
    have hst : T.stages = s.stages.set! (sn + 1).toNat
        { s.stg sn with occ := (s.stg sn).occ + doInputLen s sn sign + (if s.fl > 0 then ((s.stg sn).pre : Int) else 0),
                        xf := (xfadeStep (s.stg sn) s.inc s.sw s.xfade sn (doInputLen s sn sign)).1,
                        fast := (xfadeStep (s.stg sn) s.inc s.sw s.xfade sn (doInputLen s sn sign)).2.1 } := by
      rw [← hT]
    refine ⟨by rw [hst]; simp [Array.set!], by simp [hpos], fun j hj hne => ?_, ?_, ?_⟩
    · rw [stg_stages_set s T sn j _ hst hsn hj hsz, if_neg hne]
    · rw [stg_stages_set s T sn sn _ hst hsn hsn hsz, if_pos rfl]
    · rw [stg_stages_set s T sn sn _ hst hsn hsn hsz, if_pos rfl, if_pos hpos]

/-! ### The half-band chain: what each stage has been fed -/

theorem consts : (H2 : Int) = 120 ∧ ((PD / 2 : Nat) : Int) = 10 ∧ stagePreload 0 = 240 ∧ (∀ j : Nat, stagePreload ((j : Int) + 1) = 180) := by
  refine ⟨by decide, by decide, by decide, fun j => ?_⟩
  unfold stagePreload
  rw [if_neg (by omega), if_neg (by omega)]
  decide

/-- samples ever appended to the FIFO of stage `j` (its preload included) once `N` input frames have been written and
    `vr_process` has run, before `vr_flush`: stage 0 holds its preload and the input; stage `j+1` its preload and half of
    what stage `j` holds beyond `2·HALF_FIR_LEN_2` -/
def fed (N : Int) : Nat → Int
  | 0 => 240 + N
  | j + 1 => 180 + max 0 ((fed N j - 240) / 2)

/-- … and after the `vr_process` call that follows `vr_flush` (every stage gets its preload of zeros once more) -/
def fedF (N : Int) : Nat → Int
  | 0 => 480 + N
  | j + 1 => 360 + (fedF N j - 240) / 2

theorem fed_ge (N : Int) (j : Nat) : 180 ≤ fed N (j + 1) := by
  unfold fed; omega

theorem fed_mono (N N' : Int) (h : N ≤ N') (j : Nat) : fed N j ≤ fed N' j := by
  induction j with
  | zero => unfold fed; omega
  | succ j ih => unfold fed; omega

theorem fed_stable (N N' : Int) (j : Nat) (h : fed N j = fed N' j) (i : Nat) : fed N (j + i) = fed N' (j + i) := by
  induction i with
  | zero => exact h
  | succ i ih => rw [← Nat.add_assoc]; unfold fed; rw [ih]

/-- after the flush stage `j` has been fed `480 + ⌊N / 2^j⌋` samples -/
theorem fedF_closed (N : Int) (j : Nat) : fedF N j = 480 + N / 2 ^ j := by
  induction j with
  | zero => simp [fedF]
  | succ j ih =>
    unfold fedF
    rw [ih, Int.pow_succ, ← Int.ediv_ediv_of_nonneg (Int.le_of_lt (two_pow_pos j))]
    omega

theorem fed_le_fedF (N : Int) (hN : 0 ≤ N) (j : Nat) : fed N j + 239 ≤ fedF N j ∧ 480 ≤ fedF N j := by
  induction j with
  | zero => unfold fed fedF; omega
  | succ j ih => unfold fed fedF; omega

/-- which total stage `j` has been fed: before (`b = false`) or after (`b = true`) the flush -/
def fedB (b : Bool) (N : Int) (j : Nat) : Int := if b then fedF N j else fed N j

/-- the FIFO occupancies of stages `0 … k` when the interpolator (reading stage `k`) has consumed `C` samples of stage `k`
    in all: every stage holds what it was fed minus `C` scaled to its own rate; preloads as `vr_init` set them -/
def Chain (k : Nat) (s : St ρ) (b : Bool) (N C : Int) : Prop :=
  ∀ j : Nat, j ≤ k → (s.stg (j : Int)).occ = fedB b N j - 2 ^ (k - j) * C ∧ (s.stg (j : Int)).pre = stagePreload (j : Int)

theorem intRange_nil (a b : Int) (h : b < a) : intRange a b = [] := by
  unfold intRange
  have : (b - a + 1).toNat = 0 := by omega
  rw [this]; rfl

theorem intRange_cons (a b : Int) (h : a ≤ b) : intRange a b = a :: intRange (a + 1) b := by
  unfold intRange
  obtain ⟨n, hn⟩ : ∃ n : Nat, (b - a + 1).toNat = n + 1 := ⟨(b - a).toNat, by omega⟩
  have hn' : (b - (a + 1) + 1).toNat = n := by omega
  rw [hn, hn', List.range_succ_eq_map, List.map_cons, List.map_map]
  congr 1
  · simp
  · apply List.map_congr_left
    intro x _
    simp only [Function.comp]
    push_cast
    omega

/-- the chain invariant on the stages `lo ≤ j < hi` only -/
def ChainR (k : Nat) (s : St ρ) (b : Bool) (N C : Int) (lo hi : Nat) : Prop :=
  ∀ j : Nat, lo ≤ j → j < hi → (s.stg (j : Int)).occ = fedB b N j - 2 ^ (k - j) * C ∧ (s.stg (j : Int)).pre = stagePreload (j : Int)

theorem chain_iff (k : Nat) (s : St ρ) (b : Bool) (N C : Int) : Chain k s b N C ↔ ChainR k s b N C 0 (k + 1) := by
  unfold Chain ChainR
  constructor
  · intro h j _ hj; exact h j (by omega)
  · intro h j hj; exact h j (by omega) (by omega)

theorem doInput_nop (s : St ρ) (sn sign mn : Int) (h : doInputLen s sn sign ≤ 0) : doInput s sn sign mn = (s, false) := by
  unfold doInput
  dsimp only
  rw [if_pos h]

theorem pow_split (k j : Nat) (h : j + 1 ≤ k) (C : Int) : (2 : Int) ^ (k - j) * C = 2 * ((2 : Int) ^ (k - (j + 1)) * C) := by
  rw [show k - j = (k - (j + 1)) + 1 by omega, Int.pow_succ, Int.mul_comm _ 2, Int.mul_assoc]

theorem shiftr_one (x : Int) : shiftr x 1 = x / 2 := by simp [shiftr]

/-- `len` of `do_input_stage(j+1, +1)` when stage `j` holds `a − 2P` and stage `j+1` holds `c − P` with preload 180 -/
theorem doInputLen_chain (s : St ρ) (j : Nat) (a c P : Int) (h0 : (s.stg (j : Int)).occ = a - 2 * P)
    (h1 : (s.stg ((j + 1 : Nat) : Int)).occ = c - P) (hp : (s.stg ((j + 1 : Nat) : Int)).pre = stagePreload ((j + 1 : Nat) : Int)) :
    doInputLen s ((j + 1 : Nat) : Int) 1 = 180 + (a - 240) / 2 - c := by
  unfold doInputLen
  dsimp only
  have e : ((j + 1 : Nat) : Int) - 1 = (j : Int) := by omega
  have hpre : stagePreload ((j + 1 : Nat) : Int) = 180 := by
    have := consts.2.2.2 j
    rw [show ((j + 1 : Nat) : Int) = (j : Int) + 1 by omega]; exact this
  rw [e, h0, h1, hp, hpre, consts.1, shiftr_one]
  omega

/-- **Feeding the chain, ordinary call** (no flush pending).  Stages below `j` already account for `N'` input frames,
    stages `j … k` still for `N ≤ N'`: after the rest of the loop `for (j…k) if (!do_input_stage(j)) break;` all of them
    account for `N'` — including when the loop breaks early, because then nothing above changes either. -/
theorem feed_normal (k : Nat) (mn : Int) (N N' C : Int) (hNN : N ≤ N') : ∀ (d j : Nat) (s : St ρ), j + d = k + 1 → 1 ≤ j →
    k + 1 < s.stages.size → s.fl ≤ 0 → ChainR k s false N' C 0 j → ChainR k s false N C j (k + 1) →
    ChainR k (inputStages s mn (intRange (j : Int) (k : Int))) false N' C 0 (k + 1) ∧
    (inputStages s mn (intRange (j : Int) (k : Int))).stages.size = s.stages.size := by
  intro d
  induction d with
  | zero =>
    intro j s hj _ _ _ hlo _
    rw [intRange_nil _ _ (by omega)]
    have : j = k + 1 := by omega
    subst this
    exact ⟨hlo, rfl⟩
  | succ d ih =>
    intro j s hj h1 hsz hfl hlo hhi
    obtain ⟨j', rfl⟩ : ∃ j', j = j' + 1 := ⟨j - 1, by omega⟩
    rw [intRange_cons _ _ (by omega)]
    have e0 : ¬ ((j' + 1 : Nat) : Int) = 0 := by omega
    have e1 : ¬ ((j' + 1 : Nat) : Int) < 0 := by omega
    unfold inputStages
    simp only [e0, e1, if_false]
    obtain ⟨a0, _⟩ := hlo j' (by omega) (by omega)
    obtain ⟨a1, p1⟩ := hhi (j' + 1) (by omega) (by omega)
    rw [pow_split k j' (by omega)] at a0
    have hln := doInputLen_chain s j' _ _ _ a0 a1 p1
    have hfed : fed N' (j' + 1) = 180 + max 0 ((fed N' j' - 240) / 2) := by conv => lhs; unfold fed
    simp only [fedB, Bool.false_eq_true, if_false] at hln a0 a1
    by_cases hl : doInputLen s ((j' + 1 : Nat) : Int) 1 ≤ 0
    · rw [doInput_nop _ _ _ _ hl]
      simp only [Bool.false_eq_true, if_false]
      have hge := fed_ge N j'
      have hm := fed_mono N N' hNN (j' + 1)
      have heq : fed N (j' + 1) = fed N' (j' + 1) := by omega
      refine ⟨fun i hi0 hik => ?_, trivial⟩
      by_cases hij : i < j' + 1
      · exact hlo i hi0 hij
      · obtain ⟨b0, b1⟩ := hhi i (by omega) hik
        refine ⟨?_, b1⟩
        rw [b0]
        simp only [fedB, Bool.false_eq_true, if_false]
        have := fed_stable N N' (j' + 1) heq (i - (j' + 1))
        rw [show j' + 1 + (i - (j' + 1)) = i by omega] at this
        rw [this]
    · obtain ⟨c1, c2, c3, c4, c5, c6⟩ := doInput_stg s ((j' + 1 : Nat) : Int) 1 mn (by omega) (by omega)
      have hpos : 0 < doInputLen s ((j' + 1 : Nat) : Int) 1 := by omega
      rw [c3, decide_eq_true hpos, if_pos rfl]
      rw [if_pos hpos, if_neg (by omega)] at c6
      have hcast : (((j' + 1 : Nat) : Int) + 1) = ((j' + 1 + 1 : Nat) : Int) := by omega
      rw [hcast]
      have hfl' : (doInput s ((j' + 1 : Nat) : Int) 1 mn).1.fl ≤ 0 := by
        have := congrArg Ctl.fl c1
        simp only [St.ctl] at this
        omega
      have := ih (j' + 1 + 1) (doInput s ((j' + 1 : Nat) : Int) 1 mn).1 (by omega) (by omega) (by omega) hfl'
        (by
          intro i hi0 hik
          by_cases hij : i = j' + 1
          · subst hij
            refine ⟨?_, by rw [c5]; exact p1⟩
            rw [c6, a1, hln]
            simp only [fedB, Bool.false_eq_true, if_false]
            have hge := fed_ge N j'
            omega
          · rw [c4 (i : Int) (by omega) (by omega)]
            exact hlo i hi0 (by omega))
        (by
          intro i hi0 hik
          rw [c4 (i : Int) (by omega) (by omega)]
          exact hhi i (by omega) hik)
      exact ⟨this.1, by rw [this.2, c2]⟩

/-- **Feeding the chain in the call after `vr_flush`** (`flushing > 0`): stage 0 has received its preload of zeros; every
    stage in turn finds new input (`len ≥ 119`), so none is skipped, and each appends its own preload too. -/
theorem feed_flush (k : Nat) (mn : Int) (N C : Int) (hN : 0 ≤ N) : ∀ (d j : Nat) (s : St ρ), j + d = k + 1 → 1 ≤ j →
    k + 1 < s.stages.size → 0 < s.fl → ChainR k s true N C 0 j → ChainR k s false N C j (k + 1) →
    ChainR k (inputStages s mn (intRange (j : Int) (k : Int))) true N C 0 (k + 1) ∧
    (inputStages s mn (intRange (j : Int) (k : Int))).stages.size = s.stages.size := by
  intro d
  induction d with
  | zero =>
    intro j s hj _ _ _ hlo _
    rw [intRange_nil _ _ (by omega)]
    have : j = k + 1 := by omega
    subst this
    exact ⟨hlo, rfl⟩
  | succ d ih =>
    intro j s hj h1 hsz hfl hlo hhi
    obtain ⟨j', rfl⟩ : ∃ j', j = j' + 1 := ⟨j - 1, by omega⟩
    rw [intRange_cons _ _ (by omega)]
    have e0 : ¬ ((j' + 1 : Nat) : Int) = 0 := by omega
    have e1 : ¬ ((j' + 1 : Nat) : Int) < 0 := by omega
    unfold inputStages
    simp only [e0, e1, if_false]
    obtain ⟨a0, _⟩ := hlo j' (by omega) (by omega)
    obtain ⟨a1, p1⟩ := hhi (j' + 1) (by omega) (by omega)
    rw [pow_split k j' (by omega)] at a0
    have hln := doInputLen_chain s j' _ _ _ a0 a1 p1
    have hfed : fed N (j' + 1) = 180 + max 0 ((fed N j' - 240) / 2) := by conv => lhs; unfold fed
    have hfedF : fedF N (j' + 1) = 360 + (fedF N j' - 240) / 2 := by conv => lhs; unfold fedF
    simp only [fedB, Bool.false_eq_true, if_false, if_true] at hln a0 a1
    obtain ⟨g1, g2⟩ := fed_le_fedF N hN j'
    have hpos : 0 < doInputLen s ((j' + 1 : Nat) : Int) 1 := by omega
    obtain ⟨c1, c2, c3, c4, c5, c6⟩ := doInput_stg s ((j' + 1 : Nat) : Int) 1 mn (by omega) (by omega)
    rw [c3, decide_eq_true hpos, if_pos rfl]
    rw [if_pos hpos, if_pos hfl] at c6
    have hcast : (((j' + 1 : Nat) : Int) + 1) = ((j' + 1 + 1 : Nat) : Int) := by omega
    rw [hcast]
    have hfl' : 0 < (doInput s ((j' + 1 : Nat) : Int) 1 mn).1.fl := by
      have := congrArg Ctl.fl c1
      simp only [St.ctl] at this
      omega
    have hpre : stagePreload ((j' + 1 : Nat) : Int) = 180 := by
      have := consts.2.2.2 j'
      rw [show ((j' + 1 : Nat) : Int) = (j' : Int) + 1 by omega]; exact this
    have := ih (j' + 1 + 1) (doInput s ((j' + 1 : Nat) : Int) 1 mn).1 (by omega) (by omega) (by omega) hfl'
      (by
        intro i hi0 hik
        by_cases hij : i = j' + 1
        · subst hij
          refine ⟨?_, by rw [c5]; exact p1⟩
          rw [c6, a1, hln, p1, hpre]
          simp only [fedB, if_true]
          omega
        · rw [c4 (i : Int) (by omega) (by omega)]
          exact hlo i hi0 (by omega))
      (by
        intro i hi0 hik
        rw [c4 (i : Int) (by omega) (by omega)]
        exact hhi i (by omega) hik)
    exact ⟨this.1, by rw [this.2, c2]⟩

/-- **After the flush has gone through, the chain is not fed any more**: the first `do_input_stage` finds `len = −180`. -/
theorem feed_done (k : Nat) (mn : Int) (N C : Int) (s : St ρ) (h : Chain k s true N C) :
    inputStages s mn (intRange 0 (k : Int)) = s := by
  rw [intRange_cons _ _ (by omega)]
  unfold inputStages
  simp only [if_true]
  by_cases hk : k = 0
  · subst hk
    rw [intRange_nil _ _ (by decide)]
    rfl
  · rw [show ((0 : Int) + 1) = ((0 + 1 : Nat) : Int) by decide, intRange_cons _ _ (by omega)]
    have e0 : ¬ ((0 + 1 : Nat) : Int) = 0 := by decide
    have e1 : ¬ ((0 + 1 : Nat) : Int) < 0 := by decide
    unfold inputStages
    simp only [e0, e1, if_false]
    obtain ⟨a0, _⟩ := h 0 (by omega)
    obtain ⟨a1, p1⟩ := h (0 + 1) (by omega)
    rw [pow_split k 0 (by omega)] at a0
    have hln := doInputLen_chain s 0 _ _ _ a0 a1 p1
    simp only [fedB, if_true, fedF] at hln
    rw [doInput_nop _ _ _ _ (by rw [hln]; omega)]
    simp

/-! ### Handing the consumed input back: `fifo_read` on every stage -/

/-- a stage `d` levels below has been fed at least `2^d` times what stage `j + d` has been fed beyond 480 samples -/
theorem fed_scale (N : Int) : ∀ (d j : Nat), 480 ≤ fed N (j + d) →
    480 ≤ fed N j ∧ 2 ^ d * (fed N (j + d) - 120) ≤ fed N j - 120 := by
  intro d
  induction d with
  | zero => intro j h; simp at h ⊢; omega
  | succ d ih =>
    intro j h
    rw [show j + (d + 1) = (j + 1) + d by omega] at h ⊢
    obtain ⟨i1, i2⟩ := ih (j + 1) h
    have hf : fed N (j + 1) = 180 + max 0 ((fed N j - 240) / 2) := by conv => lhs; unfold fed
    rw [Int.pow_succ, Int.mul_comm _ 2, Int.mul_assoc]
    generalize (2 : Int) ^ d * (fed N (j + 1 + d) - 120) = Y at *
    omega

theorem fedF_scale (N : Int) : ∀ (d j : Nat), 2 ^ d * (fedF N (j + d) - 480) ≤ fedF N j - 480 := by
  intro d
  induction d with
  | zero => intro j; simp
  | succ d ih =>
    intro j
    rw [show j + (d + 1) = (j + 1) + d by omega]
    have i2 := ih (j + 1)
    have hf : fedF N (j + 1) = 360 + (fedF N j - 240) / 2 := by conv => lhs; unfold fedF
    rw [Int.pow_succ, Int.mul_comm _ 2, Int.mul_assoc]
    generalize (2 : Int) ^ d * (fedF N (j + 1 + d) - 480) = Y at *
    omega

/-- what the interpolator may consume from stage `k` (its occupancy beyond 480), scaled to stage `j ≤ k`, is in stage `j` -/
theorem fedB_scale (b : Bool) (N : Int) (k j : Nat) (hj : j ≤ k) (x : Int) (hx0 : 0 ≤ x)
    (hx : x ≤ fedB b N k - 480) : 2 ^ (k - j) * x ≤ fedB b N j - 120 := by
  have hp : (0 : Int) ≤ 2 ^ (k - j) := Int.le_of_lt (two_pow_pos _)
  have hk : k = j + (k - j) := by omega
  cases b with
  | false =>
    simp only [fedB, Bool.false_eq_true, if_false] at hx ⊢
    have := fed_scale N (k - j) j (by rw [← hk]; omega)
    rw [← hk] at this
    have h1 : 2 ^ (k - j) * x ≤ 2 ^ (k - j) * (fed N k - 120) := Int.mul_le_mul_of_nonneg_left (by omega) hp
    omega
  | true =>
    simp only [fedB, if_true] at hx ⊢
    have := fedF_scale N (k - j) j
    rw [← hk] at this
    have h1 : 2 ^ (k - j) * x ≤ 2 ^ (k - j) * (fedF N k - 480) := Int.mul_le_mul_of_nonneg_left hx hp
    omega

theorem readStages_step (s : St ρ) (i idone : Int) (n : Nat) :
    readStages s i idone (n + 1) =
      readStages (s.setStg i { s.stg i with occ := readOcc (s.stg i).occ idone }) (i - 1) (idone * 2) n := by
  conv => lhs; unfold readStages

/-- **`for (i = k; i >= 0; --i, idone <<= 1) fifo_read(stage i, idone)`** moves the whole chain from `C` to `C + idone`
    consumed samples, provided every stage holds what is read from it. -/
theorem read_chain (k : Nat) (b : Bool) (N C idone : Int) (hid : 0 ≤ idone) : ∀ (i : Nat) (s : St ρ), i ≤ k →
    k + 1 < s.stages.size → ChainR k s b N C 0 (i + 1) → ChainR k s b N (C + idone) (i + 1) (k + 1) →
    (∀ j : Nat, j ≤ i → 2 ^ (k - j) * idone ≤ (s.stg (j : Int)).occ) →
    ChainR k (readStages s (i : Int) (2 ^ (k - i) * idone) (i + 1)) b N (C + idone) 0 (k + 1) ∧
    (readStages s (i : Int) (2 ^ (k - i) * idone) (i + 1)).stages.size = s.stages.size := by
  intro i
  induction i with
  | zero =>
    intro s _ hsz hlo hhi hb
    rw [readStages_step]
    unfold readStages
    have hp : (0 : Int) ≤ 2 ^ (k - 0) * idone := Int.mul_nonneg (Int.le_of_lt (two_pow_pos _)) hid
    refine ⟨fun j hj0 hjk => ?_, by rw [size_setStg]⟩
    by_cases hj : j = 0
    · subst hj
      rw [stg_setStg_same s _ _ (by simp; omega)]
      obtain ⟨a, p⟩ := hlo 0 (by omega) (by omega)
      refine ⟨?_, p⟩
      show readOcc _ _ = _
      unfold readOcc
      rw [if_pos ⟨hp, hb 0 (by omega)⟩, a, Int.mul_add]
      omega
    · rw [stg_setStg_ne s _ _ _ (by simp) (by omega) (by omega)]
      exact hhi j (by omega) hjk
  | succ i ih =>
    intro s hik hsz hlo hhi hb
    rw [readStages_step]
    have hp : (0 : Int) ≤ 2 ^ (k - (i + 1)) * idone := Int.mul_nonneg (Int.le_of_lt (two_pow_pos _)) hid
    have e : ((i + 1 : Nat) : Int) - 1 = (i : Int) := by omega
    have e2 : 2 ^ (k - (i + 1)) * idone * 2 = 2 ^ (k - i) * idone := by
      rw [pow_split k i (by omega)]; omega
    rw [e, e2]
    generalize hs' : (s.setStg ((i + 1 : Nat) : Int) { s.stg ((i + 1 : Nat) : Int) with
      occ := readOcc (s.stg ((i + 1 : Nat) : Int)).occ (2 ^ (k - (i + 1)) * idone) }) = s'
    have hsame : s'.stg ((i + 1 : Nat) : Int) = { s.stg ((i + 1 : Nat) : Int) with
        occ := readOcc (s.stg ((i + 1 : Nat) : Int)).occ (2 ^ (k - (i + 1)) * idone) } := by
      rw [← hs', stg_setStg_same s _ _ (by omega)]
    have hne : ∀ j : Nat, j ≠ i + 1 → s'.stg (j : Int) = s.stg (j : Int) := by
      intro j hj
      rw [← hs', stg_setStg_ne s _ _ _ (by omega) (by omega) (by omega)]
    have hsz' : s'.stages.size = s.stages.size := by rw [← hs', size_setStg]
    have := ih s' (by omega) (by omega)
      (by intro j hj0 hji; rw [hne j (by omega)]; exact hlo j hj0 (by omega))
      (by
        intro j hj0 hjk
        by_cases hj : j = i + 1
        · subst hj
          obtain ⟨a, p⟩ := hlo (i + 1) (by omega) (by omega)
          rw [hsame]
          refine ⟨?_, p⟩
          show readOcc _ _ = _
          unfold readOcc
          rw [if_pos ⟨hp, hb (i + 1) (by omega)⟩, a, Int.mul_add]
          omega
        · rw [hne j hj]; exact hhi j (by omega) hjk)
      (by intro j hj; rw [hne j (by omega)]; exact hb j (by omega))
    exact ⟨this.1, by rw [this.2, hsz']⟩

/-! ### One `vr_process` call of a steady engine on a down-sampling stage `k ≥ 0` -/

theorem shiftr_shiftl (y : Int) (k : Nat) : shiftr (shiftl y (k : Int)) (k : Int) = y := by
  by_cases hk : k = 0
  · subst hk; simp [shiftl, shiftr]
  · rw [shiftl_natCast _ _ (by omega), shiftr_natCast, Int.mul_ediv_cancel _ (Int.ne_of_gt (two_pow_pos k))]

theorem fedB_ge (b : Bool) (N : Int) (hN : 0 ≤ N) (j : Nat) : 120 ≤ fedB b N j := by
  cases b with
  | false =>
    simp only [fedB, Bool.false_eq_true, if_false]
    cases j with
    | zero => unfold fed; omega
    | succ j => have := fed_ge N j; omega
  | true =>
    simp only [fedB, if_true]
    have := (fed_le_fedF N hN j).2; omega

/-- the state of the engine between calls, reading stage `k ≥ 0` at the constant increment `S`: nothing outstanding, the
    clock rebased into `[0, 2³²)` -/
def EngSt (k : Nat) (S : Int) (s : St ρ) : Prop :=
  Steady s ∧ s.defR = none ∧ s.cur.sn = (k : Int) ∧ s.cur.isD = true ∧ s.cur.step = S ∧ 0 ≤ s.cur.clk ∧ s.cur.clk < two32 ∧
  k + 1 < s.stages.size

theorem shiftr_zero' (x : Int) : shiftr x 0 = x := by simp [shiftr]
theorem shiftl_zero' (x : Int) : shiftl x 0 = x := by simp [shiftl, shiftr]

/-- the hand-back of consumed input when no cross-fade is running and stages `0 … k` are in use -/
theorem post_steady (s : St ρ) (k : Nat) (hf : s.fade = 0) (hsn : s.cur.sn = (k : Int)) :
    post s (k : Int) (k : Int) =
      readStages { s with cur := { s.cur with clk := s.cur.clk - INT s.cur.clk * two32 } } (k : Int) (INT s.cur.clk) (k + 1) := by
  have hf' : ¬ (s.fade ≠ 0) := by rw [hf]; simp
  have a1 : shiftr (INT s.cur.clk) (max 0 (k : Int) - s.cur.sn) = INT s.cur.clk := by
    rw [hsn, show max 0 (k : Int) - (k : Int) = 0 by omega, shiftr_zero']
  have a2 : shiftl (INT s.cur.clk) (max 0 (k : Int) - s.cur.sn) = INT s.cur.clk := by
    rw [hsn, show max 0 (k : Int) - (k : Int) = 0 by omega, shiftl_zero']
  have a3 : (max 0 (k : Int) - min 0 (k : Int) + 1).toNat = k + 1 := by omega
  have a4 : max 0 (k : Int) = (k : Int) := by omega
  unfold post
  simp only [hf', if_false, a1, a2, a3]
  rw [a4]

/-- **One `vr_process` call.**  With the chain fed (hypothesis on the state after `do_input_stage`), the interpolator runs
    `poly_fir_d` once over `olen0` frames against `len = max(0, fed − consumed − 480)`; the integer part of the clock goes
    back to every FIFO; no stage switch, no mismatch. -/
theorem process_steadyD (cfg : Cfg ρ) (k : Nat) (S : Int) (s : St ρ) (olen0 : Nat) (b : Bool) (N C : Int) (hN : 0 ≤ N)
    (he : EngSt k S s) (hC0 : 0 ≤ C) (hC : C ≤ max 0 (fedB b N k - 480))
    (hc : Chain k (inputStages { s with oocc := s.oocc + olen0 } (k : Int) (intRange 0 (k : Int))) b N C)
    (hsz : (inputStages { s with oocc := s.oocc + olen0 } (k : Int) (intRange 0 (k : Int))).stages.size = s.stages.size) :
    let X := firDPairs { s.cur with len := max 0 (fedB b N k - C - 480) } olen0
    (process cfg s olen0).od = X.2 ∧ (process cfg s olen0).nsw = 0 ∧ (process cfg s olen0).nmis = 0 ∧
    EngSt k S (process cfg s olen0).st ∧
    (process cfg s olen0).st.cur.clk = X.1.clk - INT X.1.clk * two32 ∧
    Chain k (process cfg s olen0).st b N (C + INT X.1.clk) ∧ 0 ≤ INT X.1.clk ∧
    C + INT X.1.clk ≤ max 0 (fedB b N k - 480) ∧
    (process cfg s olen0).st.stages.size = s.stages.size ∧
    (process cfg s olen0).st.fl = (if s.fl > 0 then -1 else s.fl) := by
  intro X
  obtain ⟨hst, hdef, hsn, hisd, hstep, hclk0, hclk1, hsize⟩ := he
  obtain ⟨q1, q2, q3, q4, q5⟩ := hst
  obtain ⟨c0, hc0⟩ : ∃ c0 : Stream, c0 = { s.cur with len := max 0 (fedB b N k - C - 480) } := ⟨_, rfl⟩
  have hXdef : X = firDPairs c0 olen0 := by rw [hc0]
  clear_value X
  subst hXdef
  have c0clk : c0.clk = s.cur.clk := by rw [hc0]
  have c0step : c0.step = S := by rw [hc0]; exact hstep
  have c0ss : c0.ss = 0 := by rw [hc0]; exact q4
  have c0len : c0.len = max 0 (fedB b N k - C - 480) := by rw [hc0]
  have c0sn : c0.sn = (k : Int) := by rw [hc0]; exact hsn
  have c0d : c0.isD = true := by rw [hc0]; exact hisd
  have hSr : 2147483648 ≤ S ∧ S ≤ 4294967296 := by
    unfold InRange at q5; rw [hisd] at q5; simp at q5; rw [hstep] at q5; exact q5
  -- the pre-loop part
  generalize hs1 : inputStages { s with oocc := s.oocc + olen0 } (k : Int) (intRange 0 (k : Int)) = s1 at hc hsz
  have hctl : s1.ctl = ({ s with oocc := s.oocc + olen0 } : St ρ).ctl := by rw [← hs1, inputStages_ctl]
  have hcur1 : s1.cur = s.cur := congrArg Ctl.cur hctl
  have hfade1 : s1.fade = 0 := (congrArg Ctl.fade hctl).trans q3
  have hslew1 : s1.slew = 0 := (congrArg Ctl.slew hctl).trans q1
  have hnewR1 : s1.newR = none := (congrArg Ctl.newR hctl).trans q2
  have hdef1 : s1.defR = none := (congrArg Ctl.defR hctl).trans hdef
  have hfl1 : s1.fl = s.fl := congrArg Ctl.fl hctl
  generalize hs2 : (if s1.fl > 0 then ({ s1 with fl := -1 } : St ρ) else s1) = s2
  have h2cur : s2.cur = s.cur := by rw [← hs2]; split <;> exact hcur1
  have h2st : s2.stages = s1.stages := by rw [← hs2]; split <;> rfl
  have h2fade : s2.fade = 0 := by rw [← hs2]; split <;> exact hfade1
  have h2slew : s2.slew = 0 := by rw [← hs2]; split <;> exact hslew1
  have h2newR : s2.newR = none := by rw [← hs2]; split <;> exact hnewR1
  have h2def : s2.defR = none := by rw [← hs2]; split <;> exact hdef1
  have h2fl : s2.fl = (if s.fl > 0 then -1 else s.fl) := by
    rw [← hs2]
    by_cases h : s1.fl > 0
    · rw [if_pos h, if_pos (by omega)]
    · rw [if_neg h, if_neg (by omega)]; exact hfl1
  have h2stg : ∀ j : Int, s2.stg j = s1.stg j := fun j => by unfold St.stg; rw [h2st]
  obtain ⟨ak, _⟩ := hc k (Nat.le_refl k)
  rw [Nat.sub_self, Int.pow_zero, Int.one_mul] at ak
  have hpre : (preLoop cfg s olen0).1 =
      { st := setLens s2 (shiftl (max 0 ((s2.stg (k : Int)).occ - 4 * (H2 : Int))) (k : Int)), mn := (k : Int), mx := (k : Int),
        occ := shiftl (max 0 ((s2.stg (k : Int)).occ - 4 * (H2 : Int))) (k : Int) } := by
    have hf : ¬ (s.fade ≠ 0) := by rw [q3]; simp
    unfold preLoop
    rw [applyDefault_none cfg s hdef]
    simp only [hf, if_false, hsn]
    rw [show min (k : Int) 0 = 0 by omega, hs1, hs2]
  have hL : shiftr (shiftl (max 0 ((s2.stg (k : Int)).occ - 4 * (H2 : Int))) (k : Int)) (k : Int) = max 0 (fedB b N k - C - 480) := by
    rw [shiftr_shiftl, h2stg, ak, consts.1]
    omega
  generalize hocc0 : shiftl (max 0 ((s2.stg (k : Int)).occ - 4 * (H2 : Int))) (k : Int) = occ0 at hpre hL
  have hlens : setLens s2 occ0 = { s2 with cur := c0 } := by
    have hf : ¬ (s2.fade ≠ 0) := by rw [h2fade]; simp
    have hL' : shiftr occ0 s.cur.sn = max 0 (fedB b N k - C - 480) := by rw [hsn]; exact hL
    unfold setLens
    simp only [hf, if_false]
    rw [h2cur, hL', hc0]
  -- the loop
  have hsteady0 : Steady ({ s2 with cur := c0 } : St ρ) :=
    ⟨h2slew, h2newR, h2fade, c0ss, by unfold InRange; simp only [c0d, if_true, c0step]; exact hSr⟩
  obtain ⟨l1, l2, l3, l4, l5, l6, l7⟩ := loop_steadyD cfg olen0 (olen0 + 1)
    { st := setLens s2 occ0, mn := (k : Int), mx := (k : Int), occ := occ0 } (by rw [hlens]; exact hsteady0)
    (by rw [hlens]; exact c0d) (by show olen0 - 0 < olen0 + 1; omega)
  simp only [hlens, Nat.sub_zero, Nat.zero_add] at l1 l2 l3 l4 l5 l6 l7
  -- clock facts
  obtain ⟨f1, f2, f3⟩ := firDPairs_const olen0 c0 c0ss (by rw [c0step]; omega)
  obtain ⟨g1, g2, _, g4, g5, g6, g7⟩ := firDPairs_spec olen0 c0
  rw [c0clk, c0step] at f1
  have hid : 0 ≤ INT (firDPairs c0 olen0).1.clk ∧ INT (firDPairs c0 olen0).1.clk ≤ max 0 (fedB b N k - C - 480) := by
    have hnn : 0 ≤ ((firDPairs c0 olen0).2 : Int) * (2 * S) := Int.mul_nonneg (by omega) (by omega)
    have hlt : (firDPairs c0 olen0).1.clk < (max 0 (fedB b N k - C - 480) + 1) * two32 := by
      rw [f1]
      by_cases hx : (firDPairs c0 olen0).2 = 0
      · rw [hx]; simp only [Int.natCast_zero, Int.zero_mul, Int.add_zero]
        unfold two32 at *; omega
      · have := f3 ((firDPairs c0 olen0).2 - 1) (by omega)
        rw [c0clk, c0step, c0len] at this
        have hK : (((firDPairs c0 olen0).2 - 1 : Nat) : Int) = ((firDPairs c0 olen0).2 : Int) - 1 := by omega
        rw [hK, Int.sub_mul] at this
        generalize ((firDPairs c0 olen0).2 : Int) * (2 * S) = Z at *
        unfold two32 at *
        omega
    constructor
    · rw [f1]; unfold INT two32; omega
    · have := (INT_lt_iff (firDPairs c0 olen0).1.clk (max 0 (fedB b N k - C - 480) + 1)).mpr hlt
      omega
  -- post
  rw [hlens] at hpre
  unfold process
  simp only [hpre]
  generalize hl : loop cfg olen0 (olen0 + 1) { st := { s2 with cur := c0 }, mn := (k : Int), mx := (k : Int), occ := occ0 } = l at *
  have hlst : l.st = { s2 with cur := (firDPairs c0 olen0).1 } := l1
  have hXsn0 : (firDPairs c0 olen0).1.sn = (k : Int) := by rw [g4]; exact c0sn
  have hpost : post l.st l.mn l.mx =
      readStages { s2 with cur := { (firDPairs c0 olen0).1 with clk := (firDPairs c0 olen0).1.clk - INT (firDPairs c0 olen0).1.clk * two32 } } (k : Int) (INT (firDPairs c0 olen0).1.clk) (k + 1) := by
    rw [l3, l4, post_steady l.st k (by rw [hlst]; exact h2fade) (by rw [hlst]; exact hXsn0), hlst]
  rw [hpost]
  generalize hs3 : ({ s2 with cur := { (firDPairs c0 olen0).1 with clk := (firDPairs c0 olen0).1.clk - INT (firDPairs c0 olen0).1.clk * two32 } } : St ρ) = s3
  have h3stg : ∀ j : Int, s3.stg j = s1.stg j := fun j => by rw [← hs3]; exact h2stg j
  have h3sz : s3.stages.size = s.stages.size := by rw [← hs3]; show s2.stages.size = _; rw [h2st, hsz]
  have hbound : C + INT (firDPairs c0 olen0).1.clk ≤ max 0 (fedB b N k - 480) := by omega
  have hrd := read_chain k b N C (INT (firDPairs c0 olen0).1.clk) hid.1 k s3 (Nat.le_refl k) (by omega)
    (by intro j hj0 hjk; rw [h3stg]; exact hc j (by omega))
    (by intro j hj0 hjk; omega)
    (by
      intro j hj
      rw [h3stg, (hc j hj).1]
      have hge := fedB_ge b N hN j
      by_cases h480 : 480 ≤ fedB b N k
      · have := fedB_scale b N k j hj (C + INT (firDPairs c0 olen0).1.clk) (by omega) (by omega)
        rw [Int.mul_add] at this
        omega
      · have hC' : C = 0 := by omega
        have hi' : INT (firDPairs c0 olen0).1.clk = 0 := by omega
        rw [hC', hi']
        simp
        omega)
  rw [Nat.sub_self, Int.pow_zero, Int.one_mul] at hrd
  generalize hs4 : readStages s3 (k : Int) (INT (firDPairs c0 olen0).1.clk) (k + 1) = s4 at hrd
  have h4ctl : s4.ctl = s3.ctl := by rw [← hs4, readStages_ctl]
  have h4cur : s4.cur = { (firDPairs c0 olen0).1 with clk := (firDPairs c0 olen0).1.clk - INT (firDPairs c0 olen0).1.clk * two32 } := by
    have : s4.cur = s3.cur := congrArg Ctl.cur h4ctl
    rw [this, ← hs3]
  have hXstep : (firDPairs c0 olen0).1.step = S := by rw [g1, c0ss]; simp; exact c0step
  have hXss : (firDPairs c0 olen0).1.ss = 0 := by rw [g2]; exact c0ss
  have hXsn : (firDPairs c0 olen0).1.sn = (k : Int) := by rw [g4]; exact c0sn
  have hXd : (firDPairs c0 olen0).1.isD = true := by rw [g5]; exact c0d
  have k1 : s4.slew = s3.slew := congrArg Ctl.slew h4ctl
  have k2 : s4.newR = s3.newR := congrArg Ctl.newR h4ctl
  have k3 : s4.fade = s3.fade := congrArg Ctl.fade h4ctl
  have k4 : s4.defR = s3.defR := congrArg Ctl.defR h4ctl
  have k5 : s4.fl = s3.fl := congrArg Ctl.fl h4ctl
  refine ⟨?_, ?_, ?_, ⟨⟨?_, ?_, ?_, ?_, ?_⟩, ?_, ?_, ?_, ?_, ?_, ?_, ?_⟩, ?_, ?_, hid.1, hbound, ?_, ?_⟩
  · exact l2.trans (by simp)
  · exact l6
  · exact l7
  · show s4.slew = 0; rw [k1, ← hs3]; exact h2slew
  · show s4.newR = none; rw [k2, ← hs3]; exact h2newR
  · show s4.fade = 0; rw [k3, ← hs3]; exact h2fade
  · show s4.cur.ss = 0; rw [h4cur]; exact hXss
  · show InRange s4.cur
    rw [h4cur]; unfold InRange; simp only [hXd, if_true, hXstep]; exact hSr
  · show s4.defR = none; rw [k4, ← hs3]; exact h2def
  · show s4.cur.sn = _; rw [h4cur]; exact hXsn
  · show s4.cur.isD = _; rw [h4cur]; exact hXd
  · show s4.cur.step = _; rw [h4cur]; exact hXstep
  · show 0 ≤ s4.cur.clk; rw [h4cur]; dsimp only; unfold INT two32 at *; omega
  · show s4.cur.clk < two32; rw [h4cur]; dsimp only; unfold INT two32 at *; omega
  · show k + 1 < s4.stages.size; rw [hrd.2, h3sz]; exact hsize
  · show s4.cur.clk = _; rw [h4cur]
  · rw [chain_iff]; exact hrd.1
  · show s4.stages.size = _; rw [hrd.2, h3sz]
  · show s4.fl = _; rw [k5, ← hs3]; exact h2fl

/-! ### The engine across calls: input, `vr_process`, flush -/

/-- The engine reading stage `k ≥ 0` at the constant increment `S`, seen between `soxr_process` calls:
    `N` input frames written so far (`b`: the flush has gone through), `C` samples of stage `k` consumed, `K` output frames
    delivered since the clock stood at `A0`.  The absolute clock `C·2³² + at` has advanced by exactly `2·S` per frame; the
    second sample of the last frame delivered lay inside the input available then. -/
def Eng (k : Nat) (S A0 : Int) (s : St ρ) (b : Bool) (N C : Int) (K : Nat) : Prop :=
  EngSt k S s ∧ 0 ≤ N ∧ 0 ≤ C ∧ C ≤ max 0 (fedB b N k - 480) ∧ Chain k s b N C ∧
  C * two32 + s.cur.clk = A0 + (K : Int) * (2 * S) ∧
  (0 < K → A0 + ((K : Int) - 1) * (2 * S) + S < (fedB b N k - 480) * two32) ∧
  s.fl = (if b then -1 else 0)

theorem engSt_stages (k : Nat) (S : Int) (s t : St ρ) (h : EngSt k S s) (hc : t.ctl = s.ctl)
    (hsz : t.stages.size = s.stages.size) : EngSt k S t := by
  obtain ⟨⟨q1, q2, q3, q4, q5⟩, hdef, hsn, hisd, hstep, hclk0, hclk1, hsize⟩ := h
  have c : t.cur = s.cur := congrArg Ctl.cur hc
  refine ⟨⟨(congrArg Ctl.slew hc).trans q1, (congrArg Ctl.newR hc).trans q2, (congrArg Ctl.fade hc).trans q3, by rw [c]; exact q4,
    by rw [c]; exact q5⟩, (congrArg Ctl.defR hc).trans hdef, by rw [c]; exact hsn, by rw [c]; exact hisd, by rw [c]; exact hstep,
    by rw [c]; exact hclk0, by rw [c]; exact hclk1, by rw [hsz]; exact hsize⟩

theorem fedB_mono (b : Bool) (N N' : Int) (h : N ≤ N') (j : Nat) : fedB b N j ≤ fedB b N' j := by
  cases b with
  | false => simp only [fedB, Bool.false_eq_true, if_false]; exact fed_mono N N' h j
  | true =>
    simp only [fedB, if_true]
    rw [fedF_closed, fedF_closed]
    have := Int.ediv_le_ediv (two_pow_pos j) h
    omega

/-- the clock bookkeeping common to every call: from what `process_steadyD` says about one call to the invariant -/
theorem eng_after_call (k : Nat) (S A0 : Int) (s : St ρ) (b b' : Bool) (N N' C : Int) (K : Nat) (olen0 : Nat) (t : St ρ)
    (he : Eng k S A0 s b N C K) (hmono : fedB b N k ≤ fedB b' N' k) (hN' : 0 ≤ N')
    (c0 : Stream) (hc0 : c0 = { s.cur with len := max 0 (fedB b' N' k - C - 480) })
    (hEng : EngSt k S t) (hclk : t.cur.clk = (firDPairs c0 olen0).1.clk - INT (firDPairs c0 olen0).1.clk * two32)
    (hch : Chain k t b' N' (C + INT (firDPairs c0 olen0).1.clk)) (hid0 : 0 ≤ INT (firDPairs c0 olen0).1.clk)
    (hbd : C + INT (firDPairs c0 olen0).1.clk ≤ max 0 (fedB b' N' k - 480)) (hfl : t.fl = (if b' then -1 else 0)) :
    Eng k S A0 t b' N' (C + INT (firDPairs c0 olen0).1.clk) (K + (firDPairs c0 olen0).2) ∧
    ((firDPairs c0 olen0).2 < olen0 →
      (fedB b' N' k - 480) * two32 ≤ A0 + ((K + (firDPairs c0 olen0).2 : Nat) : Int) * (2 * S) + S) := by
  obtain ⟨⟨⟨q1, q2, q3, q4, q5⟩, hdef, hsn, hisd, hstep, hclk0, hclk1, hsize⟩, hN, hC0, hC, hchain, hclock, hhist, hfl0⟩ := he
  have c0clk : c0.clk = s.cur.clk := by rw [hc0]
  have c0step : c0.step = S := by rw [hc0]; exact hstep
  have c0ss : c0.ss = 0 := by rw [hc0]; exact q4
  have c0len : c0.len = max 0 (fedB b' N' k - C - 480) := by rw [hc0]
  have hSr : 2147483648 ≤ S ∧ S ≤ 4294967296 := by
    unfold InRange at q5; rw [hisd] at q5; simp at q5; rw [hstep] at q5; exact q5
  obtain ⟨f1, f2, f3⟩ := firDPairs_const olen0 c0 c0ss (by rw [c0step]; omega)
  rw [c0clk, c0step] at f1 f2
  rw [c0len] at f2
  generalize hX : firDPairs c0 olen0 = X at *
  unfold two32 at *
  have hcast : ((K + X.2 : Nat) : Int) = (K : Int) + (X.2 : Int) := by omega
  have hmulK : ((K : Int) + (X.2 : Int)) * (2 * S) = (K : Int) * (2 * S) + (X.2 : Int) * (2 * S) := Int.add_mul _ _ _
  refine ⟨⟨hEng, hN', by omega, hbd, hch, ?_, ?_, hfl⟩, ?_⟩
  · rw [hclk, f1, hcast, hmulK, Int.add_mul]
    unfold two32
    omega
  · intro hK
    unfold two32
    rw [hcast, Int.sub_mul, hmulK]
    by_cases hx : X.2 = 0
    · have := hhist (by omega)
      rw [Int.sub_mul] at this
      rw [hx]
      simp only [Int.natCast_zero, Int.zero_mul, Int.add_zero]
      omega
    · have h3 := f3 (X.2 - 1) (by omega)
      rw [c0clk, c0step, c0len] at h3
      have hK1 : ((X.2 - 1 : Nat) : Int) = (X.2 : Int) - 1 := by omega
      rw [hK1, Int.sub_mul] at h3
      have hLpos : 0 < max 0 (fedB b' N' k - C - 480) := by
        have hnn : 0 ≤ (X.2 : Int) * (2 * S) - 1 * (2 * S) := by
          have : (1 : Int) ≤ (X.2 : Int) := by omega
          have := Int.mul_le_mul_of_nonneg_right this (show (0 : Int) ≤ 2 * S by omega)
          omega
        omega
      have hL : max 0 (fedB b' N' k - C - 480) = fedB b' N' k - C - 480 := by omega
      rw [hL] at h3
      generalize (X.2 : Int) * (2 * S) = Z at *
      generalize (K : Int) * (2 * S) = W at *
      omega
  · intro hlt
    have h2 := f2 hlt
    rw [hcast, hmulK]
    generalize (X.2 : Int) * (2 * S) = Z at *
    generalize (K : Int) * (2 * S) = W at *
    omega

theorem intRange_zero_skip (s : St ρ) (mn : Int) (k : Nat) :
    inputStages s mn (intRange 0 (k : Int)) = inputStages s mn (intRange ((1 : Nat) : Int) (k : Int)) := by
  rw [intRange_cons _ _ (by omega)]
  conv => lhs; unfold inputStages
  simp

/-- **`soxr_process(in, ilen, …, olen)`** on the steady engine, before the flush -/
theorem eng_proc (cfg : Cfg ρ) (k : Nat) (S A0 : Int) (s : St ρ) (N C : Int) (K : Nat) (ilen olen : Nat)
    (he : Eng k S A0 s false N C K) :
    ∃ C', Eng k S A0 (output (process cfg (input s ilen) olen).st olen).1 false (N + ilen) C' (K + (process cfg (input s ilen) olen).od) ∧
    (process cfg (input s ilen) olen).nsw = 0 ∧ (process cfg (input s ilen) olen).nmis = 0 := by
  obtain ⟨hE, hN, hC0, hC, hchain, hclock, hhist, hfl⟩ := he
  have hsize := hE.2.2.2.2.2.2.2
  simp only [Bool.false_eq_true, if_false] at hfl
  have hEin : EngSt k S (input s ilen) := engSt_stages k S s _ hE rfl (by unfold input; rw [size_setStg])
  have hmono := fedB_mono false N (N + ilen) (by omega) k
  have hC' : C ≤ max 0 (fedB false (N + ilen) k - 480) := by omega
  -- the chain after `vr_input` and the `do_input_stage` loop
  have hin0 : ((input s ilen).stg ((0 : Nat) : Int)).occ = fedB false (N + ilen) 0 - 2 ^ (k - 0) * C ∧
      ((input s ilen).stg ((0 : Nat) : Int)).pre = stagePreload ((0 : Nat) : Int) := by
    obtain ⟨a, p⟩ := hchain 0 (by omega)
    rw [show ((0 : Nat) : Int) = 0 from rfl] at a p ⊢
    unfold input
    dsimp only
    rw [stg_setStg_same s _ _ (by simp; omega)]
    refine ⟨?_, p⟩
    show (s.stg 0).occ + (ilen : Int) = _
    rw [a]
    simp only [fedB, Bool.false_eq_true, if_false, fed]
    omega
  have hinj : ∀ j : Nat, j ≠ 0 → (input s ilen).stg (j : Int) = s.stg (j : Int) := by
    intro j hj
    unfold input
    rw [stg_setStg_ne s _ _ _ (by omega) (by omega) (by omega)]
  have hfeed := feed_normal k (k : Int) N (N + ilen) C (by omega) k 1 ({ input s ilen with oocc := (input s ilen).oocc + olen } : St ρ)
    (by omega) (by omega) (by show k + 1 < (input s ilen).stages.size; unfold input; rw [size_setStg]; exact hsize)
    (by show (input s ilen).fl ≤ 0; show s.fl ≤ 0; omega)
    (by
      intro j _ hj1
      have : j = 0 := by omega
      subst this
      exact hin0)
    (by
      intro j hj1 hjk
      show ((input s ilen).stg (j : Int)).occ = _ ∧ ((input s ilen).stg (j : Int)).pre = _
      rw [hinj j (by omega)]
      exact hchain j (by omega))
  rw [← intRange_zero_skip] at hfeed
  obtain ⟨p1, p2, p3, p4, p5, p6, p7, p8, p9, p10⟩ := process_steadyD cfg k S (input s ilen) olen false (N + ilen) C (by omega) hEin hC0 hC'
    ((chain_iff _ _ _ _ _).mpr hfeed.1) (by rw [hfeed.2])
  dsimp only at p1 p2 p3 p4 p5 p6 p7 p8 p9 p10
  obtain ⟨c0, hc0⟩ : ∃ c0 : Stream, c0 = { s.cur with len := max 0 (fedB false (N + ilen) k - C - 480) } := ⟨_, rfl⟩
  have hcin : (input s ilen).cur = s.cur := rfl
  rw [hcin, ← hc0] at p1 p5 p6 p7 p8
  have hEout : EngSt k S (output (process cfg (input s ilen) olen).st olen).1 := p4
  have hfin := eng_after_call k S A0 s false false N (N + ilen) C K olen (output (process cfg (input s ilen) olen).st olen).1
    ⟨hE, hN, hC0, hC, hchain, hclock, hhist, by simp [hfl]⟩ hmono (by omega) c0 hc0 hEout p5
    (by intro j hj; exact p6 j hj) p7 p8
    (by show (process cfg (input s ilen) olen).st.fl = _; rw [p10]; show (if s.fl > 0 then (-1 : Int) else s.fl) = _; rw [hfl]; simp)
  rw [← p1] at hfin
  exact ⟨_, hfin.1, p2, p3⟩

/-- **The first `soxr_process(NULL, …, olen)`**: `vr_flush` appends stage 0's preload of zeros, the call feeds it through the
    chain (each stage appending its own), and from then on the interpolator's limit is `⌊N / 2^k⌋` samples of stage `k`. -/
theorem eng_flush_first (cfg : Cfg ρ) (k : Nat) (S A0 : Int) (s : St ρ) (N C : Int) (K : Nat) (olen : Nat)
    (he : Eng k S A0 s false N C K) :
    ∃ C', Eng k S A0 (output (process cfg (flush s) olen).st olen).1 true N C' (K + (process cfg (flush s) olen).od) ∧
    (process cfg (flush s) olen).nsw = 0 ∧ (process cfg (flush s) olen).nmis = 0 ∧
    ((process cfg (flush s) olen).od < olen →
      (fedB true N k - 480) * two32 ≤ A0 + ((K + (process cfg (flush s) olen).od : Nat) : Int) * (2 * S) + S) := by
  obtain ⟨hE, hN, hC0, hC, hchain, hclock, hhist, hfl⟩ := he
  have hsize := hE.2.2.2.2.2.2.2
  simp only [Bool.false_eq_true, if_false] at hfl
  have hflush : flush s = { s.setStg 0 { s.stg 0 with occ := (s.stg 0).occ + (s.stg 0).pre } with fl := s.fl + 1 } := by
    unfold flush; rw [if_pos hfl]
  have hEin : EngSt k S (flush s) := by
    rw [hflush]
    obtain ⟨⟨q1, q2, q3, q4, q5⟩, hdef, hsn, hisd, hstep, hclk0, hclk1, _⟩ := hE
    exact ⟨⟨q1, q2, q3, q4, q5⟩, hdef, hsn, hisd, hstep, hclk0, hclk1,
      by show k + 1 < (s.setStg _ _).stages.size; rw [size_setStg]; exact hsize⟩
  have hmono : fedB false N k ≤ fedB true N k := by
    have := (fed_le_fedF N hN k).1; simp only [fedB, Bool.false_eq_true, if_false, if_true]; omega
  have hC' : C ≤ max 0 (fedB true N k - 480) := by omega
  have hin0 : ((flush s).stg ((0 : Nat) : Int)).occ = fedB true N 0 - 2 ^ (k - 0) * C ∧
      ((flush s).stg ((0 : Nat) : Int)).pre = stagePreload ((0 : Nat) : Int) := by
    obtain ⟨a, p⟩ := hchain 0 (by omega)
    rw [show ((0 : Nat) : Int) = 0 from rfl] at a p ⊢
    rw [hflush]
    show ((s.setStg 0 _).stg 0).occ = _ ∧ ((s.setStg 0 _).stg 0).pre = _
    rw [stg_setStg_same s _ _ (by simp; omega)]
    refine ⟨?_, p⟩
    show (s.stg 0).occ + ((s.stg 0).pre : Int) = _
    rw [a, p, consts.2.2.1]
    simp only [fedB, Bool.false_eq_true, if_false, if_true, fed, fedF]
    omega
  have hinj : ∀ j : Nat, j ≠ 0 → (flush s).stg (j : Int) = s.stg (j : Int) := by
    intro j hj
    rw [hflush]
    show (s.setStg 0 _).stg (j : Int) = _
    rw [stg_setStg_ne s _ _ _ (by omega) (by omega) (by omega)]
  have hfeed := feed_flush k (k : Int) N C hN k 1 ({ flush s with oocc := (flush s).oocc + olen } : St ρ)
    (by omega) (by omega) (by show k + 1 < (flush s).stages.size; rw [hflush]; show k + 1 < (s.setStg _ _).stages.size; rw [size_setStg]; exact hsize)
    (by show 0 < (flush s).fl; rw [hflush]; show 0 < s.fl + 1; omega)
    (by
      intro j _ hj1
      have : j = 0 := by omega
      subst this
      exact hin0)
    (by
      intro j hj1 hjk
      show ((flush s).stg (j : Int)).occ = _ ∧ ((flush s).stg (j : Int)).pre = _
      rw [hinj j (by omega)]
      exact hchain j (by omega))
  rw [← intRange_zero_skip] at hfeed
  obtain ⟨p1, p2, p3, p4, p5, p6, p7, p8, p9, p10⟩ := process_steadyD cfg k S (flush s) olen true N C hN hEin hC0 hC'
    ((chain_iff _ _ _ _ _).mpr hfeed.1) (by rw [hfeed.2])
  dsimp only at p1 p2 p3 p4 p5 p6 p7 p8 p9 p10
  obtain ⟨c0, hc0⟩ : ∃ c0 : Stream, c0 = { s.cur with len := max 0 (fedB true N k - C - 480) } := ⟨_, rfl⟩
  have hcin : (flush s).cur = s.cur := by rw [hflush]; rfl
  rw [hcin, ← hc0] at p1 p5 p6 p7 p8
  have hEout : EngSt k S (output (process cfg (flush s) olen).st olen).1 := p4
  have hfin := eng_after_call k S A0 s false true N N C K olen (output (process cfg (flush s) olen).st olen).1
    ⟨hE, hN, hC0, hC, hchain, hclock, hhist, by simp [hfl]⟩ hmono hN c0 hc0 hEout p5
    (by intro j hj; exact p6 j hj) p7 p8
    (by
      show (process cfg (flush s) olen).st.fl = _
      rw [p10, hflush]
      show (if s.fl + 1 > 0 then (-1 : Int) else s.fl + 1) = _
      rw [hfl]; simp)
  rw [← p1] at hfin
  exact ⟨_, hfin.1, p2, p3, hfin.2⟩

/-- **Every later `soxr_process(NULL, …, olen)`**: nothing is fed any more; the interpolator goes on against the same limit. -/
theorem eng_flush_again (cfg : Cfg ρ) (k : Nat) (S A0 : Int) (s : St ρ) (N C : Int) (K : Nat) (olen : Nat)
    (he : Eng k S A0 s true N C K) :
    ∃ C', Eng k S A0 (output (process cfg (flush s) olen).st olen).1 true N C' (K + (process cfg (flush s) olen).od) ∧
    (process cfg (flush s) olen).nsw = 0 ∧ (process cfg (flush s) olen).nmis = 0 ∧
    ((process cfg (flush s) olen).od < olen →
      (fedB true N k - 480) * two32 ≤ A0 + ((K + (process cfg (flush s) olen).od : Nat) : Int) * (2 * S) + S) := by
  obtain ⟨hE, hN, hC0, hC, hchain, hclock, hhist, hfl⟩ := he
  simp only [if_true] at hfl
  have hflush : flush s = s := by unfold flush; rw [if_neg (by omega)]
  rw [hflush]
  have hdone := feed_done k (k : Int) N C ({ s with oocc := s.oocc + olen } : St ρ) (by intro j hj; exact hchain j hj)
  obtain ⟨p1, p2, p3, p4, p5, p6, p7, p8, p9, p10⟩ := process_steadyD cfg k S s olen true N C hN hE hC0 hC
    (by rw [hdone]; intro j hj; exact hchain j hj) (by rw [hdone])
  dsimp only at p1 p2 p3 p4 p5 p6 p7 p8 p9 p10
  obtain ⟨c0, hc0⟩ : ∃ c0 : Stream, c0 = { s.cur with len := max 0 (fedB true N k - C - 480) } := ⟨_, rfl⟩
  rw [← hc0] at p1 p5 p6 p7 p8
  have hEout : EngSt k S (output (process cfg s olen).st olen).1 := p4
  have hfin := eng_after_call k S A0 s true true N N C K olen (output (process cfg s olen).st olen).1
    ⟨hE, hN, hC0, hC, hchain, hclock, hhist, by simp [hfl]⟩ (Int.le_refl _) hN c0 hc0 hEout p5
    (by intro j hj; exact p6 j hj) p7 p8
    (by show (process cfg s olen).st.fl = _; rw [p10, hfl]; simp)
  rw [← p1] at hfin
  exact ⟨_, hfin.1, p2, p3, hfin.2⟩

/-! ### Call sequences -/

theorem run_append (cfg : Cfg ρ) (r : Run ρ) (a b : List (Op ρ)) : run cfg r (a ++ b) = run cfg (run cfg r a) b := by
  unfold run; rw [List.foldl_append]

def procOps (blocks : List (Nat × Nat)) : List (Op ρ) := blocks.map fun x => Op.proc x.1 x.2
def flushOps (drain : List Nat) : List (Op ρ) := drain.map fun o => Op.flush o
def totalIn (blocks : List (Nat × Nat)) : Nat := (blocks.map (·.1)).sum

theorem eng_run_procs (cfg : Cfg ρ) (k : Nat) (S A0 : Int) : ∀ (blocks : List (Nat × Nat)) (r : Run ρ) (N C : Int) (K : Nat),
    Eng k S A0 r.st false N C K →
    ∃ C' d, Eng k S A0 (run cfg r (procOps blocks)).st false (N + totalIn blocks) C' (K + d) ∧
      (run cfg r (procOps blocks)).out = r.out + d ∧ (run cfg r (procOps blocks)).nsw = r.nsw ∧
      (run cfg r (procOps blocks)).nmis = r.nmis := by
  intro blocks
  induction blocks with
  | nil => intro r N C K h; exact ⟨C, 0, by simpa [procOps, totalIn, run] using h, rfl, rfl, rfl⟩
  | cons x xs ih =>
    intro r N C K h
    obtain ⟨C1, e1, n1, m1⟩ := eng_proc cfg k S A0 r.st N C K x.1 x.2 h
    obtain ⟨C2, d2, e2, o2, n2, m2⟩ := ih (stepOp cfg r (.proc x.1 x.2)) (N + x.1) C1 (K + (process cfg (input r.st x.1) x.2).od) e1
    have hrun : run cfg r (procOps (x :: xs)) = run cfg (stepOp cfg r (.proc x.1 x.2)) (procOps xs) := by
      simp [procOps, run]
    rw [hrun]
    refine ⟨C2, (process cfg (input r.st x.1) x.2).od + d2, ?_, ?_, ?_, ?_⟩
    · have : N + (totalIn (x :: xs) : Int) = N + (x.1 : Int) + (totalIn xs : Int) := by
        simp only [totalIn, List.map_cons, List.sum_cons]; push_cast; omega
      rw [this, ← Nat.add_assoc]; exact e2
    · rw [o2]; show r.out + _ + d2 = _; omega
    · rw [n2]; show r.nsw + _ = _; omega
    · rw [m2]; show r.nmis + _ = _; omega

/-- one `soxr_process(NULL, …, o)`, whichever it is -/
theorem eng_flush_any (cfg : Cfg ρ) (k : Nat) (S A0 : Int) (r : Run ρ) (b : Bool) (N C : Int) (K : Nat) (o : Nat)
    (he : Eng k S A0 r.st b N C K) :
    ∃ C', Eng k S A0 (stepOp cfg r (.flush o)).st true N C' (K + ((stepOp cfg r (.flush o)).out - r.out)) ∧
      r.out ≤ (stepOp cfg r (.flush o)).out ∧ (stepOp cfg r (.flush o)).nsw = r.nsw ∧ (stepOp cfg r (.flush o)).nmis = r.nmis ∧
      ((stepOp cfg r (.flush o)).out < r.out + o →
        (fedB true N k - 480) * two32 ≤ A0 + ((K + ((stepOp cfg r (.flush o)).out - r.out) : Nat) : Int) * (2 * S) + S) := by
  have hout : (stepOp cfg r (.flush o)).out = r.out + (process cfg (flush r.st) o).od := rfl
  have hsub : (stepOp cfg r (.flush o)).out - r.out = (process cfg (flush r.st) o).od := by omega
  rw [hsub]
  cases b with
  | false =>
    obtain ⟨C', e, n, m, st⟩ := eng_flush_first cfg k S A0 r.st N C K o he
    exact ⟨C', e, by omega, by show r.nsw + _ = _; omega, by show r.nmis + _ = _; omega, fun h => st (by omega)⟩
  | true =>
    obtain ⟨C', e, n, m, st⟩ := eng_flush_again cfg k S A0 r.st N C K o he
    exact ⟨C', e, by omega, by show r.nsw + _ = _; omega, by show r.nmis + _ = _; omega, fun h => st (by omega)⟩

theorem eng_run_flushes (cfg : Cfg ρ) (k : Nat) (S A0 : Int) : ∀ (drain : List Nat) (r : Run ρ) (b : Bool) (N C : Int) (K : Nat),
    Eng k S A0 r.st b N C K →
    ∃ b' C' d, Eng k S A0 (run cfg r (flushOps drain)).st b' N C' (K + d) ∧
      (run cfg r (flushOps drain)).out = r.out + d ∧ (run cfg r (flushOps drain)).nsw = r.nsw ∧
      (run cfg r (flushOps drain)).nmis = r.nmis := by
  intro drain
  induction drain with
  | nil => intro r b N C K h; exact ⟨b, C, 0, by simpa [flushOps, run] using h, rfl, rfl, rfl⟩
  | cons x xs ih =>
    intro r b N C K h
    obtain ⟨C1, e1, le1, n1, m1, _⟩ := eng_flush_any cfg k S A0 r b N C K x h
    obtain ⟨b2, C2, d2, e2, o2, n2, m2⟩ := ih (stepOp cfg r (.flush x)) true N C1 _ e1
    have hrun : run cfg r (flushOps (x :: xs)) = run cfg (stepOp cfg r (.flush x)) (flushOps xs) := by
      simp [flushOps, run]
    rw [hrun]
    refine ⟨b2, C2, ((stepOp cfg r (.flush x)).out - r.out) + d2, ?_, ?_, ?_, ?_⟩
    · rw [← Nat.add_assoc]; exact e2
    · rw [o2]; omega
    · rw [n2, n1]
    · rw [m2, m1]

/-- **The whole engine, down-sampling stage `k`.**  From an engine that has just been given its ratio (clock at `A0`,
    nothing written, nothing delivered): after ANY sequence of `soxr_process` calls — any input block sizes, any output
    requests — followed by ANY flush calls the last of which delivers fewer frames than it was asked for, the number `K`
    of frames delivered in all satisfies the two clock inequalities against the WHOLE input `N`, in samples of stage `k`
    (`⌊N / 2^k⌋`): the second sample of frame `K − 1` lies inside it, the second sample of frame `K` does not.
    No stage switch was taken and the cross-faded streams never disagreed (there was no cross-fade). -/
theorem frames_engine_D (cfg : Cfg ρ) (k : Nat) (S A0 : Int) (s0 : St ρ) (blocks : List (Nat × Nat)) (drain : List Nat) (o : Nat)
    (h0 : Eng k S A0 s0 false 0 0 0)
    (hdr : (run cfg { st := s0 } (procOps blocks ++ flushOps drain ++ [.flush o])).out <
      (run cfg { st := s0 } (procOps blocks ++ flushOps drain)).out + o) :
    let R := run cfg { st := s0 } (procOps blocks ++ flushOps drain ++ [.flush o])
    (0 < R.out → A0 + ((R.out : Int) - 1) * (2 * S) + S < ((totalIn blocks : Int) / 2 ^ k) * two32) ∧
    ((totalIn blocks : Int) / 2 ^ k) * two32 ≤ A0 + (R.out : Int) * (2 * S) + S ∧ R.nsw = 0 ∧ R.nmis = 0 := by
  intro R
  obtain ⟨C1, d1, e1, o1, n1, m1⟩ := eng_run_procs cfg k S A0 blocks { st := s0 } 0 0 0 h0
  obtain ⟨b2, C2, d2, e2, o2, n2, m2⟩ := eng_run_flushes cfg k S A0 drain (run cfg { st := s0 } (procOps blocks)) false _ C1 _ e1
  rw [← run_append] at e2 o2 n2 m2
  obtain ⟨C3, e3, le3, n3, m3, st3⟩ := eng_flush_any cfg k S A0 (run cfg { st := s0 } (procOps blocks ++ flushOps drain)) b2 _ C2 _ o e2
  have hR : R = stepOp cfg (run cfg { st := s0 } (procOps blocks ++ flushOps drain)) (.flush o) := by
    show run cfg _ _ = _
    rw [run_append]; rfl
  rw [← hR] at e3 le3 n3 m3 st3
  have hstuck := st3 hdr
  obtain ⟨_, _, _, _, _, _, hhist, _⟩ := e3
  have hK : 0 + d1 + d2 + (R.out - (run cfg { st := s0 } (procOps blocks ++ flushOps drain)).out) = R.out := by
    rw [o2, o1] at le3 ⊢
    show _ = R.out
    have : ({ st := s0 } : Run ρ).out = 0 := rfl
    omega
  rw [hK] at hhist hstuck
  have hF : fedB true (0 + (totalIn blocks : Int)) k - 480 = (totalIn blocks : Int) / 2 ^ k := by
    simp only [fedB, if_true, fedF_closed]; rw [Int.zero_add]; omega
  rw [hF] at hhist hstuck
  refine ⟨hhist, hstuck, ?_, ?_⟩
  · rw [n3, n2, n1]
  · rw [m3, m2, m1]

/-! ### A fresh engine that has just been given its (first) ratio -/

theorem fed_zero : fed 0 0 = 240 ∧ ∀ j : Nat, fed 0 (j + 1) = 180 := by
  refine ⟨by simp [fed], fun j => ?_⟩
  induction j with
  | zero => simp [fed]
  | succ j ih => conv => lhs; unfold fed
                 rw [ih]; decide

theorem init_stg (cfg : Cfg ρ) (mx : ρ) (j : Nat) (h : j < max (cfg.num.numStages mx) 1) :
    ((init cfg mx).stg (j : Int)).occ = stagePreload (j : Int) ∧ ((init cfg mx).stg (j : Int)).pre = stagePreload (j : Int) := by
  unfold init St.stg
  have e : ((j : Int) + 1).toNat = j + 1 := by omega
  simp only [e]
  have hlt : j + 1 < max (cfg.num.numStages mx) 1 + 1 := by omega
  simp [hlt]

/-- `vr_create(max)` followed by the first `vr_set_io_ratio(r, 0)`, when that starts on the down-sampling stage `k` with
    an increment `S` inside the stage's octave: the invariant `Eng` with nothing written, consumed or delivered, and the
    clock half a step in (`FRAC(step) >> 1`). -/
theorem eng_init (cfg : Cfg ρ) (mx r : ρ) (k : Nat) (hk : (setIoRatio cfg (init cfg mx) r 0).cur.sn = (k : Int))
    (hS : 2147483648 ≤ (setIoRatio cfg (init cfg mx) r 0).cur.step ∧ (setIoRatio cfg (init cfg mx) r 0).cur.step ≤ 4294967296) :
    Eng k (setIoRatio cfg (init cfg mx) r 0).cur.step (FRAC (setIoRatio cfg (init cfg mx) r 0).cur.step / 2)
      (setIoRatio cfg (init cfg mx) r 0) false 0 0 0 := by
  have hd : (init cfg mx).defR = some mx := rfl
  have hst : (setIoRatio cfg (init cfg mx) r 0).stages = (init cfg mx).stages := by
    unfold setIoRatio
    simp only [hd, Option.isSome_some, if_true, ne_eq, not_true_eq_false, if_false, enter]
  have hfade : (setIoRatio cfg (init cfg mx) r 0).fade = 0 := by
    unfold setIoRatio
    simp only [hd, Option.isSome_some, if_true, ne_eq, not_true_eq_false, if_false, enter]
    rfl
  have hfl : (setIoRatio cfg (init cfg mx) r 0).fl = 0 := by
    unfold setIoRatio
    simp only [hd, Option.isSome_some, if_true, ne_eq, not_true_eq_false, if_false, enter]
    rfl
  have hclk : (setIoRatio cfg (init cfg mx) r 0).cur.clk =
      INT (init cfg mx).cur.clk * two32 + FRAC (setIoRatio cfg (init cfg mx) r 0).cur.step / 2 := by
    unfold setIoRatio
    simp only [hd, Option.isSome_some, if_true, ne_eq, not_true_eq_false, if_false, enter, enterStream, setStep]
  have hisd : (setIoRatio cfg (init cfg mx) r 0).cur.isD = decide ((setIoRatio cfg (init cfg mx) r 0).cur.sn ≥ 0) := by
    unfold setIoRatio
    simp only [hd, Option.isSome_some, if_true, ne_eq, not_true_eq_false, if_false, enter, enterStream, setStep]
  have hsnle : (setIoRatio cfg (init cfg mx) r 0).cur.sn ≤ max (((init cfg mx).ns0 : Int) - 1) (-1) := by
    unfold setIoRatio
    simp only [hd, Option.isSome_some, if_true, ne_eq, not_true_eq_false, if_false, enter, enterStream, setStep]
    split <;> omega
  obtain ⟨z1, _, _, _, z5, z6, z7, _⟩ := setIoRatio_zero_spec cfg (init cfg mx) r
  have hclk0 : (init cfg mx).cur.clk = 0 := rfl
  rw [hclk0] at hclk
  have hINT0 : INT 0 = 0 := by decide
  rw [hINT0, Int.zero_mul, Int.zero_add] at hclk
  have hns0 : (init cfg mx).ns0 = cfg.num.numStages mx := rfl
  have hkns : k < max (cfg.num.numStages mx) 1 := by rw [hk, hns0] at hsnle; omega
  have hsize : (setIoRatio cfg (init cfg mx) r 0).stages.size = max (cfg.num.numStages mx) 1 + 1 := by
    rw [hst]; unfold init; simp
  generalize hs0 : setIoRatio cfg (init cfg mx) r 0 = s0 at *
  refine ⟨⟨⟨z5, z6, hfade, z7, ?_⟩, z1, hk, by rw [hisd, hk]; simp, rfl, ?_, ?_, by rw [hsize]; omega⟩, Int.le_refl _, Int.le_refl _,
    by omega, ?_, ?_, fun h => absurd h (by omega), by simp [hfl]⟩
  · unfold InRange; rw [hisd, hk]; simp; exact hS
  · rw [hclk]; unfold FRAC two32; omega
  · rw [hclk]; unfold FRAC two32; omega
  · intro j hj
    have hstg : s0.stg (j : Int) = (init cfg mx).stg (j : Int) := by unfold St.stg; rw [hst]
    rw [hstg]
    obtain ⟨a, b⟩ := init_stg cfg mx j (by omega)
    refine ⟨?_, b⟩
    rw [a]
    simp only [fedB, Bool.false_eq_true, if_false, Int.mul_zero, Int.sub_zero]
    cases j with
    | zero => rw [fed_zero.1]; exact congrArg Nat.cast consts.2.2.1
    | succ j => rw [fed_zero.2 j]; have := consts.2.2.2 j; rw [show ((j + 1 : Nat) : Int) = (j : Int) + 1 by omega, this]; rfl
  · rw [hclk]; simp

/-! ## The up-sampling stage (`stage_num = −1`, `poly_fir_u`)

Stage −1 holds the input doubled (`double_fir0/1`): `do_input_stage(−1, −1)` keeps its occupancy at twice what stage 0
holds beyond `2·HALF_FIR_LEN_2`; its preload is 0.  The interpolator reads stage −1, one output per iteration; the
hand-back converts the integer part of the clock to whole input frames (`idone = INT(at) >> 1`). -/

/-- zeros appended to stage 0 by `vr_flush` -/
def flushPad (b : Bool) : Int := if b then 240 else 0

/-- occupancies of stages 0 and −1 when `N` input frames have been written (`b`: flushed) and `C` input frames consumed -/
def ChainU (s : St ρ) (b : Bool) (N C : Int) : Prop :=
  (s.stg 0).occ = 240 + N + flushPad b - C ∧ (s.stg 0).pre = 240 ∧
  (s.stg (-1)).occ = 2 * (N + flushPad b) - 2 * C ∧ (s.stg (-1)).pre = 0

def EngStU (S : Int) (s : St ρ) : Prop :=
  Steady s ∧ s.defR = none ∧ s.cur.sn = -1 ∧ s.cur.isD = false ∧ s.cur.step = S ∧ 0 ≤ s.cur.clk ∧ s.cur.clk < 2 * two32 ∧
  1 < s.stages.size

theorem shiftr_neg_one (x : Int) : shiftr x (-1) = x * 2 := by simp [shiftr]
theorem shiftl_one' (x : Int) : shiftl x 1 = x * 2 := by simp [shiftl, shiftr]
theorem shiftl_neg_one' (x : Int) : shiftl x (-1) = x / 2 := by simp [shiftl, shiftr]

theorem inputStages_single (s : St ρ) (mn j : Int) (hj : j ≠ 0) :
    inputStages s mn [j] = (doInput s j (if j < 0 then -1 else 1) mn).1 := by
  unfold inputStages
  rw [if_neg hj]
  dsimp only
  have e : ∀ t : St ρ, inputStages t mn [] = t := fun t => by unfold inputStages; rfl
  simp only [e, ite_self]

/-- `do_input_stage(−1, −1)`: afterwards stage −1 holds twice what stage 0 holds beyond 240, if that is not less than
    what it held -/
theorem feedU (s : St ρ) (mn : Int) (hsz : 1 < s.stages.size) (a : Int) (h0 : (s.stg 0).occ = a + 240)
    (hpre : (s.stg (-1)).pre = 0) (hle : (s.stg (-1)).occ ≤ 2 * a) :
    ((inputStages s mn (intRange (-1) (-1))).stg (-1)).occ = 2 * a ∧
    ((inputStages s mn (intRange (-1) (-1))).stg (-1)).pre = 0 ∧
    (inputStages s mn (intRange (-1) (-1))).stg 0 = s.stg 0 ∧
    (inputStages s mn (intRange (-1) (-1))).stages.size = s.stages.size := by
  rw [intRange_cons _ _ (by decide), intRange_nil _ _ (by decide), inputStages_single _ _ _ (by decide)]
  simp only [show ((-1 : Int) < 0) from by decide, if_true]
  have hln : doInputLen s (-1) (-1) = 2 * a - (s.stg (-1)).occ := by
    unfold doInputLen
    dsimp only
    rw [show ((-1 : Int) - -1) = 0 by decide, h0, hpre, consts.1, shiftr_neg_one]
    omega
  obtain ⟨c1, c2, c3, c4, c5, c6⟩ := doInput_stg s (-1) (-1) mn (by decide) (by simp; omega)
  refine ⟨?_, by rw [c5]; exact hpre, c4 0 (by decide) (by decide), c2⟩
  rw [c6, hln, hpre]
  split
  · split <;> simp <;> omega
  · omega

theorem readStages_two (s : St ρ) (idone : Int) (hsz : 1 < s.stages.size) (h0 : 0 ≤ idone)
    (hb0 : idone ≤ (s.stg 0).occ) (hb1 : idone * 2 ≤ (s.stg (-1)).occ) :
    ((readStages s 0 idone 2).stg 0).occ = (s.stg 0).occ - idone ∧ ((readStages s 0 idone 2).stg 0).pre = (s.stg 0).pre ∧
    ((readStages s 0 idone 2).stg (-1)).occ = (s.stg (-1)).occ - idone * 2 ∧
    ((readStages s 0 idone 2).stg (-1)).pre = (s.stg (-1)).pre ∧ (readStages s 0 idone 2).stages.size = s.stages.size := by
  rw [readStages_step, readStages_step]
  unfold readStages
  rw [show ((0 : Int) - 1) = -1 by decide]
  generalize hs1 : s.setStg 0 { s.stg 0 with occ := readOcc (s.stg 0).occ idone } = s1
  have e0 : s1.stg 0 = { s.stg 0 with occ := readOcc (s.stg 0).occ idone } := by
    rw [← hs1, stg_setStg_same s _ _ (by simp; omega)]
  have e1 : s1.stg (-1) = s.stg (-1) := by rw [← hs1, stg_setStg_ne s _ _ _ (by decide) (by decide) (by decide)]
  have z1 : s1.stages.size = s.stages.size := by rw [← hs1, size_setStg]
  rw [stg_setStg_ne s1 _ _ _ (by decide) (by decide) (by decide), stg_setStg_same s1 _ _ (by simp; omega), e0, e1, size_setStg, z1]
  dsimp only
  unfold readOcc
  rw [if_pos ⟨h0, hb0⟩, if_pos ⟨by omega, hb1⟩]
  exact ⟨rfl, rfl, rfl, rfl, rfl⟩

theorem post_steadyU (s : St ρ) (hf : s.fade = 0) (hsn : s.cur.sn = -1) :
    post s (-1) (-1) =
      readStages { s with cur := { s.cur with clk := s.cur.clk - INT s.cur.clk / 2 * 2 * two32 } } 0 (INT s.cur.clk / 2) 2 := by
  have hf' : ¬ (s.fade ≠ 0) := by rw [hf]; simp
  have a1 : shiftr (INT s.cur.clk) (max 0 (-1 : Int) - s.cur.sn) = INT s.cur.clk / 2 := by
    rw [hsn, show max 0 (-1 : Int) - (-1 : Int) = 1 by decide, shiftr_one]
  have a2 : shiftl (INT s.cur.clk / 2) (max 0 (-1 : Int) - s.cur.sn) = INT s.cur.clk / 2 * 2 := by
    rw [hsn, show max 0 (-1 : Int) - (-1 : Int) = 1 by decide, shiftl_one']
  have a3 : (max 0 (-1 : Int) - min 0 (-1 : Int) + 1).toNat = 2 := by decide
  have a4 : max 0 (-1 : Int) = 0 := by decide
  unfold post
  simp only [hf', if_false, a1, a2, a3]
  rw [a4]

/-- **One `vr_process` call on the up-sampling stage.** -/
theorem process_steadyU (cfg : Cfg ρ) (S : Int) (s : St ρ) (olen0 : Nat) (b : Bool) (N C : Int) (hN : 0 ≤ N)
    (he : EngStU S s) (_hC0 : 0 ≤ C) (hC : C ≤ max 0 (N + flushPad b - 240))
    (hc : ChainU (inputStages { s with oocc := s.oocc + olen0 } (-1) (intRange (-1) (-1))) b N C)
    (hsz : (inputStages { s with oocc := s.oocc + olen0 } (-1) (intRange (-1) (-1))).stages.size = s.stages.size) :
    let X := firU { s.cur with len := max 0 (2 * (N + flushPad b - 240 - C)) } olen0
    (process cfg s olen0).od = X.2 ∧ (process cfg s olen0).nsw = 0 ∧ (process cfg s olen0).nmis = 0 ∧
    EngStU S (process cfg s olen0).st ∧
    (process cfg s olen0).st.cur.clk = X.1.clk - INT X.1.clk / 2 * 2 * two32 ∧
    ChainU (process cfg s olen0).st b N (C + INT X.1.clk / 2) ∧ 0 ≤ INT X.1.clk / 2 ∧
    C + INT X.1.clk / 2 ≤ max 0 (N + flushPad b - 240) ∧
    (process cfg s olen0).st.stages.size = s.stages.size ∧
    (process cfg s olen0).st.fl = (if s.fl > 0 then -1 else s.fl) := by
  intro X
  obtain ⟨hst, hdef, hsn, hisd, hstep, hclk0, hclk1, hsize⟩ := he
  obtain ⟨q1, q2, q3, q4, q5⟩ := hst
  obtain ⟨c0, hc0⟩ : ∃ c0 : Stream, c0 = { s.cur with len := max 0 (2 * (N + flushPad b - 240 - C)) } := ⟨_, rfl⟩
  have hXdef : X = firU c0 olen0 := by rw [hc0]
  clear_value X
  subst hXdef
  have c0clk : c0.clk = s.cur.clk := by rw [hc0]
  have c0step : c0.step = S := by rw [hc0]; exact hstep
  have c0ss : c0.ss = 0 := by rw [hc0]; exact q4
  have c0len : c0.len = max 0 (2 * (N + flushPad b - 240 - C)) := by rw [hc0]
  have c0sn : c0.sn = -1 := by rw [hc0]; exact hsn
  have c0d : c0.isD = false := by rw [hc0]; exact hisd
  have hSr : 0 < S ∧ S ≤ 8589934592 := by
    unfold InRange at q5; rw [hisd] at q5; simp at q5; rw [hstep] at q5; exact q5
  generalize hs1 : inputStages { s with oocc := s.oocc + olen0 } (-1) (intRange (-1) (-1)) = s1 at hc hsz
  have hctl : s1.ctl = ({ s with oocc := s.oocc + olen0 } : St ρ).ctl := by rw [← hs1, inputStages_ctl]
  have hcur1 : s1.cur = s.cur := congrArg Ctl.cur hctl
  have hfade1 : s1.fade = 0 := (congrArg Ctl.fade hctl).trans q3
  have hslew1 : s1.slew = 0 := (congrArg Ctl.slew hctl).trans q1
  have hnewR1 : s1.newR = none := (congrArg Ctl.newR hctl).trans q2
  have hdef1 : s1.defR = none := (congrArg Ctl.defR hctl).trans hdef
  have hfl1 : s1.fl = s.fl := congrArg Ctl.fl hctl
  generalize hs2 : (if s1.fl > 0 then ({ s1 with fl := -1 } : St ρ) else s1) = s2
  have h2cur : s2.cur = s.cur := by rw [← hs2]; split <;> exact hcur1
  have h2st : s2.stages = s1.stages := by rw [← hs2]; split <;> rfl
  have h2fade : s2.fade = 0 := by rw [← hs2]; split <;> exact hfade1
  have h2slew : s2.slew = 0 := by rw [← hs2]; split <;> exact hslew1
  have h2newR : s2.newR = none := by rw [← hs2]; split <;> exact hnewR1
  have h2def : s2.defR = none := by rw [← hs2]; split <;> exact hdef1
  have h2fl : s2.fl = (if s.fl > 0 then -1 else s.fl) := by
    rw [← hs2]
    by_cases h : s1.fl > 0
    · rw [if_pos h, if_pos (by omega)]
    · rw [if_neg h, if_neg (by omega)]; exact hfl1
  have h2stg : ∀ j : Int, s2.stg j = s1.stg j := fun j => by unfold St.stg; rw [h2st]
  obtain ⟨a0, p0, a1, p1⟩ := hc
  have hpre : (preLoop cfg s olen0).1 =
      { st := setLens s2 (shiftl (max 0 ((s2.stg (-1)).occ - 4 * (H2 : Int))) (-1)), mn := -1, mx := -1,
        occ := shiftl (max 0 ((s2.stg (-1)).occ - 4 * (H2 : Int))) (-1) } := by
    have hf : ¬ (s.fade ≠ 0) := by rw [q3]; simp
    unfold preLoop
    rw [applyDefault_none cfg s hdef]
    simp only [hf, if_false, hsn]
    rw [show min (-1 : Int) 0 = -1 by decide, hs1, hs2]
  have hL : shiftr (shiftl (max 0 ((s2.stg (-1)).occ - 4 * (H2 : Int))) (-1)) (-1) = max 0 (2 * (N + flushPad b - 240 - C)) := by
    rw [shiftl_neg_one', shiftr_neg_one, h2stg, a1, consts.1]
    omega
  generalize hocc0 : shiftl (max 0 ((s2.stg (-1)).occ - 4 * (H2 : Int))) (-1) = occ0 at hpre hL
  have hlens : setLens s2 occ0 = { s2 with cur := c0 } := by
    have hf : ¬ (s2.fade ≠ 0) := by rw [h2fade]; simp
    have hL' : shiftr occ0 s.cur.sn = max 0 (2 * (N + flushPad b - 240 - C)) := by rw [hsn]; exact hL
    unfold setLens
    simp only [hf, if_false]
    rw [h2cur, hL', hc0]
  have hsteady0 : Steady ({ s2 with cur := c0 } : St ρ) :=
    ⟨h2slew, h2newR, h2fade, c0ss, by unfold InRange; simp only [c0d, Bool.false_eq_true, if_false, c0step]; exact hSr⟩
  obtain ⟨l1, l2, l3, l4, l5, l6, l7⟩ := loop_steadyU cfg olen0 (olen0 + 1)
    { st := setLens s2 occ0, mn := -1, mx := -1, occ := occ0 } (by rw [hlens]; exact hsteady0)
    (by rw [hlens]; exact c0d) (by show olen0 - 0 < olen0 + 1; omega)
  simp only [hlens, Nat.sub_zero, Nat.zero_add] at l1 l2 l3 l4 l5 l6 l7
  obtain ⟨f1, f2, f3⟩ := firU_const olen0 c0 c0ss
  obtain ⟨g1, g2, _, g4, g5, g6, g7⟩ := firU_spec olen0 c0
  rw [c0clk, c0step] at f1
  have hid : 0 ≤ INT (firU c0 olen0).1.clk / 2 ∧ INT (firU c0 olen0).1.clk / 2 ≤ max 0 (N + flushPad b - 240 - C) := by
    have hnn : 0 ≤ ((firU c0 olen0).2 : Int) * S := Int.mul_nonneg (by omega) (by omega)
    have hlt : (firU c0 olen0).1.clk < (max 0 (2 * (N + flushPad b - 240 - C)) + 2) * two32 := by
      rw [f1]
      by_cases hx : (firU c0 olen0).2 = 0
      · rw [hx]; simp only [Int.natCast_zero, Int.zero_mul, Int.add_zero]
        unfold two32 at *; omega
      · have := f3 ((firU c0 olen0).2 - 1) (by omega)
        rw [c0clk, c0step, c0len] at this
        have hK : (((firU c0 olen0).2 - 1 : Nat) : Int) = ((firU c0 olen0).2 : Int) - 1 := by omega
        rw [hK, Int.sub_mul] at this
        generalize ((firU c0 olen0).2 : Int) * S = Z at *
        unfold two32 at *
        omega
    have h1 := (INT_lt_iff (firU c0 olen0).1.clk (max 0 (2 * (N + flushPad b - 240 - C)) + 2)).mpr hlt
    have h0 : 0 ≤ INT (firU c0 olen0).1.clk := by rw [f1]; unfold INT two32; omega
    omega
  rw [hlens] at hpre
  unfold process
  simp only [hpre]
  generalize hl : loop cfg olen0 (olen0 + 1) { st := { s2 with cur := c0 }, mn := -1, mx := -1, occ := occ0 } = l at *
  have hlst : l.st = { s2 with cur := (firU c0 olen0).1 } := l1
  have hXsn0 : (firU c0 olen0).1.sn = -1 := by rw [g4]; exact c0sn
  have hpost : post l.st l.mn l.mx =
      readStages { s2 with cur := { (firU c0 olen0).1 with clk := (firU c0 olen0).1.clk - INT (firU c0 olen0).1.clk / 2 * 2 * two32 } } 0
        (INT (firU c0 olen0).1.clk / 2) 2 := by
    rw [l3, l4, post_steadyU l.st (by rw [hlst]; exact h2fade) (by rw [hlst]; exact hXsn0), hlst]
  rw [hpost]
  generalize hs3 : ({ s2 with cur := { (firU c0 olen0).1 with clk := (firU c0 olen0).1.clk - INT (firU c0 olen0).1.clk / 2 * 2 * two32 } } : St ρ) = s3
  have h3stg : ∀ j : Int, s3.stg j = s1.stg j := fun j => by rw [← hs3]; exact h2stg j
  have h3sz : s3.stages.size = s.stages.size := by rw [← hs3]; show s2.stages.size = _; rw [h2st, hsz]
  have hpad : 0 ≤ flushPad b := by unfold flushPad; split <;> omega
  obtain ⟨r1, r2, r3, r4, r5⟩ := readStages_two s3 (INT (firU c0 olen0).1.clk / 2) (by omega) hid.1
    (by rw [h3stg, a0]; omega) (by rw [h3stg, a1]; omega)
  rw [h3stg, a0] at r1
  rw [h3stg, p0] at r2
  rw [h3stg, a1] at r3
  rw [h3stg, p1] at r4
  generalize hs4 : readStages s3 0 (INT (firU c0 olen0).1.clk / 2) 2 = s4 at *
  have h4ctl : s4.ctl = s3.ctl := by rw [← hs4, readStages_ctl]
  have h4cur : s4.cur = { (firU c0 olen0).1 with clk := (firU c0 olen0).1.clk - INT (firU c0 olen0).1.clk / 2 * 2 * two32 } := by
    have : s4.cur = s3.cur := congrArg Ctl.cur h4ctl
    rw [this, ← hs3]
  have hXstep : (firU c0 olen0).1.step = S := by rw [g1, c0ss]; simp; exact c0step
  have hXss : (firU c0 olen0).1.ss = 0 := by rw [g2]; exact c0ss
  have hXd : (firU c0 olen0).1.isD = false := by rw [g5]; exact c0d
  have k1 : s4.slew = s3.slew := congrArg Ctl.slew h4ctl
  have k2 : s4.newR = s3.newR := congrArg Ctl.newR h4ctl
  have k3 : s4.fade = s3.fade := congrArg Ctl.fade h4ctl
  have k4 : s4.defR = s3.defR := congrArg Ctl.defR h4ctl
  have k5 : s4.fl = s3.fl := congrArg Ctl.fl h4ctl
  have hclkX : 0 ≤ (firU c0 olen0).1.clk := by
    rw [f1]; have : 0 ≤ ((firU c0 olen0).2 : Int) * S := Int.mul_nonneg (by omega) (by omega); omega
  refine ⟨?_, ?_, ?_, ⟨⟨?_, ?_, ?_, ?_, ?_⟩, ?_, ?_, ?_, ?_, ?_, ?_, ?_⟩, ?_, ⟨?_, r2, ?_, r4⟩, hid.1, by omega, ?_, ?_⟩
  · exact l2.trans (by simp)
  · exact l6
  · exact l7
  · show s4.slew = 0; rw [k1, ← hs3]; exact h2slew
  · show s4.newR = none; rw [k2, ← hs3]; exact h2newR
  · show s4.fade = 0; rw [k3, ← hs3]; exact h2fade
  · show s4.cur.ss = 0; rw [h4cur]; exact hXss
  · show InRange s4.cur
    rw [h4cur]; unfold InRange; simp only [hXd, Bool.false_eq_true, if_false, hXstep]; exact hSr
  · show s4.defR = none; rw [k4, ← hs3]; exact h2def
  · show s4.cur.sn = _; rw [h4cur]; exact hXsn0
  · show s4.cur.isD = _; rw [h4cur]; exact hXd
  · show s4.cur.step = _; rw [h4cur]; exact hXstep
  · show 0 ≤ s4.cur.clk; rw [h4cur]; dsimp only; unfold INT two32 at *; omega
  · show s4.cur.clk < 2 * two32; rw [h4cur]; dsimp only; unfold INT two32 at *; omega
  · show 1 < s4.stages.size; rw [r5, h3sz]; exact hsize
  · show s4.cur.clk = _; rw [h4cur]
  · show (s4.stg 0).occ = _; rw [r1]; omega
  · show (s4.stg (-1)).occ = _; rw [r3]; omega
  · show s4.stages.size = _; rw [r5, h3sz]
  · show s4.fl = _; rw [k5, ← hs3]; exact h2fl

/-- the invariant between calls for the up-sampling stage: `C` input frames consumed, the absolute clock in half input
    frames (samples of stage −1) `2·C·2³² + at` has advanced by `S` per output frame -/
def EngU (S A0 : Int) (s : St ρ) (b : Bool) (N C : Int) (K : Nat) : Prop :=
  EngStU S s ∧ 0 ≤ N ∧ 0 ≤ C ∧ C ≤ max 0 (N + flushPad b - 240) ∧ ChainU s b N C ∧
  2 * C * two32 + s.cur.clk = A0 + (K : Int) * S ∧
  (0 < K → A0 + ((K : Int) - 1) * S < 2 * (N + flushPad b - 240) * two32) ∧
  s.fl = (if b then -1 else 0)

theorem engU_after_call (S A0 : Int) (s : St ρ) (b b' : Bool) (N N' C : Int) (K : Nat) (olen0 : Nat) (t : St ρ)
    (he : EngU S A0 s b N C K) (hmono : N + flushPad b ≤ N' + flushPad b') (hN' : 0 ≤ N')
    (c0 : Stream) (hc0 : c0 = { s.cur with len := max 0 (2 * (N' + flushPad b' - 240 - C)) })
    (hEng : EngStU S t) (hclk : t.cur.clk = (firU c0 olen0).1.clk - INT (firU c0 olen0).1.clk / 2 * 2 * two32)
    (hch : ChainU t b' N' (C + INT (firU c0 olen0).1.clk / 2)) (hid0 : 0 ≤ INT (firU c0 olen0).1.clk / 2)
    (hbd : C + INT (firU c0 olen0).1.clk / 2 ≤ max 0 (N' + flushPad b' - 240)) (hfl : t.fl = (if b' then -1 else 0)) :
    EngU S A0 t b' N' (C + INT (firU c0 olen0).1.clk / 2) (K + (firU c0 olen0).2) ∧
    ((firU c0 olen0).2 < olen0 →
      2 * (N' + flushPad b' - 240) * two32 ≤ A0 + ((K + (firU c0 olen0).2 : Nat) : Int) * S) := by
  obtain ⟨⟨⟨q1, q2, q3, q4, q5⟩, hdef, hsn, hisd, hstep, hclk0, hclk1, hsize⟩, hN, hC0, hC, hchain, hclock, hhist, hfl0⟩ := he
  have c0clk : c0.clk = s.cur.clk := by rw [hc0]
  have c0step : c0.step = S := by rw [hc0]; exact hstep
  have c0ss : c0.ss = 0 := by rw [hc0]; exact q4
  have c0len : c0.len = max 0 (2 * (N' + flushPad b' - 240 - C)) := by rw [hc0]
  have hSr : 0 < S ∧ S ≤ 8589934592 := by
    unfold InRange at q5; rw [hisd] at q5; simp at q5; rw [hstep] at q5; exact q5
  obtain ⟨f1, f2, f3⟩ := firU_const olen0 c0 c0ss
  rw [c0clk, c0step] at f1 f2
  rw [c0len] at f2
  generalize hX : firU c0 olen0 = X at *
  unfold two32 at *
  have hcast : ((K + X.2 : Nat) : Int) = (K : Int) + (X.2 : Int) := by omega
  have hmulK : ((K : Int) + (X.2 : Int)) * S = (K : Int) * S + (X.2 : Int) * S := Int.add_mul _ _ _
  refine ⟨⟨hEng, hN', by omega, hbd, hch, ?_, ?_, hfl⟩, ?_⟩
  · rw [hclk, f1, hcast, hmulK]
    unfold two32
    omega
  · intro hK
    unfold two32
    rw [hcast, Int.sub_mul, hmulK]
    by_cases hx : X.2 = 0
    · have := hhist (by omega)
      rw [Int.sub_mul] at this
      rw [hx]
      simp only [Int.natCast_zero, Int.zero_mul, Int.add_zero]
      omega
    · have h3 := f3 (X.2 - 1) (by omega)
      rw [c0clk, c0step, c0len] at h3
      have hK1 : ((X.2 - 1 : Nat) : Int) = (X.2 : Int) - 1 := by omega
      rw [hK1, Int.sub_mul] at h3
      have hnn : 0 ≤ (X.2 : Int) * S - 1 * S := by
        have : (1 : Int) ≤ (X.2 : Int) := by omega
        have := Int.mul_le_mul_of_nonneg_right this (show (0 : Int) ≤ S by omega)
        omega
      generalize (X.2 : Int) * S = Z at *
      generalize (K : Int) * S = W at *
      omega
  · intro hlt
    have h2 := f2 hlt
    rw [hcast, hmulK]
    generalize (X.2 : Int) * S = Z at *
    generalize (K : Int) * S = W at *
    omega

theorem engStU_stages (S : Int) (s t : St ρ) (h : EngStU S s) (hc : t.ctl = s.ctl)
    (hsz : t.stages.size = s.stages.size) : EngStU S t := by
  obtain ⟨⟨q1, q2, q3, q4, q5⟩, hdef, hsn, hisd, hstep, hclk0, hclk1, hsize⟩ := h
  have c : t.cur = s.cur := congrArg Ctl.cur hc
  refine ⟨⟨(congrArg Ctl.slew hc).trans q1, (congrArg Ctl.newR hc).trans q2, (congrArg Ctl.fade hc).trans q3, by rw [c]; exact q4,
    by rw [c]; exact q5⟩, (congrArg Ctl.defR hc).trans hdef, by rw [c]; exact hsn, by rw [c]; exact hisd, by rw [c]; exact hstep,
    by rw [c]; exact hclk0, by rw [c]; exact hclk1, by rw [hsz]; exact hsize⟩

/-- `soxr_process(in, ilen, …, olen)` on the up-sampling stage, before the flush -/
theorem engU_proc (cfg : Cfg ρ) (S A0 : Int) (s : St ρ) (N C : Int) (K : Nat) (ilen olen : Nat)
    (he : EngU S A0 s false N C K) :
    ∃ C', EngU S A0 (output (process cfg (input s ilen) olen).st olen).1 false (N + ilen) C' (K + (process cfg (input s ilen) olen).od) ∧
    (process cfg (input s ilen) olen).nsw = 0 ∧ (process cfg (input s ilen) olen).nmis = 0 := by
  obtain ⟨hE, hN, hC0, hC, hchain, hclock, hhist, hfl⟩ := he
  have hsize := hE.2.2.2.2.2.2.2
  simp only [Bool.false_eq_true, if_false] at hfl
  have hEin : EngStU S (input s ilen) := engStU_stages S s _ hE rfl (by unfold input; rw [size_setStg])
  obtain ⟨a0, p0, a1, p1⟩ := hchain
  have hpad : flushPad false = 0 := rfl
  rw [hpad] at a0 a1 hC
  have hin0 : ((input s ilen).stg 0).occ = (N + ilen - C) + 240 ∧ ((input s ilen).stg 0).pre = 240 := by
    unfold input; dsimp only
    rw [stg_setStg_same s _ _ (by simp; omega)]
    exact ⟨by show (s.stg 0).occ + (ilen : Int) = _; rw [a0]; omega, p0⟩
  have hin1 : (input s ilen).stg (-1) = s.stg (-1) := by
    unfold input; dsimp only
    rw [stg_setStg_ne s _ _ _ (by decide) (by decide) (by decide)]
  obtain ⟨e1, e2, e3, e4⟩ := feedU ({ input s ilen with oocc := (input s ilen).oocc + olen } : St ρ) (-1)
    (by show 1 < (input s ilen).stages.size; unfold input; rw [size_setStg]; exact hsize) (N + ilen - C) hin0.1
    (by show ((input s ilen).stg (-1)).pre = 0; rw [hin1]; exact p1)
    (by show ((input s ilen).stg (-1)).occ ≤ _; rw [hin1, a1]; omega)
  have hC' : C ≤ max 0 (N + ilen + flushPad false - 240) := by rw [hpad]; omega
  obtain ⟨r1, r2, r3, r4, r5, r6, r7, r8, r9, r10⟩ := process_steadyU cfg S (input s ilen) olen false (N + ilen) C (by omega) hEin hC0 hC'
    ⟨by rw [e3, hpad]; show ((input s ilen).stg 0).occ = _; rw [hin0.1]; omega,
     by rw [e3]; exact hin0.2, by rw [e1, hpad]; omega, e2⟩ (by rw [e4])
  dsimp only at r1 r2 r3 r4 r5 r6 r7 r8 r9 r10
  obtain ⟨c0, hc0⟩ : ∃ c0 : Stream, c0 = { s.cur with len := max 0 (2 * (N + ilen + flushPad false - 240 - C)) } := ⟨_, rfl⟩
  have hcin : (input s ilen).cur = s.cur := rfl
  rw [hcin, ← hc0] at r1 r5 r6 r7 r8
  have hEout : EngStU S (output (process cfg (input s ilen) olen).st olen).1 := r4
  have hfin := engU_after_call S A0 s false false N (N + ilen) C K olen (output (process cfg (input s ilen) olen).st olen).1
    ⟨hE, hN, hC0, by rw [hpad]; exact hC, ⟨by rw [hpad]; exact a0, p0, by rw [hpad]; exact a1, p1⟩, hclock, hhist, by simp [hfl]⟩
    (by omega) (by omega) c0 hc0 hEout r5 r6 r7 r8
    (by show (process cfg (input s ilen) olen).st.fl = _; rw [r10]; show (if s.fl > 0 then (-1 : Int) else s.fl) = _; rw [hfl]; simp)
  rw [← r1] at hfin
  exact ⟨_, hfin.1, r2, r3⟩

theorem engU_flush_first (cfg : Cfg ρ) (S A0 : Int) (s : St ρ) (N C : Int) (K : Nat) (olen : Nat)
    (he : EngU S A0 s false N C K) :
    ∃ C', EngU S A0 (output (process cfg (flush s) olen).st olen).1 true N C' (K + (process cfg (flush s) olen).od) ∧
    (process cfg (flush s) olen).nsw = 0 ∧ (process cfg (flush s) olen).nmis = 0 ∧
    ((process cfg (flush s) olen).od < olen →
      2 * (N + flushPad true - 240) * two32 ≤ A0 + ((K + (process cfg (flush s) olen).od : Nat) : Int) * S) := by
  obtain ⟨hE, hN, hC0, hC, hchain, hclock, hhist, hfl⟩ := he
  have hsize := hE.2.2.2.2.2.2.2
  simp only [Bool.false_eq_true, if_false] at hfl
  have hflush : flush s = { s.setStg 0 { s.stg 0 with occ := (s.stg 0).occ + (s.stg 0).pre } with fl := s.fl + 1 } := by
    unfold flush; rw [if_pos hfl]
  have hEin : EngStU S (flush s) := by
    rw [hflush]
    obtain ⟨⟨q1, q2, q3, q4, q5⟩, hdef, hsn, hisd, hstep, hclk0, hclk1, _⟩ := hE
    exact ⟨⟨q1, q2, q3, q4, q5⟩, hdef, hsn, hisd, hstep, hclk0, hclk1,
      by show 1 < (s.setStg _ _).stages.size; rw [size_setStg]; exact hsize⟩
  obtain ⟨a0, p0, a1, p1⟩ := hchain
  have hpad : flushPad false = 0 := rfl
  have hpadt : flushPad true = 240 := rfl
  rw [hpad] at a0 a1 hC
  have hin0 : ((flush s).stg 0).occ = (N + 240 - C) + 240 ∧ ((flush s).stg 0).pre = 240 := by
    rw [hflush]
    show ((s.setStg 0 _).stg 0).occ = _ ∧ ((s.setStg 0 _).stg 0).pre = _
    rw [stg_setStg_same s _ _ (by simp; omega)]
    exact ⟨by show (s.stg 0).occ + ((s.stg 0).pre : Int) = _; rw [a0, p0]; omega, p0⟩
  have hin1 : (flush s).stg (-1) = s.stg (-1) := by
    rw [hflush]
    show (s.setStg 0 _).stg (-1) = _
    rw [stg_setStg_ne s _ _ _ (by decide) (by decide) (by decide)]
  obtain ⟨e1, e2, e3, e4⟩ := feedU ({ flush s with oocc := (flush s).oocc + olen } : St ρ) (-1)
    (by show 1 < (flush s).stages.size; rw [hflush]; show 1 < (s.setStg _ _).stages.size; rw [size_setStg]; exact hsize)
    (N + 240 - C) hin0.1
    (by show ((flush s).stg (-1)).pre = 0; rw [hin1]; exact p1)
    (by show ((flush s).stg (-1)).occ ≤ _; rw [hin1, a1]; omega)
  have hC' : C ≤ max 0 (N + flushPad true - 240) := by rw [hpadt]; omega
  obtain ⟨r1, r2, r3, r4, r5, r6, r7, r8, r9, r10⟩ := process_steadyU cfg S (flush s) olen true N C hN hEin hC0 hC'
    ⟨by rw [e3, hpadt]; show ((flush s).stg 0).occ = _; rw [hin0.1]; omega,
     by rw [e3]; exact hin0.2, by rw [e1, hpadt]; omega, e2⟩ (by rw [e4])
  dsimp only at r1 r2 r3 r4 r5 r6 r7 r8 r9 r10
  obtain ⟨c0, hc0⟩ : ∃ c0 : Stream, c0 = { s.cur with len := max 0 (2 * (N + flushPad true - 240 - C)) } := ⟨_, rfl⟩
  have hcin : (flush s).cur = s.cur := by rw [hflush]; rfl
  rw [hcin, ← hc0] at r1 r5 r6 r7 r8
  have hEout : EngStU S (output (process cfg (flush s) olen).st olen).1 := r4
  have hfin := engU_after_call S A0 s false true N N C K olen (output (process cfg (flush s) olen).st olen).1
    ⟨hE, hN, hC0, by rw [hpad]; exact hC, ⟨by rw [hpad]; exact a0, p0, by rw [hpad]; exact a1, p1⟩, hclock, hhist, by simp [hfl]⟩
    (by rw [hpad, hpadt]; omega) hN c0 hc0 hEout r5 r6 r7 r8
    (by
      show (process cfg (flush s) olen).st.fl = _
      rw [r10, hflush]
      show (if s.fl + 1 > 0 then (-1 : Int) else s.fl + 1) = _
      rw [hfl]; simp)
  rw [← r1] at hfin
  exact ⟨_, hfin.1, r2, r3, hfin.2⟩

theorem engU_flush_again (cfg : Cfg ρ) (S A0 : Int) (s : St ρ) (N C : Int) (K : Nat) (olen : Nat)
    (he : EngU S A0 s true N C K) :
    ∃ C', EngU S A0 (output (process cfg (flush s) olen).st olen).1 true N C' (K + (process cfg (flush s) olen).od) ∧
    (process cfg (flush s) olen).nsw = 0 ∧ (process cfg (flush s) olen).nmis = 0 ∧
    ((process cfg (flush s) olen).od < olen →
      2 * (N + flushPad true - 240) * two32 ≤ A0 + ((K + (process cfg (flush s) olen).od : Nat) : Int) * S) := by
  obtain ⟨hE, hN, hC0, hC, hchain, hclock, hhist, hfl⟩ := he
  have hsize := hE.2.2.2.2.2.2.2
  simp only [if_true] at hfl
  have hflush : flush s = s := by unfold flush; rw [if_neg (by omega)]
  rw [hflush]
  obtain ⟨a0, p0, a1, p1⟩ := hchain
  have hpadt : flushPad true = 240 := rfl
  obtain ⟨e1, e2, e3, e4⟩ := feedU ({ s with oocc := s.oocc + olen } : St ρ) (-1) hsize (N + 240 - C)
    (by show (s.stg 0).occ = _; rw [a0, hpadt]; omega) p1 (by show (s.stg (-1)).occ ≤ _; rw [a1, hpadt]; omega)
  obtain ⟨r1, r2, r3, r4, r5, r6, r7, r8, r9, r10⟩ := process_steadyU cfg S s olen true N C hN hE hC0 hC
    ⟨by rw [e3]; exact a0, by rw [e3]; exact p0, by rw [e1, hpadt]; omega, e2⟩ (by rw [e4])
  dsimp only at r1 r2 r3 r4 r5 r6 r7 r8 r9 r10
  obtain ⟨c0, hc0⟩ : ∃ c0 : Stream, c0 = { s.cur with len := max 0 (2 * (N + flushPad true - 240 - C)) } := ⟨_, rfl⟩
  rw [← hc0] at r1 r5 r6 r7 r8
  have hEout : EngStU S (output (process cfg s olen).st olen).1 := r4
  have hfin := engU_after_call S A0 s true true N N C K olen (output (process cfg s olen).st olen).1
    ⟨hE, hN, hC0, hC, ⟨a0, p0, a1, p1⟩, hclock, hhist, by simp [hfl]⟩ (Int.le_refl _) hN c0 hc0 hEout r5 r6 r7 r8
    (by show (process cfg s olen).st.fl = _; rw [r10, hfl]; simp)
  rw [← r1] at hfin
  exact ⟨_, hfin.1, r2, r3, hfin.2⟩

theorem engU_run_procs (cfg : Cfg ρ) (S A0 : Int) : ∀ (blocks : List (Nat × Nat)) (r : Run ρ) (N C : Int) (K : Nat),
    EngU S A0 r.st false N C K →
    ∃ C' d, EngU S A0 (run cfg r (procOps blocks)).st false (N + totalIn blocks) C' (K + d) ∧
      (run cfg r (procOps blocks)).out = r.out + d ∧ (run cfg r (procOps blocks)).nsw = r.nsw ∧
      (run cfg r (procOps blocks)).nmis = r.nmis := by
  intro blocks
  induction blocks with
  | nil => intro r N C K h; exact ⟨C, 0, by simpa [procOps, totalIn, run] using h, rfl, rfl, rfl⟩
  | cons x xs ih =>
    intro r N C K h
    obtain ⟨C1, e1, n1, m1⟩ := engU_proc cfg S A0 r.st N C K x.1 x.2 h
    obtain ⟨C2, d2, e2, o2, n2, m2⟩ := ih (stepOp cfg r (.proc x.1 x.2)) (N + x.1) C1 (K + (process cfg (input r.st x.1) x.2).od) e1
    have hrun : run cfg r (procOps (x :: xs)) = run cfg (stepOp cfg r (.proc x.1 x.2)) (procOps xs) := by
      simp [procOps, run]
    rw [hrun]
    refine ⟨C2, (process cfg (input r.st x.1) x.2).od + d2, ?_, ?_, ?_, ?_⟩
    · have : N + (totalIn (x :: xs) : Int) = N + (x.1 : Int) + (totalIn xs : Int) := by
        simp only [totalIn, List.map_cons, List.sum_cons]; push_cast; omega
      rw [this, ← Nat.add_assoc]; exact e2
    · rw [o2]; show r.out + _ + d2 = _; omega
    · rw [n2]; show r.nsw + _ = _; omega
    · rw [m2]; show r.nmis + _ = _; omega

theorem engU_flush_any (cfg : Cfg ρ) (S A0 : Int) (r : Run ρ) (b : Bool) (N C : Int) (K : Nat) (o : Nat)
    (he : EngU S A0 r.st b N C K) :
    ∃ C', EngU S A0 (stepOp cfg r (.flush o)).st true N C' (K + ((stepOp cfg r (.flush o)).out - r.out)) ∧
      r.out ≤ (stepOp cfg r (.flush o)).out ∧ (stepOp cfg r (.flush o)).nsw = r.nsw ∧ (stepOp cfg r (.flush o)).nmis = r.nmis ∧
      ((stepOp cfg r (.flush o)).out < r.out + o →
        2 * (N + flushPad true - 240) * two32 ≤ A0 + ((K + ((stepOp cfg r (.flush o)).out - r.out) : Nat) : Int) * S) := by
  have hout : (stepOp cfg r (.flush o)).out = r.out + (process cfg (flush r.st) o).od := rfl
  have hsub : (stepOp cfg r (.flush o)).out - r.out = (process cfg (flush r.st) o).od := by omega
  rw [hsub]
  cases b with
  | false =>
    obtain ⟨C', e, n, m, st⟩ := engU_flush_first cfg S A0 r.st N C K o he
    exact ⟨C', e, by omega, by show r.nsw + _ = _; omega, by show r.nmis + _ = _; omega, fun h => st (by omega)⟩
  | true =>
    obtain ⟨C', e, n, m, st⟩ := engU_flush_again cfg S A0 r.st N C K o he
    exact ⟨C', e, by omega, by show r.nsw + _ = _; omega, by show r.nmis + _ = _; omega, fun h => st (by omega)⟩

theorem engU_run_flushes (cfg : Cfg ρ) (S A0 : Int) : ∀ (drain : List Nat) (r : Run ρ) (b : Bool) (N C : Int) (K : Nat),
    EngU S A0 r.st b N C K →
    ∃ b' C' d, EngU S A0 (run cfg r (flushOps drain)).st b' N C' (K + d) ∧
      (run cfg r (flushOps drain)).out = r.out + d ∧ (run cfg r (flushOps drain)).nsw = r.nsw ∧
      (run cfg r (flushOps drain)).nmis = r.nmis := by
  intro drain
  induction drain with
  | nil => intro r b N C K h; exact ⟨b, C, 0, by simpa [flushOps, run] using h, rfl, rfl, rfl⟩
  | cons x xs ih =>
    intro r b N C K h
    obtain ⟨C1, e1, le1, n1, m1, _⟩ := engU_flush_any cfg S A0 r b N C K x h
    obtain ⟨b2, C2, d2, e2, o2, n2, m2⟩ := ih (stepOp cfg r (.flush x)) true N C1 _ e1
    have hrun : run cfg r (flushOps (x :: xs)) = run cfg (stepOp cfg r (.flush x)) (flushOps xs) := by
      simp [flushOps, run]
    rw [hrun]
    refine ⟨b2, C2, ((stepOp cfg r (.flush x)).out - r.out) + d2, ?_, ?_, ?_, ?_⟩
    · rw [← Nat.add_assoc]; exact e2
    · rw [o2]; omega
    · rw [n2, n1]
    · rw [m2, m1]

/-- **The whole engine, up-sampling stage.**  As `frames_engine_D`, in samples of stage −1 (half input frames): the whole
    input is `2·N` of them. -/
theorem frames_engine_U (cfg : Cfg ρ) (S A0 : Int) (s0 : St ρ) (blocks : List (Nat × Nat)) (drain : List Nat) (o : Nat)
    (h0 : EngU S A0 s0 false 0 0 0)
    (hdr : (run cfg { st := s0 } (procOps blocks ++ flushOps drain ++ [.flush o])).out <
      (run cfg { st := s0 } (procOps blocks ++ flushOps drain)).out + o) :
    let R := run cfg { st := s0 } (procOps blocks ++ flushOps drain ++ [.flush o])
    (0 < R.out → A0 + ((R.out : Int) - 1) * S < 2 * (totalIn blocks : Int) * two32) ∧
    2 * (totalIn blocks : Int) * two32 ≤ A0 + (R.out : Int) * S ∧ R.nsw = 0 ∧ R.nmis = 0 := by
  intro R
  obtain ⟨C1, d1, e1, o1, n1, m1⟩ := engU_run_procs cfg S A0 blocks { st := s0 } 0 0 0 h0
  obtain ⟨b2, C2, d2, e2, o2, n2, m2⟩ := engU_run_flushes cfg S A0 drain (run cfg { st := s0 } (procOps blocks)) false _ C1 _ e1
  rw [← run_append] at e2 o2 n2 m2
  obtain ⟨C3, e3, le3, n3, m3, st3⟩ := engU_flush_any cfg S A0 (run cfg { st := s0 } (procOps blocks ++ flushOps drain)) b2 _ C2 _ o e2
  have hR : R = stepOp cfg (run cfg { st := s0 } (procOps blocks ++ flushOps drain)) (.flush o) := by
    show run cfg _ _ = _
    rw [run_append]; rfl
  rw [← hR] at e3 le3 n3 m3 st3
  have hstuck := st3 hdr
  obtain ⟨_, _, _, _, _, _, hhist, _⟩ := e3
  have hK : 0 + d1 + d2 + (R.out - (run cfg { st := s0 } (procOps blocks ++ flushOps drain)).out) = R.out := by
    rw [o2, o1] at le3 ⊢
    show _ = R.out
    have : ({ st := s0 } : Run ρ).out = 0 := rfl
    omega
  rw [hK] at hhist hstuck
  have hF : 2 * ((0 : Int) + (totalIn blocks : Int) + flushPad true - 240) = 2 * (totalIn blocks : Int) := by
    show 2 * ((0 : Int) + _ + 240 - 240) = _; omega
  rw [hF] at hhist hstuck
  refine ⟨hhist, hstuck, ?_, ?_⟩
  · rw [n3, n2, n1]
  · rw [m3, m2, m1]

theorem init_stg_neg (cfg : Cfg ρ) (mx : ρ) :
    ((init cfg mx).stg (-1)).occ = 0 ∧ ((init cfg mx).stg (-1)).pre = 0 := by
  unfold init St.stg
  simp [stagePreload]

/-- `vr_create(max)` followed by a first `vr_set_io_ratio(r, 0)` that starts on the up-sampling stage -/
theorem engU_init (cfg : Cfg ρ) (mx r : ρ) (hk : (setIoRatio cfg (init cfg mx) r 0).cur.sn = -1)
    (hS : 0 < (setIoRatio cfg (init cfg mx) r 0).cur.step ∧ (setIoRatio cfg (init cfg mx) r 0).cur.step ≤ 8589934592) :
    EngU (setIoRatio cfg (init cfg mx) r 0).cur.step (FRAC (setIoRatio cfg (init cfg mx) r 0).cur.step / 2)
      (setIoRatio cfg (init cfg mx) r 0) false 0 0 0 := by
  have hd : (init cfg mx).defR = some mx := rfl
  have hst : (setIoRatio cfg (init cfg mx) r 0).stages = (init cfg mx).stages := by
    unfold setIoRatio
    simp only [hd, Option.isSome_some, if_true, ne_eq, not_true_eq_false, if_false, enter]
  have hfade : (setIoRatio cfg (init cfg mx) r 0).fade = 0 := by
    unfold setIoRatio
    simp only [hd, Option.isSome_some, if_true, ne_eq, not_true_eq_false, if_false, enter]
    rfl
  have hfl : (setIoRatio cfg (init cfg mx) r 0).fl = 0 := by
    unfold setIoRatio
    simp only [hd, Option.isSome_some, if_true, ne_eq, not_true_eq_false, if_false, enter]
    rfl
  have hclk : (setIoRatio cfg (init cfg mx) r 0).cur.clk =
      INT (init cfg mx).cur.clk * two32 + FRAC (setIoRatio cfg (init cfg mx) r 0).cur.step / 2 := by
    unfold setIoRatio
    simp only [hd, Option.isSome_some, if_true, ne_eq, not_true_eq_false, if_false, enter, enterStream, setStep]
  have hisd : (setIoRatio cfg (init cfg mx) r 0).cur.isD = decide ((setIoRatio cfg (init cfg mx) r 0).cur.sn ≥ 0) := by
    unfold setIoRatio
    simp only [hd, Option.isSome_some, if_true, ne_eq, not_true_eq_false, if_false, enter, enterStream, setStep]
  obtain ⟨z1, _, _, _, z5, z6, z7, _⟩ := setIoRatio_zero_spec cfg (init cfg mx) r
  have hclk0 : (init cfg mx).cur.clk = 0 := rfl
  rw [hclk0] at hclk
  have hINT0 : INT 0 = 0 := by decide
  rw [hINT0, Int.zero_mul, Int.zero_add] at hclk
  have hsize : (setIoRatio cfg (init cfg mx) r 0).stages.size = max (cfg.num.numStages mx) 1 + 1 := by
    rw [hst]; unfold init; simp
  obtain ⟨i0, i1⟩ := init_stg cfg mx 0 (by omega)
  obtain ⟨j0, j1⟩ := init_stg_neg cfg mx
  generalize hs0 : setIoRatio cfg (init cfg mx) r 0 = s0 at *
  have hstg : ∀ j : Int, s0.stg j = (init cfg mx).stg j := fun j => by unfold St.stg; rw [hst]
  refine ⟨⟨⟨z5, z6, hfade, z7, ?_⟩, z1, hk, by rw [hisd, hk]; decide, rfl, ?_, ?_, by rw [hsize]; omega⟩, Int.le_refl _, Int.le_refl _,
    by unfold flushPad; simp; omega, ⟨?_, ?_, ?_, ?_⟩, ?_, fun h => absurd h (by omega), by simp [hfl]⟩
  · unfold InRange; rw [hisd, hk]; simp; exact hS
  · rw [hclk]; unfold FRAC two32; omega
  · rw [hclk]; unfold FRAC two32; omega
  · rw [hstg]; have := i0; rw [show ((0 : Nat) : Int) = 0 from rfl, consts.2.2.1] at this; rw [this]; unfold flushPad; simp
  · rw [hstg]; have := i1; rw [show ((0 : Nat) : Int) = 0 from rfl, consts.2.2.1] at this; exact this
  · rw [hstg, j0]; unfold flushPad; simp
  · rw [hstg, j1]
  · rw [hclk]; simp

/-! ### Draining, up-sampling stage: a large enough flush request drains the engine, and a drained engine delivers nothing more -/

/-- whatever the call sequence (drained or not), the frames delivered stay below the whole input at the engine's rate -/
theorem engU_upper (cfg : Cfg ρ) (S A0 : Int) (s0 : St ρ) (blocks : List (Nat × Nat)) (drain : List Nat)
    (h0 : EngU S A0 s0 false 0 0 0) :
    ∃ b C, EngU S A0 (run cfg { st := s0 } (procOps blocks ++ flushOps drain)).st b (totalIn blocks) C
      (run cfg { st := s0 } (procOps blocks ++ flushOps drain)).out := by
  obtain ⟨C1, d1, e1, o1, _, _⟩ := engU_run_procs cfg S A0 blocks { st := s0 } 0 0 0 h0
  obtain ⟨b2, C2, d2, e2, o2, _, _⟩ := engU_run_flushes cfg S A0 drain (run cfg { st := s0 } (procOps blocks)) false _ C1 _ e1
  rw [← run_append] at e2 o2
  refine ⟨b2, C2, ?_⟩
  have hK : 0 + d1 + d2 = (run cfg { st := s0 } (procOps blocks ++ flushOps drain)).out := by
    rw [o2, o1]
  rw [hK, Int.zero_add] at e2
  exact e2

/-- **Draining.**  After any call sequence, a flush request larger than the whole input at the engine's rate
    (`o·S > 2·N·2³² + S`) cannot be met: that call ends the stream — and then every further flush call returns nothing. -/
theorem engU_drains (cfg : Cfg ρ) (S A0 : Int) (s0 : St ρ) (blocks : List (Nat × Nat)) (drain : List Nat) (o o2 : Nat)
    (h0 : EngU S A0 s0 false 0 0 0) (hA : 0 ≤ A0) (hS : 0 < S) (ho : 2 * (totalIn blocks : Int) * two32 + S < (o : Int) * S) :
    (run cfg { st := s0 } (procOps blocks ++ flushOps drain ++ [.flush o])).out <
      (run cfg { st := s0 } (procOps blocks ++ flushOps drain)).out + o ∧
    (run cfg { st := s0 } (procOps blocks ++ flushOps drain ++ [.flush o] ++ [.flush o2])).out =
      (run cfg { st := s0 } (procOps blocks ++ flushOps drain ++ [.flush o])).out := by
  obtain ⟨b, C, e⟩ := engU_upper cfg S A0 s0 blocks drain h0
  generalize hR' : run cfg { st := s0 } (procOps blocks ++ flushOps drain) = R' at *
  obtain ⟨C3, e3, le3, _, _, st3⟩ := engU_flush_any cfg S A0 R' b _ C _ o e
  have hR : run cfg { st := s0 } (procOps blocks ++ flushOps drain ++ [.flush o]) = stepOp cfg R' (.flush o) := by
    rw [run_append, hR']; rfl
  rw [hR]
  generalize hRR : stepOp cfg R' (.flush o) = R at *
  have hKR : R'.out + (R.out - R'.out) = R.out := by omega
  rw [hKR] at e3 st3
  have hpad : (totalIn blocks : Int) + flushPad true - 240 = (totalIn blocks : Int) := by show _ + 240 - 240 = _; omega
  have hdrained : R.out < R'.out + o := by
    obtain ⟨_, _, _, _, _, _, hhist, _⟩ := e3
    by_cases hz : R.out = 0
    · have : 0 < o := by
        by_cases ho0 : o = 0
        · subst ho0; simp at ho; have : (0 : Int) ≤ 2 * (totalIn blocks : Int) * two32 := by unfold two32; omega
          omega
        · omega
      omega
    · have := hhist (by omega)
      rw [hpad] at this
      have h1 : ((R.out : Int) - 1) * S < (o : Int) * S - S := by omega
      have h2 : ((R.out : Int) - 1) * S < ((o : Int) - 1) * S := by rw [Int.sub_mul (o : Int) 1 S]; omega
      have := Int.lt_of_mul_lt_mul_right h2 (Int.le_of_lt hS)
      omega
  refine ⟨hdrained, ?_⟩
  have hstuck := st3 hdrained
  rw [hpad] at hstuck
  obtain ⟨C4, e4, le4, _, _, _⟩ := engU_flush_any cfg S A0 R true _ C3 _ o2 e3
  have hR2 : run cfg { st := s0 } (procOps blocks ++ flushOps drain ++ [.flush o] ++ [.flush o2]) = stepOp cfg R (.flush o2) := by
    rw [run_append, run_append, hR', ← hRR]; rfl
  rw [hR2]
  generalize stepOp cfg R (.flush o2) = R2 at *
  obtain ⟨_, _, _, _, _, _, hhist4, _⟩ := e4
  by_cases hz : R2.out - R.out = 0
  · omega
  · have := hhist4 (by omega)
    rw [hpad] at this
    have hc : ((R.out + (R2.out - R.out) : Nat) : Int) = (R2.out : Int) := by omega
    rw [hc] at this
    have h2 : ((R2.out : Int) - 1) * S < (R.out : Int) * S := by omega
    have := Int.lt_of_mul_lt_mul_right h2 (Int.le_of_lt hS)
    omega

end Soxr.Vr
