/-
  The constant-rate stage plan as a pipeline of linear stages (area `Signal`; used by C12 and, through the
  implementation period, by C01 / C02).

  * `run` over a list of stages is linear (`run_add`, `run_mul_left`), and the gains folded into the stages'
    coefficient tables factor out as their product (`run_gains`).
  * `handOver` is `_soxr_init`'s treatment of `multiplier` (cr.c): the variable is handed by reference to each
    *designed* stage in pipeline order (pre DFT stage, arbitrary stage, post DFT stage); the first one folds it into its
    coefficients and resets it to 1; half-band stages use static tables and never see it; with no stage at all and a
    gain ≠ 1 a cubic arbitrary stage is forced.  `handOver_once`: the gain sits on exactly one stage; `handOver_prod`:
    the product of the stage gains is the requested gain.
  * `implPeriod` is the plan's *implementation period*: the least input shift that every stage maps to a whole output
    shift (e.g. `÷2` then `2/5` gives (2,10), not (1,5)); `pipeline_cov`: a pipeline of covariant stages is covariant
    at its implementation period.
-/
import SoxrModel.Signal.Linear

namespace Soxr.Signal

namespace Kernel

variable {R : Type*} [CommSemiring R]

/-! ### `run` is linear; gains factor out -/

theorem run_append (A B : List (Kernel R)) (x : ℤ → R) : run (A ++ B) x = run B (run A x) := by
  induction A generalizing x with
  | nil => rfl
  | cons K A ih => exact ih (K.resp x)

theorem run_add (Ks : List (Kernel R)) (x y : ℤ → R) :
    run Ks (fun n => x n + y n) = fun k => run Ks x k + run Ks y k := by
  induction Ks generalizing x y with
  | nil => rfl
  | cons K Ks ih =>
    show run Ks (K.resp fun n => x n + y n) = _
    have : (K.resp fun n => x n + y n) = fun m => K.resp x m + K.resp y m := funext fun m => K.resp_add x y m
    rw [this, ih]
    rfl

theorem run_mul_left (Ks : List (Kernel R)) (a : R) (x : ℤ → R) :
    run Ks (fun n => a * x n) = fun k => a * run Ks x k := by
  induction Ks generalizing x with
  | nil => rfl
  | cons K Ks ih =>
    show run Ks (K.resp fun n => a * x n) = _
    have : (K.resp fun n => a * x n) = fun m => a * K.resp x m := funext fun m => K.resp_mul_left a x m
    rw [this, ih]
    rfl

/-- Stages given as (gain folded into the table, unit-gain kernel): the gains factor out as their product, wherever in
the pipeline they sit. -/
theorem run_gains (st : List (R × Kernel R)) (x : ℤ → R) :
    run (st.map fun p => smul p.1 p.2) x = fun k => (st.map Prod.fst).prod * run (st.map Prod.snd) x k := by
  induction st generalizing x with
  | nil => funext k; simp [run]
  | cons p st ih =>
    show run (st.map fun p => smul p.1 p.2) ((smul p.1 p.2).resp x) = _
    have : (smul p.1 p.2).resp x = fun m => p.1 * p.2.resp x m := funext fun m => p.2.resp_smul p.1 x m
    rw [this, run_mul_left, ih]
    funext k
    show p.1 * ((st.map Prod.fst).prod * run (st.map Prod.snd) (p.2.resp x) k) = _
    rw [List.map_cons, List.prod_cons, mul_assoc]
    rfl

end Kernel

/-! ### The gain hand-over of `_soxr_init` -/

/-- Which designed stages a plan has, and how many half-band decimators precede them. -/
structure Shape where
  shr : ℕ
  pre : Bool
  arb : Bool
  post : Bool
deriving DecidableEq, Repr

namespace Shape

def numStages (s : Shape) : ℕ := s.shr + s.pre.toNat + s.arb.toNat + s.post.toNat

def hasDesigned (s : Shape) : Bool := s.pre || s.arb || s.post

/-- `if (!p->num_stages && multiplier != 1) { bits = arbL = 0; ++p->num_stages; }`: with nothing to carry a non-unit gain,
a cubic arbitrary stage is created for it. -/
def force {R : Type*} [One R] [DecidableEq R] (s : Shape) (m : R) : Shape :=
  if s.numStages = 0 ∧ m ≠ 1 then { s with arb := true } else s

end Shape

/-- One designed stage takes the current value of the variable `multiplier` and resets it to 1 (`*multiplier = 1` in
`dft_stage_init`; `s->mult = multiplier, multiplier = 1` / `prepare_poly_fir_coefs(…, multiplier, …); multiplier = 1`
for the arbitrary stage); an absent stage leaves it alone.  Returns (gain of this stage, value handed on). -/
def takeGain {R : Type*} [One R] (present : Bool) (m : R) : R × R := if present then (m, 1) else (1, m)

/-- (gain of the pre stage, of the arbitrary stage, of the post stage, value left in `multiplier` at the end). -/
def handOver {R : Type*} [One R] (s : Shape) (m : R) : R × R × R × R :=
  let a := takeGain s.pre m
  let b := takeGain s.arb a.2
  let c := takeGain s.post b.2
  (a.1, b.1, c.1, c.2)

/-- The gain sits on exactly one designed stage (the first in pipeline order); without a designed stage it is left over. -/
theorem handOver_once {R : Type*} [One R] (s : Shape) (m : R) :
    (s.pre = true ∧ handOver s m = (m, 1, 1, 1)) ∨
    (s.pre = false ∧ s.arb = true ∧ handOver s m = (1, m, 1, 1)) ∨
    (s.pre = false ∧ s.arb = false ∧ s.post = true ∧ handOver s m = (1, 1, m, 1)) ∨
    (s.hasDesigned = false ∧ handOver s m = (1, 1, 1, m)) := by
  rcases s with ⟨shr, pre, arb, post⟩
  cases pre <;> cases arb <;> cases post <;> simp [handOver, takeGain, Shape.hasDesigned]

/-- With a designed stage the product of the stage gains is the requested gain and nothing is left over. -/
theorem handOver_prod {R : Type*} [CommSemiring R] (s : Shape) (m : R) (h : s.hasDesigned = true) :
    (handOver s m).1 * (handOver s m).2.1 * (handOver s m).2.2.1 = m ∧ (handOver s m).2.2.2 = 1 := by
  rcases s with ⟨shr, pre, arb, post⟩
  cases pre <;> cases arb <;> cases post <;> simp_all [handOver, takeGain, Shape.hasDesigned]

/-- After `force`, a plan either has a designed stage, or has no stage at all and the gain is 1 (the signal is
copied), provided the planner never produces half-band stages alone (hypothesis `hd`, checked on every exported plan). -/
theorem force_carries {R : Type*} [One R] [DecidableEq R] (s : Shape) (m : R)
    (hd : 0 < s.shr → s.hasDesigned = true) :
    (s.force m).hasDesigned = true ∨ ((s.force m).numStages = 0 ∧ m = 1) := by
  unfold Shape.force
  by_cases h : s.numStages = 0 ∧ m ≠ 1
  · left; simp [h, Shape.hasDesigned]
  · rw [if_neg h]
    by_cases hs : s.numStages = 0
    · right
      refine ⟨hs, ?_⟩
      by_contra hm
      exact h ⟨hs, hm⟩
    · left
      rcases s with ⟨shr, pre, arb, post⟩
      cases pre <;> cases arb <;> cases post <;>
        simp_all [Shape.hasDesigned, Shape.numStages]

/-! ### The implementation period -/

/-- Stage rate changes `(Lᵢ, Mᵢ)` (output shift, input shift) in pipeline order ↦ the least period `(L_P, M_P)` that
every stage maps to a whole shift. -/
def implPeriod : List (ℕ × ℕ) → ℕ × ℕ
  | [] => (1, 1)
  | (L, M) :: rest =>
    let p := implPeriod rest
    let c := Nat.lcm L p.2
    (p.1 * (c / p.2), M * (c / L))

namespace Kernel

variable {R : Type*} [CommSemiring R]

/-- A pipeline of covariant stages is covariant at the implementation period of its stage list: a multi-stage plan is
ONE linear periodically time-varying system. -/
theorem pipeline_cov (st : List (Kernel R × ℕ × ℕ)) (h : ∀ t ∈ st, t.1.Cov t.2.1 t.2.2) :
    (pipeline (st.map fun t => t.1)).Cov (implPeriod (st.map fun t => t.2)).1 (implPeriod (st.map fun t => t.2)).2 := by
  induction st with
  | nil =>
    simpa [pipeline, implPeriod] using (one_cov (R := R) 1)
  | cons t st ih =>
    have ih' := ih fun u hu => h u (List.mem_cons_of_mem _ hu)
    have ht := h t List.mem_cons_self
    obtain ⟨K, L, M⟩ := t
    simp only [List.map_cons, pipeline, implPeriod]
    set p := implPeriod (st.map fun t => t.2) with hp
    have hab : ((p.2 : ℕ) : ℤ) * ((Nat.lcm L p.2 / p.2 : ℕ) : ℤ) = (L : ℤ) * ((Nat.lcm L p.2 / L : ℕ) : ℤ) := by
      have e1 : p.2 * (Nat.lcm L p.2 / p.2) = Nat.lcm L p.2 := Nat.mul_div_cancel' (Nat.dvd_lcm_right L p.2)
      have e2 : L * (Nat.lcm L p.2 / L) = Nat.lcm L p.2 := Nat.mul_div_cancel' (Nat.dvd_lcm_left L p.2)
      exact_mod_cast e1.trans e2.symm
    have := Cov.comp ih' ht (Nat.lcm L p.2 / p.2) (Nat.lcm L p.2 / L) hab
    simpa using this

end Kernel

end Soxr.Signal
