/-
  Linear systems with finitely supported rows (area `Signal`; used by C01, C02, C12).

  A constant-rate resampler whose kernels are ring-linear (FIR dot product, DFT block = circular convolution, cubic
  with fixed coefficients per phase) computes, in exact arithmetic,

      y[k] = Σₙ g[k,n] · x[n]            (every row `g[k,·]` finitely supported)

  with coefficients that depend on the output index `k` only, never on the data.  This file is the algebra of such
  systems over an arbitrary commutative (semi)ring:

  * superposition, homogeneity, finite sums, DC gain (`resp_add`, `resp_mul_left`, `resp_sum`, `resp_const`);
  * (L,M)-shift covariance `g[k+L, n+M] = g[k,n]`, globally (`Cov`) and beyond a start-up horizon (`CovFrom`),
    and what it means for signals: delaying the input by `M` delays the output by `L` (`resp_delay`);
  * composition of stages (`comp`): linear again (`resp_comp`), covariant with the aligned / product period
    (`Cov.comp`, `CovFrom.comp`) — which is what makes a multi-stage plan *one* linear periodically time-varying
    system with the plan's implementation period;
  * a gain folded into one stage is a gain of the whole pipeline (`comp_smul_left`, `comp_smul_right`).

  Nothing here knows about floating point: the real kernels satisfy these laws only up to rounding, which is what the
  measurement half of the checks quantifies.
-/
import Mathlib.Algebra.BigOperators.Finsupp.Basic
import Mathlib.Data.Finsupp.SMulWithZero
import Mathlib.Tactic.Ring

namespace Soxr.Signal

open Finset

/-- A linear system `y[k] = Σₙ row k n · x[n]`, every row finitely supported. Indices are integers: `n` counts input
frames and `k` output frames from the start of the stream (negative indices = before the stream). -/
structure Kernel (R : Type*) [CommSemiring R] where
  row : ℤ → ℤ →₀ R

namespace Kernel

variable {R : Type*} [CommSemiring R] (K : Kernel R)

/-- Output frame `k` for input signal `x`. -/
def resp (x : ℤ → R) (k : ℤ) : R := ∑ n ∈ (K.row k).support, K.row k n * x n

/-- Sum of the coefficients of row `k` (the DC gain seen by output frame `k`). -/
def rowSum (k : ℤ) : R := ∑ n ∈ (K.row k).support, K.row k n

theorem resp_eq_sum_of_subset {x : ℤ → R} {k : ℤ} {s : Finset ℤ} (h : (K.row k).support ⊆ s) :
    K.resp x k = ∑ n ∈ s, K.row k n * x n := by
  unfold resp
  refine Finset.sum_subset h (fun n _ hn => ?_)
  rw [Finsupp.notMem_support_iff.mp hn, zero_mul]

/-! ### Linearity in the signal -/

theorem resp_add (x y : ℤ → R) (k : ℤ) : K.resp (fun n => x n + y n) k = K.resp x k + K.resp y k := by
  simp only [resp, mul_add, Finset.sum_add_distrib]

theorem resp_mul_left (a : R) (x : ℤ → R) (k : ℤ) : K.resp (fun n => a * x n) k = a * K.resp x k := by
  simp only [resp, Finset.mul_sum]
  exact Finset.sum_congr rfl fun n _ => by ring

theorem resp_zero (k : ℤ) : K.resp (fun _ => 0) k = 0 := by
  simp [resp]

theorem resp_sum {ι : Type*} (s : Finset ι) (x : ι → ℤ → R) (k : ℤ) :
    K.resp (fun n => ∑ i ∈ s, x i n) k = ∑ i ∈ s, K.resp (x i) k := by
  simp only [resp, Finset.mul_sum]
  exact Finset.sum_comm

/-- Superposition with weights: the response to `Σᵢ aᵢ·xᵢ` is `Σᵢ aᵢ·(response to xᵢ)`. -/
theorem resp_linear_comb {ι : Type*} (s : Finset ι) (a : ι → R) (x : ι → ℤ → R) (k : ℤ) :
    K.resp (fun n => ∑ i ∈ s, a i * x i n) k = ∑ i ∈ s, a i * K.resp (x i) k := by
  rw [resp_sum]
  exact Finset.sum_congr rfl fun i _ => K.resp_mul_left (a i) (x i) k

/-- A constant input `c` gives, at output `k`, `c` times the sum of row `k`. -/
theorem resp_const (c : R) (k : ℤ) : K.resp (fun _ => c) k = c * K.rowSum k := by
  simp only [resp, rowSum, Finset.mul_sum]
  exact Finset.sum_congr rfl fun n _ => by ring

/-- Unity DC gain (every constant is reproduced) ⇔ every row sums to one. -/
theorem dc_unity_iff : (∀ (c : R) (k : ℤ), K.resp (fun _ => c) k = c) ↔ ∀ k, K.rowSum k = 1 := by
  constructor
  · intro h k
    have := h 1 k
    rwa [resp_const, one_mul] at this
  · intro h c k
    rw [resp_const, h k, mul_one]

/-- The response at `k` only looks at the input on the support of row `k`. -/
theorem resp_congr {x y : ℤ → R} {k : ℤ} (h : ∀ n ∈ (K.row k).support, x n = y n) : K.resp x k = K.resp y k := by
  unfold resp
  exact Finset.sum_congr rfl fun n hn => by rw [h n hn]

/-! ### Shift covariance -/

/-- `x` delayed by `d` frames. -/
def delay (d : ℤ) (x : ℤ → R) : ℤ → R := fun n => x (n - d)

/-- (L,M)-shift covariance of the coefficients, everywhere. -/
def Cov (L M : ℤ) : Prop := ∀ k n, K.row (k + L) (n + M) = K.row k n

/-- (L,M)-shift covariance of the rows from output index `k₀` on (beyond the start-up horizon of the pipeline). -/
def CovFrom (L M k₀ : ℤ) : Prop := ∀ k, k₀ ≤ k → ∀ n, K.row (k + L) (n + M) = K.row k n

theorem Cov.covFrom {K : Kernel R} {L M : ℤ} (h : K.Cov L M) (k₀ : ℤ) : K.CovFrom L M k₀ :=
  fun k _ n => h k n

theorem cov_iff_forall_covFrom {L M : ℤ} : K.Cov L M ↔ ∀ k₀, K.CovFrom L M k₀ :=
  ⟨fun h k₀ => h.covFrom k₀, fun h k n => h k k le_rfl n⟩

/-- One covariant row pair: delaying the input by `M` moves output `k` to `k + L`, exactly. -/
theorem resp_delay_of_row {k L M : ℤ} (h : ∀ n, K.row (k + L) (n + M) = K.row k n) (x : ℤ → R) :
    K.resp (delay M x) (k + L) = K.resp x k := by
  unfold resp delay
  refine Finset.sum_nbij' (fun n => n - M) (fun n => n + M) ?_ ?_ ?_ ?_ ?_
  · intro n hn
    rw [Finsupp.mem_support_iff] at hn ⊢
    have e := h (n - M)
    rw [sub_add_cancel] at e
    rwa [← e]
  · intro n hn
    rw [Finsupp.mem_support_iff] at hn ⊢
    rwa [h n]
  · intro n _
    exact sub_add_cancel n M
  · intro n _
    exact add_sub_cancel_right n M
  · intro n _
    have e := h (n - M)
    rw [sub_add_cancel] at e
    rw [e]

theorem CovFrom.resp_delay {K : Kernel R} {L M k₀ : ℤ} (h : K.CovFrom L M k₀) (x : ℤ → R) {k : ℤ} (hk : k₀ ≤ k) :
    K.resp (delay M x) (k + L) = K.resp x k :=
  K.resp_delay_of_row (h k hk) x

theorem Cov.resp_delay {K : Kernel R} {L M : ℤ} (h : K.Cov L M) (x : ℤ → R) (k : ℤ) :
    K.resp (delay M x) (k + L) = K.resp x k :=
  K.resp_delay_of_row (h k) x

/-- Covariance at a period is covariance at every multiple of it. -/
theorem CovFrom.mul_nat {K : Kernel R} {L M k₀ : ℤ} (h : K.CovFrom L M k₀) (hL : 0 ≤ L) (j : ℕ) :
    K.CovFrom (L * j) (M * j) k₀ := by
  induction j with
  | zero => intro k _ n; simp
  | succ j ih =>
    intro k hk n
    have hk' : k₀ ≤ k + L * j := le_add_of_le_of_nonneg hk (Int.mul_nonneg hL (Int.natCast_nonneg j))
    have e1 : k + L * ((j + 1 : ℕ) : ℤ) = k + L * j + L := by push_cast; ring
    have e2 : n + M * ((j + 1 : ℕ) : ℤ) = n + M * j + M := by push_cast; ring
    rw [e1, e2, h _ hk' _, ih k hk n]

theorem Cov.mul_nat {K : Kernel R} {L M : ℤ} (h : K.Cov L M) (j : ℕ) : K.Cov (L * j) (M * j) := by
  induction j with
  | zero => intro k n; simp
  | succ j ih =>
    intro k n
    have e1 : k + L * ((j + 1 : ℕ) : ℤ) = k + L * j + L := by push_cast; ring
    have e2 : n + M * ((j + 1 : ℕ) : ℤ) = n + M * j + M := by push_cast; ring
    rw [e1, e2, h _ _, ih k n]

/-! ### Gain -/

/-- The system with every coefficient multiplied by `a` (a stage that folds the gain into its coefficient table). -/
noncomputable def smul (a : R) (K : Kernel R) : Kernel R where
  row k := a • K.row k

theorem smul_row_apply (a : R) (k n : ℤ) : (smul a K).row k n = a * K.row k n := by
  simp [smul]

theorem resp_smul (a : R) (x : ℤ → R) (k : ℤ) : (smul a K).resp x k = a * K.resp x k := by
  have hs : ((smul a K).row k).support ⊆ (K.row k).support := Finsupp.support_smul
  rw [resp_eq_sum_of_subset _ hs]
  simp only [resp, smul_row_apply, Finset.mul_sum]
  exact Finset.sum_congr rfl fun n _ => by ring

theorem Cov.smul {K : Kernel R} {L M : ℤ} (h : K.Cov L M) (a : R) : (smul a K).Cov L M := by
  intro k n
  rw [smul_row_apply, smul_row_apply, h k n]

theorem CovFrom.smul {K : Kernel R} {L M k₀ : ℤ} (h : K.CovFrom L M k₀) (a : R) : (smul a K).CovFrom L M k₀ := by
  intro k hk n
  rw [smul_row_apply, smul_row_apply, h k hk n]

/-! ### Composition of stages -/

/-- `K₁` followed by `K₂` (the output stream of `K₁` is the input stream of `K₂`). -/
noncomputable def comp (K₂ K₁ : Kernel R) : Kernel R where
  row k := ∑ m ∈ (K₂.row k).support, K₂.row k m • K₁.row m

theorem comp_row_apply (K₂ K₁ : Kernel R) (k n : ℤ) :
    (K₂.comp K₁).row k n = ∑ m ∈ (K₂.row k).support, K₂.row k m * K₁.row m n := by
  simp [comp, Finsupp.finsetSum_apply]

theorem comp_support_subset (K₂ K₁ : Kernel R) (k : ℤ) :
    ((K₂.comp K₁).row k).support ⊆ (K₂.row k).support.biUnion fun m => (K₁.row m).support := by
  unfold comp
  refine (Finsupp.support_finsetSum).trans ?_
  exact Finset.biUnion_mono fun m _ => Finsupp.support_smul

/-- The composed kernel computes the composed map: linear stages compose to a linear system. -/
theorem resp_comp (K₂ K₁ : Kernel R) (x : ℤ → R) (k : ℤ) :
    (K₂.comp K₁).resp x k = K₂.resp (K₁.resp x) k := by
  classical
  set T := (K₂.row k).support.biUnion fun m => (K₁.row m).support with hT
  have hL : (K₂.comp K₁).resp x k = ∑ n ∈ T, (∑ m ∈ (K₂.row k).support, K₂.row k m * K₁.row m n) * x n := by
    rw [resp_eq_sum_of_subset _ (comp_support_subset K₂ K₁ k)]
    exact Finset.sum_congr rfl fun n _ => by rw [comp_row_apply]
  have h1 : ∀ m ∈ (K₂.row k).support, K₁.resp x m = ∑ n ∈ T, K₁.row m n * x n := fun m hm =>
    K₁.resp_eq_sum_of_subset (Finset.subset_biUnion_of_mem (fun m => (K₁.row m).support) hm)
  have hR : K₂.resp (K₁.resp x) k = ∑ m ∈ (K₂.row k).support, K₂.row k m * ∑ n ∈ T, K₁.row m n * x n := by
    show ∑ m ∈ (K₂.row k).support, K₂.row k m * K₁.resp x m = _
    exact Finset.sum_congr rfl fun m hm => by rw [h1 m hm]
  rw [hL, hR]
  simp only [Finset.sum_mul, Finset.mul_sum]
  rw [Finset.sum_comm]
  exact Finset.sum_congr rfl fun m _ => Finset.sum_congr rfl fun n _ => by ring

/-- Row-wise covariance of a composition: if `K₂` maps an input shift `S` to the output shift `P` at row `k`, and
`K₁` maps the input shift `Q` to the output shift `S` on every row that row `k` of `K₂` reads, then the composition maps
`Q` to `P` at row `k`. -/
theorem comp_row_shift (K₂ K₁ : Kernel R) {k n P Q S : ℤ}
    (h₂ : ∀ m, K₂.row (k + P) (m + S) = K₂.row k m)
    (h₁ : ∀ m ∈ (K₂.row k).support, K₁.row (m + S) (n + Q) = K₁.row m n) :
    (K₂.comp K₁).row (k + P) (n + Q) = (K₂.comp K₁).row k n := by
  rw [comp_row_apply, comp_row_apply]
  refine Finset.sum_nbij' (fun m => m - S) (fun m => m + S) ?_ ?_ ?_ ?_ ?_
  · intro m hm
    rw [Finsupp.mem_support_iff] at hm ⊢
    have e := h₂ (m - S)
    rw [sub_add_cancel] at e
    rwa [← e]
  · intro m hm
    rw [Finsupp.mem_support_iff] at hm ⊢
    rwa [h₂ m]
  · intro m _
    exact sub_add_cancel m S
  · intro m _
    exact add_sub_cancel_right m S
  · intro m hm
    have e := h₂ (m - S)
    rw [sub_add_cancel] at e
    have hm' : m - S ∈ (K₂.row k).support := by
      rw [Finsupp.mem_support_iff] at hm ⊢
      rwa [← e]
    have e1 := h₁ (m - S) hm'
    rw [sub_add_cancel] at e1
    rw [e, e1]

/-- Two covariant stages whose periods are aligned (`K₁`'s output shift `L₁·b` is `K₂`'s input shift `M₂·a`) compose
to a covariant system with period `(L₂·a, M₁·b)`. -/
theorem Cov.comp {K₂ K₁ : Kernel R} {L₁ M₁ L₂ M₂ : ℤ} (h₂ : K₂.Cov L₂ M₂) (h₁ : K₁.Cov L₁ M₁) (a b : ℕ)
    (hab : M₂ * a = L₁ * b) : (K₂.comp K₁).Cov (L₂ * a) (M₁ * b) := by
  intro k n
  refine comp_row_shift K₂ K₁ (S := M₂ * a) (fun m => h₂.mul_nat a k m) (fun m _ => ?_)
  rw [hab]
  exact h₁.mul_nat b m n

/-- The product period always works: `(L₂·L₁, M₁·M₂)` (for non-negative `L₁`, `M₂`). -/
theorem Cov.comp_prod {K₂ K₁ : Kernel R} {L₁ M₁ L₂ M₂ : ℕ} (h₂ : K₂.Cov L₂ M₂) (h₁ : K₁.Cov L₁ M₁) :
    (K₂.comp K₁).Cov ((L₂ : ℤ) * L₁) ((M₁ : ℤ) * M₂) :=
  h₂.comp h₁ L₁ M₂ (mul_comm _ _)

/-- The same beyond start-up horizons: `K₁` is covariant from its output index `k₁` on, `K₂` from `k₂` on, and the rows
of `K₂` from `k₂` on read `K₁`'s output only at indices `≥ k₁` (the horizon of a pipeline is where every stage has left
the part of its input stream that the previous stage's discarded pre-ringing would have touched). -/
theorem CovFrom.comp {K₂ K₁ : Kernel R} {L₁ M₁ L₂ M₂ k₁ k₂ : ℤ} (h₂ : K₂.CovFrom L₂ M₂ k₂) (h₁ : K₁.CovFrom L₁ M₁ k₁)
    (hL₁ : 0 ≤ L₁) (hL₂ : 0 ≤ L₂) (a b : ℕ) (hab : M₂ * a = L₁ * b)
    (hreads : ∀ k, k₂ ≤ k → ∀ m ∈ (K₂.row k).support, k₁ ≤ m) :
    (K₂.comp K₁).CovFrom (L₂ * a) (M₁ * b) k₂ := by
  intro k hk n
  refine comp_row_shift K₂ K₁ (S := M₂ * a) (fun m => h₂.mul_nat hL₂ a k hk m) (fun m hm => ?_)
  rw [hab]
  exact h₁.mul_nat hL₁ b m (hreads k hk m hm) n

/-- A gain folded into the second stage is a gain of the whole pipeline … -/
theorem comp_smul_left (a : R) (K₂ K₁ : Kernel R) (x : ℤ → R) (k : ℤ) :
    ((smul a K₂).comp K₁).resp x k = a * (K₂.comp K₁).resp x k := by
  rw [resp_comp, resp_smul, resp_comp]

/-- … and so is a gain folded into the first stage: it does not matter which single stage carries it. -/
theorem comp_smul_right (a : R) (K₂ K₁ : Kernel R) (x : ℤ → R) (k : ℤ) :
    (K₂.comp (smul a K₁)).resp x k = a * (K₂.comp K₁).resp x k := by
  rw [resp_comp, resp_comp]
  have : (smul a K₁).resp x = fun m => a * K₁.resp x m := funext fun m => K₁.resp_smul a x m
  rw [this, resp_mul_left]

/-- The identity system (an absent stage). -/
noncomputable def one : Kernel R where
  row k := Finsupp.single k 1

theorem resp_one [Nontrivial R] (x : ℤ → R) (k : ℤ) : (one : Kernel R).resp x k = x k := by
  simp [resp, one, Finsupp.support_single]

theorem one_cov (L : ℤ) : (one : Kernel R).Cov L L := by
  intro k n
  simp only [one, Finsupp.single_apply]
  by_cases h : k = n
  · simp [h]
  · have : ¬ (k + L = n + L) := fun e => h (add_right_cancel e)
    simp [h, this]

/-- A pipeline: the head of the list is the first stage the signal passes through. -/
noncomputable def pipeline : List (Kernel R) → Kernel R
  | [] => one
  | K :: Ks => (pipeline Ks).comp K

/-- The stream after the stages of the list, applied in order. -/
def run : List (Kernel R) → (ℤ → R) → (ℤ → R)
  | [], x => x
  | K :: Ks, x => run Ks (K.resp x)

theorem resp_pipeline [Nontrivial R] (Ks : List (Kernel R)) (x : ℤ → R) : (pipeline Ks).resp x = run Ks x := by
  induction Ks generalizing x with
  | nil => funext k; simp [pipeline, run, resp_one]
  | cons K Ks ih =>
    funext k
    rw [pipeline, resp_comp, ih]
    rfl

end Kernel

end Soxr.Signal
