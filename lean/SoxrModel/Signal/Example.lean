/-
  A concrete small covariant kernel for the non-vacuity examples of C01 / C02 / C12: the two-tap linear interpolator
  that doubles the rate (L = 2, M = 1):  y[2j] = x[j],  y[2j+1] = (x[j] + x[j+1]) / 2.
-/
import SoxrModel.Signal.Tone

namespace Soxr.Signal

open Finset

variable (𝕜 : Type*) [Field 𝕜]

/-- The ×2 linear interpolator. -/
noncomputable def interp2 : Kernel 𝕜 where
  row k := if k % 2 = 0 then Finsupp.single (k / 2) 1
           else Finsupp.single ((k - 1) / 2) (2⁻¹ : 𝕜) + Finsupp.single ((k + 1) / 2) (2⁻¹ : 𝕜)

variable {𝕜}

theorem interp2_resp (x : ℤ → 𝕜) (k : ℤ) :
    (interp2 𝕜).resp x k = if k % 2 = 0 then x (k / 2) else 2⁻¹ * x ((k - 1) / 2) + 2⁻¹ * x ((k + 1) / 2) := by
  show ((interp2 𝕜).row k).sum (fun n c => c * x n) = _
  unfold interp2
  by_cases h : k % 2 = 0
  · simp only [h, if_true]
    rw [Finsupp.sum_single_index (zero_mul _), one_mul]
  · simp only [h, if_false]
    rw [Finsupp.sum_add_index' (fun n => zero_mul _) (fun n a b => add_mul a b _),
      Finsupp.sum_single_index (zero_mul _), Finsupp.sum_single_index (zero_mul _)]

/-- It is (2,1)-shift covariant, everywhere. -/
theorem interp2_cov : (interp2 𝕜).Cov 2 1 := by
  intro k n
  have e0 : (k + 2) % 2 = k % 2 := by omega
  have e1 : (k + 2) / 2 = k / 2 + 1 := by omega
  have e2 : (k + 2 - 1) / 2 = (k - 1) / 2 + 1 := by omega
  have e3 : (k + 2 + 1) / 2 = (k + 1) / 2 + 1 := by omega
  unfold interp2
  simp only [e0, e1, e2, e3]
  by_cases h : k % 2 = 0
  · simp only [h, if_true, Finsupp.single_apply, add_left_inj]
  · simp only [h, if_false, Finsupp.add_apply, Finsupp.single_apply, add_left_inj]

/-- A constant is reproduced exactly (every row sums to one) when `2 ≠ 0`. -/
theorem interp2_const (h2 : (2 : 𝕜) ≠ 0) (c : 𝕜) (k : ℤ) : (interp2 𝕜).resp (fun _ => c) k = c := by
  rw [interp2_resp]
  split
  · rfl
  · field_simp
    ring

theorem interp2_rowSum (h2 : (2 : 𝕜) ≠ 0) (k : ℤ) : (interp2 𝕜).rowSum k = 1 :=
  ((interp2 𝕜).dc_unity_iff.mp fun c k => interp2_const h2 c k) k

end Soxr.Signal
