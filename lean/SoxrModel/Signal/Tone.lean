/-
  Tone response of an (L,M)-shift-covariant linear system (area `Signal`; used by C01 and C02).

  For the tone `x[n] = zⁿ` the response satisfies `y[k+L] = z^M · y[k]` (`tone_step`).  If `w` is the same
  continuous-time tone at the output rate (`w^L = z^M`), the modulation `c[k] = y[k] / w^k` (`coef`) is L-periodic
  beyond the start-up horizon (`coef_periodic`), so

      y[k] = c[k₀ + (k − k₀) mod L] · w^k          (`tone_response`)

  — `L` numbers per frequency, each a finite Fourier sum of one row.  Consequently, for `|w| = 1`,

      |y[k] − G·w^k| = |c[k₀ + (k − k₀) mod L] − G|    for EVERY k ≥ k₀   (`tone_error_eq`)

  the error of a tone over the whole stream is decided by one period (`tone_error_le_iff`, `tone_error_sup_attained`);
  by superposition every finite sum of tones obeys the amplitude-weighted bound (`tones_error_le`); stop-band tones are
  bounded by `max_r |c_r|` (`tones_level_le`); and every image / alias line of the period (a zero-sum, unimodular
  weighting of `c`) is bounded by `max_r |c_r − G|` (`image_line_le`).  No coprimality of `L` and `M` is needed.
-/
import SoxrModel.Signal.Linear
import Mathlib.Analysis.Normed.Field.Basic
import Mathlib.Tactic.Linarith
import Mathlib.Data.Int.Interval

namespace Soxr.Signal

open Finset

/-- A sequence that is `L`-periodic from `k₀` on takes, at every index beyond `k₀`, one of its `L` values on the
first period `k₀ … k₀ + L − 1`. -/
theorem eq_mod_of_periodic_from {α : Type*} (f : ℤ → α) {L k₀ : ℤ} (hL : 0 < L)
    (h : ∀ k, k₀ ≤ k → f (k + L) = f k) {k : ℤ} (hk : k₀ ≤ k) : f k = f (k₀ + (k - k₀) % L) := by
  have hstep : ∀ (j : ℕ) (k' : ℤ), k₀ ≤ k' → f (k' + L * j) = f k' := by
    intro j
    induction j with
    | zero => intro k' _; simp
    | succ j ih =>
      intro k' hk'
      have hk'' : k₀ ≤ k' + L * j := le_add_of_le_of_nonneg hk' (Int.mul_nonneg (le_of_lt hL) (Int.natCast_nonneg j))
      have e : k' + L * ((j + 1 : ℕ) : ℤ) = k' + L * j + L := by push_cast; ring
      rw [e, h _ hk'', ih k' hk']
  have hr0 : 0 ≤ (k - k₀) % L := Int.emod_nonneg _ (ne_of_gt hL)
  have hq0 : 0 ≤ (k - k₀) / L := Int.ediv_nonneg (sub_nonneg.mpr hk) (le_of_lt hL)
  have hdecomp : k = (k₀ + (k - k₀) % L) + L * (((k - k₀) / L).toNat : ℤ) := by
    rw [Int.toNat_of_nonneg hq0]
    have := Int.emod_add_mul_ediv (k - k₀) L
    linarith
  have hk₁ : k₀ ≤ k₀ + (k - k₀) % L := le_add_of_nonneg_right hr0
  calc f k = f ((k₀ + (k - k₀) % L) + L * (((k - k₀) / L).toNat : ℤ)) := by rw [← hdecomp]
    _ = f (k₀ + (k - k₀) % L) := hstep _ _ hk₁

namespace Kernel

section Algebra

variable {𝕜 : Type*} [Field 𝕜] (K : Kernel 𝕜)

/-- The two-sided complex tone `x[n] = zⁿ`. -/
def tone (z : 𝕜) : ℤ → 𝕜 := fun n => z ^ n

theorem tone_eq_mul_delay {z : 𝕜} (hz : z ≠ 0) (M : ℤ) : tone z = fun n => z ^ M * delay M (tone z) n := by
  funext n
  simp only [tone, delay]
  rw [← zpow_add₀ hz]
  congr 1
  ring

/-- One covariant row pair: the tone response advances by the factor `z^M` over `L` output frames. -/
theorem tone_step_of_row {k L M : ℤ} (h : ∀ n, K.row (k + L) (n + M) = K.row k n) {z : 𝕜} (hz : z ≠ 0) :
    K.resp (tone z) (k + L) = z ^ M * K.resp (tone z) k := by
  calc K.resp (tone z) (k + L) = K.resp (fun n => z ^ M * delay M (tone z) n) (k + L) := by
        rw [← tone_eq_mul_delay hz M]
    _ = z ^ M * K.resp (delay M (tone z)) (k + L) := K.resp_mul_left _ _ _
    _ = z ^ M * K.resp (tone z) k := by rw [K.resp_delay_of_row h]

theorem CovFrom.tone_step {K : Kernel 𝕜} {L M k₀ : ℤ} (h : K.CovFrom L M k₀) {z : 𝕜} (hz : z ≠ 0) {k : ℤ}
    (hk : k₀ ≤ k) : K.resp (tone z) (k + L) = z ^ M * K.resp (tone z) k :=
  K.tone_step_of_row (h k hk) hz

theorem Cov.tone_step {K : Kernel 𝕜} {L M : ℤ} (h : K.Cov L M) {z : 𝕜} (hz : z ≠ 0) (k : ℤ) :
    K.resp (tone z) (k + L) = z ^ M * K.resp (tone z) k :=
  K.tone_step_of_row (h k) hz

/-- The modulation of the tone response by the output-rate tone `w`: `c[k] = y[k] / w^k`.
Written out, `c[k] = w^{-k} · Σₙ g[k,n]·zⁿ`: a finite Fourier sum of row `k`. -/
def coef (z w : 𝕜) (k : ℤ) : 𝕜 := (w ^ k)⁻¹ * K.resp (tone z) k

theorem coef_eq_sum (z w : 𝕜) (k : ℤ) :
    K.coef z w k = (w ^ k)⁻¹ * ∑ n ∈ (K.row k).support, K.row k n * z ^ n := rfl

theorem resp_tone_eq {z w : 𝕜} (hw : w ≠ 0) (k : ℤ) : K.resp (tone z) k = K.coef z w k * w ^ k := by
  unfold coef
  have : w ^ k ≠ 0 := zpow_ne_zero _ hw
  field_simp

/-- Beyond the horizon the modulation is L-periodic. -/
theorem CovFrom.coef_periodic {K : Kernel 𝕜} {L M k₀ : ℤ} (h : K.CovFrom L M k₀) {z w : 𝕜} (hz : z ≠ 0) (hw : w ≠ 0)
    (hwz : w ^ L = z ^ M) {k : ℤ} (hk : k₀ ≤ k) : K.coef z w (k + L) = K.coef z w k := by
  unfold coef
  rw [h.tone_step hz hk, zpow_add₀ hw, hwz]
  have h1 : w ^ k ≠ 0 := zpow_ne_zero _ hw
  have h2 : z ^ M ≠ 0 := zpow_ne_zero _ hz
  field_simp

theorem CovFrom.coef_add_mul {K : Kernel 𝕜} {L M k₀ : ℤ} (h : K.CovFrom L M k₀) (hL : 0 ≤ L) {z w : 𝕜} (hz : z ≠ 0)
    (hw : w ≠ 0) (hwz : w ^ L = z ^ M) {k : ℤ} (hk : k₀ ≤ k) (j : ℕ) : K.coef z w (k + L * j) = K.coef z w k := by
  induction j with
  | zero => simp
  | succ j ih =>
    have hk' : k₀ ≤ k + L * j := le_add_of_le_of_nonneg hk (Int.mul_nonneg hL (Int.natCast_nonneg j))
    have e : k + L * ((j + 1 : ℕ) : ℤ) = k + L * j + L := by push_cast; ring
    rw [e, h.coef_periodic hz hw hwz hk', ih]

/-- Every output index beyond the horizon has its modulation coefficient in the first period after the horizon. -/
theorem CovFrom.coef_eq_mod {K : Kernel 𝕜} {L M k₀ : ℤ} (h : K.CovFrom L M k₀) (hL : 0 < L) {z w : 𝕜} (hz : z ≠ 0)
    (hw : w ≠ 0) (hwz : w ^ L = z ^ M) {k : ℤ} (hk : k₀ ≤ k) :
    K.coef z w k = K.coef z w (k₀ + (k - k₀) % L) :=
  eq_mod_of_periodic_from (K.coef z w) hL (fun _ hk' => h.coef_periodic hz hw hwz hk') hk

/-- **Tone response.** Beyond the horizon, `y[k] = c[k₀ + (k − k₀) mod L] · w^k`. -/
theorem CovFrom.tone_response {K : Kernel 𝕜} {L M k₀ : ℤ} (h : K.CovFrom L M k₀) (hL : 0 < L) {z w : 𝕜} (hz : z ≠ 0)
    (hw : w ≠ 0) (hwz : w ^ L = z ^ M) {k : ℤ} (hk : k₀ ≤ k) :
    K.resp (tone z) k = K.coef z w (k₀ + (k - k₀) % L) * w ^ k := by
  rw [K.resp_tone_eq hw k, h.coef_eq_mod hL hz hw hwz hk]

/-- Globally covariant system: `y[k] = c[k mod L] · w^k` for every integer `k`. -/
theorem Cov.tone_response {K : Kernel 𝕜} {L M : ℤ} (h : K.Cov L M) (hL : 0 < L) {z w : 𝕜} (hz : z ≠ 0) (hw : w ≠ 0)
    (hwz : w ^ L = z ^ M) (k : ℤ) : K.resp (tone z) k = K.coef z w (k % L) * w ^ k := by
  -- use the horizon `k₀ = L * (k / L)`, a multiple of `L` below `k`
  have hk : L * (k / L) ≤ k := by
    have := Int.emod_add_mul_ediv k L
    have := Int.emod_nonneg k (ne_of_gt hL)
    linarith
  have e1 := (h.covFrom (L * (k / L))).tone_response hL hz hw hwz hk
  have hmod : (k - L * (k / L)) % L = k % L := by
    rw [Int.sub_mul_emod_self_left]
  have hcoef : K.coef z w (L * (k / L) + k % L) = K.coef z w (k % L) := by
    have hcov0 : K.CovFrom L M (k % L) := h.covFrom _
    rcases Int.le_total 0 (k / L) with hq | hq
    · have := hcov0.coef_add_mul (le_of_lt hL) hz hw hwz (le_refl (k % L)) (k / L).toNat
      rw [Int.toNat_of_nonneg hq] at this
      rw [add_comm, this]
    · -- negative quotient: walk up from the lower index
      have hcov1 : K.CovFrom L M (L * (k / L) + k % L) := h.covFrom _
      have := hcov1.coef_add_mul (le_of_lt hL) hz hw hwz (le_refl _) (-(k / L)).toNat
      rw [Int.toNat_of_nonneg (neg_nonneg.mpr hq)] at this
      rw [← this]
      congr 1
      ring
  rw [e1, hmod, hcoef]

end Algebra

section Norm

variable {𝕜 : Type*} [NormedField 𝕜] (K : Kernel 𝕜)

theorem norm_zpow_of_norm_one {w : 𝕜} (hw1 : ‖w‖ = 1) (k : ℤ) : ‖w ^ k‖ = 1 := by
  rw [norm_zpow, hw1, one_zpow]

theorem ne_zero_of_norm_one {w : 𝕜} (hw1 : ‖w‖ = 1) : w ≠ 0 := by
  intro h
  rw [h, norm_zero] at hw1
  exact zero_ne_one hw1

/-- The deviation of the tone response from `G·w^k` at output `k` IS the deviation of the modulation coefficient. -/
theorem tone_error_eq_coef {z w : 𝕜} (hw1 : ‖w‖ = 1) (G : 𝕜) (k : ℤ) :
    ‖K.resp (tone z) k - G * w ^ k‖ = ‖K.coef z w k - G‖ := by
  rw [K.resp_tone_eq (ne_zero_of_norm_one hw1) k, ← sub_mul, norm_mul, norm_zpow_of_norm_one hw1, mul_one]

/-- … and beyond the horizon that coefficient is one of the `L` coefficients of the first period. -/
theorem CovFrom.tone_error_eq {K : Kernel 𝕜} {L M k₀ : ℤ} (h : K.CovFrom L M k₀) (hL : 0 < L) {z w : 𝕜}
    (hz1 : ‖z‖ = 1) (hw1 : ‖w‖ = 1) (hwz : w ^ L = z ^ M) (G : 𝕜) {k : ℤ} (hk : k₀ ≤ k) :
    ‖K.resp (tone z) k - G * w ^ k‖ = ‖K.coef z w (k₀ + (k - k₀) % L) - G‖ := by
  rw [K.tone_error_eq_coef hw1 G k,
    h.coef_eq_mod hL (ne_zero_of_norm_one hz1) (ne_zero_of_norm_one hw1) hwz hk]

/-- **The error of a tone over the whole stream is decided by one period.** -/
theorem CovFrom.tone_error_le_iff {K : Kernel 𝕜} {L M k₀ : ℤ} (h : K.CovFrom L M k₀) (hL : 0 < L) {z w : 𝕜}
    (hz1 : ‖z‖ = 1) (hw1 : ‖w‖ = 1) (hwz : w ^ L = z ^ M) (G : 𝕜) (ε : ℝ) :
    (∀ k, k₀ ≤ k → ‖K.resp (tone z) k - G * w ^ k‖ ≤ ε) ↔
      (∀ r, 0 ≤ r → r < L → ‖K.coef z w (k₀ + r) - G‖ ≤ ε) := by
  constructor
  · intro H r hr0 _
    have hk : k₀ ≤ k₀ + r := le_add_of_nonneg_right hr0
    have := H (k₀ + r) hk
    rwa [K.tone_error_eq_coef hw1 G] at this
  · intro H k hk
    rw [h.tone_error_eq hL hz1 hw1 hwz G hk]
    exact H _ (Int.emod_nonneg _ (ne_of_gt hL)) (Int.emod_lt_of_pos _ hL)

/-- `sup_k |y[k] − G·w^k| = max_r |c_r − G|`, and the supremum is attained within the first period. -/
theorem CovFrom.tone_error_sup_attained {K : Kernel 𝕜} {L M k₀ : ℤ} (h : K.CovFrom L M k₀) (hL : 0 < L) {z w : 𝕜}
    (hz1 : ‖z‖ = 1) (hw1 : ‖w‖ = 1) (hwz : w ^ L = z ^ M) (G : 𝕜) :
    ∃ r, 0 ≤ r ∧ r < L ∧ ∀ k, k₀ ≤ k →
      ‖K.resp (tone z) k - G * w ^ k‖ ≤ ‖K.resp (tone z) (k₀ + r) - G * w ^ (k₀ + r)‖ := by
  obtain ⟨r, hr, hmax⟩ := Finset.exists_max_image (Finset.Ico (0 : ℤ) L) (fun r => ‖K.coef z w (k₀ + r) - G‖)
    ⟨0, Finset.mem_Ico.mpr ⟨le_rfl, hL⟩⟩
  rw [Finset.mem_Ico] at hr
  refine ⟨r, hr.1, hr.2, fun k hk => ?_⟩
  rw [h.tone_error_eq hL hz1 hw1 hwz G hk, K.tone_error_eq_coef hw1 G (k₀ + r)]
  exact hmax _ (Finset.mem_Ico.mpr ⟨Int.emod_nonneg _ (ne_of_gt hL), Int.emod_lt_of_pos _ hL⟩)

/-- **Superposition of tones.** For every finite family of tones `zᵢ` with arbitrary complex amplitudes `aᵢ`, if
the `L` coefficients of each tone deviate from `Gᵢ` by at most `εᵢ`, the output deviates from `Σ aᵢ·Gᵢ·wᵢ^k` by at most
`Σ |aᵢ|·εᵢ` at EVERY output index beyond the horizon. -/
theorem CovFrom.tones_error_le {K : Kernel 𝕜} {L M k₀ : ℤ} (h : K.CovFrom L M k₀) (hL : 0 < L) {ι : Type*}
    (s : Finset ι) (a z w G : ι → 𝕜) (ε : ι → ℝ)
    (hz1 : ∀ i ∈ s, ‖z i‖ = 1) (hw1 : ∀ i ∈ s, ‖w i‖ = 1) (hwz : ∀ i ∈ s, w i ^ L = z i ^ M)
    (hε : ∀ i ∈ s, ∀ r, 0 ≤ r → r < L → ‖K.coef (z i) (w i) (k₀ + r) - G i‖ ≤ ε i) {k : ℤ} (hk : k₀ ≤ k) :
    ‖K.resp (fun n => ∑ i ∈ s, a i * tone (z i) n) k - ∑ i ∈ s, a i * (G i * w i ^ k)‖ ≤ ∑ i ∈ s, ‖a i‖ * ε i := by
  rw [K.resp_linear_comb, ← Finset.sum_sub_distrib]
  refine (norm_sum_le _ _).trans (Finset.sum_le_sum fun i hi => ?_)
  rw [← mul_sub, norm_mul]
  refine mul_le_mul_of_nonneg_left ?_ (norm_nonneg _)
  exact (h.tone_error_le_iff hL (hz1 i hi) (hw1 i hi) (hwz i hi) (G i) (ε i)).mpr (hε i hi) k hk

/-- **Stop-band form** (`G = 0`): the output level of a finite sum of tones is at most `Σ |aᵢ|·max_r |c_r(zᵢ)|`. -/
theorem CovFrom.tones_level_le {K : Kernel 𝕜} {L M k₀ : ℤ} (h : K.CovFrom L M k₀) (hL : 0 < L) {ι : Type*}
    (s : Finset ι) (a z w : ι → 𝕜) (ε : ι → ℝ)
    (hz1 : ∀ i ∈ s, ‖z i‖ = 1) (hw1 : ∀ i ∈ s, ‖w i‖ = 1) (hwz : ∀ i ∈ s, w i ^ L = z i ^ M)
    (hε : ∀ i ∈ s, ∀ r, 0 ≤ r → r < L → ‖K.coef (z i) (w i) (k₀ + r)‖ ≤ ε i) {k : ℤ} (hk : k₀ ≤ k) :
    ‖K.resp (fun n => ∑ i ∈ s, a i * tone (z i) n) k‖ ≤ ∑ i ∈ s, ‖a i‖ * ε i := by
  have := h.tones_error_le hL s a z w (fun _ => 0) ε hz1 hw1 hwz
    (fun i hi r hr0 hrL => by simpa using hε i hi r hr0 hrL) hk
  simpa using this

/-- The output LEVEL of a tone is L-periodic beyond the horizon, whatever the output frequency is called. -/
theorem CovFrom.tone_level_eq_mod {K : Kernel 𝕜} {L M k₀ : ℤ} (h : K.CovFrom L M k₀) (hL : 0 < L) {z : 𝕜}
    (hz1 : ‖z‖ = 1) {k : ℤ} (hk : k₀ ≤ k) :
    ‖K.resp (tone z) k‖ = ‖K.resp (tone z) (k₀ + (k - k₀) % L)‖ :=
  eq_mod_of_periodic_from (fun k => ‖K.resp (tone z) k‖) hL
    (fun k' hk' => by
      show ‖K.resp (tone z) (k' + L)‖ = ‖K.resp (tone z) k'‖
      rw [h.tone_step (ne_zero_of_norm_one hz1) hk', norm_mul, norm_zpow_of_norm_one hz1, one_mul]) hk

/-- **Stop-band form**: the level of a tone over the whole stream is decided by one period. -/
theorem CovFrom.tone_level_le_iff {K : Kernel 𝕜} {L M k₀ : ℤ} (h : K.CovFrom L M k₀) (hL : 0 < L) {z : 𝕜}
    (hz1 : ‖z‖ = 1) (ε : ℝ) :
    (∀ k, k₀ ≤ k → ‖K.resp (tone z) k‖ ≤ ε) ↔ (∀ r, 0 ≤ r → r < L → ‖K.resp (tone z) (k₀ + r)‖ ≤ ε) := by
  constructor
  · intro H r hr0 _
    exact H (k₀ + r) (le_add_of_nonneg_right hr0)
  · intro H k hk
    rw [h.tone_level_eq_mod hL hz1 hk]
    exact H _ (Int.emod_nonneg _ (ne_of_gt hL)) (Int.emod_lt_of_pos _ hL)

/-- The output level of every finite sum of tones is at most `Σ |aᵢ|·max_r |y_{zᵢ}[k₀ + r]|`, at every output index
beyond the horizon. -/
theorem CovFrom.tones_level_le' {K : Kernel 𝕜} {L M k₀ : ℤ} (h : K.CovFrom L M k₀) (hL : 0 < L) {ι : Type*}
    (s : Finset ι) (a z : ι → 𝕜) (ε : ι → ℝ) (hz1 : ∀ i ∈ s, ‖z i‖ = 1)
    (hε : ∀ i ∈ s, ∀ r, 0 ≤ r → r < L → ‖K.resp (tone (z i)) (k₀ + r)‖ ≤ ε i) {k : ℤ} (hk : k₀ ≤ k) :
    ‖K.resp (fun n => ∑ i ∈ s, a i * tone (z i) n) k‖ ≤ ∑ i ∈ s, ‖a i‖ * ε i := by
  rw [K.resp_linear_comb]
  refine (norm_sum_le _ _).trans (Finset.sum_le_sum fun i hi => ?_)
  rw [norm_mul]
  refine mul_le_mul_of_nonneg_left ?_ (norm_nonneg _)
  exact (h.tone_level_le_iff hL (hz1 i hi) (ε i)).mpr (hε i hi) k hk

/-- **Image / alias lines.** Within one period the sequence `c_r` decomposes into its mean (the gain at the wanted
frequency) and `L − 1` further lines (the images when up-sampling, the aliases when down-sampling); each line is a
weighting of `c` by unimodular weights that sum to zero (`u_r = ζ^{-mr}/L`·L).  Every such line is bounded by the
deviation of the period from ANY constant `G`:  `|Σ_r c_r·u_r| ≤ L · max_r |c_r − G|`. -/
theorem image_line_le {ι : Type*} (s : Finset ι) (c u : ι → 𝕜) (G : 𝕜) (ε : ℝ)
    (hu0 : ∑ r ∈ s, u r = 0) (hu1 : ∀ r ∈ s, ‖u r‖ ≤ 1) (hc : ∀ r ∈ s, ‖c r - G‖ ≤ ε) :
    ‖∑ r ∈ s, c r * u r‖ ≤ s.card * ε := by
  have e : ∑ r ∈ s, c r * u r = ∑ r ∈ s, (c r - G) * u r := by
    simp only [sub_mul, Finset.sum_sub_distrib, ← Finset.mul_sum, hu0, mul_zero, sub_zero]
  rw [e]
  refine (norm_sum_le _ _).trans ?_
  have : ∀ r ∈ s, ‖(c r - G) * u r‖ ≤ ε := fun r hr => by
    rw [norm_mul]
    have h0 : 0 ≤ ‖c r - G‖ := norm_nonneg _
    calc ‖c r - G‖ * ‖u r‖ ≤ ‖c r - G‖ * 1 := mul_le_mul_of_nonneg_left (hu1 r hr) h0
      _ ≤ ε := by rw [mul_one]; exact hc r hr
  calc ∑ r ∈ s, ‖(c r - G) * u r‖ ≤ ∑ _r ∈ s, ε := Finset.sum_le_sum this
    _ = s.card * ε := by rw [Finset.sum_const, nsmul_eq_mul]

end Norm

end Kernel

end Soxr.Signal
