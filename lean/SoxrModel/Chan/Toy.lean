import SoxrModel.Chan.Lemmas
/-!
# A concrete engine and concrete conversions for the executable tie (and for non-vacuity)

`harness/chan/api.c` plugs the SAME toy engine (as C code, through `control_block`) under the real `soxr.c` / `data-io.c`;
the driver `soxr_chan` runs the model over it.  Samples are integers in units of 1/32768 of full scale, so every datatype
conversion of the real code is exact and the caller-visible samples can be compared as integers.

Toy engine: `input` queues samples; `process n` runs rounds while fewer than `n` outputs are queued and input is left
(`m` samples per round, or what is left once flushing): a round consumes `k = min m (#queued)` samples `b` and queues `l`
outputs `scale · b[j mod k]`; `output n` hands over at most `n` queued outputs.  Counts never depend on values.

Conversions (`toyCout`), per output datatype as `data-io.c` / `rint-clip.h` do on integer-valued samples:
float32/float64: identity; int32: ×65536, saturate at ±2³¹ (count); int16: saturate at ±2¹⁵ (count); int16 with dither:
`rint-clip.h`'s LCG (`seed = 1664525·seed + 1013904223` on `unsigned long`), two draws per block of 16 and two for the
tail, `(ran1 >>= 3) & 31` / `(ran2 >>= 3) & 31` per sample, difference/32 added, x87 round-half-even, saturate.
-/
namespace Soxr.Chan.Toy

structure TE where
  inq : List Int
  outq : List Int
  fl : Bool
  m : Nat
  l : Nat
  scale : Nat

def round1 (e : TE) : TE :=
  let k := min (max e.m 1) e.inq.length
  let blk := e.inq.take k
  { e with inq := e.inq.drop k,
           outq := e.outq ++ (List.range e.l).map (fun j => (blk.getD (j % k) 0) * (e.scale : Int)) }

def wants (e : TE) (n : Nat) : Bool := e.outq.length < n && e.inq.length != 0 && (max e.m 1 ≤ e.inq.length || e.fl)

def loop : Nat → TE → Nat → TE
  | 0, e, _ => e
  | fuel + 1, e, n => if wants e n then loop fuel (round1 e) n else e

def engine (m l scale : Nat) : Engine TE Int where
  init := { inq := [], outq := [], fl := false, m := m, l := l, scale := scale }
  input := fun e xs => { e with inq := e.inq ++ xs }
  flush := fun e => { e with fl := true }
  process := fun e n => loop e.inq.length e n
  output := fun e n => (e.outq.take n, { e with outq := e.outq.drop n })
  setRatio := fun e r _ => { e with m := r / 16, l := r % 16 }
  delay := fun e => e.inq.length + e.outq.length + (if e.fl then 1000 else 0)   -- the flush latch shows in soxr_delay

/-! ### the count abstraction of the toy engine -/

structure TK where
  i : Nat
  o : Nat
  fl : Bool
  m : Nat
  l : Nat
  deriving DecidableEq

def sh (e : TE) : TK := { i := e.inq.length, o := e.outq.length, fl := e.fl, m := e.m, l := e.l }

def round1K (k : TK) : TK := { k with i := k.i - min (max k.m 1) k.i, o := k.o + k.l }
def wantsK (k : TK) (n : Nat) : Bool := k.o < n && k.i != 0 && (max k.m 1 ≤ k.i || k.fl)
def loopK : Nat → TK → Nat → TK
  | 0, k, _ => k
  | fuel + 1, k, n => if wantsK k n then loopK fuel (round1K k) n else k

theorem sh_round1 (e : TE) : sh (round1 e) = round1K (sh e) := by
  simp [sh, round1, round1K]

theorem wants_sh (e : TE) (n : Nat) : wants e n = wantsK (sh e) n := rfl

theorem sh_loop (fuel : Nat) : ∀ (e : TE) (n : Nat), sh (loop fuel e n) = loopK fuel (sh e) n := by
  induction fuel with
  | zero => intro e n; rfl
  | succ f ih =>
    intro e n
    have hw := wants_sh e n
    simp only [loop, loopK]
    cases hk : wantsK (sh e) n
    · rw [hk] at hw; simp [hw]
    · rw [hk] at hw; simp [hw, ih, sh_round1]

def shape (m l scale : Nat) : Shape (engine m l scale) TK where
  sh := sh
  inputK := fun k n => { k with i := k.i + n }
  flushK := fun k => { k with fl := true }
  processK := fun k n => loopK k.i k n
  outLen := fun k n => min n k.o
  outputK := fun k n => { k with o := k.o - n }
  setRatioK := fun k r _ => { k with m := r / 16, l := r % 16 }
  delayK := fun k => k.i + k.o + (if k.fl then 1000 else 0)
  input_sh := by intro e xs; simp [engine, sh]
  flush_sh := by intro e; simp [engine, sh]
  process_sh := by intro e n; exact sh_loop _ e n
  output_len := by intro e n; simp [engine, sh]
  output_sh := by intro e n; simp [engine, sh]
  setRatio_sh := by intro e r l; simp [engine, sh]
  delay_sh := by intro e; rcases e with ⟨i, o, fl, m, l, sc⟩; cases fl <;> rfl

/-! ### conversions -/

def lcg (seed : Nat) : Nat := (1664525 * seed + 1013904223) % 2 ^ 64

/-- x87 `fistp` of `t + k/32` (round to nearest, ties to even), `-31 ≤ k ≤ 31` -/
def roundDither (t k : Int) : Int :=
  if k ≥ 17 then t + 1 else if k ≤ -17 then t - 1
  else if k = 16 then (if t % 2 = 0 then t else t + 1)
  else if k = -16 then (if t % 2 = 0 then t else t - 1)
  else t

def sat16 (v : Int) : Int × Nat := if v > 32767 then (32767, 1) else if v < -32768 then (-32768, 1) else (v, 0)

/-- one block (≤ 16 samples) with freshly drawn `ran1`, `ran2` -/
def ditherBlock : List Int → Nat → Nat → List Int × Nat
  | [], _, _ => ([], 0)
  | t :: ts, ran1, ran2 =>
    let r1 := ran1 / 8
    let r2 := ran2 / 8
    let k : Int := ((r1 % 32 : Nat) : Int) - ((r2 % 32 : Nat) : Int)
    let s := sat16 (roundDither t k)
    let rest := ditherBlock ts r1 r2
    (s.1 :: rest.1, s.2 + rest.2)

/-- `lsx_rint16_clip_dither`: blocks of 16 while at least 16 samples remain, then the tail (possibly empty) — each with
    two fresh draws -/
def ditherAll : Nat → List Int → Nat → List Int × Nat × Nat
  | 0, _, seed => ([], 0, seed)
  | fuel + 1, ys, seed =>
    let s1 := lcg seed
    let s2 := lcg s1
    if ys.length < 16 then
      let b := ditherBlock ys (s1 / 8) (s2 / 8)
      (b.1, b.2, s2)
    else
      let b := ditherBlock (ys.take 16) (s1 / 8) (s2 / 8)
      let rest := ditherAll fuel (ys.drop 16) s2
      (b.1 ++ rest.1, b.2 + rest.2.1, rest.2.2)

def sat32 (y : Int) : Int × Nat :=
  if y ≥ 32768 then (2147483647, 1) else if y < -32768 then (-2147483648, 1) else (y * 65536, 0)

/-- one channel through `_soxr_interleave*`; `otype`: 0 float32, 1 float64, 2 int32, 3 int16 -/
def toyCout (otype : Nat) (dither : Bool) (seed : Nat) (ys : List Int) : List Int × Nat × Nat :=
  if otype = 2 then ((ys.map (fun y => (sat32 y).1)), (ys.map (fun y => (sat32 y).2)).sum, seed)
  else if otype = 3 then
    if dither then ditherAll (ys.length / 16 + 1) ys seed
    else ((ys.map (fun y => (sat16 y).1)), (ys.map (fun y => (sat16 y).2)).sum, seed)
  else (ys, 0, seed)

def pureToy (otype : Nat) (dither : Bool) (h : ¬ (otype = 3 ∧ dither = true)) : PureConv (toyCout otype dither) where
  f := fun ys => if otype = 2 then ys.map (fun y => (sat32 y).1) else if otype = 3 then ys.map (fun y => (sat16 y).1) else ys
  g := fun ys => if otype = 2 then (ys.map (fun y => (sat32 y).2)).sum else if otype = 3 then (ys.map (fun y => (sat16 y).2)).sum else 0
  eq := by
    intro seed ys
    unfold toyCout
    by_cases h2 : otype = 2
    · simp [h2]
    · by_cases h3 : otype = 3
      · have hd : dither = false := by
          cases dither
          · rfl
          · exact absurd ⟨h3, rfl⟩ h
        simp [h3, hd]
      · simp [h2, h3]
  len := by
    intro ys
    by_cases h2 : otype = 2
    · simp [h2]
    · by_cases h3 : otype = 3
      · simp [h3]
      · simp [h2, h3]

theorem ditherAll_seed (fuel : Nat) : ∀ (ys zs : List Int) (seed : Nat), ys.length = zs.length →
    (ditherAll fuel ys seed).2.2 = (ditherAll fuel zs seed).2.2 := by
  induction fuel with
  | zero => intro ys zs seed _; rfl
  | succ f ih =>
    intro ys zs seed h
    simp only [ditherAll, h]
    split
    · rfl
    · exact ih _ _ _ (by simp [h])

/-- the dithering conversion advances the seed by a function of (seed, number of samples) only -/
theorem dither_seed_len (seed : Nat) (ys : List Int) :
    (toyCout 3 true seed ys).2.2 = (ditherAll (ys.length / 16 + 1) (List.replicate ys.length 0) seed).2.2 := by
  simp only [toyCout]
  exact ditherAll_seed _ _ _ _ (by simp)

/-- the model configuration of a toy job -/
def cfg (ch : Nat) (isplit osplit : Bool) (otype : Nat) (dither : Bool) (m l : Nat) (vr : Bool) : Cfg Int Int where
  ch := ch
  isplit := isplit
  osplit := osplit
  cin := id
  cout := toyCout otype dither
  iForO := fun olen => (olen * m + l - 1) / l      -- ceil(olen · m/l), exact in double for the sizes used
  hasSetRatio := vr
  sameRatio := fun r => r == m * 16 + l
  dflt := 0
  junk := 0

end Soxr.Chan.Toy
