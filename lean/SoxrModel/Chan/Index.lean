/-!
# (De)interleave index algebra of `data-io.c` / `rint-clip.h`, for any channel count `ch` and frame count `n`

Interleaved buffer: sample (frame `f`, channel `c`) lives at flat index `f·ch + c` (`idx`).  Split layout: `channel_ptrs[c][f]`.

`data-io.c` as written:
```
DEINTERLEAVE_FROM:  for (j = 0; j < n; ++j) for (i = 0; i < ch; ++i) dest[i][j] = (T)*src++;
INTERLEAVE_TO:      for (j = 0; j < n; ++j) for (i = 0; i < ch; ++i) *dest++ = (T)src[i][j];
LSX_RINT_CLIP_2:    for (j = 0; j < stride; ++j, ++dest) { src = srcs[j]; for (i < n) dest[stride * i] = conv(src[i]); }
```
The frame-major loops walk the flat buffer with a running pointer: the `k`-th assignment (program order) touches flat
index `k`; `walk ch n` is that program order and `walk_getElem` says its `k`-th entry is (frame `k / ch`, channel `k % ch`),
i.e. the running pointer is at `idx ch f c` when the loop variables are `(j, i) = (f, c)`.  The channel-major loop of
`rint-clip.h` writes `dest0 + j + stride·i` = `idx stride i j` outright.

No Mathlib here: the driver `soxr_chan` imports this file.
-/
namespace Soxr.Chan

/-- flat position of (frame `f`, channel `c`) in an interleaved buffer of `ch` channels -/
def idx (ch f c : Nat) : Nat := f * ch + c

/-- program order of the frame-major loops of data-io.c: (frame, channel) pairs -/
def walk (ch n : Nat) : List (Nat × Nat) :=
  (List.range n).flatMap (fun j => (List.range ch).map (fun i => (j, i)))

/-- exactly `n` items of `l`; what lies beyond the end of `l` reads as `d` (memory the model does not own) -/
def takePad {β : Type} (d : β) (n : Nat) (l : List β) : List β := (List.range n).map (fun f => l.getD f d)

/-- `_soxr_deinterleave*`: what channel `c` receives out of a flat buffer of `n` frames -/
def deinterleave {β : Type} (d : β) (ch n : Nat) (buf : List β) (c : Nat) : List β :=
  (List.range n).map (fun f => buf.getD (idx ch f c) d)

/-- `_soxr_interleave*`: the flat buffer of `n` frames written from the per-channel sources `chans` -/
def interleave {β : Type} (d : β) (ch n : Nat) (chans : List (List β)) : List β :=
  (List.range (n * ch)).map (fun k => ((chans.getD (k % ch) []).getD (k / ch) d))

/-! ### basic facts -/

theorem idx_lt {ch n f c : Nat} (hf : f < n) (hc : c < ch) : idx ch f c < n * ch := by
  unfold idx
  have : (f + 1) * ch ≤ n * ch := Nat.mul_le_mul_right ch hf
  rw [Nat.add_mul] at this
  omega

theorem idx_div {ch f c : Nat} (hc : c < ch) : idx ch f c / ch = f := by
  unfold idx
  have hpos : 0 < ch := by omega
  rw [Nat.mul_comm, Nat.mul_add_div hpos, Nat.div_eq_of_lt hc]
  rfl

theorem idx_mod {ch f c : Nat} (hc : c < ch) : idx ch f c % ch = c := by
  unfold idx
  rw [Nat.mul_comm, Nat.mul_add_mod, Nat.mod_eq_of_lt hc]

theorem idx_div_mod (ch k : Nat) : idx ch (k / ch) (k % ch) = k := by
  unfold idx
  rw [Nat.mul_comm]
  exact Nat.div_add_mod k ch

/-- `(f, c) ↦ f·ch + c` is injective on `c < ch` -/
theorem idx_inj {ch f c f' c' : Nat} (hc : c < ch) (hc' : c' < ch) (h : idx ch f c = idx ch f' c') : f = f' ∧ c = c' := by
  have h1 := idx_div (f := f) hc
  have h2 := idx_div (f := f') hc'
  have h3 := idx_mod (f := f) hc
  have h4 := idx_mod (f := f') hc'
  rw [h] at h1 h3
  omega

/-- … and onto `[0, n·ch)`: every flat position below `n·ch` is `idx` of exactly one (frame < n, channel < ch) -/
theorem idx_surj {ch n k : Nat} (hk : k < n * ch) : k / ch < n ∧ k % ch < ch ∧ idx ch (k / ch) (k % ch) = k := by
  have hpos : 0 < ch := by
    rcases Nat.eq_zero_or_pos ch with h | h
    · subst h; simp at hk
    · exact h
  refine ⟨?_, Nat.mod_lt _ hpos, idx_div_mod ch k⟩
  exact Nat.div_lt_of_lt_mul (by rw [Nat.mul_comm]; exact hk)

theorem getD_append_left' {β : Type} (d : β) (l1 l2 : List β) (i : Nat) (h : i < l1.length) :
    (l1 ++ l2).getD i d = l1.getD i d := by
  rw [List.getD_eq_getElem?_getD, List.getD_eq_getElem?_getD, List.getElem?_append_left h]

theorem getD_append_right' {β : Type} (d : β) (l1 l2 : List β) (i : Nat) (h : l1.length ≤ i) :
    (l1 ++ l2).getD i d = l2.getD (i - l1.length) d := by
  rw [List.getD_eq_getElem?_getD, List.getD_eq_getElem?_getD, List.getElem?_append_right h]

@[simp] theorem takePad_length {β : Type} (d : β) (n : Nat) (l : List β) : (takePad d n l).length = n := by
  simp [takePad]

@[simp] theorem deinterleave_length {β : Type} (d : β) (ch n : Nat) (buf : List β) (c : Nat) :
    (deinterleave d ch n buf c).length = n := by
  simp [deinterleave]

@[simp] theorem interleave_length {β : Type} (d : β) (ch n : Nat) (chans : List (List β)) :
    (interleave d ch n chans).length = n * ch := by
  simp [interleave]

theorem takePad_eq_self {β : Type} (d : β) {n : Nat} {l : List β} (h : l.length = n) : takePad d n l = l := by
  apply List.ext_getElem
  · simp [h]
  · intro i h1 h2
    simp [takePad, List.getD_eq_getElem?_getD, List.getElem?_eq_getElem h2]

theorem walk_length (ch n : Nat) : (walk ch n).length = n * ch := by
  induction n with
  | zero => simp [walk]
  | succ n ih =>
    unfold walk at ih ⊢
    rw [List.range_succ, List.flatMap_append, List.length_append, ih]
    simp [Nat.add_mul]

/-- the `k`-th assignment of the frame-major loop handles frame `k / ch`, channel `k % ch`: the running pointer
    (`*src++` / `*dest++`) is at `idx ch frame channel` -/
theorem walk_getElem? (ch n k : Nat) (hk : k < n * ch) : (walk ch n)[k]? = some (k / ch, k % ch) := by
  induction n with
  | zero => simp at hk
  | succ n ih =>
    have hw : walk ch (n + 1) = walk ch n ++ (List.range ch).map (fun i => (n, i)) := by
      unfold walk
      rw [List.range_succ, List.flatMap_append]
      simp
    rw [hw]
    by_cases hlt : k < n * ch
    · rw [List.getElem?_append_left (by rw [walk_length]; exact hlt)]
      exact ih hlt
    · have hge : n * ch ≤ k := by omega
      rw [List.getElem?_append_right (by rw [walk_length]; exact hge), walk_length]
      have hk' : k - n * ch < ch := by rw [Nat.add_mul] at hk; omega
      have hdiv : k / ch = n := by
        exact Nat.div_eq_of_lt_le hge hk
      have hmod : k % ch = k - n * ch := by
        have := Nat.div_add_mod k ch
        rw [hdiv, Nat.mul_comm] at this
        omega
      simp [hk', hdiv, hmod]

/-! ### round trips -/

/-- deinterleave ∘ interleave = id on every channel `c < ch` (for any `ch`, `n`; sources shorter than `n` read as padding) -/
theorem deinterleave_interleave {β : Type} (d : β) (ch n : Nat) (chans : List (List β)) (c : Nat) (hc : c < ch) :
    deinterleave d ch n (interleave d ch n chans) c = takePad d n (chans.getD c []) := by
  unfold deinterleave takePad
  apply List.map_congr_left
  intro f hf
  have hf' : f < n := List.mem_range.mp hf
  have hlt := idx_lt hf' hc
  unfold interleave
  rw [List.getD_eq_getElem?_getD, List.getElem?_map, List.getElem?_range hlt]
  simp only [Option.map_some, Option.getD_some, idx_div hc, idx_mod hc]

theorem deinterleave_getElem? {β : Type} (d : β) (ch n : Nat) (buf : List β) (c f : Nat) :
    (deinterleave d ch n buf c)[f]? = if f < n then some (buf.getD (idx ch f c) d) else none := by
  unfold deinterleave
  rw [List.getElem?_map]
  by_cases h : f < n
  · simp [h]
  · simp [h]

theorem interleave_getElem? {β : Type} (d : β) (ch n : Nat) (chans : List (List β)) (k : Nat) :
    (interleave d ch n chans)[k]? = if k < n * ch then some ((chans.getD (k % ch) []).getD (k / ch) d) else none := by
  unfold interleave
  rw [List.getElem?_map]
  by_cases h : k < n * ch
  · simp [h]
  · simp [h]

/-- interleave ∘ deinterleave = id on a flat buffer of exactly `n·ch` samples -/
theorem interleave_deinterleave {β : Type} (d : β) (ch n : Nat) (buf : List β) (h : buf.length = n * ch) :
    interleave d ch n ((List.range ch).map (deinterleave d ch n buf)) = buf := by
  apply List.ext_getElem?
  intro k
  rw [interleave_getElem?]
  by_cases hk : k < n * ch
  · obtain ⟨hf, hc, hidx⟩ := idx_surj hk
    have h2 : k < buf.length := by omega
    have e1 : ((List.range ch).map (deinterleave d ch n buf)).getD (k % ch) [] = deinterleave d ch n buf (k % ch) := by
      rw [List.getD_eq_getElem?_getD, List.getElem?_map, List.getElem?_range hc]; rfl
    rw [if_pos hk, e1, List.getD_eq_getElem?_getD, deinterleave_getElem?, if_pos hf, hidx,
      List.getD_eq_getElem?_getD, List.getElem?_eq_getElem h2]
    rfl
  · rw [if_neg hk, List.getElem?_eq_none (by omega)]

/-- one channel: the flat buffer is the channel itself (the `ch == 1` shortcuts of data-io.c: `memcpy` / single loop) -/
theorem deinterleave_one {β : Type} (d : β) (n : Nat) (buf : List β) : deinterleave d 1 n buf 0 = takePad d n buf := by
  simp [deinterleave, takePad, idx]

theorem interleave_one {β : Type} (d : β) (n : Nat) (l : List β) : interleave d 1 n [l] = takePad d n l := by
  simp [interleave, takePad, Nat.mod_one]

/-- pointer advance of the pull loop: a chunk of `n2` frames written at flat offset `n1·ch` behind `n1` frames — the
    channel views concatenate -/
theorem deinterleave_append {β : Type} (d : β) (ch n1 n2 : Nat) (b1 b2 : List β) (c : Nat) (hc : c < ch)
    (h : b1.length = n1 * ch) :
    deinterleave d ch (n1 + n2) (b1 ++ b2) c = deinterleave d ch n1 b1 c ++ deinterleave d ch n2 b2 c := by
  apply List.ext_getElem?
  intro f
  rw [deinterleave_getElem?]
  by_cases hlt : f < n1
  · have := idx_lt hlt hc
    rw [List.getElem?_append_left (by simpa using hlt), deinterleave_getElem?, if_pos hlt, if_pos (by omega),
      getD_append_left' d b1 b2 _ (by omega)]
  · rw [List.getElem?_append_right (by simpa using hlt), deinterleave_getElem?, deinterleave_length]
    have hmul : n1 * ch ≤ f * ch := Nat.mul_le_mul_right ch (by omega)
    have hge : n1 * ch ≤ idx ch f c := by unfold idx; omega
    have hidx : idx ch f c - b1.length = idx ch (f - n1) c := by
      unfold idx; rw [h, Nat.sub_mul]; omega
    by_cases hf : f < n1 + n2
    · rw [if_pos hf, if_pos (by omega), getD_append_right' d b1 b2 _ (by omega), hidx]
    · rw [if_neg hf, if_neg (by omega)]

/-- the flat buffer written chunk after chunk by the pull loop is the interleaving of the channel-wise concatenations -/
theorem interleave_append {β : Type} (d : β) (ch n1 n2 : Nat) (a b : List (List β))
    (ha : ∀ c, c < ch → (a.getD c []).length = n1) :
    interleave d ch n1 a ++ interleave d ch n2 b
      = interleave d ch (n1 + n2) ((List.range ch).map (fun c => a.getD c [] ++ b.getD c [])) := by
  apply List.ext_getElem?
  intro k
  rw [interleave_getElem?]
  by_cases hlt : k < n1 * ch
  · obtain ⟨hf, hc, -⟩ := idx_surj hlt
    have hk2 : k < (n1 + n2) * ch := by rw [Nat.add_mul]; omega
    have e1 : ((List.range ch).map (fun c => a.getD c [] ++ b.getD c [])).getD (k % ch) []
        = a.getD (k % ch) [] ++ b.getD (k % ch) [] := by
      rw [List.getD_eq_getElem?_getD, List.getElem?_map, List.getElem?_range hc]; rfl
    rw [List.getElem?_append_left (by simpa using hlt), interleave_getElem?, if_pos hlt, if_pos hk2, e1,
      getD_append_left' d _ _ _ (by rw [ha _ hc]; exact hf)]
  · rw [List.getElem?_append_right (by simpa using hlt), interleave_getElem?, interleave_length]
    by_cases hk2 : k < (n1 + n2) * ch
    · obtain ⟨hf, hc, -⟩ := idx_surj hk2
      have hpos : 0 < ch := by omega
      have hk2' : k < n1 * ch + n2 * ch := by rw [Nat.add_mul] at hk2; exact hk2
      have hk3 : k - n1 * ch < n2 * ch := by omega
      have hmod : (k - n1 * ch) % ch = k % ch := by
        have : k = (k - n1 * ch) + n1 * ch := by omega
        conv => rhs; rw [this, Nat.add_mul_mod_self_right]
      have hdiv : (k - n1 * ch) / ch = k / ch - n1 := by
        have e : k = (k - n1 * ch) + n1 * ch := by omega
        have : k / ch = (k - n1 * ch) / ch + n1 := by
          conv => lhs; rw [e]
          exact Nat.add_mul_div_right _ _ hpos
        exact Nat.eq_sub_of_add_eq this.symm
      have hge : n1 ≤ k / ch := by
        apply (Nat.le_div_iff_mul_le hpos).mpr; omega
      have e1 : ((List.range ch).map (fun c => a.getD c [] ++ b.getD c [])).getD (k % ch) []
          = a.getD (k % ch) [] ++ b.getD (k % ch) [] := by
        rw [List.getD_eq_getElem?_getD, List.getElem?_map, List.getElem?_range hc]; rfl
      rw [if_pos hk3, if_pos hk2, e1, hmod, hdiv, getD_append_right' d _ _ _ (by rw [ha _ hc]; exact hge), ha _ hc]
    · have hk2' : ¬ k < n1 * ch + n2 * ch := by rw [Nat.add_mul] at hk2; exact hk2
      rw [if_neg hk2, if_neg (by omega)]

end Soxr.Chan
