import SoxrModel.Chan.Index
/-!
# The API layer of `soxr.c` over abstract per-channel engines (property C06)

What is modelled, function by function, as the code in `/repo/src/soxr.c` is now:

| C | model |
|---|---|
| `soxr_input` (633) | `input` — error / NULL / end-of-input tests, then every channel's engine gets its `len` samples: split layout `in[i]`, interleaved layout flat index `j·ch + i` (`decodeIn`, i.e. `_soxr_deinterleave*`) |
| `soxr_output_1ch` (657) | `out1` — flush if flushing, process, output |
| `soxr_output_no_callback` (673) | `outputNoCb` — sequential loop over the channels, `done` = the LAST channel's count, conversion (`interleave` / `rint-clip`) channel after channel with the shared `seed`, `clips +=` |
| `soxr_output` (700) | `output` / `pullLoop` — the pull loop with the registered input function |
| `soxr_process` (766) | `process` — flush request decoding, `soxr_i_for_o`, the latched-error test (commit 27b24c1: before EITHER path), the both-split path (`splitLoop`, as written: input and output of channel `u` inside ONE loop) and the generic path |
| `soxr_set_input_fn`, `soxr_set_io_ratio` (engines exist), `soxr_clear` (RESET_ON_CLEAR recipes), `soxr_delay` | `step` |

An **engine** is any state machine (`Engine σ α`): the model never looks inside `σ`.  The frame rule — channel `i`'s operation
touches only engine `i` and `channel_ptrs[i]` — is the shape of the definitions: `St.eng : List σ` and every per-channel
operation is a `map` / `mapIdx` over it.  (For the real engines this is an assumption about `cr.c` / `vr32.c`: the
`shared` block is read-only after creation.  The falsifier `harness/chan/iso.c` exercises it.)

Samples: `α` = the engine's sample type (float / double), `β` = the caller's datatype.  `cin` is the cast of
`DEINTERLEAVE_FROM`; `cout seed src = (converted, clips, seed')` is one channel's pass through `INTERLEAVE_TO` /
`LSX_RINT_CLIP(_2)` (dither draws from `seed`).  In both layouts the code converts channel 0 completely, then channel 1, …
(`rint-clip.h` `for (j < stride)` outer loop; split layout: one call per channel), threading `p->seed`: `convAll`.

Sizes are `Nat`; `(size_t)ceil(olen · io_ratio)` is the abstract `iForO`.  The input function is represented, per API call,
by the list of answers it gives during that call (each a function of the requested length); when the list is used up it
answers "end of input" (0 frames), so every run of the pull loop the model describes is finite.

`clipsBy` is a GHOST field (not in the C struct): the per-channel share of `clips`; `clips_eq_sum` shows it always sums to
`clips`.

No Mathlib: the driver `soxr_chan` imports this file.
-/
namespace Soxr.Chan

/-- one channel's resampler (`control_block` entries input/flush/process/output/set_io_ratio/delay) -/
structure Engine (σ α : Type) where
  init     : σ
  input    : σ → List α → σ
  flush    : σ → σ
  process  : σ → Nat → σ
  output   : σ → Nat → List α × σ
  setRatio : σ → Nat → Nat → σ
  delay    : σ → Nat

inductive Err
  | nullIn      -- "null input buffer pointer"
  | nullOut     -- "null output buffer pointer"
  | fnFail      -- "input function reported failure"
  deriving DecidableEq, Repr

/-- the caller's input memory: one flat block (interleaved) or one block per channel (SOXR_SPLIT) -/
inductive InBuf (β : Type)
  | inter (flat : List β)
  | split (chans : List (List β))

/-- one answer of the input function: failure (`*data = NULL`) or `n` frames in a buffer -/
inductive FnReply (β : Type)
  | fail
  | data (n : Nat) (buf : InBuf β)

structure Cfg (α β : Type) where
  ch : Nat
  isplit : Bool
  osplit : Bool
  cin : β → α
  cout : Nat → List α → List β × Nat × Nat
  iForO : Nat → Nat
  hasSetRatio : Bool          -- control_block[8] != NULL (variable-rate engine)
  sameRatio : Nat → Bool      -- fabs(p->io_ratio - io_ratio) < 1e-15
  dflt : β                    -- what reads beyond a caller's block yield (never happens for well-formed calls)
  junk : α                    -- what reads beyond what an engine delivered yield (never happens under `Shape`)

structure St (σ : Type) where
  eng : List σ
  flushing : Bool
  error : Option Err
  clips : Nat
  seed : Nat
  fn : Option Nat             -- input function registered: `max_ilen`
  clipsBy : List Nat          -- ghost

variable {σ α β : Type}

def sizeMax : Nat := 2 ^ 64 - 1

def blank (ch : Nat) : List (List β) := List.replicate ch []

def initSt (E : Engine σ α) (ch seed : Nat) : St σ :=
  { eng := List.replicate ch E.init, flushing := false, error := none, clips := 0, seed := seed, fn := none,
    clipsBy := List.replicate ch 0 }

/-- what channel `c` reads out of the caller's block for a request of `len` frames -/
def decodeIn (cfg : Cfg α β) (len : Nat) (b : InBuf β) (c : Nat) : List β :=
  match b with
  | .inter flat => deinterleave cfg.dflt cfg.ch len flat c
  | .split chans => takePad cfg.dflt len (chans.getD c [])

/-- the caller's block for per-channel data `X` in the configured layout -/
def encodeIn (cfg : Cfg α β) (len : Nat) (X : List (List β)) : InBuf β :=
  if cfg.isplit then .split X else .inter (interleave cfg.dflt cfg.ch len X)

/-- the caller's output memory after `n` frames per channel were delivered -/
def encodeOut (cfg : Cfg α β) (n : Nat) (outs : List (List β)) : InBuf β :=
  if cfg.osplit then .split outs else .inter (interleave cfg.dflt cfg.ch n outs)

/-- every engine receives its channel's `len` samples (`resampler_input` + `deinterleave`) -/
def feedAll (E : Engine σ α) (cfg : Cfg α β) (eng : List σ) (b : InBuf β) (len : Nat) : List σ :=
  eng.mapIdx (fun i e => E.input e ((decodeIn cfg len b i).map cfg.cin))

/-- `soxr_input` -/
def input (E : Engine σ α) (cfg : Cfg α β) (s : St σ) (inb : Option (InBuf β)) (len : Nat) : St σ × Nat :=
  if s.error.isSome then (s, 0)
  else match inb with
    | none => if len ≠ 0 then ({ s with error := some .nullIn }, 0) else ({ s with flushing := true }, 0)
    | some b => if len = 0 then ({ s with flushing := true }, 0) else ({ s with eng := feedAll E cfg s.eng b len }, len)

/-- `soxr_output_1ch` up to the conversion -/
def out1 (E : Engine σ α) (flushing : Bool) (e : σ) (len : Nat) : List α × σ :=
  E.output (E.process (if flushing then E.flush e else e) len) len

/-- conversion of the channels one after the other, the dither seed handed on -/
def convAll (cout : Nat → List α → List β × Nat × Nat) : Nat → List (List α) → List (List β) × List Nat × Nat
  | seed, [] => ([], [], seed)
  | seed, y :: ys =>
    ((cout seed y).1 :: (convAll cout (cout seed y).2.2 ys).1,
     (cout seed y).2.1 :: (convAll cout (cout seed y).2.2 ys).2.1,
     (convAll cout (cout seed y).2.2 ys).2.2)

def addV (a b : List Nat) : List Nat := List.zipWith (· + ·) a b

def lastLen (rs : List (List α × σ)) : Nat := (rs.getLast?.map (fun r => r.1.length)).getD 0

/-- `soxr_output_no_callback` (sequential loop).  Returns the state, `done`, and what each channel had written for it. -/
def outputNoCb (E : Engine σ α) (cfg : Cfg α β) (s : St σ) (len : Nat) : St σ × Nat × List (List β) :=
  let rs := s.eng.map (fun e => out1 E s.flushing e len)
  let done := lastLen rs
  let srcs := rs.map (fun r => if cfg.osplit then r.1 else takePad cfg.junk done r.1)
  let cv := convAll cfg.cout s.seed srcs
  ({ s with eng := rs.map (·.2), clips := s.clips + cv.2.1.sum, seed := cv.2.2, clipsBy := addV s.clipsBy cv.2.1 },
   done, cv.1)

def St.setFlushing (s : St σ) : St σ := { s with flushing := true }
def St.setError (s : St σ) (e : Err) : St σ := { s with error := some e }

/-- `if (odone0 == len0 || !p->input_fn || p->flushing) break;` -/
def stopNow (s1 : St σ) (odone0' len0 : Nat) : Bool := odone0' == len0 || s1.fn.isNone || s1.flushing

/-- `while (odone || idone || (!was_flushing && p->flushing))` (`was_flushing` is false where this is evaluated) -/
def goOn (s2 : St σ) (odone idone : Nat) : Bool := odone != 0 || idone != 0 || s2.flushing

def appendCh (acc outs : List (List β)) : List (List β) := List.zipWith (· ++ ·) acc outs

/-- the `do … while` loop of `soxr_output`; `rs` = the answers the input function will give -/
def pullLoop (E : Engine σ α) (cfg : Cfg α β) (ilen len0 : Nat) :
    List (Nat → FnReply β) → St σ → Nat → Nat → List (List β) → St σ × Nat × List (List β)
  | rs, s, olen, odone0, acc =>
    let r1 := outputNoCb E cfg s olen
    let s1 := r1.1
    let odone := r1.2.1
    let odone0' := odone0 + odone
    let acc' := appendCh acc r1.2.2
    if stopNow s1 odone0' len0 then (s1, odone0', acc')
    else match rs with
      | [] =>
        -- the function answers "no more input": soxr_input(p, in, 0) sets flushing; the loop condition holds
        -- (!was_flushing && p->flushing); next iteration: deliver, then `break` on p->flushing
        let r3 := outputNoCb E cfg s1.setFlushing (olen - odone)
        (r3.1, odone0' + r3.2.1, appendCh acc' r3.2.2)
      | r :: rs' =>
        match r ilen with
        | .fail => (s1.setError .fnFail, odone0', acc')
        | .data n b =>
          let s2 := (input E cfg s1 (some b) n).1
          if goOn s2 odone n then pullLoop E cfg ilen len0 rs' s2 (olen - odone) odone0' acc'
          else (s2, odone0', acc')

/-- `soxr_output` -/
def output (E : Engine σ α) (cfg : Cfg α β) (s : St σ) (outPresent : Bool) (len0 : Nat)
    (replies : List (Nat → FnReply β)) : St σ × Nat × List (List β) :=
  if s.error.isSome then (s, 0, blank cfg.ch)
  else if outPresent = false ∧ len0 ≠ 0 then ({ s with error := some .nullOut }, 0, blank cfg.ch)
  else pullLoop E cfg (min (s.fn.getD 0) (cfg.iForO len0)) len0 replies s len0 0 (blank cfg.ch)

/-- `if (in) soxr_input_1ch(p, u, in[u], ilen)` for channel `i` -/
def feed1 (E : Engine σ α) (cfg : Cfg α β) (inb : Option (InBuf β)) (ilen i : Nat) (e : σ) : σ :=
  match inb with
  | some b => E.input e ((decodeIn cfg ilen b i).map cfg.cin)
  | none => e

/-- … for all channels at once -/
def feedOpt (E : Engine σ α) (cfg : Cfg α β) (eng : List σ) (inb : Option (InBuf β)) (ilen : Nat) : List σ :=
  eng.mapIdx (fun k e => feed1 E cfg inb ilen k e)

/-- the both-split loop of `soxr_process` as written: for each channel `u` in turn: input (if `in`), then
    `soxr_output_1ch(…, separated = true)` — conversion with the shared seed, `clips +=`, `odone` overwritten.
    Result: engines, outputs, clips per channel, seed, `odone` (none if there is no channel). -/
def splitLoop (E : Engine σ α) (cfg : Cfg α β) (flushing : Bool) (inb : Option (InBuf β)) (ilen olen : Nat) :
    Nat → List σ → Nat → List σ × List (List β) × List Nat × Nat × Option Nat
  | _, [], seed => ([], [], [], seed, none)
  | i, e :: es, seed =>
    let r := out1 E flushing (feed1 E cfg inb ilen i e) olen
    let cv := cfg.cout seed r.1
    let rest := splitLoop E cfg flushing inb ilen olen (i + 1) es cv.2.2
    (r.2 :: rest.1, cv.1 :: rest.2.1, cv.2.1 :: rest.2.2.1, rest.2.2.2.1, some (rest.2.2.2.2.getD r.1.length))

structure ProcRes (σ β : Type) where
  st : St σ
  idone : Nat
  odone : Nat
  out : List (List β)

/-- `ilen` of `soxr_process`: 0 without input, else `soxr_i_for_o` when the caller wants `idone`, else `ilen0` -/
def procIlen (cfg : Cfg α β) (inb : Option (InBuf β)) (ilen0 : Nat) (wantIdone : Bool) (olen : Nat) : Nat :=
  if inb.isNone then 0 else if wantIdone then min (cfg.iForO olen) ilen0 else ilen0

/-- `p->flushing |= ilen == ilen0 && flush_requested;` -/
def procFlush (cfg : Cfg α β) (s : St σ) (inb : Option (InBuf β)) (ilen0 : Nat) (flushReq wantIdone : Bool) (olen : Nat) : St σ :=
  { s with flushing := s.flushing ||
      (procIlen cfg inb ilen0 wantIdone olen == (if inb.isNone then 0 else ilen0) && (flushReq || inb.isNone)) }

/-- `soxr_process` without buffers (commit ab95331): `if (p->flushing && !p->error && p->resamplers) for (u…) resampler_flush(…)` -/
def flushAll (E : Engine σ α) (s : St σ) : St σ :=
  if s.flushing = true ∧ s.error.isSome = false then { s with eng := s.eng.map E.flush } else s

/-- `soxr_process`.  `flushReq` = the caller passed `~ilen0`; `wantIdone` = `idone0 != NULL`. -/
def process (E : Engine σ α) (cfg : Cfg α β) (s : St σ) (inb : Option (InBuf β)) (ilen0 : Nat)
    (flushReq wantIdone outPresent : Bool) (olen : Nat) (replies : List (Nat → FnReply β)) : ProcRes σ β :=
  let ilen := procIlen cfg inb ilen0 wantIdone olen
  let s0 : St σ := procFlush cfg s inb ilen0 flushReq wantIdone olen
  if outPresent = false ∧ inb.isNone then { st := flushAll E s0, idone := ilen, odone := 0, out := blank cfg.ch }
  else if s0.error.isSome then { st := s0, idone := 0, odone := 0, out := blank cfg.ch }   -- sticky on both paths (27b24c1)
  else if cfg.isplit ∧ cfg.osplit then
    let r := splitLoop E cfg s0.flushing inb ilen olen 0 s0.eng s0.seed
    { st := { s0 with eng := r.1, clips := s0.clips + r.2.2.1.sum, seed := r.2.2.2.1, clipsBy := addV s0.clipsBy r.2.2.1 },
      idone := ilen, odone := r.2.2.2.2.getD 0, out := r.2.1 }
  else
    let r1 := if ilen ≠ 0 then input E cfg s0 inb ilen else (s0, 0)
    let r2 := output E cfg r1.1 outPresent olen replies
    { st := r2.1, idone := r1.2, odone := r2.2.1, out := r2.2.2 }

/-- API operations of one resampler -/
inductive Op (β : Type)
  | process (inb : Option (InBuf β)) (ilen0 : Nat) (flushReq wantIdone outPresent : Bool) (olen : Nat)
      (replies : List (Nat → FnReply β))
  | output (outPresent : Bool) (olen : Nat) (replies : List (Nat → FnReply β))
  | setInputFn (maxIlen : Nat)
  | setRatio (r slew : Nat)
  | clear

/-- what the caller can see of one call -/
structure Obs (β : Type) where
  idone : Nat
  odone : Nat
  err : Option Err           -- `soxr_error(p)` after the call
  ret : Nat                  -- 0 = returned no error; 1 = returned an error string
  flushing : Bool
  delay : Nat                -- `soxr_delay(p)` after the call
  out : List (List β)        -- per channel: what the call wrote into the caller's output memory

def delayOf (E : Engine σ α) (s : St σ) : Nat :=
  if s.error.isSome then 0 else (s.eng.head?.map E.delay).getD 0

def mkObs (E : Engine σ α) (s : St σ) (idone odone ret : Nat) (out : List (List β)) : Obs β :=
  { idone := idone, odone := odone, err := s.error, ret := ret, flushing := s.flushing, delay := delayOf E s, out := out }

def step (E : Engine σ α) (cfg : Cfg α β) (s : St σ) : Op β → St σ × Obs β
  | .process inb ilen0 fr wi op olen replies =>
    let r := process E cfg s inb ilen0 fr wi op olen replies
    (r.st, mkObs E r.st r.idone r.odone (if r.st.error.isSome then 1 else 0) r.out)
  | .output op olen replies =>
    let r := output E cfg s op olen replies
    (r.1, mkObs E r.1 0 r.2.1 0 r.2.2)
  | .setInputFn m =>
    let s' := { s with fn := some (if m = 0 then sizeMax else m) }
    (s', mkObs E s' 0 0 0 (blank cfg.ch))
  | .setRatio r slew =>
    if s.error.isSome then (s, mkObs E s 0 0 1 (blank cfg.ch))
    else if cfg.hasSetRatio then
      let s' := { s with eng := s.eng.map (fun e => E.setRatio e r slew) }
      (s', mkObs E s' 0 0 0 (blank cfg.ch))
    else (s, mkObs E s 0 0 (if cfg.sameRatio r then 0 else 1) (blank cfg.ch))
  | .clear =>
    -- soxr_clear for recipes with RESET_ON_CLEAR (the other case and the field-by-field account: `Chan/Clear.lean`)
    let s' : St σ := { (initSt E cfg.ch 0) with fn := s.fn }
    (s', mkObs E s' 0 0 0 (blank cfg.ch))

def run (E : Engine σ α) (cfg : Cfg α β) : St σ → List (Op β) → St σ × List (Obs β)
  | s, [] => (s, [])
  | s, op :: ops => ((run E cfg (step E cfg s op).1 ops).1, (step E cfg s op).2 :: (run E cfg (step E cfg s op).1 ops).2)

/-! ## mono projection -/

def monoCfg (cfg : Cfg α β) : Cfg α β := { cfg with ch := 1 }

/-- a 1-channel configuration whose conversion is `mc` (for a seed-free conversion `mc = cfg.cout` and this is `monoCfg cfg`;
    with dither `mc` is "channel `c`'s view of the shared dither stream", see `Lemmas.chanView`) -/
def monoCfgC (cfg : Cfg α β) (mc : Nat → List α → List β × Nat × Nat) : Cfg α β := { cfg with ch := 1, cout := mc }

/-- the block a 1-channel resampler is handed when it is "fed channel `c` alone" (`n` = frames in the block) -/
def projIn (cfg : Cfg α β) (c n : Nat) : InBuf β → InBuf β
  | .inter flat => .inter (deinterleave cfg.dflt cfg.ch n flat c)
  | .split chans => .split [takePad cfg.dflt n (chans.getD c [])]

def projReply (cfg : Cfg α β) (c : Nat) : FnReply β → FnReply β
  | .fail => .fail
  | .data n b => .data n (projIn cfg c n b)

def projOp (cfg : Cfg α β) (c : Nat) : Op β → Op β
  | .process inb ilen0 fr wi op olen replies =>
    .process (inb.map (projIn cfg c ilen0)) ilen0 fr wi op olen (replies.map (fun r req => projReply cfg c (r req)))
  | .output op olen replies => .output op olen (replies.map (fun r req => projReply cfg c (r req)))
  | .setInputFn m => .setInputFn m
  | .setRatio r slew => .setRatio r slew
  | .clear => .clear

def projObs (c : Nat) (o : Obs β) : Obs β := { o with out := [o.out.getD c []] }

end Soxr.Chan
