import SoxrModel.Chan.Lemmas
/-!
# The multi-channel / mono simulation (C06)

`Rel Sh c ch S s`: `s` is the state of a 1-channel resampler that mirrors channel `c` of the `ch`-channel state `S`.
Every API-layer function preserves it and delivers, on the mono side, exactly channel `c`'s share.
-/
namespace Soxr.Chan

variable {σ α β κ : Type} {E : Engine σ α} {mc : Nat → List α → List β × Nat × Nat}

structure Rel (Sh : Shape E κ) (c ch : Nat) (S s : St σ) : Prop where
  hc : c < ch
  len : S.eng.length = ch
  clen : S.clipsBy.length = ch
  uni : Uniform Sh S.eng
  eng : s.eng = S.eng[c]?.toList
  clips : s.clips = S.clipsBy.getD c 0
  flushing : s.flushing = S.flushing
  error : s.error = S.error
  fn : s.fn = S.fn
  seed : s.seed = S.seed

theorem uniform_toList (Sh : Shape E κ) (eng : List σ) (c : Nat) : Uniform Sh (eng[c]?.toList) := by
  intro a ha b hb
  cases h : eng[c]? with
  | none => rw [h] at ha; simp at ha
  | some x =>
    rw [h] at ha hb
    simp only [Option.toList_some, List.mem_singleton] at ha hb
    rw [ha, hb]

/-! ### normal form of `outputNoCb` for count-uniform engines and a seed-free conversion -/

theorem all_len_eq (Sh : Shape E κ) (eng : List σ) (fl : Bool) (len : Nat) (hu : Uniform Sh eng) :
    ∀ r ∈ eng.map (fun e => out1 E fl e len), r.1.length = lastLen (eng.map (fun e => out1 E fl e len)) := by
  intro r hr
  have hne : eng.map (fun e => out1 E fl e len) ≠ [] := List.ne_nil_of_mem hr
  obtain ⟨e, he, rfl⟩ := List.mem_map.mp hr
  symm
  apply lastLen_of_all _ _ _ hne
  intro r' hr'
  obtain ⟨e', he', rfl⟩ := List.mem_map.mp hr'
  exact out1_len Sh fl e' e len (hu e' he' e he)

theorem outputNoCb_nf (Sh : Shape E κ) (cfg : Cfg α β) (S : St σ) (len : Nat) (hu : Uniform Sh S.eng) :
    outputNoCb E cfg S len =
      ({ S with eng := (S.eng.map (fun e => out1 E S.flushing e len)).map (·.2),
                clips := S.clips + (convAll cfg.cout S.seed ((S.eng.map (fun e => out1 E S.flushing e len)).map (·.1))).2.1.sum,
                seed := (convAll cfg.cout S.seed ((S.eng.map (fun e => out1 E S.flushing e len)).map (·.1))).2.2,
                clipsBy := addV S.clipsBy (convAll cfg.cout S.seed ((S.eng.map (fun e => out1 E S.flushing e len)).map (·.1))).2.1 },
       lastLen (S.eng.map (fun e => out1 E S.flushing e len)),
       (convAll cfg.cout S.seed ((S.eng.map (fun e => out1 E S.flushing e len)).map (·.1))).1) := by
  have hsrc : (S.eng.map (fun e => out1 E S.flushing e len)).map
        (fun r => if cfg.osplit then r.1 else takePad cfg.junk (lastLen (S.eng.map (fun e => out1 E S.flushing e len))) r.1)
      = (S.eng.map (fun e => out1 E S.flushing e len)).map (·.1) := by
    apply List.map_congr_left
    intro r hr
    split
    · rfl
    · exact takePad_eq_self _ (all_len_eq Sh S.eng S.flushing len hu r hr)
  unfold outputNoCb
  simp only [hsrc]

/-! ### per-function simulation -/

theorem feedAll_proj (cfg : Cfg α β) (eng : List σ) (b : InBuf β) (len n c : Nat) (h : len ≤ n) :
    (feedAll E cfg eng b len)[c]?.toList = feedAll E (monoCfgC cfg mc) (eng[c]?.toList) (projIn cfg c n b) len := by
  unfold feedAll
  rw [List.getElem?_mapIdx]
  cases eng[c]? with
  | none => rfl
  | some x =>
    simp only [Option.map_some, Option.toList_some, List.mapIdx_cons, List.mapIdx_nil]
    rw [decode_proj cfg mc c len n b h]
    rfl

theorem feedAll_length (cfg : Cfg α β) (eng : List σ) (b : InBuf β) (len : Nat) :
    (feedAll E cfg eng b len).length = eng.length := by
  simp [feedAll]

theorem input_err (cfg : Cfg α β) (S : St σ) (inb : Option (InBuf β)) (len : Nat) (h : S.error.isSome = true) :
    input E cfg S inb len = (S, 0) := by simp [input, h]

theorem input_null (cfg : Cfg α β) (S : St σ) (len : Nat) (h : S.error = none) (hl : len ≠ 0) :
    input E cfg S none len = ({ S with error := some .nullIn }, 0) := by simp [input, h, hl]

theorem input_eof (cfg : Cfg α β) (S : St σ) (inb : Option (InBuf β)) (h : S.error = none) :
    input E cfg S inb 0 = ({ S with flushing := true }, 0) := by cases inb <;> simp [input, h]

theorem input_feed (cfg : Cfg α β) (S : St σ) (b : InBuf β) (len : Nat) (h : S.error = none) (hl : len ≠ 0) :
    input E cfg S (some b) len = ({ S with eng := feedAll E cfg S.eng b len }, len) := by simp [input, h, hl]

theorem input_sim (Sh : Shape E κ) (cfg : Cfg α β) {c : Nat} {S s : St σ} (h : Rel Sh c cfg.ch S s)
    (inb : Option (InBuf β)) (len n : Nat) (hn : len ≤ n) :
    Rel Sh c cfg.ch (input E cfg S inb len).1 (input E (monoCfgC cfg mc) s (inb.map (projIn cfg c n)) len).1 ∧
    (input E (monoCfgC cfg mc) s (inb.map (projIn cfg c n)) len).2 = (input E cfg S inb len).2 := by
  cases hE : S.error with
  | some e =>
    rw [input_err cfg S _ _ (by simp [hE]), input_err (monoCfgC cfg mc) s _ _ (by simp [h.error, hE])]
    exact ⟨h, rfl⟩
  | none =>
    have hE' : s.error = none := by rw [h.error, hE]
    by_cases hl : len = 0
    · subst hl
      rw [input_eof cfg S _ hE, input_eof (monoCfgC cfg mc) s _ hE']
      exact ⟨⟨h.hc, h.len, h.clen, h.uni, h.eng, h.clips, rfl, h.error, h.fn, h.seed⟩, rfl⟩
    · cases inb with
      | none =>
        rw [Option.map_none, input_null cfg S _ hE hl, input_null (monoCfgC cfg mc) s _ hE' hl]
        exact ⟨⟨h.hc, h.len, h.clen, h.uni, h.eng, h.clips, h.flushing, rfl, h.fn, h.seed⟩, rfl⟩
      | some b =>
        rw [Option.map_some, input_feed cfg S _ _ hE hl, input_feed (monoCfgC cfg mc) s _ _ hE' hl]
        refine ⟨⟨h.hc, ?_, h.clen, ?_, ?_, h.clips, h.flushing, h.error, h.fn, h.seed⟩, rfl⟩
        · show (feedAll E cfg S.eng b len).length = _
          rw [feedAll_length]; exact h.len
        · exact uniform_feedAll Sh cfg S.eng b len h.uni
        · show feedAll E (monoCfgC cfg mc) s.eng (projIn cfg c n b) len = (feedAll E cfg S.eng b len)[c]?.toList
          rw [h.eng]; exact (feedAll_proj cfg S.eng b len n c hn).symm

theorem outputNoCb_sim (Sh : Shape E κ) (cfg : Cfg α β) {c : Nat} (V : ChanConv cfg.cout cfg.ch c mc) {S s : St σ}
    (h : Rel Sh c cfg.ch S s) (len : Nat) :
    Rel Sh c cfg.ch (outputNoCb E cfg S len).1 (outputNoCb E (monoCfgC cfg mc) s len).1 ∧
    (outputNoCb E (monoCfgC cfg mc) s len).2.1 = (outputNoCb E cfg S len).2.1 ∧
    (outputNoCb E (monoCfgC cfg mc) s len).2.2 = [(outputNoCb E cfg S len).2.2.getD c []] ∧
    (outputNoCb E cfg S len).2.2.length = cfg.ch := by
  have hclt : c < S.eng.length := by rw [h.len]; exact h.hc
  have hx : S.eng[c]? = some S.eng[c] := List.getElem?_eq_getElem hclt
  have hs : s.eng = [S.eng[c]] := by rw [h.eng, hx]; rfl
  rw [outputNoCb_nf Sh cfg S len h.uni, outputNoCb_nf Sh (monoCfgC cfg mc) s len (by rw [h.eng]; exact uniform_toList Sh _ _)]
  have hlast : lastLen (S.eng.map (fun e => out1 E S.flushing e len)) = (out1 E S.flushing S.eng[c] len).1.length := by
    apply lastLen_of_all
    · intro r hr
      obtain ⟨e, he, rfl⟩ := List.mem_map.mp hr
      exact out1_len Sh _ _ _ _ (h.uni e he _ (List.getElem_mem hclt))
    · intro hnil
      rw [List.map_eq_nil_iff] at hnil
      rw [hnil] at hclt
      simp at hclt
  -- channel c's view of the shared conversion pass
  have hys : ((S.eng.map (fun e => out1 E S.flushing e len)).map (·.1)).getD c [] = (out1 E S.flushing S.eng[c] len).1 := by
    rw [List.getD_eq_getElem?_getD, List.getElem?_map, List.getElem?_map, hx]; rfl
  have hv := V.view S.seed (out1 E S.flushing S.eng[c] len).1.length ((S.eng.map (fun e => out1 E S.flushing e len)).map (·.1))
    (by simp [h.len])
    (by
      intro y hy
      obtain ⟨r, hr, rfl⟩ := List.mem_map.mp hy
      obtain ⟨e, he, rfl⟩ := List.mem_map.mp hr
      exact out1_len Sh _ _ _ _ (h.uni e he _ (List.getElem_mem hclt)))
  rw [hys] at hv
  have hmono : (monoCfgC cfg mc).cout = mc := rfl
  simp only [hs, h.flushing, h.seed, hmono, List.map_cons, List.map_nil, convAll]
  refine ⟨⟨h.hc, ?_, ?_, ?_, ?_, ?_, rfl, h.error, h.fn, ?_⟩, ?_, ?_, ?_⟩
  · simp [h.len]
  · show (addV _ _).length = _
    rw [addV_length] <;> simp [h.clen, h.len, convAll_length2]
  · show Uniform Sh (List.map (·.2) (List.map (fun e => out1 E S.flushing e len) S.eng))
    rw [List.map_map]
    exact uniform_map Sh S.eng _ h.uni (fun e e' he => out1_sh Sh _ e e' len he)
  · show [(out1 E S.flushing S.eng[c] len).2] = (List.map (·.2) (List.map (fun e => out1 E S.flushing e len) S.eng))[c]?.toList
    rw [List.getElem?_map, List.getElem?_map, hx]; rfl
  · show s.clips + ([(mc S.seed (out1 E S.flushing S.eng[c] len).1).2.1].sum) = (addV _ _).getD c 0
    rw [addV_getD _ _ _ (by simp [h.clen, h.len, convAll_length2]), h.clips, hv.2.1]
    simp
  · show (mc S.seed (out1 E S.flushing S.eng[c] len).1).2.2 = _
    exact hv.2.2.symm
  · show lastLen [out1 E S.flushing S.eng[c] len] = _
    rw [hlast]; rfl
  · show [(mc S.seed (out1 E S.flushing S.eng[c] len).1).1] = [_]
    rw [hv.1]
  · simp [h.len, convAll_length1]

/-- the answers of the input function as the 1-channel resampler sees them -/
def projReplies (cfg : Cfg α β) (c : Nat) (rs : List (Nat → FnReply β)) : List (Nat → FnReply β) :=
  rs.map (fun r req => projReply cfg c (r req))

theorem stopNow_rel (Sh : Shape E κ) {c ch : Nat} {S s : St σ} (h : Rel Sh c ch S s) (a b : Nat) :
    stopNow s a b = stopNow S a b := by
  unfold stopNow; rw [h.fn, h.flushing]

theorem goOn_rel (Sh : Shape E κ) {c ch : Nat} {S s : St σ} (h : Rel Sh c ch S s) (a b : Nat) :
    goOn s a b = goOn S a b := by
  unfold goOn; rw [h.flushing]

theorem rel_setFlushing (Sh : Shape E κ) {c ch : Nat} {S s : St σ} (h : Rel Sh c ch S s) :
    Rel Sh c ch S.setFlushing s.setFlushing :=
  ⟨h.hc, h.len, h.clen, h.uni, h.eng, h.clips, rfl, h.error, h.fn, h.seed⟩

theorem rel_setError (Sh : Shape E κ) {c ch : Nat} {S s : St σ} (h : Rel Sh c ch S s) (e : Err) :
    Rel Sh c ch (S.setError e) (s.setError e) :=
  ⟨h.hc, h.len, h.clen, h.uni, h.eng, h.clips, h.flushing, rfl, h.fn, h.seed⟩

theorem pullLoop_sim (Sh : Shape E κ) (cfg : Cfg α β) {c : Nat} (V : ChanConv cfg.cout cfg.ch c mc) (ilen len0 : Nat)
    (rs : List (Nat → FnReply β)) :
    ∀ {S s : St σ} (_ : Rel Sh c cfg.ch S s) (olen odone0 : Nat) (acc : List (List β)) (_ : acc.length = cfg.ch),
      Rel Sh c cfg.ch (pullLoop E cfg ilen len0 rs S olen odone0 acc).1
        (pullLoop E (monoCfgC cfg mc) ilen len0 (projReplies cfg c rs) s olen odone0 [acc.getD c []]).1 ∧
      (pullLoop E (monoCfgC cfg mc) ilen len0 (projReplies cfg c rs) s olen odone0 [acc.getD c []]).2.1
        = (pullLoop E cfg ilen len0 rs S olen odone0 acc).2.1 ∧
      (pullLoop E (monoCfgC cfg mc) ilen len0 (projReplies cfg c rs) s olen odone0 [acc.getD c []]).2.2
        = [(pullLoop E cfg ilen len0 rs S olen odone0 acc).2.2.getD c []] ∧
      (pullLoop E cfg ilen len0 rs S olen odone0 acc).2.2.length = cfg.ch := by
  induction rs with
  | nil =>
    intro S s h olen odone0 acc hacc
    obtain ⟨hrel, hd, ho, hl⟩ := outputNoCb_sim Sh cfg V h olen
    have happ : appendCh [acc.getD c []] (outputNoCb E (monoCfgC cfg mc) s olen).2.2
        = [(appendCh acc (outputNoCb E cfg S olen).2.2).getD c []] := by
      rw [ho, appendCh_singleton, appendCh_getD _ _ _ (by rw [hacc, hl])]
    have happl : (appendCh acc (outputNoCb E cfg S olen).2.2).length = cfg.ch := by
      rw [appendCh_length _ _ (by rw [hacc, hl]), hacc]
    unfold pullLoop projReplies
    simp only [List.map_nil, hd, stopNow_rel Sh hrel, happ]
    cases stopNow (outputNoCb E cfg S olen).1 (odone0 + (outputNoCb E cfg S olen).2.1) len0
    · obtain ⟨hrel3, hd3, ho3, hl3⟩ :=
        outputNoCb_sim Sh cfg V (rel_setFlushing Sh hrel) (olen - (outputNoCb E cfg S olen).2.1)
      simp only [Bool.false_eq_true, if_false]
      refine ⟨hrel3, ?_, ?_, ?_⟩
      · rw [hd3]
      · rw [ho3, appendCh_singleton, appendCh_getD (appendCh acc (outputNoCb E cfg S olen).2.2) _ c (by rw [happl, hl3])]
      · rw [appendCh_length _ _ (by rw [happl, hl3]), happl]
    · simp only [if_true]
      exact ⟨hrel, by simp, by simp, happl⟩
  | cons r rs ih =>
    intro S s h olen odone0 acc hacc
    obtain ⟨hrel, hd, ho, hl⟩ := outputNoCb_sim Sh cfg V h olen
    have happ : appendCh [acc.getD c []] (outputNoCb E (monoCfgC cfg mc) s olen).2.2
        = [(appendCh acc (outputNoCb E cfg S olen).2.2).getD c []] := by
      rw [ho, appendCh_singleton, appendCh_getD _ _ _ (by rw [hacc, hl])]
    have happl : (appendCh acc (outputNoCb E cfg S olen).2.2).length = cfg.ch := by
      rw [appendCh_length _ _ (by rw [hacc, hl]), hacc]
    unfold pullLoop projReplies
    simp only [List.map_cons, hd, stopNow_rel Sh hrel, happ]
    cases stopNow (outputNoCb E cfg S olen).1 (odone0 + (outputNoCb E cfg S olen).2.1) len0
    · simp only [Bool.false_eq_true, if_false]
      cases hr : r ilen with
      | fail =>
        simp only [projReply]
        exact ⟨rel_setError Sh hrel _, by simp, by simp, happl⟩
      | data n b =>
        simp only [projReply]
        obtain ⟨hrel2, -⟩ := input_sim Sh cfg hrel (some b) n n (Nat.le_refl n)
        rw [Option.map_some] at hrel2
        rw [goOn_rel Sh hrel2]
        cases goOn (input E cfg (outputNoCb E cfg S olen).1 (some b) n).1 (outputNoCb E cfg S olen).2.1 n
        · simp only [Bool.false_eq_true, if_false]
          exact ⟨hrel2, by simp, by simp, happl⟩
        · simp only [if_true]
          exact ih hrel2 _ _ _ happl
    · simp only [if_true]
      exact ⟨hrel, by simp, by simp, happl⟩

theorem output_sim (Sh : Shape E κ) (cfg : Cfg α β) {c : Nat} (V : ChanConv cfg.cout cfg.ch c mc) {S s : St σ}
    (h : Rel Sh c cfg.ch S s) (op : Bool) (len0 : Nat) (rs : List (Nat → FnReply β)) :
    Rel Sh c cfg.ch (output E cfg S op len0 rs).1 (output E (monoCfgC cfg mc) s op len0 (projReplies cfg c rs)).1 ∧
    (output E (monoCfgC cfg mc) s op len0 (projReplies cfg c rs)).2.1 = (output E cfg S op len0 rs).2.1 ∧
    (output E (monoCfgC cfg mc) s op len0 (projReplies cfg c rs)).2.2 = [(output E cfg S op len0 rs).2.2.getD c []] ∧
    (output E cfg S op len0 rs).2.2.length = cfg.ch := by
  have hb : (blank (monoCfgC cfg mc).ch : List (List β)) = [(blank cfg.ch : List (List β)).getD c []] := by
    rw [blank_getD]; rfl
  unfold output
  rw [h.error, h.fn]
  split
  · exact ⟨h, rfl, hb, blank_length _⟩
  · split
    · exact ⟨⟨h.hc, h.len, h.clen, h.uni, h.eng, h.clips, h.flushing, rfl, rfl, h.seed⟩, rfl, hb, blank_length _⟩
    · rw [hb]
      exact pullLoop_sim Sh cfg V _ _ rs h _ _ _ (blank_length _)

/-! ### the both-split loop of `soxr_process` -/

theorem lastLen_cons (r : List α × σ) (rs : List (List α × σ)) :
    lastLen (r :: rs) = if rs = [] then r.1.length else lastLen rs := by
  cases rs with
  | nil => rfl
  | cons a as => simp [lastLen, List.getLast?_cons_cons]

/-- the loop as written (input and output of channel `u` interleaved, `odone` overwritten) computes the same as:
    all inputs, then all outputs, then the conversions in channel order -/
theorem splitLoop_nf (cfg : Cfg α β) (fl : Bool) (inb : Option (InBuf β)) (ilen olen : Nat) (eng : List σ) :
    ∀ (i seed : Nat),
    splitLoop E cfg fl inb ilen olen i eng seed =
      ( ((eng.mapIdx (fun k e => feed1 E cfg inb ilen (i + k) e)).map (fun e => out1 E fl e olen)).map (·.2),
        (convAll cfg.cout seed (((eng.mapIdx (fun k e => feed1 E cfg inb ilen (i + k) e)).map
            (fun e => out1 E fl e olen)).map (·.1))).1,
        (convAll cfg.cout seed (((eng.mapIdx (fun k e => feed1 E cfg inb ilen (i + k) e)).map
            (fun e => out1 E fl e olen)).map (·.1))).2.1,
        (convAll cfg.cout seed (((eng.mapIdx (fun k e => feed1 E cfg inb ilen (i + k) e)).map
            (fun e => out1 E fl e olen)).map (·.1))).2.2,
        if eng = [] then none else some (lastLen ((eng.mapIdx (fun k e => feed1 E cfg inb ilen (i + k) e)).map
            (fun e => out1 E fl e olen))) ) := by
  induction eng with
  | nil => intro i seed; rfl
  | cons e es ih =>
    intro i seed
    unfold splitLoop
    simp only [ih (i + 1)]
    simp only [List.mapIdx_cons, List.map_cons, convAll, Nat.add_zero, reduceCtorEq, if_false, lastLen_cons]
    have hidx : ∀ k, i + 1 + k = i + (k + 1) := by intro k; omega
    simp only [hidx]
    congr 1
    congr 1
    congr 1
    congr 1
    cases es with
    | nil => rfl
    | cons a as => simp

end Soxr.Chan
