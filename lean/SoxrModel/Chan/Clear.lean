/-! placeholder (replaced by the C10 model) -/
namespace Soxr.Chan.Clear
structure DSt where
  dummy : Nat := 0
def driverLine (c : DSt) (_t : List String) : DSt × String := (c, "E c10-not-yet")
end Soxr.Chan.Clear
