import SoxrModel.Chan.Generated
/-!
# `struct soxr`, field by field, and the functions that build, clear and destroy it (property C10)

The record `Soxr` has one field per member of `struct soxr` in `/repo/src/soxr.c` — `fields_match` compares the list with
the one `harness/chan/gen.c` reads out of the source text on every run (`Generated.structFields`), `clear_preserved_match`
does the same for the members `soxr_clear` copies back from `tmp`, `set_input_fn_match` / `create_assigns_match` /
`initialise_assigns_match` for the other functions: a member added to the struct, or dropped from / added to the copies in
`soxr_clear`, changes `Generated.lean` and these `decide` proofs fail.

Opaque values (specs, callbacks, the control block, `double`s) are `Nat` tokens with `0` = all-zero bytes (NULL / 0.0),
because `soxr_create` callocs and `soxr_delete0` / `soxr_clear` `memset` the struct.  Engine creation
(`resampler_create` through the control block) is a function of exactly what `initialise` passes:
`(control_block, io_ratio, q_spec, runtime_spec, io_spec.scale)`; allocation does not fail here (C20 treats that).

`Dyn p p'` is the footprint of every other API call (`soxr_process`, `soxr_output`, `soxr_set_error`, …): they may change
the engines' contents, `channel_ptrs`' contents, `error`, `clips`, `seed`, `flushing` and nothing else.
-/
namespace Soxr.Chan.Clear

/-- RESET_ON_CLEAR, as compiled -/
def resetBit : Nat := 2147483648

structure QSpec where
  flags : Nat
  rest : Nat
  deriving DecidableEq, Repr

structure IoSpec where
  types : Nat
  scale : Nat
  flags : Nat
  deriving DecidableEq, Repr

/-- `struct soxr` -/
structure Soxr (σ : Type) where
  num_channels : Nat
  io_ratio : Nat
  error : Nat
  q_spec : QSpec
  io_spec : IoSpec
  runtime_spec : Nat
  input_fn_state : Nat
  input_fn : Nat
  max_ilen : Nat
  shared : Bool                    -- owned block allocated?
  resamplers : Option (List σ)     -- owned array and the per-channel engines
  control_block : Nat
  deinterleave : Nat
  interleave : Nat
  channel_ptrs : Bool              -- owned array allocated? (contents are scratch, written before read in every call)
  clips : Nat
  seed : Nat
  flushing : Nat

def fieldNames : List String :=
  ["num_channels", "io_ratio", "error", "q_spec", "io_spec", "runtime_spec", "input_fn_state", "input_fn", "max_ilen",
   "shared", "resamplers", "control_block", "deinterleave", "interleave", "channel_ptrs", "clips", "seed", "flushing"]

/-- what the model's `clear` copies back from `tmp` (sorted) -/
def clearKeeps : List String :=
  ["control_block", "deinterleave", "input_fn", "input_fn_state", "interleave", "io_ratio", "io_spec", "max_ilen",
   "num_channels", "q_spec", "runtime_spec"]

theorem fields_match : Generated.structFields = fieldNames := by decide
theorem clear_preserved_match : Generated.clearPreserved = clearKeeps := by decide
theorem clear_shape_match :
    Generated.clearMemset = true ∧ Generated.clearCallsDelete0 = true ∧ Generated.clearResetTest = true ∧
    Generated.clearTornDownTest = true ∧
    Generated.clearRatioKeptOnlyWithReset = true ∧ Generated.clearGuardsSetRatio = true ∧
    Generated.delete0Memset = true ∧ Generated.createCallocs = true ∧ Generated.fatalWipesThenSetsError = true ∧
    Generated.resetOnClear = resetBit := by decide
theorem set_input_fn_match : Generated.setInputFnAssigns = ["input_fn", "input_fn_state", "max_ilen"] := by decide
theorem create_assigns_match : Generated.createAssigns =
    ["control_block", "deinterleave", "interleave", "io_ratio", "io_spec", "num_channels", "q_spec", "runtime_spec", "seed"] := by decide
theorem initialise_assigns_match : Generated.initialiseAssigns = ["channel_ptrs", "resamplers", "shared"] := by decide
theorem struct_covered : Generated.coveredBytes ≤ Generated.sizeofSoxr ∧ Generated.sizeofSoxr - Generated.coveredBytes < 16 := by decide

variable {σ : Type}

/-- all-zero bytes (`calloc`, `memset(p, 0, sizeof(*p))`) -/
def zero : Soxr σ :=
  { num_channels := 0, io_ratio := 0, error := 0, q_spec := ⟨0, 0⟩, io_spec := ⟨0, 0, 0⟩, runtime_spec := 0,
    input_fn_state := 0, input_fn := 0, max_ilen := 0, shared := false, resamplers := none, control_block := 0,
    deinterleave := 0, interleave := 0, channel_ptrs := false, clips := 0, seed := 0, flushing := 0 }

/-- the engine side: what `resampler_create` answers for the arguments `initialise` passes; which control blocks have a
    `set_io_ratio` entry; how an engine reacts to it; when a constant-rate engine accepts a "new" ratio -/
structure Eng (σ : Type) where
  create : (cb ratio : Nat) → QSpec → (rt scale : Nat) → Except Nat σ
  hasSetRatio : Nat → Bool
  setRatio : σ → Nat → Nat → σ
  same : Nat → Nat → Bool

def sizeMax : Nat := 2 ^ 64 - 1
def errNoChannels : Nat := 101     -- "must set # channels before O/I ratio"
def errRange : Nat := 102          -- "I/O ratio out-of-range"
def errVarying : Nat := 103        -- "varying O/I ratio is not supported with this quality level"
def errChannels : Nat := 104       -- "# of channels can't be changed" / "invalid # of channels"

/-- `soxr_delete0` (frees everything it owns, then `memset`) -/
def delete0 (_p : Soxr σ) : Soxr σ := zero

/-- `fatal_error` -/
def fatal (p : Soxr σ) (e : Nat) : Soxr σ := { delete0 p with error := e }

/-- `initialise` (every channel's engine is created from the same arguments, so they all succeed or the first fails;
    an engine error `e` is the non-zero code `e + 1`) -/
def initialise (W : Eng σ) (p : Soxr σ) : Soxr σ × Nat :=
  match W.create p.control_block p.io_ratio p.q_spec p.runtime_spec p.io_spec.scale with
  | .error e => if p.num_channels = 0 then ({ p with channel_ptrs := true, shared := true, resamplers := some [] }, 0)
                else (fatal p (e + 1), e + 1)
  | .ok e0 => ({ p with channel_ptrs := true, shared := true, resamplers := some (List.replicate p.num_channels e0) }, 0)

/-- `soxr_set_io_ratio`; ratio token 0 = "not > 0" -/
def setIoRatio (W : Eng σ) (p : Soxr σ) (r slew : Nat) : Soxr σ × Nat :=
  if p.error ≠ 0 then (p, p.error)
  else if p.num_channels = 0 then (p, errNoChannels)
  else if r = 0 then (p, errRange)
  else if p.channel_ptrs = false then initialise W { p with io_ratio := r }
  else if W.hasSetRatio p.control_block then
    ({ p with resamplers := p.resamplers.map (fun l => l.map (fun e => W.setRatio e r slew)) }, 0)
  else (p, if W.same p.io_ratio r then 0 else errVarying)

/-- `soxr_set_num_channels` -/
def setNumChannels (W : Eng σ) (p : Soxr σ) (n : Nat) : Soxr σ × Nat :=
  if n = p.num_channels then (p, p.error)
  else if n = 0 then (p, errChannels)
  else if p.resamplers.isSome then (p, errChannels)
  else setIoRatio W { p with num_channels := n } p.io_ratio 0

/-- the configuration `soxr_create` stores (after its own adjustments of the caller's specs, which are C09's subject) -/
structure Config where
  num_channels : Nat
  io_ratio : Nat
  q_spec : QSpec
  io_spec : IoSpec
  runtime_spec : Nat
  control_block : Nat
  deinterleave : Nat
  interleave : Nat
  deriving DecidableEq, Repr

def configOf (p : Soxr σ) : Config :=
  { num_channels := p.num_channels, io_ratio := p.io_ratio, q_spec := p.q_spec, io_spec := p.io_spec,
    runtime_spec := p.runtime_spec, control_block := p.control_block, deinterleave := p.deinterleave, interleave := p.interleave }

/-- `soxr_create` after its argument checks: calloc, store the configuration and the seed, `soxr_set_io_ratio` if the
    channel count and the ratio are known.  On error the object is deleted and NULL returned (`none`). -/
def create (W : Eng σ) (c : Config) (seed : Nat) : Option (Soxr σ) × Nat :=
  let p : Soxr σ :=
    { num_channels := c.num_channels, io_ratio := c.io_ratio, error := 0, q_spec := c.q_spec, io_spec := c.io_spec,
      runtime_spec := c.runtime_spec, input_fn_state := 0, input_fn := 0, max_ilen := 0, shared := false, resamplers := none,
      control_block := c.control_block, deinterleave := c.deinterleave, interleave := c.interleave, channel_ptrs := false,
      clips := 0, seed := seed, flushing := 0 }
  if c.num_channels ≠ 0 ∧ c.io_ratio ≠ 0 then
    let r := setIoRatio W p c.io_ratio 0
    if r.2 ≠ 0 then (none, r.2) else (some r.1, 0)
  else (some p, 0)

/-- `soxr_set_input_fn` -/
def setInputFn (p : Soxr σ) (fn state maxIlen : Nat) : Soxr σ :=
  { p with input_fn_state := state, input_fn := fn, max_ilen := if maxIlen = 0 then sizeMax else maxIlen }

def hasReset (q : QSpec) : Bool := (q.flags / resetBit) % 2 = 1

/-- what `soxr_clear` rebuilds before it decides about the ratio: all-zero bytes plus the members copied back from `tmp` -/
def clearBase (tmp : Soxr σ) : Soxr σ :=
  { num_channels := tmp.num_channels, io_ratio := 0, error := 0, q_spec := tmp.q_spec, io_spec := tmp.io_spec,
    runtime_spec := tmp.runtime_spec, input_fn_state := tmp.input_fn_state, input_fn := tmp.input_fn, max_ilen := tmp.max_ilen,
    shared := false, resamplers := none, control_block := tmp.control_block, deinterleave := tmp.deinterleave,
    interleave := tmp.interleave, channel_ptrs := false, clips := 0, seed := 0, flushing := 0 }

/-- torn down by `fatal_error` (`soxr_delete0` zeroed the struct, control block included, then the error was stored):
    `tmp.error && !tmp.control_block[9]` -/
def TornDown (p : Soxr σ) : Prop := p.error ≠ 0 ∧ p.control_block = 0

instance (p : Soxr σ) : Decidable (TornDown p) := inferInstanceAs (Decidable (p.error ≠ 0 ∧ p.control_block = 0))

/-- `soxr_clear` past its first test (after the F18 repair, commit 76fe472):
    `if (!RESET_ON_CLEAR) return 0;  p->io_ratio = tmp.io_ratio;  return (p->num_channels && p->io_ratio != 0)? soxr_set_io_ratio(…) : 0;` -/
def clearLive (W : Eng σ) (p : Soxr σ) : Soxr σ × Nat :=
  let p0 := clearBase p
  if hasReset p0.q_spec then
    let p1 : Soxr σ := { p0 with io_ratio := p.io_ratio }
    if p1.num_channels ≠ 0 ∧ p1.io_ratio ≠ 0 then setIoRatio W p1 p.io_ratio 0 else (p1, 0)
  else (p0, 0)

/-- `soxr_clear` as it is in /repo now (commit b5a678f, F40): an object a fatal error has torn down is returned unchanged
    with its error — nothing is left to restart from; any other object (an ordinary sticky error included) is rebuilt -/
def clear (W : Eng σ) (p : Soxr σ) : Soxr σ × Nat :=
  if TornDown p then (p, p.error) else clearLive W p

namespace Historical

/-- `soxr_clear` as first pinned (before 76fe472):
    `return (p->q_spec.flags & RESET_ON_CLEAR)? soxr_set_io_ratio(p, tmp.io_ratio, 0) : 0;` — the ratio reached the struct
    only through `soxr_set_io_ratio`, which refuses before storing it while the channel count is unknown (finding F18) -/
def clearOld (W : Eng σ) (p : Soxr σ) : Soxr σ × Nat :=
  let p0 := clearBase p
  if hasReset p0.q_spec then setIoRatio W p0 p.io_ratio 0 else (p0, 0)

end Historical

/-- footprint of every other API call on the object (process / output / set_error …) -/
structure Dyn (p p' : Soxr σ) : Prop where
  cfg : configOf p' = configOf p
  fn : p'.input_fn = p.input_fn ∧ p'.input_fn_state = p.input_fn_state ∧ p'.max_ilen = p.max_ilen
  shared : p'.shared = p.shared
  ptrs : p'.channel_ptrs = p.channel_ptrs
  res : p'.resamplers.isSome = p.resamplers.isSome

/-- API operations that change more than `Dyn` allows -/
inductive HOp
  | setInputFn (fn state maxIlen : Nat)
  | setIoRatio (r slew : Nat)
  | setNumChannels (n : Nat)
  | clear

def applyOp (W : Eng σ) (p : Soxr σ) : HOp → Soxr σ
  | .setInputFn f s m => setInputFn p f s m
  | .setIoRatio r l => (setIoRatio W p r l).1
  | .setNumChannels n => (setNumChannels W p n).1
  | .clear => (clear W p).1

/-- every history of one object: any interleaving of the operations above with arbitrary other calls -/
inductive Reach (W : Eng σ) : Soxr σ → Soxr σ → Prop
  | refl (p : Soxr σ) : Reach W p p
  | op {p q : Soxr σ} (o : HOp) : Reach W p q → Reach W p (applyOp W q o)
  | dyn {p q q' : Soxr σ} : Reach W p q → Dyn q q' → Reach W p q'

/-- the object was not wiped by a fatal error (engine creation failing inside `soxr_clear` / `soxr_set_io_ratio`) -/
def Live (p : Soxr σ) : Prop := p.control_block ≠ 0

/-! ### process-wide tables -/

/-- FFT cache (`fft4g_cache.h`): one pair of tables, grown to the largest length asked for so far, never shrunk.
    VR tables (`vr32.c` `fade_coefs`, `poly_fir_coefs_u/d`): written once, by the first VR instance, from ITS `mult`. -/
structure Globals where
  fftLen : Nat
  vrMult : Option Nat
  deriving DecidableEq, Repr

def Globals.init : Globals := { fftLen := 0, vrMult := none }

/-- `UPDATE_FFT_CACHE(len)` -/
def useFft (g : Globals) (len : Nat) : Globals := { g with fftLen := max g.fftLen len }

/-- `vr_init(…, mult)`: `if (fade_coefs[0]==0) { … prepare_coefs(…, mult) … }` -/
def useVr (g : Globals) (mult : Nat) : Globals := { g with vrMult := some (g.vrMult.getD mult) }

/-- what an instance does to the process-wide state when it is created / used: a list of FFT lengths and, for the VR
    engine, its `mult` (= io_spec.scale after soxr_create's full-scale adjustment) -/
structure Use where
  fft : List Nat
  vr : Option Nat
  deriving DecidableEq, Repr

def applyUse (g : Globals) (u : Use) : Globals :=
  let g1 := u.fft.foldl useFft g
  match u.vr with
  | some m => useVr g1 m
  | none => g1

/-- the gain a VR instance with `mult = m` really gets: that of the tables as they are after its `vr_init` -/
def vrEffective (g : Globals) (m : Nat) : Nat := ((useVr g m).vrMult).getD m

/-! #### the three VR tables behind ONE guard

`vr_init` fills `fade_coefs`, `poly_fir_coefs_u` and `poly_fir_coefs_d` inside one block guarded by `fade_coefs[0]==0`,
unconditionally, from `mult` and compile-time constants (`vr_init_block_match`, generated from the text of vr32.c).  The
first VR instance of the process runs the block; its OTHER parameters (number of halving stages, i.e. whether it only ever
up-samples; default ratio) must not matter for the CONTENT of any table, and no table may be left unbuilt because the
first instance does not happen to need it: a later instance of another ratio class reads it. -/

/-- the parameters `vr_init` is called with -/
structure VrParams where
  mult : Nat
  stages0 : Nat          -- halving stages needed for the maximum ratio (0: never down-samples)
  ratio : Nat            -- default_io_ratio
  deriving DecidableEq, Repr

/-- each table: `none` = still all-zero, `some m` = built with gain `m` -/
structure VrTables where
  fade : Option Unit
  u : Option Nat
  d : Option Nat
  deriving DecidableEq, Repr

/-- the guarded block as it is in vr32.c: all three tables, from `mult` only -/
def vrBuild (p : VrParams) : VrTables := { fade := some (), u := some p.mult, d := some p.mult }

/-- `vr_init` on the process-wide tables: the block runs iff `fade_coefs` is still zero -/
def vrInit (t : Option VrTables) (p : VrParams) : Option VrTables := some (t.getD (vrBuild p))

/-- what a VR instance with parameters `p` gets to work with after its own `vr_init` -/
def vrSeen (t : Option VrTables) (p : VrParams) : VrTables := (vrInit t p).getD (vrBuild p)

theorem vr_init_block_match :
    Generated.vrInitBlockParams = ["mult"] ∧ Generated.vrInitBlockConditional = false ∧ Generated.vrInitBlockTablesBuilt = 3 := by
  decide

/-- what a length-`n` transform reads: entry `i` of tables currently built for length `N` (`read N n i`) -/
structure FftTables (τ : Type) where
  read : (N n i : Nat) → τ
  used : Nat → Nat
  /-- tables built for a larger length agree with those built for `n` on what a length-`n` transform reads
      (ASSUMED of fft4g.c makewt/makect; exercised by the falsifier) -/
  prefix_ok : ∀ N n i, n ≤ N → i < used n → read N n i = read n n i

def fftView {τ : Type} (T : FftTables τ) (g : Globals) (n : Nat) : List τ :=
  (List.range (T.used n)).map (fun i => T.read (useFft g n).fftLen n i)

/-! ### driver (C10 lines of `soxr_chan`): the struct-level model on the histories `harness/chan/history.c` runs -/

structure DSt where
  objs : List (String × Soxr Unit) := []

/-- the executable engine side: creation succeeds (unless the spec is marked bad), VR control blocks (token 5) take ratio changes -/
def dEng : Eng Unit :=
  { create := fun _ _ q _ _ => if q.rest = 99 then .error 7 else .ok (),   -- rest = 99: a spec `resampler_create` rejects
    hasSetRatio := fun cb => cb == 5, setRatio := fun e _ _ => e, same := fun a b => a == b }

def nat (s : String) : Nat := s.toNat?.getD 0

def showObj (name : String) (p : Soxr Unit) : String :=
  s!"F {name} num_channels={p.num_channels} io_ratio_set={if p.io_ratio ≠ 0 then 1 else 0} error={if p.error ≠ 0 then 1 else 0} input_fn={if p.input_fn ≠ 0 then 1 else 0} input_fn_state={if p.input_fn_state ≠ 0 then 1 else 0} max_ilen={p.max_ilen} shared={if p.shared then 1 else 0} resamplers={if p.resamplers.isSome then 1 else 0} control_block={if p.control_block ≠ 0 then 1 else 0} deinterleave={if p.deinterleave ≠ 0 then 1 else 0} interleave={if p.interleave ≠ 0 then 1 else 0} channel_ptrs={if p.channel_ptrs then 1 else 0} clips={p.clips} seed0={if p.seed = 0 then 1 else 0} flushing={p.flushing} reset_on_clear={if hasReset p.q_spec then 1 else 0}"

def setObj (d : DSt) (name : String) (p : Soxr Unit) : DSt :=
  { objs := (name, p) :: d.objs.filter (fun x => x.1 ≠ name) }

def getObj (d : DSt) (name : String) : Option (Soxr Unit) := (d.objs.find? (fun x => x.1 = name)).map (·.2)

/-- `c10 new X <ch> <ratioTok> <reset> <vr> [bad]` | `c10 X setch <n>` | `c10 X setfn <m>` | `c10 X clear` | `c10 X ratio <tok>` | `c10 X dyn` | `c10 X fields` | `c10 del X` -/
def driverLine (d : DSt) (t : List String) : DSt × String :=
  match t with
  | ["new", x, ch, ratio, reset, vr] =>
    let c : Config := { num_channels := nat ch, io_ratio := nat ratio, q_spec := ⟨if nat reset ≠ 0 then resetBit else 0, 1⟩,
                        io_spec := ⟨0, 1, 0⟩, runtime_spec := 1, control_block := if nat vr ≠ 0 then 5 else 4,
                        deinterleave := 1, interleave := 1 }
    match (create dEng c 12345).1 with
    | some p => (setObj d x p, showObj x p)
    | none => (d, s!"F {x} none")
  | ["new", x, ch, ratio, reset, vr, "bad"] =>      -- deferred object whose quality spec the engine will reject
    let c : Config := { num_channels := nat ch, io_ratio := nat ratio, q_spec := ⟨if nat reset ≠ 0 then resetBit else 0, 99⟩,
                        io_spec := ⟨0, 1, 0⟩, runtime_spec := 1, control_block := if nat vr ≠ 0 then 5 else 4,
                        deinterleave := 1, interleave := 1 }
    match (create dEng c 12345).1 with
    | some p => (setObj d x p, showObj x p)
    | none => (d, s!"F {x} none")
  | [x, "pin"] => match getObj d x with               -- the harness pins the dither seed (time/address derived otherwise)
    | some p => let p' := { p with seed := 1 }; (setObj d x p', showObj x p')
    | none => (d, s!"F {x} none")
  | [x, "setch", n] => match getObj d x with
    | some p => let p' := (setNumChannels dEng p (nat n)).1; (setObj d x p', showObj x p')
    | none => (d, s!"F {x} none")
  | ["del", x] => ({ objs := d.objs.filter (fun y => y.1 ≠ x) }, "ok")
  | [x, "fields"] => match getObj d x with
    | some p => (d, showObj x p)
    | none => (d, s!"F {x} none")
  | [x, "setfn", m] => match getObj d x with
    | some p => let p' := setInputFn p 7 9 (nat m); (setObj d x p', showObj x p')
    | none => (d, s!"F {x} none")
  | [x, "clear"] => match getObj d x with
    | some p => let p' := (clear dEng p).1; (setObj d x p', showObj x p')
    | none => (d, s!"F {x} none")
  | [x, "ratio", r] => match getObj d x with
    | some p => let p' := (setIoRatio dEng p (nat r) 0).1; (setObj d x p', showObj x p')
    | none => (d, s!"F {x} none")
  | [x, "dyn", err, clips, fl] => match getObj d x with   -- the footprint of process/output calls, as observed on the real object
    | some p => let p' := { p with error := nat err, clips := nat clips, flushing := nat fl, seed := 1 }; (setObj d x p', showObj x p')
    | none => (d, s!"F {x} none")
  | _ => (d, "E bad-c10-line")

end Soxr.Chan.Clear
