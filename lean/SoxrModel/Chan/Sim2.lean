import SoxrModel.Chan.Sim
/-!
# C06: `soxr_process` (both paths), one API step, whole runs; the clip-count invariant; both-split path ≡ generic path
-/
namespace Soxr.Chan

variable {σ α β κ : Type} {E : Engine σ α} {mc : Nat → List α → List β × Nat × Nat}

theorem lastLen_nil : lastLen ([] : List (List α × σ)) = 0 := rfl

theorem mapIdx_id {A : Type} (l : List A) : l.mapIdx (fun _ e => e) = l := by
  induction l with
  | nil => rfl
  | cons a as ih => rw [List.mapIdx_cons, ih]

theorem feedOpt_none (cfg : Cfg α β) (eng : List σ) (ilen : Nat) : feedOpt E cfg eng none ilen = eng := by
  unfold feedOpt feed1; exact mapIdx_id eng

theorem feedOpt_some (cfg : Cfg α β) (eng : List σ) (b : InBuf β) (ilen : Nat) :
    feedOpt E cfg eng (some b) ilen = feedAll E cfg eng b ilen := rfl

/-- the both-split branch of `soxr_process`, unconditionally: every channel's input, then `soxr_output_no_callback` -/
theorem process_split_eq (cfg : Cfg α β) (s : St σ) (inb : Option (InBuf β)) (ilen0 : Nat) (fr wi op : Bool) (olen : Nat)
    (rs : List (Nat → FnReply β)) (hs : cfg.isplit = true ∧ cfg.osplit = true) (hn : ¬ (op = false ∧ inb.isNone))
    (he : s.error = none) :
    process E cfg s inb ilen0 fr wi op olen rs =
      { st := (outputNoCb E cfg { (procFlush cfg s inb ilen0 fr wi olen) with
                  eng := feedOpt E cfg s.eng inb (procIlen cfg inb ilen0 wi olen) } olen).1,
        idone := procIlen cfg inb ilen0 wi olen,
        odone := (outputNoCb E cfg { (procFlush cfg s inb ilen0 fr wi olen) with
                  eng := feedOpt E cfg s.eng inb (procIlen cfg inb ilen0 wi olen) } olen).2.1,
        out := (outputNoCb E cfg { (procFlush cfg s inb ilen0 fr wi olen) with
                  eng := feedOpt E cfg s.eng inb (procIlen cfg inb ilen0 wi olen) } olen).2.2 } := by
  have he' : (procFlush cfg s inb ilen0 fr wi olen).error.isSome = false := by
    show s.error.isSome = false
    rw [he]; rfl
  unfold process
  simp only [hn, if_false, hs, and_self, if_true, he', Bool.false_eq_true]
  rw [splitLoop_nf]
  simp only [Nat.zero_add]
  unfold outputNoCb
  simp only [hs, if_true]
  by_cases hnil : s.eng = []
  · simp [hnil, feedOpt, procFlush, lastLen, convAll]
  · have hne : (procFlush cfg s inb ilen0 fr wi olen).eng ≠ [] := hnil
    simp only [hne, if_false, Option.getD_some]
    rfl

/-- a latched error: `soxr_process` returns at once on either path (commit 27b24c1), after the flush bookkeeping -/
theorem process_err (cfg : Cfg α β) (s : St σ) (inb : Option (InBuf β)) (ilen0 : Nat) (fr wi op : Bool) (olen : Nat)
    (rs : List (Nat → FnReply β)) (hn : ¬ (op = false ∧ inb.isNone)) (he : s.error.isSome = true) :
    process E cfg s inb ilen0 fr wi op olen rs
      = { st := procFlush cfg s inb ilen0 fr wi olen, idone := 0, odone := 0, out := blank cfg.ch } := by
  have he' : (procFlush cfg s inb ilen0 fr wi olen).error.isSome = true := he
  unfold process
  simp only [hn, if_false, he', if_true]

theorem rel_flushAll (Sh : Shape E κ) {c ch : Nat} {S s : St σ} (h : Rel Sh c ch S s) :
    Rel Sh c ch (flushAll E S) (flushAll E s) := by
  have hc : (s.flushing = true ∧ s.error.isSome = false) ↔ (S.flushing = true ∧ S.error.isSome = false) := by
    rw [h.flushing, h.error]
  unfold flushAll
  by_cases hS : S.flushing = true ∧ S.error.isSome = false
  · rw [if_pos hS, if_pos (hc.mpr hS)]
    refine ⟨h.hc, by simp [h.len], h.clen, ?_, ?_, h.clips, h.flushing, h.error, h.fn, h.seed⟩
    · exact uniform_map Sh S.eng _ h.uni (fun e e' he => by rw [Sh.flush_sh, Sh.flush_sh, he])
    · show s.eng.map _ = (S.eng.map _)[c]?.toList
      rw [h.eng, toList_getElem?_map]
  · rw [if_neg hS, if_neg (fun x => hS (hc.mp x))]
    exact h

theorem procIlen_le (cfg : Cfg α β) (b : InBuf β) (ilen0 : Nat) (wi : Bool) (olen : Nat) :
    procIlen cfg (some b) ilen0 wi olen ≤ ilen0 := by
  unfold procIlen
  simp only [Option.isNone_some, Bool.false_eq_true, if_false]
  split
  · exact Nat.min_le_right _ _
  · exact Nat.le_refl _

theorem procIlen_le' (cfg : Cfg α β) (inb : Option (InBuf β)) (ilen0 : Nat) (wi : Bool) (olen : Nat) :
    procIlen cfg inb ilen0 wi olen ≤ ilen0 := by
  cases inb with
  | none => simp [procIlen]
  | some b => exact procIlen_le cfg b ilen0 wi olen

theorem procIlen_proj (cfg : Cfg α β) (c : Nat) (inb : Option (InBuf β)) (ilen0 : Nat) (wi : Bool) (olen : Nat) :
    procIlen (monoCfgC cfg mc) (inb.map (projIn cfg c ilen0)) ilen0 wi olen = procIlen cfg inb ilen0 wi olen := by
  cases inb <;> rfl

theorem rel_procFlush (Sh : Shape E κ) (cfg : Cfg α β) {c : Nat} {S s : St σ} (h : Rel Sh c cfg.ch S s)
    (inb : Option (InBuf β)) (ilen0 : Nat) (fr wi : Bool) (olen : Nat) :
    Rel Sh c cfg.ch (procFlush cfg S inb ilen0 fr wi olen)
      (procFlush (monoCfgC cfg mc) s (inb.map (projIn cfg c ilen0)) ilen0 fr wi olen) := by
  refine ⟨h.hc, h.len, h.clen, h.uni, h.eng, h.clips, ?_, h.error, h.fn, h.seed⟩
  unfold procFlush
  simp only [procIlen_proj, h.flushing]
  cases inb <;> rfl

theorem feedOpt_sim (Sh : Shape E κ) (cfg : Cfg α β) {c : Nat} {S s : St σ} (h : Rel Sh c cfg.ch S s)
    (inb : Option (InBuf β)) (ilen n : Nat) (hn : ilen ≤ n) :
    Rel Sh c cfg.ch { S with eng := feedOpt E cfg S.eng inb ilen }
      { s with eng := feedOpt E (monoCfgC cfg mc) s.eng (inb.map (projIn cfg c n)) ilen } := by
  cases inb with
  | none =>
    rw [Option.map_none, feedOpt_none, feedOpt_none]; exact h
  | some b =>
    rw [Option.map_some, feedOpt_some, feedOpt_some]
    refine ⟨h.hc, ?_, h.clen, ?_, ?_, h.clips, h.flushing, h.error, h.fn, h.seed⟩
    · show (feedAll E cfg S.eng b ilen).length = _
      rw [feedAll_length]; exact h.len
    · exact uniform_feedAll Sh cfg S.eng b ilen h.uni
    · show feedAll E (monoCfgC cfg mc) s.eng (projIn cfg c n b) ilen = (feedAll E cfg S.eng b ilen)[c]?.toList
      rw [h.eng]; exact (feedAll_proj cfg S.eng b ilen n c hn).symm

/-- `soxr_process`, whichever path the layout selects: the 1-channel run mirrors channel `c` -/
theorem process_sim (Sh : Shape E κ) (cfg : Cfg α β) {c : Nat} (V : ChanConv cfg.cout cfg.ch c mc) {S s : St σ}
    (h : Rel Sh c cfg.ch S s) (inb : Option (InBuf β)) (ilen0 : Nat) (fr wi op : Bool) (olen : Nat)
    (rs : List (Nat → FnReply β)) :
    Rel Sh c cfg.ch (process E cfg S inb ilen0 fr wi op olen rs).st
      (process E (monoCfgC cfg mc) s (inb.map (projIn cfg c ilen0)) ilen0 fr wi op olen (projReplies cfg c rs)).st ∧
    (process E (monoCfgC cfg mc) s (inb.map (projIn cfg c ilen0)) ilen0 fr wi op olen (projReplies cfg c rs)).idone
      = (process E cfg S inb ilen0 fr wi op olen rs).idone ∧
    (process E (monoCfgC cfg mc) s (inb.map (projIn cfg c ilen0)) ilen0 fr wi op olen (projReplies cfg c rs)).odone
      = (process E cfg S inb ilen0 fr wi op olen rs).odone ∧
    (process E (monoCfgC cfg mc) s (inb.map (projIn cfg c ilen0)) ilen0 fr wi op olen (projReplies cfg c rs)).out
      = [(process E cfg S inb ilen0 fr wi op olen rs).out.getD c []] ∧
    (process E cfg S inb ilen0 fr wi op olen rs).out.length = cfg.ch := by
  have hb : (blank (monoCfgC cfg mc).ch : List (List β)) = [(blank cfg.ch : List (List β)).getD c []] := by
    rw [blank_getD]; rfl
  have hnone : (inb.map (projIn cfg c ilen0)).isNone = inb.isNone := by cases inb <;> rfl
  have hfl := rel_procFlush (mc := mc) Sh cfg h inb ilen0 fr wi olen
  have hle := procIlen_le' cfg inb ilen0 wi olen
  by_cases hn : op = false ∧ inb.isNone
  · unfold process
    simp only [hnone, hn, and_self, if_true, procIlen_proj]
    exact ⟨rel_flushAll Sh hfl, by simp, by simp, hb, blank_length _⟩
  · by_cases hE : S.error.isSome = true
    · rw [process_err cfg S inb ilen0 fr wi op olen rs hn hE,
        process_err (monoCfgC cfg mc) s _ ilen0 fr wi op olen _ (by rw [hnone]; exact hn) (by rw [h.error]; exact hE)]
      exact ⟨hfl, rfl, rfl, hb, blank_length _⟩
    have hEn : S.error = none := by
      cases hS : S.error with
      | none => rfl
      | some e => rw [hS] at hE; simp at hE
    have hEn' : s.error = none := by rw [h.error]; exact hEn
    have hEf : (procFlush cfg S inb ilen0 fr wi olen).error.isSome = false := by
      show S.error.isSome = false
      rw [hEn]; rfl
    have hEf' : (procFlush (monoCfgC cfg mc) s (inb.map (projIn cfg c ilen0)) ilen0 fr wi olen).error.isSome = false := by
      show s.error.isSome = false
      rw [hEn']; rfl
    by_cases hs : cfg.isplit = true ∧ cfg.osplit = true
    · rw [process_split_eq cfg S inb ilen0 fr wi op olen rs hs hn hEn,
        process_split_eq (monoCfgC cfg mc) s _ ilen0 fr wi op olen _ hs (by rw [hnone]; exact hn) hEn']
      simp only [procIlen_proj]
      obtain ⟨h1, h2, h3, h4⟩ := outputNoCb_sim Sh cfg V (feedOpt_sim Sh cfg hfl inb _ ilen0 hle) olen
      exact ⟨h1, by simp, h2, h3, h4⟩
    · have hs' : ¬ ((monoCfgC cfg mc).isplit = true ∧ (monoCfgC cfg mc).osplit = true) := hs
      unfold process
      simp only [hnone, hn, hs, hs', if_false, procIlen_proj, hEf, hEf', Bool.false_eq_true]
      by_cases hz : procIlen cfg inb ilen0 wi olen = 0
      · simp only [hz, ne_eq, not_true_eq_false, not_false_eq_true, if_true, if_false, ite_not]
        obtain ⟨h1, h2, h3, h4⟩ := output_sim Sh cfg V hfl op olen rs
        exact ⟨h1, by simp, h2, h3, h4⟩
      · simp only [hz, ne_eq, not_true_eq_false, not_false_eq_true, if_true, if_false, ite_not]
        obtain ⟨hr1, hi1⟩ := input_sim (mc := mc) Sh cfg hfl inb (procIlen cfg inb ilen0 wi olen) ilen0 hle
        obtain ⟨h1, h2, h3, h4⟩ := output_sim Sh cfg V hr1 op olen rs
        exact ⟨h1, hi1, h2, h3, h4⟩

end Soxr.Chan
