import SoxrModel.Chan.Toy
import SoxrModel.Chan.Clear
/-!
# `soxr_chan`: line-protocol driver of the Chan models (C06 API layer over the toy engine; C10 struct-level model)

stdin, one op per line; one answer line per op.  `harness/chan/api.c` executes the same lines on the REAL `soxr.c` +
`data-io.c` with the same toy engine plugged in through `control_block`, `checks/c06.py` diffs the answers.

```
cfg <ch> <isplit> <osplit> <otype> <dither> <m> <l> <scale> <seed> <vr>     -> "ok"
proc <hasIn> <ilen0> <flushReq> <wantIdone> <outPresent> <olen> <tagbase> <reply>*
pull <outPresent> <olen> <reply>*                    reply: d<N>:<tagbase> | e | f
setfn <maxilen> | ratio <m> <l> <slew> | clear
   -> "o idone= odone= err= ret= fl= delay= clips= seed= n= h= v=…"   (n, h, v: the caller's output memory, in memory order)
imap de <ch> <n>     -> "im …"   channel after channel: which flat index each dest[c][f] received
imap in <ch> <n>     -> "im …"   the flat buffer: which source sample (c·n + f) each position received
```
C10 lines (`c10 …`) are handled by `Soxr.Chan.Clear.driverLine`.
-/
namespace Soxr.Chan.Main
open Soxr.Chan

def nat (s : String) : Nat := s.toNat?.getD 0

/-- input sample (in 1/32768 units) of frame `f` (relative to the block), channel `c` -/
def tag (base f c : Nat) : Int :=
  (((((base + f * 7 + c * 1301) % 2 ^ 32) * 2654435761) % 2 ^ 32) / 2 ^ 17 : Nat) - 16384

def chanData (base n c : Nat) : List Int := (List.range n).map (fun f => tag base f c)

structure D where
  ch : Nat := 1
  isplit : Bool := false
  osplit : Bool := false
  otype : Nat := 1
  dither : Bool := false
  m : Nat := 1
  l : Nat := 1
  scale : Nat := 1
  vr : Bool := false
  st : St Toy.TE := initSt (Toy.engine 1 1 1) 1 0

def D.cfg (d : D) : Cfg Int Int := Toy.cfg d.ch d.isplit d.osplit d.otype d.dither d.m d.l d.vr
def D.eng (d : D) : Engine Toy.TE Int := Toy.engine d.m d.l d.scale

def mkBuf (d : D) (base n : Nat) : InBuf Int :=
  encodeIn d.cfg n ((List.range d.ch).map (chanData base n))

def parseReply (d : D) (tok : String) : Nat → FnReply Int :=
  if tok == "f" then fun _ => .fail
  else if tok == "e" then fun _ => .data 0 (mkBuf d 0 0)
  else
    let body := (tok.drop 1).toString
    match body.splitOn ":" with
    | [a, b] => fun req => let n := min (nat a) req; .data n (mkBuf d (nat b) n)
    | _ => fun _ => .data 0 (mkBuf d 0 0)

def fnv (vs : List Int) : UInt64 :=
  vs.foldl (fun h v => (h ^^^ UInt64.ofNat (v % (2 ^ 64 : Int)).toNat) * 0x100000001B3) 0xCBF29CE484222325

def errCode : Option Err → Nat
  | none => 0
  | some .nullIn => 1
  | some .nullOut => 2
  | some .fnFail => 3

/-- the caller's output memory in memory order -/
def rawOut (d : D) (odone : Nat) (out : List (List Int)) : List Int :=
  if d.osplit then (List.range d.ch).flatMap (fun c => takePad 0 odone (out.getD c []))
  else interleave 0 d.ch odone out

def obsLine (d : D) (s : St Toy.TE) (o : Obs Int) (showIdone : Bool := true) : String :=
  let raw := rawOut d o.odone o.out
  let first := ",".intercalate ((raw.take 6).map toString)
  let idone := if showIdone then toString o.idone else "-"
  s!"o idone={idone} odone={o.odone} err={errCode o.err} ret={o.ret} fl={if o.flushing then 1 else 0} delay={o.delay} clips={s.clips} seed={s.seed} n={raw.length} h={fnv raw} v={first}"

def doOp (d : D) (op : Op Int) (showIdone : Bool := true) : D × String :=
  let r := step d.eng d.cfg d.st op
  ({ d with st := r.1 }, obsLine d r.1 r.2 showIdone)

def handle (d : D) (t : List String) : D × String :=
  match t with
  | ["cfg", ch, isp, osp, ot, di, m, l, sc, seed, vr] =>
    let d' : D := { ch := nat ch, isplit := nat isp != 0, osplit := nat osp != 0, otype := nat ot, dither := nat di != 0,
                    m := nat m, l := nat l, scale := nat sc, vr := nat vr != 0 }
    ({ d' with st := initSt d'.eng d'.ch (nat seed) }, "ok")
  | "proc" :: hasIn :: ilen0 :: fr :: wi :: op :: olen :: base :: reps =>
    let inb := if nat hasIn != 0 then some (mkBuf d (nat base) (nat ilen0)) else none
    doOp d (.process inb (nat ilen0) (nat fr != 0) (nat wi != 0) (nat op != 0) (nat olen) (reps.map (parseReply d))) (nat wi != 0)
  | "pull" :: op :: olen :: reps => doOp d (.output (nat op != 0) (nat olen) (reps.map (parseReply d)))
  | ["setfn", m] => doOp d (.setInputFn (nat m))
  | ["ratio", m, l, slew] =>
    let (d', line) := doOp d (.setRatio (nat m * 16 + nat l) (nat slew))
    -- the toy engine follows the new ratio (VR only); `p->io_ratio` (hence `iForO`) stays as created, as in soxr.c
    (d', line)
  | ["clear"] => doOp d .clear
  | ["imap", "de", ch, n] =>
    let flat : List Int := (List.range (nat n * nat ch)).map (fun (k : Nat) => Int.ofNat k)
    (d, "im " ++ " ".intercalate (((List.range (nat ch)).flatMap (fun c => deinterleave 0 (nat ch) (nat n) flat c)).map toString))
  | ["imap", "in", ch, n] =>
    let chans : List (List Int) := (List.range (nat ch)).map (fun c => (List.range (nat n)).map (fun (f : Nat) => Int.ofNat (c * nat n + f)))
    (d, "im " ++ " ".intercalate ((interleave 0 (nat ch) (nat n) chans).map toString))
  | _ => (d, "E bad-line")

partial def loop (h : IO.FS.Stream) (out : IO.FS.Stream) (d : D) (c : Clear.DSt) : IO Unit := do
  let line ← h.getLine
  if line.isEmpty then return
  let t := (line.trimAscii.toString.splitOn " ").filter (· ≠ "")
  match t with
  | [] => loop h out d c
  | "c10" :: rest =>
    let (c', ans) := Clear.driverLine c rest
    out.putStrLn ans
    loop h out d c'
  | _ =>
    let (d', ans) := handle d t
    out.putStrLn ans
    loop h out d' c

end Soxr.Chan.Main

def main : IO Unit := do
  let stdin ← IO.getStdin
  let stdout ← IO.getStdout
  Soxr.Chan.Main.loop stdin stdout {} {}
