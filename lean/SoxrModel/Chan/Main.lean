/-! Line-protocol driver of the Chan model (stub). -/
def main : IO Unit := pure ()
