import SoxrModel.Chan.Model
/-!
# Lemmas for C06: list helpers, the engine count abstraction (`Shape`), seed-free conversions (`PureConv`), the
# multi/mono simulation relation and its preservation by every API-layer function.
-/
namespace Soxr.Chan

variable {σ α β κ : Type}

/-! ## list helpers -/

theorem toList_getElem?_map {A B : Type} (f : A → B) (l : List A) (c : Nat) :
    (l.map f)[c]?.toList = (l[c]?.toList).map f := by
  rw [List.getElem?_map]
  cases l[c]? <;> rfl

theorem getD_map' {A B : Type} (f : A → B) (l : List A) (c : Nat) (a : A) (b : B) (h : c < l.length) :
    (l.map f).getD c b = f (l.getD c a) := by
  rw [List.getD_eq_getElem?_getD, List.getD_eq_getElem?_getD, List.getElem?_map, List.getElem?_eq_getElem h]
  rfl

theorem getElem?_toList_of_lt {A : Type} (l : List A) (c : Nat) (a : A) (h : c < l.length) :
    l[c]?.toList = [l.getD c a] := by
  rw [List.getD_eq_getElem?_getD, List.getElem?_eq_getElem h]
  rfl

theorem lastLen_of_all (rs : List (List α × σ)) (v : Nat) (h : ∀ r ∈ rs, r.1.length = v) (hne : rs ≠ []) :
    lastLen rs = v := by
  unfold lastLen
  rw [List.getLast?_eq_some_getLast hne]
  exact h _ (List.getLast_mem hne)

theorem lastLen_singleton (r : List α × σ) : lastLen [r] = r.1.length := rfl

theorem convAll_length1 (cout : Nat → List α → List β × Nat × Nat) (seed : Nat) (ys : List (List α)) :
    (convAll cout seed ys).1.length = ys.length := by
  induction ys generalizing seed with
  | nil => rfl
  | cons y ys ih => simp [convAll, ih]

theorem convAll_length2 (cout : Nat → List α → List β × Nat × Nat) (seed : Nat) (ys : List (List α)) :
    (convAll cout seed ys).2.1.length = ys.length := by
  induction ys generalizing seed with
  | nil => rfl
  | cons y ys ih => simp [convAll, ih]

theorem addV_length (a b : List Nat) (h : a.length = b.length) : (addV a b).length = a.length := by
  simp [addV, h]

theorem addV_sum (a b : List Nat) (h : a.length = b.length) : (addV a b).sum = a.sum + b.sum := by
  induction a generalizing b with
  | nil => cases b <;> simp_all [addV]
  | cons x xs ih =>
    cases b with
    | nil => simp at h
    | cons y ys =>
      have := ih ys (by simpa using h)
      simp only [addV, List.zipWith_cons_cons, List.sum_cons] at this ⊢
      omega

theorem addV_getD (a b : List Nat) (c : Nat) (h : a.length = b.length) :
    (addV a b).getD c 0 = a.getD c 0 + b.getD c 0 := by
  unfold addV
  rw [List.getD_eq_getElem?_getD, List.getD_eq_getElem?_getD, List.getD_eq_getElem?_getD, List.getElem?_zipWith]
  by_cases hc : c < a.length
  · rw [List.getElem?_eq_getElem hc, List.getElem?_eq_getElem (h ▸ hc)]; rfl
  · rw [List.getElem?_eq_none (by omega), List.getElem?_eq_none (by omega)]; rfl

theorem appendCh_length (acc outs : List (List β)) (h : acc.length = outs.length) :
    (appendCh acc outs).length = acc.length := by
  simp [appendCh, h]

theorem appendCh_getD (acc outs : List (List β)) (c : Nat) (h : acc.length = outs.length) :
    (appendCh acc outs).getD c [] = acc.getD c [] ++ outs.getD c [] := by
  unfold appendCh
  rw [List.getD_eq_getElem?_getD, List.getD_eq_getElem?_getD, List.getD_eq_getElem?_getD, List.getElem?_zipWith]
  by_cases hc : c < acc.length
  · rw [List.getElem?_eq_getElem hc, List.getElem?_eq_getElem (h ▸ hc)]; rfl
  · rw [List.getElem?_eq_none (by omega), List.getElem?_eq_none (by omega)]; rfl

theorem appendCh_singleton (a b : List β) : appendCh [a] [b] = [a ++ b] := rfl

theorem blank_length (ch : Nat) : (blank ch : List (List β)).length = ch := by simp [blank]

theorem blank_getD (ch c : Nat) : (blank ch : List (List β)).getD c [] = [] := by
  unfold blank
  rw [List.getD_eq_getElem?_getD, List.getElem?_replicate]
  split <;> rfl

theorem sum_range_getD (l : List Nat) : ((List.range l.length).map (fun c => l.getD c 0)).sum = l.sum := by
  congr 1
  apply List.ext_getElem?
  intro i
  rw [List.getElem?_map]
  by_cases h : i < l.length
  · rw [List.getElem?_range h, List.getElem?_eq_getElem h]
    simp only [Option.map_some, List.getD_eq_getElem?_getD, List.getElem?_eq_getElem h, Option.getD_some]
  · rw [List.getElem?_eq_none (by simpa using h), List.getElem?_eq_none (by omega)]; rfl

/-! ## decoding a projected block -/

@[simp] theorem decodeIn_length (cfg : Cfg α β) (len : Nat) (b : InBuf β) (c : Nat) : (decodeIn cfg len b c).length = len := by
  cases b <;> simp [decodeIn]

theorem takePad_takePad (d : β) (m n : Nat) (l : List β) (h : m ≤ n) : takePad d m (takePad d n l) = takePad d m l := by
  unfold takePad
  apply List.map_congr_left
  intro f hf
  have hf' : f < m := List.mem_range.mp hf
  rw [List.getD_eq_getElem?_getD, List.getElem?_map, List.getElem?_range (by omega)]
  rfl

theorem takePad_deinterleave (d : β) (ch m n : Nat) (buf : List β) (c : Nat) (h : m ≤ n) :
    takePad d m (deinterleave d ch n buf c) = deinterleave d ch m buf c := by
  unfold takePad deinterleave
  apply List.map_congr_left
  intro f hf
  have hf' : f < m := List.mem_range.mp hf
  rw [List.getD_eq_getElem?_getD, List.getElem?_map, List.getElem?_range (by omega)]
  rfl

/-- a 1-channel resampler reading the projected block sees exactly what channel `c` of the multi-channel one reads -/
theorem decode_proj (cfg : Cfg α β) (mc : Nat → List α → List β × Nat × Nat) (c m n : Nat) (b : InBuf β) (h : m ≤ n) :
    decodeIn (monoCfgC cfg mc) m (projIn cfg c n b) 0 = decodeIn cfg m b c := by
  cases b with
  | inter flat =>
    simp only [projIn, decodeIn, monoCfgC]
    rw [deinterleave_one, takePad_deinterleave _ _ _ _ _ _ h]
  | split chans =>
    simp only [projIn, decodeIn, monoCfgC]
    show takePad cfg.dflt m (takePad cfg.dflt n (chans.getD c [])) = _
    rw [takePad_takePad _ _ _ _ h]

/-- encode, then decode: every channel gets its own data back (both layouts, any `ch`) -/
theorem decode_encode (cfg : Cfg α β) (len : Nat) (X : List (List β)) (c : Nat) (hc : c < cfg.ch) :
    decodeIn cfg len (encodeIn cfg len X) c = takePad cfg.dflt len (X.getD c []) := by
  unfold encodeIn
  split
  · rfl
  · simp only [decodeIn]
    exact deinterleave_interleave _ _ _ _ _ hc

/-! ## engines whose counts do not depend on the data -/

/-- a count abstraction of an engine: how many samples an engine delivers, and its delay, are functions of the
    history of LENGTHS only (for the constant-rate engine this is the count model of C03) -/
structure Shape (E : Engine σ α) (κ : Type) where
  sh : σ → κ
  inputK : κ → Nat → κ
  flushK : κ → κ
  processK : κ → Nat → κ
  outLen : κ → Nat → Nat
  outputK : κ → Nat → κ
  setRatioK : κ → Nat → Nat → κ
  delayK : κ → Nat
  input_sh : ∀ e xs, sh (E.input e xs) = inputK (sh e) xs.length
  flush_sh : ∀ e, sh (E.flush e) = flushK (sh e)
  process_sh : ∀ e n, sh (E.process e n) = processK (sh e) n
  output_len : ∀ e n, (E.output e n).1.length = outLen (sh e) n
  output_sh : ∀ e n, sh (E.output e n).2 = outputK (sh e) n
  setRatio_sh : ∀ e r l, sh (E.setRatio e r l) = setRatioK (sh e) r l
  delay_sh : ∀ e, E.delay e = delayK (sh e)

/-- a conversion that neither reads nor advances the dither seed (every output type but dithered int16) -/
structure PureConv (cout : Nat → List α → List β × Nat × Nat) where
  f : List α → List β
  g : List α → Nat
  eq : ∀ seed ys, cout seed ys = (f ys, g ys, seed)
  len : ∀ ys, (f ys).length = ys.length

theorem convAll_pure {cout : Nat → List α → List β × Nat × Nat} (P : PureConv cout) (seed : Nat) (ys : List (List α)) :
    convAll cout seed ys = (ys.map P.f, ys.map P.g, seed) := by
  induction ys generalizing seed with
  | nil => rfl
  | cons y ys ih => simp [convAll, P.eq, ih]

/-- `mc` is what channel `c` of a `ch`-channel resampler gets out of the shared conversion pass: its converted samples, its
    clips and the seed the WHOLE pass leaves behind, as a function of the seed before the pass and channel `c`'s samples —
    whenever all channels carry the same number of samples -/
structure ChanConv (cout : Nat → List α → List β × Nat × Nat) (ch c : Nat) (mc : Nat → List α → List β × Nat × Nat) : Prop where
  view : ∀ (seed d : Nat) (ys : List (List α)), ys.length = ch → (∀ y ∈ ys, y.length = d) →
    (convAll cout seed ys).1.getD c [] = (mc seed (ys.getD c [])).1 ∧
    (convAll cout seed ys).2.1.getD c 0 = (mc seed (ys.getD c [])).2.1 ∧
    (convAll cout seed ys).2.2 = (mc seed (ys.getD c [])).2.2

/-- seed-free conversion: every channel's view is the conversion itself -/
theorem chanConv_of_pure {cout : Nat → List α → List β × Nat × Nat} (P : PureConv cout) (ch c : Nat) (hc : c < ch) :
    ChanConv cout ch c cout := by
  refine ⟨fun seed d ys hl _ => ?_⟩
  rw [convAll_pure P, P.eq]
  have hc' : c < ys.length := by omega
  refine ⟨?_, ?_, rfl⟩
  · exact getD_map' P.f ys c [] [] hc'
  · exact getD_map' P.g ys c [] 0 hc'

/-- the seed after `k` channels of `d` samples each, when the seed advance depends on the seed and the sample count only -/
def skip (adv : Nat → Nat → Nat) (d : Nat) : Nat → Nat → Nat
  | 0, s => s
  | k + 1, s => skip adv d k (adv s d)

/-- channel `c`'s view of a conversion that draws from one seed stream for all `ch` channels in turn -/
def chanView (cout : Nat → List α → List β × Nat × Nat) (adv : Nat → Nat → Nat) (ch c : Nat) :
    Nat → List α → List β × Nat × Nat :=
  fun seed ys => ((cout (skip adv ys.length c seed) ys).1, (cout (skip adv ys.length c seed) ys).2.1, skip adv ys.length ch seed)

theorem convAll_skip (cout : Nat → List α → List β × Nat × Nat) (adv : Nat → Nat → Nat)
    (hadv : ∀ seed ys, (cout seed ys).2.2 = adv seed ys.length) (d : Nat) (ys : List (List α)) :
    ∀ (seed : Nat), (∀ y ∈ ys, y.length = d) →
      (convAll cout seed ys).2.2 = skip adv d ys.length seed ∧
      ∀ k, k < ys.length →
        (convAll cout seed ys).1.getD k [] = (cout (skip adv d k seed) (ys.getD k [])).1 ∧
        (convAll cout seed ys).2.1.getD k 0 = (cout (skip adv d k seed) (ys.getD k [])).2.1 := by
  induction ys with
  | nil => intro seed _; exact ⟨rfl, fun k hk => absurd hk (Nat.not_lt_zero k)⟩
  | cons y ys ih =>
    intro seed hd
    have hy : y.length = d := hd y List.mem_cons_self
    have hrest := ih (cout seed y).2.2 (fun z hz => hd z (List.mem_cons_of_mem _ hz))
    have hs : (cout seed y).2.2 = adv seed d := by rw [hadv, hy]
    refine ⟨?_, ?_⟩
    · simp only [convAll, List.length_cons, skip]
      rw [hrest.1, hs]
    · intro k hk
      cases k with
      | zero => simp [convAll, skip]
      | succ k =>
        have := hrest.2 k (by simpa using hk)
        simp only [convAll, List.getD_cons_succ, skip]
        rw [this.1, this.2, hs]
        exact ⟨rfl, rfl⟩

/-- a conversion whose seed advance depends on the seed and the number of samples only (rint-clip.h with dither: two LCG
    draws per block of 16 and two for the tail): channel `c` sees `chanView` -/
theorem chanConv_of_seedLen (cout : Nat → List α → List β × Nat × Nat) (adv : Nat → Nat → Nat)
    (hadv : ∀ seed ys, (cout seed ys).2.2 = adv seed ys.length) (ch c : Nat) (hc : c < ch) :
    ChanConv cout ch c (chanView cout adv ch c) := by
  refine ⟨fun seed d ys hl hd => ?_⟩
  have h := convAll_skip cout adv hadv d ys seed hd
  have hc' : c < ys.length := by omega
  have hlen : (ys.getD c []).length = d := by
    rw [List.getD_eq_getElem?_getD, List.getElem?_eq_getElem hc']
    exact hd _ (List.getElem_mem hc')
  unfold chanView
  simp only [hlen]
  refine ⟨(h.2 c hc').1, (h.2 c hc').2, ?_⟩
  rw [h.1, hl]

variable {E : Engine σ α}

theorem out1_len (Sh : Shape E κ) (fl : Bool) (e e' : σ) (len : Nat) (h : Sh.sh e = Sh.sh e') :
    (out1 E fl e len).1.length = (out1 E fl e' len).1.length := by
  unfold out1
  rw [Sh.output_len, Sh.output_len, Sh.process_sh, Sh.process_sh]
  cases fl
  · simp [h]
  · simp [Sh.flush_sh, h]

theorem out1_sh (Sh : Shape E κ) (fl : Bool) (e e' : σ) (len : Nat) (h : Sh.sh e = Sh.sh e') :
    Sh.sh (out1 E fl e len).2 = Sh.sh (out1 E fl e' len).2 := by
  unfold out1
  rw [Sh.output_sh, Sh.output_sh, Sh.process_sh, Sh.process_sh]
  cases fl
  · simp [h]
  · simp [Sh.flush_sh, h]

/-- all engines of a resampler are in the same count state -/
def Uniform (Sh : Shape E κ) (eng : List σ) : Prop := ∀ e ∈ eng, ∀ e' ∈ eng, Sh.sh e = Sh.sh e'

theorem uniform_replicate (Sh : Shape E κ) (n : Nat) (e : σ) : Uniform Sh (List.replicate n e) := by
  intro a ha b hb
  rw [List.eq_of_mem_replicate ha, List.eq_of_mem_replicate hb]

theorem uniform_map (Sh : Shape E κ) (eng : List σ) (f : σ → σ) (hu : Uniform Sh eng)
    (hf : ∀ e e', Sh.sh e = Sh.sh e' → Sh.sh (f e) = Sh.sh (f e')) : Uniform Sh (eng.map f) := by
  intro a ha b hb
  obtain ⟨a', ha', rfl⟩ := List.mem_map.mp ha
  obtain ⟨b', hb', rfl⟩ := List.mem_map.mp hb
  exact hf _ _ (hu a' ha' b' hb')

theorem uniform_feedAll (Sh : Shape E κ) (cfg : Cfg α β) (eng : List σ) (b : InBuf β) (len : Nat)
    (hu : Uniform Sh eng) : Uniform Sh (feedAll E cfg eng b len) := by
  intro a ha a' ha'
  unfold feedAll at ha ha'
  obtain ⟨i, hi, rfl⟩ := List.mem_mapIdx.mp ha
  obtain ⟨j, hj, rfl⟩ := List.mem_mapIdx.mp ha'
  rw [Sh.input_sh, Sh.input_sh]
  simp only [List.length_map, decodeIn_length]
  rw [hu _ (List.getElem_mem hi) _ (List.getElem_mem hj)]

end Soxr.Chan
