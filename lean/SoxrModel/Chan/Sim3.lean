import SoxrModel.Chan.Sim2
set_option linter.unusedSimpArgs false
/-!
# C06: one API step and whole runs (multi vs mono); the clip-count invariant `clips = Σ per-channel clips`
-/
namespace Soxr.Chan

variable {σ α β κ : Type} {E : Engine σ α} {mc : Nat → List α → List β × Nat × Nat}

theorem delayOf_rel (Sh : Shape E κ) {c ch : Nat} {S s : St σ} (h : Rel Sh c ch S s) : delayOf E s = delayOf E S := by
  unfold delayOf
  rw [h.error]
  split
  · rfl
  · have hclt : c < S.eng.length := by rw [h.len]; exact h.hc
    have hx : S.eng[c]? = some S.eng[c] := List.getElem?_eq_getElem hclt
    have hs : s.eng = [S.eng[c]] := by rw [h.eng, hx]; rfl
    have h0 : 0 < S.eng.length := by omega
    have hh : S.eng.head? = some S.eng[0] := by rw [List.head?_eq_getElem?, List.getElem?_eq_getElem h0]
    rw [hs, hh]
    simp only [List.head?_cons, Option.map_some, Option.getD_some]
    rw [Sh.delay_sh, Sh.delay_sh, h.uni _ (List.getElem_mem hclt) _ (List.getElem_mem h0)]

theorem mkObs_rel (Sh : Shape E κ) {c ch : Nat} {S s : St σ} (h : Rel Sh c ch S s) (a b r : Nat)
    (o : List (List β)) (o' : List (List β)) (ho : o' = [o.getD c []]) :
    mkObs E s a b r o' = projObs c (mkObs E S a b r o) := by
  unfold mkObs projObs
  simp only [h.error, h.flushing, delayOf_rel Sh h, ho]

theorem rel_init (Sh : Shape E κ) (ch c seed : Nat) (hc : c < ch) : Rel Sh c ch (initSt E ch seed) (initSt E 1 seed) := by
  refine ⟨hc, by simp [initSt], by simp [initSt], uniform_replicate Sh _ _, ?_, ?_, rfl, rfl, rfl, rfl⟩
  · simp [initSt, List.getElem?_replicate, hc]
  · simp [initSt, List.getD_eq_getElem?_getD, List.getElem?_replicate, hc]

/-- one API call: the 1-channel resampler fed channel `c` alone stays in step and sees channel `c`'s share of everything
    the caller of the multi-channel resampler sees -/
theorem step_sim (Sh : Shape E κ) (cfg : Cfg α β) {c : Nat} (V : ChanConv cfg.cout cfg.ch c mc) {S s : St σ}
    (h : Rel Sh c cfg.ch S s) (op : Op β) :
    Rel Sh c cfg.ch (step E cfg S op).1 (step E (monoCfgC cfg mc) s (projOp cfg c op)).1 ∧
    (step E (monoCfgC cfg mc) s (projOp cfg c op)).2 = projObs c (step E cfg S op).2 := by
  have hb : (blank (monoCfgC cfg mc).ch : List (List β)) = [(blank cfg.ch : List (List β)).getD c []] := by
    rw [blank_getD]; rfl
  cases op with
  | process inb ilen0 fr wi op olen rs =>
    obtain ⟨h1, h2, h3, h4, -⟩ := process_sim Sh cfg V h inb ilen0 fr wi op olen rs
    refine ⟨h1, ?_⟩
    show mkObs E _ _ _ _ _ = projObs c (mkObs E _ _ _ _ _)
    have := mkObs_rel Sh h1 (process E cfg S inb ilen0 fr wi op olen rs).idone
      (process E cfg S inb ilen0 fr wi op olen rs).odone
      (if (process E cfg S inb ilen0 fr wi op olen rs).st.error.isSome then 1 else 0) _ _ h4
    rw [← this]
    simp only [projReplies] at h2 h3 h1 ⊢
    rw [h2, h3, h1.error]
  | output op olen rs =>
    obtain ⟨h1, h2, h3, -⟩ := output_sim Sh cfg V h op olen rs
    refine ⟨h1, ?_⟩
    show mkObs E _ _ _ _ _ = projObs c (mkObs E _ _ _ _ _)
    have := mkObs_rel Sh h1 0 (output E cfg S op olen rs).2.1 0 _ _ h3
    rw [← this]
    simp only [projReplies] at h2 ⊢
    rw [h2]
  | setInputFn m =>
    have h1 : Rel Sh c cfg.ch { S with fn := some (if m = 0 then sizeMax else m) }
        { s with fn := some (if m = 0 then sizeMax else m) } :=
      ⟨h.hc, h.len, h.clen, h.uni, h.eng, h.clips, h.flushing, h.error, rfl, h.seed⟩
    exact ⟨h1, mkObs_rel Sh h1 0 0 0 _ _ hb⟩
  | setRatio r slew =>
    have e1 : s.error.isSome = S.error.isSome := by rw [h.error]
    by_cases hE : S.error.isSome = true
    · have t1 : step E cfg S (.setRatio r slew) = (S, mkObs E S 0 0 1 (blank cfg.ch)) := by simp [step, hE]
      have t2 : step E (monoCfgC cfg mc) s (.setRatio r slew) = (s, mkObs E s 0 0 1 (blank (monoCfgC cfg mc).ch)) := by
        simp [step, e1, hE]
      rw [projOp, t1, t2]
      exact ⟨h, mkObs_rel Sh h 0 0 1 _ _ hb⟩
    · by_cases hr : cfg.hasSetRatio = true
      · have hr' : (monoCfgC cfg mc).hasSetRatio = true := hr
        have t1 : step E cfg S (.setRatio r slew) = ({ S with eng := S.eng.map (fun e => E.setRatio e r slew) },
            mkObs E { S with eng := S.eng.map (fun e => E.setRatio e r slew) } 0 0 0 (blank cfg.ch)) := by
          simp [step, hE, hr]
        have t2 : step E (monoCfgC cfg mc) s (.setRatio r slew) = ({ s with eng := s.eng.map (fun e => E.setRatio e r slew) },
            mkObs E { s with eng := s.eng.map (fun e => E.setRatio e r slew) } 0 0 0 (blank (monoCfgC cfg mc).ch)) := by
          simp [step, e1, hE, hr']
        rw [projOp, t1, t2]
        have h1 : Rel Sh c cfg.ch { S with eng := S.eng.map (fun e => E.setRatio e r slew) }
            { s with eng := s.eng.map (fun e => E.setRatio e r slew) } := by
          refine ⟨h.hc, by simp [h.len], h.clen, ?_, ?_, h.clips, h.flushing, h.error, h.fn, h.seed⟩
          · exact uniform_map Sh S.eng _ h.uni (fun e e' he => by rw [Sh.setRatio_sh, Sh.setRatio_sh, he])
          · show s.eng.map _ = (S.eng.map _)[c]?.toList
            rw [h.eng, toList_getElem?_map]
        exact ⟨h1, mkObs_rel Sh h1 0 0 0 _ _ hb⟩
      · have hr' : ¬ (monoCfgC cfg mc).hasSetRatio = true := hr
        have t1 : step E cfg S (.setRatio r slew) = (S, mkObs E S 0 0 (if cfg.sameRatio r then 0 else 1) (blank cfg.ch)) := by
          simp [step, hE, hr]
        have t2 : step E (monoCfgC cfg mc) s (.setRatio r slew)
            = (s, mkObs E s 0 0 (if (monoCfgC cfg mc).sameRatio r then 0 else 1) (blank (monoCfgC cfg mc).ch)) := by
          simp [step, e1, hE, hr']
        rw [projOp, t1, t2]
        exact ⟨h, mkObs_rel Sh h 0 0 _ _ _ hb⟩
  | clear =>
    have h1 : Rel Sh c cfg.ch { (initSt E cfg.ch 0) with fn := S.fn } { (initSt E (monoCfgC cfg mc).ch 0) with fn := s.fn } := by
      have := rel_init Sh cfg.ch c 0 h.hc
      exact ⟨this.hc, this.len, this.clen, this.uni, this.eng, this.clips, this.flushing, this.error, h.fn, this.seed⟩
    exact ⟨h1, mkObs_rel Sh h1 0 0 0 _ _ hb⟩

theorem run_sim (Sh : Shape E κ) (cfg : Cfg α β) {c : Nat} (V : ChanConv cfg.cout cfg.ch c mc) (ops : List (Op β)) :
    ∀ {S s : St σ}, Rel Sh c cfg.ch S s →
      Rel Sh c cfg.ch (run E cfg S ops).1 (run E (monoCfgC cfg mc) s (ops.map (projOp cfg c))).1 ∧
      (run E (monoCfgC cfg mc) s (ops.map (projOp cfg c))).2 = (run E cfg S ops).2.map (projObs c) := by
  induction ops with
  | nil => intro S s h; exact ⟨h, rfl⟩
  | cons op ops ih =>
    intro S s h
    obtain ⟨h1, h2⟩ := step_sim Sh cfg V h op
    obtain ⟨h3, h4⟩ := ih h1
    simp only [run, List.map_cons]
    exact ⟨h3, by rw [h2, h4]⟩

/-! ## the clip counter -/

/-- `clips` is the sum of the per-channel shares (ghost `clipsBy`), whatever the conversion does with the seed -/
def ClipInv (S : St σ) : Prop := S.clips = S.clipsBy.sum ∧ S.clipsBy.length = S.eng.length

theorem clipInv_outputNoCb (cfg : Cfg α β) (S : St σ) (len : Nat) (h : ClipInv S) : ClipInv (outputNoCb E cfg S len).1 := by
  unfold outputNoCb ClipInv
  simp only
  have hl : S.clipsBy.length = (convAll cfg.cout S.seed (List.map (fun r => if cfg.osplit = true then r.1 else
      takePad cfg.junk (lastLen (List.map (fun e => out1 E S.flushing e len) S.eng)) r.1)
      (List.map (fun e => out1 E S.flushing e len) S.eng))).2.1.length := by
    rw [convAll_length2]; simp [h.2]
  refine ⟨?_, ?_⟩
  · rw [addV_sum _ _ hl, h.1]
  · rw [addV_length _ _ hl]; simp [h.2]

theorem clipInv_input (cfg : Cfg α β) (S : St σ) (inb : Option (InBuf β)) (len : Nat) (h : ClipInv S) :
    ClipInv (input E cfg S inb len).1 := by
  unfold input
  split
  · exact h
  · cases inb with
    | none => simp only; split <;> exact h
    | some b =>
      simp only
      split
      · exact h
      · exact ⟨h.1, by simp [feedAll_length, h.2]⟩

theorem clipInv_pullLoop (cfg : Cfg α β) (ilen len0 : Nat) (rs : List (Nat → FnReply β)) :
    ∀ (S : St σ) (olen odone0 : Nat) (acc : List (List β)), ClipInv S →
      ClipInv (pullLoop E cfg ilen len0 rs S olen odone0 acc).1 := by
  induction rs with
  | nil =>
    intro S olen odone0 acc h
    have h1 := clipInv_outputNoCb (E := E) cfg S olen h
    unfold pullLoop
    simp only
    split
    · exact h1
    · exact clipInv_outputNoCb cfg _ _ h1
  | cons r rs ih =>
    intro S olen odone0 acc h
    have h1 := clipInv_outputNoCb (E := E) cfg S olen h
    unfold pullLoop
    simp only
    split
    · exact h1
    · cases r ilen with
      | fail => exact h1
      | data n b =>
        simp only
        have h2 := clipInv_input (E := E) cfg _ (some b) n h1
        split
        · exact ih _ _ _ _ h2
        · exact h2

theorem clipInv_output (cfg : Cfg α β) (S : St σ) (op : Bool) (len0 : Nat) (rs : List (Nat → FnReply β)) (h : ClipInv S) :
    ClipInv (output E cfg S op len0 rs).1 := by
  unfold output
  split
  · exact h
  · split
    · exact h
    · exact clipInv_pullLoop cfg _ _ rs S _ _ _ h

theorem clipInv_feedOpt (cfg : Cfg α β) (S : St σ) (inb : Option (InBuf β)) (ilen : Nat) (h : ClipInv S) :
    ClipInv { S with eng := feedOpt E cfg S.eng inb ilen } := by
  refine ⟨h.1, ?_⟩
  show S.clipsBy.length = (feedOpt E cfg S.eng inb ilen).length
  simp [feedOpt, h.2]

theorem clipInv_flushAll (S : St σ) (h : ClipInv S) : ClipInv (flushAll E S) := by
  unfold flushAll
  split
  · exact ⟨h.1, by simp [h.2]⟩
  · exact h

theorem flushAll_len (S : St σ) : (flushAll E S).eng.length = S.eng.length := by
  unfold flushAll
  split
  · simp
  · rfl

theorem clipInv_process (cfg : Cfg α β) (S : St σ) (inb : Option (InBuf β)) (ilen0 : Nat) (fr wi op : Bool) (olen : Nat)
    (rs : List (Nat → FnReply β)) (h : ClipInv S) : ClipInv (process E cfg S inb ilen0 fr wi op olen rs).st := by
  have hfl : ClipInv (procFlush cfg S inb ilen0 fr wi olen) := h
  by_cases hn : op = false ∧ inb.isNone
  · unfold process
    simp only [hn, and_self, if_true]
    exact clipInv_flushAll _ hfl
  · by_cases hE : S.error.isSome = true
    · rw [process_err cfg S inb ilen0 fr wi op olen rs hn hE]; exact hfl
    have hEn : S.error = none := by
      cases hS : S.error with
      | none => rfl
      | some e => rw [hS] at hE; simp at hE
    have hEf : (procFlush cfg S inb ilen0 fr wi olen).error.isSome = false := by
      show S.error.isSome = false
      rw [hEn]; rfl
    by_cases hs : cfg.isplit = true ∧ cfg.osplit = true
    · rw [process_split_eq cfg S inb ilen0 fr wi op olen rs hs hn hEn]
      exact clipInv_outputNoCb cfg _ _ (clipInv_feedOpt cfg _ inb _ hfl)
    · unfold process
      simp only [hn, hs, if_false, hEf, Bool.false_eq_true]
      apply clipInv_output
      split
      · exact clipInv_input cfg _ _ _ hfl
      · exact hfl

theorem clipInv_init (ch seed : Nat) : ClipInv (initSt E ch seed) := by
  simp [ClipInv, initSt]

theorem clipInv_step (cfg : Cfg α β) (S : St σ) (op : Op β) (h : ClipInv S) : ClipInv (step E cfg S op).1 := by
  cases op with
  | process inb ilen0 fr wi op olen rs => exact clipInv_process cfg S inb ilen0 fr wi op olen rs h
  | output op olen rs => exact clipInv_output cfg S op olen rs h
  | setInputFn m => exact h
  | setRatio r slew =>
    simp only [step]
    split
    · exact h
    · split
      · exact ⟨h.1, by simp [h.2]⟩
      · exact h
  | clear => exact clipInv_init (E := E) cfg.ch 0

theorem clipInv_run (cfg : Cfg α β) (ops : List (Op β)) : ∀ (S : St σ), ClipInv S → ClipInv (run E cfg S ops).1 := by
  induction ops with
  | nil => intro S h; exact h
  | cons op ops ih => intro S h; exact ih _ (clipInv_step cfg S op h)

/-! ### a resampler without channels keeps an empty engine list -/

theorem outputNoCb_len (cfg : Cfg α β) (S : St σ) (len : Nat) : (outputNoCb E cfg S len).1.eng.length = S.eng.length := by
  simp [outputNoCb]

theorem input_len (cfg : Cfg α β) (S : St σ) (inb : Option (InBuf β)) (len : Nat) :
    (input E cfg S inb len).1.eng.length = S.eng.length := by
  unfold input
  split
  · rfl
  · cases inb with
    | none => simp only; split <;> rfl
    | some b => simp only; split
                · rfl
                · simp [feedAll_length]

theorem pullLoop_len (cfg : Cfg α β) (ilen len0 : Nat) (rs : List (Nat → FnReply β)) :
    ∀ (S : St σ) (olen odone0 : Nat) (acc : List (List β)),
      (pullLoop E cfg ilen len0 rs S olen odone0 acc).1.eng.length = S.eng.length := by
  induction rs with
  | nil =>
    intro S olen odone0 acc
    unfold pullLoop
    simp only
    split
    · exact outputNoCb_len cfg S olen
    · rw [outputNoCb_len]; exact outputNoCb_len cfg S olen
  | cons r rs ih =>
    intro S olen odone0 acc
    unfold pullLoop
    simp only
    split
    · exact outputNoCb_len cfg S olen
    · cases r ilen with
      | fail => exact outputNoCb_len cfg S olen
      | data n b =>
        simp only
        split
        · rw [ih, input_len]; exact outputNoCb_len cfg S olen
        · rw [input_len]; exact outputNoCb_len cfg S olen

theorem output_len (cfg : Cfg α β) (S : St σ) (op : Bool) (len0 : Nat) (rs : List (Nat → FnReply β)) :
    (output E cfg S op len0 rs).1.eng.length = S.eng.length := by
  unfold output
  split
  · rfl
  · split
    · rfl
    · exact pullLoop_len cfg _ _ rs S _ _ _

theorem process_len (cfg : Cfg α β) (S : St σ) (inb : Option (InBuf β)) (ilen0 : Nat) (fr wi op : Bool) (olen : Nat)
    (rs : List (Nat → FnReply β)) : (process E cfg S inb ilen0 fr wi op olen rs).st.eng.length = S.eng.length := by
  by_cases hn : op = false ∧ inb.isNone
  · unfold process
    simp only [hn, and_self, if_true]
    rw [flushAll_len]; rfl
  · by_cases hE : S.error.isSome = true
    · rw [process_err cfg S inb ilen0 fr wi op olen rs hn hE]; rfl
    have hEn : S.error = none := by
      cases hS : S.error with
      | none => rfl
      | some e => rw [hS] at hE; simp at hE
    have hEf : (procFlush cfg S inb ilen0 fr wi olen).error.isSome = false := by
      show S.error.isSome = false
      rw [hEn]; rfl
    by_cases hs : cfg.isplit = true ∧ cfg.osplit = true
    · rw [process_split_eq cfg S inb ilen0 fr wi op olen rs hs hn hEn]
      rw [outputNoCb_len]
      simp [feedOpt]
    · unfold process
      simp only [hn, hs, if_false, hEf, Bool.false_eq_true]
      rw [output_len]
      split
      · rw [input_len]; rfl
      · rfl

theorem step_len (cfg : Cfg α β) (S : St σ) (op : Op β) (h : S.eng.length = cfg.ch) :
    (step E cfg S op).1.eng.length = cfg.ch := by
  cases op with
  | process inb ilen0 fr wi op olen rs => simp only [step]; rw [process_len]; exact h
  | output op olen rs => simp only [step]; rw [output_len]; exact h
  | setInputFn m => exact h
  | setRatio r slew =>
    simp only [step]
    split
    · exact h
    · split
      · simp [h]
      · exact h
  | clear => simp [step, initSt]

theorem run_len (cfg : Cfg α β) (ops : List (Op β)) : ∀ (S : St σ), S.eng.length = cfg.ch →
    (run E cfg S ops).1.eng.length = cfg.ch := by
  induction ops with
  | nil => intro S h; exact h
  | cons op ops ih => intro S h; exact ih _ (step_len cfg S op h)

theorem run_len0 (cfg : Cfg α β) (ops : List (Op β)) (S : St σ) (h : S.eng.length = cfg.ch) :
    (run E cfg S ops).1.eng.length = cfg.ch := run_len cfg ops S h

theorem zipWith_nil_append (outs : List (List β)) :
    List.zipWith (· ++ ·) (List.replicate outs.length ([] : List β)) outs = outs := by
  induction outs with
  | nil => rfl
  | cons a as ih => simp [List.replicate_succ, ih]

end Soxr.Chan
