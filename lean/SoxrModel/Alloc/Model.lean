/-!
# C20 — allocation failure: heap-of-blocks model of the object life cycle of `soxr.c`

What is modelled (as written in the pinned sources, including what they do not check):

* `soxr_create`, `initialise`, the per-channel loop with `resampler_create`, `fatal_error`, `soxr_delete0`,
  `soxr_delete`, `soxr_clear`, `soxr_set_io_ratio`, `soxr_set_num_channels`, `soxr_process` (only as far as it allocates);
* the heap is a list of live block identifiers; a block's identifier is the ordinal of the allocation *call* that
  created it (a block that is successfully `realloc`ed keeps its identifier: it is the same logical block);
* every allocation call consults an oracle `fail : Nat → Bool` ("the k-th call returns NULL"); the oracle is arbitrary
  in every theorem, the single-failure oracle `failAt k` is the special case the fault enumeration replays;
* every pointer the C code dereferences is dereferenced in the model (`derefLive`, `derefNull`): dereferencing a
  failed allocation, using a freed block and freeing a block that is not live are *faults*, not silent no-ops;
* an engine's `create` (`_soxr_init`, `vr_create`) is a list of allocation sites in program order.  Each site is tagged
  `checked` (the engine tests the result and returns an error string; whatever exists at that point is left for
  `close`) or `unchecked` (the result is used without a test: the model dereferences it, which faults when it is NULL),
  and with the lifetime of the block (`temp`: freed before `create` returns; `own`: owned by the channel, freed by
  `close`; `shared`: reachable from `*shared`, freed by the first `close`, after which `*shared` is zeroed; `static`:
  process-wide cache, never freed by the object; `grow`: `realloc` of an existing block).

Nothing here imports Mathlib: the driver `soxr_alloc` links this file.
-/

namespace Soxr.Alloc

abbrev Blk := Nat

/-- Does the code test the result of the allocation? -/
inductive Kind | checked | unchecked
  deriving DecidableEq, Repr, Inhabited

/-- Lifetime class of the block a site allocates. -/
inductive Life | temp | own | shared | static | grow
  deriving DecidableEq, Repr, Inhabited

structure Site where
  name : String
  kind : Kind
  life : Life
  deriving DecidableEq, Repr, Inhabited

inductive Fault
  /-- the NULL returned by a failed allocation at the named site was dereferenced -/
  | derefNull (site : String)
  /-- a block was used after it had been freed -/
  | derefDead (b : Blk)
  /-- `free` of a block that is not live (double free, dangling pointer) -/
  | badFree (b : Blk)
  deriving DecidableEq, Repr

structure Heap where
  /-- number of allocation calls made so far = ordinal of the next call -/
  count : Nat := 0
  /-- live blocks that belong to resampler objects -/
  live : List Blk := []
  /-- process-wide caches (FFT tables): allocated through the same allocator, never freed by an object -/
  cache : List Blk := []
  deriving DecidableEq, Repr

inductive Res (α : Type) where
  | ok (a : α) (h : Heap)
  | fault (f : Fault)
  deriving DecidableEq, Repr

def M (α : Type) := Heap → Res α

@[inline] def M.pure {α} (a : α) : M α := fun h => .ok a h

@[inline] def M.bind {α β} (m : M α) (f : α → M β) : M β := fun h =>
  match m h with
  | .ok a h' => f a h'
  | .fault e => .fault e

instance : Monad M where
  pure := M.pure
  bind := M.bind

/-! ## Primitives -/

/-- One allocation call: the oracle decides; on success the new block's identifier is the call's ordinal. -/
def tick (fail : Nat → Bool) : M (Option Blk) := fun h =>
  .ok (if fail h.count then none else some h.count) { h with count := h.count + 1 }

def addLive (b : Blk) : M Unit := fun h => .ok () { h with live := b :: h.live }

def addCache (b : Blk) : M Unit := fun h => .ok () { h with cache := b :: h.cache }

/-- `free(p)`: NULL is a no-op; a live block dies; anything else is a fault. -/
def free (p : Option Blk) : M Unit := fun h =>
  match p with
  | none => .ok () h
  | some b => if b ∈ h.live then .ok () { h with live := h.live.erase b } else .fault (.badFree b)

/-- a read or write through a pointer that the code knows to be non-NULL -/
def derefLive (b : Blk) : M Unit := fun h =>
  if b ∈ h.live then .ok () h else .fault (.derefDead b)

/-- a read or write through the NULL a failed allocation returned -/
def derefNull {α} (site : String) : M α := fun _ => .fault (.derefNull site)

def liveCount : M Nat := fun h => .ok h.live.length h

/-- `calloc`/`malloc` of a block that the object will own -/
def calloc (fail : Nat → Bool) : M (Option Blk) := do
  match ← tick fail with
  | none => pure none
  | some b => do addLive b; pure (some b)

def freeAll : List Blk → M Unit
  | [] => pure ()
  | b :: bs => do free (some b); freeAll bs

/-! ## The engine behind `resampler_create` / `resampler_close`, abstracted to its allocation sites -/

structure EngSt where
  own : List Blk := []
  temps : List Blk := []
  sh : List Blk := []
  deriving DecidableEq, Repr

/-- `resampler_create` of one channel.  Returns `true` when the engine returned an error string. -/
def engCreate (fail : Nat → Bool) : List Site → EngSt → M (Bool × EngSt)
  | [], st => do
      freeAll st.temps
      pure (false, { st with temps := [] })
  | s :: ss, st => do
      match ← tick fail with
      | none =>
        match s.kind with
        | .unchecked => derefNull s.name
        | .checked => pure (true, st)
      | some b =>
        match s.life with
        | .temp => do addLive b; engCreate fail ss { st with temps := b :: st.temps }
        | .own => do addLive b; engCreate fail ss { st with own := b :: st.own }
        | .shared => do addLive b; engCreate fail ss { st with sh := b :: st.sh }
        | .static => do addCache b; engCreate fail ss st
        | .grow => engCreate fail ss st

/-- Allocation calls an engine makes while it processes (`fifo_reserve`'s `realloc`, FFT cache growth).  The engine
interface (`void process`, `input` returning a pointer nobody tests) has no way to report a failure: every site is
treated as unchecked whatever its tag says. -/
def engRun (fail : Nat → Bool) : List Site → M Unit
  | [] => pure ()
  | s :: ss => do
      match ← tick fail with
      | none => derefNull s.name
      | some b =>
        match s.life with
        | .static => do addCache b; engRun fail ss
        | _ => engRun fail ss

/-! ## The object (`struct soxr`) -/

structure Chan where
  /-- `p->resamplers[i]` -/
  blk : Blk
  /-- what `resampler_close` of this channel frees besides the shared part -/
  own : List Blk
  deriving DecidableEq, Repr

structure Obj where
  self : Blk
  numChannels : Nat
  error : Bool := false
  channelPtrs : Option Blk := none
  shared : Option Blk := none
  resamplers : Option Blk := none
  /-- contents of the `resamplers` array (`none` = NULL entry, as `calloc` leaves it) -/
  chans : List (Option Chan) := []
  /-- blocks reachable from `*p->shared` (DFT filters, poly-phase coefficients) -/
  sharedOwn : List Blk := []
  deriving DecidableEq, Repr

/-- `memset(p, 0, sizeof(*p))` -/
def Obj.zero (o : Obj) : Obj := { self := o.self, numChannels := 0 }

/-- `memset` followed by `p->error = error` -/
def Obj.errState (o : Obj) : Obj := { self := o.self, numChannels := 0, error := true }

def Chan.blocks (c : Chan) : List Blk := c.blk :: c.own

def chansBlocks : List (Option Chan) → List Blk
  | [] => []
  | none :: cs => chansBlocks cs
  | some c :: cs => c.blocks ++ chansBlocks cs

/-- every block reachable from the object, in the order `soxr_delete` frees them, `self` first -/
def Obj.blocks (o : Obj) : List Blk :=
  o.self :: (chansBlocks o.chans ++ o.sharedOwn ++ o.resamplers.toList ++ o.channelPtrs.toList ++ o.shared.toList)

/-! ## `soxr.c` -/

def siteCreate : Site := ⟨"soxr_create:p", .checked, .own⟩
def siteChannelPtrs : Site := ⟨"initialise:p->channel_ptrs", .checked, .own⟩
def siteShared : Site := ⟨"initialise:p->shared", .checked, .own⟩
def siteResamplers : Site := ⟨"initialise:p->resamplers", .checked, .own⟩
def siteChan : Site := ⟨"initialise:p->resamplers[i]", .checked, .own⟩

/-- The loop of `soxr_delete0` over the entries of the `resamplers` array `rs`:
`if (p->resamplers[i]) resampler_close(p->resamplers[i]); free(p->resamplers[i]);` — `free` is called for *every*
entry, `close` only for the non-NULL ones.  `sh` is what `*shared` still points to: the first `close` frees it and
zeroes `*shared`. -/
def delChans (rs : Blk) : List (Option Chan) → List Blk → M Unit
  | [], _ => pure ()
  | none :: cs, sh => do
      derefLive rs
      free none
      delChans rs cs sh
  | some c :: cs, sh => do
      derefLive rs
      derefLive c.blk
      freeAll c.own
      freeAll sh
      free (some c.blk)
      delChans rs cs []

def delete0 (o : Obj) : M Obj := do
  derefLive o.self
  match o.resamplers with
  | some rs => delChans rs o.chans o.sharedOwn
  | none => pure ()
  free o.resamplers
  free o.channelPtrs
  free o.shared
  pure o.zero

def fatalError (o : Obj) : M Obj := do
  let o' ← delete0 o
  derefLive o'.self
  pure { o' with error := true }

/-- The channel loop of `initialise`.  `done` are the channels created so far, `todo` the engine site lists of the
remaining ones; the array holds `done` followed by NULLs. -/
def initLoop (fail : Nat → Bool) (rs sh : Blk) : Obj → List Chan → List (List Site) → M (Bool × Obj)
  | o, done, [] => pure (false, { o with chans := done.map some })
  | o, done, e :: todo => do
      derefLive rs
      match ← calloc fail with
      | none => do
          let o' ← fatalError { o with chans := done.map some ++ none :: todo.map (fun _ => none) }
          pure (true, o')
      | some b => do
          derefLive b
          derefLive sh
          let (err, st) ← engCreate fail e { own := [], temps := [], sh := o.sharedOwn }
          let c : Chan := { blk := b, own := st.temps ++ st.own }
          let o1 : Obj := { o with sharedOwn := st.sh }
          if err then do
            let o' ← fatalError { o1 with chans := done.map some ++ some c :: todo.map (fun _ => none) }
            pure (true, o')
          else initLoop fail rs sh o1 (done ++ [c]) todo

/-- `initialise`: three allocations, *then* one test of all three, then the channel loop. -/
def initialise (fail : Nat → Bool) (o : Obj) (engs : List (List Site)) : M (Bool × Obj) := do
  derefLive o.self
  let cp ← calloc fail
  let sh ← calloc fail
  let rs ← calloc fail
  let o1 : Obj := { o with channelPtrs := cp, shared := sh, resamplers := rs, chans := engs.map (fun _ => none) }
  match cp, sh, rs with
  | some _, some s, some r => initLoop fail r s o1 [] engs
  | _, _, _ => do
      let o' ← fatalError o1
      pure (true, o')

/-- `soxr_set_io_ratio`.  Returns `true` when an error string is returned. -/
def setIoRatio (fail : Nat → Bool) (o : Obj) (engs : List (List Site)) : M (Bool × Obj) := do
  derefLive o.self
  if o.error then pure (true, o)
  else if o.numChannels = 0 then pure (true, o)
  else match o.channelPtrs with
    | none => initialise fail o engs
    | some _ => pure (false, o)

def setNumChannels (fail : Nat → Bool) (o : Obj) (engs : List (List Site)) : M (Bool × Obj) := do
  derefLive o.self
  if engs.length = o.numChannels then pure (o.error, o)
  else if engs.length = 0 then pure (true, o)
  else if o.resamplers.isSome then pure (true, o)
  else setIoRatio fail { o with numChannels := engs.length } engs

def delete (o : Obj) : M Unit := do
  let o' ← delete0 o
  free (some o'.self)

/-- `soxr_create`; `init` is `p->num_channels && io_ratio != 0`'s second half.  `none` = NULL handle + error string. -/
def create (fail : Nat → Bool) (engs : List (List Site)) (init : Bool) : M (Option Obj) := do
  match ← calloc fail with
  | none => pure none
  | some b => do
      derefLive b
      let o : Obj := { self := b, numChannels := engs.length }
      if engs.length ≠ 0 ∧ init = true then do
        let (err, o') ← setIoRatio fail o engs
        if err then do
          delete o'
          pure none
        else pure (some o')
      else pure (some o)

/-- `soxr_clear`; `reset` is `q_spec.flags & RESET_ON_CLEAR`.  The error field is not preserved. -/
def clear (fail : Nat → Bool) (o : Obj) (reset : Bool) (engs : List (List Site)) : M (Bool × Obj) := do
  derefLive o.self
  let o' ← delete0 o
  let o1 : Obj := { o' with numChannels := o.numChannels }
  if reset then setIoRatio fail o1 engs else pure (false, o1)

/-- `soxr_process` as far as allocation is concerned. -/
def process (fail : Nat → Bool) (o : Obj) (ss : List Site) : M (Bool × Obj) := do
  derefLive o.self
  if o.error then pure (true, o)
  else do
    engRun fail ss
    pure (false, o)

/-! ## Jobs (what the fault enumeration runs) -/

inductive Op
  | process (ss : List Site)
  | clear (reset : Bool) (engs : List (List Site))
  | setRatio (engs : List (List Site))
  | setChannels (engs : List (List Site))
  deriving Repr

structure Job where
  engs : List (List Site)
  init : Bool
  ops : List Op
  deriving Repr

def runOp (fail : Nat → Bool) (o : Obj) : Op → M (Bool × Obj)
  | .process ss => process fail o ss
  | .clear r e => clear fail o r e
  | .setRatio e => setIoRatio fail o e
  | .setChannels e => setNumChannels fail o e

/-- Runs the operations until one reports an error; returns the index of that operation and the live count then. -/
def runOps (fail : Nat → Bool) : Obj → List Op → Nat → M (Obj × Option (Nat × Nat))
  | o, [], _ => pure (o, none)
  | o, op :: ops, i => do
      let (err, o') ← runOp fail o op
      if err then do
        let n ← liveCount
        pure (o', some (i, n))
      else runOps fail o' ops (i + 1)

inductive Verdict
  /-- `soxr_create` returned NULL and an error; `live` blocks of the job remain -/
  | createFailed (live : Nat)
  /-- operation `op` returned an error; `live` blocks then, `final` after `soxr_delete` -/
  | opFailed (op : Nat) (live : Nat) (final : Nat)
  /-- no call reported an error; `final` blocks live after `soxr_delete` -/
  | completed (final : Nat)
  deriving DecidableEq, Repr

def runJob (fail : Nat → Bool) (j : Job) : M Verdict := do
  match ← create fail j.engs j.init with
  | none => do
      let n ← liveCount
      pure (.createFailed n)
  | some o => do
      let (o', r) ← runOps fail o j.ops 0
      match r with
      | some (i, n) => do
          let (_, o'') ← process fail o' []     -- the object in error state is still an object
          delete o''
          let m ← liveCount
          pure (.opFailed i n m)
      | none => do
          delete o'
          let m ← liveCount
          pure (.completed m)

/-! ## The flat view: a job is a sequence of allocation sites, the outcome is decided by the first failing call -/

inductive Outcome
  | allOk
  /-- call `k` (absolute ordinal), at checked site `s`, is the first to fail -/
  | errAt (k : Nat) (s : Site)
  /-- call `k`, at unchecked site `s`, is the first to fail -/
  | crashAt (k : Nat) (s : Site)
  deriving DecidableEq, Repr

def classify (fail : Nat → Bool) : Nat → List Site → Outcome
  | _, [] => .allOk
  | c, s :: ss =>
    if fail c then
      match s.kind with
      | .checked => .errAt c s
      | .unchecked => .crashAt c s
    else classify fail (c + 1) ss

/-- the single-failure oracle the fault enumeration uses -/
def failAt (k : Nat) : Nat → Bool := fun i => i == k

def loopSeq : List (List Site) → List Site
  | [] => []
  | e :: es => siteChan :: (e ++ loopSeq es)

def initSeq (engs : List (List Site)) : List Site :=
  siteChannelPtrs :: siteShared :: siteResamplers :: loopSeq engs

def createSeq (engs : List (List Site)) (init : Bool) : List Site :=
  siteCreate :: (if engs.length ≠ 0 ∧ init = true then initSeq engs else [])

def uncheck (s : Site) : Site := { s with kind := .unchecked }

end Soxr.Alloc
