import SoxrModel.Alloc.Model

/-!
# C20 — specifications of the model's functions (total correctness: no fault, and what is live afterwards)

`h.live.Perm (blocks ++ F)` is the ownership statement used throughout: the live blocks are *exactly* (as a multiset)
the blocks reachable from the object plus a frame `F` of foreign blocks that no operation touches.  Multiset equality
makes double frees impossible to hide: a block that is freed twice would have to be live twice.
-/

namespace Soxr.Alloc
open List

/-! ## Monad plumbing -/

@[simp] theorem pure_apply {α} (a : α) (h : Heap) : (Pure.pure a : M α) h = Res.ok a h := rfl

@[simp] theorem bind_apply {α β} (m : M α) (f : α → M β) (h : Heap) :
    (m >>= f) h = match m h with
      | .ok a h' => f a h'
      | .fault e => .fault e := rfl

@[simp] theorem tick_apply (fail : Nat → Bool) (h : Heap) :
    tick fail h = .ok (if fail h.count then none else some h.count) { h with count := h.count + 1 } := rfl

@[simp] theorem addLive_apply (b : Blk) (h : Heap) : addLive b h = .ok () { h with live := b :: h.live } := rfl

@[simp] theorem addCache_apply (b : Blk) (h : Heap) : addCache b h = .ok () { h with cache := b :: h.cache } := rfl

@[simp] theorem free_none (h : Heap) : free none h = .ok () h := rfl

theorem free_some {b : Blk} {h : Heap} (hb : b ∈ h.live) :
    free (some b) h = .ok () { h with live := h.live.erase b } := by
  simp [free, hb]

theorem derefLive_ok {b : Blk} {h : Heap} (hb : b ∈ h.live) : derefLive b h = .ok () h := by
  simp [derefLive, hb]

@[simp] theorem derefNull_apply {α} (s : String) (h : Heap) : (derefNull s : M α) h = .fault (.derefNull s) := rfl

@[simp] theorem liveCount_apply (h : Heap) : liveCount h = .ok h.live.length h := rfl

theorem calloc_fail {fail : Nat → Bool} {h : Heap} (hf : fail h.count = true) :
    calloc fail h = .ok none { h with count := h.count + 1 } := by
  simp [calloc, hf]

theorem calloc_ok {fail : Nat → Bool} {h : Heap} (hf : fail h.count = false) :
    calloc fail h = .ok (some h.count) { h with count := h.count + 1, live := h.count :: h.live } := by
  simp [calloc, hf]

/-! ## Multiset bookkeeping: permutation goals by counting -/

/-- `count a [b]` kept opaque so that `omega` sees an atom -/
def one (a b : Blk) : Nat := if b == a then 1 else 0

theorem count_cons1 (a b : Blk) (l : List Blk) : List.count a (b :: l) = one a b + List.count a l := by
  simp [List.count_cons, one]; omega

@[simp] theorem chansBlocks_nil : chansBlocks [] = [] := rfl
@[simp] theorem chansBlocks_none (cs : List (Option Chan)) : chansBlocks (none :: cs) = chansBlocks cs := rfl
@[simp] theorem chansBlocks_some (c : Chan) (cs : List (Option Chan)) :
    chansBlocks (some c :: cs) = c.blk :: (c.own ++ chansBlocks cs) := rfl

@[simp] theorem chansBlocks_append : ∀ (a b : List (Option Chan)), chansBlocks (a ++ b) = chansBlocks a ++ chansBlocks b
  | [], b => rfl
  | none :: a, b => by simpa using chansBlocks_append a b
  | some c :: a, b => by simp [chansBlocks_append a b]

@[simp] theorem chansBlocks_map_none {α} : ∀ (l : List α), chansBlocks (l.map (fun _ => none)) = []
  | [] => rfl
  | _ :: l => by simpa using chansBlocks_map_none l

syntax "perm_count" "[" term,* "]" : tactic
macro_rules
  | `(tactic| perm_count [$hs,*]) => do
    let haves ← hs.getElems.mapM fun h => `(tactic| have := List.Perm.count_eq $h a)
    `(tactic| (refine List.perm_iff_count.mpr fun a => ?_
               $[$haves]*
               simp only [List.count_append, count_cons1, List.count_nil, Option.toList_some, Option.toList_none,
                 Nat.add_zero, Nat.zero_add] at *
               omega))

/-! ## `freeAll` -/

theorem freeAll_spec : ∀ (bs : List Blk) (h : Heap) (R : List Blk), h.live.Perm (bs ++ R) →
    ∃ L, freeAll bs h = .ok () { h with live := L } ∧ L.Perm R
  | [], h, R, hp => ⟨h.live, by simp [freeAll], by simpa using hp⟩
  | b :: bs, h, R, hp => by
      have hb : b ∈ h.live := hp.mem_iff.mpr (by simp)
      have hp' : (h.live.erase b).Perm (bs ++ R) := by
        have := hp.erase b
        simpa using this
      obtain ⟨L, hL, hLR⟩ := freeAll_spec bs { h with live := h.live.erase b } R hp'
      exact ⟨L, by simp [freeAll, free_some hb, hL], hLR⟩

/-! ## `engCreate` -/

def engBlocks (st : EngSt) : List Blk := st.temps ++ st.own ++ st.sh

/-- what `engCreate` does, as decided by the first failing call among its sites -/
def EngPost (R : List Blk) (n : Nat) (h : Heap) (r : Res (Bool × EngSt)) : Outcome → Prop
  | .allOk => ∃ st' h', r = .ok (false, st') h' ∧ st'.temps = [] ∧ h'.live.Perm (engBlocks st' ++ R) ∧
      h'.count = h.count + n
  | .errAt _ _ => ∃ st' h', r = .ok (true, st') h' ∧ h'.live.Perm (engBlocks st' ++ R)
  | .crashAt _ s => r = .fault (.derefNull s.name)

theorem engCreate_spec (fail : Nat → Bool) : ∀ (ss : List Site) (st : EngSt) (h : Heap) (R : List Blk),
    h.live.Perm (engBlocks st ++ R) →
    EngPost R ss.length h (engCreate fail ss st h) (classify fail h.count ss)
  | [], st, h, R, hp => by
      have hp' : h.live.Perm (st.temps ++ (st.own ++ st.sh ++ R)) := by
        simpa [engBlocks, List.append_assoc] using hp
      obtain ⟨L, hL, hLR⟩ := freeAll_spec st.temps h _ hp'
      refine ⟨{ st with temps := [] }, { h with live := L }, by simp [engCreate, hL], rfl, ?_, rfl⟩
      simpa [engBlocks] using hLR
  | s :: ss, st, h, R, hp => by
      by_cases hf : fail h.count = true
      · cases hk : s.kind
        · -- checked: error string, nothing touched
          have : classify fail h.count (s :: ss) = .errAt h.count s := by simp [classify, hf, hk]
          rw [this]
          exact ⟨st, { h with count := h.count + 1 }, by simp [engCreate, hf, hk], hp⟩
        · have : classify fail h.count (s :: ss) = .crashAt h.count s := by simp [classify, hf, hk]
          rw [this]
          simp [EngPost, engCreate, hf, hk]
      · have hf' : fail h.count = false := by simpa using hf
        have hcl : classify fail h.count (s :: ss) = classify fail (h.count + 1) ss := by simp [classify, hf']
        rw [hcl]
        -- the state after this site's successful allocation
        have key : ∀ (st1 : EngSt) (h1 : Heap), h1.count = h.count + 1 → h1.live.Perm (engBlocks st1 ++ R) →
            engCreate fail (s :: ss) st h = engCreate fail ss st1 h1 →
            EngPost R (s :: ss).length h (engCreate fail (s :: ss) st h) (classify fail (h.count + 1) ss) := by
          intro st1 h1 hc hp1 heq
          have ih := engCreate_spec fail ss st1 h1 R hp1
          rw [hc] at ih
          rw [heq]
          cases hcc : classify fail (h.count + 1) ss <;> rw [hcc] at ih
          · obtain ⟨st', h', e1, e2, e3, e4⟩ := ih
            exact ⟨st', h', e1, e2, e3, by simp [e4, hc]; omega⟩
          · exact ih
          · exact ih
        cases hl : s.life
        · exact key { st with temps := h.count :: st.temps } { h with count := h.count + 1, live := h.count :: h.live } rfl
            (by simp only [engBlocks] at hp ⊢; perm_count [hp]) (by simp [engCreate, hf', hl])
        · exact key { st with own := h.count :: st.own } { h with count := h.count + 1, live := h.count :: h.live } rfl
            (by simp only [engBlocks] at hp ⊢; perm_count [hp]) (by simp [engCreate, hf', hl])
        · exact key { st with sh := h.count :: st.sh } { h with count := h.count + 1, live := h.count :: h.live } rfl
            (by simp only [engBlocks] at hp ⊢; perm_count [hp]) (by simp [engCreate, hf', hl])
        · exact key st { h with count := h.count + 1, cache := h.count :: h.cache } rfl hp (by simp [engCreate, hf', hl])
        · exact key st { h with count := h.count + 1 } rfl hp (by simp [engCreate, hf', hl])

/-! ## `soxr_delete0`, `fatal_error`, `soxr_delete` -/

theorem free_opt_spec (p : Option Blk) (h : Heap) (R : List Blk) (hp : h.live.Perm (p.toList ++ R)) :
    ∃ L, free p h = .ok () { h with live := L } ∧ L.Perm R := by
  cases p with
  | none => exact ⟨h.live, by simp, by simpa using hp⟩
  | some b =>
    have hb : b ∈ h.live := hp.mem_iff.mpr (by simp)
    refine ⟨h.live.erase b, free_some hb, ?_⟩
    have := hp.erase b
    simpa using this

theorem delChans_spec (rs : Blk) : ∀ (cs : List (Option Chan)) (sh : List Blk) (h : Heap) (R : List Blk),
    h.live.Perm (chansBlocks cs ++ sh ++ R) → rs ∈ R → (sh ≠ [] → ∃ c, some c ∈ cs) →
    ∃ L, delChans rs cs sh h = .ok () { h with live := L } ∧ L.Perm R
  | [], sh, h, R, hp, _, hsh => by
      have : sh = [] := by
        by_cases h0 : sh = []
        · exact h0
        · obtain ⟨c, hc⟩ := hsh h0
          simp at hc
      subst this
      exact ⟨h.live, by simp [delChans], by simpa using hp⟩
  | none :: cs, sh, h, R, hp, hrs, hsh => by
      have hrl : rs ∈ h.live := hp.mem_iff.mpr (by simp [hrs])
      obtain ⟨L, hL, hLR⟩ := delChans_spec rs cs sh h R (by simpa using hp) hrs
        (by intro h0; obtain ⟨c, hc⟩ := hsh h0; exact ⟨c, by simpa using hc⟩)
      exact ⟨L, by simp [delChans, derefLive_ok hrl, hL], hLR⟩
  | some c :: cs, sh, h, R, hp, hrs, _ => by
      have hrl : rs ∈ h.live := hp.mem_iff.mpr (by simp [hrs])
      have hcl : c.blk ∈ h.live := hp.mem_iff.mpr (by simp)
      -- resampler_close: the channel's own blocks …
      have hp1 : h.live.Perm (c.own ++ (c.blk :: (chansBlocks cs ++ sh ++ R))) := by
        simp only [chansBlocks_some] at hp; perm_count [hp]
      obtain ⟨L1, e1, p1⟩ := freeAll_spec c.own h _ hp1
      -- … then whatever *shared points to
      have hp2 : ({ h with live := L1 } : Heap).live.Perm (sh ++ (c.blk :: (chansBlocks cs ++ R))) := by
        show L1.Perm _; perm_count [p1]
      obtain ⟨L2, e2, p2⟩ := freeAll_spec sh { h with live := L1 } _ hp2
      -- free(p->resamplers[i])
      have hb2 : c.blk ∈ L2 := p2.mem_iff.mpr (by simp)
      have p3 : (L2.erase c.blk).Perm (chansBlocks cs ++ [] ++ R) := by
        have := p2.erase c.blk
        simpa using this
      obtain ⟨L, e4, p4⟩ := delChans_spec rs cs [] { h with live := L2.erase c.blk } R p3 hrs (by simp)
      refine ⟨L, ?_, p4⟩
      have e3 : free (some c.blk) { h with live := L2 } = .ok () { h with live := L2.erase c.blk } :=
        free_some (h := { h with live := L2 }) hb2
      simp only [delChans, bind_apply, derefLive_ok hrl, derefLive_ok hcl, e1, e2, e3]
      exact e4

/-- Well-formedness of an object: what `soxr_delete0`'s `if (p->resamplers)` skips must be empty, and blocks hang off
`*shared` only when some channel exists to close them. -/
def WF (o : Obj) : Prop :=
  (o.resamplers = none → chansBlocks o.chans = [] ∧ o.sharedOwn = []) ∧
  (o.sharedOwn ≠ [] → ∃ c, some c ∈ o.chans)

/-- the object owns exactly `o.blocks`; `F` is everything else that is live -/
def Owns (o : Obj) (h : Heap) (F : List Blk) : Prop := h.live.Perm (o.blocks ++ F)

theorem delete0_spec (o : Obj) (h : Heap) (F : List Blk) (wf : WF o) (hp : Owns o h F) :
    ∃ L, delete0 o h = .ok o.zero { h with live := L } ∧ L.Perm (o.self :: F) := by
  unfold Owns at hp
  have hself : o.self ∈ h.live := hp.mem_iff.mpr (by simp [Obj.blocks])
  cases hrs : o.resamplers with
  | none =>
    obtain ⟨hc, hs⟩ := wf.1 hrs
    have hp1 : h.live.Perm (o.channelPtrs.toList ++ (o.shared.toList ++ (o.self :: F))) := by
      simp only [Obj.blocks, hc, hs, hrs] at hp; perm_count [hp]
    obtain ⟨L1, e1, p1⟩ := free_opt_spec o.channelPtrs h _ hp1
    obtain ⟨L2, e2, p2⟩ := free_opt_spec o.shared { h with live := L1 } _ p1
    exact ⟨L2, by simp [delete0, hrs, derefLive_ok hself, e1, e2], p2⟩
  | some rs =>
    have hp0 : h.live.Perm (chansBlocks o.chans ++ o.sharedOwn ++
        (rs :: (o.channelPtrs.toList ++ (o.shared.toList ++ (o.self :: F))))) := by
      simp only [Obj.blocks, hrs] at hp; perm_count [hp]
    obtain ⟨L0, e0, p0⟩ := delChans_spec rs o.chans o.sharedOwn h _ hp0 (by simp) wf.2
    have hr0 : rs ∈ L0 := p0.mem_iff.mpr (by simp)
    have e0' : free (some rs) { h with live := L0 } = .ok () { h with live := L0.erase rs } :=
      free_some (h := { h with live := L0 }) hr0
    have p0' : (L0.erase rs).Perm (o.channelPtrs.toList ++ (o.shared.toList ++ (o.self :: F))) := by
      have := p0.erase rs
      simpa using this
    obtain ⟨L1, e1, p1⟩ := free_opt_spec o.channelPtrs { h with live := L0.erase rs } _ p0'
    obtain ⟨L2, e2, p2⟩ := free_opt_spec o.shared { h with live := L1 } _ p1
    exact ⟨L2, by simp [delete0, hrs, derefLive_ok hself, e0, e0', e1, e2], p2⟩

theorem fatalError_spec (o : Obj) (h : Heap) (F : List Blk) (wf : WF o) (hp : Owns o h F) :
    ∃ L, fatalError o h = .ok o.errState { h with live := L } ∧ L.Perm (o.self :: F) := by
  obtain ⟨L, e, p⟩ := delete0_spec o h F wf hp
  have hs : o.self ∈ ({ h with live := L } : Heap).live := p.mem_iff.mpr (by simp)
  exact ⟨L, by simp [fatalError, e, derefLive_ok hs, Obj.zero, Obj.errState], p⟩

theorem delete_spec (o : Obj) (h : Heap) (F : List Blk) (wf : WF o) (hp : Owns o h F) :
    ∃ L, delete o h = .ok () { h with live := L } ∧ L.Perm F := by
  obtain ⟨L, e, p⟩ := delete0_spec o h F wf hp
  have hs : o.self ∈ L := p.mem_iff.mpr (by simp)
  have e' : free (some o.zero.self) { h with live := L } = .ok () { h with live := L.erase o.self } :=
    free_some (h := { h with live := L }) hs
  refine ⟨L.erase o.self, by simp [delete, e, e'], ?_⟩
  have := p.erase o.self
  simpa using this

/-- an object in error state (or freshly zeroed) owns just itself -/
theorem wf_zero (o : Obj) : WF o.zero := by simp [WF, Obj.zero]
theorem wf_errState (o : Obj) : WF o.errState := by simp [WF, Obj.errState]
@[simp] theorem blocks_zero (o : Obj) : o.zero.blocks = [o.self] := by simp [Obj.blocks, Obj.zero]
@[simp] theorem blocks_errState (o : Obj) : o.errState.blocks = [o.self] := by simp [Obj.blocks, Obj.errState]

end Soxr.Alloc
