import SoxrModel.Alloc.Model

/-!
# C20 — specifications of the model's functions (total correctness: no fault, and what is live afterwards)

`h.live.Perm (blocks ++ F)` is the ownership statement used throughout: the live blocks are *exactly* (as a multiset)
the blocks reachable from the object plus a frame `F` of foreign blocks that no operation touches.  Multiset equality
makes double frees impossible to hide: a block that is freed twice would have to be live twice.
-/

namespace Soxr.Alloc
open List

/-! ## Monad plumbing -/

@[simp] theorem pure_apply {α} (a : α) (h : Heap) : (Pure.pure a : M α) h = Res.ok a h := rfl

@[simp] theorem bind_apply {α β} (m : M α) (f : α → M β) (h : Heap) :
    (m >>= f) h = match m h with
      | .ok a h' => f a h'
      | .fault e => .fault e := rfl

@[simp] theorem tick_apply (fail : Nat → Bool) (h : Heap) :
    tick fail h = .ok (if fail h.count then none else some h.count) { h with count := h.count + 1 } := rfl

@[simp] theorem addLive_apply (b : Blk) (h : Heap) : addLive b h = .ok () { h with live := b :: h.live } := rfl

@[simp] theorem addCache_apply (b : Blk) (h : Heap) : addCache b h = .ok () { h with cache := b :: h.cache } := rfl

@[simp] theorem free_none (h : Heap) : free none h = .ok () h := rfl

theorem free_some {b : Blk} {h : Heap} (hb : b ∈ h.live) :
    free (some b) h = .ok () { h with live := h.live.erase b } := by
  simp [free, hb]

theorem derefLive_ok {b : Blk} {h : Heap} (hb : b ∈ h.live) : derefLive b h = .ok () h := by
  simp [derefLive, hb]

@[simp] theorem derefNull_apply {α} (s : String) (h : Heap) : (derefNull s : M α) h = .fault (.derefNull s) := rfl

@[simp] theorem liveCount_apply (h : Heap) : liveCount h = .ok h.live.length h := rfl

theorem calloc_fail {fail : Nat → Bool} {h : Heap} (hf : fail h.count = true) :
    calloc fail h = .ok none { h with count := h.count + 1 } := by
  simp [calloc, hf]

theorem calloc_ok {fail : Nat → Bool} {h : Heap} (hf : fail h.count = false) :
    calloc fail h = .ok (some h.count) { h with count := h.count + 1, live := h.count :: h.live } := by
  simp [calloc, hf]

/-! ## Multiset bookkeeping: permutation goals by counting -/

/-- `count a [b]` kept opaque so that `omega` sees an atom -/
def one (a b : Blk) : Nat := if b == a then 1 else 0

theorem count_cons1 (a b : Blk) (l : List Blk) : List.count a (b :: l) = one a b + List.count a l := by
  simp [List.count_cons, one]; omega

@[simp] theorem chansBlocks_nil : chansBlocks [] = [] := rfl
@[simp] theorem chansBlocks_none (cs : List (Option Chan)) : chansBlocks (none :: cs) = chansBlocks cs := rfl
@[simp] theorem chansBlocks_some (c : Chan) (cs : List (Option Chan)) :
    chansBlocks (some c :: cs) = c.blk :: (c.own ++ chansBlocks cs) := rfl

@[simp] theorem chansBlocks_append : ∀ (a b : List (Option Chan)), chansBlocks (a ++ b) = chansBlocks a ++ chansBlocks b
  | [], b => rfl
  | none :: a, b => by simpa using chansBlocks_append a b
  | some c :: a, b => by simp [chansBlocks_append a b]

@[simp] theorem chansBlocks_map_none {α} : ∀ (l : List α), chansBlocks (l.map (fun _ => none)) = []
  | [] => rfl
  | _ :: l => by simpa using chansBlocks_map_none l

syntax "perm_count" "[" term,* "]" : tactic
macro_rules
  | `(tactic| perm_count [$hs,*]) => do
    let haves ← hs.getElems.mapM fun h => `(tactic| have := List.Perm.count_eq $h a)
    `(tactic| (refine List.perm_iff_count.mpr fun a => ?_
               $[$haves]*
               simp only [List.count_append, count_cons1, List.count_nil, Option.toList_some, Option.toList_none,
                 Nat.add_zero, Nat.zero_add] at *
               omega))

/-! ## `freeAll` -/

theorem freeAll_spec : ∀ (bs : List Blk) (h : Heap) (R : List Blk), h.live.Perm (bs ++ R) →
    ∃ L, freeAll bs h = .ok () { h with live := L } ∧ L.Perm R
  | [], h, R, hp => ⟨h.live, by simp [freeAll], by simpa using hp⟩
  | b :: bs, h, R, hp => by
      have hb : b ∈ h.live := hp.mem_iff.mpr (by simp)
      have hp' : (h.live.erase b).Perm (bs ++ R) := by
        have := hp.erase b
        simpa using this
      obtain ⟨L, hL, hLR⟩ := freeAll_spec bs { h with live := h.live.erase b } R hp'
      exact ⟨L, by simp [freeAll, free_some hb, hL], hLR⟩

/-! ## `engCreate` -/

def engBlocks (st : EngSt) : List Blk := st.temps ++ st.own ++ st.sh

/-- what `engCreate` does, as decided by the first failing call among its sites -/
def EngPost (R : List Blk) (n : Nat) (h : Heap) (r : Res (Bool × EngSt)) : Outcome → Prop
  | .allOk => ∃ st' h', r = .ok (false, st') h' ∧ st'.temps = [] ∧ h'.live.Perm (engBlocks st' ++ R) ∧
      h'.count = h.count + n
  | .errAt _ _ => ∃ st' h', r = .ok (true, st') h' ∧ h'.live.Perm (engBlocks st' ++ R)
  | .crashAt _ s => r = .fault (.derefNull s.name)

theorem engCreate_spec (fail : Nat → Bool) : ∀ (ss : List Site) (st : EngSt) (h : Heap) (R : List Blk),
    h.live.Perm (engBlocks st ++ R) →
    EngPost R ss.length h (engCreate fail ss st h) (classify fail h.count ss)
  | [], st, h, R, hp => by
      have hp' : h.live.Perm (st.temps ++ (st.own ++ st.sh ++ R)) := by
        simpa [engBlocks, List.append_assoc] using hp
      obtain ⟨L, hL, hLR⟩ := freeAll_spec st.temps h _ hp'
      refine ⟨{ st with temps := [] }, { h with live := L }, by simp [engCreate, hL], rfl, ?_, rfl⟩
      simpa [engBlocks] using hLR
  | s :: ss, st, h, R, hp => by
      by_cases hf : fail h.count = true
      · cases hk : s.kind
        · -- checked: error string, nothing touched
          have : classify fail h.count (s :: ss) = .errAt h.count s := by simp [classify, hf, hk]
          rw [this]
          exact ⟨st, { h with count := h.count + 1 }, by simp [engCreate, hf, hk], hp⟩
        · have : classify fail h.count (s :: ss) = .crashAt h.count s := by simp [classify, hf, hk]
          rw [this]
          simp [EngPost, engCreate, hf, hk]
      · have hf' : fail h.count = false := by simpa using hf
        have hcl : classify fail h.count (s :: ss) = classify fail (h.count + 1) ss := by simp [classify, hf']
        rw [hcl]
        -- the state after this site's successful allocation
        have key : ∀ (st1 : EngSt) (h1 : Heap), h1.count = h.count + 1 → h1.live.Perm (engBlocks st1 ++ R) →
            engCreate fail (s :: ss) st h = engCreate fail ss st1 h1 →
            EngPost R (s :: ss).length h (engCreate fail (s :: ss) st h) (classify fail (h.count + 1) ss) := by
          intro st1 h1 hc hp1 heq
          have ih := engCreate_spec fail ss st1 h1 R hp1
          rw [hc] at ih
          rw [heq]
          cases hcc : classify fail (h.count + 1) ss <;> rw [hcc] at ih
          · obtain ⟨st', h', e1, e2, e3, e4⟩ := ih
            exact ⟨st', h', e1, e2, e3, by simp [e4, hc]; omega⟩
          · exact ih
          · exact ih
        cases hl : s.life
        · exact key { st with temps := h.count :: st.temps } { h with count := h.count + 1, live := h.count :: h.live } rfl
            (by simp only [engBlocks] at hp ⊢; perm_count [hp]) (by simp [engCreate, hf', hl])
        · exact key { st with own := h.count :: st.own } { h with count := h.count + 1, live := h.count :: h.live } rfl
            (by simp only [engBlocks] at hp ⊢; perm_count [hp]) (by simp [engCreate, hf', hl])
        · exact key { st with sh := h.count :: st.sh } { h with count := h.count + 1, live := h.count :: h.live } rfl
            (by simp only [engBlocks] at hp ⊢; perm_count [hp]) (by simp [engCreate, hf', hl])
        · exact key st { h with count := h.count + 1, cache := h.count :: h.cache } rfl hp (by simp [engCreate, hf', hl])
        · exact key st { h with count := h.count + 1 } rfl hp (by simp [engCreate, hf', hl])

/-! ## `soxr_delete0`, `fatal_error`, `soxr_delete` -/

theorem free_opt_spec (p : Option Blk) (h : Heap) (R : List Blk) (hp : h.live.Perm (p.toList ++ R)) :
    ∃ L, free p h = .ok () { h with live := L } ∧ L.Perm R := by
  cases p with
  | none => exact ⟨h.live, by simp, by simpa using hp⟩
  | some b =>
    have hb : b ∈ h.live := hp.mem_iff.mpr (by simp)
    refine ⟨h.live.erase b, free_some hb, ?_⟩
    have := hp.erase b
    simpa using this

theorem delChans_spec (rs : Blk) : ∀ (cs : List (Option Chan)) (sh : List Blk) (h : Heap) (R : List Blk),
    h.live.Perm (chansBlocks cs ++ sh ++ R) → rs ∈ R → (sh ≠ [] → ∃ c, some c ∈ cs) →
    ∃ L, delChans rs cs sh h = .ok () { h with live := L } ∧ L.Perm R
  | [], sh, h, R, hp, _, hsh => by
      have : sh = [] := by
        by_cases h0 : sh = []
        · exact h0
        · obtain ⟨c, hc⟩ := hsh h0
          simp at hc
      subst this
      exact ⟨h.live, by simp [delChans], by simpa using hp⟩
  | none :: cs, sh, h, R, hp, hrs, hsh => by
      have hrl : rs ∈ h.live := hp.mem_iff.mpr (by simp [hrs])
      obtain ⟨L, hL, hLR⟩ := delChans_spec rs cs sh h R (by simpa using hp) hrs
        (by intro h0; obtain ⟨c, hc⟩ := hsh h0; exact ⟨c, by simpa using hc⟩)
      exact ⟨L, by simp [delChans, derefLive_ok hrl, hL], hLR⟩
  | some c :: cs, sh, h, R, hp, hrs, _ => by
      have hrl : rs ∈ h.live := hp.mem_iff.mpr (by simp [hrs])
      have hcl : c.blk ∈ h.live := hp.mem_iff.mpr (by simp)
      -- resampler_close: the channel's own blocks …
      have hp1 : h.live.Perm (c.own ++ (c.blk :: (chansBlocks cs ++ sh ++ R))) := by
        simp only [chansBlocks_some] at hp; perm_count [hp]
      obtain ⟨L1, e1, p1⟩ := freeAll_spec c.own h _ hp1
      -- … then whatever *shared points to
      have hp2 : ({ h with live := L1 } : Heap).live.Perm (sh ++ (c.blk :: (chansBlocks cs ++ R))) := by
        show L1.Perm _; perm_count [p1]
      obtain ⟨L2, e2, p2⟩ := freeAll_spec sh { h with live := L1 } _ hp2
      -- free(p->resamplers[i])
      have hb2 : c.blk ∈ L2 := p2.mem_iff.mpr (by simp)
      have p3 : (L2.erase c.blk).Perm (chansBlocks cs ++ [] ++ R) := by
        have := p2.erase c.blk
        simpa using this
      obtain ⟨L, e4, p4⟩ := delChans_spec rs cs [] { h with live := L2.erase c.blk } R p3 hrs (by simp)
      refine ⟨L, ?_, p4⟩
      have e3 : free (some c.blk) { h with live := L2 } = .ok () { h with live := L2.erase c.blk } :=
        free_some (h := { h with live := L2 }) hb2
      simp only [delChans, bind_apply, derefLive_ok hrl, derefLive_ok hcl, e1, e2, e3]
      exact e4

/-- Well-formedness of an object: what `soxr_delete0`'s `if (p->resamplers)` skips must be empty, and blocks hang off
`*shared` only when some channel exists to close them. -/
def WF (o : Obj) : Prop :=
  (o.resamplers = none → chansBlocks o.chans = [] ∧ o.sharedOwn = []) ∧
  (o.sharedOwn ≠ [] → ∃ c, some c ∈ o.chans)

/-- the object owns exactly `o.blocks`; `F` is everything else that is live -/
def Owns (o : Obj) (h : Heap) (F : List Blk) : Prop := h.live.Perm (o.blocks ++ F)

theorem delete0_spec (o : Obj) (h : Heap) (F : List Blk) (wf : WF o) (hp : Owns o h F) :
    ∃ L, delete0 o h = .ok o.zero { h with live := L } ∧ L.Perm (o.self :: F) := by
  unfold Owns at hp
  have hself : o.self ∈ h.live := hp.mem_iff.mpr (by simp [Obj.blocks])
  cases hrs : o.resamplers with
  | none =>
    obtain ⟨hc, hs⟩ := wf.1 hrs
    have hp1 : h.live.Perm (o.channelPtrs.toList ++ (o.shared.toList ++ (o.self :: F))) := by
      simp only [Obj.blocks, hc, hs, hrs] at hp; perm_count [hp]
    obtain ⟨L1, e1, p1⟩ := free_opt_spec o.channelPtrs h _ hp1
    obtain ⟨L2, e2, p2⟩ := free_opt_spec o.shared { h with live := L1 } _ p1
    exact ⟨L2, by simp [delete0, hrs, derefLive_ok hself, e1, e2], p2⟩
  | some rs =>
    have hp0 : h.live.Perm (chansBlocks o.chans ++ o.sharedOwn ++
        (rs :: (o.channelPtrs.toList ++ (o.shared.toList ++ (o.self :: F))))) := by
      simp only [Obj.blocks, hrs] at hp; perm_count [hp]
    obtain ⟨L0, e0, p0⟩ := delChans_spec rs o.chans o.sharedOwn h _ hp0 (by simp) wf.2
    have hr0 : rs ∈ L0 := p0.mem_iff.mpr (by simp)
    have e0' : free (some rs) { h with live := L0 } = .ok () { h with live := L0.erase rs } :=
      free_some (h := { h with live := L0 }) hr0
    have p0' : (L0.erase rs).Perm (o.channelPtrs.toList ++ (o.shared.toList ++ (o.self :: F))) := by
      have := p0.erase rs
      simpa using this
    obtain ⟨L1, e1, p1⟩ := free_opt_spec o.channelPtrs { h with live := L0.erase rs } _ p0'
    obtain ⟨L2, e2, p2⟩ := free_opt_spec o.shared { h with live := L1 } _ p1
    exact ⟨L2, by simp [delete0, hrs, derefLive_ok hself, e0, e0', e1, e2], p2⟩

theorem fatalError_spec (o : Obj) (h : Heap) (F : List Blk) (wf : WF o) (hp : Owns o h F) :
    ∃ L, fatalError o h = .ok o.errState { h with live := L } ∧ L.Perm (o.self :: F) := by
  obtain ⟨L, e, p⟩ := delete0_spec o h F wf hp
  have hs : o.self ∈ ({ h with live := L } : Heap).live := p.mem_iff.mpr (by simp)
  exact ⟨L, by simp [fatalError, e, derefLive_ok hs, Obj.zero, Obj.errState], p⟩

theorem delete_spec (o : Obj) (h : Heap) (F : List Blk) (wf : WF o) (hp : Owns o h F) :
    ∃ L, delete o h = .ok () { h with live := L } ∧ L.Perm F := by
  obtain ⟨L, e, p⟩ := delete0_spec o h F wf hp
  have hs : o.self ∈ L := p.mem_iff.mpr (by simp)
  have e' : free (some o.zero.self) { h with live := L } = .ok () { h with live := L.erase o.self } :=
    free_some (h := { h with live := L }) hs
  refine ⟨L.erase o.self, by simp [delete, e, e'], ?_⟩
  have := p.erase o.self
  simpa using this

/-- an object in error state (or freshly zeroed) owns just itself -/
theorem wf_zero (o : Obj) : WF o.zero := by simp [WF, Obj.zero]
theorem wf_errState (o : Obj) : WF o.errState := by simp [WF, Obj.errState]
@[simp] theorem blocks_zero (o : Obj) : o.zero.blocks = [o.self] := by simp [Obj.blocks, Obj.zero]
@[simp] theorem blocks_errState (o : Obj) : o.errState.blocks = [o.self] := by simp [Obj.blocks, Obj.errState]

/-! ## The flat view -/

theorem classify_append (fail : Nat → Bool) : ∀ (a b : List Site) (c : Nat),
    classify fail c (a ++ b) = match classify fail c a with
      | .allOk => classify fail (c + a.length) b
      | r => r
  | [], b, c => by simp [classify]
  | s :: a, b, c => by
      by_cases hf : fail c = true
      · cases hk : s.kind <;> simp [classify, hf, hk]
      · have hf' : fail c = false := by simpa using hf
        simp only [List.cons_append, classify, hf', Bool.false_eq_true, if_false, List.length_cons]
        rw [classify_append fail a b (c + 1)]
        have : c + 1 + a.length = c + (a.length + 1) := by omega
        rw [this]

/-! ## `initialise` -/

/-- what `initialise` / its channel loop do, as decided by the first failing call -/
def InitPost (o : Obj) (F : List Blk) (n : Nat) (h : Heap) (r : Res (Bool × Obj)) : Outcome → Prop
  | .allOk => ∃ o' h', r = .ok (false, o') h' ∧ Owns o' h' F ∧ WF o' ∧ h'.count = h.count + n ∧
      o'.self = o.self ∧ o'.error = false ∧ o'.numChannels = o.numChannels ∧ o'.channelPtrs ≠ none
  | .errAt _ _ => ∃ h', r = .ok (true, o.errState) h' ∧ h'.live.Perm (o.self :: F)
  | .crashAt _ s => r = .fault (.derefNull s.name)

theorem initLoop_spec (fail : Nat → Bool) (rs sh cp : Blk) :
    ∀ (todo : List (List Site)) (done : List Chan) (o : Obj) (h : Heap) (F : List Blk),
    o.channelPtrs = some cp → o.shared = some sh → o.resamplers = some rs → o.error = false →
    h.live.Perm (({ o with chans := done.map some } : Obj).blocks ++ F) →
    (o.sharedOwn ≠ [] → done ≠ []) →
    InitPost o F (loopSeq todo).length h (initLoop fail rs sh o done todo h) (classify fail h.count (loopSeq todo))
  | [], done, o, h, F, hcp, hsh, hrs, herr, hp, hso => by
      refine ⟨{ o with chans := done.map some }, h, by simp [initLoop], hp, ⟨by simp [hrs], ?_⟩, by simp [loopSeq],
        rfl, herr, rfl, by simp [hcp]⟩
      intro h0
      cases done with
      | nil => exact absurd rfl (hso h0)
      | cons c _ => exact ⟨c, by simp⟩
  | e :: todo, done, o, h, F, hcp, hsh, hrs, herr, hp, hso => by
      simp only [Obj.blocks, hcp, hsh, hrs] at hp
      have hrl : rs ∈ h.live := hp.mem_iff.mpr (by simp)
      have hshl : sh ∈ h.live := hp.mem_iff.mpr (by simp)
      by_cases hf : fail h.count = true
      · -- the channel's calloc fails: fatal_error
        have hcl : classify fail h.count (loopSeq (e :: todo)) = .errAt h.count siteChan := by
          simp [loopSeq, classify, hf, siteChan]
        rw [hcl]
        let o2 : Obj := { o with chans := done.map some ++ none :: todo.map (fun _ => none) }
        have wf2 : WF o2 := by
          refine ⟨by simp [o2, hrs], ?_⟩
          intro h0
          cases done with
          | nil => exact absurd rfl (hso h0)
          | cons c _ => exact ⟨c, by simp [o2]⟩
        have own2 : Owns o2 { h with count := h.count + 1 } F := by
          simp only [Owns, Obj.blocks, o2, hcp, hsh, hrs, chansBlocks_append, chansBlocks_none, chansBlocks_map_none]
          perm_count [hp]
        obtain ⟨L, eL, pL⟩ := fatalError_spec o2 _ F wf2 own2
        refine ⟨{ h with count := h.count + 1, live := L }, ?_, pL⟩
        simp only [initLoop, bind_apply, derefLive_ok hrl, calloc_fail hf]
        simp only [o2] at eL
        rw [eL]
        rfl
      · have hf' : fail h.count = false := by simpa using hf
        have hcl : classify fail h.count (loopSeq (e :: todo)) =
            match classify fail (h.count + 1) e with
            | .allOk => classify fail (h.count + 1 + e.length) (loopSeq todo)
            | r => r := by
          simp only [loopSeq, classify, hf', Bool.false_eq_true, if_false]
          exact classify_append fail e (loopSeq todo) (h.count + 1)
        rw [hcl]
        let b := h.count
        let h1 : Heap := { h with count := h.count + 1, live := b :: h.live }
        let R : List Blk := b :: o.self :: (chansBlocks (done.map some) ++ rs :: cp :: sh :: F)
        have hbl : b ∈ h1.live := by simp [h1]
        have hshl1 : sh ∈ h1.live := by simp [h1, hshl]
        have hp1 : h1.live.Perm (engBlocks { own := [], temps := [], sh := o.sharedOwn } ++ R) := by
          simp only [engBlocks, h1, R]; perm_count [hp]
        have hE : EngPost R e.length h1 (engCreate fail e { own := [], temps := [], sh := o.sharedOwn } h1)
            (classify fail (h.count + 1) e) :=
          engCreate_spec fail e { own := [], temps := [], sh := o.sharedOwn } h1 R hp1
        have hstep : initLoop fail rs sh o done (e :: todo) h =
            (match engCreate fail e { own := [], temps := [], sh := o.sharedOwn } h1 with
             | .ok (err, st) h' =>
                if err then
                  (do let o' ← fatalError { o with sharedOwn := st.sh,
                                                   chans := done.map some ++ some ({ blk := b, own := st.temps ++ st.own } : Chan) ::
                                                     todo.map (fun _ => none) }
                      pure (true, o')) h'
                else initLoop fail rs sh { o with sharedOwn := st.sh } (done ++ [{ blk := b, own := st.temps ++ st.own }]) todo h'
             | .fault f => .fault f) := by
          have hb' : h.count ∈ (h.count :: h.live) := by simp
          have hs' : sh ∈ (h.count :: h.live) := by simp [hshl]
          simp only [initLoop, bind_apply, derefLive_ok hrl, calloc_ok hf']
          simp only [derefLive, hb', hs', if_true, b, h1]
          cases engCreate fail e { own := [], temps := [], sh := o.sharedOwn } h1 with
          | fault f => rfl
          | ok a h' =>
            obtain ⟨err, st⟩ := a
            cases err <;> rfl
        rw [hstep]
        cases hce : classify fail (h.count + 1) e <;> rw [hce] at hE
        · -- this channel is created; on to the next
          obtain ⟨st', h', e1, e2, e3, e4⟩ := hE
          rw [e1]
          simp only [Bool.false_eq_true, if_false, e2, List.nil_append]
          let c : Chan := { blk := b, own := st'.own }
          have hp' : h'.live.Perm (({ ({ o with sharedOwn := st'.sh } : Obj) with chans := (done ++ [c]).map some } : Obj).blocks ++ F) := by
            simp only [Obj.blocks, hcp, hsh, hrs, List.map_append, List.map_cons, List.map_nil, chansBlocks_append,
              chansBlocks_some, chansBlocks_nil, c]
            simp only [engBlocks, e2, R] at e3
            perm_count [e3]
          have ih := initLoop_spec fail rs sh cp todo (done ++ [c]) { o with sharedOwn := st'.sh } h' F hcp hsh hrs herr hp'
            (by simp)
          have hc' : h'.count = h.count + 1 + e.length := by simpa using e4
          rw [hc'] at ih
          cases hct : classify fail (h.count + 1 + e.length) (loopSeq todo) <;> rw [hct] at ih
          · obtain ⟨o'', h'', f1, f2, f3, f4, f5, f6, f7, f8⟩ := ih
            exact ⟨o'', h'', f1, f2, f3, by simp [f4, hc', loopSeq]; omega, f5, f6, f7, f8⟩
          · exact ih
          · exact ih
        · -- the engine returned an error string: fatal_error closes what exists
          obtain ⟨st', h', e1, e3⟩ := hE
          rw [e1]
          simp only [if_true]
          let o2 : Obj := { o with sharedOwn := st'.sh,
                                   chans := done.map some ++ some ({ blk := b, own := st'.temps ++ st'.own } : Chan) ::
                                     todo.map (fun _ => none) }
          have wf2 : WF o2 :=
            ⟨by simp [o2, hrs], fun _ => ⟨{ blk := b, own := st'.temps ++ st'.own }, by simp [o2]⟩⟩
          have own2 : Owns o2 h' F := by
            simp only [Owns, Obj.blocks, o2, hcp, hsh, hrs, chansBlocks_append, chansBlocks_some, chansBlocks_map_none]
            simp only [engBlocks, R] at e3
            perm_count [e3]
          obtain ⟨L, eL, pL⟩ := fatalError_spec o2 h' F wf2 own2
          refine ⟨{ h' with live := L }, ?_, pL⟩
          simp only [o2] at eL
          simp only [bind_apply, eL]
          rfl
        · -- an unchecked site of the engine dereferences its NULL
          simp only [EngPost] at hE
          rw [hE]
          rfl

theorem calloc_spec (fail : Nat → Bool) (h : Heap) :
    calloc fail h = .ok (if fail h.count then none else some h.count)
      { h with count := h.count + 1, live := (if fail h.count then none else some h.count).toList ++ h.live } := by
  cases hf : fail h.count
  · simp [calloc_ok hf]
  · simp [calloc_fail hf]

theorem fatal_path (o o1 : Obj) (h3 : Heap) (F : List Blk) (hs : o1.self = o.self) (wf : WF o1) (own : Owns o1 h3 F) :
    ∃ h', (do let o' ← fatalError o1; pure (true, o')) h3 = .ok (true, o.errState) h' ∧ h'.live.Perm (o.self :: F) := by
  obtain ⟨L, eL, pL⟩ := fatalError_spec o1 h3 F wf own
  refine ⟨{ h3 with live := L }, ?_, hs ▸ pL⟩
  simp [eL, Obj.errState, hs]

/-- an object on which `initialise` may run: no error, nothing allocated yet -/
def Fresh (o : Obj) : Prop :=
  o.error = false ∧ o.channelPtrs = none ∧ o.shared = none ∧ o.resamplers = none ∧ o.sharedOwn = []

theorem initialise_spec (fail : Nat → Bool) (o : Obj) (engs : List (List Site)) (h : Heap) (F : List Blk)
    (fr : Fresh o) (hp : h.live.Perm (o.self :: F)) :
    InitPost o F (initSeq engs).length h (initialise fail o engs h) (classify fail h.count (initSeq engs)) := by
  obtain ⟨herr, -, -, -, hso⟩ := fr
  have hself : o.self ∈ h.live := hp.mem_iff.mpr (by simp)
  -- the three allocations are made unconditionally
  let cp : Option Blk := if fail h.count then none else some h.count
  let sh : Option Blk := if fail (h.count + 1) then none else some (h.count + 1)
  let rs : Option Blk := if fail (h.count + 2) then none else some (h.count + 2)
  let h3 : Heap := { h with count := h.count + 3, live := rs.toList ++ (sh.toList ++ (cp.toList ++ h.live)) }
  let o1 : Obj := { o with channelPtrs := cp, shared := sh, resamplers := rs, chans := engs.map (fun _ => none) }
  have hrun : initialise fail o engs h =
      (match cp, sh, rs with
       | some _, some s, some r => initLoop fail r s o1 [] engs
       | _, _, _ => do let o' ← fatalError o1; pure (true, o')) h3 := by
    simp only [initialise, bind_apply, derefLive_ok hself, calloc_spec]
    rfl
  have own1 : Owns o1 h3 F := by
    simp only [Owns, Obj.blocks, o1, h3, hso, chansBlocks_map_none]
    perm_count [hp]
  rw [hrun]
  cases h0 : fail h.count <;> cases h1 : fail (h.count + 1) <;> cases h2 : fail (h.count + 2)
  · -- all three succeed: the channel loop
    have hcl : classify fail h.count (initSeq engs) = classify fail (h.count + 3) (loopSeq engs) := by
      simp [initSeq, classify, h0, h1, h2]
    rw [hcl]
    have hcp : cp = some h.count := by simp [cp, h0]
    have hsh : sh = some (h.count + 1) := by simp [sh, h1]
    have hrs : rs = some (h.count + 2) := by simp [rs, h2]
    simp only [hcp, hsh, hrs]
    have hp0 : h3.live.Perm (({ o1 with chans := ([] : List Chan).map some } : Obj).blocks ++ F) := by
      simp only [Obj.blocks, o1, h3, hso, hcp, hsh, hrs, List.map_nil, chansBlocks_nil]
      perm_count [hp]
    have ih := initLoop_spec fail (h.count + 2) (h.count + 1) h.count engs [] o1 h3 F
      (by simp [o1, hcp]) (by simp [o1, hsh]) (by simp [o1, hrs]) herr hp0 (by simp [o1, hso])
    have hc3 : h3.count = h.count + 3 := rfl
    rw [hc3] at ih
    cases hct : classify fail (h.count + 3) (loopSeq engs) <;> rw [hct] at ih
    · obtain ⟨o'', h'', f1, f2, f3, f4, f5, f6, f7, f8⟩ := ih
      exact ⟨o'', h'', f1, f2, f3, by simp [f4, hc3, initSeq]; omega, f5, f6, f7, f8⟩
    · exact ih
    · exact ih
  all_goals
    have wf1 : WF o1 := by
      refine ⟨fun _ => by simp [o1, hso], fun hne => absurd ?_ hne⟩
      simp [o1, hso]
    obtain ⟨h', e', p'⟩ := fatal_path o o1 h3 F rfl wf1 own1
    have hm : (match cp, sh, rs with
       | some _, some s, some r => initLoop fail r s o1 [] engs
       | _, _, _ => do let o' ← fatalError o1; pure (true, o')) = (do let o' ← fatalError o1; pure (true, o')) := by
      simp [cp, sh, rs, h0, h1, h2]
    rw [hm]
    have hcl : ∃ k s, classify fail h.count (initSeq engs) = .errAt k s := by
      simp [initSeq, classify, h0, h1, h2, siteChannelPtrs, siteShared, siteResamplers]
    obtain ⟨k, s, hks⟩ := hcl
    rw [hks]
    exact ⟨h', e', p'⟩

/-! ## Facts about the classification -/

def NoFail (fail : Nat → Bool) (a b : Nat) : Prop := ∀ k, a ≤ k → k < b → fail k = false

theorem classify_allOk (fail : Nat → Bool) : ∀ (ss : List Site) (c : Nat),
    classify fail c ss = .allOk → NoFail fail c (c + ss.length)
  | [], c, _ => fun k h1 h2 => by simp at h2; omega
  | s :: ss, c, hcl => by
      by_cases hf : fail c = true
      · cases hk : s.kind <;> simp [classify, hf, hk] at hcl
      · have hf' : fail c = false := by simpa using hf
        simp only [classify, hf', Bool.false_eq_true, if_false] at hcl
        have ih := classify_allOk fail ss (c + 1) hcl
        intro k h1 h2
        by_cases hk : k = c
        · exact hk ▸ hf'
        · exact ih k (by omega) (by simp at h2; omega)

/-- `errAt k s`: call `k` is the first failing one and `s`, the site it belongs to, is checked -/
theorem classify_errAt (fail : Nat → Bool) : ∀ (ss : List Site) (c k : Nat) (s : Site),
    classify fail c ss = .errAt k s →
      s.kind = .checked ∧ fail k = true ∧ c ≤ k ∧ ss[k - c]? = some s ∧ NoFail fail c k
  | [], c, k, s, hcl => by simp [classify] at hcl
  | t :: ss, c, k, s, hcl => by
      by_cases hf : fail c = true
      · cases hk : t.kind
        · simp only [classify, hf, hk, if_true, Outcome.errAt.injEq] at hcl
          obtain ⟨rfl, rfl⟩ := hcl
          exact ⟨hk, hf, Nat.le_refl _, by simp, fun j h1 h2 => by omega⟩
        · simp [classify, hf, hk] at hcl
      · have hf' : fail c = false := by simpa using hf
        simp only [classify, hf', Bool.false_eq_true, if_false] at hcl
        obtain ⟨a1, a2, a3, a4, a5⟩ := classify_errAt fail ss (c + 1) k s hcl
        refine ⟨a1, a2, by omega, ?_, ?_⟩
        · have : k - c = (k - (c + 1)) + 1 := by omega
          rw [this]; simpa using a4
        · intro j h1 h2
          by_cases hj : j = c
          · exact hj ▸ hf'
          · exact a5 j (by omega) h2

/-- `crashAt k s`: call `k` is the first failing one and `s`, the site it belongs to, is unchecked -/
theorem classify_crashAt (fail : Nat → Bool) : ∀ (ss : List Site) (c k : Nat) (s : Site),
    classify fail c ss = .crashAt k s →
      s.kind = .unchecked ∧ fail k = true ∧ c ≤ k ∧ ss[k - c]? = some s ∧ NoFail fail c k
  | [], c, k, s, hcl => by simp [classify] at hcl
  | t :: ss, c, k, s, hcl => by
      by_cases hf : fail c = true
      · cases hk : t.kind
        · simp [classify, hf, hk] at hcl
        · simp only [classify, hf, hk, if_true, Outcome.crashAt.injEq] at hcl
          obtain ⟨rfl, rfl⟩ := hcl
          exact ⟨hk, hf, Nat.le_refl _, by simp, fun j h1 h2 => by omega⟩
      · have hf' : fail c = false := by simpa using hf
        simp only [classify, hf', Bool.false_eq_true, if_false] at hcl
        obtain ⟨a1, a2, a3, a4, a5⟩ := classify_crashAt fail ss (c + 1) k s hcl
        refine ⟨a1, a2, by omega, ?_, ?_⟩
        · have : k - c = (k - (c + 1)) + 1 := by omega
          rw [this]; simpa using a4
        · intro j h1 h2
          by_cases hj : j = c
          · exact hj ▸ hf'
          · exact a5 j (by omega) h2

/-- under the single-failure oracle the outcome is read off the site at the failing index -/
theorem classify_failAt : ∀ (ss : List Site) (c k : Nat),
    classify (failAt (c + k)) c ss =
      match ss[k]? with
      | none => .allOk
      | some s => match s.kind with
        | .checked => .errAt (c + k) s
        | .unchecked => .crashAt (c + k) s
  | [], c, k => by simp [classify]
  | s :: ss, c, 0 => by
      cases hk : s.kind <;> simp [classify, failAt, hk]
  | s :: ss, c, k + 1 => by
      have hne : failAt (c + (k + 1)) c = false := by simp [failAt]
      have ih := classify_failAt ss (c + 1) k
      have e : c + 1 + k = c + (k + 1) := by omega
      rw [e] at ih
      simp only [classify, hne, Bool.false_eq_true, if_false, List.getElem?_cons_succ]
      exact ih

/-! ## `soxr_set_io_ratio`, `soxr_create`, `soxr_clear`, `soxr_process` -/

/-- every reachable object: well-formed, and either wholly initialised or wholly not -/
def Good (o : Obj) : Prop :=
  WF o ∧ (o.channelPtrs = none → o.shared = none ∧ o.resamplers = none ∧ o.sharedOwn = [])

theorem Good.blocks_of_none {o : Obj} (g : Good o) (hc : o.channelPtrs = none) : o.blocks = [o.self] := by
  obtain ⟨h1, h2, h3⟩ := g.2 hc
  obtain ⟨h4, -⟩ := g.1.1 h2
  simp [Obj.blocks, hc, h1, h2, h3, h4]

theorem good_zero (o : Obj) (n : Nat) : Good { o.zero with numChannels := n } := by
  simp [Good, WF, Obj.zero]

theorem good_errState (o : Obj) : Good o.errState := by simp [Good, WF, Obj.errState]

theorem setIoRatio_fresh (fail : Nat → Bool) (o : Obj) (engs : List (List Site)) (h : Heap)
    (fr : Fresh o) (hn : o.numChannels ≠ 0) (hself : o.self ∈ h.live) :
    setIoRatio fail o engs h = initialise fail o engs h := by
  simp [setIoRatio, derefLive_ok hself, fr.1, fr.2.1, hn]

def CreatePost (F : List Blk) (n : Nat) (h : Heap) (r : Res (Option Obj)) : Outcome → Prop
  | .allOk => ∃ o h', r = .ok (some o) h' ∧ Good o ∧ Owns o h' F ∧ h'.count = h.count + n ∧ o.error = false
  | .errAt _ _ => ∃ h', r = .ok none h' ∧ h'.live.Perm F
  | .crashAt _ s => r = .fault (.derefNull s.name)

theorem create_spec (fail : Nat → Bool) (engs : List (List Site)) (init : Bool) (h : Heap) :
    CreatePost h.live (createSeq engs init).length h (create fail engs init h)
      (classify fail h.count (createSeq engs init)) := by
  by_cases hf : fail h.count = true
  · have hcl : classify fail h.count (createSeq engs init) = .errAt h.count siteCreate := by
      simp [createSeq, classify, hf, siteCreate]
    rw [hcl]
    exact ⟨{ h with count := h.count + 1 }, by simp [create, calloc_fail hf], List.Perm.refl _⟩
  · have hf' : fail h.count = false := by simpa using hf
    obtain ⟨h1, hh1⟩ : ∃ h1 : Heap, h1 = { h with count := h.count + 1, live := h.count :: h.live } := ⟨_, rfl⟩
    obtain ⟨o, ho⟩ : ∃ o : Obj, o = { self := h.count, numChannels := engs.length } := ⟨_, rfl⟩
    have hb : o.self ∈ h1.live := by simp [hh1, ho]
    have hfr : Fresh o := by simp [Fresh, ho]
    have hb' : h.count ∈ (h.count :: h.live) := by simp
    by_cases hi : engs.length ≠ 0 ∧ init = true
    · have hcs : createSeq engs init = siteCreate :: initSeq engs := by simp only [createSeq, if_pos hi]
      have hcl : classify fail h.count (createSeq engs init) = classify fail (h.count + 1) (initSeq engs) := by
        simp [hcs, classify, hf']
      rw [hcl]
      have hrun : create fail engs init h =
          (match initialise fail o engs h1 with
           | .ok (err, o') h' => if err then (do delete o'; pure none) h' else .ok (some o') h'
           | .fault f => .fault f) := by
        simp only [create, bind_apply, calloc_ok hf', derefLive, hb', if_true, if_pos hi]
        rw [← hh1, ← ho, setIoRatio_fresh fail o engs h1 hfr (by simpa [ho] using hi.1) hb]
        cases initialise fail o engs h1 with
        | fault f => rfl
        | ok a h' =>
          obtain ⟨err, o'⟩ := a
          cases err <;> rfl
      have hI : InitPost o h.live (initSeq engs).length h1 (initialise fail o engs h1)
          (classify fail h1.count (initSeq engs)) :=
        initialise_spec fail o engs h1 h.live hfr (by simp [hh1, ho])
      have hc1 : h1.count = h.count + 1 := by simp [hh1]
      rw [hc1] at hI
      rw [hrun]
      cases hct : classify fail (h.count + 1) (initSeq engs) <;> rw [hct] at hI
      · obtain ⟨o', h', f1, f2, f3, f4, f5, f6, f7, f8⟩ := hI
        rw [f1]
        refine ⟨o', h', by simp, ⟨f3, fun hc => absurd hc f8⟩, f2, ?_, f6⟩
        simp [f4, hc1, hcs]; omega
      · obtain ⟨h', f1, f2⟩ := hI
        rw [f1]
        obtain ⟨L, eL, pL⟩ := delete_spec o.errState h' h.live (wf_errState o) (by simpa [Owns] using f2)
        exact ⟨{ h' with live := L }, by simp [eL], pL⟩
      · simp only [InitPost] at hI
        rw [hI]
        rfl
    · have hcs : createSeq engs init = [siteCreate] := by simp only [createSeq, if_neg hi]
      have hcl : classify fail h.count (createSeq engs init) = .allOk := by
        simp [hcs, classify, hf']
      rw [hcl]
      refine ⟨o, h1, ?_, ?_, ?_, by simp [hh1, hcs], by simp [ho]⟩
      · simp only [create, bind_apply, calloc_ok hf', derefLive, hb', if_true, if_neg hi]
        rw [← hh1, ← ho]
        rfl
      · simp [Good, WF, ho]
      · simp [Owns, Obj.blocks, ho, hh1]

theorem clear_spec (fail : Nat → Bool) (o : Obj) (engs : List (List Site)) (h : Heap) (F : List Blk)
    (g : Good o) (own : Owns o h F) (hn : o.numChannels ≠ 0) :
    InitPost { o.zero with numChannels := o.numChannels } F (initSeq engs).length h
      (clear fail o true engs h) (classify fail h.count (initSeq engs)) := by
  have hself : o.self ∈ h.live := own.mem_iff.mpr (by simp [Obj.blocks])
  obtain ⟨L, eL, pL⟩ := delete0_spec o h F g.1 own
  let o1 : Obj := { o.zero with numChannels := o.numChannels }
  have hfr : Fresh o1 := by simp [Fresh, o1, Obj.zero]
  have hs1 : o1.self ∈ ({ h with live := L } : Heap).live := pL.mem_iff.mpr (by simp [o1, Obj.zero])
  have hrun : clear fail o true engs h = initialise fail o1 engs { h with live := L } := by
    simp only [clear, bind_apply, derefLive_ok hself, eL, if_true]
    exact setIoRatio_fresh fail o1 engs _ hfr (by simpa [o1] using hn) hs1
  rw [hrun]
  exact initialise_spec fail o1 engs { h with live := L } F hfr (by simpa [o1, Obj.zero] using pL)

theorem engRun_spec (fail : Nat → Bool) : ∀ (ss : List Site) (h : Heap),
    match classify fail h.count (ss.map uncheck) with
    | .allOk => ∃ h', engRun fail ss h = .ok () h' ∧ h'.live = h.live ∧ h'.count = h.count + ss.length
    | .errAt _ _ => False
    | .crashAt _ s => engRun fail ss h = .fault (.derefNull s.name)
  | [], h => by simp [classify, engRun]
  | s :: ss, h => by
      by_cases hf : fail h.count = true
      · simp [classify, hf, uncheck, engRun]
      · have hf' : fail h.count = false := by simpa using hf
        have hcl : classify fail h.count ((s :: ss).map uncheck) = classify fail (h.count + 1) (ss.map uncheck) := by
          simp [classify, hf']
        rw [hcl]
        have key : ∀ h1 : Heap, h1.count = h.count + 1 → h1.live = h.live → engRun fail (s :: ss) h = engRun fail ss h1 →
            match classify fail (h.count + 1) (ss.map uncheck) with
            | .allOk => ∃ h', engRun fail (s :: ss) h = .ok () h' ∧ h'.live = h.live ∧ h'.count = h.count + (s :: ss).length
            | .errAt _ _ => False
            | .crashAt _ s' => engRun fail (s :: ss) h = .fault (.derefNull s'.name) := by
          intro h1 hc hl heq
          have ih := engRun_spec fail ss h1
          rw [hc] at ih
          rw [heq]
          cases hct : classify fail (h.count + 1) (ss.map uncheck) <;> rw [hct] at ih
          · obtain ⟨h', f1, f2, f3⟩ := ih
            exact ⟨h', f1, by rw [f2, hl], by simp [f3]; omega⟩
          · exact ih
          · exact ih
        cases hl : s.life
        case static => exact key { h with count := h.count + 1, cache := h.count :: h.cache } rfl rfl (by simp [engRun, hf', hl])
        all_goals exact key { h with count := h.count + 1 } rfl rfl (by simp [engRun, hf', hl])

/-! ## Safety of every operation, for every oracle -/

/-- What any API call of the model may do, whatever the oracle: keep the object good and exactly owned (reporting an
error or not — and if not, no allocation call failed), or dereference the NULL of a failed allocation.  Never a double
free, never a use after free. -/
def OpPost (fail : Nat → Bool) (F : List Blk) (h : Heap) : Res (Bool × Obj) → Prop
  | .ok (false, o') h' => Good o' ∧ Owns o' h' F ∧ h.count ≤ h'.count ∧ NoFail fail h.count h'.count
  | .ok (true, o') h' => Good o' ∧ Owns o' h' F
  | .fault (.derefNull _) => ∃ k, h.count ≤ k ∧ fail k = true
  | .fault _ => False

theorem initPost_opPost (fail : Nat → Bool) (o : Obj) (F : List Blk) (ss : List Site) (h : Heap)
    (r : Res (Bool × Obj)) (hI : InitPost o F ss.length h r (classify fail h.count ss)) : OpPost fail F h r := by
  cases hct : classify fail h.count ss <;> rw [hct] at hI
  · obtain ⟨o', h', f1, f2, f3, f4, -, -, -, f8⟩ := hI
    rw [f1]
    exact ⟨⟨f3, fun hc => absurd hc f8⟩, f2, by omega, f4 ▸ classify_allOk fail ss h.count hct⟩
  · obtain ⟨h', f1, f2⟩ := hI
    rw [f1]
    exact ⟨good_errState o, by simpa [Owns] using f2⟩
  · obtain ⟨-, a2, a3, -, -⟩ := classify_crashAt fail ss h.count _ _ hct
    simp only [InitPost] at hI
    rw [hI]
    exact ⟨_, a3, a2⟩

theorem noFail_refl (fail : Nat → Bool) (c : Nat) : NoFail fail c c := fun k h1 h2 => by omega

theorem setIoRatio_post (fail : Nat → Bool) (o : Obj) (engs : List (List Site)) (h : Heap) (F : List Blk)
    (g : Good o) (own : Owns o h F) : OpPost fail F h (setIoRatio fail o engs h) := by
  have hself : o.self ∈ h.live := own.mem_iff.mpr (by simp [Obj.blocks])
  cases herr : o.error
  case true => simp [setIoRatio, derefLive_ok hself, herr, OpPost, g, own]
  case false =>
    by_cases hn : o.numChannels = 0
    · simp [setIoRatio, derefLive_ok hself, herr, hn, OpPost, g, own]
    · cases hcp : o.channelPtrs with
      | some cp =>
        simp [setIoRatio, derefLive_ok hself, herr, hn, hcp, OpPost, g, own, noFail_refl]
      | none =>
        obtain ⟨h1, h2, h3⟩ := g.2 hcp
        have hfr : Fresh o := ⟨herr, hcp, h1, h2, h3⟩
        rw [setIoRatio_fresh fail o engs h hfr hn hself]
        have hp : h.live.Perm (o.self :: F) := by
          have := own; rw [Owns, g.blocks_of_none hcp] at this; simpa using this
        exact initPost_opPost fail o F (initSeq engs) h _ (initialise_spec fail o engs h F hfr hp)

theorem setNumChannels_post (fail : Nat → Bool) (o : Obj) (engs : List (List Site)) (h : Heap) (F : List Blk)
    (g : Good o) (own : Owns o h F) : OpPost fail F h (setNumChannels fail o engs h) := by
  have hself : o.self ∈ h.live := own.mem_iff.mpr (by simp [Obj.blocks])
  by_cases h1 : engs.length = o.numChannels
  · cases herr : o.error <;> simp [setNumChannels, derefLive_ok hself, h1, herr, OpPost, g, own, noFail_refl]
  · by_cases h2 : engs.length = 0
    · simp only [setNumChannels, bind_apply, derefLive_ok hself, if_neg h1, if_pos h2]
      exact ⟨g, own⟩
    · cases h3 : o.resamplers with
      | some r => simp [setNumChannels, derefLive_ok hself, h1, h2, h3, OpPost, g, own]
      | none =>
        have : setNumChannels fail o engs h = setIoRatio fail { o with numChannels := engs.length } engs h := by
          simp [setNumChannels, derefLive_ok hself, h1, h2, h3]
        rw [this]
        exact setIoRatio_post fail _ engs h F g own

theorem clear_post (fail : Nat → Bool) (o : Obj) (reset : Bool) (engs : List (List Site)) (h : Heap) (F : List Blk)
    (g : Good o) (own : Owns o h F) : OpPost fail F h (clear fail o reset engs h) := by
  have hself : o.self ∈ h.live := own.mem_iff.mpr (by simp [Obj.blocks])
  obtain ⟨L, eL, pL⟩ := delete0_spec o h F g.1 own
  have own1 : Owns { o.zero with numChannels := o.numChannels } { h with live := L } F := by
    simpa [Owns, Obj.blocks, Obj.zero] using pL
  cases reset
  · simp [clear, derefLive_ok hself, eL, OpPost, good_zero, own1, noFail_refl]
  · have : clear fail o true engs h = setIoRatio fail { o.zero with numChannels := o.numChannels } engs { h with live := L } := by
      simp [clear, derefLive_ok hself, eL]
    rw [this]
    exact setIoRatio_post fail _ engs { h with live := L } F (good_zero o _) own1

theorem process_post (fail : Nat → Bool) (o : Obj) (ss : List Site) (h : Heap) (F : List Blk)
    (g : Good o) (own : Owns o h F) : OpPost fail F h (process fail o ss h) := by
  have hself : o.self ∈ h.live := own.mem_iff.mpr (by simp [Obj.blocks])
  cases herr : o.error
  case true => simp [process, derefLive_ok hself, herr, OpPost, g, own]
  case false =>
    have hE := engRun_spec fail ss h
    cases hct : classify fail h.count (ss.map uncheck) <;> rw [hct] at hE
    · obtain ⟨h', f1, f2, f3⟩ := hE
      have hnf := classify_allOk fail _ h.count hct
      simp only [List.length_map] at hnf
      simp only [process, bind_apply, derefLive_ok hself, herr, Bool.false_eq_true, if_false, f1, pure_apply]
      exact ⟨g, by simpa [Owns, f2] using own, by omega, f3 ▸ hnf⟩
    · exact hE.elim
    · obtain ⟨-, a2, a3, -, -⟩ := classify_crashAt fail _ h.count _ _ hct
      simp only [process, bind_apply, derefLive_ok hself, herr, Bool.false_eq_true, if_false, hE]
      exact ⟨_, a3, a2⟩

theorem runOp_post (fail : Nat → Bool) (o : Obj) (op : Op) (h : Heap) (F : List Blk)
    (g : Good o) (own : Owns o h F) : OpPost fail F h (runOp fail o op h) := by
  cases op with
  | process ss => exact process_post fail o ss h F g own
  | clear r e => exact clear_post fail o r e h F g own
  | setRatio e => exact setIoRatio_post fail o e h F g own
  | setChannels e => exact setNumChannels_post fail o e h F g own

def OpsPost (fail : Nat → Bool) (F : List Blk) (h : Heap) : Res (Obj × Option (Nat × Nat)) → Prop
  | .ok (o', none) h' => Good o' ∧ Owns o' h' F ∧ h.count ≤ h'.count ∧ NoFail fail h.count h'.count
  | .ok (o', some _) h' => Good o' ∧ Owns o' h' F
  | .fault (.derefNull _) => ∃ k, h.count ≤ k ∧ fail k = true
  | .fault _ => False

theorem noFail_trans {fail : Nat → Bool} {a b c : Nat} (h1 : NoFail fail a b) (h2 : NoFail fail b c) : NoFail fail a c :=
  fun k ha hc => by
    by_cases hb : k < b
    · exact h1 k ha hb
    · exact h2 k (by omega) hc

theorem runOps_post (fail : Nat → Bool) (F : List Blk) : ∀ (ops : List Op) (o : Obj) (i : Nat) (h : Heap),
    Good o → Owns o h F → OpsPost fail F h (runOps fail o ops i h)
  | [], o, i, h, g, own => by simp [runOps, OpsPost, g, own, noFail_refl]
  | op :: ops, o, i, h, g, own => by
      have hP := runOp_post fail o op h F g own
      simp only [runOps, bind_apply]
      cases hr : runOp fail o op h with
      | fault f =>
        rw [hr] at hP
        cases f <;> simp_all [OpPost, OpsPost]
      | ok a h' =>
        rw [hr] at hP
        obtain ⟨err, o'⟩ := a
        cases err
        · obtain ⟨g', own', hle, hnf⟩ := hP
          simp only [Bool.false_eq_true, if_false]
          have ih := runOps_post fail F ops o' (i + 1) h' g' own'
          cases hr2 : runOps fail o' ops (i + 1) h' with
          | fault f =>
            rw [hr2] at ih
            cases f with
            | derefNull s => obtain ⟨k, k1, k2⟩ := ih; exact ⟨k, by omega, k2⟩
            | derefDead b => exact ih.elim
            | badFree b => exact ih.elim
          | ok a2 h2 =>
            rw [hr2] at ih
            obtain ⟨o2, r2⟩ := a2
            cases r2 with
            | none =>
              obtain ⟨i1, i2, i3, i4⟩ := ih
              exact ⟨i1, i2, by omega, noFail_trans hnf i4⟩
            | some x => exact ih
        · obtain ⟨g', own'⟩ := hP
          simp [OpsPost, g', own']

/-- The whole job, any oracle: either the NULL of a failed allocation is dereferenced (an unchecked site), or the job
ends with exactly the blocks live that were live before it started — and if no call reported an error, no allocation
call failed. -/
def JobPost (fail : Nat → Bool) (h : Heap) : Res Verdict → Prop
  | .ok v h' => h'.live.Perm h.live ∧
      match v with
      | .completed m => m = h.live.length ∧ NoFail fail h.count h'.count
      | .createFailed n => n = h.live.length
      | .opFailed _ _ m => m = h.live.length
  | .fault (.derefNull _) => ∃ k, h.count ≤ k ∧ fail k = true
  | .fault _ => False

theorem runJob_post (fail : Nat → Bool) (j : Job) (h : Heap) : JobPost fail h (runJob fail j h) := by
  have hC := create_spec fail j.engs j.init h
  cases hct : classify fail h.count (createSeq j.engs j.init) <;> rw [hct] at hC
  · obtain ⟨o, h1, f1, g, own, hc, -⟩ := hC
    have hnf1 : NoFail fail h.count h1.count := hc ▸ classify_allOk fail _ h.count hct
    have hO := runOps_post fail h.live j.ops o 0 h1 g own
    simp only [runJob, bind_apply, f1]
    cases hr : runOps fail o j.ops 0 h1 with
    | fault f =>
      rw [hr] at hO
      cases f with
      | derefNull s => obtain ⟨k, k1, k2⟩ := hO; exact ⟨k, by omega, k2⟩
      | derefDead b => exact hO.elim
      | badFree b => exact hO.elim
    | ok a h2 =>
      rw [hr] at hO
      obtain ⟨o2, r2⟩ := a
      cases r2 with
      | none =>
        obtain ⟨g2, own2, hle, hnf2⟩ := hO
        obtain ⟨L, eL, pL⟩ := delete_spec o2 h2 h.live g2.1 own2
        simp only [bind_apply, eL, liveCount_apply, pure_apply]
        exact ⟨pL, pL.length_eq, noFail_trans hnf1 hnf2⟩
      | some x =>
        obtain ⟨g2, own2⟩ := hO
        obtain ⟨i, n⟩ := x
        -- the object in error state is poked once more, then deleted
        have hP := process_post fail o2 [] h2 h.live g2 own2
        simp only [bind_apply]
        cases hp : process fail o2 [] h2 with
        | fault f =>
          rw [hp] at hP
          have : process fail o2 [] h2 ≠ .fault f := by
            have hself : o2.self ∈ h2.live := own2.mem_iff.mpr (by simp [Obj.blocks])
            cases he : o2.error <;> simp [process, derefLive_ok hself, he, engRun]
          exact absurd hp this
        | ok a3 h3 =>
          rw [hp] at hP
          obtain ⟨e3, o3⟩ := a3
          have hgo : Good o3 ∧ Owns o3 h3 h.live := by
            cases e3
            · exact ⟨hP.1, hP.2.1⟩
            · exact hP
          obtain ⟨L, eL, pL⟩ := delete_spec o3 h3 h.live hgo.1.1 hgo.2
          simp only [eL, liveCount_apply, pure_apply]
          exact ⟨pL, pL.length_eq⟩
  · obtain ⟨h1, f1, pL⟩ := hC
    simp only [runJob, bind_apply, f1, liveCount_apply, pure_apply]
    exact ⟨pL, pL.length_eq⟩
  · obtain ⟨-, a2, a3, -, -⟩ := classify_crashAt fail _ h.count _ _ hct
    simp only [CreatePost] at hC
    simp only [runJob, bind_apply, hC]
    exact ⟨_, a3, a2⟩

/-! ## Corollaries used by the property file -/

/-- `soxr_delete0` on an object that `fatal_error` has just torn down frees nothing at all: the heap is untouched. -/
theorem delete0_errState (o : Obj) (h : Heap) (hself : o.self ∈ h.live) :
    delete0 o.errState h = .ok o.zero h := by
  simp [delete0, Obj.errState, Obj.zero, derefLive_ok hself]

theorem mem_loopSeq : ∀ (engs : List (List Site)) (s : Site), s ∈ loopSeq engs → s = siteChan ∨ ∃ e ∈ engs, s ∈ e
  | [], s, hs => by simp [loopSeq] at hs
  | e :: es, s, hs => by
      simp only [loopSeq, List.mem_cons, List.mem_append] at hs
      rcases hs with h1 | h2 | h3
      · exact Or.inl h1
      · exact Or.inr ⟨e, by simp, h2⟩
      · rcases mem_loopSeq es s h3 with h4 | ⟨e', he', hs'⟩
        · exact Or.inl h4
        · exact Or.inr ⟨e', by simp [he'], hs'⟩

theorem mem_createSeq (engs : List (List Site)) (init : Bool) (s : Site) (hs : s ∈ createSeq engs init) :
    s = siteCreate ∨ s = siteChannelPtrs ∨ s = siteShared ∨ s = siteResamplers ∨ s = siteChan ∨ ∃ e ∈ engs, s ∈ e := by
  simp only [createSeq, List.mem_cons] at hs
  rcases hs with h1 | h2
  · exact Or.inl h1
  · split at h2
    · simp only [initSeq, List.mem_cons] at h2
      rcases h2 with h | h | h | h
      · exact Or.inr (Or.inl h)
      · exact Or.inr (Or.inr (Or.inl h))
      · exact Or.inr (Or.inr (Or.inr (Or.inl h)))
      · exact Or.inr (Or.inr (Or.inr (Or.inr (mem_loopSeq engs s h))))
    · simp at h2

end Soxr.Alloc
