/-! Line-protocol driver of the Alloc model (stub). -/
def main : IO Unit := pure ()
