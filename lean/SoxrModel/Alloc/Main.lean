import SoxrModel.Alloc.Model

/-!
Line-protocol driver of the Alloc model (`soxr_alloc`).  One job at a time:

```
eng <site> <site> …        engine site list of one channel (one line per channel); site = name|kind|life
                           kind: c(hecked) u(nchecked)   life: t(emp) o(wn) s(hared) g(lobal static) r(ealloc of an existing block)
create <0|1>               soxr_create with the pending `eng` lines; 1 = a ratio is given (resamplers are built)
op process <site> …        soxr_process making these allocation calls
op clear <0|1>             soxr_clear (1 = RESET_ON_CLEAR) rebuilding with the pending `eng` lines
op ratio                   soxr_set_io_ratio, building with the pending `eng` lines if nothing is built yet
op channels                soxr_set_num_channels to the number of pending `eng` lines
run                        prints  `n <calls>`, `seq <site names in call order>`, then for every k < n  `k <k> <outcome> | <flat>`
                           (only call k fails) and `p <k> <outcome> | <flat>` (every call from k on fails)
```

`<outcome>` is what the executable model (`runJob (failAt k)`) does; `<flat>` is what `classify` says about the flat
site sequence (the theorems of `Properties/C20.lean` say the two agree; printing both lets the check see it too):

```
ok final=<m>                               nothing reported, m blocks live after soxr_delete
error-returned op=<i> live=<n> final=<m>   call i of the script (-1 = soxr_create) returned an error, n blocks live then
crash-at-site <name>                       the NULL of the failed call is dereferenced
model-fault <text>                         double free / use after free in the model (never, by `job_no_leak_no_double_free`)
```
-/

open Soxr.Alloc

def parseSite (t : String) : Option Site :=
  match t.splitOn "|" with
  | [n, k, l] =>
    let kind := if k == "c" then some Kind.checked else if k == "u" then some Kind.unchecked else none
    let life := match l with
      | "t" => some Life.temp | "o" => some Life.own | "s" => some Life.shared
      | "g" => some Life.static | "r" => some Life.grow | _ => none
    match kind, life with
    | some k, some l => some ⟨n, k, l⟩
    | _, _ => none
  | _ => none

def parseSites (ts : List String) : Option (List Site) :=
  ts.foldr (fun t acc => match parseSite t, acc with
    | some s, some l => some (s :: l)
    | _, _ => none) (some [])

/-- the flat site sequence of a job when nothing fails (process sites count as unchecked) -/
def jobSeq (j : Job) : List Site :=
  let init := j.engs.length ≠ 0 ∧ j.init = true
  let rec go (ini : Bool) (n : Nat) : List Op → List Site
    | [] => []
    | .process ss :: ops => ss.map uncheck ++ go ini n ops
    | .clear reset engs :: ops =>
      if reset = true ∧ n ≠ 0 then initSeq engs ++ go true n ops else go false n ops
    | .setRatio engs :: ops =>
      if ini = true ∨ n = 0 then go ini n ops else initSeq engs ++ go true n ops
    | .setChannels engs :: ops =>
      if engs.length = n ∨ engs.length = 0 ∨ ini = true then go ini n ops
      else initSeq engs ++ go true engs.length ops
  createSeq j.engs j.init ++ go (decide init) j.engs.length j.ops

def showRes : Res Verdict → String
  | .ok (.completed m) _ => s!"ok final={m}"
  | .ok (.createFailed n) _ => s!"error-returned op=-1 live={n} final={n}"
  | .ok (.opFailed i n m) _ => s!"error-returned op={i} live={n} final={m}"
  | .fault (.derefNull s) => s!"crash-at-site {s}"
  | .fault (.derefDead b) => s!"model-fault use-after-free block {b}"
  | .fault (.badFree b) => s!"model-fault bad-free block {b}"

def showFlat : Outcome → String
  | .allOk => "flat-ok"
  | .errAt _ s => s!"flat-error {s.name}"
  | .crashAt _ s => s!"flat-crash {s.name}"

structure St where
  pending : List (List Site) := []
  job : Option Job := none

def takePending (st : St) : List (List Site) × St := (st.pending.reverse, { st with pending := [] })

def step (st : St) (line : String) : IO St := do
  let toks := (line.trimAscii.toString.splitOn " ").filter (· ≠ "")
  match toks with
  | [] => pure st
  | "eng" :: ts =>
    match parseSites ts with
    | some ss => pure { st with pending := ss :: st.pending }
    | none => do IO.println "error bad-site"; pure st
  | ["create", i] =>
    let (engs, st) := takePending st
    pure { st with job := some ⟨engs, i == "1", []⟩ }
  | "op" :: "process" :: ts =>
    match parseSites ts, st.job with
    | some ss, some j => pure { st with job := some { j with ops := j.ops ++ [.process ss] } }
    | _, _ => do IO.println "error bad-op"; pure st
  | ["op", "clear", r] =>
    let (engs, st) := takePending st
    match st.job with
    | some j => pure { st with job := some { j with ops := j.ops ++ [.clear (r == "1") engs] } }
    | none => do IO.println "error no-job"; pure st
  | ["op", "ratio"] =>
    let (engs, st) := takePending st
    match st.job with
    | some j => pure { st with job := some { j with ops := j.ops ++ [.setRatio engs] } }
    | none => do IO.println "error no-job"; pure st
  | ["op", "channels"] =>
    let (engs, st) := takePending st
    match st.job with
    | some j => pure { st with job := some { j with ops := j.ops ++ [.setChannels engs] } }
    | none => do IO.println "error no-job"; pure st
  | ["run"] =>
    match st.job with
    | none => do IO.println "error no-job"; pure st
    | some j => do
      let seq := jobSeq j
      let n := match runJob (fun _ => false) j {} with
        | .ok _ h => h.count
        | .fault _ => 0
      IO.println s!"n {n}"
      IO.println s!"seq {" ".intercalate (seq.map (·.name))}"
      IO.println s!"nofail {showRes (runJob (fun _ => false) j {})}"
      for k in [0:n] do
        IO.println s!"k {k} {showRes (runJob (failAt k) j {})} | {showFlat (classify (failAt k) 0 seq)}"
      -- memory stays exhausted: every call from k on fails
      for k in [0:n] do
        IO.println s!"p {k} {showRes (runJob (fun i => decide (k ≤ i)) j {})} | {showFlat (classify (fun i => decide (k ≤ i)) 0 seq)}"
      IO.println "done"
      pure { pending := [], job := none }
  | _ => do IO.println s!"error unknown-line {line}"; pure st

partial def loop (st : St) : IO Unit := do
  let stdin ← IO.getStdin
  let line ← stdin.getLine
  if line.isEmpty then pure ()
  else do
    let st ← step st line
    (← IO.getStdout).flush
    loop st

def main : IO Unit := loop {}
