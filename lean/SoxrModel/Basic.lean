/-! Basic arithmetic helpers shared by every model file (core Lean only). -/
namespace Soxr

/-- `⌈a / b⌉` on naturals (0 when `b = 0`, like `Nat` division). -/
def ceilDiv (a b : Nat) : Nat := (a + b - 1) / b

/-- C's `lsx_is_power_of_2(x)`: `!(x < 2 || (x & (x - 1)))`. -/
def isPow2 (x : Nat) : Bool := 2 ≤ x && (x &&& (x - 1)) == 0

/-- what `fifo_read(f, n, NULL)` does to the occupancy: nothing at all when more is asked than is there
    (the C function returns NULL and leaves the FIFO alone). -/
def fifoRead (occ n : Nat) : Nat := if n ≤ occ then occ - n else occ

theorem fifoRead_le (occ n : Nat) : fifoRead occ n ≤ occ := by
  unfold fifoRead; split <;> omega

theorem fifoRead_of_le {occ n : Nat} (h : n ≤ occ) : fifoRead occ n = occ - n := by
  simp [fifoRead, h]

/-- number of iterations of `for (i = 0; pos < limit; ++i, pos += step)`. -/
def loopCount (pos step limit : Nat) : Nat := if pos < limit then ceilDiv (limit - pos) step else 0

end Soxr
