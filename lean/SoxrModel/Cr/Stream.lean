import SoxrModel.Cr.ApiLemmas
/-!
# Streaming histories at engine level: any interleaving of `_soxr_input(n)` and `_soxr_process + _soxr_output(n0)`
-/
namespace Soxr.Cr

inductive StreamOp | feed (n : Nat) | take (n0 : Nat)
  deriving Repr

/-- `Streams e ops fed delivered e'`: running `ops` from `e` accepts `fed` frames, delivers `delivered`, ends in `e'` -/
inductive Streams : Eng → List StreamOp → Nat → Nat → Eng → Prop
  | nil (e : Eng) : Streams e [] 0 0 e
  | feed (e : Eng) (n : Nat) (ops : List StreamOp) (F D : Nat) (e' : Eng) :
      Streams (e.input n) ops F D e' → Streams e (.feed n :: ops) (n + F) D e'
  | take (e : Eng) (n0 fuel : Nat) (e1 : Eng) (ops : List StreamOp) (F D : Nat) (e' : Eng) :
      e.process fuel n0 = some e1 → Streams (e1.output n0).1 ops F D e' →
      Streams e (.take n0 :: ops) F ((e1.output n0).2.toNat + D) e'

/-- what streaming preserves -/
structure Streaming (e : Eng) : Prop where
  fl : e.fl = false
  wf : PipeWF e.stages
  ne : e.stages ≠ []

theorem pipeWF_addFirst : ∀ (l : List Stage) (n : Nat), PipeWF l → PipeWF (addFirst l n) := by
  intro l
  induction l with
  | nil => intro n h; exact h
  | cons x r ih =>
    intro n h
    obtain ⟨hx, hr⟩ := pipeWF_cons.mp h
    match r, hr, ih with
    | [], _, _ => simp only [addFirst]; exact pipeWF_cons.mpr ⟨Stage.wf_addOcc hx n, by unfold PipeWF; simp⟩
    | y :: t, hr, ih => simp only [addFirst]; exact pipeWF_cons.mpr ⟨hx, ih n hr⟩

theorem addFirst_ne_nil : ∀ (l : List Stage) (n : Nat), l ≠ [] → addFirst l n ≠ [] := by
  intro l n h
  match l, h with
  | [x], _ => simp [addFirst]
  | x :: y :: t, _ => simp [addFirst]

theorem streaming_input {e : Eng} (h : Streaming e) (n : Nat) :
    Streaming (e.input n) ∧ (e.input n).sin = e.sin + n ∧ (e.input n).sout = e.sout ∧ (e.input n).outOcc = e.outOcc := by
  have hfl : ¬ (e.fl = true) := by simp [h.fl]
  unfold Eng.input
  rw [if_neg hfl]
  cases hs : e.stages with
  | nil => exact absurd hs h.ne
  | cons x r =>
    refine ⟨⟨h.fl, ?_, ?_⟩, rfl, rfl, rfl⟩
    · show PipeWF (addFirst (x :: r) n)
      rw [← hs]; exact pipeWF_addFirst _ _ h.wf
    · show addFirst (x :: r) n ≠ []
      rw [← hs]; exact addFirst_ne_nil _ _ h.ne

theorem target_streaming {e : Eng} (h : e.fl = false) (n0 : Nat) : e.target n0 = n0 := by
  unfold Eng.target; simp [h]

theorem streaming_output {e : Eng} (h : Streaming e) (n0 : Nat) :
    Streaming (e.output n0).1 ∧ (e.output n0).1.sin = e.sin ∧ 0 ≤ (e.output n0).2 ∧
    (e.output n0).1.sout = e.sout + (e.output n0).2 ∧ (e.output n0).2 ≤ n0 := by
  unfold Eng.output
  rw [target_streaming h.fl]
  refine ⟨⟨h.fl, h.wf, h.ne⟩, rfl, ?_, rfl, ?_⟩
  · show (0 : Int) ≤ min (n0 : Int) (e.outOcc : Int); omega
  · show min (n0 : Int) (e.outOcc : Int) ≤ n0; omega

theorem streaming_process {e e1 : Eng} (h : Streaming e) (olen fuel : Nat) (hp : e.process fuel olen = some e1) :
    Streaming e1 ∧ e1.sin = e.sin ∧ e1.sout = e.sout := by
  obtain ⟨f2, e2, h2, hsame, hwf⟩ := process_stream_total e olen h.fl h.ne h.wf
  have := process_det e olen fuel f2 e1 e2 hp h2
  subst this
  refine ⟨⟨hsame.fl.trans h.fl, hwf, ?_⟩, hsame.sin, hsame.sout⟩
  intro h0
  have hl := hsame.len
  rw [h0] at hl
  cases hs : e.stages with
  | nil => exact h.ne hs
  | cons x r => rw [hs] at hl; simp at hl

/-- counters along a streaming history: `samples_in` is what was accepted, `samples_out` what was delivered -/
theorem streams_counters : ∀ (ops : List StreamOp) (e : Eng) (F D : Nat) (e' : Eng), Streaming e → Streams e ops F D e' →
    Streaming e' ∧ e'.sin = e.sin + F ∧ e'.sout = e.sout + D := by
  intro ops
  induction ops with
  | nil => intro e F D e' h hs; cases hs; exact ⟨h, by simp, by simp⟩
  | cons op ops ih =>
    intro e F D e' h hs
    cases hs with
    | feed _ n _ F' _ _ hr =>
      obtain ⟨h1, hsin, hsout, _⟩ := streaming_input h n
      obtain ⟨g1, g2, g3⟩ := ih _ _ _ _ h1 hr
      exact ⟨g1, by rw [g2, hsin]; omega, by rw [g3, hsout]⟩
    | take _ n0 fuel e1 _ _ D' _ hp hr =>
      obtain ⟨h1, psin, psout⟩ := streaming_process h n0 fuel hp
      obtain ⟨h2, osin, onn, osout, _⟩ := streaming_output h1 n0
      obtain ⟨g1, g2, g3⟩ := ih _ _ _ _ h2 hr
      refine ⟨g1, by rw [g2, osin, psin], ?_⟩
      rw [g3, osout, psout]
      have : (((e1.output n0).2.toNat : Nat) : Int) = (e1.output n0).2 := Int.toNat_of_nonneg onn
      omega

/-- every streaming history can be run: each call terminates -/
theorem streams_total : ∀ (ops : List StreamOp) (e : Eng), Streaming e → ∃ F D e', Streams e ops F D e' := by
  intro ops
  induction ops with
  | nil => intro e _; exact ⟨0, 0, e, Streams.nil e⟩
  | cons op ops ih =>
    intro e h
    cases op with
    | feed n =>
      obtain ⟨F, D, e', hr⟩ := ih _ (streaming_input h n).1
      exact ⟨n + F, D, e', Streams.feed e n ops F D e' hr⟩
    | take n0 =>
      obtain ⟨fuel, e1, hp, _, _⟩ := process_stream_total e n0 h.fl h.ne h.wf
      obtain ⟨h1, _, _⟩ := streaming_process h n0 fuel hp
      obtain ⟨F, D, e', hr⟩ := ih _ (streaming_output h1 n0).1
      exact ⟨F, _, e', Streams.take e n0 fuel e1 ops F D e' hp hr⟩

end Soxr.Cr
