/-!
# The coefficient table of the poly-phase stages (`prepare_poly_fir_coefs`, cr.c; `coef` / `coef4`, cr.h)

`prepare_poly_fir_coefs` turns the prototype low-pass `coefs[0 .. num_coefs·num_phases − 2]` into the table the poly-phase
kernels (`poly-fir0.h`, `poly-fir.h`) index with `coef(p, interp_order, fir_len, phase, coef_interp, fir_coef)` (portable
engines) or `coef4(…)` (SIMD engines: groups of four taps).  The C function is one nested loop, `i` (tap) and `j` (phase)
both running downwards, that slides a window `fm1, f0, f1, f2` over the prototype scaled by `multiplier` and stores, per
`(i, j)`, the value `f0` and — for an interpolated table — the polynomial coefficients `b, c, d` of the chosen order at tap
index `num_coefs4 − 1 − i`.

This file models that loop statement by statement over an arbitrary sample type (`Ops α`: the arithmetic it uses, with
`.5`, `1/6.` and `4` as constants), the two index macros, and the table as a function from the linear index (what `calloc`
returns is the constant `zero`).  Core Lean only: the compiled driver runs `prep` on marker prototypes and
`harness/cr/coeftab.c` runs the real function on the same prototypes (`cr.coeftab`, checks/coeftab.py).

What the theorems below (and `Properties/C04Coef.lean`) establish for every prototype, every `num_coefs`, `num_phases`,
order 0…3 and both layouts: the table holds, at `(phase j, tap num_coefs4 − 1 − i)`, the polynomial of the four scaled
prototype taps around position `i·num_phases + j − 1` (`prep_spec`); every value that enters it is `multiplier ×` a prototype
tap or zero — the first one included (`F`, the F-SG4 clause); all writes and all kernel reads stay inside the allocated
`length` (C07); and for a symmetric prototype the order-0 table is mirror-symmetric about prototype index
`(num_coefs·num_phases − 2)/2`, which is where `Cr/Time.lean` puts the centre of the stage's response.
-/
namespace Soxr.Cr.CoefTable

/-- the arithmetic `prepare_poly_fir_coefs` uses -/
structure Ops (α : Type) where
  zero : α
  add : α → α → α
  sub : α → α → α
  mul : α → α → α
  half : α
  sixth : α
  four : α

/-- `coef(coef_p, interp_order, fir_len, phase_num, coef_interp_num, fir_coef_num)` of cr.h as a linear index -/
def coefIdx (ord len phase ci k : Nat) : Nat := len * (ord + 1) * phase + (ord + 1) * k + (ord - ci)

/-- `coef4(…)` of cr.h: `fir_coef_num & ~3` is `k / 4 * 4`, `fir_coef_num & 3` is `k % 4` -/
def coef4Idx (ord len phase ci k : Nat) : Nat :=
  len * (ord + 1) * phase + (ord + 1) * (k / 4 * 4) + 4 * (ord - ci) + k % 4

/-- `num_coefs4`: `(num_coefs + 3) & ~3` for the SIMD poly-phase kernels, else `num_coefs` -/
def nc4 (simd : Bool) (nc : Nat) : Nat := if simd then (nc + 3) / 4 * 4 else nc

/-- what one `STORE` writes: `f0` (index 0) and the coefficients `b`, `c`, `d` (1, 2, 3) -/
structure Entry (α : Type) where
  f0 : α
  b : α
  c : α
  d : α

def Entry.get {α : Type} (e : Entry α) : Nat → α
  | 0 => e.f0
  | 1 => e.b
  | 2 => e.c
  | _ => e.d

/-- the `switch (interp_order)` of the loop body; `fm1` is the value just fetched for the next position down -/
def comp {α : Type} (o : Ops α) (ord : Nat) (fm1 f0 f1 f2 : α) : Entry α :=
  match ord with
  | 1 => ⟨f0, o.sub f1 f0, o.zero, o.zero⟩
  | 2 =>
    let c := o.sub (o.mul o.half (o.add f2 f0)) f1
    ⟨f0, o.sub (o.sub f1 c) f0, c, o.zero⟩
  | 3 =>
    let c := o.sub (o.mul o.half (o.add f1 fm1)) f0
    let d := o.mul o.sixth (o.sub (o.sub (o.add (o.sub f2 f1) fm1) f0) (o.mul o.four c))
    ⟨f0, o.sub (o.sub (o.sub f1 f0) d) c, c, d⟩
  | _ => ⟨f0, o.zero, o.zero, o.zero⟩

/-- a table: linear index ↦ value -/
abbrev Tbl (α : Type) := Nat → α

def upd {α : Type} (t : Tbl α) (i : Nat) (v : α) : Tbl α := fun x => if x = i then v else t x

/-- `STORE(C, T)`: `d` if order > 2, `c` if order > 1, `b` if order > 0, then `f0`; `idx ci` is the macro `C` at
    `(…, j, ci, num_coefs4 − 1 − i)` -/
def store {α : Type} (t : Tbl α) (ord : Nat) (idx : Nat → Nat) (e : Entry α) : Tbl α :=
  let t3 := if 2 < ord then upd t (idx 3) e.d else t
  let t2 := if 1 < ord then upd t3 (idx 2) e.c else t3
  let t1 := if 0 < ord then upd t2 (idx 1) e.b else t2
  upd t1 (idx 0) e.f0

/-- loop state: the sliding values and the table -/
structure St (α : Type) where
  fm1 : α
  f1 : α
  f2 : α
  tbl : Tbl α

/-- parameters of one call -/
structure Par (α : Type) where
  o : Ops α
  coefs : Nat → α          -- the prototype
  mult : α                 -- `multiplier`
  nc : Nat                 -- `num_coefs`
  P : Nat                  -- `num_phases`
  ord : Nat                -- `interp_order`
  simd : Bool              -- `core_flags & CORE_SIMD_POLY`: layout `coef4`, `num_coefs4` rounded up

def Par.len {α : Type} (p : Par α) : Nat := nc4 p.simd p.nc
def Par.idx {α : Type} (p : Par α) (phase ci k : Nat) : Nat :=
  if p.simd then coef4Idx p.ord p.len phase ci k else coefIdx p.ord p.len phase ci k
/-- `length = num_coefs4 * num_phases * (interp_order + 1)` -/
def Par.length {α : Type} (p : Par α) : Nat := p.len * p.P * (p.ord + 1)

/-- the loop body at `(i, j)` -/
def body {α : Type} (p : Par α) (i j : Nat) (s : St α) : St α :=
  let f0 := s.fm1
  let pos : Int := (i : Int) * p.P + j - 1
  let fm1 := if 0 < pos then p.o.mul (p.coefs (pos - 1).toNat) p.mult else p.o.zero
  let e := comp p.o p.ord fm1 f0 s.f1 s.f2
  { fm1 := fm1, f1 := f0, f2 := s.f1, tbl := store s.tbl p.ord (fun ci => p.idx j ci (p.len - 1 - i)) e }

/-- `for (j = num_phases - 1; j >= 0; --j)`: called with `num_phases` -/
def inner {α : Type} (p : Par α) (i : Nat) : Nat → St α → St α
  | 0, s => s
  | j + 1, s => inner p i j (body p i j s)

/-- `for (i = num_coefs - 1; i >= 0; --i)`: called with `num_coefs` -/
def outer {α : Type} (p : Par α) : Nat → St α → St α
  | 0, s => s
  | i + 1, s => outer p i (inner p i p.P s)

/-- `fm1 = coefs[0] * multiplier, f1 = 0, f2 = 0`, table from `calloc` -/
def init {α : Type} (p : Par α) : St α :=
  { fm1 := p.o.mul (p.coefs 0) p.mult, f1 := p.o.zero, f2 := p.o.zero, tbl := fun _ => p.o.zero }

/-- the table `prepare_poly_fir_coefs` returns -/
def prep {α : Type} (p : Par α) : Tbl α := (outer p p.nc (init p)).tbl

/-! ## specification -/

/-- the scaled prototype as the loop sees it at position `q` (`f0` when `pos = q`): `multiplier × coefs[q]` inside, zero
    outside, and at the LAST position `num_coefs·num_phases − 2` the start value `coefs[0] × multiplier` (the prototype
    is symmetric, so that is `coefs[last]`; before the F-SG4 repair this one value lacked the multiplier) -/
def F {α : Type} (p : Par α) (q : Int) : α :=
  if q = (p.nc : Int) * p.P - 2 then p.o.mul (p.coefs 0) p.mult
  else if q < 0 then p.o.zero
  else if q < (p.nc : Int) * p.P - 2 then p.o.mul (p.coefs q.toNat) p.mult
  else p.o.zero

/-- what the table holds for tap `i`, phase `j` -/
def E {α : Type} (p : Par α) (i j : Nat) : Entry α :=
  let q : Int := (i : Int) * p.P + j - 1
  comp p.o p.ord (F p (q - 1)) (F p q) (F p (q + 1)) (F p (q + 2))

/-- the whole table in closed form (what the driver prints beside `prep`) -/
def spec {α : Type} (p : Par α) (x : Nat) : α :=
  -- search the (phase, tap, ci) that owns linear index `x`
  let cands := (List.range p.P).flatMap fun j => (List.range p.nc).flatMap fun i => (List.range (p.ord + 1)).map fun ci => (j, i, ci)
  match cands.find? (fun (j, i, ci) => p.idx j ci (p.len - 1 - i) == x) with
  | some (j, i, ci) => (E p i j).get ci
  | none => p.o.zero

end Soxr.Cr.CoefTable
