import SoxrModel.Cr.Model
/-!
# `PlanWF`: the decidable side conditions under which the engine theorems hold

`StageWF c s` is a predicate on one stage's configuration and *current* integers; it is an invariant of the stage
function (`Cr/StageLemmas.lean`) and the driver evaluates exactly this definition (`cr.wf`) on every plan the real
planner exports, so the "for all configurations" quantifier is covered by proof downstream of the plan and by sweep
upstream of it.
-/
namespace Soxr.Cr

/-- the frames one dft block yields are at least one and the decimation phase stays inside the block -/
def dftOutOK (c : StageCfg) (remM : Nat) : Prop :=
  let bl := c.dftLen - (c.numTaps - 1)
  if 0 < c.M then (c.M = 1 ∨ (c.M.toNat ≤ bl ∧ remM < c.M.toNat)) else True

instance (c : StageCfg) (r : Nat) : Decidable (dftOutOK c r) := by
  unfold dftOutOK; exact inferInstance

def StageWF (c : StageCfg) (s : StageSt) : Prop :=
  match c.kind with
  | .half => 1 ≤ c.prePost ∧ c.prePost < s.isz
  | .clocked => 0 < c.den ∧ 0 < c.step ∧ s.clk < c.den ∧ c.prePost < s.isz ∧ c.step ≤ (c.prePost + 1) * c.den ∧
      c.taps ≤ c.prePost + 1
  | .dft => 0 < c.L ∧ 1 ≤ c.numTaps ∧ c.numTaps ≤ c.dftLen ∧ s.clk < c.L ∧ c.L ≤ c.dftLen - (c.numTaps - 1) ∧
      s.isz = (c.dftLen - s.clk + c.L - 1) / c.L ∧ dftOutOK c s.remM

instance (c : StageCfg) (s : StageSt) : Decidable (StageWF c s) := by
  unfold StageWF; cases c.kind <;> exact inferInstance

def Stage.WF (x : Stage) : Prop := StageWF x.cfg x.st
instance (x : Stage) : Decidable x.WF := by unfold Stage.WF; exact inferInstance

/-- every stage of the pipeline is well-formed -/
def PipeWF (l : List Stage) : Prop := ∀ x ∈ l, x.WF
instance (l : List Stage) : Decidable (PipeWF l) := by unfold PipeWF; exact inferInstance

/-- upper bound on frames produced per frame consumed by one invocation -/
def gain (c : StageCfg) : Nat :=
  match c.kind with
  | .half => 1
  | .clocked => ceilDiv c.den c.step
  | .dft => c.dftLen

end Soxr.Cr
