import SoxrModel.Cr.Schedule
/-!
# The API layer on samples: `soxr_process`, `soxr_output` (pull loop), `soxr_oneshot` are engine-operation sequences

`DApi` is `Api` of `Cr/Model.lean` with sample lists instead of counts (same control flow, line by line).  Every call —
`soxr_input`, `soxr_output_no_callback`, the `do … while` of `soxr_output` against an arbitrary script of answers,
`soxr_process` with or without `idone`, with or without an end-of-input request — is shown to be a `DRuns`: a sequence of
engine operations `feed / flush / take` whose feeds are exactly the samples the call accepted, in order.  Hence
everything proved for arbitrary `DOp` sequences (`prefix_consistency`, `schedule_invariance`, `delivered_is_canonical`)
holds for arbitrary sequences of API calls in either style.
-/
namespace Soxr.Cr

variable {α : Type}

structure DApi (α : Type) where
  eng : DEng α
  flushing : Bool := false
  error : Bool := false
  maxIlen : Nat := 0
  hasFn : Bool := false

/-- what a registered input function answers -/
inductive DSupply (α : Type) | data (xs : List α) | eof | fail

def DApi.outputNoCb (K : Kern α) (z : α) (owed : Nat → Nat) (fuel : Nat) (a : DApi α) (len : Nat) : Option (DApi α × List α) :=
  let e := if a.flushing then a.eng.flush owed else a.eng
  match e.process K z fuel len with
  | none => none
  | some e' => some ({ a with eng := (e'.output len).1 }, (e'.output len).2)

/-- `soxr_input`: an empty block means end-of-input -/
def DApi.input (a : DApi α) (xs : List α) : DApi α :=
  if a.error then a else
  if xs.length = 0 then { a with flushing := true } else { a with eng := a.eng.input xs }

def dpullLoop (K : Kern α) (z : α) (owed : Nat → Nat) (fuel : Nat) (len0 : Nat) :
    Nat → DApi α → Nat → List α → List (DSupply α) → Option (DApi α × List α × List (DSupply α))
  | 0, _, _, _, _ => none
  | k+1, a, olen, out0, script =>
    match a.outputNoCb K z owed fuel olen with
    | none => none
    | some (a1, out) =>
      let out0' := out0 ++ out
      if out0'.length = len0 || !a1.hasFn || a1.flushing then some (a1, out0', script)
      else
        match script with
        | [] => some (a1, out0', [])
        | r :: rest =>
          let was := a1.flushing
          match r with
          | .fail => some ({ a1 with error := true }, out0', rest)
          | _ =>
            let xs := match r with
              | .data xs => xs
              | _ => []
            let a2 := a1.input xs
            if out.length != 0 || xs.length != 0 || (!was && a2.flushing) then
              dpullLoop K z owed fuel len0 k a2 (olen - out.length) out0' rest
            else some (a2, out0', rest)

def DApi.output (K : Kern α) (z : α) (owed : Nat → Nat) (fuel : Nat) (a : DApi α) (len0 : Nat) (script : List (DSupply α)) :
    Option (DApi α × List α × List (DSupply α)) :=
  if a.error then some (a, [], script) else
  dpullLoop K z owed fuel len0 (script.length + 2) a len0 [] script

/-- `soxr_process` (generic path): `inp = none` is `in == NULL`; `taken` is the block after the `idone` clamp. -/
def DApi.process (K : Kern α) (z : α) (owed : Nat → Nat) (fuel : Nat) (a : DApi α) (inp : Option (List α)) (flushReq : Bool)
    (clamp : Option Nat) (olen : Nat) (script : List (DSupply α)) : Option (DApi α × Nat × List α × List (DSupply α)) :=
  let fr := inp.isNone || flushReq
  let xs0 := inp.getD []
  let xs := match clamp with
    | some n => xs0.take n          -- `ilen = min(soxr_i_for_o(olen), ilen0)` when `idone` is wanted
    | none => xs0
  let a := { a with flushing := a.flushing || (xs.length == xs0.length && fr) }
  let a1 := if xs.length != 0 then a.input xs else a
  let idone := if xs.length != 0 && !a.error then xs.length else 0
  match a1.output K z owed fuel olen script with
  | none => none
  | some (a2, out, rest) => some (a2, idone, out, rest)

/-- `soxr_process` with neither an input nor an output buffer: only latches end-of-input (see `Api.signalEnd`) -/
def DApi.signalEnd (owed : Nat → Nat) (a : DApi α) : DApi α :=
  { a with flushing := true, eng := if a.error then a.eng else a.eng.flush owed }

/-! ## every call is a sequence of engine operations -/

theorem DApi.input_error (a : DApi α) (xs : List α) : (a.input xs).error = a.error := by
  unfold DApi.input; split
  · rfl
  · split <;> rfl

theorem DApi.input_nil_eng (a : DApi α) : (a.input []).eng = a.eng := by
  unfold DApi.input; split
  · rfl
  · simp

/-- samples a list of answers carries -/
def supplied : List (DSupply α) → List α
  | [] => []
  | .data xs :: r => xs ++ supplied r
  | _ :: r => supplied r

theorem supplied_append (a b : List (DSupply α)) : supplied (a ++ b) = supplied a ++ supplied b := by
  induction a with
  | nil => rfl
  | cons x r ih => cases x <;> simp [supplied, ih]

/-- the API object and its engine agree on end-of-input: the engine is flushing only if the API object is, and input is
    offered to the engine only while the API object is not (the engine ignores input once it is) -/
def Sync (a : DApi α) : Prop := a.eng.fl = true → a.flushing = true

theorem outputNoCb_runs (K : Kern α) (z : α) (owed : Nat → Nat) (fuel : Nat) (a a1 : DApi α) (len : Nat) (out : List α)
    (h : a.outputNoCb K z owed fuel len = some (a1, out)) :
    (∃ ops, DRuns K z owed a.eng ops [] out a1.eng) ∧ a1.flushing = a.flushing ∧ a1.error = a.error ∧ a1.hasFn = a.hasFn ∧
      a1.maxIlen = a.maxIlen ∧ (Sync a → Sync a1) ∧ (a.flushing = true → a1.eng.fl = true) := by
  unfold DApi.outputNoCb at h
  simp only at h
  cases hfl : a.flushing
  · simp only [hfl, Bool.false_eq_true, if_false] at h
    cases hp : a.eng.process K z fuel len with
    | none => simp [hp] at h
    | some e' =>
      simp only [hp] at h
      injection h with h; injection h with h1 h2
      subst h1; subst h2
      obtain ⟨c1, _, _⟩ := dprocLoop_counters K z fuel fuel a.eng _ false e' hp
      refine ⟨⟨[.take len], ?_⟩, rfl, rfl, rfl, rfl, ?_, by intro hh; cases hh⟩
      · have := DRuns.take (K := K) (z := z) (owed := owed) a.eng len fuel e' [] [] [] _ hp (DRuns.nil _)
        simpa using this
      · intro hs hh
        have : (e'.output len).1.fl = e'.fl := rfl
        simp only at hh
        rw [this, c1] at hh
        simpa [hfl] using hs hh
  · simp only [hfl, if_true] at h
    cases hp : (a.eng.flush owed).process K z fuel len with
    | none => simp [hp] at h
    | some e' =>
      simp only [hp] at h
      injection h with h; injection h with h1 h2
      subst h1; subst h2
      obtain ⟨c1, _, _⟩ := dprocLoop_counters K z fuel fuel (a.eng.flush owed) _ false e' hp
      have hffl : (a.eng.flush owed).fl = true := by unfold DEng.flush; split <;> simp_all
      refine ⟨⟨[.flush, .take len], ?_⟩, rfl, rfl, rfl, rfl, fun _ _ => rfl, ?_⟩
      · have := DRuns.take (K := K) (z := z) (owed := owed) (a.eng.flush owed) len fuel e' [] [] [] _ hp (DRuns.nil _)
        have := DRuns.flush a.eng _ _ _ _ this
        simpa using this
      · intro _
        show (e'.output len).1.fl = true
        have : (e'.output len).1.fl = e'.fl := rfl
        rw [this, c1, hffl]

theorem input_runs (K : Kern α) (z : α) (owed : Nat → Nat) (a : DApi α) (xs : List α) (hefl : a.eng.fl = false) :
    DRuns K z owed a.eng (if a.error || xs.length == 0 then [] else [.feed xs]) (if a.error || xs.length == 0 then [] else xs) []
      (a.input xs).eng ∧ (a.input xs).eng.fl = false := by
  unfold DApi.input
  cases he : a.error
  · simp only [Bool.false_eq_true, if_false, Bool.false_or]
    by_cases h0 : xs.length = 0
    · simp only [h0, if_true, beq_self_eq_true]
      exact ⟨DRuns.nil _, hefl⟩
    · have hb : (xs.length == 0) = false := by simpa using h0
      simp only [h0, if_false, hb, Bool.false_eq_true]
      refine ⟨?_, ?_⟩
      · have := DRuns.feed (K := K) (z := z) (owed := owed) a.eng xs [] [] [] _ (DRuns.nil _)
        simpa [hefl] using this
      · show (a.eng.input xs).fl = false
        unfold DEng.input; simp only [hefl, Bool.false_eq_true, if_false]
        cases a.eng.stages <;> rfl
  · simp only [if_true, Bool.true_or]
    exact ⟨DRuns.nil _, hefl⟩

theorem sync_of_eng_fl_false (a : DApi α) (h : a.eng.fl = false) : Sync a := by
  intro hh; rw [h] at hh; cases hh

theorem eng_fl_false_of_sync (a : DApi α) (hs : Sync a) (hnf : a.flushing = false) : a.eng.fl = false := by
  cases h : a.eng.fl
  · rfl
  · have := hs h; rw [hnf] at this; cases this

/-- **One `soxr_output` call (the pull loop) is a run of engine operations** whose feeds are exactly the samples of
    the answers it consumed — all but those it was given after a failure or after end-of-input, which it never asks for. -/
theorem dpullLoop_runs (K : Kern α) (z : α) (owed : Nat → Nat) (fuel len0 : Nat) : ∀ (k : Nat) (a : DApi α) (olen : Nat) (out0 : List α)
    (script : List (DSupply α)) (a' : DApi α) (out' : List α) (rest : List (DSupply α)),
    dpullLoop K z owed fuel len0 k a olen out0 script = some (a', out', rest) → a.error = false → Sync a →
    ∃ used ops out, script = used ++ rest ∧ out' = out0 ++ out ∧ DRuns K z owed a.eng ops (supplied used) out a'.eng ∧ Sync a' := by
  intro k
  induction k with
  | zero => intro a olen out0 script a' out' rest h; simp [dpullLoop] at h
  | succ k ih =>
    intro a olen out0 script a' out' rest h herr hsync
    unfold dpullLoop at h
    cases hcb : a.outputNoCb K z owed fuel olen with
    | none => simp [hcb] at h
    | some v =>
      obtain ⟨a1, out⟩ := v
      obtain ⟨⟨ops1, hr1⟩, f1, f2, f3, f4, f5, f6⟩ := outputNoCb_runs K z owed fuel a a1 olen out hcb
      simp only [hcb] at h
      have stop : ∀ (b : DApi α), b.eng = a1.eng → Sync b →
          ∃ used ops o, script = used ++ script ∧ out0 ++ out = out0 ++ o ∧ DRuns K z owed a.eng ops (supplied used) o b.eng ∧ Sync b := by
        intro b hb hsb
        exact ⟨[], ops1, out, by simp, rfl, by rw [hb]; simpa [supplied] using hr1, hsb⟩
      split at h
      · injection h with h; injection h with h1 h; injection h with h2 h3
        subst h1; subst h2; subst h3
        exact stop a1 rfl (f5 hsync)
      · rename_i hcont
        have hnf : a1.flushing = false := by
          simp only [Bool.or_eq_true, decide_eq_true_eq, Bool.not_eq_true', not_or] at hcont
          simpa using hcont.2
        cases script with
        | nil =>
          simp only at h
          injection h with h; injection h with h1 h; injection h with h2 h3
          subst h1; subst h2; subst h3
          exact stop a1 rfl (f5 hsync)
        | cons r rest0 =>
          simp only at h
          cases r with
          | fail =>
            simp only at h
            injection h with h; injection h with h1 h; injection h with h2 h3
            subst h1; subst h2; subst h3
            refine ⟨[DSupply.fail], ops1, out, by simp, rfl, by simpa [supplied] using hr1, ?_⟩
            intro hh; exact f5 hsync hh
          | eof =>
            simp only at h
            have he1 : a1.error = false := by rw [f2]; exact herr
            obtain ⟨hin, hsin0⟩ := input_runs K z owed a1 [] (eng_fl_false_of_sync a1 (f5 hsync) hnf)
            have hsin := sync_of_eng_fl_false _ hsin0
            simp only [he1, List.length_nil, beq_self_eq_true, Bool.or_true, if_true] at hin
            split at h
            · obtain ⟨used, ops2, o2, u1, u2, u3, u4⟩ := ih _ _ _ _ _ _ _ h (by rw [DApi.input_error]; exact he1) hsin
              refine ⟨DSupply.eof :: used, ops1 ++ ops2, out ++ o2, by simp [u1], by rw [u2, List.append_assoc], ?_, u4⟩
              have hcat := druns_append K z owed ops1 _ _ _ ops2 _ _ _ _ hr1 (by
                rw [← DApi.input_nil_eng a1]; exact u3)
              simpa [supplied] using hcat
            · injection h with h; injection h with h1 h; injection h with h2 h3
              subst h1; subst h2; subst h3
              exact ⟨[DSupply.eof], ops1, out, by simp, rfl, by rw [DApi.input_nil_eng]; simpa [supplied] using hr1, hsin⟩
          | data xs =>
            simp only at h
            have he1 : a1.error = false := by rw [f2]; exact herr
            obtain ⟨hin, hsin0⟩ := input_runs K z owed a1 xs (eng_fl_false_of_sync a1 (f5 hsync) hnf)
            have hsin := sync_of_eng_fl_false _ hsin0
            simp only [he1, Bool.false_or] at hin
            have hfeed : DRuns K z owed a.eng (ops1 ++ (if (xs.length == 0) = true then [] else [DOp.feed xs]))
                (supplied [DSupply.data xs]) out (a1.input xs).eng := by
              have hcat := druns_append K z owed ops1 _ _ _ _ _ _ _ _ hr1 hin
              have e1 : (if (xs.length == 0) = true then [] else xs) = xs := by
                by_cases h0 : xs.length = 0
                · have : xs = [] := List.eq_nil_of_length_eq_zero h0
                  subst this; rfl
                · have hb : (xs.length == 0) = false := by simpa using h0
                  rw [hb]; rfl
              rw [e1] at hcat
              simp only [supplied, List.append_nil, List.nil_append] at hcat ⊢
              exact hcat
            split at h
            · obtain ⟨used, ops2, o2, u1, u2, u3, u4⟩ := ih _ _ _ _ _ _ _ h (by rw [DApi.input_error]; exact he1) hsin
              have hcat := druns_append K z owed _ _ _ _ ops2 _ _ _ _ hfeed u3
              refine ⟨DSupply.data xs :: used, (ops1 ++ if (xs.length == 0) = true then [] else [DOp.feed xs]) ++ ops2, out ++ o2,
                by simp [u1], by rw [u2, List.append_assoc], ?_, u4⟩
              simpa [supplied] using hcat
            · injection h with h; injection h with h1 h; injection h with h2 h3
              subst h1; subst h2; subst h3
              exact ⟨[DSupply.data xs], _, out, by simp, rfl, hfeed, hsin⟩

/-- **`soxr_output` is a run of engine operations** -/
theorem output_runs (K : Kern α) (z : α) (owed : Nat → Nat) (fuel : Nat) (a a' : DApi α) (len0 : Nat) (script rest : List (DSupply α))
    (out : List α) (h : a.output K z owed fuel len0 script = some (a', out, rest)) (hsync : Sync a) :
    ∃ used ops, script = used ++ rest ∧ DRuns K z owed a.eng ops (supplied used) out a'.eng ∧ Sync a' := by
  unfold DApi.output at h
  split at h
  · injection h with h; injection h with h1 h; injection h with h2 h3
    subst h1; subst h2; subst h3
    exact ⟨[], [], by simp, by simpa [supplied] using DRuns.nil _, hsync⟩
  · rename_i herr
    obtain ⟨used, ops, o, u1, u2, u3, u4⟩ := dpullLoop_runs K z owed fuel len0 _ a len0 [] script a' out rest h (by simpa using herr) hsync
    simp only [List.nil_append] at u2
    subst u2
    exact ⟨used, ops, u1, u3, u4⟩

/-- **`soxr_process` is a run of engine operations**: it accepts the (clamped) block — unless the resampler is in the
    error state — then behaves as `soxr_output`.  Caller contract (soxr.h): no input once the engine has been told
    end-of-input. -/
theorem process_runs (K : Kern α) (z : α) (owed : Nat → Nat) (fuel : Nat) (a a2 : DApi α) (inp : Option (List α)) (flushReq : Bool)
    (clamp : Option Nat) (olen idone : Nat) (script rest : List (DSupply α)) (out : List α)
    (h : a.process K z owed fuel inp flushReq clamp olen script = some (a2, idone, out, rest))
    (hefl : a.eng.fl = false) :
    ∃ taken used ops, script = used ++ rest ∧ taken <+: inp.getD [] ∧ (clamp = none → a.error = false → taken = inp.getD []) ∧
      idone = taken.length ∧ DRuns K z owed a.eng ops (taken ++ supplied used) out a2.eng ∧ Sync a2 := by
  unfold DApi.process at h
  simp only at h
  generalize hxs0 : inp.getD [] = xs0 at h
  generalize hxs : (match clamp with | some n => List.take n xs0 | none => xs0) = xs at h
  have hpre : xs <+: xs0 := by
    rw [← hxs]; cases clamp with
    | none => exact List.prefix_refl _
    | some n => exact List.take_prefix _ _
  have hnone : clamp = none → xs = xs0 := by intro hc; rw [← hxs, hc]
  generalize hfl' : (a.flushing || (xs.length == xs0.length && (inp.isNone || flushReq))) = fl' at h
  -- the object after the flag update
  let b : DApi α := { a with flushing := fl' }
  have hbs : Sync b := by intro hh; have : a.eng.fl = true := hh; rw [hefl] at this; cases this
  have hbefl : b.eng.fl = false := hefl
  cases hout : (if (xs.length != 0) = true then b.input xs else b).output K z owed fuel olen script with
  | none => simp only [b] at hout; rw [hout] at h; simp at h
  | some v =>
    obtain ⟨a2', out', rest'⟩ := v
    simp only [b] at hout
    rw [hout] at h
    simp only at h
    injection h with h; injection h with h1 h; injection h with h2 h; injection h with h3 h4
    subst h1; subst h3; subst h4
    obtain ⟨hin, hsin0⟩ := input_runs K z owed b xs hbefl
    have hberr : b.error = a.error := rfl
    by_cases hx0 : xs.length = 0
    · -- nothing offered
      have hxnil : xs = [] := List.eq_nil_of_length_eq_zero hx0
      have hb0 : (xs.length != 0) = false := by simp [hx0]
      simp only [hb0, Bool.false_eq_true, if_false] at hout
      obtain ⟨used, ops, u1, u3, u4⟩ := output_runs K z owed fuel _ _ olen script rest' out' hout hbs
      refine ⟨[], used, ops, u1, List.nil_prefix, ?_, ?_, by simpa using u3, u4⟩
      · intro hc _; rw [← hnone hc, hxnil]
      · rw [← h2]; simp [hb0]
    · have hb1 : (xs.length != 0) = true := by simp [hx0]
      simp only [hb1, if_true] at hout
      obtain ⟨used, ops, u1, u3, u4⟩ := output_runs K z owed fuel _ _ olen script rest' out' hout (sync_of_eng_fl_false _ hsin0)
      have hbz : (xs.length == 0) = false := by simpa using hx0
      cases herr : a.error
      · -- accepted
        simp only [hberr, herr, Bool.false_or, hbz, Bool.false_eq_true, if_false] at hin
        have hcat := druns_append K z owed _ _ _ _ ops _ _ _ _ hin u3
        refine ⟨xs, used, [DOp.feed xs] ++ ops, u1, hpre, fun hc _ => hnone hc, ?_, by simpa using hcat, u4⟩
        rw [← h2]; simp [hb1, herr]
      · -- error state: the block is not taken
        simp only [hberr, herr, Bool.true_or, if_true] at hin
        have hcat := druns_append K z owed _ _ _ _ ops _ _ _ _ hin u3
        refine ⟨[], used, [] ++ ops, u1, List.nil_prefix, ?_, ?_, by simpa using hcat, u4⟩
        · intro _ he; cases he
        · rw [← h2]; simp [hb1, herr]

/-- the same for calls made after the engine has been told end-of-input (the drain), where the caller offers no input -/
theorem process_runs_draining (K : Kern α) (z : α) (owed : Nat → Nat) (fuel : Nat) (a a2 : DApi α) (inp : Option (List α)) (flushReq : Bool)
    (clamp : Option Nat) (olen idone : Nat) (script rest : List (DSupply α)) (out : List α)
    (h : a.process K z owed fuel inp flushReq clamp olen script = some (a2, idone, out, rest)) (hsync : Sync a)
    (hnone : (inp.getD []).length = 0) :
    ∃ used ops, script = used ++ rest ∧ idone = 0 ∧ DRuns K z owed a.eng ops (supplied used) out a2.eng ∧ Sync a2 := by
  unfold DApi.process at h
  simp only at h
  have hx0 : inp.getD [] = [] := List.eq_nil_of_length_eq_zero hnone
  rw [hx0] at h
  have hxs : (match clamp with | some n => List.take n ([] : List α) | none => []) = [] := by cases clamp <;> simp
  rw [hxs] at h
  simp only [List.length_nil, bne_self_eq_false, Bool.false_eq_true, if_false, Bool.false_and] at h
  generalize hfl' : (a.flushing || ((0 : Nat) == 0 && (inp.isNone || flushReq))) = fl' at h
  have hbs : Sync ({ a with flushing := fl' } : DApi α) := by
    intro hh
    have h1 := hsync hh
    show fl' = true
    rw [← hfl', h1]; rfl
  cases hout : ({ a with flushing := fl' } : DApi α).output K z owed fuel olen script with
  | none => rw [hout] at h; simp at h
  | some v =>
    obtain ⟨a2', out', rest'⟩ := v
    rw [hout] at h
    simp only at h
    injection h with h; injection h with h1 h; injection h with h2 h; injection h with h3 h4
    subst h1; subst h3; subst h4
    obtain ⟨used, ops, u1, u3, u4⟩ := output_runs K z owed fuel _ _ olen script rest' out' hout hbs
    exact ⟨used, ops, u1, h2.symm, u3, u4⟩

/-! ## sequences of API calls -/

inductive ACall (α : Type)
  | process (inp : Option (List α)) (flushReq : Bool) (clamp : Option Nat) (olen : Nat) (script : List (DSupply α))
  | output (len0 : Nat) (script : List (DSupply α))
  | signalEnd

/-- `ApiRuns a calls accepted delivered a'`: a sequence of `soxr_process` / `soxr_output` calls, in any mix.  What a call
    accepted is the `idone` frames it reports of the block it was offered, followed by the samples of the input-function
    answers it consumed.  Caller contract of soxr.h: no input is offered once the engine has been told end-of-input. -/
inductive ApiRuns (K : Kern α) (z : α) (owed : Nat → Nat) : DApi α → List (ACall α) → List α → List α → DApi α → Prop
  | nil (a : DApi α) : ApiRuns K z owed a [] [] [] a
  | process (a a2 a' : DApi α) (inp : Option (List α)) (flushReq : Bool) (clamp : Option Nat) (olen fuel idone : Nat)
      (script rest : List (DSupply α)) (out F D : List α) (calls : List (ACall α)) :
      a.process K z owed fuel inp flushReq clamp olen script = some (a2, idone, out, rest) →
      (a.eng.fl = true → (inp.getD []).length = 0) → ApiRuns K z owed a2 calls F D a' →
      ApiRuns K z owed a (.process inp flushReq clamp olen script :: calls)
        ((inp.getD []).take idone ++ supplied (script.take (script.length - rest.length)) ++ F) (out ++ D) a'
  | output (a a2 a' : DApi α) (len0 fuel : Nat) (script rest : List (DSupply α)) (out F D : List α) (calls : List (ACall α)) :
      a.output K z owed fuel len0 script = some (a2, out, rest) → ApiRuns K z owed a2 calls F D a' →
      ApiRuns K z owed a (.output len0 script :: calls) (supplied (script.take (script.length - rest.length)) ++ F) (out ++ D) a'
  | signal (a a' : DApi α) (F D : List α) (calls : List (ACall α)) :
      ApiRuns K z owed (a.signalEnd owed) calls F D a' → ApiRuns K z owed a (.signalEnd :: calls) F D a'

theorem take_of_append_right {β : Type} (used rest : List β) : (used ++ rest).take ((used ++ rest).length - rest.length) = used := by
  have : (used ++ rest).length - rest.length = used.length := by simp
  rw [this]; simp

/-- **Every sequence of API calls is a run of engine operations** accepting and delivering exactly the same samples. -/
theorem api_runs_engine (K : Kern α) (z : α) (owed : Nat → Nat) : ∀ (calls : List (ACall α)) (a a' : DApi α) (F D : List α),
    ApiRuns K z owed a calls F D a' → Sync a → ∃ ops, DRuns K z owed a.eng ops F D a'.eng ∧ Sync a' := by
  intro calls
  induction calls with
  | nil => intro a a' F D h hs; cases h; exact ⟨[], DRuns.nil _, hs⟩
  | cons c calls ih =>
    intro a a' F D h hs
    cases h with
    | process _ a2 _ inp flushReq clamp olen fuel idone script rest out F' D' _ hp hcon hr =>
      cases hefl : a.eng.fl
      · obtain ⟨taken, used, ops, u1, u2, _, u4, u5, u6⟩ := process_runs K z owed fuel a a2 inp flushReq clamp olen idone script rest out hp hefl
        obtain ⟨ops2, r2, s2⟩ := ih a2 a' F' D' hr u6
        have e1 : script.take (script.length - rest.length) = used := by rw [u1]; exact take_of_append_right used rest
        have e2 : (inp.getD []).take idone = taken := by
          rw [u4]; exact (List.prefix_iff_eq_take.mp u2).symm
        rw [e1, e2]
        exact ⟨ops ++ ops2, druns_append K z owed _ _ _ _ _ _ _ _ _ u5 r2, s2⟩
      · obtain ⟨used, ops, u1, u2, u3, u4⟩ := process_runs_draining K z owed fuel a a2 inp flushReq clamp olen idone script rest out hp hs (hcon hefl)
        obtain ⟨ops2, r2, s2⟩ := ih a2 a' F' D' hr u4
        have e1 : script.take (script.length - rest.length) = used := by rw [u1]; exact take_of_append_right used rest
        rw [e1, u2]
        simp only [List.take_zero, List.nil_append]
        exact ⟨ops ++ ops2, druns_append K z owed _ _ _ _ _ _ _ _ _ u3 r2, s2⟩
    | output _ a2 _ len0 fuel script rest out F' D' _ hp hr =>
      obtain ⟨used, ops, u1, u3, u4⟩ := output_runs K z owed fuel a a2 len0 script rest out hp hs
      obtain ⟨ops2, r2, s2⟩ := ih a2 a' F' D' hr u4
      have e1 : script.take (script.length - rest.length) = used := by rw [u1]; exact take_of_append_right used rest
      rw [e1]
      exact ⟨ops ++ ops2, druns_append K z owed _ _ _ _ _ _ _ _ _ u3 r2, s2⟩
    | signal _ _ F' D' _ hr =>
      obtain ⟨ops2, r2, s2⟩ := ih (a.signalEnd owed) a' F D hr (fun _ => rfl)
      cases he : a.error
      · have e : (a.signalEnd owed).eng = a.eng.flush owed := by simp [DApi.signalEnd, he]
        rw [e] at r2
        exact ⟨.flush :: ops2, DRuns.flush _ _ _ _ _ r2, s2⟩
      · have e : (a.signalEnd owed).eng = a.eng := by simp [DApi.signalEnd, he]
        rw [e] at r2
        exact ⟨ops2, r2, s2⟩

end Soxr.Cr

namespace Soxr.Cr

variable {α : Type}

/-! ## projection to the count-level API model (the one the correspondence check compares with the real code) -/

def DSupply.toSupply : DSupply α → Supply
  | .data xs => .data xs.length
  | .eof => .eof
  | .fail => .fail

def DApi.toApi (a : DApi α) : Api :=
  { eng := a.eng.toEng, flushing := a.flushing, error := a.error, maxIlen := a.maxIlen, hasFn := a.hasFn }

theorem signalEnd_proj (num : Num) (a : DApi α) : (a.signalEnd num.owed).toApi = a.toApi.signalEnd num := by
  unfold DApi.signalEnd Api.signalEnd DApi.toApi
  cases a.error
  · simp only [Bool.false_eq_true, if_false]; rw [DEng.flush_proj]
  · simp only [if_true]

theorem outputNoCb_proj (K : Kern α) (z : α) (num : Num) (fuel : Nat) (a : DApi α) (len : Nat) :
    (a.outputNoCb K z num.owed fuel len).map (fun r => (r.1.toApi, r.2.length)) = a.toApi.outputNoCb num fuel len := by
  unfold DApi.outputNoCb Api.outputNoCb
  have hfl : a.toApi.flushing = a.flushing := rfl
  simp only [hfl]
  have he : (if a.flushing = true then a.toApi.eng.flush num.owed else a.toApi.eng) =
      (if a.flushing = true then a.eng.flush num.owed else a.eng).toEng := by
    split
    · exact (DEng.flush_proj num.owed a.eng).symm
    · rfl
  rw [he]
  generalize (if a.flushing = true then a.eng.flush num.owed else a.eng) = e
  have hp := DEng.process_proj K z fuel e len
  cases hc : e.process K z fuel len with
  | none => rw [hc] at hp; simp only [Option.map_none] at hp; rw [← hp]; rfl
  | some e' =>
    rw [hc] at hp; simp only [Option.map_some] at hp; rw [← hp]
    simp only [Option.map_some]
    obtain ⟨o1, o2⟩ := DEng.output_proj e' len
    congr 1
    refine Prod.ext ?_ ?_
    · simp only [DApi.toApi, o1]
    · simp only
      omega

theorem input_proj (a : DApi α) (xs : List α) : (a.input xs).toApi = a.toApi.input xs.length := by
  unfold DApi.input Api.input
  have he : a.toApi.error = a.error := rfl
  rw [he]
  split
  · rfl
  · split
    · rfl
    · simp only [DApi.toApi, DEng.input_proj]

/-- the pull loop on samples projects to the pull loop on counts (request log aside) -/
theorem dpullLoop_proj (K : Kern α) (z : α) (num : Num) (fuel len0 ilen : Nat) : ∀ (k : Nat) (a : DApi α) (olen : Nat) (out0 : List α)
    (script : List (DSupply α)) (reqs : List Nat),
    (dpullLoop K z num.owed fuel len0 k a olen out0 script).map (fun r => (r.1.toApi, r.2.1.length, r.2.2.map DSupply.toSupply)) =
    (pullLoop num fuel len0 ilen k a.toApi olen out0.length (script.map DSupply.toSupply) reqs).map (fun r => (r.1, r.2.1, r.2.2.1)) := by
  intro k
  induction k with
  | zero => intro a olen out0 script reqs; simp [dpullLoop, pullLoop]
  | succ k ih =>
    intro a olen out0 script reqs
    unfold dpullLoop pullLoop
    have hp := outputNoCb_proj K z num fuel a olen
    cases hc : a.outputNoCb K z num.owed fuel olen with
    | none => rw [hc] at hp; simp only [Option.map_none] at hp; rw [← hp]; rfl
    | some v =>
      obtain ⟨a1, out⟩ := v
      rw [hc] at hp; simp only [Option.map_some] at hp; rw [← hp]
      simp only [List.length_append]
      have h1 : a1.toApi.hasFn = a1.hasFn := rfl
      have h2 : a1.toApi.flushing = a1.flushing := rfl
      rw [h1, h2]
      split
      · simp
      · cases script with
        | nil => simp
        | cons r rest =>
          cases r with
          | fail => simp [DSupply.toSupply, DApi.toApi]
          | eof =>
            simp only [List.map_cons, DSupply.toSupply, List.length_nil]
            have hi := input_proj a1 ([] : List α)
            simp only [List.length_nil] at hi
            have h3 : (a1.input []).toApi.flushing = (a1.input []).flushing := rfl
            rw [← hi, h3]
            split
            · have := ih (a1.input []) (olen - out.length) (out0 ++ out) rest (ilen :: reqs)
              rw [List.length_append] at this; exact this
            · simp
          | data xs =>
            simp only [List.map_cons, DSupply.toSupply]
            have hi := input_proj a1 xs
            have h3 : (a1.input xs).toApi.flushing = (a1.input xs).flushing := rfl
            rw [← hi, h3]
            split
            · have := ih (a1.input xs) (olen - out.length) (out0 ++ out) rest (ilen :: reqs)
              rw [List.length_append] at this; exact this
            · simp

end Soxr.Cr
