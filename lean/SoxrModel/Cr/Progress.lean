import SoxrModel.Cr.StageLemmas
/-!
# Progress of the demand-driven pipeline (`stage_process`, `_soxr_process`)

* `sp_mono`            more fuel never changes a result;
* `sp_flush_total`     while flushing, `stage_process` on a well-formed pipeline terminates, yields ≥ 1 frame and reports
                       "not done" (structural induction on the pipeline; inner measure `input_size − occupancy`);
* `sp_stream_total`    while streaming it terminates for every state: the weighted potential `Σ occᵢ·Wᵢ`
                       (`Wᵢ = gainᵢ·Wᵢ₊₁ + 1`) never rises and falls strictly whenever the call reports "not done";
* `sp_done_short`      when it reports "done" every stage FIFO is below its `input_size` (bounded latency).
-/
namespace Soxr.Cr

/-! ## fuel monotonicity -/

theorem sp_mono (fl : Bool) : ∀ (fuel : Nat) (l : List Stage) (done : Bool) (r : List Stage × Nat × Bool),
    sp fl fuel l done = some r → ∀ k, sp fl (fuel + k) l done = some r := by
  intro fuel
  induction fuel with
  | zero => intro l done r h; simp [sp] at h
  | succ f ih =>
    intro l done r h k
    have e : f + 1 + k = (f + k) + 1 := by omega
    rw [e]
    match l with
    | [] => simp [sp] at h
    | x :: below =>
      unfold sp at h ⊢
      split at h
      · rename_i hc
        simp only [hc, if_true]
        match below with
        | [] =>
          simp only at h ⊢
          cases fl <;> simp only [Bool.false_eq_true, if_false, if_true] at h ⊢ <;> exact ih _ _ _ h k
        | y :: rest =>
          simp only at h ⊢
          cases hcal : sp fl f (y :: rest) false with
          | none => simp [hcal] at h
          | some v =>
            rw [hcal] at h
            rw [ih _ _ _ hcal k]
            exact ih _ _ _ h k
      · rename_i hc
        simp only [hc] at h ⊢
        exact h

/-! ## flushing: termination, progress, "not done" -/

theorem pipeWF_cons {x : Stage} {l : List Stage} : PipeWF (x :: l) ↔ x.WF ∧ PipeWF l := by
  unfold PipeWF; simp

theorem Stage.short_false_iff (x : Stage) : x.short = false ↔ x.st.isz ≤ x.st.occ := by
  unfold Stage.short; simp

theorem Stage.short_true_iff (x : Stage) : x.short = true ↔ x.st.occ < x.st.isz := by
  unfold Stage.short; simp

/-- the exit branch of `sp` -/
theorem sp_exit (fl : Bool) (x : Stage) (below : List Stage) (done : Bool) (hc : (!done && x.short) = false) :
    sp fl 1 (x :: below) done = some (x.run.1 :: below, x.run.2, done && x.run.1.short) := by
  simp [sp, hc]

/-- flushing, a well-formed pipeline of `n + 1` stages: `stage_process` terminates with ≥ 1 frame, "not done",
    well-formedness and length kept. -/
theorem sp_flush_len : ∀ (n : Nat) (l : List Stage), l.length = n + 1 → PipeWF l →
    ∃ fuel l' prod, sp true fuel l false = some (l', prod, false) ∧ 1 ≤ prod ∧ PipeWF l' ∧ l'.length = n + 1 := by
  intro n
  induction n with
  | zero =>
    -- a single (input) stage: zero-fill to `input_size`, then run
    intro l hlen hwf
    match l, hlen with
    | [x], _ =>
      have hx : x.WF := (pipeWF_cons.mp hwf).1
      have hnil : PipeWF ([] : List Stage) := by unfold PipeWF; simp
      by_cases hs : x.short = true
      · have hns : (x.addOcc (x.st.isz - x.st.occ)).short = false := by
          rw [Stage.short_true_iff] at hs
          rw [Stage.short_false_iff]; simp only [Stage.addOcc]; omega
        have hx' := Stage.wf_addOcc hx (x.st.isz - x.st.occ)
        refine ⟨2, [(x.addOcc (x.st.isz - x.st.occ)).run.1], (x.addOcc (x.st.isz - x.st.occ)).run.2, ?_,
          (Stage.run_live hx' hns).2, pipeWF_cons.mpr ⟨Stage.wf_run hx', hnil⟩, rfl⟩
        rw [sp]; simp only [hs, Bool.not_false, Bool.and_self, if_true]
        rw [sp_exit true _ [] false (by simp [hns])]; simp
      · have hs' : x.short = false := by simpa using hs
        refine ⟨1, [x.run.1], x.run.2, ?_, (Stage.run_live hx hs').2, pipeWF_cons.mpr ⟨Stage.wf_run hx, hnil⟩, rfl⟩
        rw [sp_exit true x [] false (by simp [hs'])]; simp
  | succ n ih =>
    intro l hlen hwf
    -- inner induction on how far the head FIFO is from `input_size`
    have H : ∀ (m : Nat) (x : Stage) (below : List Stage), below.length = n + 1 → x.st.isz - x.st.occ ≤ m → x.WF →
        PipeWF below → ∃ fuel l' prod, sp true fuel (x :: below) false = some (l', prod, false) ∧ 1 ≤ prod ∧
          PipeWF l' ∧ l'.length = n + 1 + 1 := by
      intro m
      induction m with
      | zero =>
        intro x below hbl hm hx hbelow
        have hs : x.short = false := by rw [Stage.short_false_iff]; omega
        refine ⟨1, x.run.1 :: below, x.run.2, ?_, (Stage.run_live hx hs).2,
          pipeWF_cons.mpr ⟨Stage.wf_run hx, hbelow⟩, by simp [hbl]⟩
        rw [sp_exit true x below false (by simp [hs])]; simp
      | succ m ihm =>
        intro x below hbl hm hx hbelow
        by_cases hs : x.short = true
        · obtain ⟨f1, b', p1, g1, g2, g3, g4⟩ := ih below hbl hbelow
          have hmeas : (x.addOcc p1).st.isz - (x.addOcc p1).st.occ ≤ m := by
            simp only [Stage.addOcc]; omega
          obtain ⟨f2, l', p, h1, h2, h3, h4⟩ := ihm (x.addOcc p1) b' g4 hmeas (Stage.wf_addOcc hx _) g3
          refine ⟨(f1 + f2) + 1, l', p, ?_, h2, h3, h4⟩
          match below, hbl with
          | y :: rest, _ =>
            rw [sp]; simp only [hs, Bool.not_false, Bool.and_self, if_true]
            rw [sp_mono true f1 _ false _ g1 f2]
            simp only
            have := sp_mono true f2 _ false _ h1 f1
            rw [Nat.add_comm] at this
            exact this
        · have hs' : x.short = false := by simpa using hs
          refine ⟨1, x.run.1 :: below, x.run.2, ?_, (Stage.run_live hx hs').2,
            pipeWF_cons.mpr ⟨Stage.wf_run hx, hbelow⟩, by simp [hbl]⟩
          rw [sp_exit true x below false (by simp [hs'])]; simp
    match l, hlen with
    | x :: below, hlen =>
      obtain ⟨hx, hbelow⟩ := pipeWF_cons.mp hwf
      exact H _ x below (by simpa using hlen) (Nat.le_refl _) hx hbelow

theorem sp_flush_total (l : List Stage) (hne : l ≠ []) (hwf : PipeWF l) :
    ∃ fuel l' prod, sp true fuel l false = some (l', prod, false) ∧ 1 ≤ prod ∧ PipeWF l' ∧ l'.length = l.length := by
  match l, hne with
  | x :: r, _ =>
    obtain ⟨f, l', p, h⟩ := sp_flush_len r.length (x :: r) rfl hwf
    exact ⟨f, l', p, by simpa using h⟩

/-! ## streaming: termination for every state, by a weighted potential -/

/-- weight of one frame in the head FIFO when a frame of its output weighs `w` -/
def wgt (x : Stage) (w : Nat) : Nat := gain x.cfg * w + 1

/-- potential of a pipeline whose output frames weigh `w` -/
def phi : Nat → List Stage → Nat
  | _, [] => 0
  | w, x :: below => x.st.occ * wgt x w + phi (wgt x w) below

/-- post-condition of a terminated call: the potential (counting what was handed upwards) never rises, and falls
    strictly when the call reports "not done". -/
def Post (w : Nat) (l : List Stage) (r : List Stage × Nat × Bool) : Prop :=
  phi w r.1 + r.2.1 * w ≤ phi w l ∧ (r.2.2 = false → phi w r.1 + r.2.1 * w < phi w l)

theorem wgt_run (x : Stage) (w : Nat) : wgt x.run.1 w = wgt x w := rfl
theorem wgt_addOcc (x : Stage) (n w : Nat) : wgt (x.addOcc n) w = wgt x w := rfl

/-- running the head stage lowers the potential by at least what it consumed -/
theorem phi_run (x : Stage) (below : List Stage) (w : Nat) (hx : x.WF) :
    phi w (x.run.1 :: below) + x.run.2 * w + (x.st.occ - x.run.1.st.occ) ≤ phi w (x :: below) := by
  simp only [phi, wgt_run]
  have hle := Stage.run_occ_le x
  have hg := Stage.run_gain hx
  generalize hc : x.st.occ - x.run.1.st.occ = c at *
  have e : x.st.occ = x.run.1.st.occ + c := by omega
  rw [e, Nat.add_mul]
  have h1 : x.run.2 * w ≤ gain x.cfg * c * w := Nat.mul_le_mul_right _ hg
  have h2 : c * wgt x w = gain x.cfg * c * w + c := by
    unfold wgt; rw [Nat.mul_add, Nat.mul_one, Nat.mul_comm c, Nat.mul_assoc, Nat.mul_assoc, Nat.mul_comm w c]
  omega

theorem phi_addOcc (x : Stage) (below : List Stage) (w n : Nat) :
    phi w (x.addOcc n :: below) = phi w (x :: below) + n * wgt x w := by
  have e : wgt (x.addOcc n) w = wgt x w := rfl
  simp only [phi, e]
  have : (x.addOcc n).st.occ = x.st.occ + n := rfl
  rw [this, Nat.add_mul]; omega

/-- if an invocation consumed nothing, `input_size` is unchanged -/
theorem stageFn_isz_of_idle (c : StageCfg) (s : StageSt) (h : StageWF c s) (hocc : (stageFn c s).1.occ = s.occ) :
    (stageFn c s).1.isz = s.isz := by
  unfold StageWF at h
  unfold stageFn at hocc ⊢
  cases hk : c.kind <;> simp only [hk] at h hocc ⊢
  · simp [halfFn]
  · simp only [clockedFn]; split <;> rfl
  · obtain ⟨hL, hT, hlen, hclk, hbl, hisz, hok⟩ := h
    simp only [dftFn] at hocc ⊢
    split
    · rename_i hf
      rw [if_pos hf] at hocc
      obtain ⟨q1, q2⟩ := dft_quot c s hL hclk hbl hf
      rw [fifoRead_of_le q2] at hocc
      simp only at hocc; omega
    · simp only; exact hisz.symm

/-- the exit branch establishes the post-condition -/
theorem sp_exit_post (x : Stage) (below : List Stage) (done : Bool) (w : Nat) (hx : x.WF)
    (hc : (!done && x.short) = false) :
    Post w (x :: below) (x.run.1 :: below, x.run.2, done && x.run.1.short) := by
  have hrun := phi_run x below w hx
  refine ⟨by simp only; omega, ?_⟩
  intro hd
  simp only at hd ⊢
  -- "not done" ⇒ something was consumed
  have hcons : x.run.1.st.occ < x.st.occ := by
    by_cases hs : x.short = false
    · exact (Stage.run_live hx hs).1
    · have hs' : x.short = true := by simpa using hs
      have hdone : done = true := by
        cases done with
        | true => rfl
        | false => simp [hs'] at hc
      rw [hdone] at hd
      have hs2 : x.run.1.short = false := by simpa using hd
      rw [Stage.short_true_iff] at hs'
      rw [Stage.short_false_iff] at hs2
      rcases Nat.lt_or_ge x.run.1.st.occ x.st.occ with h | h
      · exact h
      · have heq : x.run.1.st.occ = x.st.occ := Nat.le_antisymm (Stage.run_occ_le x) h
        have := stageFn_isz_of_idle x.cfg x.st hx heq
        have e1 : x.run.1.st.isz = (stageFn x.cfg x.st).1.isz := rfl
        omega
  omega

theorem phi_tail_le (x : Stage) (below : List Stage) (w : Nat) : phi (wgt x w) below ≤ phi w (x :: below) := by
  simp only [phi]; omega

/-- streaming `stage_process` terminates for every well-formed state, with the potential post-condition. -/
theorem sp_stream_total : ∀ (Φ : Nat) (l : List Stage) (done : Bool) (w : Nat), l ≠ [] → PipeWF l → phi w l ≤ Φ →
    ∃ fuel r, sp false fuel l done = some r ∧ Post w l r ∧ PipeWF r.1 := by
  intro Φ
  induction Φ using Nat.strongRecOn with
  | _ Φ ihΦ =>
    intro l
    induction l with
    | nil => intro _ _ h; exact absurd rfl h
    | cons x below ihl =>
      intro done w _ hwf hΦ
      obtain ⟨hx, hbelow⟩ := pipeWF_cons.mp hwf
      by_cases hc : (!done && x.short) = true
      · match below, hbelow, ihl with
        | [], _, _ =>
          -- input stage, not flushing: `done := true`, then the exit branch
          have hc' : (!true && x.short) = false := by simp
          refine ⟨2, _, ?_, sp_exit_post x [] true w hx hc', pipeWF_cons.mpr ⟨Stage.wf_run hx, by unfold PipeWF; simp⟩⟩
          rw [sp]; simp only [hc, if_true]
          rw [sp_exit false x [] true hc']
          simp
        | y :: rest, hbelow, ihl =>
          -- call the stage below (its output frames weigh `wgt x w`)
          obtain ⟨f1, r1, hr1, hp1, hw1⟩ := ihl false (wgt x w) (by simp) hbelow
            (Nat.le_trans (phi_tail_le x (y :: rest) w) hΦ)
          obtain ⟨b', p1, d1⟩ := r1
          simp only at hp1 hw1
          have hx1 : (x.addOcc p1).WF := Stage.wf_addOcc hx p1
          have hwf1 : PipeWF (x.addOcc p1 :: b') := pipeWF_cons.mpr ⟨hx1, hw1⟩
          have hphi1 : phi w (x.addOcc p1 :: b') ≤ phi w (x :: y :: rest) := by
            rw [phi_addOcc]
            have := hp1.1
            simp only [phi] at this ⊢; omega
          have cont : ∃ f2 r2, sp false f2 (x.addOcc p1 :: b') d1 = some r2 ∧ Post w (x :: y :: rest) r2 ∧ PipeWF r2.1 := by
            cases d1 with
            | true =>
              have hc' : (!true && (x.addOcc p1).short) = false := by simp
              have hpost := sp_exit_post (x.addOcc p1) b' true w hx1 hc'
              refine ⟨1, _, sp_exit false _ b' true hc', ⟨?_, ?_⟩, pipeWF_cons.mpr ⟨Stage.wf_run hx1, hw1⟩⟩
              · have := hpost.1; simp only at this ⊢; omega
              · intro h; have := hpost.2 h; simp only at this ⊢; omega
            | false =>
              have hlt : phi w (x.addOcc p1 :: b') < phi w (x :: y :: rest) := by
                rw [phi_addOcc]
                have := hp1.2 rfl
                simp only [phi] at this ⊢; omega
              obtain ⟨f2, r2, hr2, hp2, hw2⟩ := ihΦ (phi w (x.addOcc p1 :: b')) (by omega) (x.addOcc p1 :: b') false w
                (by simp) hwf1 (Nat.le_refl _)
              refine ⟨f2, r2, hr2, ⟨?_, ?_⟩, hw2⟩
              · have := hp2.1; omega
              · intro _; have := hp2.1; omega
          obtain ⟨f2, r2, hr2, hp2, hw2⟩ := cont
          refine ⟨(f1 + f2) + 1, r2, ?_, hp2, hw2⟩
          rw [sp]; simp only [hc, if_true]
          rw [sp_mono false f1 _ false _ hr1 f2]
          simp only
          have := sp_mono false f2 _ d1 _ hr2 f1
          rw [Nat.add_comm] at this
          exact this
      · have hc' : (!done && x.short) = false := by simpa using hc
        exact ⟨1, _, sp_exit false x below done hc', sp_exit_post x below done w hx hc',
          pipeWF_cons.mpr ⟨Stage.wf_run hx, hbelow⟩⟩

/-! ## bounded latency: a call that reports "done" leaves every FIFO below its `input_size` -/

def AllShort (l : List Stage) : Prop := ∀ x ∈ l, x.short = true

theorem sp_done_short (fl : Bool) : ∀ (fuel : Nat) (l : List Stage) (done : Bool) (r : List Stage × Nat × Bool),
    sp fl fuel l done = some r → r.2.2 = true → (done = true → AllShort l.tail) → AllShort r.1 := by
  intro fuel
  induction fuel with
  | zero => intro l done r h; simp [sp] at h
  | succ f ih =>
    intro l done r h hd htail
    match l with
    | [] => simp [sp] at h
    | x :: below =>
      unfold sp at h
      split at h
      · rename_i hc
        match below with
        | [] =>
          simp only at h
          cases fl <;> simp only [Bool.false_eq_true, if_false, if_true] at h
          · exact ih _ _ _ h hd (by intro _; unfold AllShort; simp)
          · exact ih _ _ _ h hd (by intro hh; simp at hh)
        | y :: rest =>
          simp only at h
          cases hcal : sp fl f (y :: rest) false with
          | none => simp [hcal] at h
          | some v =>
            rw [hcal] at h
            obtain ⟨b', p1, d1⟩ := v
            simp only at h
            refine ih _ _ _ h hd ?_
            intro hd1
            simp only [List.tail]
            exact ih _ _ _ hcal hd1 (by intro hh; simp at hh)
      · rename_i hc
        simp only at h
        injection h with h
        subst h
        simp only [Bool.and_eq_true] at hd
        obtain ⟨hdone, hshort⟩ := hd
        intro z hz
        simp only [List.mem_cons] at hz
        rcases hz with rfl | hz
        · exact hshort
        · exact htail hdone z (by simpa using hz)

end Soxr.Cr
