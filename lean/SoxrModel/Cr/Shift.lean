import SoxrModel.Cr.Linear
import SoxrModel.Cr.EarlyNat
/-!
# Shift covariance of the engine model at the implementation period

Every stage kind works in *units* whose read position, window length, phase tags and output count repeat: `P` units
later the stage reads `M` frames later and does exactly the same thing (`UPeriodic`).  For the half-band kind
`(P, M) = (1, 2)`; for a clocked sampler any `(P, M)` with `P·step = M·den`; for the block-clocked dft kind any `P`
after which the control integers `(at.integer, remM)` have returned to their initial values (`StagePeriod`, decidable —
the compiled driver evaluates it on every plan the real planner exports).

`G_shift`: if two input histories of a stage agree from some point on, one of them `j·M` frames later than the other,
then the two output streams agree from some point on, one of them `j·L` frames later — whatever the kernels are (no
linearity is needed: a kernel is a function of configuration, phase tags and window).  `chain` composes this along a
plan with aligned multiples and `chain_sound` is the statement for canonical streams of the whole pipeline: prefixing
the input with ANY `d_in` frames moves the output by exactly `d_out` frames beyond the horizon `hor`.
-/
namespace Soxr.Cr

variable {α : Type}

/-! ## comparable lists -/

theorem comparable_window {C C' : List α} (hc : Comparable C C') (k n : Nat) (h1 : k + n ≤ C.length) (h2 : k + n ≤ C'.length) :
    (C.drop k).take n = (C'.drop k).take n := by
  have key : ∀ {A B : List α}, A <+: B → k + n ≤ A.length → (A.drop k).take n = (B.drop k).take n := by
    intro A B hp hl
    obtain ⟨t, rfl⟩ := hp
    rw [List.drop_append_of_le_length (by omega), List.take_append_of_le_length (by simp; omega)]
  rcases hc with h | h
  · exact key h h1
  · exact (key h h2).symm

theorem comparable_drop {a b : List α} (h : Comparable a b) (k : Nat) : Comparable (a.drop k) (b.drop k) := by
  rcases h with ⟨t, rfl⟩ | ⟨t, rfl⟩
  · by_cases hk : k ≤ a.length
    · rw [List.drop_append_of_le_length hk]; exact Or.inl (List.prefix_append _ _)
    · rw [List.drop_of_length_le (by omega : a.length ≤ k)]; exact Or.inl (List.nil_prefix)
  · by_cases hk : k ≤ b.length
    · rw [List.drop_append_of_le_length hk]; exact Or.inr (List.prefix_append _ _)
    · rw [List.drop_of_length_le (by omega : b.length ≤ k)]; exact Or.inr (List.nil_prefix)

theorem comparable_nil_left (a : List α) : Comparable [] a := Or.inl List.nil_prefix
theorem comparable_nil_right (a : List α) : Comparable a [] := Or.inr List.nil_prefix

/-! ## periodic unit semantics -/

/-- `P` units later the stage reads `M` frames later and computes the same function -/
structure UPeriodic (U : UnitSem α) (P M : Nat) : Prop where
  pos : ∀ u, U.pos (u + P) = U.pos u + M
  len : ∀ u, U.len (u + P) = U.len u
  out : ∀ u w, U.out (u + P) w = U.out u w

theorem UPeriodic.mul {U : UnitSem α} {P M : Nat} (h : UPeriodic U P M) (j : Nat) : UPeriodic U (j * P) (j * M) := by
  induction j with
  | zero => exact ⟨fun u => by simp, fun u => by simp, fun u w => by simp⟩
  | succ j ih =>
    have e : ∀ u, u + (j + 1) * P = (u + j * P) + P := fun u => by rw [Nat.succ_mul]; omega
    refine ⟨fun u => ?_, fun u => ?_, fun u w => ?_⟩
    · rw [e, h.pos, ih.pos, Nat.succ_mul]; omega
    · rw [e, h.len, ih.len]
    · rw [e, h.out, ih.out]

/-- outputs of the units `u0 … u0+r-1` -/
def UnitSem.seg (U : UnitSem α) (u0 r : Nat) (h : List α) : List α :=
  (List.range r).flatMap (fun i => U.out (u0 + i) (U.window (u0 + i) h))

theorem UnitSem.G_seg (U : UnitSem α) (h : List α) (u0 r : Nat) : U.G (u0 + r) h = U.G u0 h ++ U.seg u0 r h :=
  U.G_add h u0 r

theorem UnitSem.seg_prefix (U : UnitSem α) (h : List α) (u0 : Nat) {r r' : Nat} (hr : r ≤ r') : U.seg u0 r h <+: U.seg u0 r' h := by
  obtain ⟨d, rfl⟩ : ∃ d, r' = r + d := ⟨r' - r, by omega⟩
  unfold UnitSem.seg
  rw [List.range_add, List.flatMap_append]
  exact List.prefix_append _ _

theorem UnitSem.seg_congr (U : UnitSem α) (u0 u0' r : Nat) (h h' : List α)
    (e : ∀ i, i < r → U.out (u0 + i) (U.window (u0 + i) h) = U.out (u0' + i) (U.window (u0' + i) h')) :
    U.seg u0 r h = U.seg u0' r h' := by
  unfold UnitSem.seg
  induction r with
  | zero => rfl
  | succ r ih =>
    rw [List.range_succ, List.flatMap_append, List.flatMap_append, ih (fun i hi => e i (by omega))]
    simp only [List.flatMap_cons, List.flatMap_nil, List.append_nil]
    rw [e r (by omega)]

/-- the segment of a periodic stage over a history that agrees, `M` later, with another one -/
theorem UnitSem.seg_shift (U : UnitSem α) {P M : Nat} (hp : UPeriodic U P M) (h h' : List α) (a : Nat)
    (hc : Comparable (h.drop a) (h'.drop (a + M))) (u0 r : Nat)
    (hu0 : ∀ i, i < r → a ≤ U.pos (u0 + i))
    (s : ∀ i, i < r → U.pos (u0 + i) + U.len (u0 + i) ≤ h.length)
    (s' : ∀ i, i < r → U.pos (u0 + P + i) + U.len (u0 + P + i) ≤ h'.length) :
    U.seg u0 r h = U.seg (u0 + P) r h' := by
  apply U.seg_congr
  intro i hi
  have e1 : u0 + P + i = (u0 + i) + P := by omega
  rw [e1, hp.out]
  congr 1
  unfold UnitSem.window
  rw [hp.len, hp.pos]
  have ha := hu0 i hi
  have hs := s i hi
  have hs' := s' i hi
  rw [e1, hp.pos, hp.len] at hs'
  generalize U.pos (u0 + i) = p at *
  generalize U.len (u0 + i) = n at *
  obtain ⟨k, rfl⟩ : ∃ k, p = a + k := ⟨p - a, by omega⟩
  have d1 : h.drop (a + k) = (h.drop a).drop k := by rw [List.drop_drop]
  have d2 : h'.drop (a + k + M) = (h'.drop (a + M)).drop k := by rw [List.drop_drop]; congr 1; omega
  rw [d1, d2]
  exact comparable_window hc k n (by simp; omega) (by simp; omega)

/-- **One stage.**  Histories that agree from `a` on, the second `M` later; output streams agree from the outputs of
    unit `u0` on, the second `cnt (u0+P) − cnt u0` later. -/
theorem UnitSem.G_shift (U : UnitSem α) {P M : Nat} (hp : UPeriodic U P M) (cnt : Nat → Nat)
    (hcnt : ∀ m h, (U.G m h).length = cnt m)
    (h h' : List α) (a : Nat) (hc : Comparable (h.drop a) (h'.drop (a + M)))
    (u0 : Nat) (hu0 : ∀ u, u0 ≤ u → a ≤ U.pos u)
    (m m' : Nat) (s : U.Stable m h) (s' : U.Stable m' h') :
    Comparable ((U.G m h).drop (cnt u0)) ((U.G m' h').drop (cnt (u0 + P))) := by
  by_cases hm : m ≤ u0
  · have : (U.G m h).drop (cnt u0) = [] := by
      apply List.drop_of_length_le
      rw [← hcnt u0 h]
      exact (U.G_prefix h m u0 hm).length_le
    rw [this]; exact comparable_nil_left _
  by_cases hm' : m' ≤ u0 + P
  · have : (U.G m' h').drop (cnt (u0 + P)) = [] := by
      apply List.drop_of_length_le
      rw [← hcnt (u0 + P) h']
      exact (U.G_prefix h' m' (u0 + P) hm').length_le
    rw [this]; exact comparable_nil_right _
  obtain ⟨r, rfl⟩ : ∃ r, m = u0 + r := ⟨m - u0, by omega⟩
  obtain ⟨r', rfl⟩ : ∃ r', m' = u0 + P + r' := ⟨m' - (u0 + P), by omega⟩
  rw [U.G_seg h u0 r, U.G_seg h' (u0 + P) r']
  rw [List.drop_append_of_le_length (by rw [hcnt]; exact Nat.le_refl _),
      List.drop_append_of_le_length (by rw [hcnt]; exact Nat.le_refl _)]
  rw [List.drop_of_length_le (by rw [hcnt]; exact Nat.le_refl _), List.drop_of_length_le (by rw [hcnt]; exact Nat.le_refl _)]
  simp only [List.nil_append]
  rcases Nat.le_total r r' with hle | hle
  · have e := U.seg_shift hp h h' a hc u0 r (fun i _ => hu0 _ (by omega)) (fun i hi => s _ (by omega)) (fun i hi => s' _ (by omega))
    rw [e]
    exact Or.inl (U.seg_prefix h' (u0 + P) hle)
  · have e := U.seg_shift hp h h' a hc u0 r' (fun i _ => hu0 _ (by omega)) (fun i hi => s _ (by omega)) (fun i hi => s' _ (by omega))
    rw [← e]
    exact Or.inr (U.seg_prefix h u0 hle)

/-! ## the three stage kinds -/

/-- read position of unit `u` (independent of the kernel) -/
def upos (c : StageCfg) (s0 : StageSt) (u : Nat) : Nat :=
  match c.kind with
  | .half => 2 * u + 1
  | .clocked => (s0.clk + u * c.step) / c.den
  | .dft => (dctl c s0 u).1

theorem unitSem_pos (K : Kern α) (c : StageCfg) (s0 : StageSt) (u : Nat) : (unitSem K c s0).pos u = upos c s0 u := by
  unfold unitSem upos; cases c.kind <;> rfl

/-- the period of a stage, decidable: `P` units later, `M` input frames later, `L` output frames later -/
def StagePeriod (c : StageCfg) (s0 : StageSt) (P M L : Nat) : Prop :=
  match c.kind with
  | .half => P = 1 ∧ M = 2 ∧ L = 1
  | .clocked => 0 < c.den ∧ P * c.step = M * c.den ∧ L = P
  | .dft => dctl c s0 P = (M, s0.clk, s0.remM) ∧ L = dftOuts c s0 P

instance (c : StageCfg) (s0 : StageSt) (P M L : Nat) : Decidable (StagePeriod c s0 P M L) := by
  unfold StagePeriod; cases c.kind <;> exact inferInstance

/-- the control integers of a dft stage after `u + P` blocks, when they have returned after `P` -/
theorem dctl_periodic (c : StageCfg) (s0 : StageSt) (P M : Nat) (h : dctl c s0 P = (M, s0.clk, s0.remM)) :
    ∀ u, dctl c s0 (u + P) = ((dctl c s0 u).1 + M, (dctl c s0 u).2.1, (dctl c s0 u).2.2) := by
  intro u
  induction u with
  | zero => simp [h, dctl]
  | succ u ih =>
    have e : u + 1 + P = (u + P) + 1 := by omega
    rw [e]
    simp only [dctl, ih]
    refine Prod.ext ?_ (Prod.ext rfl rfl)
    simp only; omega

theorem dftOuts_periodic (c : StageCfg) (s0 : StageSt) (P M : Nat) (h : dctl c s0 P = (M, s0.clk, s0.remM)) :
    ∀ u, dftOuts c s0 (u + P) = dftOuts c s0 u + dftOuts c s0 P := by
  intro u
  induction u with
  | zero => simp [dftOuts]
  | succ u ih =>
    have e : u + 1 + P = (u + P) + 1 := by omega
    rw [e]
    simp only [dftOuts, ih, dctl_periodic c s0 P M h u]
    omega

theorem stagePeriod_units (K : Kern α) (c : StageCfg) (s0 : StageSt) (P M L : Nat) (h : StagePeriod c s0 P M L) :
    UPeriodic (unitSem K c s0) P M := by
  unfold StagePeriod at h
  cases hk : c.kind
  · simp only [hk] at h
    obtain ⟨rfl, rfl, _⟩ := h
    refine ⟨fun u => ?_, fun u => ?_, fun u w => ?_⟩ <;> simp only [unitSem, hk]
    omega
  · simp only [hk] at h
    obtain ⟨hden, hpm, _⟩ := h
    have e : ∀ u, s0.clk + (u + P) * c.step = s0.clk + u * c.step + c.den * M := by
      intro u; rw [Nat.add_mul, hpm, Nat.mul_comm M]; omega
    refine ⟨fun u => ?_, fun u => ?_, fun u w => ?_⟩ <;> simp only [unitSem, hk]
    · rw [e, Nat.add_mul_div_left _ _ hden]
    · rw [e, Nat.add_mul_mod_self_left]
  · simp only [hk] at h
    have hd := dctl_periodic c s0 P M h.1
    refine ⟨fun u => ?_, fun u => ?_, fun u w => ?_⟩ <;> simp only [unitSem, hk, hd]

theorem stagePeriod_outs (c : StageCfg) (s0 : StageSt) (P M L : Nat) (h : StagePeriod c s0 P M L) :
    ∀ u, outCount c s0 (u + P) = outCount c s0 u + L := by
  unfold StagePeriod at h
  intro u
  unfold outCount
  cases hk : c.kind <;> simp only [hk] at h ⊢
  · omega
  · omega
  · rw [dftOuts_periodic c s0 P M h.1 u, h.2]

theorem stagePeriod_outs_mul (c : StageCfg) (s0 : StageSt) (P M L : Nat) (h : StagePeriod c s0 P M L) (j : Nat) :
    ∀ u, outCount c s0 (u + j * P) = outCount c s0 u + j * L := by
  induction j with
  | zero => intro u; simp
  | succ j ih =>
    intro u
    have e : u + (j + 1) * P = (u + j * P) + P := by rw [Nat.succ_mul]; omega
    rw [e, stagePeriod_outs c s0 P M L h, ih, Nat.succ_mul]; omega

/-- read positions never go back -/
theorem upos_mono (c : StageCfg) (s0 : StageSt) : ∀ {u v : Nat}, u ≤ v → upos c s0 u ≤ upos c s0 v := by
  have step : ∀ u, upos c s0 u ≤ upos c s0 (u + 1) := by
    intro u
    unfold upos
    cases c.kind <;> simp only
    · omega
    · apply Nat.div_le_div_right
      rw [Nat.add_mul]; omega
    · simp only [dctl]; exact Nat.le_add_right _ _
  intro u v huv
  induction v with
  | zero => have : u = 0 := by omega
            subst this; exact Nat.le_refl _
  | succ v ih =>
    rcases Nat.lt_or_ge u (v + 1) with hlt | hge
    · exact Nat.le_trans (ih (by omega)) (step v)
    · have : u = v + 1 := by omega
      subst this; exact Nat.le_refl _

/-! ## along a plan -/

/-- a stage with a claimed period and the unit from which its windows lie beyond the previous stage's horizon -/
structure PStage where
  cfg : StageCfg
  s0 : StageSt
  P : Nat
  M : Nat
  L : Nat
  u0 : Nat

def PStage.toPlan (x : PStage) : StageCfg × StageSt := (x.cfg, x.s0)

/-- walk the plan (output side first, like `Plan`): `some (d_out, hor)` when every claimed period is one, the shift
    arriving at each stage is a multiple of its `M`, and each `u0` lies beyond the horizon below -/
def chain : List PStage → Nat → Option (Nat × Nat)
  | [], d => some (d, 0)
  | x :: ps, d =>
    match chain ps d with
    | none => none
    | some (dm, b) =>
      if StagePeriod x.cfg x.s0 x.P x.M x.L ∧ dm % x.M = 0 ∧ x.s0.occ + b ≤ upos x.cfg x.s0 x.u0 then
        some (dm / x.M * x.L, outCount x.cfg x.s0 x.u0)
      else none

/-- **The pipeline.**  Canonical streams `s`, `s'` of the plan for inputs that agree with a shift of `d` frames (`i'`
    is `i` behind any `d` frames, both possibly extended by padding): beyond `hor` output frames, `s'` is `s`
    delayed by exactly `d_out` frames. -/
theorem chain_sound (K : Kern α) (z : α) : ∀ (pl : List PStage) (d dout hor : Nat), chain pl d = some (dout, hor) →
    ∀ (i i' s s' : List α), Comparable i (i'.drop d) →
      CInv K z (pl.map PStage.toPlan) i s → CInv K z (pl.map PStage.toPlan) i' s' →
      Comparable (s.drop hor) (s'.drop (hor + dout)) := by
  intro pl
  induction pl with
  | nil =>
    intro d dout hor hch i i' s s' hc h1 h2
    simp only [chain, Option.some.injEq, Prod.mk.injEq] at hch
    obtain ⟨rfl, rfl⟩ := hch
    cases h1; cases h2
    simpa using hc
  | cons x ps ih =>
    intro d dout hor hch i i' s s' hc h1 h2
    simp only [chain] at hch
    cases hps : chain ps d with
    | none => simp [hps] at hch
    | some v =>
      obtain ⟨dm, b⟩ := v
      simp only [hps] at hch
      split at hch
      · rename_i hcond
        obtain ⟨hper, hdiv, hu0⟩ := hcond
        simp only [Option.some.injEq, Prod.mk.injEq] at hch
        obtain ⟨rfl, rfl⟩ := hch
        simp only [List.map_cons, PStage.toPlan] at h1 h2
        cases h1 with
        | @cons _ _ t _ _ m hb hst =>
          cases h2 with
          | @cons _ _ t' _ _ m' hb' hst' =>
            have hrec := ih d dm b hps i i' t t' hc hb hb'
            generalize hj : dm / x.M = j at *
            have hdm : dm = j * x.M := by
              have := Nat.div_add_mod dm x.M
              rw [hdiv, hj, Nat.mul_comm] at this; omega
            have hU := (stagePeriod_units K x.cfg x.s0 x.P x.M x.L hper).mul j
            -- histories of this stage: preload then the stream below
            have hcomp : Comparable ((List.replicate x.s0.occ z ++ t).drop (x.s0.occ + b))
                ((List.replicate x.s0.occ z ++ t').drop (x.s0.occ + b + j * x.M)) := by
              have e1 : (List.replicate x.s0.occ z ++ t).drop (x.s0.occ + b) = t.drop b := by
                rw [List.drop_append]; simp
              have e2 : (List.replicate x.s0.occ z ++ t').drop (x.s0.occ + b + j * x.M) = t'.drop (b + dm) := by
                rw [List.drop_append]
                simp only [List.length_replicate]
                rw [List.drop_of_length_le (by simp; omega), List.nil_append, hdm]
                congr 1; omega
              rw [e1, e2]; exact hrec
            have hpos : ∀ u, x.u0 ≤ u → x.s0.occ + b ≤ (unitSem K x.cfg x.s0).pos u := by
              intro u hu
              rw [unitSem_pos]
              exact Nat.le_trans hu0 (upos_mono x.cfg x.s0 hu)
            have := UnitSem.G_shift (unitSem K x.cfg x.s0) hU (outCount x.cfg x.s0)
              (fun m h => G_length K x.cfg x.s0 h m) _ _ (x.s0.occ + b) hcomp x.u0 hpos m m' hst hst'
            rw [stagePeriod_outs_mul x.cfg x.s0 x.P x.M x.L hper j] at this
            exact this
      · simp at hch

/-! ## finding periods and horizons (executable; used by the driver, re-checked by `chain`) -/

/-- one block of the dft control recurrence on `(consumed, at.integer, remM)` — the step of `dctl` -/
def dstep (c : StageCfg) (p : Nat × Nat × Nat) : Nat × Nat × Nat :=
  let num := c.dftLen - (c.numTaps - 1) + c.L - 1 - p.2.1
  (p.1 + num / c.L, (if isPow2 c.L || c.L == 1 then p.2.1 else c.L - 1 - num % c.L), (dftProduced c p.2.2).2)

theorem dctl_succ (c : StageCfg) (s0 : StageSt) (u : Nat) : dctl c s0 (u + 1) = dstep c (dctl c s0 u) := rfl

/-- least `P ≥ 1` (at most `fuel`) after which the dft control integers are back -/
def dftPeriod (c : StageCfg) (s0 : StageSt) : Nat → Nat → Nat × Nat × Nat → Option (Nat × Nat)
  | 0, _, _ => none
  | fuel+1, P, p =>
    let q := dstep c p
    if q.2.1 = s0.clk ∧ q.2.2 = s0.remM then some (P + 1, q.1) else dftPeriod c s0 fuel (P + 1) q

/-- a candidate `(P, M, L)` for a stage (the smallest one) -/
def findPeriod (bound : Nat) (c : StageCfg) (s0 : StageSt) : Option (Nat × Nat × Nat) :=
  match c.kind with
  | .half => some (1, 2, 1)
  | .clocked =>
    if c.den = 0 ∨ c.step = 0 then none
    else let g := Nat.gcd c.step c.den; some (c.den / g, c.step / g, c.den / g)
  | .dft =>
    match dftPeriod c s0 bound 0 (0, s0.clk, s0.remM) with
    | none => none
    | some (P, M) => some (P, M, dftOuts c s0 P)

/-- least unit (within `fuel`) whose window starts at or beyond `a` -/
def findUnit (c : StageCfg) (s0 : StageSt) (a : Nat) : Nat → Nat → Option Nat
  | 0, _ => none
  | fuel+1, u => if a ≤ upos c s0 u then some u else findUnit c s0 a fuel (u + 1)

/-- the input shift of a plan: the smallest one that arrives at every stage as a multiple of its `M`
    (stages input side first, each with `(M, L)`); returns `(d_in, d_out)` -/
def implShift : List (Nat × Nat) → Nat × Nat
  | [] => (1, 1)
  | (M, L) :: rest =>
    -- scale what comes first so that this stage sees a multiple of `M`, then look at the rest with `L` per `M`
    let r := implShift rest
    -- `rest` needs a multiple of `r.1` frames at its input; this stage turns `j·M` into `j·L`
    let j := r.1 / Nat.gcd L r.1
    (j * M, j * L / r.1 * r.2)

/-- attach periods and horizon units to a plan (output side first) for the shift `d` -/
def mkChain (bound : Nat) : List (StageCfg × StageSt) → Nat → Option (List PStage × Nat × Nat)
  | [], d => some ([], d, 0)
  | (c, s0) :: ps, d =>
    match mkChain bound ps d with
    | none => none
    | some (below, dm, b) =>
      match findPeriod bound c s0 with
      | none => none
      | some (P, M, L) =>
        match findUnit c s0 (s0.occ + b) bound 0 with
        | none => none
        | some u0 => some ({ cfg := c, s0 := s0, P := P, M := M, L := L, u0 := u0 } :: below, dm / M * L, outCount c s0 u0)

theorem mkChain_plan (bound : Nat) : ∀ (pl : List (StageCfg × StageSt)) (d : Nat) (r : List PStage × Nat × Nat),
    mkChain bound pl d = some r → r.1.map PStage.toPlan = pl := by
  intro pl
  induction pl with
  | nil => intro d r h; simp only [mkChain, Option.some.injEq] at h; subst h; rfl
  | cons p ps ih =>
    intro d r h
    obtain ⟨c, s0⟩ := p
    simp only [mkChain] at h
    split at h
    · simp at h
    · rename_i below dm b hb
      split at h
      · simp at h
      · split at h
        · simp at h
        · simp only [Option.some.injEq] at h
          subst h
          simp only [List.map_cons, PStage.toPlan]
          rw [ih d _ hb]

/-- the whole evaluation the driver performs for a plan: periods, input shift, horizons, then the CHECK by `chain` —
    only what `chain` accepts is reported -/
def planShift (bound : Nat) (pl : List (StageCfg × StageSt)) : Option (Nat × Nat × Nat) :=
  match (pl.reverse.mapM fun p => (findPeriod bound p.1 p.2).map fun t => (t.2.1, t.2.2)) with
  | none => none
  | some mls =>
    let d := (implShift mls).1
    match mkChain bound pl d with
    | none => none
    | some (ps, _, _) =>
      match chain ps d with
      | none => none
      | some (dout, hor) => some (d, dout, hor)

/-- **What a reported shift means**: for every kernel and all inputs related by the shift, beyond `hor` the canonical
    stream of the plan is delayed by exactly `d_out`. -/
theorem planShift_sound (K : Kern α) (z : α) (bound : Nat) (pl : List (StageCfg × StageSt)) (d dout hor : Nat)
    (h : planShift bound pl = some (d, dout, hor)) (i i' s s' : List α) (hc : Comparable i (i'.drop d))
    (h1 : CInv K z pl i s) (h2 : CInv K z pl i' s') : Comparable (s.drop hor) (s'.drop (hor + dout)) := by
  unfold planShift at h
  split at h
  · simp at h
  · rename_i mls _
    simp only at h
    split at h
    · simp at h
    · rename_i ps x y hmk
      split at h
      · simp at h
      · rename_i dout' hor' hch
        simp only [Option.some.injEq, Prod.mk.injEq] at h
        obtain ⟨hd, rfl, rfl⟩ := h
        have hpl := mkChain_plan bound pl _ _ hmk
        simp only at hpl
        rw [hd] at hch
        rw [← hpl] at h1 h2
        exact chain_sound K z ps d _ _ hch i i' s s' hc h1 h2

end Soxr.Cr
