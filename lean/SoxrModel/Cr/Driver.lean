import SoxrModel.Cr.Model
import SoxrModel.Cr.Wf
import SoxrModel.Cr.Time
import SoxrModel.Cr.Shift
import SoxrModel.Cr.Cone
import SoxrModel.Cr.CoefTable
/-! Line-protocol driver for the constant-rate count model (`soxrmodel cr < ops`).  One op per line in, one canonical
    line out; the harness diffs these lines with what the real code printed. -/
namespace Soxr.Cr.Driver
open Soxr.Cr

def kvs (toks : List String) : List (String × String) :=
  toks.filterMap fun t => match t.splitOn "=" with
    | [k, v] => some (k, v)
    | _ => none

def get (m : List (String × String)) (k : String) : String := (m.lookup k).getD ""
def getNat (m : List (String × String)) (k : String) : Nat := (get m k).toNat?.getD 0
def getInt (m : List (String × String)) (k : String) : Int := (get m k).toInt?.getD 0

structure DSt where
  ioRatio : Float := 1.0
  plan : List Stage := []        -- fresh stages, output-side first
  api : Api := { eng := { stages := [] } }
  pending : Nat := 0             -- stage lines still expected
  acc : List Stage := []         -- stage lines read so far (input-side first reversed = output-side first)
  lacc : List LStage := []       -- the same stages with the integers the time map reads
  lplan : List LStage := []
  fuel : Nat := 100000000

def parseStage (m : List (String × String)) : Stage :=
  let kind := match get m "kind" with
    | "half" => Kind.half
    | "dft" => Kind.dft
    | _ => Kind.clocked
  { cfg := { kind := kind, prePost := getNat m "prePost", den := getNat m "den", step := getNat m "step",
             poly0 := getNat m "poly0" == 1, taps := getNat m "taps", L := getNat m "L", dftLen := getNat m "dftLen",
             numTaps := getNat m "numTaps", M := getInt m "M" },
    st := { occ := getNat m "preload", clk := getNat m "clk", remM := getNat m "remM", isz := getNat m "isz" } }

def parseLStage (m : List (String × String)) : LStage :=
  let s := parseStage m
  { cfg := s.cfg, s0 := s.st,
    lat := { pre := getNat m "pre", postPeak := getNat m "postPeak", nc := getNat m "nc", cubic := getNat m "cubic" == 1 } }

def num (d : DSt) : Num :=
  { owed := fun n => ((Float.ofNat n) / d.ioRatio + 0.5).toUInt64.toNat,
    iForO := fun n => (Float.ceil ((Float.ofNat n) * d.ioRatio)).toUInt64.toNat }

def joinNat (xs : List Nat) : String := String.join (xs.map fun x => toString x ++ ",")

def stateLine (a : Api) : String :=
  let e := a.eng
  let ss := e.stages.reverse
  s!"ST in={e.sin} out={e.sout} fl={if e.fl then 1 else 0} occ={joinNat (ss.map (·.st.occ) ++ [e.outOcc])} " ++
  s!"clk={joinNat (ss.map (·.st.clk))} remM={joinNat (ss.map (·.st.remM))} isz={joinNat (ss.map (·.st.isz))} " ++
  s!"pfl={if a.flushing then 1 else 0} err={if a.error then 1 else 0}"

def parseTok (t : String) : Option Supply :=
  if t == "e" then some Supply.eof
  else if t == "f" then some Supply.fail
  else if t.startsWith "d" then (t.drop 1).toNat?.map Supply.data
  else none

/-- script tokens, run-length encoded as `tok*count` -/
def parseScript (toks : List String) : List Supply :=
  toks.flatMap fun t => match t.splitOn "*" with
    | [a, n] => match parseTok a with
      | some s => List.replicate (n.toNat?.getD 1) s
      | none => []
    | _ => (parseTok t).toList

/-- run-length encoded list of naturals: `v,` or `v*count,` -/
def rle : List Nat → String
  | [] => ""
  | x :: xs =>
    let rec go (cur : Nat) (run : Nat) : List Nat → String → String
      | [], acc => acc ++ (if run == 1 then s!"{cur}," else s!"{cur}*{run},")
      | y :: ys, acc =>
        if y == cur then go cur (run + 1) ys acc
        else go y 1 ys (acc ++ (if run == 1 then s!"{cur}," else s!"{cur}*{run},"))
    go x 1 xs ""

def delayBits (d : DSt) : UInt64 :=
  let e := d.api.eng
  let so : Float := if e.sout < 0 then -(Float.ofNat e.sout.natAbs) else Float.ofNat e.sout.natAbs
  -- the guard of `soxr_delay` (soxr.c): an object that carries an error reports 0
  if d.api.error then (0.0 : Float).toBits else ((Float.ofNat e.sin) / d.ioRatio - so).toBits


/-- `cr.coeftab simd ord nc P mult c0 c1 …`: the table of `prepare_poly_fir_coefs` for an integer prototype and multiplier, exact
    rationals, every cell of the allocation times 12 (all cells are multiples of 1/12 for integer input) — once by the model of the
    loop (`CoefTable.prep`), once by the closed form of the theorems (`CoefTable.spec`) -/
def ratOps : CoefTable.Ops Rat :=
  { zero := 0, add := (· + ·), sub := (· - ·), mul := (· * ·), half := (1 : Rat) / 2, sixth := (1 : Rat) / 6, four := 4 }

def coefTabLine (toks : List String) : String :=
  match toks.map (·.toInt?.getD 0) with
  | simd :: ord :: nc :: P :: mult :: cs =>
    let arr := cs.toArray
    let p : CoefTable.Par Rat := { o := ratOps, coefs := fun k => ((arr.getD k 0 : Int) : Rat), mult := ((mult : Int) : Rat),
                                   nc := nc.toNat, P := P.toNat, ord := ord.toNat, simd := simd != 0 }
    let show12 (v : Rat) : String := let w := v * 12; if w.den == 1 then toString w.num else s!"{w.num}/{w.den}"
    let tl := CoefTable.prep p
    let a := (List.range p.length).map fun x => show12 (tl x)
    let b := (List.range p.length).map fun x => show12 (CoefTable.spec p x)
    s!"COEFTAB len={p.length} loop=" ++ ",".intercalate a ++ " spec=" ++ ",".intercalate b
  | _ => "bad-op"

def step (d : DSt) (line : String) : DSt × Option String :=
  let toks := (line.trimAscii.toString.splitOn " ").filter (· ≠ "")
  match toks with
  | "cr.plan" :: rest =>
    let m := kvs rest
    let k := getNat m "k"
    let r := Float.ofBits (getNat m "ratio").toUInt64
    let d' := { d with ioRatio := r, pending := k, acc := [], lacc := [] }
    if k == 0 then ({ d' with plan := [], lplan := [], api := { eng := { stages := [] } } }, some "ok plan") else (d', none)
  | "cr.stage" :: rest =>
    let s := parseStage (kvs rest)
    let acc := s :: d.acc
    let lacc := parseLStage (kvs rest) :: d.lacc
    if d.pending ≤ 1 then ({ d with pending := 0, acc := [], lacc := [], plan := acc, lplan := lacc, api := { eng := { stages := acc } } }, some "ok plan")
    else ({ d with pending := d.pending - 1, acc := acc, lacc := lacc }, none)
  | ["cr.setfn", n] =>
    let mi := n.toNat?.getD 0
    ({ d with api := { d.api with hasFn := true, maxIlen := if mi == 0 then 2^64 - 1 else mi } }, some "ok setfn")
  | ["cr.clear"] =>
    -- soxr_clear: everything but the configuration and the input function (with its max_ilen) is reset
    ({ d with api := { eng := { stages := d.plan }, hasFn := d.api.hasFn, maxIlen := d.api.maxIlen } }, some "ok clear")
  | ["cr.wf"] =>
    -- `PipeWF` exactly as the theorems state it (same definition, decided here)
    if decide (PipeWF d.api.eng.stages) then (d, some "WF 1")
    else
      let bad := (d.api.eng.stages.reverse.zipIdx.filter fun (x, _) => !decide x.WF).map fun (x, i) =>
        s!"{i}:{repr x.cfg.kind}"
      (d, some s!"WF 0 failing-stages={bad}")
  | ["cr.time"] =>
    -- `PlanLatOK`, `offsetOf`, `rateOf` exactly as the theorems of Properties/C04 state them, on the fresh plan
    let ts := d.lplan.map tstage
    let off := offsetOf ts
    let rate := rateOf ts
    let marg := margOf d.lplan
    let wf := decide (∀ x ∈ d.lplan, StageWF x.cfg x.s0)
    (d, some (s!"TIME lat={if decide (PlanLatOK true d.lplan) then 2 else if decide (PlanLatOK false d.lplan) then 1 else 0} off={off.num}/{off.den} rate={rate.num}/{rate.den}" ++
      s!" early={if wf && decide (PlanEarlyOK d.lplan) then 1 else 0} earlyg={if wf && decide (PlanEarlyGen d.lplan) then 1 else 0} marg={marg.num}/{marg.den} post={if decide (rate / 2 ≤ 1 + off + marg) then 1 else 0}"))
  | ["cr.period"] =>
    -- `planShift` of Cr/Shift.lean on the fresh plan: only a shift that `chain` (the hypothesis of `chain_sound`) accepts is printed
    match planShift 200000 (d.lplan.map fun x => (x.cfg, x.s0)) with
    | none => (d, some "PERIOD none")
    | some (din, dout, hor) => (d, some s!"PERIOD in={din} out={dout} hor={hor}")
  | "cr.cone" :: js =>
    -- `coneI` of Cr/Cone.lean (the hypothesis of `locality_runs`) for single output frames of the fresh plan: `lo-hi` per frame, `-` = nothing but preload
    let pl := d.lplan.map fun x => (x.cfg, x.s0)
    let ans := js.map fun t => match t.toNat? with
      | none => "?"
      | some j => match coneI 1000000 pl j j with
        | none => "?"
        | some (a, b) => if b < a then "-" else s!"{a}-{b}"
    (d, some ("CONE " ++ " ".intercalate ans))
  | ["cr.eoi"] =>
    -- soxr_process(p, NULL, 0, &idone, NULL, 0, &odone): end-of-input latched on the API object and passed to the engine
    let a := d.api.signalEnd (num d)
    ({ d with api := a }, some ("R id=0 od=0 used=0 reqs= " ++ stateLine a))
  | ["cr.delay"] => (d, some s!"DELAY {delayBits d}")
  | "cr.proc" :: hasIn :: flushReq :: useIdone :: ilen0 :: olen :: script =>
    match d.api.process (num d) d.fuel (hasIn == "1") (flushReq == "1") (useIdone == "1")
        (ilen0.toNat?.getD 0) (olen.toNat?.getD 0) (parseScript script) with
    | none => (d, some "R out-of-fuel")
    | some (a, idone, odone, rest, reqs) =>
      ({ d with api := a }, some (s!"R id={idone} od={odone} used={(parseScript script).length - rest.length} reqs={rle reqs} " ++ stateLine a))
  | "cr.pull" :: len0 :: script =>
    match d.api.output (num d) d.fuel (len0.toNat?.getD 0) (parseScript script) with
    | none => (d, some "R out-of-fuel")
    | some (a, odone, rest, reqs) =>
      ({ d with api := a }, some (s!"R id=0 od={odone} used={(parseScript script).length - rest.length} reqs={rle reqs} " ++ stateLine a))
  | "cr.coeftab" :: rest => (d, some (coefTabLine rest))
  | [] => (d, none)
  | _ => (d, some "bad-op")

partial def loop (h : IO.FS.Stream) (out : IO.FS.Stream) (d : DSt) : IO Unit := do
  let line ← h.getLine
  if line.isEmpty then return ()
  let (d', o) := step d line
  match o with
  | some s => out.putStrLn s
  | none => pure ()
  loop h out d'

def main : IO Unit := do
  loop (← IO.getStdin) (← IO.getStdout) {}

end Soxr.Cr.Driver
