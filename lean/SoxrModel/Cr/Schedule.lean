import SoxrModel.Cr.DataPipe
/-!
# Schedule invariance at engine level

* `fresh_einv`         a freshly initialised engine (every stage FIFO holds its zero preload) satisfies the invariant;
* `runs_comparable`    the samples delivered by ANY two runs over the same input stream are prefix-comparable;
* `stream_counters`, `drain_counters`   `samples_in / samples_out` along a run;
* `complete_runs_equal`  two complete runs (all of `xs` accepted, end-of-input, drained) deliver the same samples.
-/
namespace Soxr.Cr

variable {α : Type}

def freshStage (z : α) (p : StageCfg × StageSt) : DStage α :=
  { cfg := p.1, st := p.2, fifo := List.replicate p.2.occ z }

/-- the engine as `_soxr_init` leaves it: every stage FIFO holds `preload` zeros (`occ` of the initial integers) -/
def DEng.fresh (z : α) (plan : Plan) : DEng α := { stages := plan.map (freshStage z) }

/-- every stage of the plan is well-formed (`StageWF`, the decidable predicate the driver evaluates) -/
def PlanWF (plan : Plan) : Prop := ∀ p ∈ plan, StageWF p.1 p.2
instance (plan : Plan) : Decidable (PlanWF plan) := by unfold PlanWF; exact inferInstance

theorem fresh_dinv (K : Kern α) (z : α) (c : StageCfg) (s0 : StageSt) (h : StageWF c s0) :
    DInv K c s0 (freshStage z (c, s0)) (List.replicate s0.occ z ++ []) 0 := by
  refine ⟨rfl, by simp [freshStage], ⟨0, by simp [freshStage], Nat.zero_le _, ?_⟩, ?_, h⟩
  · unfold ctlRel
    cases hk : c.kind <;> simp [freshStage, dctl]
  · intro u hu; omega

theorem fresh_pinv (K : Kern α) (z : α) : ∀ (plan : Plan), PlanWF plan → PInv K z plan (plan.map (freshStage z)) [] [] := by
  intro plan
  induction plan with
  | nil => intro _; exact PInv.nil []
  | cons p ps ih =>
    intro h
    obtain ⟨c, s0⟩ := p
    have h1 : StageWF c s0 := h (c, s0) (by simp)
    have h2 : PlanWF ps := fun q hq => h q (by simp [hq])
    exact PInv.cons c s0 _ 0 (ih h2) (fresh_dinv K z c s0 h1)

theorem fresh_einv (K : Kern α) (z : α) (plan : Plan) (h : PlanWF plan) : EInv K z plan (DEng.fresh z plan) [] [] :=
  ⟨[], [], IsPad.nil z _, by simpa [DEng.fresh] using fresh_pinv K z plan h, rfl⟩

/-- the run is over the stream `xs`: what was accepted is a prefix of `xs`, all of it once end-of-input was signalled -/
structure OverStream (xs fed : List α) (fl : Bool) : Prop where
  pre : fed <+: xs
  full : fl = true → fed = xs

theorem replicate_comparable (z : α) (k j : Nat) : Comparable (List.replicate k z) (List.replicate j z) := by
  rcases Nat.le_total k j with h | h
  · exact Or.inl ⟨List.replicate (j - k) z, by rw [List.replicate_append_replicate]; congr 1; omega⟩
  · exact Or.inr ⟨List.replicate (k - j) z, by rw [List.replicate_append_replicate]; congr 1; omega⟩

theorem over_comparable (z : α) {xs f1 f2 p1 p2 : List α} {fl1 fl2 : Bool} (o1 : OverStream xs f1 fl1)
    (o2 : OverStream xs f2 fl2) (h1 : IsPad z fl1 p1) (h2 : IsPad z fl2 p2) : Comparable (f1 ++ p1) (f2 ++ p2) := by
  cases fl1 <;> cases fl2
  · rw [h1.2 rfl, h2.2 rfl, List.append_nil, List.append_nil]
    exact List.prefix_or_prefix_of_prefix o1.pre o2.pre
  · rw [h1.2 rfl, List.append_nil, o2.full rfl]
    exact Or.inl (List.IsPrefix.trans o1.pre (List.prefix_append _ _))
  · rw [h2.2 rfl, List.append_nil, o1.full rfl]
    exact Or.inr (List.IsPrefix.trans o2.pre (List.prefix_append _ _))
  · rw [o1.full rfl, o2.full rfl]
    obtain ⟨⟨k, rfl⟩, _⟩ := h1
    obtain ⟨⟨j, rfl⟩, _⟩ := h2
    exact comparable_append_left _ (replicate_comparable z k j)

theorem comparable_of_prefixes {a b sa sb : List α} (ha : a <+: sa) (hb : b <+: sb) (h : Comparable sa sb) : Comparable a b := by
  rcases h with h | h
  · exact List.prefix_or_prefix_of_prefix (List.IsPrefix.trans ha h) hb
  · exact List.prefix_or_prefix_of_prefix ha (List.IsPrefix.trans hb h)

/-- **Any two runs over the same stream deliver prefix-comparable samples**, whatever the block sizes, request sizes,
    number of calls and the point reached by either. -/
theorem runs_comparable (K : Kern α) (z : α) (owed : Nat → Nat) (plan : Plan) (hwf : PlanWF plan) (xs : List α)
    (ops1 ops2 : List (DOp α)) (F1 F2 D1 D2 : List α) (e1 e2 : DEng α)
    (r1 : DRuns K z owed (DEng.fresh z plan) ops1 F1 D1 e1) (r2 : DRuns K z owed (DEng.fresh z plan) ops2 F2 D2 e2)
    (o1 : OverStream xs F1 e1.fl) (o2 : OverStream xs F2 e2.fl) : Comparable D1 D2 := by
  have i1 := druns_inv K z owed plan ops1 _ _ _ _ _ _ (fresh_einv K z plan hwf) r1
  have i2 := druns_inv K z owed plan ops2 _ _ _ _ _ _ (fresh_einv K z plan hwf) r2
  simp only [List.nil_append] at i1 i2
  obtain ⟨pad1, src1, hp1, hq1, hs1⟩ := i1
  obtain ⟨pad2, src2, hp2, hq2, hs2⟩ := i2
  have hc := PInv_comparable K z plan _ _ _ _ _ _ hq1 hq2 (over_comparable z o1 o2 hp1 hp2)
  exact comparable_of_prefixes ⟨_, hs1⟩ ⟨_, hs2⟩ hc

/-! ## counters -/

def NoFlush : List (DOp α) → Prop
  | [] => True
  | .flush :: _ => False
  | _ :: r => NoFlush r

theorem dprocLoop_counters (K : Kern α) (z : α) (fuel : Nat) : ∀ (k : Nat) (e : DEng α) (n : Int) (done : Bool) (e' : DEng α),
    dprocLoop K z fuel k e n done = some e' → e'.fl = e.fl ∧ e'.sin = e.sin ∧ e'.sout = e.sout := by
  intro k
  induction k with
  | zero => intro e n done e' h; simp [dprocLoop] at h
  | succ k ih =>
    intro e n done e' h
    unfold dprocLoop at h
    split at h
    · revert h
      cases hs : e.stages with
      | nil => intro h; exact ih _ _ _ _ h
      | cons y r =>
        intro h
        simp only at h
        cases hcal : dsp K z e.fl fuel (y :: r) false with
        | none => simp [hcal] at h
        | some v =>
          obtain ⟨st', prod, d⟩ := v
          rw [hcal] at h
          simp only at h
          exact ih { e with stages := st', out := e.out ++ prod } n d e' h
    · injection h with h; subst h; exact ⟨rfl, rfl, rfl⟩

/-- while streaming `samples_in` counts what was accepted and `samples_out` what was delivered -/
theorem stream_counters (K : Kern α) (z : α) (owed : Nat → Nat) : ∀ (ops : List (DOp α)) (e e' : DEng α) (F D : List α),
    e.fl = false → NoFlush ops → DRuns K z owed e ops F D e' →
    e'.fl = false ∧ e'.sin = e.sin + F.length ∧ e'.sout = e.sout + D.length := by
  intro ops
  induction ops with
  | nil => intro e e' F D hfl _ hr; cases hr; exact ⟨hfl, by simp, by simp⟩
  | cons op ops ih =>
    intro e e' F D hfl hnf hr
    cases hr with
    | feed _ xs _ F' _ _ hr' =>
      have hin : (e.input xs).fl = false ∧ (e.input xs).sin = e.sin + xs.length ∧ (e.input xs).sout = e.sout := by
        unfold DEng.input
        simp only [hfl, Bool.false_eq_true, if_false]
        cases e.stages <;> exact ⟨rfl, rfl, rfl⟩
      obtain ⟨g1, g2, g3⟩ := ih _ _ _ _ hin.1 hnf hr'
      refine ⟨g1, ?_, ?_⟩
      · rw [g2, hin.2.1]; simp only [hfl, Bool.false_eq_true, if_false, List.length_append]; omega
      · rw [g3, hin.2.2]
    | flush _ _ _ _ _ _ => exact absurd hnf (by simp [NoFlush])
    | take _ n0 fuel e1 _ _ D' _ hp hr' =>
      obtain ⟨c1, c2, c3⟩ := dprocLoop_counters K z fuel fuel e _ false e1 hp
      have ht : e1.target n0 = n0 := by unfold DEng.target; simp [c1, hfl]
      have hout : (e1.output n0).1.fl = false ∧ (e1.output n0).1.sin = e.sin ∧
          (e1.output n0).1.sout = e.sout + ((e1.output n0).2.length : Int) := by
        unfold DEng.output
        simp only [ht, List.length_take]
        refine ⟨by rw [← hfl, ← c1], c2, ?_⟩
        rw [c3]; omega
      obtain ⟨g1, g2, g3⟩ := ih _ _ _ _ hout.1 hnf hr'
      refine ⟨g1, by rw [g2, hout.2.1], ?_⟩
      rw [g3, hout.2.2]; simp only [List.length_append]; omega

/-- after end-of-input: nothing more is accepted, `samples_out` counts up towards 0 and never passes it -/
theorem drain_counters (K : Kern α) (z : α) (owed : Nat → Nat) : ∀ (ops : List (DOp α)) (e e' : DEng α) (F D : List α),
    e.fl = true → e.sout ≤ 0 → DRuns K z owed e ops F D e' →
    e'.fl = true ∧ F = [] ∧ e'.sout ≤ 0 ∧ e'.sout = e.sout + D.length := by
  intro ops
  induction ops with
  | nil => intro e e' F D hfl hs hr; cases hr; exact ⟨hfl, rfl, hs, by simp⟩
  | cons op ops ih =>
    intro e e' F D hfl hs hr
    cases hr with
    | feed _ xs _ F' _ _ hr' =>
      have hin : e.input xs = e := by unfold DEng.input; simp [hfl]
      rw [hin] at hr'
      obtain ⟨g1, g2, g3, g4⟩ := ih _ _ _ _ hfl hs hr'
      exact ⟨g1, by simp [hfl, g2], g3, g4⟩
    | flush _ _ _ _ _ hr' =>
      have hin : e.flush owed = e := by unfold DEng.flush; simp [hfl]
      rw [hin] at hr'
      exact ih _ _ _ _ hfl hs hr'
    | take _ n0 fuel e1 _ _ D' _ hp hr' =>
      obtain ⟨c1, c2, c3⟩ := dprocLoop_counters K z fuel fuel e _ false e1 hp
      have ht : e1.target n0 = min (-e.sout) (n0 : Int) := by unfold DEng.target; simp [c1, hfl, c3]
      have hout : (e1.output n0).1.fl = true ∧ (e1.output n0).1.sout ≤ 0 ∧
          (e1.output n0).1.sout = e.sout + ((e1.output n0).2.length : Int) := by
        unfold DEng.output
        simp only [ht, List.length_take]
        refine ⟨by rw [← hfl, ← c1], ?_, ?_⟩
        · rw [c3]; omega
        · rw [c3]; omega
      obtain ⟨g1, g2, g3, g4⟩ := ih _ _ _ _ hout.1 hout.2.1 hr'
      refine ⟨g1, g2, g3, ?_⟩
      rw [g4, hout.2.2]; simp only [List.length_append]; omega

theorem druns_append (K : Kern α) (z : α) (owed : Nat → Nat) : ∀ (ops1 : List (DOp α)) (e e1 e2 : DEng α) (ops2 : List (DOp α))
    (F1 D1 F2 D2 : List α), DRuns K z owed e ops1 F1 D1 e1 → DRuns K z owed e1 ops2 F2 D2 e2 →
    DRuns K z owed e (ops1 ++ ops2) (F1 ++ F2) (D1 ++ D2) e2 := by
  intro ops1
  induction ops1 with
  | nil => intro e e1 e2 ops2 F1 D1 F2 D2 h1 h2; cases h1; simpa using h2
  | cons op ops ih =>
    intro e e1 e2 ops2 F1 D1 F2 D2 h1 h2
    cases h1 with
    | feed _ xs _ F' _ _ hr' =>
      have := ih _ _ _ _ _ _ _ _ hr' h2
      rw [List.append_assoc]
      exact DRuns.feed e xs _ _ _ _ this
    | flush _ _ _ _ _ hr' => exact DRuns.flush e _ _ _ _ (ih _ _ _ _ _ _ _ _ hr' h2)
    | take _ n0 fuel e1' _ _ D' _ hp hr' =>
      have := ih _ _ _ _ _ _ _ _ hr' h2
      rw [List.append_assoc]
      exact DRuns.take e n0 fuel e1' _ _ _ _ hp this

/-- **Two complete runs deliver the same samples.**  Each run streams all of `xs` through an arbitrary history
    (`s₁`, `s₂`: any block sizes, any request sizes, zero included), never early, then signals end-of-input and makes
    arbitrary further calls (`t₁`, `t₂`) until nothing is owed. -/
theorem complete_runs_equal (K : Kern α) (z : α) (owed : Nat → Nat) (plan : Plan) (hwf : PlanWF plan) (xs : List α)
    (s1 s2 t1 t2 : List (DOp α)) (D1 D2 F1' F2' D1' D2' : List α) (e1 e2 e1' e2' : DEng α)
    (n1 : NoFlush s1) (n2 : NoFlush s2)
    (r1 : DRuns K z owed (DEng.fresh z plan) s1 xs D1 e1) (r2 : DRuns K z owed (DEng.fresh z plan) s2 xs D2 e2)
    (ne1 : D1.length ≤ owed xs.length) (ne2 : D2.length ≤ owed xs.length)
    (d1 : DRuns K z owed (e1.flush owed) t1 F1' D1' e1') (d2 : DRuns K z owed (e2.flush owed) t2 F2' D2' e2')
    (c1 : e1'.sout = 0) (c2 : e2'.sout = 0) :
    D1 ++ D1' = D2 ++ D2' ∧ (D1 ++ D1').length = owed xs.length := by
  have key : ∀ (s t : List (DOp α)) (D F' D' : List α) (e e' : DEng α), NoFlush s →
      DRuns K z owed (DEng.fresh z plan) s xs D e → D.length ≤ owed xs.length →
      DRuns K z owed (e.flush owed) t F' D' e' → e'.sout = 0 →
      DRuns K z owed (DEng.fresh z plan) (s ++ .flush :: t) (xs ++ F') (D ++ D') e' ∧ e'.fl = true ∧ F' = [] ∧
        (D ++ D').length = owed xs.length := by
    intro s t D F' D' e e' hn hr hne hd hc
    obtain ⟨a1, a2, a3⟩ := stream_counters K z owed s _ _ _ _ rfl hn hr
    have hsin : e.sin = xs.length := by rw [a2]; simp [DEng.fresh]
    have hsout : e.sout = D.length := by rw [a3]; simp [DEng.fresh]
    have hfe : e.flush owed = { e with sout := e.sout - owed e.sin, sin := 0, fl := true } := by
      unfold DEng.flush; simp [a1]
    have hfl : (e.flush owed).fl = true := by rw [hfe]
    have hso : (e.flush owed).sout = (D.length : Int) - owed xs.length := by rw [hfe]; simp [hsout, hsin]
    obtain ⟨b1, b2, _, b4⟩ := drain_counters K z owed t _ _ _ _ hfl (by rw [hso]; omega) hd
    refine ⟨druns_append K z owed s _ e _ _ _ _ _ _ hr (DRuns.flush e t F' D' e' hd), b1, b2, ?_⟩
    rw [hc, hso] at b4
    simp only [List.length_append]; omega
  obtain ⟨k1, f1, g1, l1⟩ := key s1 t1 D1 F1' D1' e1 e1' n1 r1 ne1 d1 c1
  obtain ⟨k2, f2, g2, l2⟩ := key s2 t2 D2 F2' D2' e2 e2' n2 r2 ne2 d2 c2
  subst g1; subst g2
  simp only [List.append_nil] at k1 k2
  have hc := runs_comparable K z owed plan hwf xs _ _ _ _ _ _ _ _ k1 k2
    ⟨List.prefix_refl _, fun _ => rfl⟩ ⟨List.prefix_refl _, fun _ => rfl⟩
  exact ⟨hc.eq_of_length (by rw [l1, l2]), l1⟩

end Soxr.Cr
