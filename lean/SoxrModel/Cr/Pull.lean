import SoxrModel.Cr.Model
/-!
# The pull loop of `soxr_output` against an arbitrary input function

The input function is an arbitrary finite script of answers (`data n | eof | fail`); the lemmas hold for every script,
every state and every request — i.e. for every supply pattern and end-of-input or failure at every call index.
-/
namespace Soxr.Cr

theorem outputNoCb_flags (num : Num) (fuel : Nat) (a : Api) (len : Nat) (a1 : Api) (od : Nat)
    (h : a.outputNoCb num fuel len = some (a1, od)) :
    a1.flushing = a.flushing ∧ a1.error = a.error ∧ a1.hasFn = a.hasFn ∧ a1.maxIlen = a.maxIlen := by
  unfold Api.outputNoCb at h
  simp only at h
  split at h
  · simp at h
  · injection h with h
    injection h with h1 _
    rw [← h1]
    exact ⟨rfl, rfl, rfl, rfl⟩

theorem input_flags (a : Api) (n : Nat) : (a.input n).error = a.error ∧ (a.input n).hasFn = a.hasFn ∧
    (a.input n).maxIlen = a.maxIlen ∧ (a.flushing = true → (a.input n).flushing = true) ∧
    (0 < n → (a.input n).flushing = a.flushing) ∧ (a.error = false → n = 0 → (a.input n).flushing = true) := by
  unfold Api.input
  split
  · exact ⟨rfl, rfl, rfl, fun h => h, fun _ => rfl, fun h => by simp_all⟩
  · split
    · rename_i h0
      exact ⟨rfl, rfl, rfl, fun _ => rfl, fun h => by omega, fun _ _ => rfl⟩
    · rename_i h0
      exact ⟨rfl, rfl, rfl, fun h => h, fun _ => rfl, fun _ h => absurd h h0⟩

/-- an answer that ends the stream: `eof`, or a zero-length supply -/
def Supply.isEnd : Supply → Bool
  | .eof => true
  | .data 0 => true
  | _ => false

/-- a proper supply -/
def Supply.isData : Supply → Bool
  | .data (_ + 1) => true
  | _ => false

/-- What one `soxr_output` call does with the input function, for every script. -/
structure PullSpec (ilen : Nat) (a a' : Api) (script rest : List Supply) (reqs reqs' : List Nat) : Prop where
  /-- the answers consumed are a prefix of the script … -/
  used : ∃ used, script = used ++ rest ∧ reqs' = List.replicate used.length ilen ++ reqs ∧
    /- … every one but the last is a proper supply … -/
    (∀ s ∈ used.dropLast, s.isData = true) ∧
    /- … the resampler is in the error state exactly when the last answer was a failure … -/
    (a'.error = true ↔ used.getLast? = some Supply.fail) ∧
    /- … nothing is asked when already flushing or when no function is registered … -/
    ((a.flushing = true ∨ a.hasFn = false) → used = []) ∧
    /- … and end-of-input is latched exactly by an end answer. -/
    (a.flushing = false → (a'.flushing = true ↔ ∃ s, used.getLast? = some s ∧ s.isEnd = true))
  hasFn : a'.hasFn = a.hasFn
  maxIlen : a'.maxIlen = a.maxIlen
  fl_mono : a.flushing = true → a'.flushing = true

theorem replicate_append_cons {α : Type} (k : Nat) (x : α) (r : List α) :
    List.replicate k x ++ x :: r = x :: (List.replicate k x ++ r) := by
  induction k with
  | zero => rfl
  | succ k ih => simp only [List.replicate_succ, List.cons_append, ih]

theorem getLast?_cons_ne_nil {α : Type} (x : α) (l : List α) (h : l ≠ []) : (x :: l).getLast? = l.getLast? := by
  cases l with
  | nil => exact absurd rfl h
  | cons y t => simp [List.getLast?_cons_cons]

theorem dropLast_cons_ne_nil {α : Type} (x : α) (l : List α) (h : l ≠ []) : (x :: l).dropLast = x :: l.dropLast := by
  cases l with
  | nil => exact absurd rfl h
  | cons y t => simp [List.dropLast]

theorem pullLoop_spec (num : Num) (fuel len0 ilen : Nat) : ∀ (k : Nat) (a : Api) (olen odone0 : Nat) (script : List Supply)
    (reqs : List Nat) (a' : Api) (od : Nat) (rest : List Supply) (reqs' : List Nat),
    pullLoop num fuel len0 ilen k a olen odone0 script reqs = some (a', od, rest, reqs') → a.error = false →
    PullSpec ilen a a' script rest reqs reqs' := by
  intro k
  induction k with
  | zero => intro a olen odone0 script reqs a' od rest reqs' h; simp [pullLoop] at h
  | succ k ih =>
    intro a olen odone0 script reqs a' od rest reqs' h herr
    unfold pullLoop at h
    cases hcb : a.outputNoCb num fuel olen with
    | none => simp [hcb] at h
    | some v =>
      obtain ⟨a1, odone⟩ := v
      obtain ⟨f1, f2, f3, f4⟩ := outputNoCb_flags num fuel a olen a1 odone hcb
      simp only [hcb] at h
      have nothing_used : ∀ (b : Api), b.flushing = a.flushing → b.error = false → b.hasFn = a.hasFn → b.maxIlen = a.maxIlen →
          PullSpec ilen a b script script reqs reqs := by
        intro b b1 b2 b3 b4
        refine ⟨⟨[], by simp, by simp, by simp, ?_, by simp, ?_⟩, b3, b4, fun h => by rw [b1]; exact h⟩
        · simp [b2]
        · intro hf; simp [b1, hf]
      split at h
      · -- enough output, no function, or flushing: the loop ends without a call
        injection h with h; injection h with h1 h; injection h with _ h; injection h with h3 h4
        subst h1; subst h3; subst h4
        exact nothing_used a1 f1 (by rw [f2]; exact herr) f3 f4
      · rename_i hcont
        have hcont' : ¬ (odone0 + odone = len0) ∧ a1.hasFn = true ∧ a1.flushing = false := by
          simp only [Bool.or_eq_true, decide_eq_true_eq, Bool.not_eq_true', not_or] at hcont
          obtain ⟨⟨c1, c2⟩, c3⟩ := hcont
          exact ⟨c1, by simpa using c2, by simpa using c3⟩
        obtain ⟨_, hfn, hnf⟩ := hcont'
        have hafl : a.flushing = false := by rw [← f1]; exact hnf
        have hahas : a.hasFn = true := by rw [← f3]; exact hfn
        cases script with
        | nil =>
          simp only at h
          injection h with h; injection h with h1 h; injection h with _ h; injection h with h3 h4
          subst h1; subst h3; subst h4
          exact nothing_used a1 f1 (by rw [f2]; exact herr) f3 f4
        | cons r rest0 =>
          simp only at h
          cases r with
          | fail =>
            simp only at h
            injection h with h; injection h with h1 h; injection h with _ h; injection h with h3 h4
            subst h1; subst h3; subst h4
            refine ⟨⟨[Supply.fail], by simp, by simp, by simp, by simp, ?_, ?_⟩, f3, f4, fun hh => by simp [hafl] at hh⟩
            · intro hh; rcases hh with hh | hh
              · simp [hafl] at hh
              · simp [hahas] at hh
            · intro _; simp [hnf, Supply.isEnd]
          | eof =>
            simp only at h
            obtain ⟨i1, i2, i3, i4, i5, i6⟩ := input_flags a1 0
            have hfl2 : (a1.input 0).flushing = true := i6 (by rw [f2]; exact herr) rfl
            split at h
            · -- the loop goes round once more; the next iteration stops at the flushing test
              have hspec := ih _ _ _ _ _ _ _ _ _ h (by rw [i1, f2]; exact herr)
              obtain ⟨⟨used, u1, u2, u3, u4, u5, u6⟩, s1, s2, s3⟩ := hspec
              have hnil : used = [] := u5 (Or.inl hfl2)
              subst hnil
              simp only [List.nil_append] at u1
              subst u1
              refine ⟨⟨[Supply.eof], by simp, by simpa using u2, by simp, ?_, ?_, ?_⟩, by rw [s1, i2, f3], by rw [s2, i3, f4],
                fun hh => by simp [hafl] at hh⟩
              · rw [u4]; simp
              · intro hh; rcases hh with hh | hh
                · simp [hafl] at hh
                · simp [hahas] at hh
              · intro _; simp [s3 hfl2, Supply.isEnd]
            · injection h with h; injection h with h1 h; injection h with _ h; injection h with h3 h4
              subst h1; subst h3; subst h4
              refine ⟨⟨[Supply.eof], by simp, by simp, by simp, ?_, ?_, ?_⟩, by rw [i2, f3], by rw [i3, f4],
                fun hh => by simp [hafl] at hh⟩
              · simp [i1, f2, herr]
              · intro hh; rcases hh with hh | hh
                · simp [hafl] at hh
                · simp [hahas] at hh
              · intro _; simp [hfl2, Supply.isEnd]
          | data n =>
            simp only at h
            obtain ⟨i1, i2, i3, i4, i5, i6⟩ := input_flags a1 n
            split at h
            · have hspec := ih _ _ _ _ _ _ _ _ _ h (by rw [i1, f2]; exact herr)
              obtain ⟨⟨used, u1, u2, u3, u4, u5, u6⟩, s1, s2, s3⟩ := hspec
              rcases Nat.eq_zero_or_pos n with hn0 | hnpos
              · -- a zero-length supply is end-of-input
                subst hn0
                have hfl2 : (a1.input 0).flushing = true := i6 (by rw [f2]; exact herr) rfl
                have hnil : used = [] := u5 (Or.inl hfl2)
                subst hnil
                simp only [List.nil_append] at u1
                subst u1
                refine ⟨⟨[Supply.data 0], by simp, by simpa using u2, by simp, ?_, ?_, ?_⟩, by rw [s1, i2, f3], by rw [s2, i3, f4],
                  fun hh => by simp [hafl] at hh⟩
                · rw [u4]; simp
                · intro hh; rcases hh with hh | hh
                  · simp [hafl] at hh
                  · simp [hahas] at hh
                · intro _; simp [s3 hfl2, Supply.isEnd]
              · have hfl2 : (a1.input n).flushing = false := by rw [i5 hnpos]; exact hnf
                refine ⟨⟨Supply.data n :: used, by simp [u1], ?_, ?_, ?_, ?_, ?_⟩, by rw [s1, i2, f3], by rw [s2, i3, f4],
                  fun hh => by simp [hafl] at hh⟩
                · rw [u2]; simp only [List.length_cons, List.replicate_succ, List.cons_append]
                  exact replicate_append_cons _ _ _
                · intro s hs
                  rcases List.eq_nil_or_concat used with hu | ⟨l, x, hu⟩
                  · subst hu; simp at hs
                  · have hne : used ≠ [] := by rw [hu]; simp
                    rw [dropLast_cons_ne_nil _ _ hne] at hs
                    simp only [List.mem_cons] at hs
                    rcases hs with rfl | hs
                    · obtain ⟨m, rfl⟩ : ∃ m, n = m + 1 := ⟨n - 1, by omega⟩
                      rfl
                    · exact u3 s hs
                · rw [u4]
                  rcases List.eq_nil_or_concat used with hu | ⟨l, x, hu⟩
                  · subst hu; simp
                  · have hne : used ≠ [] := by rw [hu]; simp
                    rw [getLast?_cons_ne_nil _ _ hne]
                · intro hh; rcases hh with hh | hh
                  · simp [hafl] at hh
                  · simp [hahas] at hh
                · intro _
                  rw [u6 hfl2]
                  rcases List.eq_nil_or_concat used with hu | ⟨l, x, hu⟩
                  · subst hu
                    obtain ⟨m, rfl⟩ : ∃ m, n = m + 1 := ⟨n - 1, by omega⟩
                    simp [Supply.isEnd]
                  · have hne : used ≠ [] := by rw [hu]; simp
                    rw [getLast?_cons_ne_nil _ _ hne]
            · injection h with h; injection h with h1 h; injection h with _ h; injection h with h3 h4
              subst h1; subst h3; subst h4
              refine ⟨⟨[Supply.data n], by simp, by simp, by simp, ?_, ?_, ?_⟩, by rw [i2, f3], by rw [i3, f4],
                fun hh => by simp [hafl] at hh⟩
              · simp [i1, f2, herr]
              · intro hh; rcases hh with hh | hh
                · simp [hafl] at hh
                · simp [hahas] at hh
              · intro _
                rcases Nat.eq_zero_or_pos n with hn0 | hnpos
                · subst hn0
                  simp [i6 (by rw [f2]; exact herr) rfl, Supply.isEnd]
                · rw [i5 hnpos, hnf]
                  obtain ⟨m, rfl⟩ : ∃ m, n = m + 1 := ⟨n - 1, by omega⟩
                  simp [Supply.isEnd]

end Soxr.Cr
