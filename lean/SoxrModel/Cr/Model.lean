import SoxrModel.Basic
/-!
# Count model of the constant-rate engine (`cr.c`, `cr-core.c`, `poly-fir*.h`, `half-fir.h`) and of the
  `soxr_process` / `soxr_output` loops of `soxr.c`

Control in the constant-rate engine is data-independent: how many frames a stage consumes and produces, every FIFO
occupancy, every clock value, `idone/odone` and `soxr_delay()` depend on lengths, clocks and the plan only.  This file
is that integer skeleton, written to be *executed* (the driver replays the real code's call sequences through it and
the harness compares every occupancy and clock word) and to be *reasoned about* (`Cr/Lemmas*.lean`).

The pipeline is kept output-side first (`stages.head` is the last stage): `stage_process(i)` only touches stages
`0..i`, so the C recursion `stage_process(stage - 1)` is structural recursion on the tail.
-/
namespace Soxr.Cr

inductive Kind | half | clocked | dft
  deriving DecidableEq, Repr, Inhabited

/-- The integers of one `stage_t` that control depends on (exported from the real planner by the harness). -/
structure StageCfg where
  kind : Kind := .half
  prePost : Nat := 0       -- `pre_post`
  den : Nat := 1           -- clocked: clock denominator (L for poly-fir0, 2^32 std clock / cubic, 2^96 hi-prec clock)
  step : Nat := 1          -- clocked: clock increment per output frame, in units of 1/den input frames
  poly0 : Bool := false    -- clocked: poly-fir0.h does nothing at all when `num_in == 0`
  taps : Nat := 0          -- clocked: frames read per output (FIR length, 4 for the cubic stage); data level only
  L : Nat := 1             -- dft: up-sampling factor
  dftLen : Nat := 0        -- dft
  numTaps : Nat := 1       -- dft
  M : Int := 1             -- dft: `step.integer` (negative: F-domain decimation by 2^-M)
  deriving Repr, Inhabited

/-- The mutable integers of one stage. -/
structure StageSt where
  occ : Nat := 0           -- occupancy of the stage's input FIFO
  clk : Nat := 0           -- clocked: `at` in units of 1/den;  dft: `at.integer`
  remM : Nat := 0
  isz : Nat := 8192        -- `input_size`
  deriving Repr, Inhabited, DecidableEq

structure Stage where
  cfg : StageCfg
  st : StageSt
  deriving Repr, Inhabited

/-- `stage_occupancy`, clamped to `input_size` as every non-dft kernel does. -/
def numIn (c : StageCfg) (s : StageSt) : Nat := min (s.occ - c.prePost) s.isz

/-- half-band decimator (`half-fir.h`): `num_out = (num_in + 1) >> 1`, reads `2 * num_out`. -/
def halfFn (c : StageCfg) (s : StageSt) : StageSt × Nat :=
  let no := (numIn c s + 1) / 2
  ({ s with occ := fifoRead s.occ (2 * no) }, no)

/-- clocked sampler (`poly-fir0.h`, `poly-fir.h` std / hi-prec clock, cubic stage): outputs while `at < num_in`,
    then reads `⌊at⌋` frames and keeps the fraction.  (If the read fails the clock is still reduced — as in C.) -/
def clockedFn (c : StageCfg) (s : StageSt) : StageSt × Nat :=
  let n := numIn c s
  if c.poly0 && n == 0 then (s, 0) else
  let cnt := loopCount s.clk c.step (n * c.den)
  let clk' := s.clk + cnt * c.step
  ({ s with occ := fifoRead s.occ (clk' / c.den), clk := clk' % c.den }, cnt)

/-- frames produced by one dft block and the new `remM`. -/
def dftProduced (c : StageCfg) (remM : Nat) : Nat × Nat :=
  let ov := c.numTaps - 1
  let bl := c.dftLen - ov
  if 0 < c.M then
    if c.M = 1 then (bl, remM)
    else
      let m := c.M.toNat
      let j := loopCount remM m bl
      (j, remM + j * m - bl)
  else
    let m := (-c.M).toNat
    (c.dftLen - (((2 ^ m - 1) * c.dftLen + ov) >>> m), remM)

/-- `dft_stage_fn`: at most one block per invocation. -/
def dftFn (c : StageCfg) (s : StageSt) : StageSt × Nat :=
  let ov := c.numTaps - 1
  let bl := c.dftLen - ov
  if s.clk + c.L * s.occ ≥ c.dftLen then
    let num := bl + c.L - 1 - s.clk
    let quot := num / c.L
    let rem := num % c.L
    let clk' := if isPow2 c.L || c.L == 1 then s.clk else c.L - 1 - rem
    let (prod, remM') := dftProduced c s.remM
    ({ occ := fifoRead s.occ quot, clk := clk', remM := remM', isz := (c.dftLen - clk' + c.L - 1) / c.L }, prod)
  else
    ({ s with isz := (c.dftLen - s.clk + c.L - 1) / c.L }, 0)

def stageFn (c : StageCfg) (s : StageSt) : StageSt × Nat :=
  match c.kind with
  | .half => halfFn c s
  | .clocked => clockedFn c s
  | .dft => dftFn c s

def Stage.run (x : Stage) : Stage × Nat :=
  let r := stageFn x.cfg x.st
  ({ x with st := r.1 }, r.2)

def Stage.addOcc (x : Stage) (n : Nat) : Stage := { x with st := { x.st with occ := x.st.occ + n } }

def Stage.short (x : Stage) : Bool := x.st.occ < x.st.isz

/-- `stage_process(stage, flushing)`, fuelled.  `stages` is output-side first; the result is the new stages,
    the number of frames written to the FIFO above, the C function's return value, and the work done
    (stage-function invocations + loop iterations) — compared with the real code's counters. -/
def sp (flushing : Bool) : Nat → List Stage → Bool → Option (List Stage × Nat × Bool)
  | 0, _, _ => none
  | _, [], _ => none
  | fuel+1, x :: below, done =>
    if !done && x.short then
      match below with
      | [] =>
        if flushing then sp flushing fuel [x.addOcc (x.st.isz - x.st.occ)] false
        else sp flushing fuel [x] true
      | _ :: _ =>
        match sp flushing fuel below false with
        | none => none
        | some (below', prod, d) => sp flushing fuel (x.addOcc prod :: below') d
    else
      let r := x.run
      some (r.1 :: below, r.2, done && r.1.short)

/-- One channel's engine state (`rate_t`). -/
structure Eng where
  stages : List Stage      -- output-side first
  outOcc : Nat := 0        -- occupancy of the FIFO after the last stage
  sin : Nat := 0           -- `samples_in`
  sout : Int := 0          -- `samples_out`
  fl : Bool := false       -- `flushing`
  deriving Repr, Inhabited

/-- loop of `_soxr_process`, fuelled. -/
def procLoop (fuel : Nat) : Nat → Eng → Int → Bool → Option Eng
  | 0, _, _, _ => none
  | k+1, e, n, done =>
    if !done && (e.outOcc : Int) < n then
      match e.stages with
      | [] => procLoop fuel k e n true            -- `stage->is_input` of the only (pseudo) stage
      | _ :: _ =>
        match sp e.fl fuel e.stages false with
        | none => none
        | some (st', prod, d) => procLoop fuel k { e with stages := st', outOcc := e.outOcc + prod } n d
    else some e

/-- `_soxr_process`: `n = flushing ? min(-samples_out, olen) : olen`. -/
def Eng.target (e : Eng) (olen : Nat) : Int := if e.fl then min (-e.sout) olen else olen

def Eng.process (fuel : Nat) (e : Eng) (olen : Nat) : Option Eng :=
  procLoop fuel fuel e (e.target olen) false

/-- feed `n` frames to the input FIFO (`_soxr_input`): ignored once flushing. -/
def addFirst : List Stage → Nat → List Stage
  | [], _ => []
  | [x], n => [x.addOcc n]
  | x :: y :: r, n => x :: addFirst (y :: r) n

def Eng.input (e : Eng) (n : Nat) : Eng :=
  if e.fl then e else
  match e.stages with
  | [] => { e with sin := e.sin + n, outOcc := e.outOcc + n }
  | _ => { e with sin := e.sin + n, stages := addFirst e.stages n }

/-- `_soxr_output`: returns the engine and the number of frames delivered (as C computes it: an `int`,
    negative when `samples_out > 0` at a flushing call — the pinned tree's F1 path). -/
def Eng.output (e : Eng) (n0 : Nat) : Eng × Int :=
  let n := min (e.target n0) e.outOcc
  ({ e with sout := e.sout + n, outOcc := fifoRead e.outOcc n.toNat }, n)

/-- `_soxr_flush` with the engine's `owed` function (`(int64)((double)samples_in / io_ratio + .5)`). -/
def Eng.flush (owed : Nat → Nat) (e : Eng) : Eng :=
  if e.fl then e else { e with sout := e.sout - owed e.sin, sin := 0, fl := true }

/-! ## `soxr.c`: one channel of `soxr_process` (generic path) and the pull loop of `soxr_output` -/

structure Api where
  eng : Eng
  flushing : Bool := false     -- `p->flushing`
  error : Bool := false        -- `p->error != 0`
  maxIlen : Nat := 0           -- `p->max_ilen` (kept by `soxr_clear`)
  hasFn : Bool := false
  deriving Repr, Inhabited

/-- Numeric expressions of `soxr.c` / `cr.c` that are floating point in C; parameters of the model
    (the driver instantiates them with IEEE doubles, theorems treat them as arbitrary functions). -/
structure Num where
  owed : Nat → Nat             -- `(int64)((double)n / io_ratio + .5)`
  iForO : Nat → Nat            -- `(size_t)ceil((double)olen * io_ratio)`

/-- `soxr_output_no_callback` for one channel: flush if flushing, process, output. -/
def Api.outputNoCb (num : Num) (fuel : Nat) (a : Api) (len : Nat) : Option (Api × Nat) :=
  let e := if a.flushing then a.eng.flush num.owed else a.eng
  match e.process fuel len with
  | none => none
  | some e' =>
    let (e'', n) := e'.output len
    some ({ a with eng := e'' }, n.toNat)

/-- `soxr_input` (data already accepted as valid): error ⇒ nothing; `len = 0` ⇒ flushing. -/
def Api.input (a : Api) (len : Nat) : Api :=
  if a.error then a else
  if len = 0 then { a with flushing := true } else { a with eng := a.eng.input len }

/-- what a registered input function answers to one request. -/
inductive Supply | data (n : Nat) | eof | fail
  deriving Repr, DecidableEq, Inhabited

structure PullLog where
  reqs : List Nat := []        -- every request size, oldest first
  deriving Repr, Inhabited

/-- the `do … while` of `soxr_output`, fuelled by the script length + 1 iterations guard.
    `script` is what the input function will answer, call by call (clamped to the request by the harness).
    The request log is kept newest first. -/
def pullLoop (num : Num) (fuel : Nat) (len0 ilen : Nat) :
    Nat → Api → Nat → Nat → List Supply → List Nat → Option (Api × Nat × List Supply × List Nat)
  | 0, _, _, _, _, _ => none
  | k+1, a, olen, odone0, script, reqs =>
    match a.outputNoCb num fuel olen with
    | none => none
    | some (a1, odone) =>
      let odone0' := odone0 + odone
      if odone0' = len0 || !a1.hasFn || a1.flushing then some (a1, odone0', script, reqs)
      else
        match script with
        | [] => some (a1, odone0', [], reqs)           -- script exhausted: report what was reached
        | r :: rest =>
          let reqs' := ilen :: reqs
          let was := a1.flushing
          match r with
          | .fail => some ({ a1 with error := true }, odone0', rest, reqs')      -- `break` on failure
          | _ =>
            let (a2, idone) := match r with
              | .data n => (a1.input n, n)
              | _ => (a1.input 0, 0)
            if odone != 0 || idone != 0 || (!was && a2.flushing) then
              pullLoop num fuel len0 ilen k a2 (olen - odone) odone0' rest reqs'
            else some (a2, odone0', rest, reqs')

/-- `soxr_output(p, out, len0)`. -/
def Api.output (num : Num) (fuel : Nat) (a : Api) (len0 : Nat) (script : List Supply) :
    Option (Api × Nat × List Supply × List Nat) :=
  if a.error then some (a, 0, script, []) else
  let ilen := min a.maxIlen (num.iForO len0)
  match pullLoop num fuel len0 ilen (script.length + 2) a len0 0 script [] with
  | none => none
  | some (a', od, rest, reqs) => some (a', od, rest, reqs.reverse)

/-- `soxr_process(p, in, ilen0, idone0, out, olen, odone0)` for the generic (not both-split) path.
    `hasIn = false` is `in == NULL`; `flushReq` is the `~ilen` convention; `useIdone` is `idone0 != NULL`. -/
def Api.process (num : Num) (fuel : Nat) (a : Api) (hasIn flushReq useIdone : Bool) (ilen0 olen : Nat)
    (script : List Supply) : Option (Api × Nat × Nat × List Supply × List Nat) :=
  let fr := !hasIn || flushReq
  let ilen0 := if hasIn then ilen0 else 0
  let ilen := if hasIn then (if useIdone then min (num.iForO olen) ilen0 else ilen0) else 0
  let a := { a with flushing := a.flushing || (ilen == ilen0 && fr) }
  let a1 := if ilen != 0 then a.input ilen else a
  let idone := if ilen != 0 && !a.error then ilen else 0
  match a1.output num fuel olen script with
  | none => none
  | some (a2, odone, rest, reqs) => some (a2, idone, odone, rest, reqs)

/-- `soxr_process(p, NULL, 0, idone, NULL, 0, odone)`: with neither an input nor an output buffer the call only latches
    end-of-input on the API object and tells the engine (the `!out && !in` shortcut; since the F38 repair in /repo it calls
    `resampler_flush`, so that `soxr_delay` is the number of frames still to come from then on); `idone = odone = 0`. -/
def Api.signalEnd (num : Num) (a : Api) : Api :=
  { a with flushing := true, eng := if a.error then a.eng else a.eng.flush num.owed }

end Soxr.Cr
