import SoxrModel.Cr.StageLemmas
import SoxrModel.Cr.Units
/-!
# Data level: what the stage functions compute, for arbitrary kernels

`DStage.run` is one invocation of a stage function on a FIFO of samples of an arbitrary type `α`, with the numeric
kernel an arbitrary function `Kern.eval` of (stage configuration, three phase tags, window).  Counts and control
integers come from the count model's `stageFn` **by construction**, so the per-call correspondence of the count model
with the real code also ties this definition.  For every kind the invariant `DInv` — FIFO = history minus what was
consumed, control integers = those of unit `m`, every window so far inside the history — is preserved by feeding and
by running, for *any* amount of available input; outputs are always `G m hist`, the canonical function of the history.
-/
namespace Soxr.Cr

variable {α : Type}

/-- an arbitrary numeric kernel: (stage configuration, phase tags, window) ↦ one output sample -/
structure Kern (α : Type) where
  eval : StageCfg → Nat → Nat → Nat → List α → α

/-- where output `j` of one invocation reads, relative to the FIFO: offset, length and phase tags -/
def readSpec (c : StageCfg) (s : StageSt) (j : Nat) : Nat × Nat × Nat × Nat × Nat :=
  match c.kind with
  | .half => (2 * j + 1, c.prePost - 1, 0, 0, 0)
  | .clocked => ((s.clk + j * c.step) / c.den, c.prePost + 1, (s.clk + j * c.step) % c.den, 0, 0)
  | .dft => (0, s.isz, s.clk, s.remM, j)

structure DStage (α : Type) where
  cfg : StageCfg
  st : StageSt
  fifo : List α

def DStage.outAt (K : Kern α) (x : DStage α) (j : Nat) : α :=
  let r := readSpec x.cfg x.st j
  K.eval x.cfg r.2.2.1 r.2.2.2.1 r.2.2.2.2 ((x.fifo.drop r.1).take r.2.1)

/-- one invocation of the stage function -/
def DStage.run (K : Kern α) (x : DStage α) : DStage α × List α :=
  let r := stageFn x.cfg x.st
  ({ x with st := r.1, fifo := x.fifo.drop (x.st.occ - r.1.occ) }, (List.range r.2).map (x.outAt K))

/-- append frames to the stage's input FIFO -/
def DStage.feed (x : DStage α) (xs : List α) : DStage α :=
  { x with st := { x.st with occ := x.st.occ + xs.length }, fifo := x.fifo ++ xs }

/-- the count projection of the data-level stage is the count model, by construction -/
theorem DStage.run_count (K : Kern α) (x : DStage α) :
    (x.run K).1.st = (stageFn x.cfg x.st).1 ∧ (x.run K).2.length = (stageFn x.cfg x.st).2 := by
  simp [DStage.run]

/-! ## control state of the dft kind, block by block -/

/-- (frames consumed so far, `at.integer`, `remM`) after `u` blocks -/
def dctl (c : StageCfg) (s0 : StageSt) : Nat → Nat × Nat × Nat
  | 0 => (0, s0.clk, s0.remM)
  | u+1 =>
    let p := dctl c s0 u
    let num := c.dftLen - (c.numTaps - 1) + c.L - 1 - p.2.1
    (p.1 + num / c.L, (if isPow2 c.L || c.L == 1 then p.2.1 else c.L - 1 - num % c.L), (dftProduced c p.2.2).2)

/-- the canonical units of a stage with configuration `c`, initial integers `s0` and kernel `K` -/
def unitSem (K : Kern α) (c : StageCfg) (s0 : StageSt) : UnitSem α :=
  match c.kind with
  | .half => { pos := fun u => 2 * u + 1, len := fun _ => c.prePost - 1, out := fun _ w => [K.eval c 0 0 0 w] }
  | .clocked => { pos := fun u => (s0.clk + u * c.step) / c.den, len := fun _ => c.prePost + 1,
                  out := fun u w => [K.eval c ((s0.clk + u * c.step) % c.den) 0 0 w] }
  | .dft => { pos := fun u => (dctl c s0 u).1, len := fun u => (c.dftLen - (dctl c s0 u).2.1 + c.L - 1) / c.L,
              out := fun u w => (List.range (dftProduced c (dctl c s0 u).2.2).1).map fun j =>
                K.eval c (dctl c s0 u).2.1 (dctl c s0 u).2.2 j w }

/-- relation between a stage's control integers, the number of frames it has consumed and the unit index -/
def ctlRel (c : StageCfg) (s0 s : StageSt) (cons m : Nat) : Prop :=
  match c.kind with
  | .half => cons = 2 * m
  | .clocked => cons * c.den + s.clk = s0.clk + m * c.step
  | .dft => (cons, s.clk, s.remM) = dctl c s0 m

/-- the data-level invariant of one stage w.r.t. everything ever fed to it (`hist`, preload included) -/
structure DInv (K : Kern α) (c : StageCfg) (s0 : StageSt) (x : DStage α) (hist : List α) (m : Nat) : Prop where
  cfg : x.cfg = c
  occ : x.st.occ = x.fifo.length
  cons : ∃ cons, x.fifo = hist.drop cons ∧ cons ≤ hist.length ∧ ctlRel c s0 x.st cons m
  stable : (unitSem K c s0).Stable m hist
  wf : StageWF c x.st

theorem UnitSem.G_add (U : UnitSem α) (h : List α) (m : Nat) : ∀ r,
    U.G (m + r) h = U.G m h ++ (List.range r).flatMap (fun i => U.out (m + i) (U.window (m + i) h)) := by
  intro r
  induction r with
  | zero => simp
  | succ r ih =>
    have : m + (r + 1) = (m + r) + 1 := by omega
    rw [this]
    simp only [UnitSem.G, ih, List.range_succ, List.flatMap_append, List.flatMap_cons, List.flatMap_nil,
      List.append_nil, List.append_assoc]

theorem flatMap_single {β γ : Type} (f : β → γ) (l : List β) : l.flatMap (fun i => [f i]) = l.map f := by
  induction l with
  | nil => rfl
  | cons a t ih => simp [List.flatMap_cons, ih]

theorem addOcc_wf (c : StageCfg) (s : StageSt) (n : Nat) (h : StageWF c s) : StageWF c { s with occ := s.occ + n } := by
  unfold StageWF at *
  cases hk : c.kind <;> simp only [hk] at h ⊢ <;> exact h

/-- feeding preserves the invariant (same unit index, extended history) -/
theorem DInv.feed {K : Kern α} {c : StageCfg} {s0 : StageSt} {x : DStage α} {hist : List α} {m : Nat}
    (h : DInv K c s0 x hist m) (xs : List α) : DInv K c s0 (x.feed xs) (hist ++ xs) m := by
  obtain ⟨cons, h1, h2, h3⟩ := h.cons
  refine ⟨h.cfg, ?_, ⟨cons, ?_, ?_, ?_⟩, UnitSem.stable_append _ xs h.stable, addOcc_wf c x.st _ h.wf⟩
  · simp [DStage.feed, h.occ]
  · simp [DStage.feed, h1, List.drop_append_of_le_length h2]
  · rw [List.length_append]; omega
  · unfold ctlRel at h3 ⊢
    unfold DStage.feed
    cases hk : c.kind <;> simp only [hk] at h3 ⊢ <;> exact h3

/-- running preserves the invariant and appends exactly the canonical outputs of the next units -/
theorem DInv.run {K : Kern α} {c : StageCfg} {s0 : StageSt} {x : DStage α} {hist : List α} {m : Nat}
    (h : DInv K c s0 x hist m) :
    ∃ m', m ≤ m' ∧ DInv K c s0 (x.run K).1 hist m' ∧
      (unitSem K c s0).G m' hist = (unitSem K c s0).G m hist ++ (x.run K).2 := by
  obtain ⟨cons, hfifo, hcons, hctl⟩ := h.cons
  have hocc := h.occ
  have hcfg := h.cfg
  have hwf := h.wf
  have hlen : x.fifo.length = hist.length - cons := by rw [hfifo]; simp
  have hwf' : StageWF c (stageFn c x.st).1 := stageFn_wf c x.st hwf
  have hle := stageFn_occ_le c x.st
  unfold ctlRel at hctl
  unfold StageWF at hwf
  cases hk : c.kind
  · -- half-band
    simp only [hk] at hctl hwf
    obtain ⟨hpp1, hpp2⟩ := hwf
    have hspec := halfFn_spec c x.st hpp1
    have hfn : stageFn c x.st = halfFn c x.st := by unfold stageFn; simp [hk]
    have h2no := half_two_no_le c x.st hpp1
    generalize hno : (numIn c x.st + 1) / 2 = no at *
    have hnum : numIn c x.st ≤ x.st.occ - c.prePost := by unfold numIn; exact Nat.min_le_left _ _
    refine ⟨m + no, by omega, ⟨?_, ?_, ⟨cons + 2 * no, ?_, ?_, ?_⟩, ?_, ?_⟩, ?_⟩
    · exact hcfg
    · simp only [DStage.run, hcfg, hfn, hspec.1, List.length_drop]; omega
    · simp only [DStage.run, hcfg, hfn, hspec.1, hfifo, List.drop_drop]
      congr 1; omega
    · omega
    · unfold ctlRel; simp only [hk]; omega
    · intro u hu
      by_cases hu' : u < m
      · exact h.stable u hu'
      · simp only [unitSem, hk]
        omega
    · simp only [DStage.run, hcfg]; exact hwf'
    · rw [UnitSem.G_add]
      congr 1
      simp only [DStage.run, hcfg, hfn, hspec.2, unitSem, hk]
      rw [flatMap_single]
      apply List.map_congr_left
      intro i _
      simp only [DStage.outAt, readSpec, hcfg, hk, UnitSem.window, hfifo, List.drop_drop]
      congr 3
      omega
  · -- clocked sampler
    simp only [hk] at hctl hwf
    obtain ⟨hden, hstep, hclk, hpp, hadv, htaps⟩ := hwf
    have hfn : stageFn c x.st = clockedFn c x.st := by unfold stageFn; simp [hk]
    by_cases hskip : (c.poly0 && numIn c x.st == 0) = true
    · -- nothing happens
      have e : clockedFn c x.st = (x.st, 0) := by simp [clockedFn, hskip]
      refine ⟨m, Nat.le_refl _, ⟨hcfg, ?_, ⟨cons, ?_, hcons, ?_⟩, h.stable, ?_⟩, ?_⟩
      · simp [DStage.run, hcfg, hfn, e, hocc]
      · simp [DStage.run, hcfg, hfn, e, hfifo]
      · unfold ctlRel; simp only [hk, DStage.run, hcfg, hfn, e]; exact hctl
      · simp only [DStage.run, hcfg, hfn, e]; unfold StageWF; simp only [hk]; exact ⟨hden, hstep, hclk, hpp, hadv, htaps⟩
      · simp [DStage.run, hcfg, hfn, e]
    · have hskip' : (c.poly0 && numIn c x.st == 0) = false := by simpa using hskip
      have hread := clocked_read_ok c x.st hden hstep hclk hadv
      generalize hn : numIn c x.st = n at *
      generalize hcnt : loopCount x.st.clk c.step (n * c.den) = cnt at *
      have e : clockedFn c x.st = (({ occ := x.st.occ - (x.st.clk + cnt * c.step) / c.den, clk := (x.st.clk + cnt * c.step) % c.den, remM := x.st.remM, isz := x.st.isz } : StageSt), cnt) := by
        simp only [clockedFn, hn, hskip', Bool.false_eq_true, if_false, hcnt, fifoRead_of_le hread]
      have hnum : n ≤ x.st.occ - c.prePost := by rw [← hn]; unfold numIn; exact Nat.min_le_left _ _
      -- outputs are produced only while the clock is below the limit
      have hbelow : ∀ j, j < cnt → x.st.clk + j * c.step < n * c.den := by
        intro j hj
        by_cases hlim : x.st.clk < n * c.den
        · obtain ⟨_, b, _⟩ := loopCount_spec (limit := n * c.den) hstep hlim
          rw [hcnt] at b
          have : (j + 1) * c.step ≤ cnt * c.step := Nat.mul_le_mul_right _ hj
          rw [Nat.add_mul] at this
          omega
        · rw [← hcnt, loopCount_zero (by omega)] at hj; omega
      have habs : ∀ j, s0.clk + (m + j) * c.step = x.st.clk + j * c.step + c.den * cons := by
        intro j; rw [Nat.add_mul, Nat.mul_comm c.den]; omega
      have hdm := Nat.div_add_mod (x.st.clk + cnt * c.step) c.den
      generalize hq : (x.st.clk + cnt * c.step) / c.den = q at *
      generalize hr : (x.st.clk + cnt * c.step) % c.den = r at *
      refine ⟨m + cnt, by omega, ⟨hcfg, ?_, ⟨cons + q, ?_, ?_, ?_⟩, ?_, ?_⟩, ?_⟩
      · simp only [DStage.run, hcfg, hfn, e, List.length_drop]; omega
      · simp only [DStage.run, hcfg, hfn, e, hfifo, List.drop_drop]
        congr 1; omega
      · omega
      · unfold ctlRel; simp only [hk, DStage.run, hcfg, hfn, e]
        rw [Nat.add_mul, Nat.add_mul, Nat.mul_comm q c.den]
        omega
      · intro u hu
        by_cases hu' : u < m
        · exact h.stable u hu'
        · obtain ⟨j, rfl⟩ : ∃ j, u = m + j := ⟨u - m, by omega⟩
          have hj : j < cnt := by omega
          simp only [unitSem, hk]
          rw [habs j, Nat.add_mul_div_left _ _ hden]
          have := (Nat.div_lt_iff_lt_mul hden).mpr (hbelow j hj)
          generalize (x.st.clk + j * c.step) / c.den = qq at this ⊢
          omega
      · simp only [DStage.run, hcfg]; exact hwf'
      · rw [UnitSem.G_add]
        congr 1
        simp only [DStage.run, hcfg, hfn, e, unitSem, hk]
        rw [flatMap_single]
        apply List.map_congr_left
        intro j _
        simp only [DStage.outAt, readSpec, hcfg, hk, UnitSem.window, hfifo, List.drop_drop]
        rw [habs j, Nat.add_mul_mod_self_left, Nat.add_mul_div_left _ _ hden]
        congr 3
        omega
  · -- dft block
    simp only [hk] at hctl hwf
    obtain ⟨hL, hT, hlenT, hclk, hbl, hisz, hok⟩ := hwf
    have hfn : stageFn c x.st = dftFn c x.st := by unfold stageFn; simp [hk]
    have hc1 : cons = (dctl c s0 m).1 := congrArg Prod.fst hctl
    have hc2 : x.st.clk = (dctl c s0 m).2.1 := congrArg (fun p => p.2.1) hctl
    have hc3 : x.st.remM = (dctl c s0 m).2.2 := congrArg (fun p => p.2.2) hctl
    by_cases hf : x.st.clk + c.L * x.st.occ ≥ c.dftLen
    · obtain ⟨q1, q2⟩ := dft_quot c x.st hL hclk hbl hf
      generalize hq : (c.dftLen - (c.numTaps - 1) + c.L - 1 - x.st.clk) / c.L = quot at *
      generalize hclk' : (if isPow2 c.L || c.L == 1 then x.st.clk else c.L - 1 - (c.dftLen - (c.numTaps - 1) + c.L - 1 - x.st.clk) % c.L) = clk' at *
      have e : dftFn c x.st = (({ occ := x.st.occ - quot, clk := clk', remM := (dftProduced c x.st.remM).2, isz := (c.dftLen - clk' + c.L - 1) / c.L } : StageSt), (dftProduced c x.st.remM).1) := by
        simp only [dftFn, hf, if_true, hq, hclk', fifoRead_of_le q2]
      have hctl' : dctl c s0 (m + 1) = (cons + quot, clk', (dftProduced c x.st.remM).2) := by
        simp only [dctl, ← hc1, ← hc2, ← hc3, hq, hclk']
      -- the block fires only when `input_size` frames are there
      have hiszle : x.st.isz ≤ x.st.occ := by
        rw [hisz]
        apply Nat.lt_succ_iff.mp
        apply (Nat.div_lt_iff_lt_mul hL).mpr
        rw [Nat.succ_mul, Nat.mul_comm x.st.occ]
        omega
      have hlenm : ((unitSem K c s0).len m) = x.st.isz := by
        simp only [unitSem, hk, ← hc2]; exact hisz.symm
      have hposm : ((unitSem K c s0).pos m) = cons := by
        simp only [unitSem, hk, ← hc1]
      refine ⟨m + 1, by omega, ⟨hcfg, ?_, ⟨cons + quot, ?_, ?_, ?_⟩, ?_, ?_⟩, ?_⟩
      · simp only [DStage.run, hcfg, hfn, e, List.length_drop]; omega
      · simp only [DStage.run, hcfg, hfn, e, hfifo, List.drop_drop]
        congr 1; omega
      · omega
      · unfold ctlRel; simp only [hk, DStage.run, hcfg, hfn, e]; exact hctl'.symm
      · intro u hu
        by_cases hu' : u < m
        · exact h.stable u hu'
        · have : u = m := by omega
          subst this
          rw [hlenm, hposm]; omega
      · simp only [DStage.run, hcfg]; exact hwf'
      · show (unitSem K c s0).G m hist ++ (unitSem K c s0).out m ((unitSem K c s0).window m hist) = _
        congr 1
        simp only [DStage.run, hcfg, hfn, e]
        simp only [UnitSem.window, hlenm, hposm]
        simp only [unitSem, hk, ← hc2, ← hc3]
        apply List.map_congr_left
        intro j _
        simp only [DStage.outAt, readSpec, hcfg, hk, hfifo, List.drop_zero]
    · -- not enough input for a block: only `input_size` is recomputed (to the value it already has)
      have e : dftFn c x.st = (x.st, 0) := by
        simp only [dftFn, hf, if_false, ← hisz]
      refine ⟨m, Nat.le_refl _, ⟨hcfg, ?_, ⟨cons, ?_, hcons, ?_⟩, h.stable, ?_⟩, ?_⟩
      · simp [DStage.run, hcfg, hfn, e, hocc]
      · simp [DStage.run, hcfg, hfn, e, hfifo]
      · unfold ctlRel; simp only [hk, DStage.run, hcfg, hfn, e, hc1, hc2, hc3]
      · simp only [DStage.run, hcfg, hfn, e]; unfold StageWF; simp only [hk]; exact ⟨hL, hT, hlenT, hclk, hbl, hisz, hok⟩
      · simp [DStage.run, hcfg, hfn, e]

end Soxr.Cr
