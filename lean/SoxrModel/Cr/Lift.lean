import SoxrModel.Cr.DataPipe
import SoxrModel.Cr.Stream
/-!
# Every count-level history is the shadow of a sample-level one

`Cr/DataPipe.lean` projects the engine on samples onto the count model call by call (`DEng.*_proj`).  Here the converse for
whole histories: any streaming history of the count model (`Streams`) from a state that is the projection of a sample-level
engine can be run on samples — feeding `n` frames of any value for `feed n` — and the sample-level run accepts and delivers
lists of exactly the counted lengths.  So what is proved about every sample-level run (`never_early_round`,
`hearly_every_run`) holds for every history of the count model, the model the per-call correspondence ties to the code.
-/
namespace Soxr.Cr

variable {α : Type}

def liftOps (z : α) : List StreamOp → List (DOp α)
  | [] => []
  | .feed n :: r => .feed (List.replicate n z) :: liftOps z r
  | .take n0 :: r => .take n0 :: liftOps z r

theorem streams_lift (K : Kern α) (z : α) (owed : Nat → Nat) : ∀ (ops : List StreamOp) (e : Eng) (N D : Nat) (e' : Eng) (d : DEng α),
    d.toEng = e → Streaming e → Streams e ops N D e' →
    ∃ F' D' d', DRuns K z owed d (liftOps z ops) F' D' d' ∧ F'.length = N ∧ D'.length = D ∧ d'.toEng = e' := by
  intro ops
  induction ops with
  | nil =>
    intro e N D e' d hd _ hs
    cases hs
    exact ⟨[], [], d, DRuns.nil d, rfl, rfl, hd⟩
  | cons op ops ih =>
    intro e N D e' d hd hstr hs
    cases hs with
    | feed _ n _ F _ _ hr =>
      have hfl : d.fl = false := by have := hstr.fl; rw [← hd] at this; exact this
      have hproj : (d.input (List.replicate n z)).toEng = e.input n := by
        rw [DEng.input_proj, hd, List.length_replicate]
      obtain ⟨h1, _⟩ := streaming_input hstr n
      obtain ⟨F', D', d', hrun, hF, hD, hd'⟩ := ih _ _ _ _ _ hproj h1 hr
      refine ⟨List.replicate n z ++ F', D', d', ?_, by simp [hF], hD, hd'⟩
      have := DRuns.feed (K := K) (z := z) (owed := owed) d (List.replicate n z) (liftOps z ops) F' D' d' hrun
      rw [hfl] at this
      simpa [liftOps] using this
    | take _ n0 fuel e1 _ _ D0 _ hp hr =>
      have hpp := DEng.process_proj K z fuel d n0
      rw [hd, hp] at hpp
      cases hdp : d.process K z fuel n0 with
      | none => rw [hdp] at hpp; simp at hpp
      | some d1 =>
        rw [hdp] at hpp
        simp only [Option.map_some, Option.some.injEq] at hpp
        obtain ⟨h1, _, _⟩ := streaming_process hstr n0 fuel hp
        obtain ⟨h2, _, onn, _, _⟩ := streaming_output h1 n0
        obtain ⟨o1, o2⟩ := DEng.output_proj d1 n0
        rw [hpp] at o1 o2
        obtain ⟨F', D', d', hrun, hF, hD, hd'⟩ := ih _ _ _ _ _ o1 h2 hr
        refine ⟨F', (d1.output n0).2 ++ D', d', ?_, hF, ?_, hd'⟩
        · have := DRuns.take (K := K) (z := z) (owed := owed) d n0 fuel d1 (liftOps z ops) F' D' d' hdp hrun
          simpa [liftOps] using this
        · rw [List.length_append, hD]
          have : ((d1.output n0).2.length : Int) = (e1.output n0).2 := by rw [o2]; omega
          omega

end Soxr.Cr
