import SoxrModel.Basic
/-!
# Canonical output of a stage as a function of its input history

A stage's work decomposes into *units* (one output frame for the half-band and clocked kinds, one block for the dft
kind).  Unit `u` reads the window `[pos u, pos u + len u)` of the stage's input history — positions, lengths and phase
tags depend on `u` and the plan only, never on sample values or on how calls were sized — and yields `out u window`.
`G m h` is the output of the first `m` units on history `h`; `Stable m h` says their windows lie inside `h`.
The three laws at the end are all that the schedule-invariance argument needs from a stage.
-/
namespace Soxr.Cr

structure UnitSem (α : Type) where
  pos : Nat → Nat
  len : Nat → Nat
  out : Nat → List α → List α

variable {α : Type}

def UnitSem.window (U : UnitSem α) (u : Nat) (h : List α) : List α := (h.drop (U.pos u)).take (U.len u)

/-- output of the first `m` units -/
def UnitSem.G (U : UnitSem α) : Nat → List α → List α
  | 0, _ => []
  | m+1, h => U.G m h ++ U.out m (U.window m h)

/-- the windows of the first `m` units lie inside the history -/
def UnitSem.Stable (U : UnitSem α) (m : Nat) (h : List α) : Prop := ∀ u, u < m → U.pos u + U.len u ≤ h.length

theorem UnitSem.window_append (U : UnitSem α) (u : Nat) (h more : List α) (hs : U.pos u + U.len u ≤ h.length) :
    U.window u (h ++ more) = U.window u h := by
  unfold UnitSem.window
  rw [List.drop_append_of_le_length (by omega)]
  rw [List.take_append_of_le_length (by simp; omega)]

/-- (a) stability is downward closed in the number of units -/
theorem UnitSem.stable_mono (U : UnitSem α) {m m' : Nat} {h : List α} (hm : m' ≤ m) (hs : U.Stable m h) : U.Stable m' h :=
  fun u hu => hs u (by omega)

/-- (b) extending the history changes nothing that was stable -/
theorem UnitSem.stable_append (U : UnitSem α) {m : Nat} {h : List α} (more : List α) (hs : U.Stable m h) :
    U.Stable m (h ++ more) := by
  intro u hu; have := hs u hu; rw [List.length_append]; omega

theorem UnitSem.G_append (U : UnitSem α) : ∀ (m : Nat) (h more : List α), U.Stable m h → U.G m (h ++ more) = U.G m h := by
  intro m
  induction m with
  | zero => intro h more _; rfl
  | succ m ih =>
    intro h more hs
    simp only [UnitSem.G]
    rw [ih h more (U.stable_mono (Nat.le_succ m) hs), U.window_append m h more (hs m (Nat.lt_succ_self m))]

/-- (c) more units only append -/
theorem UnitSem.G_prefix (U : UnitSem α) (h : List α) : ∀ (m m' : Nat), m ≤ m' → U.G m h <+: U.G m' h := by
  intro m m' hle
  induction m' with
  | zero => have : m = 0 := by omega
            subst this; exact List.prefix_refl _
  | succ k ih =>
    rcases Nat.lt_or_ge m (k + 1) with hlt | hge
    · have := ih (by omega)
      simp only [UnitSem.G]
      exact List.IsPrefix.trans this (List.prefix_append _ _)
    · have : m = k + 1 := by omega
      subst this; exact List.prefix_refl _

/-- two lists are prefix-comparable -/
def Comparable (a b : List α) : Prop := a <+: b ∨ b <+: a

theorem Comparable.symm {a b : List α} (h : Comparable a b) : Comparable b a := h.elim Or.inr Or.inl

theorem Comparable.refl (a : List α) : Comparable a a := Or.inl (List.prefix_refl a)

/-- **Key lemma.**  Outputs computed from prefix-comparable histories are prefix-comparable, whatever numbers of
    units were run on each. -/
theorem UnitSem.G_comparable (U : UnitSem α) {m1 m2 : Nat} {h1 h2 : List α} (hc : Comparable h1 h2)
    (s1 : U.Stable m1 h1) (s2 : U.Stable m2 h2) : Comparable (U.G m1 h1) (U.G m2 h2) := by
  -- symmetric in (1,2): assume m1 ≤ m2
  have key : ∀ {m1 m2 : Nat} {h1 h2 : List α}, m1 ≤ m2 → Comparable h1 h2 → U.Stable m1 h1 → U.Stable m2 h2 →
      U.G m1 h1 <+: U.G m2 h2 := by
    intro m1 m2 h1 h2 hle hc s1 s2
    have e : U.G m1 h1 = U.G m1 h2 := by
      rcases hc with ⟨t, ht⟩ | ⟨t, ht⟩
      · rw [← ht, U.G_append m1 h1 t s1]
      · rw [← ht, U.G_append m1 h2 t (U.stable_mono hle s2)]
    rw [e]
    exact U.G_prefix h2 m1 m2 hle
  rcases Nat.le_total m1 m2 with hle | hle
  · exact Or.inl (key hle hc s1 s2)
  · exact Or.inr (key hle hc.symm s2 s1)

theorem comparable_append_left (z : List α) {a b : List α} (h : Comparable a b) : Comparable (z ++ a) (z ++ b) := by
  rcases h with ⟨t, ht⟩ | ⟨t, ht⟩
  · exact Or.inl ⟨t, by rw [← ht, List.append_assoc]⟩
  · exact Or.inr ⟨t, by rw [← ht, List.append_assoc]⟩

theorem comparable_take {a b : List α} (h : Comparable a b) (n k : Nat) : Comparable (a.take n) (b.take k) := by
  rcases h with hab | hba
  · exact List.prefix_or_prefix_of_prefix (List.IsPrefix.trans (List.take_prefix n a) hab) (List.take_prefix k b)
  · exact List.prefix_or_prefix_of_prefix (List.take_prefix n a) (List.IsPrefix.trans (List.take_prefix k b) hba)

/-- comparable lists of equal length are equal -/
theorem Comparable.eq_of_length {a b : List α} (h : Comparable a b) (hl : a.length = b.length) : a = b := by
  rcases h with h | h
  · exact List.IsPrefix.eq_of_length h hl
  · exact (List.IsPrefix.eq_of_length h hl.symm).symm

end Soxr.Cr
