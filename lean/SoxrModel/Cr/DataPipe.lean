import SoxrModel.Cr.Data
/-!
# Data level of the whole engine: `stage_process`, `_soxr_process/_input/_output/_flush` on sample lists

Same control flow as the count model (`Cr/Model.lean`) — the projection lemmas `dsp_proj`, `dprocLoop_proj`,
`DEng.*_proj` show that forgetting the samples gives exactly `sp`, `procLoop`, `Eng.input/output/flush`, so the per-call
correspondence that ties the count model to `/repo` ties this one too — with an **arbitrary** kernel `K` and an
arbitrary sample type.

`PInv` is the pipeline invariant: stage `i`'s input history is its zero preload followed by everything stage `i-1`
has produced so far, and each stage satisfies `DInv`.  The canonical stream `src` the pipeline has produced is then
a function of the bottom input history alone (`PInv_comparable`).
-/
namespace Soxr.Cr

variable {α : Type}

/-- a plan: every stage's configuration and *initial* integers, output side first -/
abbrev Plan := List (StageCfg × StageSt)

def DStage.toStage (x : DStage α) : Stage := { cfg := x.cfg, st := x.st }
def DStage.short (x : DStage α) : Bool := x.st.occ < x.st.isz

/-- `stage_process` on samples (`z` is the zero sample that flushing pads with) -/
def dsp (K : Kern α) (z : α) (flushing : Bool) : Nat → List (DStage α) → Bool → Option (List (DStage α) × List α × Bool)
  | 0, _, _ => none
  | _, [], _ => none
  | fuel+1, x :: below, done =>
    if !done && x.short then
      match below with
      | [] =>
        if flushing then dsp K z flushing fuel [x.feed (List.replicate (x.st.isz - x.st.occ) z)] false
        else dsp K z flushing fuel [x] true
      | _ :: _ =>
        match dsp K z flushing fuel below false with
        | none => none
        | some (below', prod, d) => dsp K z flushing fuel (x.feed prod :: below') d
    else
      let r := x.run K
      some (r.1 :: below, r.2, done && r.1.short)

def projRes (r : List (DStage α) × List α × Bool) : List Stage × Nat × Bool :=
  (r.1.map DStage.toStage, r.2.1.length, r.2.2)

theorem DStage.feed_toStage (x : DStage α) (xs : List α) : (x.feed xs).toStage = x.toStage.addOcc xs.length := rfl

theorem DStage.run_toStage (K : Kern α) (x : DStage α) :
    (x.run K).1.toStage = x.toStage.run.1 ∧ (x.run K).2.length = x.toStage.run.2 := by
  refine ⟨rfl, ?_⟩
  simp [DStage.run, Stage.run, DStage.toStage]

/-- **forgetting the samples gives the count model's `stage_process`** -/
theorem dsp_proj (K : Kern α) (z : α) (fl : Bool) : ∀ (fuel : Nat) (l : List (DStage α)) (done : Bool),
    (dsp K z fl fuel l done).map projRes = sp fl fuel (l.map DStage.toStage) done := by
  intro fuel
  induction fuel with
  | zero => intro l done; simp [dsp, sp]
  | succ f ih =>
    intro l done
    match l with
    | [] => simp [dsp, sp]
    | x :: below =>
      unfold dsp sp
      simp only [List.map_cons]
      have hshort : x.toStage.short = x.short := rfl
      rw [hshort]
      split
      · match below with
        | [] =>
          simp only [List.map_nil]
          cases fl
          · simp only [Bool.false_eq_true, if_false]
            exact ih [x] true
          · simp only [if_true]
            have := ih [x.feed (List.replicate (x.st.isz - x.st.occ) z)] false
            simp only [List.map_cons, List.map_nil, DStage.feed_toStage, List.length_replicate] at this
            exact this
        | y :: rest =>
          simp only [List.map_cons]
          have h1 := ih (y :: rest) false
          simp only [List.map_cons] at h1
          cases hcal : dsp K z fl f (y :: rest) false with
          | none =>
            rw [hcal] at h1
            simp only [Option.map_none] at h1
            rw [← h1]; simp
          | some v =>
            obtain ⟨below', prod, d⟩ := v
            rw [hcal] at h1
            simp only [Option.map_some, projRes] at h1
            rw [← h1]
            simp only
            have h2 := ih (x.feed prod :: below') d
            simp only [List.map_cons, DStage.feed_toStage] at h2
            exact h2
      · simp only [Option.map_some, projRes, List.map_cons]
        obtain ⟨r1, r2⟩ := DStage.run_toStage K x
        rw [r1, r2]
        rfl

/-! ## the pipeline invariant -/

inductive PInv (K : Kern α) (z : α) : Plan → List (DStage α) → List α → List α → Prop
  | nil (inp : List α) : PInv K z [] [] inp inp
  | cons {ps : Plan} {below : List (DStage α)} {inp s : List α} (c : StageCfg) (s0 : StageSt) (x : DStage α) (m : Nat) :
      PInv K z ps below inp s → DInv K c s0 x (List.replicate s0.occ z ++ s) m →
      PInv K z ((c, s0) :: ps) (x :: below) inp ((unitSem K c s0).G m (List.replicate s0.occ z ++ s))

/-- zero padding appended by flushing (none while streaming) -/
def IsPad (z : α) (fl : Bool) (pad : List α) : Prop := (∃ k, pad = List.replicate k z) ∧ (fl = false → pad = [])

theorem IsPad.nil (z : α) (fl : Bool) : IsPad z fl [] := ⟨⟨0, rfl⟩, fun _ => rfl⟩

theorem IsPad.append {z : α} {p q : List α} (hp : IsPad z true p) (hq : IsPad z true q) : IsPad z true (p ++ q) := by
  obtain ⟨⟨k, rfl⟩, _⟩ := hp
  obtain ⟨⟨j, rfl⟩, _⟩ := hq
  exact ⟨⟨k + j, by simp [List.replicate_append_replicate]⟩, by intro h; cases h⟩

/-- extending a stage's history beyond what its first `m` units read changes nothing of their output -/
theorem DInv.G_feed {K : Kern α} {c : StageCfg} {s0 : StageSt} {x : DStage α} {hist : List α} {m : Nat}
    (h : DInv K c s0 x hist m) (xs : List α) : (unitSem K c s0).G m (hist ++ xs) = (unitSem K c s0).G m hist :=
  UnitSem.G_append _ m hist xs h.stable

/-- **`stage_process` preserves the pipeline invariant** and returns exactly the next piece of the canonical stream;
    when flushing the bottom history may have been extended by zeros. -/
theorem dsp_inv (K : Kern α) (z : α) (fl : Bool) : ∀ (fuel : Nat) (plan : Plan) (l : List (DStage α)) (done : Bool)
    (inp src : List α) (l' : List (DStage α)) (outs : List α) (d : Bool),
    PInv K z plan l inp src → dsp K z fl fuel l done = some (l', outs, d) →
    ∃ pad, IsPad z fl pad ∧ PInv K z plan l' (inp ++ pad) (src ++ outs) := by
  intro fuel
  induction fuel with
  | zero => intro plan l done inp src l' outs d _ h; simp [dsp] at h
  | succ f ih =>
    intro plan l done inp src l' outs d hinv h
    cases hinv with
    | nil => simp [dsp] at h
    | @cons ps below _ s c s0 x m hb hx =>
      unfold dsp at h
      split at h
      · -- the stage is short of input
        match below, hb with
        | [], hb =>
          cases hb
          simp only at h
          cases fl
          · simp only [Bool.false_eq_true, if_false] at h
            exact ih _ _ _ _ _ _ _ _ (PInv.cons c s0 x m (PInv.nil _) hx) h
          · simp only [if_true] at h
            generalize hzs : List.replicate (x.st.isz - x.st.occ) z = zs at h
            have hx' := hx.feed zs
            rw [List.append_assoc] at hx'
            have hG := hx.G_feed zs
            rw [List.append_assoc] at hG
            have hp := PInv.cons c s0 (x.feed zs) m (PInv.nil (inp ++ zs)) hx'
            rw [hG] at hp
            obtain ⟨pad, hpad, hfin⟩ := ih _ _ _ _ _ _ _ _ hp h
            refine ⟨zs ++ pad, IsPad.append ⟨⟨_, hzs.symm⟩, by intro h; cases h⟩ hpad, ?_⟩
            rw [← List.append_assoc]; exact hfin
        | y :: rest, hb =>
          simp only at h
          cases hcal : dsp K z fl f (y :: rest) false with
          | none => simp [hcal] at h
          | some v =>
            obtain ⟨below', prod, d1⟩ := v
            rw [hcal] at h
            simp only at h
            obtain ⟨pad1, hpad1, hb'⟩ := ih _ _ _ _ _ _ _ _ hb hcal
            have hx' := hx.feed prod
            rw [List.append_assoc] at hx'
            have hG := hx.G_feed prod
            rw [List.append_assoc] at hG
            have hp := PInv.cons c s0 (x.feed prod) m hb' hx'
            rw [hG] at hp
            obtain ⟨pad2, hpad2, hfin⟩ := ih _ _ _ _ _ _ _ _ hp h
            refine ⟨pad1 ++ pad2, ?_, ?_⟩
            · cases fl
              · rw [hpad1.2 rfl, hpad2.2 rfl]; exact IsPad.nil z false
              · exact IsPad.append hpad1 hpad2
            · rw [← List.append_assoc]; exact hfin
      · -- the stage function runs
        simp only at h
        injection h with h
        injection h with h1 h
        injection h with h2 h3
        subst h1; subst h2
        obtain ⟨m', _, hx', hG⟩ := hx.run
        refine ⟨[], IsPad.nil z fl, ?_⟩
        rw [List.append_nil, ← hG]
        exact PInv.cons c s0 _ m' hb hx'

/-- **The canonical stream is a function of the bottom history**: two states of the same plan whose bottom histories
    are prefix-comparable have prefix-comparable canonical streams — however far each has run. -/
theorem PInv_comparable (K : Kern α) (z : α) : ∀ (plan : Plan) (l1 l2 : List (DStage α)) (i1 i2 s1 s2 : List α),
    PInv K z plan l1 i1 s1 → PInv K z plan l2 i2 s2 → Comparable i1 i2 → Comparable s1 s2 := by
  intro plan l1 l2 i1 i2 s1 s2 h1
  induction h1 generalizing l2 i2 s2 with
  | nil inp => intro h2 hc; cases h2; exact hc
  | cons c s0 x m hb hx ih =>
    intro h2 hc
    cases h2 with
    | cons _ _ x2 m2 hb2 hx2 =>
      have hs := ih _ _ _ hb2 hc
      exact UnitSem.G_comparable _ (comparable_append_left _ hs) hx.stable hx2.stable

/-! ## the engine -/

structure DEng (α : Type) where
  stages : List (DStage α)
  out : List α := []          -- contents of the FIFO after the last stage
  sin : Nat := 0
  sout : Int := 0
  fl : Bool := false

def DEng.toEng (e : DEng α) : Eng :=
  { stages := e.stages.map DStage.toStage, outOcc := e.out.length, sin := e.sin, sout := e.sout, fl := e.fl }

/-- loop of `_soxr_process` on samples -/
def dprocLoop (K : Kern α) (z : α) (fuel : Nat) : Nat → DEng α → Int → Bool → Option (DEng α)
  | 0, _, _, _ => none
  | k+1, e, n, done =>
    if !done && (e.out.length : Int) < n then
      match e.stages with
      | [] => dprocLoop K z fuel k e n true
      | _ :: _ =>
        match dsp K z e.fl fuel e.stages false with
        | none => none
        | some (st', prod, d) => dprocLoop K z fuel k { e with stages := st', out := e.out ++ prod } n d
    else some e

def DEng.target (e : DEng α) (olen : Nat) : Int := if e.fl then min (-e.sout) olen else olen

def DEng.process (K : Kern α) (z : α) (fuel : Nat) (e : DEng α) (olen : Nat) : Option (DEng α) :=
  dprocLoop K z fuel fuel e (e.target olen) false

def dAddFirst : List (DStage α) → List α → List (DStage α)
  | [], _ => []
  | [x], xs => [x.feed xs]
  | x :: y :: r, xs => x :: dAddFirst (y :: r) xs

def DEng.input (e : DEng α) (xs : List α) : DEng α :=
  if e.fl then e else
  match e.stages with
  | [] => { e with sin := e.sin + xs.length, out := e.out ++ xs }
  | _ => { e with sin := e.sin + xs.length, stages := dAddFirst e.stages xs }

def DEng.output (e : DEng α) (n0 : Nat) : DEng α × List α :=
  let n := min (e.target n0) e.out.length
  ({ e with sout := e.sout + n, out := e.out.drop n.toNat }, e.out.take n.toNat)

def DEng.flush (owed : Nat → Nat) (e : DEng α) : DEng α :=
  if e.fl then e else { e with sout := e.sout - owed e.sin, sin := 0, fl := true }

/-! ### projections to the count model -/

theorem dprocLoop_proj (K : Kern α) (z : α) (fuel : Nat) : ∀ (k : Nat) (e : DEng α) (n : Int) (done : Bool),
    (dprocLoop K z fuel k e n done).map DEng.toEng = procLoop fuel k e.toEng n done := by
  intro k
  induction k with
  | zero => intro e n done; simp [dprocLoop, procLoop]
  | succ k ih =>
    intro e n done
    unfold dprocLoop procLoop
    have hocc : e.toEng.outOcc = e.out.length := rfl
    rw [hocc]
    split
    · cases hs : e.stages with
      | nil =>
        have : e.toEng.stages = [] := by simp [DEng.toEng, hs]
        simp only [this]
        exact ih e n true
      | cons y rest =>
        have hst : e.toEng.stages = (y :: rest).map DStage.toStage := by simp [DEng.toEng, hs]
        have hfl : e.toEng.fl = e.fl := rfl
        simp only [hst, List.map_cons, hfl]
        have hp := dsp_proj K z e.fl fuel (y :: rest) false
        simp only [List.map_cons] at hp
        cases hcal : dsp K z e.fl fuel (y :: rest) false with
        | none =>
          rw [hcal] at hp
          simp only [Option.map_none] at hp
          rw [← hp]; simp
        | some v =>
          obtain ⟨st', prod, d⟩ := v
          rw [hcal] at hp
          simp only [Option.map_some, projRes] at hp
          rw [← hp]
          simp only
          have := ih { e with stages := st', out := e.out ++ prod } n d
          simp only [DEng.toEng, List.length_append] at this ⊢
          exact this
    · rfl

theorem DEng.process_proj (K : Kern α) (z : α) (fuel : Nat) (e : DEng α) (olen : Nat) :
    (e.process K z fuel olen).map DEng.toEng = e.toEng.process fuel olen :=
  dprocLoop_proj K z fuel fuel e _ false

theorem dAddFirst_proj : ∀ (l : List (DStage α)) (xs : List α),
    (dAddFirst l xs).map DStage.toStage = addFirst (l.map DStage.toStage) xs.length := by
  intro l
  induction l with
  | nil => intro xs; rfl
  | cons x r ih =>
    intro xs
    match r, ih with
    | [], _ => rfl
    | y :: t, ih =>
      simp only [dAddFirst, List.map_cons, addFirst]
      have := ih xs
      simp only [List.map_cons] at this
      rw [this]

theorem DEng.input_proj (e : DEng α) (xs : List α) : (e.input xs).toEng = e.toEng.input xs.length := by
  unfold DEng.input Eng.input
  have hfl : e.toEng.fl = e.fl := rfl
  rw [hfl]
  split
  · rfl
  · cases hs : e.stages with
    | nil => simp [DEng.toEng, hs]
    | cons y r =>
      have := dAddFirst_proj (y :: r) xs
      simp only [DEng.toEng, hs, List.map_cons] at this ⊢
      rw [this]

theorem DEng.flush_proj (owed : Nat → Nat) (e : DEng α) : (e.flush owed).toEng = e.toEng.flush owed := by
  unfold DEng.flush Eng.flush
  have hfl : e.toEng.fl = e.fl := rfl
  rw [hfl]
  split <;> rfl

theorem DEng.output_proj (e : DEng α) (n0 : Nat) :
    (e.output n0).1.toEng = (e.toEng.output n0).1 ∧ ((e.output n0).2.length : Int) = max 0 (e.toEng.output n0).2 := by
  have ht : e.toEng.target n0 = e.target n0 := rfl
  have ho : e.toEng.outOcc = e.out.length := rfl
  unfold DEng.output Eng.output
  simp only [ht, ho]
  generalize hn : min (e.target n0) (e.out.length : Int) = n
  have hle : n.toNat ≤ e.out.length := by omega
  refine ⟨?_, ?_⟩
  · simp only [DEng.toEng, List.length_drop, fifoRead_of_le hle]
  · simp only [List.length_take]; omega

/-! ## runs -/

inductive DOp (α : Type) | feed (xs : List α) | flush | take (n0 : Nat)

/-- `DRuns e ops fed delivered e'`: running `ops` from `e` accepts the samples `fed` (input offered after
    end-of-input is ignored, as in the engine), delivers `delivered`, ends in `e'` -/
inductive DRuns (K : Kern α) (z : α) (owed : Nat → Nat) : DEng α → List (DOp α) → List α → List α → DEng α → Prop
  | nil (e : DEng α) : DRuns K z owed e [] [] [] e
  | feed (e : DEng α) (xs : List α) (ops : List (DOp α)) (F D : List α) (e' : DEng α) :
      DRuns K z owed (e.input xs) ops F D e' →
      DRuns K z owed e (.feed xs :: ops) ((if e.fl then [] else xs) ++ F) D e'
  | flush (e : DEng α) (ops : List (DOp α)) (F D : List α) (e' : DEng α) :
      DRuns K z owed (e.flush owed) ops F D e' → DRuns K z owed e (.flush :: ops) F D e'
  | take (e : DEng α) (n0 fuel : Nat) (e1 : DEng α) (ops : List (DOp α)) (F D : List α) (e' : DEng α) :
      e.process K z fuel n0 = some e1 → DRuns K z owed (e1.output n0).1 ops F D e' →
      DRuns K z owed e (.take n0 :: ops) F ((e1.output n0).2 ++ D) e'

/-- the engine invariant: what has been delivered plus what waits in the output FIFO is the canonical stream of the
    input accepted so far (followed by zeros once flushing) -/
def EInv (K : Kern α) (z : α) (plan : Plan) (e : DEng α) (fed delivered : List α) : Prop :=
  ∃ pad src, IsPad z e.fl pad ∧ PInv K z plan e.stages (fed ++ pad) src ∧ delivered ++ e.out = src

theorem PInv.feedBottom {K : Kern α} {z : α} : ∀ {plan : Plan} {l : List (DStage α)} {inp src : List α} (xs : List α),
    PInv K z plan l inp src → l ≠ [] → PInv K z plan (dAddFirst l xs) (inp ++ xs) src := by
  intro plan l inp src xs h
  induction h with
  | nil inp => intro hne; exact absurd rfl hne
  | @cons ps below inp s c s0 x m hb hx ih =>
    intro _
    match below, hb, ih with
    | [], hb, _ =>
      cases hb
      simp only [dAddFirst]
      have hx' := hx.feed xs
      rw [List.append_assoc] at hx'
      have hG := hx.G_feed xs
      rw [List.append_assoc] at hG
      have hp := PInv.cons c s0 (x.feed xs) m (PInv.nil (inp ++ xs)) hx'
      rw [hG] at hp
      exact hp
    | y :: t, hb, ih =>
      simp only [dAddFirst]
      exact PInv.cons c s0 x m (ih (by simp)) hx

theorem PInv.stages_nil {K : Kern α} {z : α} {plan : Plan} {inp src : List α} (h : PInv K z plan [] inp src) :
    plan = [] ∧ src = inp := by
  cases h; exact ⟨rfl, rfl⟩

theorem einv_input {K : Kern α} {z : α} {plan : Plan} {e : DEng α} {fed del : List α} (h : EInv K z plan e fed del)
    (xs : List α) : EInv K z plan (e.input xs) (fed ++ (if e.fl then [] else xs)) del := by
  obtain ⟨pad, src, hpad, hp, hsrc⟩ := h
  unfold DEng.input
  cases hfl : e.fl
  · simp only [Bool.false_eq_true, if_false]
    have hpad0 : pad = [] := hpad.2 hfl
    subst hpad0
    rw [List.append_nil] at hp
    cases hs : e.stages with
    | nil =>
      rw [hs] at hp
      obtain ⟨hpl, hsi⟩ := hp.stages_nil
      refine ⟨[], fed ++ xs, IsPad.nil z _, ?_, ?_⟩
      · simp only [List.append_nil, hpl]; exact PInv.nil _
      · simp only [← List.append_assoc, hsrc, hsi]
    | cons y r =>
      refine ⟨[], src, IsPad.nil z _, ?_, hsrc⟩
      simp only [List.append_nil]
      have := PInv.feedBottom xs hp (by rw [hs]; simp)
      rw [hs] at this
      exact this
  · simp only [if_true, List.append_nil]
    exact ⟨pad, src, hpad, hp, hsrc⟩

theorem einv_flush {K : Kern α} {z : α} {plan : Plan} {e : DEng α} {fed del : List α} (h : EInv K z plan e fed del)
    (owed : Nat → Nat) : EInv K z plan (e.flush owed) fed del := by
  obtain ⟨pad, src, hpad, hp, hsrc⟩ := h
  unfold DEng.flush
  cases hfl : e.fl
  · simp only [Bool.false_eq_true, if_false]
    have hpad0 : pad = [] := hpad.2 hfl
    subst hpad0
    exact ⟨[], src, IsPad.nil z _, hp, hsrc⟩
  · simp only [if_true]
    exact ⟨pad, src, hpad, hp, hsrc⟩

theorem einv_procLoop {K : Kern α} {z : α} {plan : Plan} (fuel : Nat) : ∀ (k : Nat) (e : DEng α) (n : Int) (done : Bool)
    (e' : DEng α) (fed del : List α), EInv K z plan e fed del → dprocLoop K z fuel k e n done = some e' →
    EInv K z plan e' fed del ∧ e'.fl = e.fl ∧ e'.sin = e.sin ∧ e'.sout = e.sout := by
  intro k
  induction k with
  | zero => intro e n done e' fed del _ h; simp [dprocLoop] at h
  | succ k ih =>
    intro e n done e' fed del hinv h
    unfold dprocLoop at h
    split at h
    · revert h
      cases hs : e.stages with
      | nil => intro h; exact ih _ _ _ _ _ _ hinv h
      | cons y r =>
        intro h
        simp only at h
        cases hcal : dsp K z e.fl fuel (y :: r) false with
        | none => simp [hcal] at h
        | some v =>
          obtain ⟨st', prod, d⟩ := v
          rw [hcal] at h
          simp only at h
          obtain ⟨pad, src, hpad, hp, hsrc⟩ := hinv
          rw [hs] at hp
          obtain ⟨pad2, hpad2, hp2⟩ := dsp_inv K z e.fl fuel plan _ _ _ _ _ _ _ hp hcal
          have hinv' : EInv K z plan { e with stages := st', out := e.out ++ prod } fed del := by
            refine ⟨pad ++ pad2, src ++ prod, ?_, ?_, ?_⟩
            · show IsPad z e.fl (pad ++ pad2)
              cases hfl : e.fl
              · rw [hfl] at hpad hpad2
                rw [hpad.2 rfl, hpad2.2 rfl]; exact IsPad.nil z false
              · rw [hfl] at hpad hpad2
                exact IsPad.append hpad hpad2
            · rw [← List.append_assoc]; exact hp2
            · simp only [← List.append_assoc, hsrc]
          obtain ⟨g1, g2, g3, g4⟩ := ih _ _ _ _ _ _ hinv' h
          exact ⟨g1, g2, g3, g4⟩
    · injection h with h
      subst h
      exact ⟨hinv, rfl, rfl, rfl⟩

theorem einv_output {K : Kern α} {z : α} {plan : Plan} {e : DEng α} {fed del : List α} (h : EInv K z plan e fed del)
    (n0 : Nat) : EInv K z plan (e.output n0).1 fed (del ++ (e.output n0).2) := by
  obtain ⟨pad, src, hpad, hp, hsrc⟩ := h
  refine ⟨pad, src, hpad, hp, ?_⟩
  simp only [DEng.output, List.append_assoc, List.take_append_drop]
  exact hsrc

/-- **Prefix consistency (engine law E3) for every run.** -/
theorem druns_inv (K : Kern α) (z : α) (owed : Nat → Nat) (plan : Plan) : ∀ (ops : List (DOp α)) (e e' : DEng α)
    (fed del F D : List α), EInv K z plan e fed del → DRuns K z owed e ops F D e' → EInv K z plan e' (fed ++ F) (del ++ D) := by
  intro ops
  induction ops with
  | nil => intro e e' fed del F D h hr; cases hr; simpa using h
  | cons op ops ih =>
    intro e e' fed del F D h hr
    cases hr with
    | feed _ xs _ F' _ _ hr' =>
      have := ih _ _ _ _ _ _ (einv_input h xs) hr'
      rw [List.append_assoc] at this
      exact this
    | flush _ _ _ _ _ hr' => exact ih _ _ _ _ _ _ (einv_flush h owed) hr'
    | take _ n0 fuel e1 _ _ D' _ hp hr' =>
      obtain ⟨h1, _, _, _⟩ := einv_procLoop fuel fuel e _ false e1 fed del h hp
      have := ih _ _ _ _ _ _ (einv_output h1 n0) hr'
      rw [List.append_assoc] at this
      exact this

end Soxr.Cr
