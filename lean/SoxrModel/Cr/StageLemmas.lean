import SoxrModel.Cr.Wf
/-!
# Per-stage facts: what one invocation of a stage function does to the integers, for every state

For each kind (half-band, clocked sampler, dft block) and every well-formed state:
* `stageFn_occ_le`   it never consumes more than the FIFO holds;
* `stageFn_wf`       well-formedness is preserved (so it is an invariant of every execution);
* `stageFn_live`     with at least `input_size` frames in the FIFO it consumes ≥ 1 frame and yields ≥ 1 frame;
* `stageFn_gain`     it yields at most `gain` frames per frame consumed;
* `stageFn_read_ok`  the `fifo_read` that follows the kernel loop succeeds (the clock is never silently reset).
-/
namespace Soxr.Cr

theorem ceilDiv_le_iff {a b k : Nat} (hb : 0 < b) : ceilDiv a b ≤ k ↔ a ≤ k * b := by
  unfold ceilDiv
  constructor
  · intro h
    have h1 := Nat.lt_div_mul_add (a := a + b - 1) hb
    have h2 : (a + b - 1) / b * b ≤ k * b := Nat.mul_le_mul_right b h
    omega
  · intro h
    have : a + b - 1 < (k + 1) * b := by rw [Nat.add_mul]; omega
    have := (Nat.div_lt_iff_lt_mul hb).mpr this
    omega

theorem le_ceilDiv_mul {a b : Nat} (hb : 0 < b) : a ≤ ceilDiv a b * b :=
  (ceilDiv_le_iff hb).mp (Nat.le_refl _)

theorem ceilDiv_mul_lt {a b : Nat} (hb : 0 < b) (ha : 0 < a) : ceilDiv a b * b < a + b := by
  unfold ceilDiv
  have := Nat.div_mul_le_self (a + b - 1) b
  omega

theorem ceilDiv_pos {a b : Nat} (hb : 0 < b) (ha : 0 < a) : 0 < ceilDiv a b := by
  have := le_ceilDiv_mul (a := a) hb
  rcases Nat.eq_zero_or_pos (ceilDiv a b) with h | h
  · rw [h] at this; omega
  · exact h

/-- after the loop `for (; pos < limit; pos += step)` the position is at or beyond the limit, by less than one step -/
theorem loopCount_spec {pos step limit : Nat} (hs : 0 < step) (h : pos < limit) :
    limit ≤ pos + loopCount pos step limit * step ∧ pos + loopCount pos step limit * step < limit + step ∧
    1 ≤ loopCount pos step limit := by
  unfold loopCount
  simp only [h, if_true]
  have h1 := le_ceilDiv_mul (a := limit - pos) hs
  have h2 := ceilDiv_mul_lt (a := limit - pos) hs (by omega)
  have h3 := ceilDiv_pos (a := limit - pos) hs (by omega)
  omega

theorem loopCount_zero {pos step limit : Nat} (h : limit ≤ pos) : loopCount pos step limit = 0 := by
  unfold loopCount
  have : ¬ pos < limit := by omega
  simp [this]

theorem mul_ge_add (j m : Nat) (hj : 1 ≤ j) (hm : 1 ≤ m) : j + m ≤ j * m + 1 := by
  obtain ⟨j', rfl⟩ : ∃ j', j = j' + 1 := ⟨j - 1, by omega⟩
  obtain ⟨m', rfl⟩ : ∃ m', m = m' + 1 := ⟨m - 1, by omega⟩
  simp only [Nat.succ_mul, Nat.mul_succ]
  omega

/-! ## half-band -/

theorem half_two_no_le (c : StageCfg) (s : StageSt) (h : 1 ≤ c.prePost) : 2 * ((numIn c s + 1) / 2) ≤ s.occ := by
  unfold numIn
  have := Nat.min_le_left (s.occ - c.prePost) s.isz
  omega

theorem halfFn_spec (c : StageCfg) (s : StageSt) (h : 1 ≤ c.prePost) :
    (halfFn c s).1 = { s with occ := s.occ - 2 * ((numIn c s + 1) / 2) } ∧ (halfFn c s).2 = (numIn c s + 1) / 2 := by
  unfold halfFn
  simp only [fifoRead_of_le (half_two_no_le c s h), and_self]

/-! ## clocked sampler -/

/-- the read after the kernel loop stays inside the FIFO (advance clause) -/
theorem clocked_read_ok (c : StageCfg) (s : StageSt)
    (hden : 0 < c.den) (hstep : 0 < c.step) (hclk : s.clk < c.den) (hadv : c.step ≤ (c.prePost + 1) * c.den) :
    (s.clk + loopCount s.clk c.step (numIn c s * c.den) * c.step) / c.den ≤ s.occ := by
  have hn : numIn c s ≤ s.occ - c.prePost := by unfold numIn; exact Nat.min_le_left _ _
  generalize numIn c s = n at *
  rcases Nat.eq_zero_or_pos n with h0 | hpos
  · subst h0
    rw [loopCount_zero (by omega)]
    simp [Nat.div_eq_of_lt hclk]
  · have hlim : s.clk < n * c.den := by
      have : c.den ≤ n * c.den := Nat.le_mul_of_pos_left _ hpos
      omega
    obtain ⟨_, h2, _⟩ := loopCount_spec hstep hlim
    have h3 : s.clk + loopCount s.clk c.step (n * c.den) * c.step < (n + c.prePost + 1) * c.den := by
      have e : (n + c.prePost + 1) * c.den = n * c.den + (c.prePost + 1) * c.den := by
        rw [Nat.add_assoc, Nat.add_mul]
      omega
    have := (Nat.div_lt_iff_lt_mul hden).mpr h3
    omega

/-! ## the four facts, for every kind -/

theorem stageFn_occ_le (c : StageCfg) (s : StageSt) : (stageFn c s).1.occ ≤ s.occ := by
  unfold stageFn
  cases c.kind
  · simp only [halfFn]; exact fifoRead_le _ _
  · simp only [clockedFn]
    split
    · exact Nat.le_refl _
    · exact fifoRead_le _ _
  · simp only [dftFn]
    split
    · exact fifoRead_le _ _
    · exact Nat.le_refl _

theorem dft_quot (c : StageCfg) (s : StageSt) (hL : 0 < c.L) (hclk : s.clk < c.L)
    (hbl : c.L ≤ c.dftLen - (c.numTaps - 1)) (hfire : s.clk + c.L * s.occ ≥ c.dftLen) :
    1 ≤ (c.dftLen - (c.numTaps - 1) + c.L - 1 - s.clk) / c.L ∧
    (c.dftLen - (c.numTaps - 1) + c.L - 1 - s.clk) / c.L ≤ s.occ := by
  generalize hbl' : c.dftLen - (c.numTaps - 1) = bl at *
  constructor
  · apply (Nat.le_div_iff_mul_le hL).mpr; omega
  · have h1 := Nat.div_mul_le_self (bl + c.L - 1 - s.clk) c.L
    have h2 : (bl + c.L - 1 - s.clk) / c.L * c.L < (s.occ + 1) * c.L := by
      rw [Nat.add_mul, Nat.mul_comm s.occ]; omega
    exact Nat.lt_succ_iff.mp (Nat.lt_of_mul_lt_mul_right h2)

theorem dftProduced_spec (c : StageCfg) (remM : Nat) (hT : 1 ≤ c.numTaps) (hlen : c.numTaps ≤ c.dftLen)
    (hL : 1 ≤ c.dftLen - (c.numTaps - 1)) (hok : dftOutOK c remM) :
    1 ≤ (dftProduced c remM).1 ∧ (dftProduced c remM).1 ≤ c.dftLen ∧ dftOutOK c (dftProduced c remM).2 := by
  unfold dftOutOK at hok ⊢
  unfold dftProduced
  simp only
  generalize hbl : c.dftLen - (c.numTaps - 1) = bl at *
  by_cases hM : 0 < c.M
  · simp only [hM, if_true] at hok ⊢
    by_cases h1 : c.M = 1
    · simp only [h1, if_true]
      refine ⟨hL, by omega, Or.inl trivial⟩
    · simp only [h1, if_false]
      rcases hok with h | ⟨hm, hr⟩
      · exact absurd h h1
      · have hmpos : 0 < c.M.toNat := by omega
        have hlt : remM < bl := by omega
        obtain ⟨a, b, cc⟩ := loopCount_spec hmpos hlt
        refine ⟨cc, ?_, Or.inr ⟨hm, by omega⟩⟩
        have := mul_ge_add (loopCount remM c.M.toNat bl) c.M.toNat cc hmpos
        omega
  · simp only [hM, if_false]
    refine ⟨?_, Nat.sub_le _ _, trivial⟩
    rw [Nat.shiftRight_eq_div_pow]
    have hp : 0 < 2 ^ (-c.M).toNat := Nat.two_pow_pos _
    have : ((2 ^ (-c.M).toNat - 1) * c.dftLen + (c.numTaps - 1)) / 2 ^ (-c.M).toNat < c.dftLen := by
      apply (Nat.div_lt_iff_lt_mul hp).mpr
      have e : c.dftLen * 2 ^ (-c.M).toNat = (2 ^ (-c.M).toNat - 1) * c.dftLen + c.dftLen := by
        rw [Nat.mul_comm, Nat.sub_mul]; simp
        have : c.dftLen ≤ 2 ^ (-c.M).toNat * c.dftLen := Nat.le_mul_of_pos_left _ hp
        omega
      omega
    omega

theorem stageFn_wf (c : StageCfg) (s : StageSt) (h : StageWF c s) : StageWF c (stageFn c s).1 := by
  unfold StageWF at h ⊢
  unfold stageFn
  cases hk : c.kind <;> simp only [hk] at h ⊢
  · simp only [halfFn]; exact h
  · obtain ⟨hden, hstep, hclk, hpp, hadv, htaps⟩ := h
    simp only [clockedFn]
    split
    · exact ⟨hden, hstep, hclk, hpp, hadv, htaps⟩
    · exact ⟨hden, hstep, Nat.mod_lt _ hden, hpp, hadv, htaps⟩
  · obtain ⟨hL, hT, hlen, hclk, hbl, hisz, hok⟩ := h
    simp only [dftFn]
    split
    · refine ⟨hL, hT, hlen, ?_, hbl, rfl, ?_⟩
      · simp only; split
        · exact hclk
        · have := Nat.mod_lt (c.dftLen - (c.numTaps - 1) + c.L - 1 - s.clk) hL; omega
      · exact (dftProduced_spec c s.remM hT hlen (by omega) hok).2.2
    · exact ⟨hL, hT, hlen, hclk, hbl, rfl, hok⟩

theorem dft_fires (c : StageCfg) (s : StageSt) (hL : 0 < c.L) (hclk : s.clk < c.L)
    (hisz : s.isz = (c.dftLen - s.clk + c.L - 1) / c.L) (hocc : s.isz ≤ s.occ) : s.clk + c.L * s.occ ≥ c.dftLen := by
  have h1 := Nat.lt_div_mul_add (a := c.dftLen - s.clk + c.L - 1) hL
  have h2 : s.isz * c.L ≤ s.occ * c.L := Nat.mul_le_mul_right _ hocc
  rw [← hisz] at h1
  rw [Nat.mul_comm c.L]
  omega

theorem stageFn_live (c : StageCfg) (s : StageSt) (h : StageWF c s) (hocc : s.isz ≤ s.occ) :
    (stageFn c s).1.occ < s.occ ∧ 1 ≤ (stageFn c s).2 := by
  unfold StageWF at h
  unfold stageFn
  cases hk : c.kind <;> simp only [hk] at h ⊢
  · obtain ⟨h1, h2⟩ := h
    rw [(halfFn_spec c s h1).1, (halfFn_spec c s h1).2]
    have hn : 1 ≤ numIn c s := by unfold numIn; omega
    have := half_two_no_le c s h1
    simp only; omega
  · obtain ⟨hden, hstep, hclk, hpp, hadv, htaps⟩ := h
    have hn : 1 ≤ numIn c s := by unfold numIn; omega
    have hne : (c.poly0 && numIn c s == 0) = false := by
      have : (numIn c s == 0) = false := by simp; omega
      simp [this]
    simp only [clockedFn, hne, Bool.false_eq_true, if_false]
    have hlim : s.clk < numIn c s * c.den := by
      have : c.den ≤ numIn c s * c.den := Nat.le_mul_of_pos_left _ hn
      omega
    obtain ⟨a, _, cc⟩ := loopCount_spec hstep hlim
    have hread := clocked_read_ok c s hden hstep hclk hadv
    rw [fifoRead_of_le hread]
    have hq : numIn c s ≤ (s.clk + loopCount s.clk c.step (numIn c s * c.den) * c.step) / c.den :=
      (Nat.le_div_iff_mul_le hden).mpr a
    exact ⟨by omega, cc⟩
  · obtain ⟨hL, hT, hlen, hclk, hbl, hisz, hok⟩ := h
    have hf := dft_fires c s hL hclk hisz hocc
    simp only [dftFn, hf, if_true]
    obtain ⟨q1, q2⟩ := dft_quot c s hL hclk hbl hf
    rw [fifoRead_of_le q2]
    exact ⟨by omega, (dftProduced_spec c s.remM hT hlen (by omega) hok).1⟩

theorem ceilDiv_mul_le (n d s : Nat) (hs : 0 < s) : ceilDiv (n * d) s ≤ n * ceilDiv d s := by
  apply (ceilDiv_le_iff hs).mpr
  have := le_ceilDiv_mul (a := d) hs
  calc n * d ≤ n * (ceilDiv d s * s) := Nat.mul_le_mul_left _ this
    _ = n * ceilDiv d s * s := by rw [Nat.mul_assoc]

theorem ceilDiv_mono {a b s : Nat} (h : a ≤ b) : ceilDiv a s ≤ ceilDiv b s := by
  unfold ceilDiv; exact Nat.div_le_div_right (by omega)

theorem stageFn_gain (c : StageCfg) (s : StageSt) (h : StageWF c s) :
    (stageFn c s).2 ≤ gain c * (s.occ - (stageFn c s).1.occ) := by
  unfold StageWF at h
  unfold stageFn gain
  cases hk : c.kind <;> simp only [hk] at h ⊢
  · obtain ⟨h1, h2⟩ := h
    rw [(halfFn_spec c s h1).1, (halfFn_spec c s h1).2]
    have := half_two_no_le c s h1
    simp only; omega
  · obtain ⟨hden, hstep, hclk, hpp, hadv, htaps⟩ := h
    simp only [clockedFn]
    split
    · simp
    · have hread := clocked_read_ok c s hden hstep hclk hadv
      rw [fifoRead_of_le hread]
      simp only
      generalize hn : numIn c s = n at *
      by_cases hlim : s.clk < n * c.den
      · obtain ⟨a, _, _⟩ := loopCount_spec hstep hlim
        have hq : n ≤ (s.clk + loopCount s.clk c.step (n * c.den) * c.step) / c.den :=
          (Nat.le_div_iff_mul_le hden).mpr a
        have h1 : loopCount s.clk c.step (n * c.den) ≤ ceilDiv (n * c.den) c.step := by
          unfold loopCount; simp only [hlim, if_true]; exact ceilDiv_mono (by omega)
        have h2 := ceilDiv_mul_le n c.den c.step hstep
        have h3 : n * ceilDiv c.den c.step ≤ ((s.clk + loopCount s.clk c.step (n * c.den) * c.step) / c.den) * ceilDiv c.den c.step :=
          Nat.mul_le_mul_right _ hq
        have e : s.occ - (s.occ - (s.clk + loopCount s.clk c.step (n * c.den) * c.step) / c.den) =
            (s.clk + loopCount s.clk c.step (n * c.den) * c.step) / c.den := by omega
        rw [e]
        calc loopCount s.clk c.step (n * c.den) ≤ ceilDiv (n * c.den) c.step := h1
          _ ≤ n * ceilDiv c.den c.step := h2
          _ ≤ ((s.clk + loopCount s.clk c.step (n * c.den) * c.step) / c.den) * ceilDiv c.den c.step := h3
          _ = ceilDiv c.den c.step * ((s.clk + loopCount s.clk c.step (n * c.den) * c.step) / c.den) := Nat.mul_comm _ _
      · rw [loopCount_zero (by omega)]; simp
  · obtain ⟨hL, hT, hlen, hclk, hbl, hisz, hok⟩ := h
    simp only [dftFn]
    split
    · rename_i hf
      obtain ⟨q1, q2⟩ := dft_quot c s hL hclk hbl hf
      rw [fifoRead_of_le q2]
      have hp := (dftProduced_spec c s.remM hT hlen (by omega) hok).2.1
      simp only
      have e : s.occ - (s.occ - (c.dftLen - (c.numTaps - 1) + c.L - 1 - s.clk) / c.L) =
          (c.dftLen - (c.numTaps - 1) + c.L - 1 - s.clk) / c.L := by omega
      rw [e]
      have : c.dftLen ≤ c.dftLen * ((c.dftLen - (c.numTaps - 1) + c.L - 1 - s.clk) / c.L) := Nat.le_mul_of_pos_right _ q1
      omega
    · simp

/-! ## lifted to `Stage` -/

theorem Stage.run_cfg (x : Stage) : x.run.1.cfg = x.cfg := rfl
theorem Stage.addOcc_cfg (x : Stage) (n : Nat) : (x.addOcc n).cfg = x.cfg := rfl

theorem Stage.wf_run {x : Stage} (h : x.WF) : x.run.1.WF := stageFn_wf x.cfg x.st h

theorem Stage.wf_addOcc {x : Stage} (h : x.WF) (n : Nat) : (x.addOcc n).WF := by
  unfold Stage.WF StageWF at *
  unfold Stage.addOcc
  cases hk : x.cfg.kind <;> simp only [hk] at h ⊢ <;> exact h

theorem Stage.run_occ_le (x : Stage) : x.run.1.st.occ ≤ x.st.occ := stageFn_occ_le x.cfg x.st

theorem Stage.run_live {x : Stage} (h : x.WF) (hs : x.short = false) :
    x.run.1.st.occ < x.st.occ ∧ 1 ≤ x.run.2 := by
  have : x.st.isz ≤ x.st.occ := by
    unfold Stage.short at hs; simpa using hs
  exact stageFn_live x.cfg x.st h this

theorem Stage.run_gain {x : Stage} (h : x.WF) : x.run.2 ≤ gain x.cfg * (x.st.occ - x.run.1.st.occ) :=
  stageFn_gain x.cfg x.st h

end Soxr.Cr
