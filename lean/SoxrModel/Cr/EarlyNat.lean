import SoxrModel.Cr.DataPipe
import SoxrModel.Cr.Time
/-!
# How much input an output needs (natural-number part)

For each stage kind: if the windows of the first `m` units lie inside the history (`Stable`, part of the data-level
invariant of every reachable state), the history is at least so long.  For the block-clocked dft stage this needs the
closed forms of the block recurrences (`dctl`): with `bl = dft_length − (num_taps − 1)`,
`at₀ + L·consumed_b = b·bl + at_b` and `M·produced_b = b·bl + remM_b`.
-/
namespace Soxr.Cr

variable {α : Type}


/-- outputs of the first `m` blocks of a dft stage -/
def dftOuts (c : StageCfg) (s0 : StageSt) : Nat → Nat
  | 0 => 0
  | m+1 => dftOuts c s0 m + (dftProduced c (dctl c s0 m).2.2).1

/-- outputs of the first `m` units of a stage -/
def outCount (c : StageCfg) (s0 : StageSt) (m : Nat) : Nat :=
  match c.kind with
  | .dft => dftOuts c s0 m
  | _ => m

theorem G_length (K : Kern α) (c : StageCfg) (s0 : StageSt) (h : List α) : ∀ m, ((unitSem K c s0).G m h).length = outCount c s0 m := by
  intro m
  induction m with
  | zero => unfold outCount; cases c.kind <;> simp [UnitSem.G, dftOuts]
  | succ m ih =>
    simp only [UnitSem.G, List.length_append, ih]
    unfold outCount unitSem
    cases hk : c.kind <;> simp [dftOuts]

structure DftInv (c : StageCfg) (s0 : StageSt) (b : Nat) : Prop where
  clk : (dctl c s0 b).2.1 < c.L
  ok : dftOutOK c (dctl c s0 b).2.2
  rem : (dctl c s0 b).2.2 < dftM c
  pos : s0.clk + c.L * (dctl c s0 b).1 = b * blockLen c + (dctl c s0 b).2.1
  outs : dftM c * dftOuts c s0 b = b * blockLen c + (dctl c s0 b).2.2

theorem dftM_pos (c : StageCfg) : 0 < dftM c := by
  unfold dftM; split
  · omega
  · exact Nat.two_pow_pos _

theorem dft_inv (c : StageCfg) (s0 : StageSt) (hk : c.kind = .dft) (hwf : StageWF c s0) (hs : DftShapeOK c s0) :
    ∀ b, DftInv c s0 b := by
  unfold StageWF at hwf; simp only [hk] at hwf
  obtain ⟨hL, hT, hlenT, hclk, hbl, _, hok⟩ := hwf
  obtain ⟨hr0, hp2, hfd⟩ := hs
  have hblpos : 1 ≤ blockLen c := by unfold blockLen; omega
  have hblc : blockLen c = c.dftLen - (c.numTaps - 1) := rfl
  intro b
  induction b with
  | zero =>
    refine ⟨hclk, hok, ?_, by simp [dctl], by simp [dctl, dftOuts, hr0]⟩
    simp only [dctl, hr0]; exact dftM_pos c
  | succ b ih =>
    obtain ⟨i1, i2, i3, i4, i5⟩ := ih
    generalize hcons : (dctl c s0 b).1 = cons at *
    generalize hck : (dctl c s0 b).2.1 = clk at *
    generalize hrm : (dctl c s0 b).2.2 = remM at *
    have hd : dctl c s0 (b + 1) = (cons + (blockLen c + c.L - 1 - clk) / c.L,
        (if isPow2 c.L || c.L == 1 then clk else c.L - 1 - (blockLen c + c.L - 1 - clk) % c.L), (dftProduced c remM).2) := by
      simp only [dctl, hcons, hck, hrm, blockLen]
    obtain ⟨p1, p2, p3⟩ := dftProduced_spec c remM hT hlenT (by unfold blockLen at hblpos; exact hblpos) i2
    have hdm := Nat.div_add_mod (blockLen c + c.L - 1 - clk) c.L
    have hmod := Nat.mod_lt (blockLen c + c.L - 1 - clk) hL
    generalize hq : (blockLen c + c.L - 1 - clk) / c.L = q at *
    generalize hr : (blockLen c + c.L - 1 - clk) % c.L = r at *
    -- what one block yields, and the new decimation phase
    have hprod : dftM c * (dftProduced c remM).1 + remM = blockLen c + (dftProduced c remM).2 ∧ (dftProduced c remM).2 < dftM c := by
      unfold dftM at i3 ⊢
      unfold dftOutOK at i2
      unfold dftProduced
      simp only at *
      by_cases hM : 0 < c.M
      · simp only [hM, if_true] at *
        by_cases h1 : c.M = 1
        · simp only [h1, if_true] at *
          have : Int.toNat 1 = 1 := rfl
          rw [this] at i3 ⊢
          omega
        · simp only [h1, if_false] at *
          rcases i2 with h | ⟨hm, hrr⟩
          · exact absurd h h1
          · have hmpos : 0 < c.M.toNat := by omega
            have hlt : remM < c.dftLen - (c.numTaps - 1) := by omega
            obtain ⟨a, bb, cc⟩ := loopCount_spec hmpos hlt
            rw [hblc]
            generalize loopCount remM c.M.toNat (c.dftLen - (c.numTaps - 1)) = j at *
            have e : c.M.toNat * j = j * c.M.toNat := Nat.mul_comm _ _
            constructor <;> omega
      · have hM' : c.M ≤ 0 := by omega
        simp only [hM, if_false] at *
        obtain ⟨k, hk2⟩ := hfd hM'
        have hp : 0 < 2 ^ (-c.M).toNat := Nat.two_pow_pos _
        rw [Nat.shiftRight_eq_div_pow]
        generalize 2 ^ (-c.M).toNat = P at *
        rw [hblc] at hk2 ⊢
        have hA : c.dftLen ≤ P * c.dftLen := Nat.le_mul_of_pos_left _ hp
        have hX : (P - 1) * c.dftLen + (c.numTaps - 1) = P * (c.dftLen - k) := by
          rw [Nat.sub_mul, Nat.mul_sub, ← hk2]; omega
        rw [hX, Nat.mul_div_cancel_left _ hp]
        have hkle : k ≤ c.dftLen := by
          have : k ≤ P * k := Nat.le_mul_of_pos_left _ hp
          omega
        have : c.dftLen - (c.dftLen - k) = k := by omega
        rw [this, ← hk2]
        exact ⟨by omega, i3⟩
    have hclk' : (if (isPow2 c.L || c.L == 1) = true then clk else c.L - 1 - r) < c.L := by
      split <;> omega
    refine ⟨by rw [hd]; exact hclk', by rw [hd]; exact p3, by rw [hd]; exact hprod.2, ?_, ?_⟩
    · rw [hd]
      simp only
      by_cases hp : (isPow2 c.L || c.L == 1) = true
      · rw [if_pos hp]
        obtain ⟨k, hk2⟩ := hp2 hp
        have hqk : q = k := by
          have e1 : blockLen c + c.L - 1 - clk = c.L * k + (c.L - 1 - clk) := by omega
          rw [← hq, e1, Nat.mul_add_div hL, Nat.div_eq_of_lt (by omega)]; rfl
        rw [Nat.mul_add, Nat.add_mul, hqk, ← hk2]; omega
      · rw [if_neg hp]
        rw [Nat.mul_add, Nat.add_mul]; omega
    · simp only [dftOuts, hrm, hd]
      rw [Nat.mul_add, Nat.add_mul]; omega

/-! ## what `Stable` means for the length of the history, kind by kind -/

theorem half_need (K : Kern α) (c : StageCfg) (s0 : StageSt) (hk : c.kind = .half) (hist : List α) (m : Nat) (hm : 1 ≤ m)
    (hpp : 1 ≤ c.prePost) (h : (unitSem K c s0).Stable m hist) : 2 * m + c.prePost ≤ hist.length + 2 := by
  have := h (m - 1) (by omega)
  simp only [unitSem, hk] at this
  omega

theorem clocked_need (K : Kern α) (c : StageCfg) (s0 : StageSt) (hk : c.kind = .clocked) (hden : 0 < c.den) (hist : List α)
    (m : Nat) (hm : 1 ≤ m) (h : (unitSem K c s0).Stable m hist) :
    c.prePost + 1 ≤ hist.length ∧ s0.clk + (m - 1) * c.step < c.den * (hist.length - c.prePost) := by
  have := h (m - 1) (by omega)
  simp only [unitSem, hk] at this
  have h2 : c.prePost + 1 ≤ hist.length ∧ (s0.clk + (m - 1) * c.step) / c.den < hist.length - c.prePost := by
    generalize (s0.clk + (m - 1) * c.step) / c.den = qq at this ⊢
    omega
  refine ⟨h2.1, ?_⟩
  replace h2 := h2.2
  rw [Nat.mul_comm c.den]
  exact (Nat.div_lt_iff_lt_mul hden).mp h2

theorem dft_need (K : Kern α) (c : StageCfg) (s0 : StageSt) (hk : c.kind = .dft) (hwf : StageWF c s0) (hs : DftShapeOK c s0)
    (hist : List α) (m : Nat) (hm : 1 ≤ m) (h : (unitSem K c s0).Stable m hist) :
    dftM c * dftOuts c s0 m + c.numTaps ≤ c.L * hist.length + s0.clk + dftM c := by
  obtain ⟨b, rfl⟩ : ∃ b, m = b + 1 := ⟨m - 1, by omega⟩
  have ib := dft_inv c s0 hk hwf hs b
  have im := dft_inv c s0 hk hwf hs (b + 1)
  have hst := h b (by omega)
  simp only [unitSem, hk] at hst
  unfold StageWF at hwf; simp only [hk] at hwf
  obtain ⟨hL, hT, hlenT, _, hbl, _, _⟩ := hwf
  have hblc : blockLen c = c.dftLen - (c.numTaps - 1) := rfl
  have hceil := le_ceilDiv_mul (a := c.dftLen - (dctl c s0 b).2.1) hL
  unfold ceilDiv at hceil
  generalize (c.dftLen - (dctl c s0 b).2.1 + c.L - 1) / c.L = isz at *
  have h1 : c.L * ((dctl c s0 b).1 + isz) ≤ c.L * hist.length := Nat.mul_le_mul_left _ hst
  rw [Nat.mul_add] at h1
  have e1 : (b + 1) * blockLen c = b * blockLen c + blockLen c := by rw [Nat.add_mul, Nat.one_mul]
  have hpos := ib.pos
  have hclk := ib.clk
  have houts := im.outs
  have hrem := im.rem
  rw [e1] at houts
  rw [Nat.mul_comm isz c.L] at hceil
  omega

end Soxr.Cr
