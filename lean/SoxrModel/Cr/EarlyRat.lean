import SoxrModel.Cr.EarlyNat
import SoxrModel.Cr.TimeLemmas
/-!
# Never early: an output cannot appear before the input instant it represents

Stage by stage: if the first `m` units' windows lie inside the history, the stage's input stream is at least as long
as `a·(outputs − 1) + b + 1 + margin` (`stage_need`): the last sample the last output reads lies `margin + 1`
periods past the instant that output represents.  Composed over the pipeline invariant (`pinv_need`) and applied to the
state reached by any run (`never_early_run`).
-/
namespace Soxr.Cr

variable {α : Type}

def LStage.toPlan (x : LStage) : StageCfg × StageSt := (x.cfg, x.s0)

theorem margin_nonneg (x : LStage) (he : EarlyOK x) : 0 ≤ margin x := by
  unfold EarlyOK at he; unfold margin
  cases hk : x.cfg.kind <;> simp only [hk] at he ⊢
  · have : ((x.lat.pre : ℕ) : ℚ) + 1 ≤ (x.cfg.prePost : ℕ) := by exact_mod_cast he
    linarith
  · cases hc : x.lat.cubic <;> simp only [hc, Bool.false_eq_true, if_false, if_true] at he ⊢
    · have : (2 : ℚ) ≤ (x.lat.nc : ℕ) := by exact_mod_cast he.1
      linarith
    · have : ((x.lat.pre : ℕ) : ℚ) + 1 ≤ (x.cfg.prePost : ℕ) := by exact_mod_cast he.2
      linarith
  · have h1 : ((x.cfg.L : ℕ) : ℚ) ≤ (x.lat.postPeak : ℕ) + 1 := by exact_mod_cast he.1
    apply div_nonneg
    · linarith
    · positivity

set_option linter.unusedSimpArgs false in
/-- **One stage.**  `n` is the length of the stage's input stream (its history minus the zero preload). -/
theorem stage_need (K : Kern α) (x : LStage) (hwf : StageWF x.cfg x.s0) (hshape : x.cfg.kind = .dft → DftShapeOK x.cfg x.s0)
    (hist : List α) (m n : Nat)
    (hst : (unitSem K x.cfg x.s0).Stable m hist) (hlen : hist.length = x.s0.occ + n) (hout : 1 ≤ outCount x.cfg x.s0 m) :
    (tstage x).a * ((outCount x.cfg x.s0 m : ℚ) - 1) + (tstage x).b + 1 + margin x ≤ n := by
  have hlenq : (hist.length : ℚ) = (x.s0.occ : ℚ) + n := by exact_mod_cast hlen
  cases hk : x.cfg.kind
  · -- half-band decimator
    have hm : outCount x.cfg x.s0 m = m := by unfold outCount; simp [hk]
    rw [hm] at hout ⊢
    have hpp : 1 ≤ x.cfg.prePost := by unfold StageWF at hwf; simp only [hk] at hwf; exact hwf.1
    have h := half_need K x.cfg x.s0 hk hist m hout hpp hst
    have hq : (2 : ℚ) * m + (x.cfg.prePost : ℕ) ≤ (hist.length : ℚ) + 2 := by exact_mod_cast h
    unfold tstage margin; simp only [hk]
    linarith
  · -- clocked sampler
    have hm : outCount x.cfg x.s0 m = m := by unfold outCount; simp [hk]
    rw [hm] at hout ⊢
    have hden : 0 < x.cfg.den := by unfold StageWF at hwf; simp only [hk] at hwf; exact hwf.1
    have htaps : x.cfg.taps ≤ x.cfg.prePost + 1 := by unfold StageWF at hwf; simp only [hk] at hwf; exact hwf.2.2.2.2.2
    have htq : ((x.cfg.taps : ℕ) : ℚ) ≤ (x.cfg.prePost : ℕ) + 1 := by exact_mod_cast htaps
    obtain ⟨h1, h2⟩ := clocked_need K x.cfg x.s0 hk hden hist m hout hst
    have hdq : (0 : ℚ) < (x.cfg.den : ℕ) := by exact_mod_cast hden
    have h2q : ((x.s0.clk : ℕ) : ℚ) + ((m : ℚ) - 1) * (x.cfg.step : ℕ) < (x.cfg.den : ℕ) * ((hist.length : ℚ) - (x.cfg.prePost : ℕ)) := by
      have e1 : ((hist.length - x.cfg.prePost : ℕ) : ℚ) = (hist.length : ℚ) - (x.cfg.prePost : ℕ) := by
        rw [Nat.cast_sub (by omega)]
      have e2 : ((m - 1 : ℕ) : ℚ) = (m : ℚ) - 1 := by rw [Nat.cast_sub hout]; simp
      have := h2
      have hc : ((x.s0.clk + (m - 1) * x.cfg.step : ℕ) : ℚ) < ((x.cfg.den * (hist.length - x.cfg.prePost) : ℕ) : ℚ) := by exact_mod_cast this
      push_cast at hc
      rw [e1, e2] at hc
      exact hc
    -- the represented position of output m-1, in the stage's FIFO coordinates, is below |hist| - prePost: the stage waits for
    -- `prePost + 1` frames from the position (for FIR stages `prePost + 1 ≥ taps`; the cubic stage holds back more than it reads)
    have hx : (((x.s0.clk : ℕ) : ℚ) + ((m : ℚ) - 1) * (x.cfg.step : ℕ)) / (x.cfg.den : ℕ) < (hist.length : ℚ) - (x.cfg.prePost : ℕ) := by
      rw [div_lt_iff₀ hdq]; linarith
    have hsplit : (((x.s0.clk : ℕ) : ℚ) + ((m : ℚ) - 1) * (x.cfg.step : ℕ)) / (x.cfg.den : ℕ) =
        ((x.cfg.step : ℕ) : ℚ) / (x.cfg.den : ℕ) * ((m : ℚ) - 1) + ((x.s0.clk : ℕ) : ℚ) / (x.cfg.den : ℕ) := by
      field_simp
      ring
    rw [hsplit] at hx
    unfold tstage margin; simp only [hk]
    cases hc : x.lat.cubic <;> simp only [hc, Bool.false_eq_true, if_false, if_true]
    · linarith
    · linarith
  · -- dft block stage
    have hm : outCount x.cfg x.s0 m = dftOuts x.cfg x.s0 m := by unfold outCount; simp [hk]
    rw [hm] at hout ⊢
    have hm1 : 1 ≤ m := by
      rcases Nat.eq_zero_or_pos m with h0 | h0
      · subst h0; simp [dftOuts] at hout
      · exact h0
    have h := dft_need K x.cfg x.s0 hk hwf (hshape hk) hist m hm1 hst
    have hL : 0 < x.cfg.L := by unfold StageWF at hwf; simp only [hk] at hwf; exact hwf.1
    have hLq : (0 : ℚ) < (x.cfg.L : ℕ) := by exact_mod_cast hL
    have hq : ((dftM x.cfg : ℕ) : ℚ) * (dftOuts x.cfg x.s0 m : ℕ) + (x.cfg.numTaps : ℕ) ≤
        (x.cfg.L : ℕ) * (hist.length : ℚ) + (x.s0.clk : ℕ) + (dftM x.cfg : ℕ) := by exact_mod_cast h
    unfold tstage margin; simp only [hk]
    rw [hlenq] at hq
    have key : (((dftM x.cfg : ℕ) : ℚ) * ((dftOuts x.cfg x.s0 m : ℕ) - 1) + (x.cfg.numTaps : ℕ) - (x.s0.clk : ℕ)) / (x.cfg.L : ℕ) ≤
        (x.s0.occ : ℚ) + n := by
      rw [div_le_iff₀ hLq]; linarith
    have hsplit : ((dftM x.cfg : ℕ) : ℚ) / (x.cfg.L : ℕ) * (((dftOuts x.cfg x.s0 m : ℕ) : ℚ) - 1) +
        ((((x.cfg.numTaps : ℕ) : ℚ) - 1 - (x.lat.postPeak : ℕ) - (x.s0.clk : ℕ)) / (x.cfg.L : ℕ) - ((x.s0.occ : ℕ) : ℚ)) + 1 +
        (((x.lat.postPeak : ℕ) : ℚ) + 1 - (x.cfg.L : ℕ)) / (x.cfg.L : ℕ) =
        (((dftM x.cfg : ℕ) : ℚ) * ((dftOuts x.cfg x.s0 m : ℕ) - 1) + (x.cfg.numTaps : ℕ) - (x.s0.clk : ℕ)) / (x.cfg.L : ℕ) - (x.s0.occ : ℕ) := by
      field_simp
      ring
    rw [hsplit]
    linarith

theorem rate_nonneg_map (l : List LStage) : 0 ≤ rateOf (l.map tstage) :=
  rateOf_nonneg _ (by intro s hs; obtain ⟨y, _, rfl⟩ := List.mem_map.mp hs; exact Soxr.Cr.tstage_a_nonneg' y)
where
  Soxr.Cr.tstage_a_nonneg' (x : LStage) : 0 ≤ (tstage x).a := by
    unfold tstage
    cases x.cfg.kind <;> simp only
    · norm_num
    · split <;> positivity
    · positivity

/-- **The pipeline.**  If the canonical stream has at least one sample, the bottom input is at least as long as the
    composed time map says: `rate·(|src| − 1) + offset + 1 + margin ≤ |inp|`. -/
theorem pinv_need_gen (K : Kern α) (z : α) : ∀ (lp : List LStage) (l : List (DStage α)) (inp src : List α),
    (∀ x ∈ lp, StageWF x.cfg x.s0) → PlanEarlyGen lp →
    PInv K z (lp.map LStage.toPlan) l inp src → 1 ≤ src.length →
    rateOf (lp.map tstage) * ((src.length : ℚ) - 1) + offsetOf (lp.map tstage) + 1 + margOf lp ≤ inp.length := by
  intro lp
  induction lp with
  | nil =>
    intro l inp src _ _ h _
    cases h
    simp [rateOf, offsetOf, margOf]
  | cons x rest ih =>
    intro l inp src hwf he h hsrc
    simp only [List.map_cons, LStage.toPlan] at h
    cases h with
    | @cons _ below _ s _ _ d m hb hx =>
      have hwfx := hwf x (by simp)
      obtain ⟨hshape, hbm⟩ := he x (by simp)
      have hlen : (List.replicate x.s0.occ z ++ s).length = x.s0.occ + s.length := by simp
      have hG := G_length K x.cfg x.s0 (List.replicate x.s0.occ z ++ s) m
      rw [hG] at hsrc ⊢
      have hst := stage_need K x hwfx hshape _ m s.length hx.stable hlen hsrc
      have ha := rate_nonneg_map.Soxr.Cr.tstage_a_nonneg' x
      have hoc : (1 : ℚ) ≤ (outCount x.cfg x.s0 m : ℕ) := by exact_mod_cast hsrc
      -- the stage below has produced at least one sample
      have hs1q : (1 : ℚ) ≤ (s.length : ℚ) := by
        have : 0 ≤ (tstage x).a * (((outCount x.cfg x.s0 m : ℕ) : ℚ) - 1) := mul_nonneg ha (by linarith)
        linarith
      have hs1 : 1 ≤ s.length := by exact_mod_cast hs1q
      have hrec := ih below inp s (fun y hy => hwf y (by simp [hy])) (fun y hy => he y (by simp [hy])) hb hs1
      have hr := rate_nonneg_map rest
      simp only [List.map_cons, rateOf, offsetOf, margOf]
      have hmul : rateOf (rest.map tstage) * ((tstage x).a * (((outCount x.cfg x.s0 m : ℕ) : ℚ) - 1) + (tstage x).b + margin x) ≤
          rateOf (rest.map tstage) * ((s.length : ℚ) - 1) := mul_le_mul_of_nonneg_left (by linarith) hr
      nlinarith [hmul, hrec]

/-- the centred (linear-phase) hypotheses imply the general ones -/
theorem earlyGen_of_ok (lp : List LStage) (he : PlanEarlyOK lp) (hlat : PlanLatOK false lp) : PlanEarlyGen lp := by
  intro x hx
  have hex := he x hx
  have hmarg := margin_nonneg x hex
  obtain ⟨hb0, _⟩ := tstage_b_bound x (hlat x hx)
  refine ⟨?_, by linarith⟩
  intro hk
  unfold EarlyOK at hex; simp only [hk] at hex
  exact hex.2

theorem pinv_need (K : Kern α) (z : α) (lp : List LStage) (l : List (DStage α)) (inp src : List α)
    (hwf : ∀ x ∈ lp, StageWF x.cfg x.s0) (he : PlanEarlyOK lp) (hlat : PlanLatOK false lp)
    (h : PInv K z (lp.map LStage.toPlan) l inp src) (hsrc : 1 ≤ src.length) :
    rateOf (lp.map tstage) * ((src.length : ℚ) - 1) + offsetOf (lp.map tstage) + 1 + margOf lp ≤ inp.length :=
  pinv_need_gen K z lp l inp src hwf (earlyGen_of_ok lp he hlat) h hsrc

/-- **Never early, for every run.**  In the state reached by any streaming run (any interleaving of input blocks and
    output requests, end-of-input not yet signalled) that has delivered at least one frame, the frames accepted so
    far number at least `rate·(delivered − 1) + offset + 1 + margin`. -/
theorem never_early_run_gen (K : Kern α) (z : α) (owed : Nat → Nat) (lp : List LStage) (hwf : ∀ x ∈ lp, StageWF x.cfg x.s0)
    (he : PlanEarlyGen lp) (ops : List (DOp α)) (F D : List α) (e : DEng α)
    (r : DRuns K z owed (DEng.fresh z (lp.map LStage.toPlan)) ops F D e) (hfl : e.fl = false) (hD : 1 ≤ D.length) :
    rateOf (lp.map tstage) * ((D.length : ℚ) - 1) + offsetOf (lp.map tstage) + 1 + margOf lp ≤ F.length := by
  have hpw : PlanWF (lp.map LStage.toPlan) := by
    intro p hp
    obtain ⟨y, hy, rfl⟩ := List.mem_map.mp hp
    exact hwf y hy
  have inv := druns_inv K z owed _ ops _ _ _ _ _ _ (fresh_einv K z _ hpw) r
  simp only [List.nil_append] at inv
  obtain ⟨pad, src, hpad, hp, hsrc⟩ := inv
  have hpad0 : pad = [] := hpad.2 hfl
  subst hpad0
  rw [List.append_nil] at hp
  have hlen : D.length ≤ src.length := by rw [← hsrc, List.length_append]; omega
  have h := pinv_need_gen K z lp e.stages F src hwf he hp (by omega)
  have hr := rate_nonneg_map lp
  have hq : (D.length : ℚ) ≤ (src.length : ℚ) := by exact_mod_cast hlen
  have : rateOf (lp.map tstage) * ((D.length : ℚ) - 1) ≤ rateOf (lp.map tstage) * ((src.length : ℚ) - 1) :=
    mul_le_mul_of_nonneg_left (by linarith) hr
  linarith

theorem never_early_run (K : Kern α) (z : α) (owed : Nat → Nat) (lp : List LStage) (hwf : ∀ x ∈ lp, StageWF x.cfg x.s0)
    (he : PlanEarlyOK lp) (hlat : PlanLatOK false lp) (ops : List (DOp α)) (F D : List α) (e : DEng α)
    (r : DRuns K z owed (DEng.fresh z (lp.map LStage.toPlan)) ops F D e) (hfl : e.fl = false) (hD : 1 ≤ D.length) :
    rateOf (lp.map tstage) * ((D.length : ℚ) - 1) + offsetOf (lp.map tstage) + 1 + margOf lp ≤ F.length :=
  never_early_run_gen K z owed lp hwf (earlyGen_of_ok lp he hlat) ops F D e r hfl hD

end Soxr.Cr
