import SoxrModel.Cr.Stream
import SoxrModel.Cr.Pull
/-!
# The pull loop of `soxr_output` terminates, for every behaviour of the input function

For every well-formed engine, every request and every finite script of answers there is an amount of fuel from which
on `soxr_output` returns (the fuelled recursions of the model never run out): each iteration of the `do … while`
consumes one answer or leaves the loop, and each `soxr_output_no_callback` inside it terminates (`process_stream_total`,
`process_flush_total`).
-/
namespace Soxr.Cr

structure ApiOK (a : Api) : Prop where
  wf : PipeWF a.eng.stages
  ne : a.eng.stages ≠ []

theorem process_fuel_mono (e : Eng) (olen f : Nat) (e' : Eng) (h : e.process f olen = some e') (d : Nat) :
    e.process (f + d) olen = some e' := by
  unfold Eng.process at *
  exact procLoop_mono f f e _ false e' h d d

theorem same_len_ne {a b : List Stage} (h : b.length = a.length) (hne : a ≠ []) : b ≠ [] := by
  intro h0; rw [h0] at h
  cases a with
  | nil => exact hne rfl
  | cons x r => simp at h

/-- one `soxr_output_no_callback`: from some fuel on it returns, always the same result, and keeps the engine well-formed -/
theorem outputNoCb_total (num : Num) (a : Api) (len : Nat) (h : ApiOK a) :
    ∃ F a1 od, (∀ fuel, F ≤ fuel → a.outputNoCb num fuel len = some (a1, od)) ∧ ApiOK a1 := by
  unfold Api.outputNoCb
  generalize he : (if a.flushing = true then a.eng.flush num.owed else a.eng) = e
  have hst : e.stages = a.eng.stages := by
    rw [← he]; split
    · unfold Eng.flush; split <;> rfl
    · rfl
  have hwf : PipeWF e.stages := by rw [hst]; exact h.wf
  have hne : e.stages ≠ [] := by rw [hst]; exact h.ne
  have key : ∃ f e', e.process f len = some e' ∧ PipeWF e'.stages ∧ e'.stages.length = e.stages.length := by
    cases hfl : e.fl
    · obtain ⟨f, e', hp, hs, hw⟩ := process_stream_total e len hfl hne hwf
      exact ⟨f, e', hp, hw, hs.len⟩
    · obtain ⟨f, e', hp, _, hs, hw⟩ := process_flush_total e len hfl hne hwf
      exact ⟨f, e', hp, hw, hs.len⟩
  obtain ⟨f, e', hp, hw, hl⟩ := key
  refine ⟨f, { a with eng := (e'.output len).1 }, (e'.output len).2.toNat, ?_, ?_⟩
  · intro fuel hf
    obtain ⟨d, rfl⟩ : ∃ d, fuel = f + d := ⟨fuel - f, by omega⟩
    simp only [process_fuel_mono e len f e' hp d]
  · exact ⟨by simpa [Eng.output] using hw, by
      have : (e'.output len).1.stages = e'.stages := rfl
      show (e'.output len).1.stages ≠ []
      rw [this]; exact same_len_ne hl hne⟩

theorem input_ok (a : Api) (n : Nat) (h : ApiOK a) : ApiOK (a.input n) := by
  unfold Api.input
  split
  · exact h
  · split
    · exact ⟨h.wf, h.ne⟩
    · unfold Eng.input
      split
      · exact h
      · cases hs : a.eng.stages with
        | nil => exact absurd hs h.ne
        | cons x r =>
          refine ⟨?_, ?_⟩
          · show PipeWF (addFirst (x :: r) n)
            rw [← hs]; exact pipeWF_addFirst _ _ h.wf
          · show addFirst (x :: r) n ≠ []
            rw [← hs]; exact addFirst_ne_nil _ _ h.ne

/-- **The `do … while` of `soxr_output` ends**, whatever the input function answers. -/
theorem pullLoop_total (num : Num) (len0 ilen : Nat) : ∀ (script : List Supply) (k : Nat) (a : Api) (olen odone0 : Nat) (reqs : List Nat),
    script.length + 1 ≤ k → ApiOK a →
    ∃ F, ∀ fuel, F ≤ fuel → (pullLoop num fuel len0 ilen k a olen odone0 script reqs).isSome = true := by
  intro script
  induction script with
  | nil =>
    intro k a olen odone0 reqs hk h
    obtain ⟨k', rfl⟩ : ∃ k', k = k' + 1 := ⟨k - 1, by omega⟩
    obtain ⟨F, a1, od, hcb, _⟩ := outputNoCb_total num a olen h
    refine ⟨F, fun fuel hf => ?_⟩
    unfold pullLoop
    simp only [hcb fuel hf]
    split <;> rfl
  | cons r rest ih =>
    intro k a olen odone0 reqs hk h
    obtain ⟨k', rfl⟩ : ∃ k', k = k' + 1 := ⟨k - 1, by omega⟩
    obtain ⟨F, a1, od, hcb, h1⟩ := outputNoCb_total num a olen h
    have hk' : rest.length + 1 ≤ k' := by simp only [List.length_cons] at hk; omega
    -- the fuel needed by the rest of the loop, for either continuation
    obtain ⟨F2, hF2⟩ := ih k' (a1.input (match r with | .data n => n | _ => 0)) (olen - od) (odone0 + od) (ilen :: reqs) hk'
      (input_ok a1 _ h1)
    refine ⟨max F F2, fun fuel hf => ?_⟩
    unfold pullLoop
    simp only [hcb fuel (by omega)]
    split
    · rfl
    · cases r with
      | fail => rfl
      | eof =>
        simp only
        split
        · exact hF2 fuel (by omega)
        · rfl
      | data n =>
        simp only
        split
        · exact hF2 fuel (by omega)
        · rfl

/-- **`soxr_output` returns** for every well-formed engine, every request and every script of answers. -/
theorem output_total (num : Num) (a : Api) (len0 : Nat) (script : List Supply) (h : ApiOK a) :
    ∃ F, ∀ fuel, F ≤ fuel → (a.output num fuel len0 script).isSome = true := by
  obtain ⟨F, hF⟩ := pullLoop_total num len0 (min a.maxIlen (num.iForO len0)) script (script.length + 2) a len0 0 [] (by omega) h
  refine ⟨F, fun fuel hf => ?_⟩
  unfold Api.output
  split
  · rfl
  · have := hF fuel hf
    cases hp : pullLoop num fuel len0 (min a.maxIlen (num.iForO len0)) (script.length + 2) a len0 0 script [] with
    | none => rw [hp] at this; cases this
    | some v => obtain ⟨a', od, rest, reqs⟩ := v; simp only [hp]; rfl

end Soxr.Cr
