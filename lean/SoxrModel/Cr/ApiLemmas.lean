import SoxrModel.Cr.Engine
/-!
# `soxr_output_no_callback` once end-of-input has been signalled: every call delivers exactly
  `min(frames still owed, request)`; hence the drain is exact and nothing comes afterwards.
-/
namespace Soxr.Cr

/-- frames still owed by an engine whose `_soxr_flush` has run -/
def Eng.owedLeft (e : Eng) : Nat := (-e.sout).toNat

/-- the engine is flushing and has not delivered more than it owes -/
structure Draining (e : Eng) : Prop where
  fl : e.fl = true
  sout : e.sout ≤ 0
  wf : PipeWF e.stages
  ne : e.stages ≠ []

theorem flush_idem (owed : Nat → Nat) (e : Eng) (h : e.fl = true) : e.flush owed = e := by
  unfold Eng.flush; simp [h]

/-- one call of `soxr_output_no_callback` on a draining resampler -/
theorem outputNoCb_draining (num : Num) (a : Api) (len : Nat) (hfl : a.flushing = true) (hd : Draining a.eng) :
    ∃ fuel a', a.outputNoCb num fuel len = some (a', min a.eng.owedLeft len) ∧ a'.flushing = true ∧
      Draining a'.eng ∧ a'.eng.owedLeft = a.eng.owedLeft - min a.eng.owedLeft len ∧
      a'.error = a.error ∧ a'.hasFn = a.hasFn ∧ a'.maxIlen = a.maxIlen := by
  obtain ⟨fuel, e', hp, hocc, hsame, hwf'⟩ := process_flush_total a.eng len hd.fl hd.ne hd.wf
  have hso := hd.sout
  have htarget : a.eng.target len = min (-a.eng.sout) (len : Int) := by unfold Eng.target; simp [hd.fl]
  have htarget' : e'.target len = a.eng.target len := by
    unfold Eng.target; rw [hsame.fl, hsame.sout]
  have hn : min (e'.target len) (e'.outOcc : Int) = a.eng.target len := by
    rw [htarget']; omega
  have hnat : (a.eng.target len).toNat = min a.eng.owedLeft len := by
    rw [htarget]; unfold Eng.owedLeft; omega
  refine ⟨fuel, { a with eng := (e'.output len).1 }, ?_, hfl, ?_, ?_, rfl, rfl, rfl⟩
  · unfold Api.outputNoCb
    simp only [hfl, if_true, flush_idem num.owed a.eng hd.fl, hp]
    unfold Eng.output
    simp only [hn, hnat]
  · unfold Eng.output
    simp only [hn]
    refine ⟨hsame.fl.trans hd.fl, ?_, hwf', ?_⟩
    · rw [hsame.sout, htarget]; dsimp only; omega
    · intro h0
      have := hsame.len
      rw [h0] at this
      cases hs : a.eng.stages with
      | nil => exact hd.ne hs
      | cons x r => rw [hs] at this; simp at this
  · unfold Eng.output Eng.owedLeft
    simp only [hn]
    rw [hsame.sout, htarget]; omega

/-- a sequence of `soxr_output_no_callback` calls with the given request sizes delivering the given counts -/
inductive Calls (num : Num) : Api → List Nat → List Nat → Api → Prop
  | nil (a : Api) : Calls num a [] [] a
  | cons (a a1 a2 : Api) (len od : Nat) (reqs ods : List Nat) (fuel : Nat) :
      a.outputNoCb num fuel len = some (a1, od) → Calls num a1 reqs ods a2 → Calls num a (len :: reqs) (od :: ods) a2

/-- what a drain of `owed` frames delivers for a list of request sizes -/
def drainSpec : Nat → List Nat → List Nat
  | _, [] => []
  | owed, n :: r => min owed n :: drainSpec (owed - min owed n) r

theorem drainSpec_sum (owed : Nat) (reqs : List Nat) : (drainSpec owed reqs).sum = min owed reqs.sum := by
  induction reqs generalizing owed with
  | nil => simp [drainSpec]
  | cons n r ih => simp only [drainSpec, List.sum_cons, ih]; omega

theorem drainSpec_zero (reqs : List Nat) : ∀ x ∈ drainSpec 0 reqs, x = 0 := by
  induction reqs with
  | nil => simp [drainSpec]
  | cons n r ih =>
    intro x hx
    simp only [drainSpec, Nat.zero_min, Nat.sub_zero, List.mem_cons] at hx
    rcases hx with rfl | hx
    · rfl
    · exact ih x hx

/-- every request sequence on a draining resampler delivers exactly `drainSpec` -/
theorem calls_draining (num : Num) (reqs : List Nat) : ∀ (a : Api), a.flushing = true → Draining a.eng →
    ∃ a', Calls num a reqs (drainSpec a.eng.owedLeft reqs) a' ∧ a'.flushing = true ∧ Draining a'.eng ∧
      a'.eng.owedLeft = a.eng.owedLeft - min a.eng.owedLeft reqs.sum := by
  induction reqs with
  | nil => intro a hfl hd; exact ⟨a, Calls.nil a, hfl, hd, by simp⟩
  | cons n r ih =>
    intro a hfl hd
    obtain ⟨fuel, a1, h1, hfl1, hd1, ho1, _⟩ := outputNoCb_draining num a n hfl hd
    obtain ⟨a2, h2, hfl2, hd2, ho2⟩ := ih a1 hfl1 hd1
    refine ⟨a2, ?_, hfl2, hd2, ?_⟩
    · simp only [drainSpec]
      rw [ho1] at h2
      exact Calls.cons a a1 a2 n _ r _ fuel h1 h2
    · rw [ho2, ho1]; simp only [List.sum_cons]; omega

/-- the counts delivered by a call sequence do not depend on the fuel used (the model is deterministic) -/
theorem outputNoCb_det (num : Num) (a : Api) (len f1 f2 : Nat) (r1 r2 : Api × Nat)
    (h1 : a.outputNoCb num f1 len = some r1) (h2 : a.outputNoCb num f2 len = some r2) : r1 = r2 := by
  unfold Api.outputNoCb at h1 h2
  simp only at h1 h2
  generalize (if a.flushing = true then a.eng.flush num.owed else a.eng) = e at h1 h2
  cases hp1 : e.process f1 len with
  | none => simp [hp1] at h1
  | some e1 =>
    cases hp2 : e.process f2 len with
    | none => simp [hp2] at h2
    | some e2 =>
      have := process_det e len f1 f2 e1 e2 hp1 hp2
      subst this
      simp only [hp1] at h1
      simp only [hp2] at h2
      rw [← Option.some.inj h1, ← Option.some.inj h2]

theorem calls_det (num : Num) : ∀ (reqs : List Nat) (a : Api) (o1 o2 : List Nat) (b1 b2 : Api),
    Calls num a reqs o1 b1 → Calls num a reqs o2 b2 → o1 = o2 ∧ b1 = b2 := by
  intro reqs
  induction reqs with
  | nil => intro a o1 o2 b1 b2 h1 h2; cases h1; cases h2; exact ⟨rfl, rfl⟩
  | cons n r ih =>
    intro a o1 o2 b1 b2 h1 h2
    cases h1 with
    | cons _ a1 _ _ od1 _ ods1 f1 hc1 hr1 =>
      cases h2 with
      | cons _ a2 _ _ od2 _ ods2 f2 hc2 hr2 =>
        have := outputNoCb_det num a n f1 f2 _ _ hc1 hc2
        injection this with ha hod
        subst ha; subst hod
        obtain ⟨e1, e2⟩ := ih a1 ods1 ods2 b1 b2 hr1 hr2
        exact ⟨by rw [e1], e2⟩

end Soxr.Cr
