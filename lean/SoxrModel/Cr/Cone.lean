import SoxrModel.Cr.Shift
/-!
# Locality: which input frames an output frame depends on

Output frame `j` of a stage is produced by the unit `u` with `outCount u ≤ j < outCount (u+1)`, which reads the window
`[pos u, pos u + len u)` of the stage's input history (zero preload first, then the stream below).  `coneI` walks an
interval of output frames down the plan — units of its end points, smallest window start and largest window end over
the units in between, minus the preload — and returns an interval `[a, b]` of INPUT frame indices (or the empty
interval when everything read lies in preloads).  `coneI_sound`: two canonical streams of the plan whose inputs agree
on `[a, b]` agree on the output interval — for every kernel whatever, every number of units run on either side.  So an
output frame depends on finitely many input frames, none later than `b` (causality with the latency of the plan) and
none earlier than `a` (finite memory).  The compiled driver evaluates `coneI` (`cr.cone`), and the check perturbs single
input frames of the REAL engine and requires every output frame that changes to have the perturbed frame inside its cone.
-/
namespace Soxr.Cr

variable {α : Type}

/-- window length of unit `u` (independent of the kernel) -/
def ulen (c : StageCfg) (s0 : StageSt) (u : Nat) : Nat :=
  match c.kind with
  | .half => c.prePost - 1
  | .clocked => c.prePost + 1
  | .dft => (c.dftLen - (dctl c s0 u).2.1 + c.L - 1) / c.L

theorem unitSem_len (K : Kern α) (c : StageCfg) (s0 : StageSt) (u : Nat) : (unitSem K c s0).len u = ulen c s0 u := by
  unfold unitSem ulen; cases c.kind <;> rfl

theorem outCount_zero (c : StageCfg) (s0 : StageSt) : outCount c s0 0 = 0 := by
  unfold outCount; cases c.kind <;> simp [dftOuts]

theorem outCount_succ_ge (c : StageCfg) (s0 : StageSt) (u : Nat) : outCount c s0 u ≤ outCount c s0 (u + 1) := by
  unfold outCount; cases c.kind <;> simp [dftOuts]

theorem outCount_mono (c : StageCfg) (s0 : StageSt) {u v : Nat} (h : u ≤ v) : outCount c s0 u ≤ outCount c s0 v := by
  induction v with
  | zero => have : u = 0 := by omega
            subst this; exact Nat.le_refl _
  | succ v ih =>
    rcases Nat.lt_or_ge u (v + 1) with hlt | hge
    · exact Nat.le_trans (ih (by omega)) (outCount_succ_ge c s0 v)
    · have : u = v + 1 := by omega
      subst this; exact Nat.le_refl _

/-- the unit that yields output frame `j`: the first `u ≥ u0` with `j < outCount (u+1)` -/
def unitOf (c : StageCfg) (s0 : StageSt) (j : Nat) : Nat → Nat → Option Nat
  | 0, _ => none
  | fuel+1, u => if j < outCount c s0 (u + 1) then some u else unitOf c s0 j fuel (u + 1)

theorem unitOf_spec (c : StageCfg) (s0 : StageSt) (j : Nat) : ∀ (fuel u0 u : Nat), unitOf c s0 j fuel u0 = some u →
    outCount c s0 u0 ≤ j → outCount c s0 u ≤ j ∧ j < outCount c s0 (u + 1) := by
  intro fuel
  induction fuel with
  | zero => intro u0 u h; simp [unitOf] at h
  | succ fuel ih =>
    intro u0 u h h0
    simp only [unitOf] at h
    split at h
    · rename_i hlt
      simp only [Option.some.injEq] at h; subst h
      exact ⟨h0, hlt⟩
    · rename_i hge
      exact ih (u0 + 1) u h (by omega)

/-- smallest window start and largest window end over the units `ulo … ulo + n` -/
def winBounds (c : StageCfg) (s0 : StageSt) (ulo : Nat) : Nat → Nat × Nat
  | 0 => (upos c s0 ulo, upos c s0 ulo + ulen c s0 ulo)
  | n+1 =>
    let r := winBounds c s0 ulo n
    (min r.1 (upos c s0 (ulo + n + 1)), max r.2 (upos c s0 (ulo + n + 1) + ulen c s0 (ulo + n + 1)))

theorem winBounds_spec (c : StageCfg) (s0 : StageSt) (ulo : Nat) : ∀ (n u : Nat), ulo ≤ u → u ≤ ulo + n →
    (winBounds c s0 ulo n).1 ≤ upos c s0 u ∧ upos c s0 u + ulen c s0 u ≤ (winBounds c s0 ulo n).2 := by
  intro n
  induction n with
  | zero =>
    intro u h1 h2
    have : u = ulo := by omega
    subst this
    exact ⟨Nat.le_refl _, Nat.le_refl _⟩
  | succ n ih =>
    intro u h1 h2
    simp only [winBounds]
    rcases Nat.lt_or_ge u (ulo + n + 1) with hlt | hge
    · obtain ⟨a, b⟩ := ih u h1 (by omega)
      exact ⟨Nat.le_trans (Nat.min_le_left _ _) a, Nat.le_trans b (Nat.le_max_left _ _)⟩
    · have : u = ulo + n + 1 := by omega
      subst this
      exact ⟨Nat.min_le_right _ _, Nat.le_max_right _ _⟩

/-- the cone of the output interval `[lo, hi]`: an interval of input indices, `(1, 0)` (empty) when nothing but preload
    is read; `none` when the unit search ran out of fuel -/
def coneI (fuel : Nat) : Plan → Nat → Nat → Option (Nat × Nat)
  | [], lo, hi => some (lo, hi)
  | (c, s0) :: ps, lo, hi =>
    if hi < lo then some (1, 0) else
    match unitOf c s0 lo fuel 0, unitOf c s0 hi fuel 0 with
    | some ulo, some uhi =>
      let w := winBounds c s0 ulo (uhi - ulo)
      if w.2 ≤ s0.occ then some (1, 0)
      else coneI fuel ps (w.1 - s0.occ) (w.2 - s0.occ - 1)
    | _, _ => none

/-! ## the value of one output frame -/

/-- output frame `j` of a stage lies in the output of the unit that `outCount` points at -/
theorem G_getElem (U : UnitSem α) (cnt : Nat → Nat) (hcnt : ∀ m h, (U.G m h).length = cnt m) (h : List α) (m u j : Nat)
    (hu : u < m) (h1 : cnt u ≤ j) (_h2 : j < cnt (u + 1)) :
    (U.G m h)[j]? = (U.out u (U.window u h))[j - cnt u]? := by
  obtain ⟨r, rfl⟩ : ∃ r, m = (u + 1) + r := ⟨m - (u + 1), by omega⟩
  rw [U.G_seg h (u + 1) r]
  have e : U.G (u + 1) h = U.G u h ++ U.out u (U.window u h) := rfl
  have hl1 : (U.G (u + 1) h).length = cnt (u + 1) := hcnt _ _
  rw [List.getElem?_append_left (by rw [hl1]; exact _h2), e, List.getElem?_append_right (by rw [hcnt]; exact h1), hcnt]

theorem window_getElem (U : UnitSem α) (u : Nat) (h : List α) (k : Nat) (hk : k < U.len u) :
    (U.window u h)[k]? = h[U.pos u + k]? := by
  unfold UnitSem.window
  rw [List.getElem?_take_of_lt hk, List.getElem?_drop]

theorem window_length (U : UnitSem α) (u : Nat) (h : List α) (hs : U.pos u + U.len u ≤ h.length) :
    (U.window u h).length = U.len u := by
  unfold UnitSem.window
  rw [List.length_take, List.length_drop]; omega

/-- two histories that agree on the window of unit `u` give the same window -/
theorem window_eq (U : UnitSem α) (u : Nat) (h h' : List α) (hs : U.pos u + U.len u ≤ h.length) (hs' : U.pos u + U.len u ≤ h'.length)
    (e : ∀ k, k < U.len u → h[U.pos u + k]? = h'[U.pos u + k]?) : U.window u h = U.window u h' := by
  apply List.ext_getElem?
  intro k
  by_cases hk : k < U.len u
  · rw [window_getElem U u h k hk, window_getElem U u h' k hk]; exact e k hk
  · rw [List.getElem?_eq_none (by rw [window_length U u h hs]; omega), List.getElem?_eq_none (by rw [window_length U u h' hs']; omega)]

theorem unit_exists (c : StageCfg) (s0 : StageSt) (j : Nat) : ∀ m, j < outCount c s0 m →
    ∃ u, u < m ∧ outCount c s0 u ≤ j ∧ j < outCount c s0 (u + 1) := by
  intro m
  induction m with
  | zero => intro h; rw [outCount_zero] at h; omega
  | succ m ih =>
    intro h
    by_cases hm : j < outCount c s0 m
    · obtain ⟨u, a, b, cc⟩ := ih hm
      exact ⟨u, by omega, b, cc⟩
    · exact ⟨m, by omega, by omega, h⟩

/-- **Locality.**  Canonical streams of the plan for inputs that agree on the cone agree on the output interval. -/
theorem coneI_sound (K : Kern α) (z : α) (fuel : Nat) : ∀ (plan : Plan) (lo hi a b : Nat), coneI fuel plan lo hi = some (a, b) →
    ∀ (x x' s s' : List α), CInv K z plan x s → CInv K z plan x' s' → (∀ i, a ≤ i → i ≤ b → x[i]? = x'[i]?) →
    ∀ j, lo ≤ j → j ≤ hi → j < s.length → j < s'.length → s[j]? = s'[j]? := by
  intro plan
  induction plan with
  | nil =>
    intro lo hi a b hc x x' s s' h1 h2 hag j hlo hhi _ _
    simp only [coneI, Option.some.injEq, Prod.mk.injEq] at hc
    obtain ⟨rfl, rfl⟩ := hc
    cases h1; cases h2
    exact hag j hlo hhi
  | cons p ps ih =>
    intro lo hi a b hc x x' s s' h1 h2 hag j hlo hhi hjs hjs'
    obtain ⟨c, s0⟩ := p
    simp only [coneI] at hc
    split at hc
    · omega
    · cases hul : unitOf c s0 lo fuel 0 with
      | none => simp [hul] at hc
      | some ulo =>
        cases huh : unitOf c s0 hi fuel 0 with
        | none => simp [hul, huh] at hc
        | some uhi =>
          simp only [hul, huh] at hc
          cases h1 with
          | @cons _ _ t _ _ m hb hst =>
            cases h2 with
            | @cons _ _ t' _ _ m' hb' hst' =>
              -- the unit of frame j, on either side
              have hcnt : ∀ m h, ((unitSem K c s0).G m h).length = outCount c s0 m := fun m h => G_length K c s0 h m
              rw [hcnt] at hjs hjs'
              obtain ⟨u, hum, hu1, hu2⟩ := unit_exists c s0 j m hjs
              have hum' : u < m' := by
                rcases Nat.lt_or_ge u m' with hh | hh
                · exact hh
                · have := outCount_mono c s0 hh; omega
              obtain ⟨l1, l2⟩ := unitOf_spec c s0 lo fuel 0 ulo hul (by rw [outCount_zero]; omega)
              obtain ⟨g1, g2⟩ := unitOf_spec c s0 hi fuel 0 uhi huh (by rw [outCount_zero]; omega)
              have hge : ulo ≤ u := by
                rcases Nat.lt_or_ge u ulo with hh | hh
                · have := outCount_mono c s0 (show u + 1 ≤ ulo by omega); omega
                · exact hh
              have hle : u ≤ uhi := by
                rcases Nat.lt_or_ge uhi u with hh | hh
                · have := outCount_mono c s0 (show uhi + 1 ≤ u by omega); omega
                · exact hh
              obtain ⟨w1, w2⟩ := winBounds_spec c s0 ulo (uhi - ulo) u hge (by omega)
              rw [G_getElem _ _ hcnt _ m u j hum hu1 hu2, G_getElem _ _ hcnt _ m' u j hum' hu1 hu2]
              congr 2
              have hs := hst u hum
              have hs' := hst' u hum'
              apply window_eq _ u _ _ hs hs'
              intro k hk
              rw [unitSem_pos] at hs hs' ⊢
              rw [unitSem_len] at hs hs' hk
              simp only [List.length_append, List.length_replicate] at hs hs'
              generalize hw : winBounds c s0 ulo (uhi - ulo) = w at *
              by_cases hpre : upos c s0 u + k < s0.occ
              · rw [List.getElem?_append_left (by simpa using hpre), List.getElem?_append_left (by simpa using hpre)]
              · rw [List.getElem?_append_right (by simpa using Nat.le_of_not_lt hpre),
                    List.getElem?_append_right (by simpa using Nat.le_of_not_lt hpre)]
                simp only [List.length_replicate]
                split at hc
                · omega
                · exact ih _ _ a b hc x x' t t' hb hb' hag (upos c s0 u + k - s0.occ) (by omega) (by omega) (by omega) (by omega)

/-! ## constants: the DC clause on the engine -/

/-- like `coneI`, but `none` as soon as a window reaches into a stage's zero preload (start-up) -/
def coneS (fuel : Nat) : Plan → Nat → Nat → Option (Nat × Nat)
  | [], lo, hi => some (lo, hi)
  | (c, s0) :: ps, lo, hi =>
    if hi < lo then none else
    match unitOf c s0 lo fuel 0, unitOf c s0 hi fuel 0 with
    | some ulo, some uhi =>
      let w := winBounds c s0 ulo (uhi - ulo)
      if w.1 < s0.occ ∨ w.2 ≤ w.1 then none
      else coneS fuel ps (w.1 - s0.occ) (w.2 - s0.occ - 1)
    | _, _ => none

/-- unit `u` maps the constant window of value `v` to outputs of value `v` -/
def UFix (U : UnitSem α) (v : α) : Prop := ∀ u, ∀ y ∈ U.out u (List.replicate (U.len u) v), y = v

/-- every stage of the plan reproduces the constant `v` -/
def PlanFix (K : Kern α) (v : α) : Plan → Prop
  | [] => True
  | (c, s0) :: ps => UFix (unitSem K c s0) v ∧ PlanFix K v ps

/-- **DC on the engine.**  Beyond start-up (`coneS` defined: no window of the cone touches a preload), an input that is
    the constant `v` on the cone gives the output `v` — for every plan whose stages each reproduce `v` (unit row sums). -/
theorem coneS_const (K : Kern α) (z v : α) (fuel : Nat) : ∀ (plan : Plan) (lo hi a b : Nat), coneS fuel plan lo hi = some (a, b) →
    PlanFix K v plan → ∀ (x s : List α), CInv K z plan x s → (∀ i, a ≤ i → i ≤ b → x[i]? = some v) →
    ∀ j, lo ≤ j → j ≤ hi → j < s.length → s[j]? = some v := by
  intro plan
  induction plan with
  | nil =>
    intro lo hi a b hc _ x s h1 hag j hlo hhi _
    simp only [coneS, Option.some.injEq, Prod.mk.injEq] at hc
    obtain ⟨rfl, rfl⟩ := hc
    cases h1
    exact hag j hlo hhi
  | cons p ps ih =>
    intro lo hi a b hc hfix x s h1 hag j hlo hhi hjs
    obtain ⟨c, s0⟩ := p
    obtain ⟨hU, hfix'⟩ := hfix
    simp only [coneS] at hc
    split at hc
    · simp at hc
    · cases hul : unitOf c s0 lo fuel 0 with
      | none => simp [hul] at hc
      | some ulo =>
        cases huh : unitOf c s0 hi fuel 0 with
        | none => simp [hul, huh] at hc
        | some uhi =>
          simp only [hul, huh] at hc
          cases h1 with
          | @cons _ _ t _ _ m hb hst =>
            have hcnt : ∀ m h, ((unitSem K c s0).G m h).length = outCount c s0 m := fun m h => G_length K c s0 h m
            rw [hcnt] at hjs
            obtain ⟨u, hum, hu1, hu2⟩ := unit_exists c s0 j m hjs
            obtain ⟨l1, l2⟩ := unitOf_spec c s0 lo fuel 0 ulo hul (by rw [outCount_zero]; omega)
            obtain ⟨g1, g2⟩ := unitOf_spec c s0 hi fuel 0 uhi huh (by rw [outCount_zero]; omega)
            have hge : ulo ≤ u := by
              rcases Nat.lt_or_ge u ulo with hh | hh
              · have := outCount_mono c s0 (show u + 1 ≤ ulo by omega); omega
              · exact hh
            have hle : u ≤ uhi := by
              rcases Nat.lt_or_ge uhi u with hh | hh
              · have := outCount_mono c s0 (show uhi + 1 ≤ u by omega); omega
              · exact hh
            obtain ⟨w1, w2⟩ := winBounds_spec c s0 ulo (uhi - ulo) u hge (by omega)
            generalize hw : winBounds c s0 ulo (uhi - ulo) = w at *
            split at hc
            · simp at hc
            · rename_i hnot
              have hocc : s0.occ ≤ w.1 := by omega
              rw [G_getElem _ _ hcnt _ m u j hum hu1 hu2]
              have hs := hst u hum
              -- the window is the constant window
              have hwin : (unitSem K c s0).window u (List.replicate s0.occ z ++ t) = List.replicate ((unitSem K c s0).len u) v := by
                apply List.ext_getElem?
                intro k
                by_cases hk : k < (unitSem K c s0).len u
                · rw [window_getElem _ u _ k hk, List.getElem?_replicate, if_pos hk]
                  rw [unitSem_pos] at hs ⊢
                  rw [unitSem_len] at hs hk
                  simp only [List.length_append, List.length_replicate] at hs
                  rw [List.getElem?_append_right (by simp; omega)]
                  simp only [List.length_replicate]
                  have hlen : upos c s0 u + k - s0.occ < t.length := by omega
                  have := ih _ _ a b hc hfix' x t hb hag (upos c s0 u + k - s0.occ) (by omega) (by omega) hlen
                  exact this
                · rw [List.getElem?_eq_none (by rw [window_length _ u _ hs]; omega), List.getElem?_eq_none (by simp; omega)]
              rw [hwin]
              -- and its outputs are all `v`
              have hlt : j - outCount c s0 u < ((unitSem K c s0).out u (List.replicate ((unitSem K c s0).len u) v)).length := by
                have e := hcnt (u + 1) (List.replicate s0.occ z ++ t)
                have e0 := hcnt u (List.replicate s0.occ z ++ t)
                have : (unitSem K c s0).G (u + 1) (List.replicate s0.occ z ++ t) =
                    (unitSem K c s0).G u (List.replicate s0.occ z ++ t) ++ (unitSem K c s0).out u ((unitSem K c s0).window u (List.replicate s0.occ z ++ t)) := rfl
                rw [this, List.length_append, e0, hwin] at e
                omega
              rw [List.getElem?_eq_getElem hlt]
              exact congrArg some (hU u _ (List.getElem_mem hlt))

end Soxr.Cr
