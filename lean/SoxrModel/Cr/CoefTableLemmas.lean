import SoxrModel.Cr.CoefTable
/-!
# `prepare_poly_fir_coefs`: the loop computes the closed form (`prep_spec`), indices are injective and in bounds
Core Lean only (`omega`, `simp`).
-/
namespace Soxr.Cr.CoefTable

theorem divmod_unique {P i j i' j' : Nat} (hj : j < P) (hj' : j' < P) (h : i * P + j = i' * P + j') : i = i' ∧ j = j' := by
  rcases Nat.lt_trichotomy i i' with hlt | heq | hgt
  · have := Nat.mul_le_mul_right P (Nat.succ_le_of_lt hlt); rw [Nat.succ_mul] at this; omega
  · subst heq; omega
  · have := Nat.mul_le_mul_right P (Nat.succ_le_of_lt hgt); rw [Nat.succ_mul] at this; omega

/-- mixed radix: `a·q + r` with `r < a` determines `q` and `r` -/
theorem radix_unique {a q r q' r' : Nat} (hr : r < a) (hr' : r' < a) (h : a * q + r = a * q' + r') : q = q' ∧ r = r' := by
  have := @divmod_unique a q r q' r' hr hr' (by rw [Nat.mul_comm q a, Nat.mul_comm q' a]; exact h)
  exact this

/-! ## the two index macros -/

theorem coefIdx_inj {ord len j ci k j' ci' k' : Nat} (hci : ci ≤ ord) (hci' : ci' ≤ ord) (hk : k < len) (hk' : k' < len)
    (h : coefIdx ord len j ci k = coefIdx ord len j' ci' k') : j = j' ∧ ci = ci' ∧ k = k' := by
  unfold coefIdx at h
  have hlt : (ord + 1) * k + (ord - ci) < len * (ord + 1) := by
    have := Nat.mul_le_mul_right (ord + 1) (Nat.succ_le_of_lt hk); rw [Nat.succ_mul] at this
    rw [Nat.mul_comm (ord + 1) k]; omega
  have hlt' : (ord + 1) * k' + (ord - ci') < len * (ord + 1) := by
    have := Nat.mul_le_mul_right (ord + 1) (Nat.succ_le_of_lt hk'); rw [Nat.succ_mul] at this
    rw [Nat.mul_comm (ord + 1) k']; omega
  have h1 := @radix_unique (len * (ord + 1)) j ((ord + 1) * k + (ord - ci)) j' ((ord + 1) * k' + (ord - ci')) hlt hlt' (by omega)
  have h2 := @radix_unique (ord + 1) k (ord - ci) k' (ord - ci') (by omega) (by omega) h1.2
  exact ⟨h1.1, by omega, h2.1⟩

theorem coef4Idx_inj {ord len j ci k j' ci' k' : Nat} (h4 : len % 4 = 0) (hci : ci ≤ ord) (hci' : ci' ≤ ord) (hk : k < len)
    (hk' : k' < len) (h : coef4Idx ord len j ci k = coef4Idx ord len j' ci' k') : j = j' ∧ ci = ci' ∧ k = k' := by
  unfold coef4Idx at h
  -- inside one phase block: `4·((ord+1)·(k/4) + (ord−ci)) + k%4`
  have key : ∀ (k ci : Nat), ci ≤ ord → k < len →
      (ord + 1) * (k / 4 * 4) + 4 * (ord - ci) + k % 4 = 4 * ((ord + 1) * (k / 4) + (ord - ci)) + k % 4 ∧
      4 * ((ord + 1) * (k / 4) + (ord - ci)) + k % 4 < len * (ord + 1) := by
    intro k ci _ hk
    constructor
    · have e : (ord + 1) * (k / 4 * 4) = 4 * ((ord + 1) * (k / 4)) := by rw [Nat.mul_comm (k / 4) 4, Nat.mul_left_comm]
      rw [e]; omega
    · have hq : k / 4 + 1 ≤ len / 4 := by omega
      have := Nat.mul_le_mul_left (ord + 1) hq
      rw [Nat.mul_add, Nat.mul_one] at this
      have hl : len * (ord + 1) = 4 * ((ord + 1) * (len / 4)) := by
        have : len = 4 * (len / 4) := by omega
        calc len * (ord + 1) = (4 * (len / 4)) * (ord + 1) := by rw [← this]
          _ = 4 * ((ord + 1) * (len / 4)) := by rw [Nat.mul_assoc, Nat.mul_comm (len / 4)]
      omega
  obtain ⟨e1, l1⟩ := key k ci hci hk
  obtain ⟨e2, l2⟩ := key k' ci' hci' hk'
  have h1 := @radix_unique (len * (ord + 1)) j _ j' _ l1 l2 (by omega)
  have h2 := @radix_unique 4 ((ord + 1) * (k / 4) + (ord - ci)) (k % 4) ((ord + 1) * (k' / 4) + (ord - ci')) (k' % 4)
    (by omega) (by omega) h1.2
  have h3 := @radix_unique (ord + 1) (k / 4) (ord - ci) (k' / 4) (ord - ci') (by omega) (by omega) h2.1
  exact ⟨h1.1, by omega, by omega⟩

theorem coefIdx_lt {ord len P j ci k : Nat} (hj : j < P) (hk : k < len) : coefIdx ord len j ci k < len * P * (ord + 1) := by
  unfold coefIdx
  have hlt : (ord + 1) * k + (ord - ci) < len * (ord + 1) := by
    have := Nat.mul_le_mul_right (ord + 1) (Nat.succ_le_of_lt hk); rw [Nat.succ_mul] at this
    rw [Nat.mul_comm (ord + 1) k]; omega
  have := Nat.mul_le_mul_left (len * (ord + 1)) (Nat.succ_le_of_lt hj)
  rw [Nat.mul_succ] at this
  have e : len * P * (ord + 1) = len * (ord + 1) * P := by rw [Nat.mul_assoc, Nat.mul_comm P, ← Nat.mul_assoc]
  omega

theorem coef4Idx_lt {ord len P j ci k : Nat} (h4 : len % 4 = 0) (hci : ci ≤ ord) (hj : j < P) (hk : k < len) :
    coef4Idx ord len j ci k < len * P * (ord + 1) := by
  unfold coef4Idx
  have hlt : (ord + 1) * (k / 4 * 4) + 4 * (ord - ci) + k % 4 < len * (ord + 1) := by
    have hq : k / 4 + 1 ≤ len / 4 := by omega
    have := Nat.mul_le_mul_left (ord + 1) hq
    rw [Nat.mul_add, Nat.mul_one] at this
    have hl : len * (ord + 1) = 4 * ((ord + 1) * (len / 4)) := by
      have : len = 4 * (len / 4) := by omega
      calc len * (ord + 1) = (4 * (len / 4)) * (ord + 1) := by rw [← this]
        _ = 4 * ((ord + 1) * (len / 4)) := by rw [Nat.mul_assoc, Nat.mul_comm (len / 4)]
    have e : (ord + 1) * (k / 4 * 4) = 4 * ((ord + 1) * (k / 4)) := by
      have := Nat.mul_left_comm (ord + 1) 4 (k / 4)
      rw [Nat.mul_comm (k / 4) 4]; exact this
    omega
  have := Nat.mul_le_mul_left (len * (ord + 1)) (Nat.succ_le_of_lt hj)
  rw [Nat.mul_succ] at this
  have e : len * P * (ord + 1) = len * (ord + 1) * P := by rw [Nat.mul_assoc, Nat.mul_comm P, ← Nat.mul_assoc]
  omega

theorem nc4_ge (simd : Bool) (nc : Nat) : nc ≤ nc4 simd nc := by unfold nc4; split <;> omega
theorem nc4_mod (nc : Nat) : nc4 true nc % 4 = 0 := by unfold nc4; simp

variable {α : Type}

/-- the index macro of the call is injective on (phase, coefficient number ≤ order, tap < num_coefs4) -/
theorem Par.idx_inj (p : Par α) {j ci k j' ci' k' : Nat} (hci : ci ≤ p.ord) (hci' : ci' ≤ p.ord) (hk : k < p.len) (hk' : k' < p.len)
    (h : p.idx j ci k = p.idx j' ci' k') : j = j' ∧ ci = ci' ∧ k = k' := by
  unfold Par.idx at h
  cases hs : p.simd
  · simp [hs] at h; exact coefIdx_inj hci hci' hk hk' h
  · simp [hs] at h
    have h4 : p.len % 4 = 0 := by unfold Par.len; rw [hs]; exact nc4_mod _
    exact coef4Idx_inj h4 hci hci' hk hk' h

/-- every (phase < num_phases, coefficient number ≤ order, tap < num_coefs4) lies inside the allocation -/
theorem Par.idx_lt (p : Par α) {j ci k : Nat} (hj : j < p.P) (hci : ci ≤ p.ord) (hk : k < p.len) : p.idx j ci k < p.length := by
  unfold Par.idx Par.length
  cases hs : p.simd
  · simp; exact coefIdx_lt hj hk
  · simp
    have h4 : p.len % 4 = 0 := by unfold Par.len; rw [hs]; exact nc4_mod _
    exact coef4Idx_lt h4 hci hj hk

/-! ## `STORE` -/

theorem upd_same (t : Tbl α) (i : Nat) (v : α) : upd t i v i = v := by simp [upd]
theorem upd_other (t : Tbl α) {i x : Nat} (v : α) (h : x ≠ i) : upd t i v x = t x := by simp [upd, h]

theorem store_other (t : Tbl α) (ord : Nat) (idx : Nat → Nat) (e : Entry α) (x : Nat) (h : ∀ ci, ci ≤ ord → x ≠ idx ci) (hord : ord ≤ 3) :
    store t ord idx e x = t x := by
  have h0 := h 0 (by omega)
  unfold store
  rcases (by omega : ord = 0 ∨ ord = 1 ∨ ord = 2 ∨ ord = 3) with rfl | rfl | rfl | rfl
  · simp [upd, h0]
  · have h1 := h 1 (by omega); simp [upd, h0, h1]
  · have h1 := h 1 (by omega); have h2 := h 2 (by omega); simp [upd, h0, h1, h2]
  · have h1 := h 1 (by omega); have h2 := h 2 (by omega); have h3 := h 3 (by omega); simp [upd, h0, h1, h2, h3]

theorem store_get (t : Tbl α) (ord : Nat) (idx : Nat → Nat) (e : Entry α) (ci : Nat) (hci : ci ≤ ord) (hord : ord ≤ 3)
    (hinj : ∀ a b, a ≤ ord → b ≤ ord → idx a = idx b → a = b) : store t ord idx e (idx ci) = e.get ci := by
  have ne : ∀ a b, a ≤ ord → b ≤ ord → a ≠ b → idx a ≠ idx b := fun a b ha hb hab h => hab (hinj a b ha hb h)
  unfold store
  rcases (by omega : ord = 0 ∨ ord = 1 ∨ ord = 2 ∨ ord = 3) with rfl | rfl | rfl | rfl
  · have : ci = 0 := by omega
    subst this; simp [upd, Entry.get]
  · rcases (by omega : ci = 0 ∨ ci = 1) with rfl | rfl
    · simp [upd, Entry.get]
    · have := ne 1 0 (by omega) (by omega) (by omega); simp [upd, Entry.get, this]
  · rcases (by omega : ci = 0 ∨ ci = 1 ∨ ci = 2) with rfl | rfl | rfl
    · simp [upd, Entry.get]
    · have := ne 1 0 (by omega) (by omega) (by omega); simp [upd, Entry.get, this]
    · have a := ne 2 0 (by omega) (by omega) (by omega); have b := ne 2 1 (by omega) (by omega) (by omega)
      simp [upd, Entry.get, a, b]
  · rcases (by omega : ci = 0 ∨ ci = 1 ∨ ci = 2 ∨ ci = 3) with rfl | rfl | rfl | rfl
    · simp [upd, Entry.get]
    · have := ne 1 0 (by omega) (by omega) (by omega); simp [upd, Entry.get, this]
    · have a := ne 2 0 (by omega) (by omega) (by omega); have b := ne 2 1 (by omega) (by omega) (by omega)
      simp [upd, Entry.get, a, b]
    · have a := ne 3 0 (by omega) (by omega) (by omega); have b := ne 3 1 (by omega) (by omega) (by omega)
      have c := ne 3 2 (by omega) (by omega) (by omega)
      simp [upd, Entry.get, a, b, c]

/-! ## the loop invariant -/

/-- before the iteration with `i·num_phases + j = t − 1` (i.e. `t` iterations are still to come) -/
structure Inv (p : Par α) (t : Nat) (s : St α) : Prop where
  fm1 : s.fm1 = F p ((t : Int) - 2)
  f1 : s.f1 = F p ((t : Int) - 1)
  f2 : s.f2 = F p t
  tbl : ∀ i j ci, i < p.nc → j < p.P → ci ≤ p.ord → t ≤ i * p.P + j → s.tbl (p.idx j ci (p.len - 1 - i)) = (E p i j).get ci
  rest : ∀ x, (∀ i j ci, i < p.nc → j < p.P → ci ≤ p.ord → t ≤ i * p.P + j → x ≠ p.idx j ci (p.len - 1 - i)) → s.tbl x = p.o.zero

theorem len_ge (p : Par α) : p.nc ≤ p.len := nc4_ge _ _

theorem body_inv (p : Par α) (hord : p.ord ≤ 3) (i j : Nat) (hi : i < p.nc) (hj : j < p.P) (s : St α)
    (h : Inv p (i * p.P + j + 1) s) : Inv p (i * p.P + j) (body p i j s) := by
  have hlen := len_ge p
  have hinjc : ∀ a b, a ≤ p.ord → b ≤ p.ord → p.idx j a (p.len - 1 - i) = p.idx j b (p.len - 1 - i) → a = b := by
    intro a b ha hb hab
    exact (p.idx_inj ha hb (by omega) (by omega) hab).2.1
  have hE : comp p.o p.ord
      (if 0 < ((i : Int) * p.P + j - 1) then p.o.mul (p.coefs ((i : Int) * p.P + j - 1 - 1).toNat) p.mult else p.o.zero)
      s.fm1 s.f1 s.f2 = E p i j := by
    unfold E
    have e1 : (if 0 < ((i : Int) * p.P + j - 1) then p.o.mul (p.coefs ((i : Int) * p.P + j - 1 - 1).toNat) p.mult else p.o.zero)
        = F p ((i : Int) * p.P + j - 1 - 1) := by
      unfold F
      have hb : (i : Int) * p.P + j + 1 ≤ (p.nc : Int) * p.P := by
        have := Nat.mul_le_mul_right p.P (Nat.succ_le_of_lt hi); rw [Nat.succ_mul] at this
        have : i * p.P + j + 1 ≤ p.nc * p.P := by omega
        exact_mod_cast this
      by_cases hp : 0 < ((i : Int) * p.P + j - 1)
      · rw [if_pos hp, if_neg (by omega), if_neg (by omega), if_pos (by omega)]
      · rw [if_neg hp, if_neg (by omega), if_pos (by omega)]
    have c2 : ((i * p.P + j + 1 : Nat) : Int) - 2 = (i : Int) * p.P + j - 1 := by push_cast; omega
    have c3 : ((i * p.P + j + 1 : Nat) : Int) - 1 = (i : Int) * p.P + j - 1 + 1 := by push_cast; omega
    have c4 : ((i * p.P + j + 1 : Nat) : Int) = (i : Int) * p.P + j - 1 + 2 := by push_cast; omega
    have e2 : s.fm1 = F p ((i : Int) * p.P + j - 1) := by rw [h.fm1, c2]
    have e3 : s.f1 = F p ((i : Int) * p.P + j - 1 + 1) := by rw [h.f1, c3]
    have e4 : s.f2 = F p ((i : Int) * p.P + j - 1 + 2) := by rw [h.f2, c4]
    rw [e1, e2, e3, e4]
  constructor
  · -- fm1
    show (if 0 < ((i : Int) * p.P + j - 1) then _ else _) = _
    unfold F
    have hb : (i : Int) * p.P + j + 1 ≤ (p.nc : Int) * p.P := by
      have := Nat.mul_le_mul_right p.P (Nat.succ_le_of_lt hi); rw [Nat.succ_mul] at this
      have : i * p.P + j + 1 ≤ p.nc * p.P := by omega
      exact_mod_cast this
    have c1 : ((i * p.P + j : Nat) : Int) - 2 = (i : Int) * p.P + j - 1 - 1 := by push_cast; omega
    rw [c1]
    by_cases hp : 0 < ((i : Int) * p.P + j - 1)
    · rw [if_pos hp, if_neg (by omega), if_neg (by omega), if_pos (by omega)]
    · rw [if_neg hp, if_neg (by omega), if_pos (by omega)]
  · show s.fm1 = _
    have c2 : ((i * p.P + j + 1 : Nat) : Int) - 2 = ((i * p.P + j : Nat) : Int) - 1 := by push_cast; omega
    rw [h.fm1, c2]
  · show s.f1 = _
    have c3 : ((i * p.P + j + 1 : Nat) : Int) - 1 = ((i * p.P + j : Nat) : Int) := by push_cast; omega
    rw [h.f1, c3]
  · intro i' j' ci hi' hj' hci hge
    show store s.tbl p.ord (fun ci => p.idx j ci (p.len - 1 - i)) _ _ = _
    rw [hE]
    by_cases heq : i' * p.P + j' = i * p.P + j
    · obtain ⟨rfl, rfl⟩ := divmod_unique hj' hj heq
      exact store_get s.tbl p.ord (fun ci => p.idx j' ci (p.len - 1 - i')) _ ci hci hord hinjc
    · rw [store_other _ _ _ _ _ _ hord]
      · exact h.tbl i' j' ci hi' hj' hci (by omega)
      · intro a ha hx
        have hk1 : p.len - 1 - i' < p.len := by omega
        have hk2 : p.len - 1 - i < p.len := by omega
        obtain ⟨h1, _, h3⟩ := p.idx_inj hci ha hk1 hk2 hx
        apply heq
        have h4 : i' = i := by omega
        rw [h4, h1]
  · intro x hx
    show store s.tbl p.ord (fun ci => p.idx j ci (p.len - 1 - i)) _ _ = _
    rw [store_other _ _ _ _ _ _ hord]
    · exact h.rest x (fun i' j' ci hi' hj' hci hge => hx i' j' ci hi' hj' hci (by omega))
    · intro a ha
      exact hx i j a hi hj ha (Nat.le_refl _)

theorem inner_inv (p : Par α) (hord : p.ord ≤ 3) (i : Nat) (hi : i < p.nc) : ∀ (jn : Nat) (s : St α), jn ≤ p.P →
    Inv p (i * p.P + jn) s → Inv p (i * p.P) (inner p i jn s)
  | 0, s, _, h => h
  | jn + 1, s, hle, h => by
    unfold inner
    exact inner_inv p hord i hi jn _ (by omega) (body_inv p hord i jn hi (by omega) s h)

theorem outer_inv (p : Par α) (hord : p.ord ≤ 3) : ∀ (n : Nat) (s : St α), n ≤ p.nc → Inv p (n * p.P) s → Inv p 0 (outer p n s)
  | 0, s, _, h => by rw [Nat.zero_mul] at h; exact h
  | n + 1, s, hle, h => by
    unfold outer
    refine outer_inv p hord n _ (by omega) ?_
    have h' : Inv p (n * p.P + p.P) s := by rw [Nat.succ_mul] at h; exact h
    exact inner_inv p hord n (by omega) p.P s (Nat.le_refl _) h'

theorem F_ge (p : Par α) {q : Int} (h : (p.nc : Int) * p.P - 1 ≤ q) : F p q = p.o.zero := by
  unfold F
  rw [if_neg (by omega)]
  by_cases h0 : q < 0
  · rw [if_pos h0]
  · rw [if_neg h0, if_neg (by omega)]

theorem F_last (p : Par α) : F p ((p.nc : Int) * p.P - 2) = p.o.mul (p.coefs 0) p.mult := by
  unfold F; rw [if_pos rfl]

theorem init_inv (p : Par α) : Inv p (p.nc * p.P) (init p) := by
  have hc : ((p.nc * p.P : Nat) : Int) = (p.nc : Int) * p.P := Int.natCast_mul _ _
  constructor
  · show p.o.mul (p.coefs 0) p.mult = _
    rw [hc, F_last]
  · show p.o.zero = _
    rw [hc, F_ge p (by omega)]
  · show p.o.zero = _
    rw [hc, F_ge p (by omega)]
  · intro i j _ hi hj _ hge
    have := Nat.mul_le_mul_right p.P (Nat.succ_le_of_lt hi); rw [Nat.succ_mul] at this
    omega
  · intro x _; rfl

/-- **the loop computes the closed form**: after `prepare_poly_fir_coefs` the table holds at `(phase j, coefficient number ci,
    tap num_coefs4 − 1 − i)` the `ci`-th polynomial coefficient formed from the four scaled prototype taps around position
    `i·num_phases + j − 1`, and zero (what `calloc` left) at every other index -/
theorem prep_spec (p : Par α) (hord : p.ord ≤ 3) :
    (∀ i j ci, i < p.nc → j < p.P → ci ≤ p.ord → prep p (p.idx j ci (p.len - 1 - i)) = (E p i j).get ci) ∧
    (∀ x, (∀ i j ci, i < p.nc → j < p.P → ci ≤ p.ord → x ≠ p.idx j ci (p.len - 1 - i)) → prep p x = p.o.zero) := by
  have h := outer_inv p hord p.nc (init p) (Nat.le_refl _) (init_inv p)
  exact ⟨fun i j ci hi hj hci => h.tbl i j ci hi hj hci (Nat.zero_le _),
         fun x hx => h.rest x (fun i j ci hi hj hci _ => hx i j ci hi hj hci)⟩

end Soxr.Cr.CoefTable
