import SoxrModel.Cr.EarlyNat
import SoxrModel.Cr.Schedule
/-!
# The engine model with additive kernels is additive (superposition for the real control flow)

Control is data-independent, so for kernels that are additive in their window (`K.eval … (w₁ + w₂) = K.eval … w₁ +
K.eval … w₂`: FIR dot products, DFT block convolutions, the cubic — in exact arithmetic) the canonical stream of the
sum of two inputs is the sum of the canonical streams.  Stated on the pipeline invariant, so it holds for the state
reached by ANY run of the engine model (any schedule), not for an idealised filter bank.
-/
namespace Soxr.Cr

variable {α : Type}

/-- pointwise sum of two sample lists -/
def ladd [Add α] (a b : List α) : List α := List.zipWith (· + ·) a b

theorem ladd_length [Add α] (a b : List α) (h : a.length = b.length) : (ladd a b).length = a.length := by
  simp [ladd, h]

theorem ladd_append [Add α] (a1 a2 b1 b2 : List α) (h : a1.length = b1.length) :
    ladd (a1 ++ a2) (b1 ++ b2) = ladd a1 b1 ++ ladd a2 b2 := by
  unfold ladd; exact List.zipWith_append h

theorem ladd_window [Add α] (a b : List α) (p n : Nat) :
    ((ladd a b).drop p).take n = ladd ((a.drop p).take n) ((b.drop p).take n) := by
  unfold ladd; rw [List.drop_zipWith, List.take_zipWith]

theorem ladd_replicate [Add α] (z : α) (hz : z + z = z) (n : Nat) : ladd (List.replicate n z) (List.replicate n z) = List.replicate n z := by
  induction n with
  | zero => rfl
  | succ n ih => simp only [List.replicate_succ, ladd, List.zipWith_cons_cons, hz] at ih ⊢; rw [ih]

/-- the kernels are additive in the window -/
def KAdd [Add α] (K : Kern α) : Prop :=
  ∀ (c : StageCfg) (p1 p2 p3 : Nat) (w1 w2 : List α), w1.length = w2.length →
    K.eval c p1 p2 p3 (ladd w1 w2) = K.eval c p1 p2 p3 w1 + K.eval c p1 p2 p3 w2

theorem out_add [Add α] (K : Kern α) (hK : KAdd K) (c : StageCfg) (s0 : StageSt) (u : Nat) (w1 w2 : List α) (h : w1.length = w2.length) :
    (unitSem K c s0).out u (ladd w1 w2) = ladd ((unitSem K c s0).out u w1) ((unitSem K c s0).out u w2) := by
  unfold unitSem
  cases hk : c.kind <;> simp only
  · rw [hK c 0 0 0 w1 w2 h]; rfl
  · rw [hK c _ 0 0 w1 w2 h]; rfl
  · generalize (List.range (dftProduced c (dctl c s0 u).2.2).1) = r
    induction r with
    | nil => rfl
    | cons j t ih =>
      simp only [List.map_cons]
      rw [ih, hK c _ _ j w1 w2 h]
      rfl

theorem G_add_lists [Add α] (K : Kern α) (hK : KAdd K) (c : StageCfg) (s0 : StageSt) (h1 h2 : List α) (hl : h1.length = h2.length) :
    ∀ m, (unitSem K c s0).G m (ladd h1 h2) = ladd ((unitSem K c s0).G m h1) ((unitSem K c s0).G m h2) := by
  intro m
  induction m with
  | zero => rfl
  | succ m ih =>
    simp only [UnitSem.G, ih]
    have hw : (unitSem K c s0).window m (ladd h1 h2) = ladd ((unitSem K c s0).window m h1) ((unitSem K c s0).window m h2) := by
      unfold UnitSem.window; exact ladd_window h1 h2 _ _
    have hwl : ((unitSem K c s0).window m h1).length = ((unitSem K c s0).window m h2).length := by
      unfold UnitSem.window; simp [hl]
    rw [hw, out_add K hK c s0 m _ _ hwl]
    have hg : ((unitSem K c s0).G m h1).length = ((unitSem K c s0).G m h2).length := by rw [G_length, G_length]
    exact (ladd_append _ _ _ _ hg).symm

/-- the stateless part of the pipeline invariant: `src` is a canonical stream of the plan for bottom input `inp` -/
inductive CInv (K : Kern α) (z : α) : Plan → List α → List α → Prop
  | nil (inp : List α) : CInv K z [] inp inp
  | cons {ps : Plan} {inp s : List α} (c : StageCfg) (s0 : StageSt) (m : Nat) :
      CInv K z ps inp s → (unitSem K c s0).Stable m (List.replicate s0.occ z ++ s) →
      CInv K z ((c, s0) :: ps) inp ((unitSem K c s0).G m (List.replicate s0.occ z ++ s))

theorem PInv.toCInv {K : Kern α} {z : α} {plan : Plan} {l : List (DStage α)} {inp src : List α} (h : PInv K z plan l inp src) :
    CInv K z plan inp src := by
  induction h with
  | nil inp => exact CInv.nil inp
  | cons c s0 x m _ hx ih => exact CInv.cons c s0 m ih hx.stable

theorem CInv_comparable (K : Kern α) (z : α) : ∀ (plan : Plan) (i1 i2 s1 s2 : List α),
    CInv K z plan i1 s1 → CInv K z plan i2 s2 → Comparable i1 i2 → Comparable s1 s2 := by
  intro plan i1 i2 s1 s2 h1
  induction h1 generalizing i2 s2 with
  | nil inp => intro h2 hc; cases h2; exact hc
  | cons c s0 m _ hst ih =>
    intro h2 hc
    cases h2 with
    | cons _ _ m2 hb2 hst2 =>
      exact UnitSem.G_comparable _ (comparable_append_left _ (ih _ _ hb2 hc)) hst hst2

/-- a canonical stream of the sum of two inputs is the sum of canonical streams of the inputs, with the same units -/
theorem CInv_add [Add α] (K : Kern α) (hK : KAdd K) (z : α) (hz : z + z = z) : ∀ (plan : Plan) (x y s3 : List α), x.length = y.length →
    CInv K z plan (ladd x y) s3 →
    ∃ s1 s2, CInv K z plan x s1 ∧ CInv K z plan y s2 ∧ s3 = ladd s1 s2 ∧ s1.length = s2.length := by
  intro plan
  induction plan with
  | nil => intro x y s3 hl h; cases h; exact ⟨x, y, CInv.nil x, CInv.nil y, rfl, hl⟩
  | cons p ps ih =>
    intro x y s3 hl h
    cases h with
    | @cons _ _ s c s0 m hb hst =>
      obtain ⟨sa, sb, ha, hb', hs, hlen⟩ := ih x y s hl hb
      subst hs
      have hpre : List.replicate s0.occ z ++ ladd sa sb = ladd (List.replicate s0.occ z ++ sa) (List.replicate s0.occ z ++ sb) := by
        rw [ladd_append _ _ _ _ rfl, ladd_replicate z hz]
      have hlh : (List.replicate s0.occ z ++ sa).length = (List.replicate s0.occ z ++ sb).length := by simp [hlen]
      have hl3 : (List.replicate s0.occ z ++ ladd sa sb).length = (List.replicate s0.occ z ++ sa).length := by
        simp [ladd_length sa sb hlen]
      have sta : (unitSem K c s0).Stable m (List.replicate s0.occ z ++ sa) := by
        intro u hu; have := hst u hu; rw [hl3] at this; exact this
      have stb : (unitSem K c s0).Stable m (List.replicate s0.occ z ++ sb) := by
        intro u hu; have := hst u hu; rw [hl3, hlh] at this; exact this
      refine ⟨_, _, CInv.cons c s0 m ha sta, CInv.cons c s0 m hb' stb, ?_, by rw [G_length, G_length]⟩
      rw [hpre, G_add_lists K hK c s0 _ _ hlh]

/-- **Superposition for the engine model.**  Three states of the same plan — reached by any runs whatever — whose bottom
    inputs are `x`, `y` and `x + y` and whose canonical streams are equally long: the stream of the sum is the sum of
    the streams, sample by sample. -/
theorem engine_superposition [Add α] (K : Kern α) (hK : KAdd K) (z : α) (hz : z + z = z) (plan : Plan)
    (l1 l2 l3 : List (DStage α)) (x y s1 s2 s3 : List α) (hl : x.length = y.length)
    (h1 : PInv K z plan l1 x s1) (h2 : PInv K z plan l2 y s2) (h3 : PInv K z plan l3 (ladd x y) s3)
    (e1 : s1.length = s3.length) (e2 : s2.length = s3.length) : s3 = ladd s1 s2 := by
  obtain ⟨t1, t2, c1, c2, hs, hlen⟩ := CInv_add K hK z hz plan x y s3 hl h3.toCInv
  have l3 : s3.length = t1.length := by rw [hs, ladd_length _ _ hlen]
  have q1 : t1 = s1 := (CInv_comparable K z plan x x t1 s1 c1 h1.toCInv (Comparable.refl x)).eq_of_length (by omega)
  have q2 : t2 = s2 := (CInv_comparable K z plan y y t2 s2 c2 h2.toCInv (Comparable.refl y)).eq_of_length (by omega)
  rw [hs, q1, q2]

/-! ## homogeneity -/

/-- every sample multiplied by `a` -/
def lsmul [Mul α] (a : α) (l : List α) : List α := l.map (a * ·)

/-- the kernels commute with scaling of the window -/
def KSmul [Mul α] (K : Kern α) : Prop :=
  ∀ (c : StageCfg) (p1 p2 p3 : Nat) (a : α) (w : List α), K.eval c p1 p2 p3 (lsmul a w) = a * K.eval c p1 p2 p3 w

theorem out_smul [Mul α] (K : Kern α) (hK : KSmul K) (c : StageCfg) (s0 : StageSt) (u : Nat) (a : α) (w : List α) :
    (unitSem K c s0).out u (lsmul a w) = lsmul a ((unitSem K c s0).out u w) := by
  unfold unitSem
  cases hk : c.kind <;> simp only
  · rw [hK]; rfl
  · rw [hK]; rfl
  · simp only [lsmul, List.map_map]
    apply List.map_congr_left
    intro j _
    exact hK c _ _ j a w

theorem G_smul_lists [Mul α] (K : Kern α) (hK : KSmul K) (c : StageCfg) (s0 : StageSt) (a : α) (h : List α) :
    ∀ m, (unitSem K c s0).G m (lsmul a h) = lsmul a ((unitSem K c s0).G m h) := by
  intro m
  induction m with
  | zero => rfl
  | succ m ih =>
    simp only [UnitSem.G, ih]
    have hw : (unitSem K c s0).window m (lsmul a h) = lsmul a ((unitSem K c s0).window m h) := by
      unfold UnitSem.window lsmul; rw [← List.map_drop, ← List.map_take]
    rw [hw, out_smul K hK]
    simp [lsmul]

/-- **Homogeneity for the engine model**: a canonical stream of `a·x` is `a` times a canonical stream of `x` with the
    same units (`a·z = z` for the zero sample the FIFOs are preloaded with). -/
theorem CInv_smul [Mul α] (K : Kern α) (hK : KSmul K) (z : α) (a : α) (hz : a * z = z) : ∀ (plan : Plan) (x s : List α),
    CInv K z plan (lsmul a x) s → ∃ t, CInv K z plan x t ∧ s = lsmul a t := by
  intro plan
  induction plan with
  | nil => intro x s h; cases h; exact ⟨x, CInv.nil x, rfl⟩
  | cons p ps ih =>
    intro x s h
    cases h with
    | @cons _ _ s' c s0 m hb hst =>
      obtain ⟨t, ht, hs⟩ := ih x s' hb
      subst hs
      have hpre : List.replicate s0.occ z ++ lsmul a t = lsmul a (List.replicate s0.occ z ++ t) := by
        simp [lsmul, hz]
      have hlen : (List.replicate s0.occ z ++ lsmul a t).length = (List.replicate s0.occ z ++ t).length := by simp [lsmul]
      have st : (unitSem K c s0).Stable m (List.replicate s0.occ z ++ t) := by
        intro u hu; have := hst u hu; rw [hlen] at this; exact this
      exact ⟨_, CInv.cons c s0 m ht st, by rw [hpre, G_smul_lists K hK]⟩

theorem engine_homogeneity [Mul α] (K : Kern α) (hK : KSmul K) (z : α) (a : α) (hz : a * z = z) (plan : Plan)
    (l1 l2 : List (DStage α)) (x s1 s2 : List α) (h1 : PInv K z plan l1 x s1) (h2 : PInv K z plan l2 (lsmul a x) s2)
    (e : s1.length = s2.length) : s2 = lsmul a s1 := by
  obtain ⟨t, ct, hs⟩ := CInv_smul K hK z a hz plan x s2 h2.toCInv
  have hl : t.length = s1.length := by rw [e, hs]; simp [lsmul]
  have q : t = s1 := (CInv_comparable K z plan x x t s1 ct h1.toCInv (Comparable.refl x)).eq_of_length hl
  rw [hs, q]

end Soxr.Cr
